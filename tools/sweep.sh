#!/bin/bash
# sweep.sh <seed> [tier] : run every claimed check once with the given seed; print rc and wall time
seed=${1:-1}; tier=${2:-quick}
cd /verif
for p in $(cat tools/claimed.txt); do
  s=$(date +%s); out=$(VERIF_SEED=$seed ./check $p --tier $tier 2>&1); rc=$?; e=$(date +%s)
  echo "$p seed=$seed rc=$rc $((e-s))s $(echo "$out" | grep -c '^VIOLATION') violations $(echo "$out" | grep -c '^KNOWN-FINDING') known"
  if [ $rc -ne 0 ]; then echo "$out" | grep -E "^VIOLATION|  ->|Error" | head -5; fi
done
