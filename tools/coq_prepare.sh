#!/bin/bash
# Regenerate _CoqProject / Makefile.coq when the set of .v files changed (generated files included).
set -e
cd /verif/coq
{ echo "-Q . AV"; echo "-arg -w -arg -notation-overridden,-deprecated"; find . -name '*.v' ! -path './.work/*' | sed 's|^\./||' | LC_ALL=C sort; } > _CoqProject.new
if ! cmp -s _CoqProject.new _CoqProject || [ ! -f Makefile.coq ]; then
  mv _CoqProject.new _CoqProject
  coq_makefile -f _CoqProject -o Makefile.coq >/dev/null
else
  rm -f _CoqProject.new
fi
