#!/venv/bin/python
"""update_pins.py Cxx [Cyy ...] : record the current normalised source hashes of the functions listed in
harness/cxx.py:PINS into coq/Cxx/pins.json.  Run only after the hand model has been re-synced to an accepted
change of /repo (the lead does this; checks never write pins)."""
import importlib, sys
sys.path.insert(0, "/verif/harness")
import common
for pid in sys.argv[1:]:
    mod = importlib.import_module(pid.lower())
    pins = getattr(mod, "PINS", None)
    if not pins:
        print(pid, "has no PINS"); continue
    common.source_pins(pid.upper(), pins, update=True)
    missing = [f"{r}::{q}" for r, q in pins if common._norm_func_src(f"{common.REPO}/{r}", q) is None]
    print(pid, "pinned", len(pins), "functions", ("MISSING: " + ", ".join(missing)) if missing else "")
