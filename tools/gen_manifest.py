#!/venv/bin/python
"""Regenerate /verif/MANIFEST.json from the MANIFEST dict of every harness/cXX.py module.
Properties without a module (or whose module sets CLAIMED = False) are listed under not_applicable."""
import importlib
import json
import os
import sys

sys.path.insert(0, "/verif/harness")
props = [json.loads(l) for l in open("/verif/properties.jsonl")]
checks, na = [], []
# only properties the lead has reviewed (check passes on the unchanged tree, files committed) are claimed
reviewed = set(open("/verif/tools/claimed.txt").read().split())
for p in props:
    pid = p["id"]
    path = f"/verif/harness/{pid.lower()}.py"
    mod = None
    if pid in reviewed and os.path.exists(path):
        mod = importlib.import_module(pid.lower())
    if mod is None or not getattr(mod, "CLAIMED", True) or not hasattr(mod, "MANIFEST"):
        reason = getattr(mod, "NOT_CLAIMED_REASON", None) if mod else None
        na.append({"property_id": pid, "reason": reason or "machinery for this property is not finished yet (see DESIGN.md section 8); not claimed"})
        continue
    m = mod.MANIFEST
    checks.append({
        "property_id": pid,
        "quick_cmd": f"./check {pid} --tier quick",
        "thorough_cmd": f"./check {pid} --tier thorough",
        "evidence_file": f"/verif/evidence/{pid}.json",
        "replay_cmd_template": f"./check {pid} --replay {{path}}",
        "engine": "coq-proof+correspondence",
        "level_claimed": {"category": "proof", "text": m["level_text"], "design_ref": f"DESIGN.md section 6/{pid}"},
        "level_note": m["level_note"],
        "technique": m["technique"],
    })
man = {
    "version": 1,
    "setup_cmd": "bash /verif/setup.sh",
    "hooks": {
        "guard": "AUTODE_VERIF",
        "enable": "no hooks are compiled into /repo: every observation is made by wrapping public callables from the harness process (AUTODE_VERIF is reserved and unused)",
        "baseline_off_cmd": "cd /repo && /venv/bin/python -m pytest -ra -q -p no:cacheprovider --timeout=900 --continue-on-collection-errors",
        "source_commits": [],
        "add_only": True,
    },
    "engines": [{
        "name": "coq-proof+correspondence", "path": "/verif/check",
        "serves_properties": [c["property_id"] for c in checks],
        "kind_free_text": "Rocq/Coq 8.16.1 theorems over executable Gallina models (coq/), tied to /repo on every run by fail-closed Python-ast translators (tr/) and/or a correspondence check that runs model (vm_compute) and implementation on the same generated inputs (harness/)",
    }],
    "checks": checks,
    "not_applicable": na,
    "notes": "See DESIGN.md.  known_findings.json lists genuine defects (known / fixed).  `bash setup.sh` builds the Coq project; each check rebuilds its slice from /repo's working tree.",
}
json.dump(man, open("/verif/MANIFEST.json", "w"), indent=1)
print(f"MANIFEST.json: {len(checks)} checks, {len(na)} not claimed")
