#!/bin/bash
# cross_eval.sh <patch.diff> <Cxx> [<Cyy> ...] : run the quick checks of the given properties against a scratch worktree with the patch applied
patch=$1; shift
wt=/tmp/cross_eval_$$
git -C /repo worktree add -q -f --detach $wt HEAD && cp /repo/*.so $wt/
(git -C $wt apply --3way $patch 2>/dev/null || git -C $wt apply $patch) || echo "PATCH DID NOT APPLY"
git -C $wt diff --stat | tail -1
for p in "$@"; do
  out=$(cd /verif && VERIF_REPO=$wt ./check $p --tier quick 2>&1); rc=$?
  echo "$p rc=$rc"; echo "$out" | grep -E "^VIOLATION|  ->" | head -4
done
git -C /repo worktree remove --force $wt
for p in "$@"; do (cd /verif && ./check $p --tier quick >/dev/null 2>&1); done
