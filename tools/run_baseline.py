#!/usr/bin/env python3
"""Run the pinned test suite (BASELINE.json cmd) and report stable_pass tests that did not pass."""
import json, subprocess, sys, tempfile, os, xml.etree.ElementTree as ET
base = json.load(open('/root/.vp/BASELINE.json'))
out = tempfile.mktemp(suffix='.xml', dir='/var/tmp')
cmd = base['cmd'].replace('<file>', out)
p = subprocess.run(cmd, shell=True, stdout=subprocess.PIPE, stderr=subprocess.STDOUT, text=True)
passed = set()
for tc in ET.parse(out).getroot().iter('testcase'):
    if not any(c.tag in ('failure', 'error', 'skipped') for c in tc):
        passed.add(f"{tc.get('classname')}::{tc.get('name')}")
os.remove(out)
missing = [t for t in base['stable_pass'] if t not in passed]
print(f"stable_pass={len(base['stable_pass'])} passed_now={len(passed)} missing={len(missing)}")
for m in missing: print("  MISSING", m)
sys.exit(1 if missing else 0)
