#!/usr/bin/env python3
"""seeded_eval.py <PID> <src_dir> [--suite]
Evaluate one seeded change: <src_dir> holds patch.diff, demo.py, meta.json produced by an independent
sub-agent.  Confirms in a scratch worktree (/tmp/seed_eval_<PID>) that the demo passes without and fails
with the change, optionally that the pinned suite still passes, then runs the quick check of <PID>
against that worktree (VERIF_REPO) and records everything in /verif/seeded/<name>/meta.json."""
import json, os, shutil, subprocess, sys, time
pid, src = sys.argv[1], os.path.abspath(sys.argv[2])
suite = "--suite" in sys.argv
rnd = "r2-" if "/mut2_" in src else ("r3-" if "/mut3_" in src else ("r4-" if "/mut4_" in src else ""))
name = f"{pid}-{rnd}{os.path.basename(src.rstrip('/'))}"
if src.startswith("/verif/seeded/"):
    name = os.path.basename(src.rstrip("/"))  # re-evaluation in place
wt = f"/tmp/seed_eval_{pid}_{os.getpid()}"
def sh(cmd, **kw):
    p = subprocess.run(cmd, shell=True, stdout=subprocess.PIPE, stderr=subprocess.STDOUT, text=True, **kw)
    return p.returncode, p.stdout
sh(f"git -C /repo worktree add -f --detach {wt} HEAD && cp /repo/*.so {wt}/")
res = {"property": pid, "source": src}
try:
    demo = f"cd {wt} && PYTHONPATH={wt} timeout 900 /venv/bin/python {src}/demo.py"
    rc0, out0 = sh(demo)
    res["demo_clean_rc"] = rc0
    pfile = f"{src}/patch.rebased.diff" if os.path.exists(f"{src}/patch.rebased.diff") else f"{src}/patch.diff"
    rc, out = sh(f"git -C {wt} apply {pfile}")
    if rc != 0:
        sh(f"git -C {wt} checkout -- .")
        rc, out = sh(f"git -C {wt} apply --3way {pfile}")
    conflict = sh(f"grep -rl '^<<<<<<< ' {wt}/autode | head -1")[1].strip()
    res["patch_file"] = os.path.basename(pfile)
    res["patch_applies"] = (rc == 0 and not conflict and sh(f"git -C {wt} diff --stat")[1].strip() != "")
    rc1, out1 = sh(demo)
    res["demo_mutated_rc"] = rc1
    res["demo_mutated_tail"] = out1[-600:]
    if suite:
        rcs, outs = sh(f"python3 /tmp/mut_tools/run_tests.py {wt}")
        res["suite"] = outs.strip().split("\n")[0] if outs.strip() else "?"
        res["suite_rc"] = rcs
    t = time.time()
    rcc, outc = sh(f"cd /verif && VERIF_REPO={wt} ./check {pid} --tier quick")
    res["check_rc"] = rcc
    res["check_wall_s"] = round(time.time() - t, 1)
    res["check_violation_lines"] = [l for l in outc.split("\n") if l.startswith("VIOLATION") or "  ->" in l][:8]
    res["detected"] = (rcc == 1 and any(l.startswith("VIOLATION") for l in outc.split("\n")))
    res["detected_with_failing_input"] = any(l.startswith("VIOLATION") and "no-failing-input-found" not in l for l in outc.split("\n"))
finally:
    sh(f"git -C /repo worktree remove --force {wt}")
    # restore generated files / evidence for the real tree
    sh(f"cd /verif && ./check {pid} --tier quick")
dst = f"/verif/seeded/{name}"
os.makedirs(dst, exist_ok=True)
for f in ("patch.diff", "demo.py", "patch.rebased.diff"):
    if os.path.exists(os.path.join(src, f)):
        if os.path.abspath(src) != os.path.abspath(dst):
            shutil.copy(os.path.join(src, f), dst)
meta = json.load(open(os.path.join(src, "meta.json"))) if os.path.exists(os.path.join(src, "meta.json")) else {}
meta.update({"breaks_property": pid, "evaluation": res,
             "what_was_run": f"demo on clean + mutated scratch worktree; {'pinned suite via run_tests.py; ' if suite else ''}VERIF_REPO=<worktree> ./check {pid} --tier quick"})
json.dump(meta, open(os.path.join(dst, "meta.json"), "w"), indent=1)
print(json.dumps(res, indent=1))
