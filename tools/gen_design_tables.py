#!/usr/bin/env python3
"""Rewrite the generated tables of DESIGN.md (between BEGIN/END markers) from known_findings.json and seeded/*/meta.json."""
import glob, json, os, re
D = "/verif/DESIGN.md"
s = open(D).read()
k = json.load(open("/verif/known_findings.json"))["findings"]
props = sorted({f["property"] for f in k})
rows = ["| property | repaired in /repo (`fix:` commit: what failed) | still open, listed `known` (key: what fails) |", "|---|---|---|"]
for p in props:
    fx = [f for f in k if f["property"] == p and f["status"] == "fixed"]
    kn = [f for f in k if f["property"] == p and f["status"] == "known"]
    a = "<br>".join(f"`{f['commit']}`: " + re.sub(r"^fixed: property=\S+ \S+ ", "", f["what"]).replace("|", "\\|") for f in fx) or "—"
    b = "<br>".join(f"`{f['key']}`: ".replace("|", "\\|") + f["what"].replace("|", "\\|") for f in kn) or "—"
    rows.append(f"| {p} | {a} | {b} |")
findings = "\n".join(rows)
rows = ["| seeded change | what it does / what it needs to manifest | caught by `./check` (quick) | how |", "|---|---|---|---|"]
for d in sorted(glob.glob("/verif/seeded/*")):
    m = json.load(open(d + "/meta.json")); e = m.get("evaluation", {})
    how = "; ".join(l.split("->", 1)[1].strip()[:140] for l in e.get("check_violation_lines", []) if "->" in l)[:300].replace("|", "\\|")
    det = "yes (concrete replay)" if e.get("detected_with_failing_input") else ("yes (no-failing-input-found)" if e.get("detected") else "**NO**")
    summ = (m.get("summary", "") + " — needs: " + m.get("needs_to_manifest", "")).replace("|", "\\|").replace("\n", " ")[:420]
    rows.append(f"| {os.path.basename(d)} | {summ} | {det} | {how} |")
seeded = "\n".join(rows)
def put(tag, body, s):
    b, e = f"<!-- BEGIN:{tag} -->", f"<!-- END:{tag} -->"
    if b not in s:
        return s
    return s[:s.index(b) + len(b)] + "\n" + body + "\n" + s[s.index(e):]
man = json.load(open("/verif/MANIFEST.json"))
asb = []
for c in man["checks"]:
    pid = c["property_id"]
    ev = {}
    try:
        ev = json.load(open(f"/verif/evidence/{pid}.json"))["coverage"]
    except Exception:
        pass
    asb.append(f"**{pid}** — technique: {c.get('technique','')}.  \n*Claim:* {c['level_claimed']['text']}  \n*Trusted / partial:* {c['level_note']}  \n"
               f"*Last evidence:* {ev.get('obligations','?')} theorems discharged ({ev.get('closed_theorems','?')} closed under the global context; axioms: "
               f"{', '.join(ev.get('axioms_print_assumptions', [])) or 'none'}), {ev.get('evaluations','?')} evaluated cases "
               f"({ev.get('distinct_nontrivial','?')} distinct non-trivial).\n")
s = put("findings", findings, s); s = put("seeded", seeded, s); s = put("asbuilt", "\n".join(asb), s)
open(D, "w").write(s)
print("DESIGN.md tables regenerated:", len(k), "findings,", len(glob.glob('/verif/seeded/*')), "seeded changes")
