(* C04/Lemmas.v — lemmas about the model of Model.v. *)
From Coq Require Import String Ascii.
From Coq Require Import Decimal DecimalString DecimalNat.
From Coq Require Import Arith List Bool Lia Sorting.Sorted Permutation.
From AV.C04 Require Import Model.
Import ListNotations.
Open Scope list_scope.
Open Scope nat_scope.

(* ================================================================== unordered edges *)
Definition eq_u (a b : edge) : Prop := a = b \/ a = flip b.
Definition In_u (e : edge) (l : list edge) : Prop := exists x, In x l /\ eq_u x e.
Definition adj (g : graph) (i j : nat) : Prop := In_u (i, j) (g_edges g).
Definition equiv_l (l l' : list edge) : Prop := forall e, In_u e l <-> In_u e l'.

Lemma edge_eqb_eq a b : edge_eqb a b = true <-> a = b.
Proof.
  destruct a as [a1 a2], b as [b1 b2]. unfold edge_eqb; cbn.
  rewrite andb_true_iff, !Nat.eqb_eq. split; [intros [-> ->]; reflexivity | intros H; inversion H; auto].
Qed.
Lemma edge_eqb_refl a : edge_eqb a a = true.
Proof. apply edge_eqb_eq; reflexivity. Qed.
Lemma key_eqb_eq (a b : key) : key_eqb a b = true <-> a = b.
Proof. exact (edge_eqb_eq a b). Qed.
Lemma key_eqb_refl (a : key) : key_eqb a a = true.
Proof. apply key_eqb_eq; reflexivity. Qed.
Lemma key_eq_dec (a b : key) : {a = b} + {a <> b}.
Proof. decide equality; apply Nat.eq_dec. Qed.
Lemma key_eqb_neq (a b : key) : a <> b -> key_eqb a b = false.
Proof. intros H. destruct (key_eqb a b) eqn:E; auto. apply key_eqb_eq in E. contradiction. Qed.
Lemma edge_eq_dec (a b : edge) : {a = b} + {a <> b}.
Proof. decide equality; apply Nat.eq_dec. Qed.

Lemma flip_flip e : flip (flip e) = e.
Proof. destruct e; reflexivity. Qed.
Lemma eq_u_refl a : eq_u a a.
Proof. left; reflexivity. Qed.
Lemma eq_u_sym a b : eq_u a b -> eq_u b a.
Proof. intros [->| ->]; [left; reflexivity| right; rewrite flip_flip; reflexivity]. Qed.
Lemma eq_u_trans a b c : eq_u a b -> eq_u b c -> eq_u a c.
Proof.
  intros [->| ->] [->| ->]; try rewrite flip_flip; [left|right|right|left]; reflexivity.
Qed.
Lemma eq_u_flip a : eq_u (flip a) a.
Proof. right; reflexivity. Qed.

Lemma same_u_iff a b : same_u a b = true <-> eq_u a b.
Proof. unfold same_u, eq_u. rewrite orb_true_iff, !edge_eqb_eq. tauto. Qed.

Lemma norm_eq_u e : eq_u (norm e) e.
Proof.
  destruct e as [a b]. unfold norm; cbn [fst snd]. destruct (a <? b); [left|right]; reflexivity.
Qed.
Lemma norm_iff a b : norm a = norm b <-> eq_u a b.
Proof.
  split.
  - intros H. eapply eq_u_trans; [apply eq_u_sym, norm_eq_u|]. rewrite H. apply norm_eq_u.
  - destruct a as [a1 a2], b as [b1 b2]. intros [H|H]; inversion H; subst; unfold norm; cbn [fst snd]; auto.
    destruct (b2 <? b1) eqn:E1, (b1 <? b2) eqn:E2; auto.
    + apply Nat.ltb_lt in E1, E2. lia.
    + apply Nat.ltb_ge in E1, E2. assert (b1 = b2) by lia. subst; reflexivity.
Qed.
Lemma norm_norm e : norm (norm e) = norm e.
Proof. apply norm_iff, norm_eq_u. Qed.
Lemma norm_le e : fst (norm e) <= snd (norm e).
Proof.
  destruct e as [a b]; unfold norm; cbn [fst snd]. destruct (a <? b) eqn:E; cbn [fst snd].
  - apply Nat.ltb_lt in E; lia.
  - apply Nat.ltb_ge in E; lia.
Qed.

Lemma in_l_iff e l : in_l e l = true <-> In e l.
Proof.
  unfold in_l. rewrite existsb_exists. split.
  - intros [x [Hx E]]. apply edge_eqb_eq in E. subst; auto.
  - intros H. exists e. split; auto. apply edge_eqb_refl.
Qed.
Lemma has_edge_iff l e : has_edge l e = true <-> In_u e l.
Proof.
  unfold has_edge, In_u. rewrite orb_true_iff, !in_l_iff. split.
  - intros [H|H]; [exists e; split; [auto|apply eq_u_refl] | exists (flip e); split; [auto|apply eq_u_flip]].
  - intros [x [Hx [->| ->]]]; auto.
Qed.
Lemma has_edge_false l e : has_edge l e = false <-> ~ In_u e l.
Proof. rewrite <- has_edge_iff. destruct (has_edge l e); split; congruence. Qed.

Lemma In_u_norm e l : In_u e l <-> In (norm e) (map norm l).
Proof.
  unfold In_u. rewrite in_map_iff. split.
  - intros [x [Hx E]]. exists x. split; auto. apply norm_iff; auto.
  - intros [x [E Hx]]. exists x. split; auto. apply norm_iff; auto.
Qed.
Lemma In_u_eq_u a b l : eq_u a b -> In_u a l -> In_u b l.
Proof. intros E [x [Hx E']]. exists x. split; auto. eapply eq_u_trans; eauto. Qed.
Lemma In_In_u e l : In e l -> In_u e l.
Proof. intros H. exists e. split; auto. apply eq_u_refl. Qed.
Lemma In_u_app e l l' : In_u e (l ++ l') <-> In_u e l \/ In_u e l'.
Proof.
  unfold In_u. split.
  - intros [x [Hx E]]. apply in_app_iff in Hx. destruct Hx; [left|right]; eauto.
  - intros [[x [Hx E]]|[x [Hx E]]]; exists x; split; auto; apply in_app_iff; auto.
Qed.
Lemma In_u_cons e a l : In_u e (a :: l) <-> eq_u a e \/ In_u e l.
Proof.
  unfold In_u. split.
  - intros [x [[<-|Hx] E]]; [left; auto| right; eauto].
  - intros [E|[x [Hx E]]]; [exists a; split; [left; auto|auto] | exists x; split; [right; auto|auto]].
Qed.
Lemma In_u_nil e : ~ In_u e [].
Proof. intros [x [[] _]]. Qed.
Lemma In_u_dec e l : {In_u e l} + {~ In_u e l}.
Proof.
  destruct (has_edge l e) eqn:E; [left; apply has_edge_iff; auto | right; apply has_edge_false; auto].
Qed.

Lemma equiv_l_refl l : equiv_l l l.
Proof. intros e; tauto. Qed.
Lemma equiv_l_sym l l' : equiv_l l l' -> equiv_l l' l.
Proof. intros H e; symmetry; apply H. Qed.
Lemma equiv_l_trans a b c : equiv_l a b -> equiv_l b c -> equiv_l a c.
Proof. intros H1 H2 e. rewrite (H1 e). apply H2. Qed.
Lemma equiv_l_swap a b : equiv_l [a; b] [b; a].
Proof. intros e. rewrite !In_u_cons. pose proof (In_u_nil e). tauto. Qed.
Lemma equiv_l_of_incl l l' :
  (forall x, In x l -> In_u x l') -> (forall y, In y l' -> In_u y l) -> equiv_l l l'.
Proof.
  intros H1 H2 e. split; intros [x [Hx E]].
  - eapply In_u_eq_u; eauto.
  - eapply In_u_eq_u; eauto.
Qed.
Lemma equiv_l_map_norm l : equiv_l l (map norm l).
Proof.
  intros e. rewrite !In_u_norm. rewrite map_map.
  rewrite (map_ext (fun x => norm (norm x)) norm); [tauto | intros; apply norm_norm].
Qed.

(* ================================================================== well-formed graphs, isomorphism *)
Record wf (g : graph) : Prop := mkWf {
  wf_nodup : NoDup (map norm (g_edges g));
  wf_ends : forall e, In e (g_edges g) -> In (fst e) (g_nodes g) /\ In (snd e) (g_nodes g)
}.

(* label-preserving graph isomorphism: a bijection between the node sets (given with its inverse)
   that preserves element labels, atom classes and adjacency (what networkx's GraphMatcher decides
   with the node matcher on atom_label and atom_class) *)
Definition Iso (g h : graph) : Prop :=
  exists f f' : nat -> nat,
    (forall i, In i (g_nodes g) -> In (f i) (g_nodes h) /\ f' (f i) = i /\ g_label h (f i) = g_label g i) /\
    (forall j, In j (g_nodes h) -> In (f' j) (g_nodes g) /\ f (f' j) = j) /\
    (forall i j, In i (g_nodes g) -> In j (g_nodes g) -> (adj g i j <-> adj h (f i) (f j))) /\
    (forall i, In i (g_nodes g) -> g_class h (f i) = g_class g i).

Lemma Iso_refl g : Iso g g.
Proof. exists (fun i => i), (fun i => i). repeat split; auto; tauto. Qed.

Lemma Iso_sym g h : Iso g h -> Iso h g.
Proof.
  intros [f [f' [H1 [H2 [H3 H4]]]]]. exists f', f. repeat split.
  - apply H2; auto.
  - apply H2; auto.
  - destruct (H2 _ H) as [Hn Hf]. destruct (H1 _ Hn) as [_ [_ Hl]]. rewrite Hf in Hl. auto.
  - apply H1; auto.
  - apply H1; auto.
  - intros Ha. destruct (H2 _ H) as [Hi Hfi], (H2 _ H0) as [Hj Hfj].
    apply (H3 _ _ Hi Hj). rewrite Hfi, Hfj. auto.
  - intros Ha. destruct (H2 _ H) as [Hi Hfi], (H2 _ H0) as [Hj Hfj].
    apply (H3 _ _ Hi Hj) in Ha. rewrite Hfi, Hfj in Ha. auto.
  - intros j Hj. destruct (H2 _ Hj) as [Hn Hf]. rewrite <- (H4 _ Hn), Hf. reflexivity.
Qed.

Lemma Iso_trans a b c : Iso a b -> Iso b c -> Iso a c.
Proof.
  intros [f [f' [H1 [H2 [H3 H4]]]]] [g [g' [G1 [G2 [G3 G4]]]]].
  exists (fun i => g (f i)), (fun k => f' (g' k)). repeat split.
  - apply G1, H1; auto.
  - destruct (H1 _ H) as [Hn [Hf _]]. destruct (G1 _ Hn) as [_ [Hg _]]. rewrite Hg. auto.
  - destruct (H1 _ H) as [Hn [_ Hl]]. destruct (G1 _ Hn) as [_ [_ Hl']]. congruence.
  - apply H2, G2; auto.
  - destruct (G2 _ H) as [Hn Hg]. destruct (H2 _ Hn) as [_ Hf]. rewrite Hf. auto.
  - intros Ha. destruct (H1 _ H) as [Hi _], (H1 _ H0) as [Hj _].
    apply (G3 _ _ Hi Hj). apply (H3 _ _ H H0). auto.
  - intros Ha. destruct (H1 _ H) as [Hi _], (H1 _ H0) as [Hj _].
    apply (H3 _ _ H H0). apply (G3 _ _ Hi Hj). auto.
  - intros i Hi. destruct (H1 _ Hi) as [Hn _]. rewrite (G4 _ Hn). apply H4; auto.
Qed.

(* same nodes, labels and adjacency: isomorphic by the identity *)
Definition adj_equiv (g h : graph) : Prop :=
  g_nodes g = g_nodes h /\ (forall i, g_label g i = g_label h i) /\
  (forall i, g_class g i = g_class h i) /\ equiv_l (g_edges g) (g_edges h).
Lemma adj_equiv_Iso g h : adj_equiv g h -> Iso g h.
Proof.
  intros [Hn [Hl [Hc He]]]. exists (fun i => i), (fun i => i).
  split; [|split; [|split]].
  - intros i Hi. rewrite <- Hn. auto.
  - intros j Hj. rewrite Hn. auto.
  - intros i j _ _. unfold adj. apply He.
  - intros i _. auto.
Qed.

(* ================================================================== counting edges under an isomorphism *)
Lemma NoDup_map_transfer {A B C} (n : A -> B) (phi : A -> C) (l : list A) :
  NoDup (map n l) -> (forall x y, In x l -> In y l -> phi x = phi y -> n x = n y) -> NoDup (map phi l).
Proof.
  induction l as [|a l IH]; cbn; intros Hn Hinj; [constructor|].
  inversion Hn as [|? ? Hnot Hn']; subst. constructor.
  - intros Hin. apply in_map_iff in Hin. destruct Hin as [y [Hy Hyl]].
    apply Hnot. apply in_map_iff. exists y. split; [apply Hinj; cbn; auto|auto].
  - apply IH; [auto|]. intros x y Hx Hy. apply Hinj; cbn; auto.
Qed.

Lemma NoDup_filter_map {A B} (n : A -> B) P (l : list A) : NoDup (map n l) -> NoDup (map n (filter P l)).
Proof.
  induction l as [|a l IH]; cbn; intros H; [constructor|].
  inversion H as [|? ? Hnot H']; subst. destruct (P a); cbn; auto.
  constructor; auto. intros Hin. apply Hnot. apply in_map_iff in Hin. destruct Hin as [y [Hy Hyl]].
  apply filter_In in Hyl. apply in_map_iff. exists y. tauto.
Qed.

Lemma length_le_by_norm (A B : list edge) (phi : edge -> edge) :
  NoDup (map phi A) ->
  (forall x, In x A -> exists y, In y B /\ norm y = phi x) ->
  length A <= length B.
Proof.
  intros Hnd Hincl. rewrite <- (map_length phi A), <- (map_length norm B).
  apply NoDup_incl_length; auto.
  intros z Hz. apply in_map_iff in Hz. destruct Hz as [x [<- Hx]].
  destruct (Hincl _ Hx) as [y [Hy E]]. apply in_map_iff. exists y. auto.
Qed.

Lemma same_length_by_norm (A B : list edge) :
  NoDup (map norm A) -> NoDup (map norm B) ->
  (forall x, In x A -> In_u x B) -> (forall y, In y B -> In_u y A) ->
  length A = length B.
Proof.
  intros HA HB H1 H2. apply Nat.le_antisymm.
  - apply (length_le_by_norm A B norm); auto. intros x Hx. destruct (H1 _ Hx) as [y [Hy E]].
    exists y. split; auto. apply norm_iff; auto.
  - apply (length_le_by_norm B A norm); auto. intros x Hx. destruct (H2 _ Hx) as [y [Hy E]].
    exists y. split; auto. apply norm_iff; auto.
Qed.

Definition emap (f : nat -> nat) (e : edge) : edge := (f (fst e), f (snd e)).

Lemma iso_filter_le g h (f f' : nat -> nat) (Pg Ph : edge -> bool) :
  wf g ->
  (forall i, In i (g_nodes g) -> f' (f i) = i) ->
  (forall e, In e (g_edges g) -> Pg e = true ->
             exists e', In e' (g_edges h) /\ Ph e' = true /\ eq_u e' (emap f e)) ->
  length (filter Pg (g_edges g)) <= length (filter Ph (g_edges h)).
Proof.
  intros Hwf Hinv Himg.
  apply (length_le_by_norm _ _ (fun e => norm (emap f e))).
  - apply (NoDup_map_transfer norm).
    + apply NoDup_filter_map. apply Hwf.
    + intros x y Hx Hy E. apply filter_In in Hx, Hy. destruct Hx as [Hx _], Hy as [Hy _].
      destruct (wf_ends _ Hwf _ Hx) as [Hx1 Hx2], (wf_ends _ Hwf _ Hy) as [Hy1 Hy2].
      apply norm_iff in E. apply norm_iff. destruct x as [x1 x2], y as [y1 y2]. unfold emap in E; cbn in *.
      destruct E as [E|E]; inversion E as [[E1 E2]].
      * left. f_equal; [rewrite <- (Hinv x1), <- (Hinv y1) | rewrite <- (Hinv x2), <- (Hinv y2)]; auto; congruence.
      * right. unfold flip; cbn. f_equal; [rewrite <- (Hinv x1), <- (Hinv y2) | rewrite <- (Hinv x2), <- (Hinv y1)]; auto; congruence.
  - intros x Hx. apply filter_In in Hx. destruct Hx as [Hx HP].
    destruct (Himg _ Hx HP) as [e' [He' [HP' E]]]. exists e'. split.
    + apply filter_In; auto.
    + apply norm_iff; auto.
Qed.

Lemma pair_key_sym a b : pair_key a b = pair_key b a.
Proof.
  unfold pair_key. destruct (a <=? b) eqn:E1, (b <=? a) eqn:E2; auto.
  - apply Nat.leb_le in E1, E2. assert (a = b) by lia. subst; auto.
  - apply Nat.leb_gt in E1, E2. lia.
Qed.
Lemma edge_key_flip g e : edge_key g (flip e) = edge_key g e.
Proof. destruct e; unfold edge_key, flip; cbn. apply pair_key_sym. Qed.
Lemma edge_key_eq_u g a b : eq_u a b -> edge_key g a = edge_key g b.
Proof. intros [->| ->]; auto. apply edge_key_flip. Qed.

Lemma iso_counts_le g h :
  wf g -> Iso g h ->
  (forall k, length (bonds_of g k) <= length (bonds_of h k)) /\ length (g_edges g) <= length (g_edges h).
Proof.
  intros Hwf [f [f' [H1 [H2 [H3 H4]]]]].
  assert (Himg : forall e, In e (g_edges g) ->
            exists e', In e' (g_edges h) /\ eq_u e' (emap f e) /\ edge_key h e' = edge_key g e).
  { intros [a b] He. destruct (wf_ends _ Hwf _ He) as [Ha Hb]; cbn in Ha, Hb.
    assert (Hadj : adj g a b) by (apply In_In_u; auto).
    apply (H3 _ _ Ha Hb) in Hadj. destruct Hadj as [e' [He' E]]. exists e'. repeat split; auto.
    rewrite (edge_key_eq_u h _ _ E). unfold edge_key; cbn.
    destruct (H1 _ Ha) as [_ [_ ->]], (H1 _ Hb) as [_ [_ ->]]. reflexivity. }
  split.
  - intros k. unfold bonds_of. apply (iso_filter_le g h f f'); auto.
    + intros i Hi. apply H1; auto.
    + intros e He HP. destruct (Himg _ He) as [e' [He' [E K]]]. exists e'. rewrite K. auto.
  - assert (Hg : forall l : list edge, filter (fun _ => true) l = l).
    { induction l; cbn; congruence. }
    rewrite <- (Hg (g_edges g)), <- (Hg (g_edges h)).
    apply (iso_filter_le g h f f'); auto.
    + intros i Hi. apply H1; auto.
    + intros e He _. destruct (Himg _ He) as [e' [He' [E K]]]. exists e'. auto.
Qed.

Lemma iso_counts g h :
  wf g -> wf h -> Iso g h ->
  (forall k, length (bonds_of g k) = length (bonds_of h k)) /\ length (g_edges g) = length (g_edges h).
Proof.
  intros Hg Hh HI. destruct (iso_counts_le g h Hg HI) as [A1 A2].
  destruct (iso_counts_le h g Hh (Iso_sym _ _ HI)) as [B1 B2].
  split; [intros k; apply Nat.le_antisymm; auto | apply Nat.le_antisymm; auto].
Qed.

(* ================================================================== apply_edit *)
Lemma In_u_add_edge e l x : In_u e (add_edge l x) <-> In_u e l \/ eq_u x e.
Proof.
  unfold add_edge. destruct (has_edge l x) eqn:E.
  - apply has_edge_iff in E. split; [tauto|]. intros [H|H]; auto. eapply In_u_eq_u; eauto.
  - rewrite In_u_app, In_u_cons. pose proof (In_u_nil e). tauto.
Qed.
Lemma In_u_fold_add e fb : forall l, In_u e (fold_left add_edge fb l) <-> In_u e l \/ In_u e fb.
Proof.
  induction fb as [|x fb IH]; intros l; cbn.
  - pose proof (In_u_nil e). tauto.
  - rewrite IH, In_u_add_edge, In_u_cons. tauto.
Qed.
Lemma In_u_remove_edge e l x : In_u e (remove_edge l x) <-> In_u e l /\ ~ eq_u x e.
Proof.
  unfold remove_edge, In_u. split.
  - intros [y [Hy E]]. apply filter_In in Hy. destruct Hy as [Hy Hn]. split; [eauto|].
    intros Hx. apply negb_true_iff in Hn. assert (same_u y x = true); [|congruence].
    apply same_u_iff. eapply eq_u_trans; eauto. apply eq_u_sym; auto.
  - intros [[y [Hy E]] Hn]. exists y. split; auto. apply filter_In. split; auto.
    apply negb_true_iff. destruct (same_u y x) eqn:S; auto. apply same_u_iff in S.
    exfalso. apply Hn. eapply eq_u_trans; [apply eq_u_sym|]; eauto.
Qed.
Lemma In_u_fold_remove e bb : forall l, In_u e (fold_left remove_edge bb l) <-> In_u e l /\ ~ In_u e bb.
Proof.
  induction bb as [|x bb IH]; intros l; cbn.
  - pose proof (In_u_nil e). tauto.
  - rewrite IH, In_u_remove_edge, In_u_cons. tauto.
Qed.

Lemma In_u_apply g fb bb e :
  In_u e (g_edges (apply_edit g fb bb)) <-> (In_u e (g_edges g) \/ In_u e fb) /\ ~ In_u e bb.
Proof. unfold apply_edit; cbn. rewrite In_u_fold_remove, In_u_fold_add. tauto. Qed.

Lemma apply_adj_equiv g fb bb fb' bb' :
  equiv_l fb fb' -> equiv_l bb bb' -> adj_equiv (apply_edit g fb bb) (apply_edit g fb' bb').
Proof.
  intros Hf Hb. repeat split; auto; rewrite !In_u_apply, (Hf e), (Hb e); tauto.
Qed.

(* explicit edge list when the edit is "clean" *)
Definition in_ub (x : edge) (bb : list edge) : bool := existsb (same_u x) bb.
Definition rm_all (bb l : list edge) : list edge := filter (fun x => negb (in_ub x bb)) l.

Lemma fold_add_clean fb : forall l,
  NoDup (map norm fb) -> (forall f, In f fb -> ~ In_u f l) -> fold_left add_edge fb l = l ++ fb.
Proof.
  induction fb as [|x fb IH]; intros l Hnd Hdis; cbn.
  - rewrite app_nil_r; reflexivity.
  - inversion Hnd as [|? ? Hnot Hnd']; subst.
    unfold add_edge at 2. assert (E : has_edge l x = false) by (apply has_edge_false, Hdis; left; auto).
    rewrite E. rewrite IH; auto.
    + rewrite <- app_assoc; reflexivity.
    + intros f Hf Hu. apply In_u_app in Hu. destruct Hu as [Hu|Hu].
      * apply (Hdis f); [right; auto|auto].
      * apply In_u_cons in Hu. destruct Hu as [Hu|Hu]; [|apply (In_u_nil _ Hu)].
        apply Hnot. apply in_map_iff. exists f. split; auto. apply norm_iff. apply eq_u_sym; auto.
Qed.

Lemma fold_remove_filter bb : forall l, fold_left remove_edge bb l = rm_all bb l.
Proof.
  induction bb as [|x bb IH]; intros l; cbn.
  - unfold rm_all. cbn. induction l; cbn; congruence.
  - rewrite IH. unfold rm_all, remove_edge. clear IH.
    induction l as [|y l IHl]; cbn; auto.
    destruct (same_u y x) eqn:S; cbn; auto. rewrite IHl. reflexivity.
Qed.

Lemma in_ub_iff x bb : in_ub x bb = true <-> In_u x bb.
Proof.
  unfold in_ub, In_u. rewrite existsb_exists. split.
  - intros [y [Hy S]]. exists y. split; auto. apply eq_u_sym, same_u_iff; auto.
  - intros [y [Hy E]]. exists y. split; auto. apply same_u_iff, eq_u_sym; auto.
Qed.

Lemma filter_length_split {A} (P Q : A -> bool) (l : list A) :
  length (filter P l) = length (filter P (filter Q l)) + length (filter P (filter (fun x => negb (Q x)) l)).
Proof.
  induction l as [|a l IH]; cbn; auto.
  destruct (Q a), (P a) eqn:EP; cbn; rewrite ?EP; cbn; lia.
Qed.

Lemma NoDup_map_filter_both {A B} (n : A -> B) P Q (l : list A) :
  NoDup (map n l) -> NoDup (map n (filter P (filter Q l))).
Proof. intros H. apply NoDup_filter_map, NoDup_filter_map; auto. Qed.

(* removing a duplicate-free set of present edges removes exactly that many P-edges *)
Lemma count_rm_all (P : edge -> bool) (bb l : list edge) :
  (forall a b, eq_u a b -> P a = P b) ->
  NoDup (map norm l) -> NoDup (map norm bb) -> (forall b, In b bb -> In_u b l) ->
  length (filter P (rm_all bb l)) + length (filter P bb) = length (filter P l).
Proof.
  intros HP Hl Hb Hin.
  rewrite (filter_length_split P (fun x => in_ub x bb) l).
  fold (rm_all bb l).
  assert (E : length (filter P (filter (fun x => in_ub x bb) l)) = length (filter P bb)); [|lia].
  apply same_length_by_norm.
  - apply NoDup_map_filter_both; auto.
  - apply NoDup_filter_map; auto.
  - intros x Hx. apply filter_In in Hx. destruct Hx as [Hx HPx]. apply filter_In in Hx. destruct Hx as [Hx Hxb].
    apply in_ub_iff in Hxb. destruct Hxb as [y [Hy E]]. exists y. split; auto.
    apply filter_In. split; auto. rewrite (HP y x); auto.
  - intros y Hy. apply filter_In in Hy. destruct Hy as [Hy HPy].
    destruct (Hin _ Hy) as [x [Hx E]]. exists x. split; auto.
    apply filter_In. split.
    + apply filter_In. split; auto. apply in_ub_iff. exists y. split; auto. apply eq_u_sym; auto.
    + rewrite (HP x y); auto.
Qed.

(* a "clean" edit: duplicate-free, forming bonds absent (between nodes), breaking bonds present *)
Record clean (g : graph) (fb bb : list edge) : Prop := mkClean {
  cl_fnd : NoDup (map norm fb);
  cl_bnd : NoDup (map norm bb);
  cl_fnew : forall f, In f fb -> ~ In_u f (g_edges g);
  cl_fnodes : forall f, In f fb -> In (fst f) (g_nodes g) /\ In (snd f) (g_nodes g);
  cl_bold : forall b, In b bb -> In_u b (g_edges g)
}.

Lemma apply_edges_clean g fb bb :
  clean g fb bb -> g_edges (apply_edit g fb bb) = rm_all bb (g_edges g ++ fb).
Proof.
  intros C. unfold apply_edit; cbn. rewrite fold_remove_filter, fold_add_clean; auto; apply C.
Qed.

Lemma NoDup_norm_app l fb :
  NoDup (map norm l) -> NoDup (map norm fb) -> (forall f, In f fb -> ~ In_u f l) -> NoDup (map norm (l ++ fb)).
Proof.
  intros Hl Hf Hd. rewrite map_app. revert Hl. induction l as [|a l IH]; cbn; intros Hl; auto.
  inversion Hl as [|? ? Hnot Hl']; subst. constructor.
  - intros Hin. apply in_app_iff in Hin. destruct Hin as [Hin|Hin]; [contradiction|].
    apply in_map_iff in Hin. destruct Hin as [f [E Hfin]]. apply (Hd _ Hfin).
    exists a. split; [left; auto|]. apply norm_iff. auto.
  - apply IH; auto. intros f Hfin Hu. apply (Hd _ Hfin). destruct Hu as [x [Hx E]]. exists x. split; [right|]; auto.
Qed.

Lemma wf_apply g fb bb : wf g -> clean g fb bb -> wf (apply_edit g fb bb).
Proof.
  intros Hwf C. constructor.
  - rewrite apply_edges_clean by auto. unfold rm_all. apply NoDup_filter_map.
    apply NoDup_norm_app; try apply Hwf; apply C.
  - intros e He. rewrite apply_edges_clean in He by auto. apply filter_In in He. destruct He as [He _].
    apply in_app_iff in He. destruct He as [He|He]; [apply (wf_ends _ Hwf); auto | apply (cl_fnodes _ _ _ C); auto].
Qed.

Definition Pk (g : graph) (k : key) (e : edge) : bool := key_eqb (edge_key g e) k.
Definition cntk (g : graph) (l : list edge) (k : key) : nat := length (filter (Pk g k) l).

Lemma Pk_eq_u g k a b : eq_u a b -> Pk g k a = Pk g k b.
Proof. intros E. unfold Pk. rewrite (edge_key_eq_u g a b E). reflexivity. Qed.

Lemma bonds_of_apply_label g fb bb k :
  bonds_of (apply_edit g fb bb) k = filter (Pk g k) (g_edges (apply_edit g fb bb)).
Proof. reflexivity. Qed.

Lemma count_apply g fb bb k :
  wf g -> clean g fb bb ->
  length (bonds_of (apply_edit g fb bb) k) + cntk g bb k = length (bonds_of g k) + cntk g fb k.
Proof.
  intros Hwf C. rewrite bonds_of_apply_label, apply_edges_clean by auto. unfold cntk.
  rewrite (count_rm_all (Pk g k) bb (g_edges g ++ fb)).
  - rewrite filter_app, app_length. reflexivity.
  - apply Pk_eq_u.
  - apply NoDup_norm_app; try apply Hwf; apply C.
  - apply C.
  - intros b Hb. apply In_u_app. left. apply (cl_bold _ _ _ C); auto.
Qed.

Lemma filter_true {A} (l : list A) : filter (fun _ => true) l = l.
Proof. induction l; cbn; congruence. Qed.

Lemma count_apply_total g fb bb :
  wf g -> clean g fb bb ->
  length (g_edges (apply_edit g fb bb)) + length bb = length (g_edges g) + length fb.
Proof.
  intros Hwf C. rewrite apply_edges_clean by auto.
  pose proof (count_rm_all (fun _ => true) bb (g_edges g ++ fb)) as H.
  rewrite !filter_true in H. rewrite H; auto.
  - rewrite app_length; reflexivity.
  - apply NoDup_norm_app; try apply Hwf; apply C.
  - apply C.
  - intros b Hb. apply In_u_app. left. apply (cl_bold _ _ _ C); auto.
Qed.

(* ================================================================== label lists and keys *)
Lemma ins_In a x l : In x (ins a l) <-> x = a \/ In x l.
Proof.
  induction l as [|b r IH]; cbn [ins]; [cbn; intuition congruence|].
  destruct (a <? b) eqn:E1; [cbn [In]; intuition congruence|].
  destruct (a =? b) eqn:E2.
  - apply Nat.eqb_eq in E2. subst. cbn [In]. intuition congruence.
  - cbn [In]. rewrite IH. intuition congruence.
Qed.
Lemma ins_sorted a l : StronglySorted lt l -> StronglySorted lt (ins a l).
Proof.
  induction l as [|b r IH]; cbn [ins]; intros H.
  - constructor; constructor.
  - inversion H as [|? ? Hs Hf]; subst.
    destruct (a <? b) eqn:E1.
    + apply Nat.ltb_lt in E1. constructor; auto. constructor; auto.
      rewrite Forall_forall in *. intros x Hx. specialize (Hf _ Hx). lia.
    + destruct (a =? b) eqn:E2; auto.
      apply Nat.ltb_ge in E1. apply Nat.eqb_neq in E2.
      constructor; auto. rewrite Forall_forall in *. intros x Hx. apply ins_In in Hx.
      destruct Hx as [->|Hx]; [lia|auto].
Qed.
Lemma sorted_set_In x l : In x (sorted_set l) <-> In x l.
Proof.
  induction l as [|a l IH]; cbn; [tauto|]. rewrite ins_In, IH. intuition.
Qed.
Lemma sorted_set_sorted l : StronglySorted lt (sorted_set l).
Proof. induction l; cbn; [constructor|apply ins_sorted; auto]. Qed.

Lemma sorted_NoDup l : StronglySorted lt l -> NoDup l.
Proof.
  induction l as [|a l IH]; intros H; [constructor|].
  inversion H as [|? ? Hs Hf]; subst. constructor; auto.
  intros Hin. rewrite Forall_forall in Hf. specialize (Hf _ Hin). lia.
Qed.

Lemma all_keys_In L : StronglySorted lt L ->
  forall a b, In (a, b) (all_keys L) <-> In a L /\ In b L /\ a <= b.
Proof.
  induction L as [|x r IH]; intros HS a b; [cbn; tauto|].
  inversion HS as [|? ? Hs Hf]; subst. rewrite Forall_forall in Hf.
  change (all_keys (x :: r)) with (map (pair x) (x :: r) ++ all_keys r).
  rewrite in_app_iff, in_map_iff, (IH Hs). split.
  - intros [[y [E Hy]]|[Ha [Hb Hle]]].
    + inversion E; subst. split; [left; auto|]. split; auto.
      destruct Hy as [->|Hy]; [lia|]. specialize (Hf _ Hy). lia.
    + split; [right; auto|]. split; [right; auto|auto].
  - intros [Ha [Hb Hle]]. destruct Ha as [->|Ha].
    + left. exists b. auto.
    + right. destruct Hb as [->|Hb]; [specialize (Hf _ Ha); lia|auto].
Qed.

Lemma NoDup_app_intro {A} (l l' : list A) :
  NoDup l -> NoDup l' -> (forall x, In x l -> ~ In x l') -> NoDup (l ++ l').
Proof.
  induction l as [|a l IH]; cbn; intros H1 H2 H3; auto.
  inversion H1; subst. constructor.
  - intros Hin. apply in_app_iff in Hin. destruct Hin; [contradiction|]. apply (H3 a); auto.
  - apply IH; auto.
Qed.

Lemma all_keys_NoDup L : StronglySorted lt L -> NoDup (all_keys L).
Proof.
  induction L as [|x r IH]; intros HS; [constructor|].
  pose proof (sorted_NoDup _ HS) as Hnd.
  inversion HS as [|? ? Hs Hf]; subst. rewrite Forall_forall in Hf.
  change (all_keys (x :: r)) with (map (pair x) (x :: r) ++ all_keys r).
  apply NoDup_app_intro; auto.
  - apply (NoDup_map_transfer (fun y => y) (pair x)); [rewrite map_id; auto|].
    intros a b _ _ E. inversion E; auto.
  - intros [a b] Hin Hin2. apply in_map_iff in Hin. destruct Hin as [y [E _]]. inversion E; subst.
    apply (all_keys_In r Hs) in Hin2. destruct Hin2 as [Ha _]. specialize (Hf _ Ha). lia.
Qed.

Definition keys_of (g : graph) : list key := all_keys (label_list g).

Lemma keys_NoDup g : NoDup (keys_of g).
Proof. apply all_keys_NoDup, sorted_set_sorted. Qed.

Lemma label_list_In g a : In a (label_list g) <-> exists i, In i (g_nodes g) /\ g_label g i = a.
Proof.
  unfold label_list. rewrite sorted_set_In, in_map_iff. split; intros [i H]; exists i; tauto.
Qed.

Lemma keys_of_In g a b : In (a, b) (keys_of g) <-> In a (label_list g) /\ In b (label_list g) /\ a <= b.
Proof. apply all_keys_In, sorted_set_sorted. Qed.

Lemma pair_key_cases a b : (pair_key a b = (a, b) /\ a <= b) \/ (pair_key a b = (b, a) /\ b <= a).
Proof.
  unfold pair_key. destruct (a <=? b) eqn:E; [left|right]; split; auto.
  - apply Nat.leb_le; auto.
  - apply Nat.leb_gt in E; lia.
Qed.

Lemma edge_key_in_keys g e :
  In (fst e) (g_nodes g) -> In (snd e) (g_nodes g) -> In (edge_key g e) (keys_of g).
Proof.
  intros H1 H2. unfold edge_key.
  assert (L1 : In (g_label g (fst e)) (label_list g)) by (apply label_list_In; eauto).
  assert (L2 : In (g_label g (snd e)) (label_list g)) by (apply label_list_In; eauto).
  destruct (pair_key_cases (g_label g (fst e)) (g_label g (snd e))) as [[-> Hle]|[-> Hle]];
    apply keys_of_In; auto.
Qed.

Lemma lookup_map {A} (F : key -> A) k ks :
  In k ks -> lookup_key k (map (fun k => (k, F k)) ks) = Some (F k).
Proof.
  induction ks as [|k' ks IH]; cbn; intros H; [contradiction|].
  destruct (key_eqb k k') eqn:E.
  - apply key_eqb_eq in E. subst; reflexivity.
  - destruct H as [->|H]; [rewrite key_eqb_refl in E; discriminate|auto].
Qed.
Lemma lookup_map_none {A} (F : key -> A) k ks :
  ~ In k ks -> lookup_key k (map (fun k => (k, F k)) ks) = None.
Proof.
  induction ks as [|k' ks IH]; cbn; intros H; auto.
  destruct (key_eqb k k') eqn:E.
  - apply key_eqb_eq in E. subst. exfalso; apply H; auto.
  - apply IH. intros Hin; apply H; auto.
Qed.

(* ================================================================== the classification loop *)
Definition decb (r p : graph) (k : key) : bool := length (bonds_of p k) <? length (bonds_of r k).
Definition incb (r p : graph) (k : key) : bool := length (bonds_of r k) <? length (bonds_of p k).
Definition sameb (r p : graph) (k : key) : bool :=
  negb (decb r p k) && negb (incb r p k) && negb (length (bonds_of r k) =? 0).

Definition book_of (r p : graph) (ks : list key) (acc : book) : book :=
  mkBook (all_bb acc ++ map (bonds_of r) (filter (decb r p) ks))
         (fold_left (fun _ k => Some (possible_fbonds r k)) (filter (decb r p) ks) (bb_fb acc))
         (all_fb acc ++ map (possible_fbonds r) (filter (incb r p) ks))
         (fold_left (fun _ k => Some (bonds_of r k)) (filter (incb r p) ks) (fb_bb acc))
         (same_bf acc ++ map (fun k => (bonds_of r k, possible_fbonds r k)) (filter (sameb r p) ks)).

Lemma classify_spec r p ks : forall acc,
  (forall k, In k ks -> lookup_key k (bond_types p) = Some (bonds_of p k)) ->
  classify r (bond_types p) (map (fun k => (k, bonds_of r k)) ks) acc = Some (book_of r p ks acc).
Proof.
  induction ks as [|k ks IH]; intros acc Hl.
  - cbn. unfold book_of; cbn. rewrite !app_nil_r. destruct acc; reflexivity.
  - cbn [map classify classify_step]. rewrite (Hl k) by (left; auto).
    fold (decb r p k). fold (incb r p k).
    assert (Hl' : forall k0, In k0 ks -> lookup_key k0 (bond_types p) = Some (bonds_of p k0))
      by (intros; apply Hl; right; auto).
    unfold book_of. cbn [filter]. unfold sameb.
    destruct (decb r p k) eqn:D.
    + assert (I : incb r p k = false).
      { unfold decb, incb in *. apply Nat.ltb_lt in D. apply Nat.ltb_ge. lia. }
      rewrite I. rewrite (IH _ Hl'). unfold book_of.
      cbn [negb andb all_bb bb_fb all_fb fb_bb same_bf map fold_left].
      rewrite <- !app_assoc. reflexivity.
    + destruct (incb r p k) eqn:I.
      * rewrite (IH _ Hl'). unfold book_of.
        cbn [negb andb all_bb bb_fb all_fb fb_bb same_bf map fold_left].
        rewrite <- !app_assoc. reflexivity.
      * cbn [negb andb]. destruct (negb (length (bonds_of r k) =? 0)) eqn:Z.
        -- rewrite (IH _ Hl'). unfold book_of.
           cbn [all_bb bb_fb all_fb fb_bb same_bf map fold_left]. rewrite <- !app_assoc. reflexivity.
        -- rewrite (IH _ Hl'). reflexivity.
Qed.

Lemma classify_none r p rd : forall acc k v rd',
  rd = rd' ++ [(k, v)] -> lookup_key k (bond_types p) = None -> classify r (bond_types p) rd acc = None.
Proof.
  intros acc k v rd'. revert acc rd. induction rd' as [|x rd' IH]; intros acc rd -> Hn.
  - cbn. rewrite Hn. reflexivity.
  - cbn [app classify]. destruct (classify_step r (bond_types p) acc x); auto.
Qed.

(* ================================================================== degrees and the valence filter *)
Lemma degree_l_app l l' i : degree_l (l ++ l') i = degree_l l i + degree_l l' i.
Proof. unfold degree_l. induction l; cbn [app fold_right]; lia. Qed.
Lemma inc_flip i e : inc i (flip e) = inc i e.
Proof. destruct e as [a b]; unfold inc, flip; cbn [fst snd]. destruct (a =? i), (b =? i); lia. Qed.
Lemma inc_eq_u i a b : eq_u a b -> inc i a = inc i b.
Proof. intros [->| ->]; auto. apply inc_flip. Qed.
Lemma inc_pos i e : (fst e = i \/ snd e = i) <-> 1 <= inc i e.
Proof.
  unfold inc. destruct (Nat.eqb_spec (fst e) i), (Nat.eqb_spec (snd e) i); split; intros; try lia; tauto.
Qed.
Lemma atoms_of_In i l : In i (atoms_of l) <-> exists e, In e l /\ (fst e = i \/ snd e = i).
Proof.
  unfold atoms_of. rewrite in_flat_map. split; intros [e [He H]]; exists e; split; auto.
  - cbn in H. intuition.
  - cbn. intuition.
Qed.
Lemma incident_eq_u i a b : eq_u a b -> (fst a = i \/ snd a = i) -> (fst b = i \/ snd b = i).
Proof. intros [->| ->]; destruct b; cbn; tauto. Qed.
Lemma atoms_of_In_u i l : In i (atoms_of l) <-> exists e, In_u e l /\ (fst e = i \/ snd e = i).
Proof.
  rewrite atoms_of_In. split.
  - intros [e [He H]]. exists e. split; auto. apply In_In_u; auto.
  - intros [e [[x [Hx E]] H]]. exists x. split; auto. eapply incident_eq_u; [apply eq_u_sym|]; eauto.
Qed.
Lemma atoms_equiv l l' i : equiv_l l l' -> (In i (atoms_of l) <-> In i (atoms_of l')).
Proof.
  intros H. rewrite !atoms_of_In_u. split; intros [e [He Hi]]; exists e; split; auto; apply H; auto.
Qed.

Lemma degree_l_cons a l i : degree_l (a :: l) i = inc i a + degree_l l i.
Proof. reflexivity. Qed.
Lemma degree_l_ge1 l i : In i (atoms_of l) -> 1 <= degree_l l i.
Proof.
  rewrite atoms_of_In. intros [e [He H]]. induction l as [|a l IH]; [contradiction|].
  rewrite degree_l_cons. destruct He as [->|He]; [apply inc_pos in H; lia | specialize (IH He); lia].
Qed.

Lemma degree_l_filter P l i :
  (forall x, In x l -> P x = false -> inc i x = 0) -> degree_l (filter P l) i = degree_l l i.
Proof.
  induction l as [|a l IH]; cbn [filter]; intros H; auto.
  destruct (P a) eqn:E; rewrite ?degree_l_cons; rewrite IH by (intros; apply H; cbn; auto); auto.
  rewrite (H a); cbn; auto.
Qed.

Lemma degree_apply_ge g fb bb i :
  clean g fb bb -> In i (atoms_of fb) -> ~ In i (atoms_of bb) ->
  degree g i + 1 <= degree (apply_edit g fb bb) i.
Proof.
  intros C Hf Hb. unfold degree. rewrite apply_edges_clean by auto. unfold rm_all.
  rewrite degree_l_filter.
  - rewrite degree_l_app. pose proof (degree_l_ge1 _ _ Hf). lia.
  - intros x _ Hx. apply negb_false_iff in Hx. apply in_ub_iff in Hx. destruct Hx as [y [Hy E]].
    destruct (inc i x) eqn:Ei; auto. exfalso. apply Hb. apply atoms_of_In. exists y. split; auto.
    apply (incident_eq_u i x y); [apply eq_u_sym; auto|]. apply inc_pos. lia.
Qed.

Lemma valence_ok_iff mv r fb bb :
  valence_ok mv r fb bb = true <->
  forall i, In i (atoms_of fb) -> ~ (degree r i = mv (g_label r i) /\ ~ In i (atoms_of bb)).
Proof.
  unfold valence_ok. rewrite forallb_forall. split.
  - intros H i Hi [Hd Hn]. apply atoms_of_In in Hi. destruct Hi as [f [Hf Hi]].
    specialize (H _ Hf). rewrite forallb_forall in H.
    assert (Hin : In i [fst f; snd f]) by (cbn; intuition).
    specialize (H _ Hin). apply negb_true_iff, andb_false_iff in H. destruct H as [H|H].
    + apply Nat.eqb_neq in H. contradiction.
    + apply negb_false_iff in H. apply existsb_exists in H. destruct H as [j [Hj E]].
      apply Nat.eqb_eq in E. subst. contradiction.
  - intros H f Hf. rewrite forallb_forall. intros i Hi.
    assert (Ha : In i (atoms_of fb)).
    { apply atoms_of_In. exists f. split; auto. cbn in Hi. intuition. }
    specialize (H _ Ha). apply negb_true_iff, andb_false_iff.
    destruct (degree r i =? mv (g_label r i)) eqn:E; [right|left; auto].
    apply Nat.eqb_eq in E. apply negb_false_iff.
    destruct (existsb (Nat.eqb i) (atoms_of bb)) eqn:X; auto.
    exfalso. apply H. split; auto. intros Hin.
    assert (existsb (Nat.eqb i) (atoms_of bb) = true); [|congruence].
    apply existsb_exists. exists i. split; auto. apply Nat.eqb_refl.
Qed.

(* the premise "no atom is pushed beyond its maximal valence" lets the pre-filter pass, for every
   presentation (order / orientation) of the same edit *)
Lemma valence_ok_of_premise mv r fb bb fb' bb' :
  clean r fb bb ->
  (forall i, In i (g_nodes r) ->
     degree (apply_edit r fb bb) i <= Nat.max (mv (g_label r i)) (degree r i)) ->
  equiv_l fb fb' -> equiv_l bb bb' ->
  valence_ok mv r fb' bb' = true.
Proof.
  intros C Hdeg Ef Eb. apply valence_ok_iff. intros i Hi [Hd Hn].
  apply (atoms_equiv _ _ i Ef) in Hi.
  assert (Hnb : ~ In i (atoms_of bb)) by (intros X; apply Hn; apply (atoms_equiv _ _ i Eb); auto).
  pose proof (degree_apply_ge r fb bb i C Hi Hnb) as Hge.
  assert (Hnode : In i (g_nodes r)).
  { apply atoms_of_In in Hi. destruct Hi as [f [Hf [<-|<-]]]; apply (cl_fnodes _ _ _ C); auto. }
  specialize (Hdeg _ Hnode). lia.
Qed.

(* ================================================================== sorting of the reported bonds *)
Lemma insert_edge_In x e l : In x (insert_edge e l) <-> x = e \/ In x l.
Proof.
  induction l as [|a l IH]; cbn; [intuition|].
  destruct (edge_leb e a); cbn; [intuition|]. rewrite IH. intuition.
Qed.
Lemma sort_edges_In x l : In x (sort_edges l) <-> In x l.
Proof. induction l as [|a l IH]; cbn; [tauto|]. rewrite insert_edge_In, IH. intuition. Qed.
Lemma ordered_equiv l : equiv_l (ordered l) l.
Proof.
  apply equiv_l_trans with (map norm l); [|apply equiv_l_sym, equiv_l_map_norm].
  intros e. unfold ordered, In_u. split; intros [x [Hx E]]; exists x; split; auto; apply sort_edges_In; auto.
Qed.

(* ================================================================== add_bond_rearrangment / one function *)
Section Run.
  Variable iso_b : graph -> graph -> bool.
  Variable mv : nat -> nat.
  Variables r p : graph.

  Lemma add_mono acc c : length acc <= length (add_bond_rearrangement iso_b mv r p acc c).
  Proof.
    unfold add_bond_rearrangement. destruct c as [fb bb].
    destruct (negb (valence_ok mv r fb bb)); auto.
    destruct (iso_b (apply_edit r fb bb) p); auto. rewrite app_length; cbn; lia.
  Qed.
  Lemma run_mono cs : forall acc, length acc <= length (run_func iso_b mv r p cs acc).
  Proof.
    unfold run_func. induction cs as [|c cs IH]; intros acc; cbn; auto.
    eapply Nat.le_trans; [apply add_mono|apply IH].
  Qed.
  Lemma run_hit cs : forall acc fb bb,
    In (fb, bb) cs -> valence_ok mv r fb bb = true -> iso_b (apply_edit r fb bb) p = true ->
    0 < length (run_func iso_b mv r p cs acc).
  Proof.
    unfold run_func. induction cs as [|c cs IH]; intros acc fb bb Hin Hv Hi; [contradiction|].
    cbn. destruct Hin as [->|Hin].
    - eapply Nat.lt_le_trans; [|apply run_mono].
      unfold add_bond_rearrangement. rewrite Hv, Hi. cbn. rewrite app_length; cbn; lia.
    - eapply IH; eauto.
  Qed.
  Lemma run_sound cs : forall acc x,
    In x (run_func iso_b mv r p cs acc) ->
    In x acc \/ exists fb bb, In (fb, bb) cs /\ x = (ordered fb, ordered bb) /\
                              iso_b (apply_edit r fb bb) p = true.
  Proof.
    unfold run_func. induction cs as [|c cs IH]; intros acc x Hx; cbn in Hx; auto.
    apply IH in Hx. destruct Hx as [Hx|[fb [bb [H1 H2]]]].
    - unfold add_bond_rearrangement in Hx. destruct c as [fb bb].
      destruct (negb (valence_ok mv r fb bb)); auto.
      destruct (iso_b (apply_edit r fb bb) p) eqn:E; auto.
      apply in_app_iff in Hx. destruct Hx as [Hx|[<-|[]]]; auto.
      right. exists fb, bb. split; [left; auto|auto].
    - right. exists fb, bb. split; [right; auto|auto].
  Qed.
End Run.

(* ================================================================== what the candidate lists contain *)
Definition FBok (r : graph) (f : edge) : Prop := ~ In_u f (g_edges r).
Definition BBok (r : graph) (b : edge) : Prop := In b (g_edges r).
Definition cand_ok (r : graph) (c : cand) : Prop :=
  (forall f, In f (fst c) -> FBok r f) /\ (forall b, In b (snd c) -> BBok r b).

Record book_ok (r : graph) (bk : book) : Prop := mkBookOk {
  bo_bb : forall l, In l (all_bb bk) -> forall b, In b l -> BBok r b;
  bo_fb : forall l, In l (all_fb bk) -> forall f, In f l -> FBok r f;
  bo_same : forall bf, In bf (same_bf bk) ->
            (forall b, In b (fst bf) -> BBok r b) /\ (forall f, In f (snd bf) -> FBok r f);
  bo_bbfb : forall f, In f (opt_list (bb_fb bk)) -> FBok r f;
  bo_fbbb : forall b, In b (opt_list (fb_bb bk)) -> BBok r b
}.

Lemma bonds_of_In g k b : In b (bonds_of g k) <-> In b (g_edges g) /\ edge_key g b = k.
Proof. unfold bonds_of. rewrite filter_In, key_eqb_eq. tauto. Qed.

Lemma pf_In g k f :
  In f (possible_fbonds g k) <->
  In (fst f) (g_nodes g) /\ In (snd f) (g_nodes g) /\ fst f <= snd f /\ ~ In_u f (g_edges g) /\
  (key_eqb (g_label g (fst f), g_label g (snd f)) k || key_eqb (g_label g (snd f), g_label g (fst f)) k = true).
Proof.
  unfold possible_fbonds. rewrite in_flat_map. split.
  - intros [i [Hi H]]. apply in_flat_map in H. destruct H as [j [Hj H]].
    destruct (j <? i) eqn:E1; [destruct H|]. apply Nat.ltb_ge in E1.
    destruct (has_edge (g_edges g) (i, j)) eqn:E2; [destruct H|]. apply has_edge_false in E2.
    destruct (key_eqb (g_label g i, g_label g j) k || key_eqb (g_label g j, g_label g i) k) eqn:E3; [|destruct H].
    destruct H as [<-|[]]. cbn [fst snd]. auto.
  - destruct f as [i j]. cbn [fst snd]. intros [Hi [Hj [Hle [Hn Hk]]]].
    exists i. split; auto. apply in_flat_map. exists j. split; auto.
    assert (E1 : (j <? i) = false) by (apply Nat.ltb_ge; auto). rewrite E1.
    apply has_edge_false in Hn. rewrite Hn, Hk. left; auto.
Qed.
Lemma pf_ok g k f : In f (possible_fbonds g k) -> FBok g f.
Proof. intros H. apply pf_In in H. unfold FBok. tauto. Qed.

Lemma pf_self g f :
  In (fst f) (g_nodes g) -> In (snd f) (g_nodes g) -> fst f <= snd f -> ~ In_u f (g_edges g) ->
  In f (possible_fbonds g (edge_key g f)).
Proof.
  intros H1 H2 H3 H4. apply pf_In. repeat split; auto. unfold edge_key.
  destruct (pair_key_cases (g_label g (fst f)) (g_label g (snd f))) as [[-> _]|[-> _]];
    rewrite key_eqb_refl; auto using orb_true_r.
Qed.

Lemma book0_ok r : book_ok r book0.
Proof. constructor; cbn; intros; contradiction. Qed.

Lemma classify_step_ok r pd acc kv bk :
  book_ok r acc -> (forall b, In b (snd kv) -> BBok r b) ->
  classify_step r pd acc kv = Some bk -> book_ok r bk.
Proof.
  intros Hok Hkv. unfold classify_step. destruct kv as [k rb]. cbn [snd] in Hkv.
  destruct (lookup_key k pd) as [pb|]; [|discriminate].
  destruct (length pb <? length rb).
  { intros E; inversion E; subst; clear E. destruct Hok. constructor; cbn [all_bb all_fb same_bf bb_fb fb_bb opt_list]; auto.
    - intros l Hl. apply in_app_iff in Hl. destruct Hl as [Hl|[<-|[]]]; eauto.
    - intros f Hf. eapply pf_ok; eauto. }
  destruct (length rb <? length pb).
  { intros E; inversion E; subst; clear E. destruct Hok. constructor; cbn [all_bb all_fb same_bf bb_fb fb_bb opt_list]; auto.
    intros l Hl. apply in_app_iff in Hl. destruct Hl as [Hl|[<-|[]]]; eauto.
    intros f Hf. eapply pf_ok; eauto. }
  destruct (negb (length rb =? 0)).
  { intros E; inversion E; subst; clear E. destruct Hok. constructor; cbn [all_bb all_fb same_bf bb_fb fb_bb opt_list]; auto.
    intros bf Hl. apply in_app_iff in Hl. destruct Hl as [Hl|[<-|[]]]; eauto.
    cbn [fst snd]. split; auto. intros f Hf. eapply pf_ok; eauto. }
  intros E; inversion E; subst; auto.
Qed.

Lemma classify_ok r pd rd : forall acc bk,
  book_ok r acc -> (forall kv, In kv rd -> forall b, In b (snd kv) -> BBok r b) ->
  classify r pd rd acc = Some bk -> book_ok r bk.
Proof.
  induction rd as [|kv rd IH]; intros acc bk Hok Hrd; cbn [classify].
  - intros E; inversion E; subst; auto.
  - destruct (classify_step r pd acc kv) as [acc'|] eqn:E; [|discriminate].
    apply IH.
    + eapply classify_step_ok; eauto. apply Hrd; left; auto.
    + intros kv' Hkv'. apply Hrd; right; auto.
Qed.

Lemma bond_types_ok r kv : In kv (bond_types r) -> forall b, In b (snd kv) -> BBok r b.
Proof.
  unfold bond_types. intros H b Hb. apply in_map_iff in H. destruct H as [k [<- _]].
  cbn [snd] in Hb. apply bonds_of_In in Hb. apply Hb.
Qed.

Lemma pairs_In_l {A} (l : list A) x y : In (x, y) (pairs l) -> In x l /\ In y l.
Proof.
  induction l as [|a l IH]; cbn [pairs]; [intros []|].
  intros H. apply in_app_iff in H. destruct H as [H|H].
  - apply in_map_iff in H. destruct H as [z [E Hz]]. inversion E; subst. cbn; auto.
  - apply IH in H. cbn; tauto.
Qed.
Lemma pairs_In_l' {A} (l : list A) xy : In xy (pairs l) -> In (fst xy) l /\ In (snd xy) l.
Proof. destruct xy; apply pairs_In_l. Qed.

Ltac decomp :=
  repeat match goal with
  | H : In _ (_ ++ _) |- _ => apply in_app_iff in H; destruct H as [H|H]
  | H : In _ (flat_map _ _) |- _ =>
      let x := fresh "x" in let Hx := fresh "Hx" in
      apply in_flat_map in H; destruct H as [x [Hx H]]
  | H : In _ (map _ _) |- _ =>
      let x := fresh "x" in let Ex := fresh "Ex" in
      apply in_map_iff in H; destruct H as [x [Ex H]]
  | H : In _ (pairs _) |- _ => apply pairs_In_l' in H; destruct H as [? ?]
  | H : (_, _) = (_, _) |- _ => inversion H; clear H; subst
  | H : In _ [] |- _ => destruct H
  end.

Ltac finish_cand :=
  split; cbn [fst snd];
  (let Hm := fresh "Hmem" in
   intros ? Hm; cbn [In] in Hm;
   repeat (destruct Hm as [<-|Hm]; [eauto|]); try contradiction).

Lemma cands_ok r bk f cs c : book_ok r bk -> cands f bk = Some cs -> In c cs -> cand_ok r c.
Proof.
  intros [Hbb Hfb Hsame Hbbfb Hfbbb] Hc Hin. unfold cand_ok. destruct c as [cfb cbb].
  destruct f; cbn [cands] in Hc.
  - (* 1b *) unfold cands_1b in Hc. destruct (all_bb bk) as [|l0 ?] eqn:Eb; [discriminate|].
    inversion Hc; subst; clear Hc.
    assert (B0 : forall b, In b l0 -> BBok r b) by (apply Hbb; cbn; auto).
    decomp. finish_cand.
  - (* 2b *) inversion Hc; subst; clear Hc. unfold cands_2b in Hin.
    destruct (all_bb bk) as [|l0 [|l1 [|]]] eqn:Eb; try contradiction.
    + assert (B0 : forall b, In b l0 -> BBok r b) by (apply Hbb; cbn; auto).
      decomp. finish_cand.
    + assert (B0 : forall b, In b l0 -> BBok r b) by (apply Hbb; cbn; auto).
      assert (B1 : forall b, In b l1 -> BBok r b) by (apply Hbb; cbn; auto).
      decomp. finish_cand.
  - (* 1b1f *) inversion Hc; subst; clear Hc. unfold cands_1b1f in Hin.
    destruct (all_bb bk) as [|l0 [|]] eqn:Eb; destruct (all_fb bk) as [|m0 [|]] eqn:Ef; try contradiction.
    + decomp. destruct (Hsame _ Hx) as [S1 S2]. finish_cand.
    + assert (B0 : forall b, In b l0 -> BBok r b) by (apply Hbb; cbn; auto).
      assert (F0 : forall b, In b m0 -> FBok r b) by (apply Hfb; cbn; auto).
      decomp. finish_cand.
  - (* 2b1f *) inversion Hc; subst; clear Hc. unfold cands_2b1f in Hin.
    destruct (all_bb bk) as [|l0 [|l1 [|]]] eqn:Eb; destruct (all_fb bk) as [|m0 [|]] eqn:Ef; try contradiction.
    + assert (B0 : forall b, In b l0 -> BBok r b) by (apply Hbb; cbn; auto).
      decomp.
      * destruct (Hsame _ Hx) as [S1 S2]. finish_cand.
      * finish_cand.
    + assert (B0 : forall b, In b l0 -> BBok r b) by (apply Hbb; cbn; auto).
      assert (F0 : forall b, In b m0 -> FBok r b) by (apply Hfb; cbn; auto).
      decomp. finish_cand.
    + assert (B0 : forall b, In b l0 -> BBok r b) by (apply Hbb; cbn; auto).
      assert (B1 : forall b, In b l1 -> BBok r b) by (apply Hbb; cbn; auto).
      assert (F0 : forall b, In b m0 -> FBok r b) by (apply Hfb; cbn; auto).
      decomp. finish_cand.
  - (* 2b2f *) inversion Hc; subst; clear Hc. unfold cands_2b2f in Hin.
    destruct (all_bb bk) as [|l0 [|l1 [|]]] eqn:Eb; destruct (all_fb bk) as [|m0 [|m1 [|]]] eqn:Ef; try contradiction.
    + decomp.
      * destruct x as [[xb xf] [yb yf]]. cbn [fst snd] in *.
        destruct (Hsame _ H) as [S1 S2]. destruct (Hsame _ H0) as [S3 S4]. cbn [fst snd] in *. finish_cand.
      * destruct (Hsame _ Hx) as [S1 S2]. finish_cand.
    + assert (B0 : forall b, In b l0 -> BBok r b) by (apply Hbb; cbn; auto).
      assert (F0 : forall b, In b m0 -> FBok r b) by (apply Hfb; cbn; auto).
      decomp.
      * finish_cand.
      * destruct (Hsame _ Hx) as [S1 S2]. finish_cand.
      * finish_cand.
      * finish_cand.
    + assert (B0 : forall b, In b l0 -> BBok r b) by (apply Hbb; cbn; auto).
      assert (F0 : forall b, In b m0 -> FBok r b) by (apply Hfb; cbn; auto).
      assert (F1 : forall b, In b m1 -> FBok r b) by (apply Hfb; cbn; auto).
      decomp. finish_cand.
    + assert (B0 : forall b, In b l0 -> BBok r b) by (apply Hbb; cbn; auto).
      assert (B1 : forall b, In b l1 -> BBok r b) by (apply Hbb; cbn; auto).
      assert (F0 : forall b, In b m0 -> FBok r b) by (apply Hfb; cbn; auto).
      decomp. finish_cand.
    + assert (B0 : forall b, In b l0 -> BBok r b) by (apply Hbb; cbn; auto).
      assert (B1 : forall b, In b l1 -> BBok r b) by (apply Hbb; cbn; auto).
      assert (F0 : forall b, In b m0 -> FBok r b) by (apply Hfb; cbn; auto).
      assert (F1 : forall b, In b m1 -> FBok r b) by (apply Hfb; cbn; auto).
      decomp. finish_cand.
Qed.

(* ================================================================== pruning *)
Section PruneLemmas.
  Variable nl : rearr -> nat.
  Variable rings : rearr -> list nat.
  Variable elems : rearr -> list nat.

  Lemma strip_step_In u br x : In x (strip_step nl u br) -> In x u \/ x = br.
  Proof.
    unfold strip_step. destruct (existsb _ u); auto.
    intros H. apply in_app_iff in H. destruct H as [H|[<-|[]]]; auto.
  Qed.
  Lemma strip_step_len u br : length u <= length (strip_step nl u br).
  Proof. unfold strip_step. destruct (existsb _ u); auto. rewrite app_length; cbn; lia. Qed.
  Lemma strip_fold_In l : forall u x, In x (fold_left (strip_step nl) l u) -> In x u \/ In x l.
  Proof using nl.
    induction l as [|a l IH]; intros u x H; cbn in *; auto.
    apply IH in H. destruct H as [H|H]; auto. apply strip_step_In in H. destruct H as [H| ->]; auto.
  Qed.
  Lemma strip_fold_len l : forall u, length u <= length (fold_left (strip_step nl) l u).
  Proof.
    induction l as [|a l IH]; intros u; cbn; auto.
    eapply Nat.le_trans; [apply strip_step_len|apply IH].
  Qed.
  Lemma strip_equiv_incl l x : In x (strip_equiv nl l) -> In x l.
  Proof using nl. unfold strip_equiv. intros H. apply strip_fold_In in H. destruct H as [[]|H]; auto. Qed.
  Lemma strip_equiv_nonempty l : l <> [] -> strip_equiv nl l <> [].
  Proof.
    destruct l as [|a l]; [congruence|]. intros _ E. unfold strip_equiv in E. cbn [fold_left] in E.
    pose proof (strip_fold_len l (strip_step nl [] a)) as H. rewrite E in H.
    unfold strip_step in H. cbn in H. lia.
  Qed.

  Lemma exists_max {A} (m : A -> nat) (l : list A) :
    l <> [] -> exists x, In x l /\ forall y, In y l -> m y <= m x.
  Proof.
    induction l as [|a l IH]; [congruence|]. intros _.
    destruct l as [|b l'].
    - exists a. split; [left; auto|]. intros y [<-|[]]; auto.
    - destruct IH as [x [Hx Hmax]]; [congruence|].
      destruct (Nat.le_gt_cases (m x) (m a)).
      + exists a. split; [left; auto|]. intros y [<-|Hy]; auto. specialize (Hmax _ Hy). lia.
      + exists x. split; [right; auto|]. intros y [<-|Hy]; [lia|auto].
  Qed.

  Lemma prune_incl l x : In x (prune_small_rings rings elems l) -> In x l.
  Proof using rings elems. unfold prune_small_rings. intros H. apply filter_In in H. destruct H; auto. Qed.

  (* the rearrangement whose smallest ring is largest is never excluded *)
  Lemma prune_nonempty l : l <> [] -> prune_small_rings rings elems l <> [].
  Proof.
    intros Hne. destruct (exists_max (fun b => list_min (rings b)) l Hne) as [x [Hx Hmax]].
    intros E. assert (Hin : In x (prune_small_rings rings elems l)); [|rewrite E in Hin; contradiction].
    unfold prune_small_rings. apply filter_In. split; auto. apply negb_true_iff.
    unfold excluded. apply andb_false_iff. right.
    destruct (existsb _ l) eqn:X; auto. apply existsb_exists in X. destruct X as [y [Hy H]].
    apply andb_true_iff in H. destruct H as [_ H]. apply Nat.ltb_lt in H. specialize (Hmax _ Hy). cbn in Hmax. lia.
  Qed.

  (* python min() is never evaluated on an empty list at bond_rearrangement.py:745 *)
  Lemma min_args_nonempty bi bj :
    has_small (rings bi) = true -> (length (rings bi) =? length (rings bj)) = true ->
    rings bi <> [] /\ rings bj <> [].
  Proof.
    intros Hs Hl. apply Nat.eqb_eq in Hl. unfold has_small in Hs. apply existsb_exists in Hs.
    destruct Hs as [n [Hn _]]. destruct (rings bi); [contradiction|]. split; [congruence|].
    destruct (rings bj); [cbn in Hl; lia|congruence].
  Qed.

  Lemma post_incl skip l x : In x (post nl rings elems skip l) -> In x l.
  Proof.
    unfold post. destruct (1 <? length l); auto. destruct skip.
    - intros H. apply prune_incl in H. apply strip_equiv_incl in H. auto.
    - apply strip_equiv_incl.
  Qed.
  Lemma post_nonempty skip l : l <> [] -> post nl rings elems skip l <> [].
  Proof.
    intros H. unfold post. destruct (1 <? length l); auto. destruct skip.
    - apply prune_nonempty, strip_equiv_nonempty; auto.
    - apply strip_equiv_nonempty; auto.
  Qed.
End PruneLemmas.

(* ================================================================== soundness of the enumeration *)
(* the finitely many candidate edits the enumeration can ever test for a given reactant / product *)
Definition all_funcs : list func := [F1b; F2b; F1b1f; F2b1f; F2b2f].
Definition all_cands (r p : graph) : list cand :=
  match classify r (bond_types p) (bond_types r) book0 with
  | Some bk => flat_map (fun f => opt_list (cands f bk)) all_funcs
  | None => []
  end.
(* the isomorphism oracle is right on the finitely many questions the enumeration can ask *)
Definition Hiso_on (iso_b : graph -> graph -> bool) (r p : graph) : Prop :=
  (iso_b r p = true <-> Iso r p) /\
  forall c, In c (all_cands r p) ->
    (iso_b (apply_edit r (fst c) (snd c)) p = true <-> Iso (apply_edit r (fst c) (snd c)) p).
Lemma Hiso_global_on iso_b r p : (forall g h, iso_b g h = true <-> Iso g h) -> Hiso_on iso_b r p.
Proof. intros H. split; [apply H|intros c _; apply H]. Qed.
Lemma cands_in_all r p bk f cs c :
  classify r (bond_types p) (bond_types r) book0 = Some bk -> cands f bk = Some cs -> In c cs ->
  In c (all_cands r p).
Proof.
  intros Ec Ef Hin. unfold all_cands. rewrite Ec. apply in_flat_map. exists f. split.
  - unfold all_funcs. destruct f; cbn; auto 10.
  - rewrite Ef. exact Hin.
Qed.

Section Sound.
  Variable iso_b : graph -> graph -> bool.
  Variable mv : nat -> nat.
  Variables r p : graph.
  Variable CS : cand -> Prop.
  Hypothesis Hs : forall c, CS c -> iso_b (apply_edit r (fst c) (snd c)) p = true ->
                            Iso (apply_edit r (fst c) (snd c)) p.

  Definition sound_rearr (x : rearr) : Prop :=
    (forall b, In b (snd x) -> In_u b (g_edges r)) /\
    (forall f, In f (fst x) -> ~ In_u f (g_edges r)) /\
    Iso (apply_edit r (fst x) (snd x)) p.

  Lemma cand_sound fb bb :
    cand_ok r (fb, bb) -> CS (fb, bb) -> iso_b (apply_edit r fb bb) p = true ->
    sound_rearr (ordered fb, ordered bb).
  Proof.
    intros [Hf Hb] Hc Hi. unfold sound_rearr; cbn [fst snd]. repeat split.
    - intros b Hin. pose proof (ordered_equiv bb b) as E. destruct E as [E _].
      destruct (E (In_In_u _ _ Hin)) as [y [Hy Ey]]. apply (In_u_eq_u y b); auto. apply In_In_u. apply Hb; auto.
    - intros f Hin Hu. pose proof (ordered_equiv fb f) as E. destruct E as [E _].
      destruct (E (In_In_u _ _ Hin)) as [y [Hy Ey]]. apply (Hf y Hy). apply (In_u_eq_u f y); auto. apply eq_u_sym; auto.
    - apply Iso_trans with (apply_edit r fb bb); [|apply (Hs (fb, bb) Hc); auto].
      apply adj_equiv_Iso, apply_adj_equiv; apply ordered_equiv.
  Qed.

  Lemma run_funcs_sound bk fs : forall acc l,
    book_ok r bk -> (forall f cs c, In f fs -> cands f bk = Some cs -> In c cs -> CS c) ->
    (forall x, In x acc -> sound_rearr x) ->
    run_funcs iso_b mv r p bk fs acc = Ok l -> l <> [] /\ forall x, In x l -> sound_rearr x.
  Proof.
    induction fs as [|f fs IH]; intros acc l Hok Hcs Hacc; cbn [run_funcs]; [discriminate|].
    destruct (cands f bk) as [cs|] eqn:Ec; [|discriminate].
    assert (Hsx : forall x, In x (run_func iso_b mv r p cs acc) -> sound_rearr x).
    { intros x Hx. apply run_sound in Hx. destruct Hx as [Hx|[fb [bb [Hin [-> Hi]]]]]; auto.
      apply cand_sound; auto.
      - eapply cands_ok; eauto.
      - apply (Hcs f cs); auto. left; auto. }
    destruct (0 <? length (run_func iso_b mv r p cs acc)) eqn:E.
    - intros H; inversion H; subst. split; auto. apply Nat.ltb_lt in E. intros E'. rewrite E' in E. cbn in E; lia.
    - apply IH; auto. intros f' cs' c Hf'. apply Hcs. right; auto.
  Qed.
End Sound.

Lemma enumerate_sound iso_b mv r p n l :
  (forall c, In c (all_cands r p) -> iso_b (apply_edit r (fst c) (snd c)) p = true ->
             Iso (apply_edit r (fst c) (snd c)) p) ->
  enumerate iso_b mv r p n = Ok l -> l <> [] /\ forall x, In x l -> sound_rearr r p x.
Proof.
  intros Hs. unfold enumerate. destruct (iso_b r p && (3 <? n)); [discriminate|].
  destruct (classify r (bond_types p) (bond_types r) book0) as [bk|] eqn:Ec; [|discriminate].
  destruct (funcs_of (length (g_edges r)) (length (g_edges p))) as [fs|]; [|discriminate].
  apply (run_funcs_sound iso_b mv r p (fun c => In c (all_cands r p)) Hs).
  - eapply classify_ok; eauto; [apply book0_ok | apply bond_types_ok].
  - intros f cs c _ Ef Hin. eapply cands_in_all; eauto.
  - intros x [].
Qed.

(* ================================================================== completeness: infrastructure *)
Lemma key_eqb_spec (a b : key) : reflect (a = b) (key_eqb a b).
Proof. destruct (key_eqb a b) eqn:E; constructor; [apply key_eqb_eq; auto|]. intros H. apply key_eqb_eq in H. congruence. Qed.

Definition bi (x k : key) : nat := if key_eqb x k then 1 else 0.

Lemma filter_none {A} (P : A -> bool) l : (forall k, In k l -> P k = false) -> filter P l = [].
Proof.
  induction l as [|a l IH]; cbn; intros H; auto. rewrite (H a) by auto. apply IH. intros; apply H; auto.
Qed.
Lemma filter_one {A} (P : A -> bool) l t :
  NoDup l -> In t l -> P t = true -> (forall k, In k l -> k <> t -> P k = false) -> filter P l = [t].
Proof.
  induction l as [|a l IH]; intros Hnd Hin Ht Ho; [contradiction|].
  inversion Hnd as [|? ? Hna Hnd']; subst. cbn [filter]. destruct Hin as [->|Hin].
  - rewrite Ht. f_equal. apply filter_none. intros k Hk. apply Ho; [right; auto|]. intros ->. contradiction.
  - rewrite (Ho a); [|left; auto|intros ->; contradiction]. apply IH; auto. intros k Hk. apply Ho; right; auto.
Qed.
Lemma filter_two {A} (P : A -> bool) l t u :
  NoDup l -> In t l -> In u l -> t <> u -> P t = true -> P u = true ->
  (forall k, In k l -> k <> t -> k <> u -> P k = false) ->
  filter P l = [t; u] \/ filter P l = [u; t].
Proof.
  induction l as [|a l IH]; intros Hnd Ht Hu Hne Pt Pu Ho; [contradiction|].
  inversion Hnd as [|? ? Hna Hnd']; subst. cbn [filter].
  destruct Ht as [->|Ht]; [|destruct Hu as [->|Hu]].
  - destruct Hu as [->|Hu]; [congruence|]. left. rewrite Pt. f_equal.
    apply filter_one; auto. intros k Hk Hku. apply Ho; [right; auto| |auto]. intros ->. contradiction.
  - right. rewrite Pu. f_equal.
    apply filter_one; auto. intros k Hk Hkt. apply Ho; [right; auto|auto|]. intros ->. contradiction.
  - rewrite (Ho a); [|left; auto|intros ->; contradiction|intros ->; contradiction].
    apply IH; auto. intros k Hk. apply Ho; right; auto.
Qed.

Lemma pairs_in_or {A} (l : list A) x y : In x l -> In y l -> x <> y -> In (x, y) (pairs l) \/ In (y, x) (pairs l).
Proof.
  induction l as [|a l IH]; intros Hx Hy Hne; [contradiction|]. cbn [pairs].
  destruct Hx as [->|Hx]; [|destruct Hy as [->|Hy]].
  - destruct Hy as [->|Hy]; [congruence|]. left. apply in_app_iff. left. apply in_map; auto.
  - right. apply in_app_iff. left. apply in_map; auto.
  - destruct (IH Hx Hy Hne); [left|right]; apply in_app_iff; right; auto.
Qed.
Lemma pairs_map {A B} (G : A -> B) (l : list A) :
  pairs (map G l) = map (fun xy => (G (fst xy), G (snd xy))) (pairs l).
Proof.
  induction l as [|a l IH]; cbn [pairs map]; auto.
  rewrite map_app, !map_map, IH. reflexivity.
Qed.

Lemma in_flat_map_intro {A B} (f : A -> list B) l a y : In a l -> In y (f a) -> In y (flat_map f l).
Proof. intros. apply in_flat_map. eauto. Qed.
Lemma in_map_intro {A B} (f : A -> B) l a y : In a l -> f a = y -> In y (map f l).
Proof. intros H <-. apply in_map; auto. Qed.

Ltac fm x := apply (in_flat_map_intro _ _ x); [solve [eauto] | cbn beta].
Ltac mp x := apply (in_map_intro _ _ x); [solve [eauto] | reflexivity].

Section Complete.
  Variable iso_b : graph -> graph -> bool.
  Variable mv : nat -> nat.
  Variables r p : graph.
  Hypothesis Hloc : Hiso_on iso_b r p.
  Hypothesis Hwr : wf r.
  Hypothesis Hwp : wf p.

  Definition ks : list key := keys_of r.
  Definition bk : book := book_of r p ks book0.

  (* an edit in canonical presentation: breaking bonds literally in the edge list, forming bonds as
     (small, large) pairs *)
  Record cedit (fb bb : list edge) : Prop := mkCedit {
    ce_clean : clean r fb bb;
    ce_fle : forall f, In f fb -> fst f <= snd f;
    ce_bin : forall b, In b bb -> In b (g_edges r);
    ce_iso : Iso (apply_edit r fb bb) p
  }.

  Lemma cedit_counts fb bb : cedit fb bb ->
    forall k, length (bonds_of p k) + cntk r bb k = length (bonds_of r k) + cntk r fb k.
  Proof.
    intros C k. destruct (iso_counts _ _ (wf_apply r fb bb Hwr (ce_clean _ _ C)) Hwp (ce_iso _ _ C)) as [H _].
    rewrite <- H. apply count_apply; auto. apply C.
  Qed.
  Lemma cedit_total fb bb : cedit fb bb ->
    length (g_edges p) + length bb = length (g_edges r) + length fb.
  Proof.
    intros C. destruct (iso_counts _ _ (wf_apply r fb bb Hwr (ce_clean _ _ C)) Hwp (ce_iso _ _ C)) as [_ H].
    rewrite <- H. apply count_apply_total; auto. apply C.
  Qed.
  Lemma cedit_lookup fb bb : cedit fb bb ->
    forall k, In k ks -> lookup_key k (bond_types p) = Some (bonds_of p k).
  Proof.
    intros C [a b] Hk. unfold bond_types. apply (lookup_map (bonds_of p)).
    apply keys_of_In in Hk. destruct Hk as [Ha [Hb Hle]]. apply keys_of_In.
    destruct (ce_iso _ _ C) as [f [f' [H1 _]]].
    assert (T : forall x, In x (label_list r) -> In x (label_list p)).
    { intros x Hx. apply label_list_In in Hx. destruct Hx as [i [Hi <-]].
      apply label_list_In. exists (f i). destruct (H1 i Hi) as [Hn [_ Hl]]. split; auto. }
    auto.
  Qed.
  Lemma cedit_classify fb bb : cedit fb bb ->
    classify r (bond_types p) (bond_types r) book0 = Some bk.
  Proof. intros C. unfold bond_types at 2. apply classify_spec. apply (cedit_lookup _ _ C). Qed.

  Lemma cedit_b fb bb b : cedit fb bb -> In b bb ->
    In b (bonds_of r (edge_key r b)) /\ In (edge_key r b) ks.
  Proof.
    intros C Hb. pose proof (ce_bin _ _ C _ Hb) as Hin. split.
    - apply bonds_of_In; auto.
    - apply edge_key_in_keys; apply (wf_ends _ Hwr); auto.
  Qed.
  Lemma cedit_f fb bb f : cedit fb bb -> In f fb ->
    In f (possible_fbonds r (edge_key r f)) /\ In (edge_key r f) ks.
  Proof.
    intros C Hf. destruct (cl_fnodes _ _ _ (ce_clean _ _ C) _ Hf) as [N1 N2]. split.
    - apply pf_self; auto; [apply (ce_fle _ _ C)|apply (cl_fnew _ _ _ (ce_clean _ _ C))]; auto.
    - apply edge_key_in_keys; auto.
  Qed.

  Definition hit (fb bb : list edge) (cs : list cand) : Prop :=
    exists fb' bb', In (fb', bb') cs /\ equiv_l fb fb' /\ equiv_l bb bb'.

  Lemma hit_app_l fb bb A B : hit fb bb A -> hit fb bb (A ++ B).
  Proof. intros [x [y [H1 H2]]]. exists x, y. split; auto. apply in_app_iff; auto. Qed.
  Lemma hit_app_r fb bb A B : hit fb bb B -> hit fb bb (A ++ B).
  Proof. intros [x [y [H1 H2]]]. exists x, y. split; auto. apply in_app_iff; auto. Qed.
  Lemma hit_equiv fb bb fb2 bb2 cs : equiv_l fb fb2 -> equiv_l bb bb2 -> hit fb2 bb2 cs -> hit fb bb cs.
  Proof.
    intros E1 E2 [x [y [H1 [H2 H3]]]]. exists x, y. split; auto.
    split; eapply equiv_l_trans; eauto.
  Qed.

  (* a candidate that presents the edit passes the valence filter and the isomorphism test *)
  Lemma hit_run fb bb cs acc :
    clean r fb bb -> Iso (apply_edit r fb bb) p ->
    (forall i, In i (g_nodes r) ->
       degree (apply_edit r fb bb) i <= Nat.max (mv (g_label r i)) (degree r i)) ->
    (forall c, In c cs -> In c (all_cands r p)) ->
    hit fb bb cs -> 0 < length (run_func iso_b mv r p cs acc).
  Proof.
    intros C HI Hdeg Hsub [fb' [bb' [Hin [Ef Eb]]]]. eapply run_hit; eauto.
    - eapply valence_ok_of_premise; eauto.
    - apply (proj2 Hloc (fb', bb') (Hsub _ Hin)). cbn [fst snd].
      apply Iso_trans with (apply_edit r fb bb); auto.
      apply adj_equiv_Iso, apply_adj_equiv; apply equiv_l_sym; auto.
  Qed.

  Lemma cntk1 b k : cntk r [b] k = bi (edge_key r b) k.
  Proof. unfold cntk, bi, Pk. cbn [filter]. destruct (key_eqb (edge_key r b) k); reflexivity. Qed.
  Lemma cntk2 b1 b2 k : cntk r [b1; b2] k = bi (edge_key r b1) k + bi (edge_key r b2) k.
  Proof.
    unfold cntk, bi, Pk. cbn [filter].
    destruct (key_eqb (edge_key r b1) k), (key_eqb (edge_key r b2) k); reflexivity.
  Qed.
  Lemma cntk0 k : cntk r [] k = 0.
  Proof. reflexivity. Qed.

  Lemma sameb_true k : In k ks ->
    length (bonds_of p k) = length (bonds_of r k) -> bonds_of r k <> [] -> In k (filter (sameb r p) ks).
  Proof.
    intros Hk E Hne. apply filter_In. split; auto. unfold sameb, decb, incb. rewrite E, Nat.ltb_irrefl. cbn.
    destruct (bonds_of r k); [congruence|reflexivity].
  Qed.
  Lemma same_bf_bk : same_bf bk = map (fun k => (bonds_of r k, possible_fbonds r k)) (filter (sameb r p) ks).
  Proof. reflexivity. Qed.
  Lemma all_bb_bk : all_bb bk = map (bonds_of r) (filter (decb r p) ks).
  Proof. reflexivity. Qed.
  Lemma all_fb_bk : all_fb bk = map (possible_fbonds r) (filter (incb r p) ks).
  Proof. reflexivity. Qed.
  Lemma bb_fb_bk : bb_fb bk = fold_left (fun _ k => Some (possible_fbonds r k)) (filter (decb r p) ks) None.
  Proof. reflexivity. Qed.
  Lemma fb_bb_bk : fb_bb bk = fold_left (fun _ k => Some (bonds_of r k)) (filter (incb r p) ks) None.
  Proof. reflexivity. Qed.

  Lemma ks_NoDup : NoDup ks.
  Proof. apply keys_NoDup. Qed.

  Lemma decb_t k nb nf : length (bonds_of p k) + nb = length (bonds_of r k) + nf -> nf < nb -> decb r p k = true.
  Proof. intros. unfold decb. apply Nat.ltb_lt. lia. Qed.
  Lemma decb_f k nb nf : length (bonds_of p k) + nb = length (bonds_of r k) + nf -> nb <= nf -> decb r p k = false.
  Proof. intros. unfold decb. apply Nat.ltb_ge. lia. Qed.
  Lemma incb_t k nb nf : length (bonds_of p k) + nb = length (bonds_of r k) + nf -> nb < nf -> incb r p k = true.
  Proof. intros. unfold incb. apply Nat.ltb_lt. lia. Qed.
  Lemma incb_f k nb nf : length (bonds_of p k) + nb = length (bonds_of r k) + nf -> nf <= nb -> incb r p k = false.
  Proof. intros. unfold incb. apply Nat.ltb_ge. lia. Qed.

  Lemma cedit_perm fb bb fb' bb' :
    Permutation fb fb' -> Permutation bb bb' -> cedit fb bb -> cedit fb' bb'.
  Proof.
    intros Pf Pb [[C1 C2 C3 C4 C5] Hle Hin HI]. constructor.
    - constructor.
      + eapply Permutation_NoDup; [apply Permutation_map; eauto|auto].
      + eapply Permutation_NoDup; [apply Permutation_map; eauto|auto].
      + intros f Hf. apply C3. eapply Permutation_in; [apply Permutation_sym|]; eauto.
      + intros f Hf. apply C4. eapply Permutation_in; [apply Permutation_sym|]; eauto.
      + intros b Hb. apply C5. eapply Permutation_in; [apply Permutation_sym|]; eauto.
    - intros f Hf. apply Hle. eapply Permutation_in; [apply Permutation_sym|]; eauto.
    - intros b Hb. apply Hin. eapply Permutation_in; [apply Permutation_sym|]; eauto.
    - apply Iso_trans with (apply_edit r fb bb); auto.
      assert (PE : forall l l' : list edge, Permutation l l' -> equiv_l l' l).
      { intros l l' P e. unfold In_u. split; intros [x [Hx E]]; exists x; split; auto.
        - eapply Permutation_in; [apply Permutation_sym|]; eauto.
        - eapply Permutation_in; eauto. }
      apply adj_equiv_Iso, apply_adj_equiv; apply PE; auto.
  Qed.

  Lemma two_neq (a b : edge) : NoDup (map norm [a; b]) -> a <> b.
  Proof. cbn. intros H E. inversion H as [|? ? Hn _]; subst. apply Hn. left; reflexivity. Qed.

  (* case analysis of all key comparisons; every branch is closed by congruence or arithmetic *)
  Ltac ksolve :=
    unfold bi;
    repeat match goal with
           | |- context [key_eqb ?a ?b] => destruct (key_eqb_spec a b)
           end;
    intros; try congruence; try lia.
  Ltac dec_at Hk x := eapply (decb_t x); [apply (Hk x)|]; ksolve.
  Ltac inc_at Hk x := eapply (incb_t x); [apply (Hk x)|]; ksolve.
  Ltac dec_not Hk := let k := fresh "k" in intros k; intros; eapply (decb_f k); [apply (Hk k)|]; ksolve.
  Ltac inc_not Hk := let k := fresh "k" in intros k; intros; eapply (incb_f k); [apply (Hk k)|]; ksolve.

  (* ---------------------------------------------------------------- one breaking bond *)
  Lemma pat_1b b1 : cedit [] [b1] -> exists cs, cands_1b bk = Some cs /\ hit [] [b1] cs.
  Proof.
    intros C. pose proof (cedit_counts _ _ C) as Hc.
    assert (Hk : forall k, length (bonds_of p k) + bi (edge_key r b1) k = length (bonds_of r k) + 0).
    { intros k. specialize (Hc k). rewrite cntk1, cntk0 in Hc. exact Hc. }
    destruct (cedit_b _ _ b1 C) as [B1 K1]; [left; auto|].
    assert (HD : filter (decb r p) ks = [edge_key r b1]).
    { apply filter_one; auto using ks_NoDup; [dec_at Hk (edge_key r b1) | dec_not Hk]. }
    unfold cands_1b. rewrite all_bb_bk, HD. cbn [map]. eexists. split; [reflexivity|].
    exists [], [b1]. split; [mp b1|split; apply equiv_l_refl].
  Qed.

  (* ---------------------------------------------------------------- two breaking bonds *)
  Lemma pat_2b b1 b2 : cedit [] [b1; b2] -> hit [] [b1; b2] (cands_2b bk).
  Proof.
    intros C. pose proof (cedit_counts _ _ C) as Hc.
    remember (edge_key r b1) as t. remember (edge_key r b2) as u.
    assert (Hk : forall k, length (bonds_of p k) + (bi t k + bi u k) = length (bonds_of r k) + 0).
    { intros k. specialize (Hc k). rewrite cntk2, cntk0 in Hc. subst; exact Hc. }
    destruct (cedit_b _ _ b1 C) as [B1 K1]; [left; auto|].
    destruct (cedit_b _ _ b2 C) as [B2 K2]; [right; left; auto|].
    rewrite <- Heqt in B1, K1. rewrite <- Hequ in B2, K2.
    pose proof (two_neq _ _ (cl_bnd _ _ _ (ce_clean _ _ C))) as Hne.
    unfold cands_2b. rewrite all_bb_bk.
    destruct (key_eq_dec t u) as [E|NE].
    - subst u. rewrite <- E in *.
      assert (HD : filter (decb r p) ks = [t]).
      { apply filter_one; auto using ks_NoDup; [dec_at Hk t | dec_not Hk]. }
      rewrite HD. cbn [map].
      destruct (pairs_in_or _ b1 b2 B1 B2 Hne) as [H|H].
      + exists [], [b1; b2]. split; [mp (b1, b2)|split; apply equiv_l_refl].
      + exists [], [b2; b1]. split; [mp (b2, b1)|split; [apply equiv_l_refl|apply equiv_l_swap]].
    - destruct (filter_two (decb r p) ks t u) as [HD|HD]; auto using ks_NoDup;
        [dec_at Hk t | dec_at Hk u | dec_not Hk | |]; rewrite HD; cbn [map].
      + exists [], [b1; b2]. split; [fm b1; mp b2|split; apply equiv_l_refl].
      + exists [], [b2; b1]. split; [fm b2; mp b1|split; [apply equiv_l_refl|apply equiv_l_swap]].
  Qed.

  (* ---------------------------------------------------------------- one breaking, one forming *)
  Lemma pat_1b1f b1 f1 : cedit [f1] [b1] -> hit [f1] [b1] (cands_1b1f bk).
  Proof.
    intros C. pose proof (cedit_counts _ _ C) as Hc.
    remember (edge_key r b1) as t. remember (edge_key r f1) as v.
    assert (Hk : forall k, length (bonds_of p k) + bi t k = length (bonds_of r k) + bi v k).
    { intros k. specialize (Hc k). rewrite !cntk1 in Hc. subst; exact Hc. }
    destruct (cedit_b _ _ b1 C) as [B1 K1]; [left; auto|].
    destruct (cedit_f _ _ f1 C) as [F1 L1]; [left; auto|].
    rewrite <- Heqt in B1, K1. rewrite <- Heqv in F1, L1.
    unfold cands_1b1f. rewrite all_bb_bk, all_fb_bk.
    destruct (key_eq_dec t v) as [E|NE].
    - subst v. rewrite <- E in *.
      assert (HD : filter (decb r p) ks = []) by (apply filter_none; dec_not Hk).
      assert (HI : filter (incb r p) ks = []) by (apply filter_none; inc_not Hk).
      rewrite HD, HI. cbn [map]. rewrite same_bf_bk.
      assert (S : In t (filter (sameb r p) ks)).
      { apply sameb_true; auto. - pose proof (Hk t). lia. - intros X. rewrite X in B1. destruct B1. }
      exists [f1], [b1]. split; [|split; apply equiv_l_refl].
      apply (in_flat_map_intro _ _ (bonds_of r t, possible_fbonds r t)); [apply in_map_iff; exists t; auto|].
      cbn [fst snd]. fm b1. mp f1.
    - assert (HD : filter (decb r p) ks = [t]).
      { apply filter_one; auto using ks_NoDup; [dec_at Hk t | dec_not Hk]. }
      assert (HI : filter (incb r p) ks = [v]).
      { apply filter_one; auto using ks_NoDup; [inc_at Hk v | inc_not Hk]. }
      rewrite HD, HI. cbn [map].
      exists [f1], [b1]. split; [fm f1; mp b1|split; apply equiv_l_refl].
  Qed.

  (* ---------------------------------------------------------------- two breaking, one forming *)
  Section P21.
    Variables b1 b2 f1 : edge.
    Variables t u v : key.
    Hypothesis C : cedit [f1] [b1; b2].
    Hypothesis Et : t = edge_key r b1.
    Hypothesis Eu : u = edge_key r b2.
    Hypothesis Ev : v = edge_key r f1.

    Lemma p21_counts : forall k, length (bonds_of p k) + (bi t k + bi u k) = length (bonds_of r k) + bi v k.
    Proof. intros k. pose proof (cedit_counts _ _ C k) as Hc. rewrite cntk2, cntk1 in Hc. subst; exact Hc. Qed.
    Lemma p21_b1 : In b1 (bonds_of r t) /\ In t ks.
    Proof. subst t. apply (cedit_b _ _ b1 C). left; auto. Qed.
    Lemma p21_b2 : In b2 (bonds_of r u) /\ In u ks.
    Proof. subst u. apply (cedit_b _ _ b2 C). right; left; auto. Qed.
    Lemma p21_f1 : In f1 (possible_fbonds r v) /\ In v ks.
    Proof. subst v. apply (cedit_f _ _ f1 C). left; auto. Qed.
    Lemma p21_ne : b1 <> b2.
    Proof. apply two_neq, (cl_bnd _ _ _ (ce_clean _ _ C)). Qed.

    (* all three types different *)
    Lemma p21_distinct : t <> u -> t <> v -> u <> v -> hit [f1] [b1; b2] (cands_2b1f bk).
    Proof.
      intros N1 N2 N3. pose proof p21_counts as Hk.
      destruct p21_b1 as [B1 K1], p21_b2 as [B2 K2], p21_f1 as [F1 L1].
      unfold cands_2b1f. rewrite all_bb_bk, all_fb_bk.
      assert (HI : filter (incb r p) ks = [v]).
      { apply filter_one; auto using ks_NoDup; [inc_at Hk v | inc_not Hk]. }
      rewrite HI.
      destruct (filter_two (decb r p) ks t u) as [HD|HD]; auto using ks_NoDup;
        [dec_at Hk t | dec_at Hk u | dec_not Hk | |]; rewrite HD; cbn [map].
      - exists [f1], [b1; b2]. split; [fm f1; fm b1; mp b2|split; apply equiv_l_refl].
      - exists [f1], [b2; b1]. split; [fm f1; fm b2; mp b1|split; [apply equiv_l_refl|apply equiv_l_swap]].
    Qed.

    (* two breaking bonds of one type, forming bond of another *)
    Lemma p21_bb_same : t = u -> t <> v -> hit [f1] [b1; b2] (cands_2b1f bk).
    Proof.
      intros E N. pose proof p21_counts as Hk. pose proof p21_ne as Hne.
      destruct p21_b1 as [B1 K1], p21_b2 as [B2 K2], p21_f1 as [F1 L1]. rewrite <- E in *.
      unfold cands_2b1f. rewrite all_bb_bk, all_fb_bk.
      assert (HD : filter (decb r p) ks = [t]).
      { apply filter_one; auto using ks_NoDup; [dec_at Hk t | dec_not Hk]. }
      assert (HI : filter (incb r p) ks = [v]).
      { apply filter_one; auto using ks_NoDup; [inc_at Hk v | inc_not Hk]. }
      rewrite HD, HI. cbn [map].
      destruct (pairs_in_or _ b1 b2 B1 B2 Hne) as [H|H].
      - exists [f1], [b1; b2]. split; [fm f1; mp (b1, b2)|split; apply equiv_l_refl].
      - exists [f1], [b2; b1]. split; [fm f1; mp (b2, b1)|split; [apply equiv_l_refl|apply equiv_l_swap]].
    Qed.

    (* forming bond of the type of the first breaking bond, second breaking bond of another type *)
    Lemma p21_f_eq_b1 : t <> u -> v = t -> hit [f1] [b1; b2] (cands_2b1f bk).
    Proof.
      intros N E. pose proof p21_counts as Hk.
      destruct p21_b1 as [B1 K1], p21_b2 as [B2 K2], p21_f1 as [F1 L1]. rewrite E in *.
      unfold cands_2b1f. rewrite all_bb_bk, all_fb_bk.
      assert (HD : filter (decb r p) ks = [u]).
      { apply filter_one; auto using ks_NoDup; [dec_at Hk u | dec_not Hk]. }
      assert (HI : filter (incb r p) ks = []) by (apply filter_none; inc_not Hk).
      rewrite HD, HI. cbn [map]. apply hit_app_l. rewrite same_bf_bk.
      assert (S : In t (filter (sameb r p) ks)).
      { apply sameb_true; auto.
        - pose proof (Hk t) as X. revert X. ksolve.
        - intros X. rewrite X in B1. destruct B1. }
      exists [f1], [b2; b1]. split; [|split; [apply equiv_l_refl|apply equiv_l_swap]].
      apply (in_flat_map_intro _ _ (bonds_of r t, possible_fbonds r t)); [apply in_map_iff; exists t; auto|].
      cbn [fst snd]. fm f1. fm b2. mp b1.
    Qed.

    (* all of one type *)
    Lemma p21_all_same : t = u -> v = t -> hit [f1] [b1; b2] (cands_2b1f bk).
    Proof.
      intros E1 E2. pose proof p21_counts as Hk. pose proof p21_ne as Hne.
      destruct p21_b1 as [B1 K1], p21_b2 as [B2 K2], p21_f1 as [F1 L1]. rewrite E2 in *. rewrite <- E1 in *.
      unfold cands_2b1f. rewrite all_bb_bk, all_fb_bk, bb_fb_bk.
      assert (HD : filter (decb r p) ks = [t]).
      { apply filter_one; auto using ks_NoDup; [dec_at Hk t | dec_not Hk]. }
      assert (HI : filter (incb r p) ks = []) by (apply filter_none; inc_not Hk).
      rewrite HD, HI. cbn [map fold_left opt_list]. apply hit_app_r.
      destruct (pairs_in_or _ b1 b2 B1 B2 Hne) as [H|H].
      - exists [f1], [b1; b2]. split; [fm f1; mp (b1, b2)|split; apply equiv_l_refl].
      - exists [f1], [b2; b1]. split; [fm f1; mp (b2, b1)|split; [apply equiv_l_refl|apply equiv_l_swap]].
    Qed.
  End P21.

  Lemma pat_2b1f b1 b2 f1 : cedit [f1] [b1; b2] -> hit [f1] [b1; b2] (cands_2b1f bk).
  Proof.
    intros C.
    destruct (key_eq_dec (edge_key r b1) (edge_key r b2)) as [E1|N1];
      destruct (key_eq_dec (edge_key r f1) (edge_key r b1)) as [E2|N2].
    - apply (p21_all_same b1 b2 f1 _ _ _ C eq_refl eq_refl eq_refl); congruence.
    - apply (p21_bb_same b1 b2 f1 _ _ _ C eq_refl eq_refl eq_refl); congruence.
    - apply (p21_f_eq_b1 b1 b2 f1 _ _ _ C eq_refl eq_refl eq_refl); congruence.
    - destruct (key_eq_dec (edge_key r f1) (edge_key r b2)) as [E3|N3].
      + (* symmetric to p21_f_eq_b1 *)
        apply hit_equiv with [f1] [b2; b1]; [apply equiv_l_refl|apply equiv_l_swap|].
        assert (C' : cedit [f1] [b2; b1])
          by (apply (cedit_perm _ _ _ _ (Permutation_refl _) (perm_swap b2 b1 []) C)).
        apply (p21_f_eq_b1 b2 b1 f1 _ _ _ C' eq_refl eq_refl eq_refl); congruence.
      + apply (p21_distinct b1 b2 f1 _ _ _ C eq_refl eq_refl eq_refl); congruence.
  Qed.

  (* ---------------------------------------------------------------- two breaking, two forming *)
  Section P22.
    Variables b1 b2 f1 f2 : edge.
    Variables t u v w : key.
    Hypothesis C : cedit [f1; f2] [b1; b2].
    Hypothesis Et : t = edge_key r b1.
    Hypothesis Eu : u = edge_key r b2.
    Hypothesis Ev : v = edge_key r f1.
    Hypothesis Ew : w = edge_key r f2.

    Lemma p22_counts :
      forall k, length (bonds_of p k) + (bi t k + bi u k) = length (bonds_of r k) + (bi v k + bi w k).
    Proof. intros k. pose proof (cedit_counts _ _ C k) as Hc. rewrite !cntk2 in Hc. subst; exact Hc. Qed.
    Lemma p22_b1 : In b1 (bonds_of r t) /\ In t ks.
    Proof. subst t. apply (cedit_b _ _ b1 C). left; auto. Qed.
    Lemma p22_b2 : In b2 (bonds_of r u) /\ In u ks.
    Proof. subst u. apply (cedit_b _ _ b2 C). right; left; auto. Qed.
    Lemma p22_f1 : In f1 (possible_fbonds r v) /\ In v ks.
    Proof. subst v. apply (cedit_f _ _ f1 C). left; auto. Qed.
    Lemma p22_f2 : In f2 (possible_fbonds r w) /\ In w ks.
    Proof. subst w. apply (cedit_f _ _ f2 C). right; left; auto. Qed.
    Lemma p22_bne : b1 <> b2.
    Proof. apply two_neq, (cl_bnd _ _ _ (ce_clean _ _ C)). Qed.
    Lemma p22_fne : f1 <> f2.
    Proof. apply two_neq, (cl_fnd _ _ _ (ce_clean _ _ C)). Qed.

    Ltac setup :=
      pose proof p22_counts as Hk; pose proof p22_bne as Hbne; pose proof p22_fne as Hfne;
      destruct p22_b1 as [B1 K1], p22_b2 as [B2 K2], p22_f1 as [F1 L1], p22_f2 as [F2 L2].
    Ltac refl_or_swap := first [apply equiv_l_refl | apply equiv_l_swap].

    (* (a) four different types *)
    Lemma p22_a : t <> u -> v <> w -> t <> v -> t <> w -> u <> v -> u <> w ->
      hit [f1; f2] [b1; b2] (cands_2b2f bk).
    Proof.
      intros N1 N2 N3 N4 N5 N6. setup.
      unfold cands_2b2f. rewrite all_bb_bk, all_fb_bk.
      destruct (filter_two (decb r p) ks t u) as [HD|HD]; auto using ks_NoDup;
        [dec_at Hk t | dec_at Hk u | dec_not Hk | |];
      (destruct (filter_two (incb r p) ks v w) as [HI|HI]; auto using ks_NoDup;
        [inc_at Hk v | inc_at Hk w | inc_not Hk | |]); rewrite HD, HI; cbn [map].
      - exists [f1; f2], [b1; b2]. split; [fm f1; fm f2; fm b1; mp b2|split; refl_or_swap].
      - exists [f2; f1], [b1; b2]. split; [fm f2; fm f1; fm b1; mp b2|split; refl_or_swap].
      - exists [f1; f2], [b2; b1]. split; [fm f1; fm f2; fm b2; mp b1|split; refl_or_swap].
      - exists [f2; f1], [b2; b1]. split; [fm f2; fm f1; fm b2; mp b1|split; refl_or_swap].
    Qed.

    (* (b) breaking bonds of two types, both forming bonds of a third *)
    Lemma p22_b : t <> u -> v = w -> t <> v -> u <> v -> hit [f1; f2] [b1; b2] (cands_2b2f bk).
    Proof.
      intros N1 E N3 N5. setup. rewrite <- E in *.
      unfold cands_2b2f. rewrite all_bb_bk, all_fb_bk.
      assert (HI : filter (incb r p) ks = [v]).
      { apply filter_one; auto using ks_NoDup; [inc_at Hk v | inc_not Hk]. }
      destruct (filter_two (decb r p) ks t u) as [HD|HD]; auto using ks_NoDup;
        [dec_at Hk t | dec_at Hk u | dec_not Hk | |]; rewrite HD, HI; cbn [map];
      destruct (pairs_in_or _ f1 f2 F1 F2 Hfne) as [H|H].
      - exists [f1; f2], [b1; b2]. split; [fm b1; fm b2; mp (f1, f2)|split; refl_or_swap].
      - exists [f2; f1], [b1; b2]. split; [fm b1; fm b2; mp (f2, f1)|split; refl_or_swap].
      - exists [f1; f2], [b2; b1]. split; [fm b2; fm b1; mp (f1, f2)|split; refl_or_swap].
      - exists [f2; f1], [b2; b1]. split; [fm b2; fm b1; mp (f2, f1)|split; refl_or_swap].
    Qed.

    (* (c) both breaking bonds of one type, forming bonds of two other types *)
    Lemma p22_c : t = u -> v <> w -> t <> v -> t <> w -> hit [f1; f2] [b1; b2] (cands_2b2f bk).
    Proof.
      intros E N2 N3 N4. setup. rewrite <- E in *.
      unfold cands_2b2f. rewrite all_bb_bk, all_fb_bk.
      assert (HD : filter (decb r p) ks = [t]).
      { apply filter_one; auto using ks_NoDup; [dec_at Hk t | dec_not Hk]. }
      destruct (filter_two (incb r p) ks v w) as [HI|HI]; auto using ks_NoDup;
        [inc_at Hk v | inc_at Hk w | inc_not Hk | |]; rewrite HD, HI; cbn [map];
      destruct (pairs_in_or _ b1 b2 B1 B2 Hbne) as [H|H].
      - exists [f1; f2], [b1; b2]. split; [fm f1; fm f2; mp (b1, b2)|split; refl_or_swap].
      - exists [f1; f2], [b2; b1]. split; [fm f1; fm f2; mp (b2, b1)|split; refl_or_swap].
      - exists [f2; f1], [b1; b2]. split; [fm f2; fm f1; mp (b1, b2)|split; refl_or_swap].
      - exists [f2; f1], [b2; b1]. split; [fm f2; fm f1; mp (b2, b1)|split; refl_or_swap].
    Qed.

    (* (d) both breaking of one type, both forming of another *)
    Lemma p22_d : t = u -> v = w -> t <> v -> hit [f1; f2] [b1; b2] (cands_2b2f bk).
    Proof.
      intros E1 E2 N. setup. rewrite <- E1 in *. rewrite <- E2 in *.
      unfold cands_2b2f. rewrite all_bb_bk, all_fb_bk.
      assert (HD : filter (decb r p) ks = [t]).
      { apply filter_one; auto using ks_NoDup; [dec_at Hk t | dec_not Hk]. }
      assert (HI : filter (incb r p) ks = [v]).
      { apply filter_one; auto using ks_NoDup; [inc_at Hk v | inc_not Hk]. }
      rewrite HD, HI; cbn [map]. apply hit_app_l.
      destruct (pairs_in_or _ b1 b2 B1 B2 Hbne) as [H|H];
      destruct (pairs_in_or _ f1 f2 F1 F2 Hfne) as [H'|H'].
      - exists [f1; f2], [b1; b2]. split; [fm (f1, f2); mp (b1, b2)|split; refl_or_swap].
      - exists [f2; f1], [b1; b2]. split; [fm (f2, f1); mp (b1, b2)|split; refl_or_swap].
      - exists [f1; f2], [b2; b1]. split; [fm (f1, f2); mp (b2, b1)|split; refl_or_swap].
      - exists [f2; f1], [b2; b1]. split; [fm (f2, f1); mp (b2, b1)|split; refl_or_swap].
    Qed.

    (* (e) first forming bond of the type of the first breaking bond; the other two of two further types *)
    Lemma p22_e : v = t -> t <> u -> t <> w -> u <> w -> hit [f1; f2] [b1; b2] (cands_2b2f bk).
    Proof.
      intros E N1 N4 N6. setup. rewrite E in *.
      unfold cands_2b2f. rewrite all_bb_bk, all_fb_bk.
      assert (HD : filter (decb r p) ks = [u]).
      { apply filter_one; auto using ks_NoDup; [dec_at Hk u | dec_not Hk]. }
      assert (HI : filter (incb r p) ks = [w]).
      { apply filter_one; auto using ks_NoDup; [inc_at Hk w | inc_not Hk]. }
      rewrite HD, HI; cbn [map]. apply hit_app_r, hit_app_l. rewrite same_bf_bk.
      assert (S : In t (filter (sameb r p) ks)).
      { apply sameb_true; auto.
        - pose proof (Hk t) as X. revert X. ksolve.
        - intros X. rewrite X in B1. destruct B1. }
      exists [f2; f1], [b2; b1]. split; [|split; refl_or_swap].
      apply (in_flat_map_intro _ _ (bonds_of r t, possible_fbonds r t)); [apply in_map_iff; exists t; auto|].
      cbn [fst snd]. fm f2. fm f1. fm b2. mp b1.
    Qed.

    (* (f) one made and one broken of each of two types *)
    Lemma p22_f : v = t -> w = u -> t <> u -> hit [f1; f2] [b1; b2] (cands_2b2f bk).
    Proof.
      intros E1 E2 N. setup. rewrite E1 in *. rewrite E2 in *.
      unfold cands_2b2f. rewrite all_bb_bk, all_fb_bk.
      assert (HD : filter (decb r p) ks = []) by (apply filter_none; dec_not Hk).
      assert (HI : filter (incb r p) ks = []) by (apply filter_none; inc_not Hk).
      rewrite HD, HI; cbn [map]. apply hit_app_l. rewrite same_bf_bk, pairs_map.
      assert (S1 : In t (filter (sameb r p) ks)).
      { apply sameb_true; auto.
        - pose proof (Hk t) as X. revert X. ksolve.
        - intros X. rewrite X in B1. destruct B1. }
      assert (S2 : In u (filter (sameb r p) ks)).
      { apply sameb_true; auto.
        - pose proof (Hk u) as X. revert X. ksolve.
        - intros X. rewrite X in B2. destruct B2. }
      destruct (pairs_in_or _ t u S1 S2 N) as [H|H].
      - exists [f1; f2], [b1; b2]. split; [|split; refl_or_swap].
        eapply in_flat_map_intro; [apply in_map; exact H|]. cbn [fst snd]. fm f1. fm b1. fm f2. mp b2.
      - exists [f2; f1], [b2; b1]. split; [|split; refl_or_swap].
        eapply in_flat_map_intro; [apply in_map; exact H|]. cbn [fst snd]. fm f2. fm b2. fm f1. mp b1.
    Qed.

    (* (g) everything of one type *)
    Lemma p22_g : t = u -> v = t -> w = t -> hit [f1; f2] [b1; b2] (cands_2b2f bk).
    Proof.
      intros E1 E2 E3. setup. rewrite E2 in *. rewrite E3 in *. rewrite <- E1 in *.
      unfold cands_2b2f. rewrite all_bb_bk, all_fb_bk.
      assert (HD : filter (decb r p) ks = []) by (apply filter_none; dec_not Hk).
      assert (HI : filter (incb r p) ks = []) by (apply filter_none; inc_not Hk).
      rewrite HD, HI; cbn [map]. apply hit_app_r. rewrite same_bf_bk.
      assert (S : In t (filter (sameb r p) ks)).
      { apply sameb_true; auto.
        - pose proof (Hk t) as X. revert X. ksolve.
        - intros X. rewrite X in B1. destruct B1. }
      destruct (pairs_in_or _ b1 b2 B1 B2 Hbne) as [H|H];
      destruct (pairs_in_or _ f1 f2 F1 F2 Hfne) as [H'|H'].
      - exists [f1; f2], [b1; b2]. split; [|split; refl_or_swap].
        apply (in_flat_map_intro _ _ (bonds_of r t, possible_fbonds r t)); [apply in_map_iff; exists t; auto|].
        cbn [fst snd]. fm (f1, f2). mp (b1, b2).
      - exists [f2; f1], [b1; b2]. split; [|split; refl_or_swap].
        apply (in_flat_map_intro _ _ (bonds_of r t, possible_fbonds r t)); [apply in_map_iff; exists t; auto|].
        cbn [fst snd]. fm (f2, f1). mp (b1, b2).
      - exists [f1; f2], [b2; b1]. split; [|split; refl_or_swap].
        apply (in_flat_map_intro _ _ (bonds_of r t, possible_fbonds r t)); [apply in_map_iff; exists t; auto|].
        cbn [fst snd]. fm (f1, f2). mp (b2, b1).
      - exists [f2; f1], [b2; b1]. split; [|split; refl_or_swap].
        apply (in_flat_map_intro _ _ (bonds_of r t, possible_fbonds r t)); [apply in_map_iff; exists t; auto|].
        cbn [fst snd]. fm (f2, f1). mp (b2, b1).
    Qed.

    (* (h) both breaking bonds and the first forming bond of one type, second forming bond of another *)
    Lemma p22_h : t = u -> v = t -> w <> t -> hit [f1; f2] [b1; b2] (cands_2b2f bk).
    Proof.
      intros E1 E2 N. setup. rewrite E2 in *. rewrite <- E1 in *.
      unfold cands_2b2f. rewrite all_bb_bk, all_fb_bk, bb_fb_bk.
      assert (HD : filter (decb r p) ks = [t]).
      { apply filter_one; auto using ks_NoDup; [dec_at Hk t | dec_not Hk]. }
      assert (HI : filter (incb r p) ks = [w]).
      { apply filter_one; auto using ks_NoDup; [inc_at Hk w | inc_not Hk]. }
      rewrite HD, HI; cbn [map fold_left opt_list]. apply hit_app_r, hit_app_r, hit_app_l.
      destruct (pairs_in_or _ b1 b2 B1 B2 Hbne) as [H|H].
      - exists [f2; f1], [b1; b2]. split; [fm f2; fm f1; mp (b1, b2)|split; refl_or_swap].
      - exists [f2; f1], [b2; b1]. split; [fm f2; fm f1; mp (b2, b1)|split; refl_or_swap].
    Qed.

    (* (i) both forming bonds and the first breaking bond of one type, second breaking bond of another *)
    Lemma p22_i : v = t -> w = t -> u <> t -> hit [f1; f2] [b1; b2] (cands_2b2f bk).
    Proof.
      intros E1 E2 N. setup. rewrite E1 in *. rewrite E2 in *.
      unfold cands_2b2f. rewrite all_bb_bk, all_fb_bk, fb_bb_bk.
      assert (HD : filter (decb r p) ks = [u]).
      { apply filter_one; auto using ks_NoDup; [dec_at Hk u | dec_not Hk]. }
      assert (HI : filter (incb r p) ks = [t]).
      { apply filter_one; auto using ks_NoDup; [inc_at Hk t | inc_not Hk]. }
      rewrite HD, HI; cbn [map fold_left opt_list]. apply hit_app_r, hit_app_r, hit_app_r.
      destruct (pairs_in_or _ f1 f2 F1 F2 Hfne) as [H|H].
      - exists [f1; f2], [b2; b1]. split; [fm b2; fm b1; mp (f1, f2)|split; refl_or_swap].
      - exists [f2; f1], [b2; b1]. split; [fm b2; fm b1; mp (f2, f1)|split; refl_or_swap].
    Qed.
  End P22.

  Lemma pat_2b2f b1 b2 f1 f2 : cedit [f1; f2] [b1; b2] -> hit [f1; f2] [b1; b2] (cands_2b2f bk).
  Proof.
    intros C.
    assert (Cf : cedit [f2; f1] [b1; b2]) by (apply (cedit_perm _ _ _ _ (perm_swap f2 f1 []) (Permutation_refl _) C)).
    assert (Cb : cedit [f1; f2] [b2; b1]) by (apply (cedit_perm _ _ _ _ (Permutation_refl _) (perm_swap b2 b1 []) C)).
    assert (Cfb : cedit [f2; f1] [b2; b1]) by (apply (cedit_perm _ _ _ _ (perm_swap f2 f1 []) (perm_swap b2 b1 []) C)).
    assert (Sf : hit [f2; f1] [b1; b2] (cands_2b2f bk) -> hit [f1; f2] [b1; b2] (cands_2b2f bk))
      by (apply hit_equiv; [apply equiv_l_swap|apply equiv_l_refl]).
    assert (Sb : hit [f1; f2] [b2; b1] (cands_2b2f bk) -> hit [f1; f2] [b1; b2] (cands_2b2f bk))
      by (apply hit_equiv; [apply equiv_l_refl|apply equiv_l_swap]).
    assert (Sfb : hit [f2; f1] [b2; b1] (cands_2b2f bk) -> hit [f1; f2] [b1; b2] (cands_2b2f bk))
      by (apply hit_equiv; apply equiv_l_swap).
    remember (edge_key r b1) as T. remember (edge_key r b2) as U.
    remember (edge_key r f1) as V. remember (edge_key r f2) as W.
    destruct (key_eq_dec T U) as [TU|TU].
    - destruct (key_eq_dec V T) as [VT|VT]; destruct (key_eq_dec W T) as [WT|WT].
      + apply (p22_g b1 b2 f1 f2 T U V W C); auto.
      + apply (p22_h b1 b2 f1 f2 T U V W C); auto.
      + apply Sf. apply (p22_h b1 b2 f2 f1 T U W V Cf); auto.
      + destruct (key_eq_dec V W) as [VW|VW].
        * apply (p22_d b1 b2 f1 f2 T U V W C); auto.
        * apply (p22_c b1 b2 f1 f2 T U V W C); auto.
    - destruct (key_eq_dec V T) as [VT|VT]; [|destruct (key_eq_dec V U) as [VU|VU]].
      + destruct (key_eq_dec W T) as [WT|WT]; [|destruct (key_eq_dec W U) as [WU|WU]].
        * apply (p22_i b1 b2 f1 f2 T U V W C); auto.
        * apply (p22_f b1 b2 f1 f2 T U V W C); auto.
        * apply (p22_e b1 b2 f1 f2 T U V W C); auto; congruence.
      + destruct (key_eq_dec W U) as [WU|WU]; [|destruct (key_eq_dec W T) as [WT|WT]].
        * apply Sb. apply (p22_i b2 b1 f1 f2 U T V W Cb); auto.
        * apply Sf. apply (p22_f b1 b2 f2 f1 T U W V Cf); auto.
        * apply Sb. apply (p22_e b2 b1 f1 f2 U T V W Cb); auto; congruence.
      + destruct (key_eq_dec W T) as [WT|WT]; [|destruct (key_eq_dec W U) as [WU|WU]].
        * apply Sf. apply (p22_e b1 b2 f2 f1 T U W V Cf); auto; congruence.
        * apply Sfb. apply (p22_e b2 b1 f2 f1 U T W V Cfb); auto; congruence.
        * destruct (key_eq_dec V W) as [VW|VW].
          -- apply (p22_b b1 b2 f1 f2 T U V W C); auto; congruence.
          -- apply (p22_a b1 b2 f1 f2 T U V W C); auto; congruence.
  Qed.

  Lemma hit_2b1f_bb_nonempty fb bb : hit fb bb (cands_2b1f bk) -> exists cs, cands_1b bk = Some cs.
  Proof.
    intros [x [y [H _]]]. unfold cands_2b1f in H. unfold cands_1b.
    destruct (all_bb bk) as [|l0 l]; [|eexists; reflexivity].
    destruct (all_fb bk) as [|? [|? ?]]; destruct H.
  Qed.

  (* canonical presentation of a clean edit *)
  Definition pick (b : edge) : edge :=
    match find (fun x => same_u x b) (g_edges r) with Some x => x | None => b end.
  Lemma pick_spec b : In_u b (g_edges r) -> In (pick b) (g_edges r) /\ eq_u (pick b) b.
  Proof.
    intros [x [Hx E]]. unfold pick. destruct (find (fun x => same_u x b) (g_edges r)) as [y|] eqn:F.
    - apply find_some in F. destruct F as [Hy S]. split; auto. apply same_u_iff; auto.
    - exfalso. pose proof (find_none _ _ F x Hx) as S. cbn in S.
      assert (same_u x b = true) by (apply same_u_iff; auto). congruence.
  Qed.
  Lemma equiv_l_map (g : edge -> edge) l : (forall b, In b l -> eq_u (g b) b) -> equiv_l l (map g l).
  Proof.
    intros H e. unfold In_u. split.
    - intros [x [Hx E]]. exists (g x). split; [apply in_map; auto|]. eapply eq_u_trans; eauto.
    - intros [y [Hy E]]. apply in_map_iff in Hy. destruct Hy as [x [<- Hx]]. exists x. split; auto.
      eapply eq_u_trans; [apply eq_u_sym, H; auto|auto].
  Qed.

  Lemma canonize fb bb :
    clean r fb bb -> Iso (apply_edit r fb bb) p ->
    exists fb' bb', cedit fb' bb' /\ equiv_l fb fb' /\ equiv_l bb bb' /\
                    length fb' = length fb /\ length bb' = length bb.
  Proof.
    intros [C1 C2 C3 C4 C5] HI. exists (map norm fb), (map pick bb).
    assert (Ef : equiv_l fb (map norm fb)) by apply equiv_l_map_norm.
    assert (Eb : equiv_l bb (map pick bb)).
    { apply equiv_l_map. intros b Hb. apply pick_spec; auto. }
    split; [|split; [auto|split; [auto|split; apply map_length]]].
    constructor.
    - constructor.
      + rewrite map_map. rewrite (map_ext _ norm); [auto|intros; apply norm_norm].
      + rewrite map_map. rewrite (map_ext_in _ norm); [auto|].
        intros b Hb. apply norm_iff. apply pick_spec; auto.
      + intros f Hf Hu. apply in_map_iff in Hf. destruct Hf as [f0 [<- Hf0]].
        apply (C3 _ Hf0). eapply In_u_eq_u; [apply norm_eq_u|auto].
      + intros f Hf. apply in_map_iff in Hf. destruct Hf as [f0 [<- Hf0]].
        destruct (C4 _ Hf0) as [N1 N2]. destruct (norm_eq_u f0) as [->| ->]; auto.
      + intros b Hb. apply in_map_iff in Hb. destruct Hb as [b0 [<- Hb0]].
        apply In_In_u. apply pick_spec; auto.
    - intros f Hf. apply in_map_iff in Hf. destruct Hf as [f0 [<- _]]. apply norm_le.
    - intros b Hb. apply in_map_iff in Hb. destruct Hb as [b0 [<- Hb0]]. apply pick_spec; auto.
    - apply Iso_trans with (apply_edit r fb bb); auto.
      apply adj_equiv_Iso, apply_adj_equiv; apply equiv_l_sym; auto.
  Qed.

  Lemma funcs_of_0 n : funcs_of n n = Some [F1b1f; F2b2f].
  Proof. unfold funcs_of. rewrite Nat.eqb_refl. reflexivity. Qed.
  Lemma funcs_of_1 n : funcs_of (n + 1) n = Some [F1b; F2b1f].
  Proof.
    unfold funcs_of. rewrite Nat.eqb_refl. destruct (n + 1 =? n) eqn:E; auto. apply Nat.eqb_eq in E; lia.
  Qed.
  Lemma funcs_of_2 n : funcs_of (n + 2) n = Some [F2b].
  Proof.
    unfold funcs_of. rewrite Nat.eqb_refl.
    destruct (n + 2 =? n) eqn:E; [apply Nat.eqb_eq in E; lia|].
    destruct (n + 2 =? n + 1) eqn:E'; [apply Nat.eqb_eq in E'; lia|]. reflexivity.
  Qed.

  Theorem enumerate_complete fb bb n :
    clean r fb bb -> Iso (apply_edit r fb bb) p ->
    (~ Iso r p \/ (n <= 3 /\ bb <> [])) ->
    (forall i, In i (g_nodes r) ->
       degree (apply_edit r fb bb) i <= Nat.max (mv (g_label r i)) (degree r i)) ->
    length bb <= 2 -> length fb <= length bb ->
    exists l, enumerate iso_b mv r p n = Ok l.
  Proof.
    intros Cl HI Hgo Hdeg Lb Lf.
    destruct (canonize fb bb Cl HI) as [fb' [bb' [C [Ef [Eb [Lf' Lb']]]]]].
    pose proof (cedit_classify _ _ C) as Ecl.
    assert (HR : forall f cs acc, cands f bk = Some cs -> hit fb' bb' cs ->
                 (0 <? length (run_func iso_b mv r p cs acc)) = true).
    { intros f cs acc Ef' H. apply Nat.ltb_lt. apply (hit_run fb bb cs acc Cl HI Hdeg).
      - intros c Hc. eapply cands_in_all; eauto.
      - eapply hit_equiv; eauto. }
    unfold enumerate.
    assert (I0 : iso_b r p && (3 <? n) = false).
    { destruct Hgo as [Hnot|[Hn _]].
      - destruct (iso_b r p) eqn:E; auto. apply (proj1 Hloc) in E. contradiction.
      - apply andb_false_iff. right. apply Nat.ltb_ge. lia. }
    rewrite I0. rewrite Ecl.
    pose proof (cedit_total _ _ C) as Ht.
    destruct bb' as [|b1 [|b2 [|? ?]]]; destruct fb' as [|f1 [|f2 [|? ?]]];
      cbn [length] in *; try lia.
    - (* nothing changes: the product would be isomorphic to the reactant *)
      exfalso. destruct Hgo as [Hnot|[_ Hne]].
      + apply Hnot. apply Iso_trans with (apply_edit r [] []); [|apply C].
        apply adj_equiv_Iso. split; [reflexivity|split; [reflexivity|split; [reflexivity|apply equiv_l_refl]]].
      + destruct bb; [congruence|cbn in Lb'; lia].
    - (* 1b *)
      replace (length (g_edges r)) with (length (g_edges p) + 1) by lia. rewrite funcs_of_1.
      destruct (pat_1b b1 C) as [cs [Ec H]]. cbn [run_funcs cands]. rewrite Ec, (HR F1b _ _ Ec H). eauto.
    - (* 1b1f *)
      replace (length (g_edges r)) with (length (g_edges p)) by lia. rewrite funcs_of_0.
      cbn [run_funcs cands]. rewrite (HR F1b1f _ _ eq_refl (pat_1b1f b1 f1 C)). eauto.
    - (* 2b *)
      replace (length (g_edges r)) with (length (g_edges p) + 2) by lia. rewrite funcs_of_2.
      cbn [run_funcs cands]. rewrite (HR F2b _ _ eq_refl (pat_2b b1 b2 C)). eauto.
    - (* 2b1f *)
      replace (length (g_edges r)) with (length (g_edges p) + 1) by lia. rewrite funcs_of_1.
      pose proof (pat_2b1f b1 b2 f1 C) as H. destruct (hit_2b1f_bb_nonempty _ _ H) as [cs1 Ec].
      cbn [run_funcs cands]. rewrite Ec.
      destruct (0 <? length (run_func iso_b mv r p cs1 [])); [eauto|].
      rewrite (HR F2b1f _ _ eq_refl H). eauto.
    - (* 2b2f *)
      replace (length (g_edges r)) with (length (g_edges p)) by lia. rewrite funcs_of_0.
      cbn [run_funcs cands].
      destruct (0 <? length (run_func iso_b mv r p (cands_1b1f bk) [])); [eauto|].
      rewrite (HR F2b2f _ _ eq_refl (pat_2b2f b1 b2 f1 f2 C)). eauto.
  Qed.
End Complete.

(* ================================================================== save / load round trip *)
Section SaveLoad.
  Local Open Scope string_scope.
  Local Open Scope nat_scope.

  Fixpoint str_forall (P : ascii -> bool) (s : string) : bool :=
    match s with EmptyString => true | String c s' => P c && str_forall P s' end.
  Definition is_digit (c : ascii) : bool := is_digit_c c.
  Definition digit_or_blank (c : ascii) : bool := is_digit c || Ascii.eqb c " ".

  Lemma str_forall_app P a b : str_forall P (a ++ b) = str_forall P a && str_forall P b.
  Proof. induction a as [|c a IH]; cbn; auto. rewrite IH, andb_assoc. reflexivity. Qed.
  Lemma str_forall_impl (P Q : ascii -> bool) s :
    (forall c, P c = true -> Q c = true) -> str_forall P s = true -> str_forall Q s = true.
  Proof.
    intros H. induction s as [|c s IH]; cbn; auto. rewrite !andb_true_iff. intros [H1 H2]. auto.
  Qed.

  Lemma append_assoc (a b c : string) : (a ++ b) ++ c = a ++ (b ++ c).
  Proof. induction a as [|x a IH]; cbn; congruence. Qed.
  Lemma append_nil_r (a : string) : a ++ "" = a.
  Proof. induction a as [|x a IH]; cbn; congruence. Qed.

  Lemma string_of_uint_digits d : str_forall is_digit (NilEmpty.string_of_uint d) = true.
  Proof. induction d; cbn [NilEmpty.string_of_uint str_forall]; rewrite ?IHd; reflexivity. Qed.
  Lemma dec_digits n : str_forall is_digit (dec n) = true.
  Proof. apply string_of_uint_digits. Qed.

  Lemma to_uint_nonnil n : Nat.to_uint n <> Nil.
  Proof.
    rewrite <- (DecimalNat.Unsigned.of_to n) at 1. rewrite DecimalNat.Unsigned.to_of.
    apply DecimalFacts.unorm_nonnil.
  Qed.
  Lemma dec_nonempty n : dec n <> "".
  Proof.
    unfold dec. pose proof (to_uint_nonnil n) as H. destruct (Nat.to_uint n); cbn; congruence.
  Qed.
  Lemma parse_nat_dec n : parse_nat (dec n) = Some n.
  Proof.
    unfold parse_nat. pose proof (dec_nonempty n) as H. destruct (dec n) eqn:E; [congruence|].
    rewrite <- E. unfold dec. rewrite NilEmpty.usu. cbn. rewrite DecimalNat.Unsigned.of_to. reflexivity.
  Qed.
  Lemma strip_us_digits s : forall b,
    str_forall is_digit s = true -> (s <> "" \/ b = true) -> strip_us s b = Some s.
  Proof.
    induction s as [|c s IH]; intros b H Hb; cbn [strip_us].
    - destruct Hb as [Hb| ->]; [congruence|reflexivity].
    - cbn [str_forall] in H. apply andb_true_iff in H. destruct H as [Hc Hs]. unfold is_digit in Hc.
      rewrite Hc. rewrite (IH true Hs) by (right; reflexivity). reflexivity.
  Qed.
  Lemma digit_not_sign c : is_digit c = true -> Ascii.eqb c plus_char = false /\ Ascii.eqb c minus_char = false.
  Proof. destruct c as [[] [] [] [] [] [] [] []]; vm_compute; intuition congruence. Qed.
  Lemma parse_dec n : parse_int (dec n) = TNat n.
  Proof.
    pose proof (dec_digits n) as Hd. pose proof (dec_nonempty n) as Hne. pose proof (parse_nat_dec n) as Hp.
    unfold parse_int. destruct (dec n) as [|c r] eqn:E; [congruence|].
    assert (Hc : is_digit c = true) by (cbn [str_forall] in Hd; apply andb_true_iff in Hd; tauto).
    destruct (digit_not_sign c Hc) as [-> ->].
    unfold parse_unsigned. rewrite (strip_us_digits _ false Hd) by (left; congruence). rewrite Hp. reflexivity.
  Qed.

  Lemma digit_not_ws c : is_digit c = true -> is_ws c = false.
  Proof. destruct c as [[] [] [] [] [] [] [] []]; vm_compute; congruence. Qed.
  Lemma digit_or_blank_not c k :
    In k ["f"%char; "b"%char; "e"%char; nl_char; cr_char] -> digit_or_blank c = true -> Ascii.eqb k c = false.
  Proof.
    intros Hk. cbn in Hk. destruct Hk as [<-|[<-|[<-|[<-|[<-|[]]]]]];
      destruct c as [[] [] [] [] [] [] [] []]; vm_compute; congruence.
  Qed.

  (* tokens *)
  Lemma tokens_aux_word s : forall cur rest,
    str_forall (fun c => negb (is_ws c)) s = true -> tokens_aux (s ++ rest) cur = tokens_aux rest (cur ++ s).
  Proof.
    induction s as [|c s IH]; intros cur rest H; cbn [append].
    - rewrite append_nil_r. reflexivity.
    - cbn in H. apply andb_true_iff in H. destruct H as [Hc Hs]. apply negb_true_iff in Hc.
      cbn [tokens_aux]. rewrite Hc. rewrite IH by auto. rewrite append_assoc. reflexivity.
  Qed.
  Lemma digits_no_ws s : str_forall is_digit s = true -> str_forall (fun c => negb (is_ws c)) s = true.
  Proof. apply str_forall_impl. intros c H. rewrite digit_not_ws; auto. Qed.

  Definition bl (e : edge) : string := dec (fst e) ++ " " ++ dec (snd e).

  Lemma tokens_bl e : tokens (bl e) = [dec (fst e); dec (snd e)].
  Proof.
    unfold tokens, bl. rewrite tokens_aux_word by (apply digits_no_ws, dec_digits).
    cbn [append]. change (String " " (dec (snd e))) with (" " ++ dec (snd e)).
    cbn [append tokens_aux]. replace (is_ws " ") with true by reflexivity.
    destruct (dec (fst e)) eqn:E1; [exfalso; eapply dec_nonempty; eauto|]. rewrite <- E1.
    rewrite <- (append_nil_r (dec (snd e))) at 1.
    rewrite tokens_aux_word by (apply digits_no_ws, dec_digits).
    cbn [tokens_aux append]. destruct (dec (snd e)) eqn:E2; [exfalso; eapply dec_nonempty; eauto|]. reflexivity.
  Qed.

  Lemma bl_chars e : str_forall digit_or_blank (bl e) = true.
  Proof.
    unfold bl. rewrite !str_forall_app. cbn [str_forall].
    assert (H : forall n, str_forall digit_or_blank (dec n) = true).
    { intros n. apply (str_forall_impl is_digit); [|apply dec_digits]. intros c Hc. unfold digit_or_blank. rewrite Hc; reflexivity. }
    rewrite !H. reflexivity.
  Qed.

  Lemma contains_absent k p' s :
    str_forall (fun c => negb (Ascii.eqb k c)) s = true -> contains (String k p') s = false.
  Proof.
    induction s as [|c s IH]; cbn; auto.
    intros H. apply andb_true_iff in H. destruct H as [Hc Hs]. apply negb_true_iff in Hc.
    rewrite Hc. cbn. auto.
  Qed.
  Lemma bl_no_kw e k p' : In k ["f"%char; "b"%char; "e"%char; nl_char; cr_char] -> contains (String k p') (bl e) = false.
  Proof.
    intros Hk. apply contains_absent. apply (str_forall_impl digit_or_blank); [|apply bl_chars].
    intros c Hc. rewrite (digit_or_blank_not c k Hk Hc). reflexivity.
  Qed.

  (* one loop iteration per kind of line *)
  Lemma step_fbonds st : load_step st "fbonds" = inl (mkL true (l_fb st) (l_bb st) (l_out st)).
  Proof. reflexivity. Qed.
  Lemma step_bbonds st : load_step st "bbonds" = inl (mkL false (l_fb st) (l_bb st) (l_out st)).
  Proof. reflexivity. Qed.
  Lemma step_end st :
    load_step st "end" = inl (mkL (l_block st) [] [] (l_out st ++ [(l_fb st, l_bb st)])).
  Proof. reflexivity. Qed.
  Lemma step_empty st : load_step st "" = inl (mkL (l_block st) (l_fb st) (l_bb st) (l_out st)).
  Proof. reflexivity. Qed.
  Lemma step_bond st e :
    load_step st (bl e) =
    inl (if l_block st then mkL (l_block st) (l_fb st ++ [e]) (l_bb st) (l_out st)
          else mkL (l_block st) (l_fb st) (l_bb st ++ [e]) (l_out st)).
  Proof.
    unfold load_step.
    rewrite (bl_no_kw e "f"%char "bonds") by (cbn; auto).
    rewrite (bl_no_kw e "b"%char "bonds") by (cbn; auto).
    rewrite (bl_no_kw e "e"%char "nd") by (cbn; auto).
    rewrite tokens_bl, !parse_dec. destruct e as [a b]. cbn [fst snd]. destruct (l_block st); reflexivity.
  Qed.

  Fixpoint steps (ls : list string) (st : lstate) : lstate + lerr :=
    match ls with
    | [] => inl st
    | ln :: rest => match load_step st ln with inr e => inr e | inl st' => steps rest st' end
    end.
  Lemma load_lines_steps ls : forall st,
    load_lines ls st = match steps ls st with inl s => inl (l_out s) | inr e => inr e end.
  Proof. induction ls as [|ln ls IH]; intros st; cbn; auto. destruct (load_step st ln); auto. Qed.
  Lemma steps_app l1 : forall l2 st,
    steps (l1 ++ l2) st = match steps l1 st with inl s => steps l2 s | inr e => inr e end.
  Proof. induction l1 as [|ln l1 IH]; intros l2 st; cbn; auto. destruct (load_step st ln); auto. Qed.

  Lemma steps_fb es : forall fb0 bb0 out,
    steps (map bl es) (mkL true fb0 bb0 out) = inl (mkL true (fb0 ++ es) bb0 out).
  Proof.
    induction es as [|e es IH]; intros fb0 bb0 out; cbn [map steps].
    - rewrite app_nil_r. reflexivity.
    - rewrite step_bond. cbn [l_block l_fb l_bb l_out]. rewrite IH, <- app_assoc. reflexivity.
  Qed.
  Lemma steps_bb es : forall fb0 bb0 out,
    steps (map bl es) (mkL false fb0 bb0 out) = inl (mkL false fb0 (bb0 ++ es) out).
  Proof.
    induction es as [|e es IH]; intros fb0 bb0 out; cbn [map steps].
    - rewrite app_nil_r. reflexivity.
    - rewrite step_bond. cbn [l_block l_fb l_bb l_out]. rewrite IH, <- app_assoc. reflexivity.
  Qed.

  Definition lines_of_rearr (br : rearr) : list string :=
    ["fbonds"] ++ map bl (fst br) ++ ["bbonds"] ++ map bl (snd br) ++ ["end"].

  Lemma steps_rearr br blk out :
    steps (lines_of_rearr br) (mkL blk [] [] out) = inl (mkL false [] [] (out ++ [br])).
  Proof.
    unfold lines_of_rearr. destruct br as [fb bb]. cbn [fst snd].
    cbn [app steps]. rewrite step_fbonds. cbn [l_fb l_bb l_out].
    rewrite steps_app, steps_fb. cbn [app steps]. rewrite step_bbonds. cbn [l_fb l_bb l_out].
    rewrite steps_app, steps_bb. cbn [app steps]. rewrite step_end. reflexivity.
  Qed.
  Lemma steps_rearrs brs : forall blk out,
    exists blk', steps (flat_map lines_of_rearr brs) (mkL blk [] [] out) = inl (mkL blk' [] [] (out ++ brs)).
  Proof.
    induction brs as [|br brs IH]; intros blk out; cbn [flat_map].
    - exists blk. rewrite app_nil_r. reflexivity.
    - rewrite steps_app, steps_rearr. destruct (IH false (out ++ [br])%list) as [blk' E].
      exists blk'. rewrite E, <- app_assoc. reflexivity.
  Qed.

  (* the text is the lines, each terminated by a newline *)
  Lemma concat_map_app {A} (f : A -> string) (l1 l2 : list A) :
    concat_map f (l1 ++ l2) = concat_map f l1 ++ concat_map f l2.
  Proof.
    unfold concat_map. induction l1 as [|a l1 IH]; cbn [app fold_right append]; auto.
    rewrite IH, append_assoc. reflexivity.
  Qed.
  Lemma concat_map_map {A B} (g : A -> B) (f : B -> string) (l : list A) :
    concat_map f (map g l) = concat_map (fun x => f (g x)) l.
  Proof. unfold concat_map. induction l as [|a l IH]; cbn [map fold_right]; congruence. Qed.
  Lemma save_one_lines br : save_one br = concat_map line (lines_of_rearr br).
  Proof.
    unfold save_one, lines_of_rearr. repeat rewrite concat_map_app. repeat rewrite concat_map_map.
    unfold concat_map. cbn [fold_right]. rewrite !append_nil_r. reflexivity.
  Qed.
  Lemma save_lines brs : save brs = concat_map line (flat_map lines_of_rearr brs).
  Proof.
    induction brs as [|br brs IH]; [reflexivity|].
    cbn [flat_map]. rewrite concat_map_app, <- save_one_lines, <- IH. reflexivity.
  Qed.

  Definition no_nl (s : string) : bool :=
    str_forall (fun c => negb (Ascii.eqb nl_char c) && negb (Ascii.eqb cr_char c)) s.
  Lemma split_nl_aux_line s : forall cur rest,
    no_nl s = true -> split_nl_aux (s ++ String nl_char rest) cur = (cur ++ s) :: split_nl_aux rest "".
  Proof.
    induction s as [|c s IH]; intros cur rest H; cbn [append split_nl_aux].
    - rewrite Ascii.eqb_refl, append_nil_r. reflexivity.
    - unfold no_nl in H. cbn [str_forall] in H. apply andb_true_iff in H. destruct H as [Hc Hs].
      apply andb_true_iff in Hc. destruct Hc as [Hc1 Hc2]. apply negb_true_iff in Hc1, Hc2.
      rewrite Ascii.eqb_sym in Hc1. rewrite Ascii.eqb_sym in Hc2. rewrite Hc1, Hc2.
      rewrite IH by auto. rewrite append_assoc. reflexivity.
  Qed.
  Lemma split_nl_lines ls :
    (forall l, In l ls -> no_nl l = true) -> split_nl (concat_map line ls) = (ls ++ [""])%list.
  Proof.
    unfold split_nl. induction ls as [|l ls IH]; intros H; cbn [concat_map fold_right app].
    - reflexivity.
    - unfold line at 1. rewrite append_assoc. cbn [append].
      rewrite split_nl_aux_line by (apply H; left; auto). cbn [append]. f_equal.
      apply IH. intros l' Hl'. apply H; right; auto.
  Qed.

  Lemma bl_no_nl e : no_nl (bl e) = true.
  Proof.
    unfold no_nl. apply (str_forall_impl digit_or_blank); [|apply bl_chars].
    intros c Hc. rewrite (digit_or_blank_not c nl_char), (digit_or_blank_not c cr_char); auto; cbn; auto 10.
  Qed.
  Lemma lines_no_nl brs l : In l (flat_map lines_of_rearr brs) -> no_nl l = true.
  Proof.
    intros H. apply in_flat_map in H. destruct H as [br [_ H]]. unfold lines_of_rearr in H.
    repeat (apply in_app_iff in H; destruct H as [H|H]);
      try (apply in_map_iff in H; destruct H as [e [<- _]]; apply bl_no_nl);
      cbn in H; destruct H as [<-|[]]; reflexivity.
  Qed.

  Theorem load_save brs : load (save brs) = inl brs.
  Proof.
    unfold load. rewrite save_lines, split_nl_lines by (apply lines_no_nl).
    rewrite load_lines_steps, steps_app.
    destruct (steps_rearrs brs false []) as [blk E]. rewrite E. cbn [steps].
    rewrite step_empty. reflexivity.
  Qed.
End SaveLoad.

(* ================================================================== side conditions of the model *)
(* bbond_atom_type_fbonds / fbond_atom_type_bbonds are set whenever the corresponding list of
   decreased / increased bond types is non-empty: the `None` of Model.opt_list is never used by the
   branches of cands_2b1f / cands_2b2f that read them. *)
Definition book_inv (bk : book) : Prop :=
  (all_bb bk = [] \/ bb_fb bk <> None) /\ (all_fb bk = [] \/ fb_bb bk <> None).
Lemma classify_step_inv r pd acc kv bk :
  book_inv acc -> classify_step r pd acc kv = Some bk -> book_inv bk.
Proof.
  intros [I1 I2]. unfold classify_step. destruct kv as [k rb].
  destruct (lookup_key k pd) as [pb|]; [|discriminate].
  destruct (length pb <? length rb); [intros E; inversion E; subst; split; cbn; auto; right; discriminate|].
  destruct (length rb <? length pb); [intros E; inversion E; subst; split; cbn; auto; right; discriminate|].
  destruct (negb (length rb =? 0)); intros E; inversion E; subst; split; cbn; auto.
Qed.
Lemma classify_bb_fb_some r pd rd : forall acc bk,
  book_inv acc -> classify r pd rd acc = Some bk -> book_inv bk.
Proof.
  induction rd as [|kv rd IH]; intros acc bk Hi; cbn [classify].
  - intros E; inversion E; subst; auto.
  - destruct (classify_step r pd acc kv) as [acc'|] eqn:E; [|discriminate].
    apply IH. eapply classify_step_inv; eauto.
Qed.
Lemma book0_inv : book_inv book0.
Proof. split; left; reflexivity. Qed.
