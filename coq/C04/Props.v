(* C04/Props.v — the property theorems for "bond rearrangements found are sound and exist whenever one
   exists".  Statements only, each closed by lemmas of Lemmas.v.

   Vocabulary (Model.v / Lemmas.v):
     graph                = node list, element label and atom class per node, duplicate-free edge list
     In_u e l             = the unordered pair e occurs in l (in either orientation)
     Iso g h              = graph isomorphism matching element labels AND atom classes (a bijection of
                            the node sets given with its inverse, preserving both and adjacency)
     wf g                 = g is a simple graph: no edge twice (unordered), endpoints are nodes
     apply_edit r fb bb   = generate_rearranged_graph: add the forming, remove the breaking bonds
     get_bond_rearrangs   = the model of autode.bond_rearrangement.get_bond_rearrangs; its isomorphism
                            test iso_b, the ring-size and neighbour-list functions are parameters
   Hiso is the assumption that the isomorphism oracle (networkx GraphMatcher behind
   mol_graphs.is_isomorphic) decides Iso. *)
From Coq Require Import String Ascii.
From Coq Require Import Arith List Bool Lia.
From AV.C04 Require Import Model Lemmas.
Import ListNotations.
Open Scope list_scope.
Open Scope nat_scope.

(* The isomorphism oracle is only ever asked finitely many questions for a given reactant / product:
   (reactant, product) and (apply_edit r fb bb, product) for the candidates `all_cands r p` built by the
   five get_fbonds_bbonds_* functions.  `Hiso_on iso_b r p` says the oracle is right on exactly those
   questions (Lemmas.Hiso_global_on: a global decider of Iso satisfies it).  It is an ASSUMPTION about
   networkx / mol_graphs.is_isomorphic (which answers False after a 5 s timeout); the harness validates
   every answer actually given against networkx on every run. *)

(* SOUNDNESS.  Whatever the enumeration returns (for any pruning oracles, either setting of
   skip_small_ring_tss) is a non-empty list, and every returned rearrangement breaks only bonds of
   the reactant, forms only bonds absent from it, and turns the reactant graph into a graph
   isomorphic (elements and atom classes matching) to the product.  Only "oracle says yes -> isomorphic"
   on the candidates is needed. *)
Theorem rearrs_sound :
  forall (iso_b : graph -> graph -> bool) (mv : nat -> nat) (nl : rearr -> nat)
         (rings : rearr -> list nat) (skip : bool) (r p : graph) (n_atoms_p : nat) (l : list rearr),
    (forall c, In c (all_cands r p) -> iso_b (apply_edit r (fst c) (snd c)) p = true ->
               Iso (apply_edit r (fst c) (snd c)) p) ->
    get_bond_rearrangs iso_b mv nl rings skip r p n_atoms_p = Ok l ->
    l <> [] /\
    forall fb bb, In (fb, bb) l ->
      (forall b, In b bb -> In_u b (g_edges r)) /\
      (forall f, In f fb -> ~ In_u f (g_edges r)) /\
      Iso (apply_edit r fb bb) p.
Proof.
  intros iso_b mv nl rings skip r p n l Hiso H. unfold get_bond_rearrangs in H.
  destruct (enumerate iso_b mv r p n) as [l0| | |] eqn:E; try discriminate.
  inversion H; subst; clear H.
  destruct (enumerate_sound iso_b mv r p n l0 Hiso E) as [Hne Hs]. split.
  - apply post_nonempty; auto.
  - intros fb bb Hin. apply post_incl in Hin. apply (Hs (fb, bb) Hin).
Qed.

(* COMPLETENESS (partial with respect to the property text: see rearrs_complete_identity_refuted).
   If SOME edit with at most two breaking and at most two forming bonds, net loss of bonds 0..2,
   breaking bonds present, forming bonds absent (between atoms of the reactant), no atom pushed beyond
   its maximal valence (its degree after the edit is at most max(maximal valence, degree before)) turns
   the reactant into a graph isomorphic to the product, AND the product is not isomorphic to the
   reactant - or the product has at most 3 atoms and the edit breaks at least one bond - then the
   enumeration returns a non-empty list, for every assignment of the pruning oracles and either setting
   of skip_small_ring_tss.  All 1+2+2+5+15 bond-type patterns of the five get_fbonds_bbonds_* functions
   are covered. *)
Theorem rearrs_complete_partial :
  forall (iso_b : graph -> graph -> bool) (mv : nat -> nat) (nl : rearr -> nat)
         (rings : rearr -> list nat) (skip : bool) (r p : graph) (n_atoms_p : nat),
    Hiso_on iso_b r p ->
    wf r -> wf p ->
    forall fb bb : list edge,
      (~ Iso r p \/ (n_atoms_p <= 3 /\ bb <> [])) ->
      length bb <= 2 -> length fb <= 2 -> length fb <= length bb ->
      NoDup (map norm bb) -> NoDup (map norm fb) ->
      (forall b, In b bb -> In_u b (g_edges r)) ->
      (forall f, In f fb -> ~ In_u f (g_edges r) /\ In (fst f) (g_nodes r) /\ In (snd f) (g_nodes r)) ->
      (forall i, In i (g_nodes r) ->
         degree (apply_edit r fb bb) i <= Nat.max (mv (g_label r i)) (degree r i)) ->
      Iso (apply_edit r fb bb) p ->
      exists l, get_bond_rearrangs iso_b mv nl rings skip r p n_atoms_p = Ok l /\ l <> [].
Proof.
  intros iso_b mv nl rings skip r p n Hloc Hwr Hwp fb bb Hgo Lb Lf Lfb Nb Nf Hb Hf Hdeg HI.
  assert (Cl : clean r fb bb).
  { constructor; auto; intros f Hin; apply (Hf f Hin). }
  destruct (enumerate_complete iso_b mv r p Hloc Hwr Hwp fb bb n Cl HI Hgo Hdeg Lb Lfb) as [l E].
  assert (Hs : forall c, In c (all_cands r p) -> iso_b (apply_edit r (fst c) (snd c)) p = true ->
                         Iso (apply_edit r (fst c) (snd c)) p).
  { intros c Hc. apply (proj2 Hloc c Hc). }
  destruct (enumerate_sound iso_b mv r p n l Hs E) as [Hne _].
  exists (post nl rings (elems_of r) skip l). split.
  - unfold get_bond_rearrangs. rewrite E. reflexivity.
  - apply post_nonempty; auto.
Qed.

(* The completeness clause of the property WITHOUT the exemption is FALSE of the faithful model (and of
   the code, finding key `incomplete|identity-reaction`): the identity substitution
   Cl + CH3-Cl -> Cl-CH3 + Cl (one bond broken, one formed, every valence respected, 6 atoms) has a
   product isomorphic to the reactant, and bond_rearrangement.py:39-45 returns None for it whatever
   the (correct) isomorphism oracle, pruning oracles and skip flag. *)
Definition id_r : graph :=   (* 0:Cl 1:C 2:Cl 3,4,5:H ; labels C=0 Cl=1 H=2 *)
  mkGraph [0; 1; 2; 3; 4; 5] (fun i => match i with 1 => 0 | 0 | 2 => 1 | _ => 2 end) (fun _ => 0)
          [(1, 2); (1, 3); (1, 4); (1, 5)].
Definition id_p : graph :=
  mkGraph [0; 1; 2; 3; 4; 5] (fun i => match i with 1 => 0 | 0 | 2 => 1 | _ => 2 end) (fun _ => 0)
          [(0, 1); (1, 3); (1, 4); (1, 5)].
Definition id_mv (lab : nat) : nat := match lab with 2 => 1 | _ => 4 end.

Theorem rearrs_complete_identity_refuted :
  exists (r p : graph) (mv : nat -> nat) (fb bb : list edge) (n_atoms_p : nat),
    wf r /\ wf p /\ n_atoms_p = length (g_nodes p) /\
    length bb <= 2 /\ length fb <= 2 /\ length fb <= length bb /\
    NoDup (map norm bb) /\ NoDup (map norm fb) /\
    (forall b, In b bb -> In_u b (g_edges r)) /\
    (forall f, In f fb -> ~ In_u f (g_edges r) /\ In (fst f) (g_nodes r) /\ In (snd f) (g_nodes r)) /\
    (forall i, In i (g_nodes r) -> degree (apply_edit r fb bb) i <= Nat.max (mv (g_label r i)) (degree r i)) /\
    Iso (apply_edit r fb bb) p /\
    forall iso_b nl rings skip, Hiso_on iso_b r p ->
      get_bond_rearrangs iso_b mv nl rings skip r p n_atoms_p = RNone.
Proof.
  exists id_r, id_p, id_mv, [(0, 1)], [(1, 2)], 6.
  assert (W1 : wf id_r).
  { constructor; cbn.
    - repeat constructor; cbn; intuition discriminate.
    - intros e H. repeat (destruct H as [<-|H]; [cbn; auto 10|]). destruct H. }
  assert (W2 : wf id_p).
  { constructor; cbn.
    - repeat constructor; cbn; intuition discriminate.
    - intros e H. repeat (destruct H as [<-|H]; [cbn; auto 10|]). destruct H. }
  assert (HI : Iso id_r id_p).
  { exists (fun i => match i with 0 => 2 | 2 => 0 | _ => i end), (fun i => match i with 0 => 2 | 2 => 0 | _ => i end).
    repeat apply conj.
    - intros i Hi. cbn in Hi. repeat (destruct Hi as [<-|Hi]; [cbn; auto 10|]). destruct Hi.
    - intros i Hi. cbn in Hi. repeat (destruct Hi as [<-|Hi]; [cbn; auto 10|]). destruct Hi.
    - intros i j Hi Hj. unfold adj. cbn in Hi, Hj.
      repeat (destruct Hi as [<-|Hi];
              [repeat (destruct Hj as [<-|Hj];
                       [split; intros X; apply has_edge_iff; apply has_edge_iff in X; vm_compute in *; congruence|]);
               destruct Hj|]).
      destruct Hi.
    - intros i Hi. reflexivity. }
  repeat apply conj; auto; try (cbn; lia).
  - repeat constructor; cbn; intuition discriminate.
  - repeat constructor; cbn; intuition discriminate.
  - intros b [<-|[]]. apply In_In_u. cbn; auto.
  - intros f [<-|[]]. repeat apply conj; cbn; auto. apply has_edge_false. reflexivity.
  - intros i Hi. cbn in Hi. repeat (destruct Hi as [<-|Hi]; [vm_compute; lia|]). destruct Hi.
  - apply adj_equiv_Iso. repeat apply conj; auto. apply equiv_l_of_incl.
    + intros x Hx. vm_compute in Hx. apply has_edge_iff.
      repeat (destruct Hx as [<-|Hx]; [reflexivity|]). destruct Hx.
    + intros x Hx. vm_compute in Hx. apply has_edge_iff.
      repeat (destruct Hx as [<-|Hx]; [reflexivity|]). destruct Hx.
  - intros iso_b nl rings skip [H0 _]. unfold get_bond_rearrangs, enumerate.
    rewrite (proj2 H0 HI). reflexivity.
Qed.

(* PRUNING never removes the last rearrangement, for EVERY oracle assignment (neighbour-list classes,
   ring sizes, element sets): neither strip_equiv_bond_rearrs nor prune_small_ring_rearrs nor their
   composition at bond_rearrangement.py:126-133 empties a non-empty list, and they only ever drop
   entries. *)
Theorem strip_equiv_nonempty :
  forall (nl : rearr -> nat) (l : list rearr),
    l <> [] -> strip_equiv nl l <> [] /\ forall x, In x (strip_equiv nl l) -> In x l.
Proof.
  intros nl l H. split; [apply Lemmas.strip_equiv_nonempty; auto | intros x; apply strip_equiv_incl].
Qed.

Theorem prune_small_rings_nonempty :
  forall (rings elems : rearr -> list nat) (l : list rearr),
    l <> [] -> prune_small_rings rings elems l <> [] /\
               forall x, In x (prune_small_rings rings elems l) -> In x l.
Proof.
  intros rings elems l H. split; [apply prune_nonempty; auto | intros x; apply prune_incl].
Qed.

Theorem pruning_keeps_one :
  forall (nl : rearr -> nat) (rings elems : rearr -> list nat) (skip : bool) (l : list rearr),
    l <> [] -> post nl rings elems skip l <> [] /\ forall x, In x (post nl rings elems skip l) -> In x l.
Proof.
  intros nl rings elems skip l H. split; [apply post_nonempty; auto | intros x; apply post_incl].
Qed.

(* SAVE / LOAD.  The text written by save_bond_rearrangs_to_file, read back by
   get_bond_rearrangs_from_file, gives a list equal to the saved one (same forming and breaking
   bonds in the same order), for every list of rearrangements. *)
Theorem save_load_roundtrip :
  forall brs : list rearr, load (save brs) = inl brs.
Proof. exact load_save. Qed.

(* ------------------------------------------------------------------ non-vacuity *)
(* C-H + O  ->  C + H-O  (atoms 0:C 1:H 2:O; labels are ranks C=0 H=1 O=2). *)
Definition ex_r : graph := mkGraph [0; 1; 2] (fun i => i) (fun _ => 0) [(0, 1)].
Definition ex_p : graph := mkGraph [0; 1; 2] (fun i => i) (fun _ => 0) [(1, 2)].
Definition ex_mv (lab : nat) : nat := match lab with 0 => 4 | 1 => 1 | _ => 3 end.

(* every premise of rearrs_complete_partial other than Hiso_on holds for this instance (Hiso_on: ex_Hiso_on) *)
Example complete_premises_satisfiable :
  wf ex_r /\ wf ex_p /\ ~ Iso ex_r ex_p /\
  NoDup (map norm [(0, 1)]) /\ NoDup (map norm [(1, 2)]) /\
  (forall b, In b [(0, 1)] -> In_u b (g_edges ex_r)) /\
  (forall f, In f [(1, 2)] -> ~ In_u f (g_edges ex_r) /\ In (fst f) (g_nodes ex_r) /\ In (snd f) (g_nodes ex_r)) /\
  (forall i, In i (g_nodes ex_r) ->
     degree (apply_edit ex_r [(1, 2)] [(0, 1)]) i <= Nat.max (ex_mv (g_label ex_r i)) (degree ex_r i)) /\
  Iso (apply_edit ex_r [(1, 2)] [(0, 1)]) ex_p.
Proof.
  assert (W1 : wf ex_r).
  { constructor; cbn.
    - repeat constructor; cbn; intuition discriminate.
    - intros e [<-|[]]; cbn; auto. }
  assert (W2 : wf ex_p).
  { constructor; cbn.
    - repeat constructor; cbn; intuition discriminate.
    - intros e [<-|[]]; cbn; auto. }
  repeat apply conj; auto.
  - intros HI. destruct (iso_counts _ _ W1 W2 HI) as [H _]. specialize (H (0, 1)). vm_compute in H. discriminate.
  - repeat constructor; cbn; intuition discriminate.
  - repeat constructor; cbn; intuition discriminate.
  - intros b [<-|[]]. apply In_In_u. cbn; auto.
  - intros f [<-|[]]. repeat apply conj; cbn; auto. apply has_edge_false. reflexivity.
  - intros i Hi. cbn in Hi. destruct Hi as [<-|[<-|[<-|[]]]]; vm_compute; lia.
  - apply adj_equiv_Iso. repeat apply conj; auto. vm_compute. intros e; tauto.
Qed.

(* END-TO-END INSTANCE.  With the oracle that recognises the product's own edge list the hypothesis
   Hiso_on holds for this instance (its two candidates: break C-H only -> not isomorphic, oracle says no;
   break C-H and form H-O -> isomorphic, oracle says yes), so rearrs_complete_partial applies and the
   enumeration provably returns a non-empty list; it is the single expected rearrangement. *)
Definition ex_iso (g _ : graph) : bool := match g_edges g with [(1, 2)] => true | _ => false end.

Example ex_Hiso_on : Hiso_on ex_iso ex_r ex_p.
Proof.
  destruct complete_premises_satisfiable as [W1 [W2 [Hn [_ [_ [_ [_ [_ HI]]]]]]]].
  split.
  - split; [discriminate|contradiction].
  - intros c Hc. vm_compute in Hc. destruct Hc as [<-|[<-|[]]]; cbn [fst snd].
    + split; [discriminate|]. intros X.
      assert (Wa : wf (apply_edit ex_r [] [(0, 1)])).
      { constructor; [vm_compute; constructor | vm_compute; intros e []]. }
      destruct (iso_counts _ _ Wa W2 X) as [_ H]. vm_compute in H. discriminate.
    + split; [intros _; exact HI | reflexivity].
Qed.

Example complete_instance :
  exists l, get_bond_rearrangs ex_iso ex_mv (fun _ => 0) (fun _ => []) true ex_r ex_p 3 = Ok l /\ l <> [].
Proof.
  destruct complete_premises_satisfiable as [W1 [W2 [Hn [N1 [N2 [Hb [Hf [Hd HI]]]]]]]].
  apply (rearrs_complete_partial ex_iso ex_mv (fun _ => 0) (fun _ => []) true ex_r ex_p 3 ex_Hiso_on W1 W2
           [(1, 2)] [(0, 1)]); auto; cbn; lia.
Qed.

Example enumeration_runs :
  get_bond_rearrangs ex_iso ex_mv (fun _ => 0) (fun _ => []) true ex_r ex_p 3
  = Ok [([(1, 2)], [(0, 1)])].
Proof. vm_compute. reflexivity. Qed.
