(* C04/Props.v — the property theorems for "bond rearrangements found are sound and exist whenever one
   exists".  Statements only, each closed by lemmas of Lemmas.v.

   Vocabulary (Model.v / Lemmas.v):
     graph                = node list, element label and atom class per node, duplicate-free edge list
     In_u e l             = the unordered pair e occurs in l (in either orientation)
     Iso g h              = graph isomorphism matching element labels AND atom classes (a bijection of
                            the node sets given with its inverse, preserving both and adjacency)
     wf g                 = g is a simple graph: no edge twice (unordered), endpoints are nodes
     apply_edit r fb bb   = generate_rearranged_graph: add the forming, remove the breaking bonds
     get_bond_rearrangs   = the model of autode.bond_rearrangement.get_bond_rearrangs; its isomorphism
                            test iso_b, the ring-size and neighbour-list functions are parameters
   Hiso is the assumption that the isomorphism oracle (networkx GraphMatcher behind
   mol_graphs.is_isomorphic) decides Iso. *)
From Coq Require Import String Ascii.
From Coq Require Import Arith List Bool Lia.
From AV.C04 Require Import Model Lemmas.
Import ListNotations.
Open Scope list_scope.
Open Scope nat_scope.

(* SOUNDNESS.  Whatever the enumeration returns (for any pruning oracles, either setting of
   skip_small_ring_tss) is a non-empty list, and every returned rearrangement breaks only bonds of
   the reactant, forms only bonds absent from it, and turns the reactant graph into a graph
   isomorphic (elements matching) to the product.  Only the direction "oracle says yes -> isomorphic"
   of Hiso is needed. *)
Theorem rearrs_sound :
  forall (iso_b : graph -> graph -> bool) (mv : nat -> nat) (nl : rearr -> nat)
         (rings : rearr -> list nat) (skip : bool) (r p : graph) (n_atoms_p : nat) (l : list rearr),
    (forall g h, iso_b g h = true -> Iso g h) ->
    get_bond_rearrangs iso_b mv nl rings skip r p n_atoms_p = Ok l ->
    l <> [] /\
    forall fb bb, In (fb, bb) l ->
      (forall b, In b bb -> In_u b (g_edges r)) /\
      (forall f, In f fb -> ~ In_u f (g_edges r)) /\
      Iso (apply_edit r fb bb) p.
Proof.
  intros iso_b mv nl rings skip r p n l Hiso H. unfold get_bond_rearrangs in H.
  destruct (enumerate iso_b mv r p n) as [l0| | |] eqn:E; try discriminate.
  inversion H; subst; clear H.
  destruct (enumerate_sound iso_b mv r p Hiso n l0 E) as [Hne Hs]. split.
  - apply post_nonempty; auto.
  - intros fb bb Hin. apply post_incl in Hin. apply (Hs (fb, bb) Hin).
Qed.

(* COMPLETENESS.  If the product is not isomorphic to the reactant and SOME edit with at most two
   breaking and at most two forming bonds, net loss of bonds 0..2, breaking bonds present, forming
   bonds absent (between atoms of the reactant), no atom pushed beyond its maximal valence
   (its degree after the edit is at most max(maximal valence, degree before)) turns the reactant
   into a graph isomorphic to the product, then the enumeration returns a non-empty list - for every
   assignment of the pruning oracles and either setting of skip_small_ring_tss.
   All fourteen+1 bond-type patterns of the five get_fbonds_bbonds_* functions are covered (no case
   is left open). *)
Theorem rearrs_complete :
  forall (iso_b : graph -> graph -> bool) (mv : nat -> nat) (nl : rearr -> nat)
         (rings : rearr -> list nat) (skip : bool) (r p : graph) (n_atoms_p : nat),
    (forall g h, iso_b g h = true <-> Iso g h) ->
    wf r -> wf p ->
    ~ Iso r p ->
    forall fb bb : list edge,
      length bb <= 2 -> length fb <= 2 -> length fb <= length bb -> length bb - length fb <= 2 ->
      NoDup (map norm bb) -> NoDup (map norm fb) ->
      (forall b, In b bb -> In_u b (g_edges r)) ->
      (forall f, In f fb -> ~ In_u f (g_edges r) /\ In (fst f) (g_nodes r) /\ In (snd f) (g_nodes r)) ->
      (forall i, In i (g_nodes r) ->
         degree (apply_edit r fb bb) i <= Nat.max (mv (g_label r i)) (degree r i)) ->
      Iso (apply_edit r fb bb) p ->
      exists l, get_bond_rearrangs iso_b mv nl rings skip r p n_atoms_p = Ok l /\ l <> [].
Proof.
  intros iso_b mv nl rings skip r p n Hiso Hwr Hwp Hnot fb bb Lb Lf Lfb _ Nb Nf Hb Hf Hdeg HI.
  assert (Cl : clean r fb bb).
  { constructor; auto; intros f Hin; apply (Hf f Hin). }
  destruct (enumerate_complete iso_b mv r p Hiso Hwr Hwp fb bb n Cl HI Hnot Hdeg Lb Lfb) as [l E].
  assert (Hs : forall g h, iso_b g h = true -> Iso g h) by (intros g h; apply Hiso).
  destruct (enumerate_sound iso_b mv r p Hs n l E) as [Hne _].
  exists (post nl rings (elems_of r) skip l). split.
  - unfold get_bond_rearrangs. rewrite E. reflexivity.
  - apply post_nonempty; auto.
Qed.

(* PRUNING never removes the last rearrangement, for EVERY oracle assignment (neighbour-list classes,
   ring sizes, element sets): neither strip_equiv_bond_rearrs nor prune_small_ring_rearrs nor their
   composition at bond_rearrangement.py:126-133 empties a non-empty list, and they only ever drop
   entries. *)
Theorem strip_equiv_nonempty :
  forall (nl : rearr -> nat) (l : list rearr),
    l <> [] -> strip_equiv nl l <> [] /\ forall x, In x (strip_equiv nl l) -> In x l.
Proof.
  intros nl l H. split; [apply Lemmas.strip_equiv_nonempty; auto | intros x; apply strip_equiv_incl].
Qed.

Theorem prune_small_rings_nonempty :
  forall (rings elems : rearr -> list nat) (l : list rearr),
    l <> [] -> prune_small_rings rings elems l <> [] /\
               forall x, In x (prune_small_rings rings elems l) -> In x l.
Proof.
  intros rings elems l H. split; [apply prune_nonempty; auto | intros x; apply prune_incl].
Qed.

Theorem pruning_keeps_one :
  forall (nl : rearr -> nat) (rings elems : rearr -> list nat) (skip : bool) (l : list rearr),
    l <> [] -> post nl rings elems skip l <> [] /\ forall x, In x (post nl rings elems skip l) -> In x l.
Proof.
  intros nl rings elems skip l H. split; [apply post_nonempty; auto | intros x; apply post_incl].
Qed.

(* SAVE / LOAD.  The text written by save_bond_rearrangs_to_file, read back by
   get_bond_rearrangs_from_file, gives a list equal to the saved one (same forming and breaking
   bonds in the same order), for every list of rearrangements. *)
Theorem save_load_roundtrip :
  forall brs : list rearr, load (save brs) = Some brs.
Proof. exact load_save. Qed.

(* ------------------------------------------------------------------ non-vacuity *)
(* C-H + O  ->  C + H-O  (atoms 0:C 1:H 2:O; labels are ranks C=0 H=1 O=2). *)
Definition ex_r : graph := mkGraph [0; 1; 2] (fun i => i) (fun _ => 0) [(0, 1)].
Definition ex_p : graph := mkGraph [0; 1; 2] (fun i => i) (fun _ => 0) [(1, 2)].
Definition ex_mv (lab : nat) : nat := match lab with 0 => 4 | 1 => 1 | _ => 3 end.

(* every premise of rearrs_complete other than Hiso holds for this instance (Hiso itself says the
   oracle decides Iso; such a function exists classically) *)
Example complete_premises_satisfiable :
  wf ex_r /\ wf ex_p /\ ~ Iso ex_r ex_p /\
  NoDup (map norm [(0, 1)]) /\ NoDup (map norm [(1, 2)]) /\
  (forall b, In b [(0, 1)] -> In_u b (g_edges ex_r)) /\
  (forall f, In f [(1, 2)] -> ~ In_u f (g_edges ex_r) /\ In (fst f) (g_nodes ex_r) /\ In (snd f) (g_nodes ex_r)) /\
  (forall i, In i (g_nodes ex_r) ->
     degree (apply_edit ex_r [(1, 2)] [(0, 1)]) i <= Nat.max (ex_mv (g_label ex_r i)) (degree ex_r i)) /\
  Iso (apply_edit ex_r [(1, 2)] [(0, 1)]) ex_p.
Proof.
  assert (W1 : wf ex_r).
  { constructor; cbn.
    - repeat constructor; cbn; intuition discriminate.
    - intros e [<-|[]]; cbn; auto. }
  assert (W2 : wf ex_p).
  { constructor; cbn.
    - repeat constructor; cbn; intuition discriminate.
    - intros e [<-|[]]; cbn; auto. }
  repeat apply conj; auto.
  - intros HI. destruct (iso_counts _ _ W1 W2 HI) as [H _]. specialize (H (0, 1)). vm_compute in H. discriminate.
  - repeat constructor; cbn; intuition discriminate.
  - repeat constructor; cbn; intuition discriminate.
  - intros b [<-|[]]. apply In_In_u. cbn; auto.
  - intros f [<-|[]]. repeat apply conj; cbn; auto. apply has_edge_false. reflexivity.
  - intros i Hi. cbn in Hi. destruct Hi as [<-|[<-|[<-|[]]]]; vm_compute; lia.
  - apply adj_equiv_Iso. repeat apply conj; auto. vm_compute. intros e; tauto.
Qed.

(* the model runs: with an oracle that recognises the product's own edge list the enumeration of
   this instance returns exactly the one rearrangement *)
Example enumeration_runs :
  get_bond_rearrangs (fun g _ => match g_edges g with [(1, 2)] => true | _ => false end)
                     ex_mv (fun _ => 0) (fun _ => []) true ex_r ex_p 3
  = Ok [([(1, 2)], [(0, 1)])].
Proof. vm_compute. reflexivity. Qed.
