(* C04/Corr.v — helpers used only by the correspondence check (model vs implementation). *)
From Coq Require Import String Ascii.
From Coq Require Import Arith List Bool.
From AV.C04 Require Import Model.
Import ListNotations.
Open Scope list_scope.
Open Scope nat_scope.

(* graph with its nodes in networkx iteration order (0..n-1 for make_graph / disjoint_union_all, a
   permutation after Species.reorder_atoms); labels / classes are indexed by node name *)
Definition mkg (nodes labs cls : list nat) (es : list edge) : graph :=
  mkGraph nodes (fun i => nth i labs 0) (fun i => nth i cls 0) es.

Definition canon (es : list edge) : list edge := sort_edges (map norm es).
Fixpoint edges_eqb (a b : list edge) : bool :=
  match a, b with
  | [], [] => true
  | x :: a', y :: b' => edge_eqb x y && edges_eqb a' b'
  | _, _ => false
  end.
Definition rearr_eqb (a b : rearr) : bool := edges_eqb (fst a) (fst b) && edges_eqb (snd a) (snd b).
Fixpoint rearrs_eqb (a b : list rearr) : bool :=
  match a, b with
  | [], [] => true
  | x :: a', y :: b' => rearr_eqb x y && rearrs_eqb a' b'
  | _, _ => false
  end.
Definition outcome_eqb (a b : outcome) : bool :=
  match a, b with
  | Ok x, Ok y => rearrs_eqb x y
  | RNone, RNone => true
  | KeyErr, KeyErr => true
  | IndexErr, IndexErr => true
  | _, _ => false
  end.

(* the logged answers of is_isomorphic(graph, product.graph), keyed by the canonical edge list of
   the first argument (the second argument is checked to be the product graph on the Python side) *)
Definition iso_tab (tbl : list (list edge * bool)) (g h : graph) : bool :=
  match find (fun kv => edges_eqb (fst kv) (canon (g_edges g))) tbl with
  | Some kv => snd kv
  | None => false
  end.
Definition mv_tab (t : list nat) (lab : nat) : nat := nth lab t 6.
Definition tab_nat (t : list (rearr * nat)) (br : rearr) : nat :=
  match find (fun kv => rearr_eqb (fst kv) br) t with Some kv => snd kv | None => 0 end.
Definition tab_list (t : list (rearr * list nat)) (br : rearr) : list nat :=
  match find (fun kv => rearr_eqb (fst kv) br) t with Some kv => snd kv | None => [] end.
Definition in_tab {A} (t : list (rearr * A)) (br : rearr) : bool :=
  existsb (fun kv => rearr_eqb (fst kv) br) t.

(* the sequence of isomorphism queries the model makes (canonical first arguments), in order *)
Section Q.
  Variable iso_b : graph -> graph -> bool.
  Variable mv : nat -> nat.
  Definition q_cands (r : graph) (cs : list cand) : list (list edge) :=
    map (fun c => canon (g_edges (apply_edit r (fst c) (snd c))))
        (filter (fun c => valence_ok mv r (fst c) (snd c)) cs).
  Fixpoint q_funcs (r p : graph) (bk : book) (fs : list func) (acc : list rearr) : list (list edge) :=
    match fs with
    | [] => []
    | f :: rest =>
        match cands f bk with
        | None => []
        | Some cs =>
            let acc' := run_func iso_b mv r p cs acc in
            q_cands r cs ++ (if 0 <? length acc' then [] else q_funcs r p bk rest acc')
        end
    end.
  Definition queries (r p : graph) (n_atoms_p : nat) : list (list edge) :=
    canon (g_edges r) ::
    (if iso_b r p && (3 <? n_atoms_p) then []
     else match classify r (bond_types p) (bond_types r) book0 with
          | None => []
          | Some bk => match funcs_of (length (g_edges r)) (length (g_edges p)) with
                       | None => []
                       | Some fs => q_funcs r p bk fs []
                       end
          end).
End Q.

Fixpoint edgelists_eqb (a b : list (list edge)) : bool :=
  match a, b with
  | [], [] => true
  | x :: a', y :: b' => edges_eqb x y && edgelists_eqb a' b'
  | _, _ => false
  end.

(* get_bond_rearrangs is enumerate followed by the pruning step (definitional); used to evaluate the
   enumeration once per case *)
Definition finish (nl : rearr -> nat) (rings : rearr -> list nat) (r : graph) (skip : bool) (pre : outcome) : outcome :=
  match pre with
  | Ok l => Ok (post nl rings (elems_of r) skip l)
  | o => o
  end.
Lemma get_bond_rearrangs_finish iso_b mv nl rings skip r p n :
  get_bond_rearrangs iso_b mv nl rings skip r p n = finish nl rings r skip (enumerate iso_b mv r p n).
Proof. unfold get_bond_rearrangs, finish. destruct (enumerate iso_b mv r p n); reflexivity. Qed.

(* one case: reactant (labels, edges), product (labels, edges), maximal-valence table, the logged
   isomorphism answers, the pruning oracles of the implementation; expected list before pruning and
   expected final results with skip_small_ring_tss = False / True *)
Definition check_case (nodes_r labs_r cls_r : list nat) (es_r : list edge)
           (nodes_p labs_p cls_p : list nat) (es_p : list edge)
           (mvt : list nat) (tbl : list (list edge * bool))
           (nlt : list (rearr * nat)) (ringt : list (rearr * list nat))
           (expect_pre expect_noskip expect_skip : outcome) : bool :=
  let r := mkg nodes_r labs_r cls_r es_r in
  let p := mkg nodes_p labs_p cls_p es_p in
  let iso := iso_tab tbl in
  let mv := mv_tab mvt in
  let pre := enumerate iso mv r p (length labs_p) in
  outcome_eqb pre expect_pre
  && outcome_eqb (finish (tab_nat nlt) (tab_list ringt) r false pre) expect_noskip
  && outcome_eqb (finish (tab_nat nlt) (tab_list ringt) r true pre) expect_skip
  && edgelists_eqb (queries iso mv r p (length labs_p)) (map fst tbl)
  && match pre with
     | Ok l => if 1 <? length l then forallb (fun br => in_tab nlt br && in_tab ringt br) l else true
     | _ => true
     end.

(* pruning alone on implementation-supplied oracle values (also exercised on hand-made lists) *)
Definition check_prune (nodes_r labs_r : list nat) (es_r : list edge) (l : list rearr)
           (nlt : list (rearr * nat)) (ringt : list (rearr * list nat)) (skip : bool)
           (expect : list rearr) : bool :=
  rearrs_eqb (post (tab_nat nlt) (tab_list ringt) (elems_of (mkg nodes_r labs_r [] es_r)) skip l) expect.

(* strings (texts are passed as Coq string literals; they may contain raw newlines and tabs) *)
Definition check_save (brs : list rearr) (text : string) : bool := String.eqb (save brs) text.
(* expected: Some (inl brs) = parsed list; Some (inr e) = ValueError / negative index; *)
Definition check_load (text : string) (expect : list rearr + lerr) : bool :=
  match load text, expect with
  | inl a, inl b => rearrs_eqb a b
  | inr ValueErr, inr ValueErr => true
  | inr NegIndex, inr NegIndex => true
  | _, _ => false
  end.
(* get_bond_rearrangs with a pre-existing {name}_bond_rearrangs.txt: the file content is returned *)
Definition check_cached (text : string) (expect : list rearr + lerr) : bool :=
  match get_bond_rearrangs_cached (Some text) (fun _ _ => false) (fun _ => 0) (fun _ => 0) (fun _ => [])
                                  false (mkg [] [] [] []) (mkg [] [] [] []) 0, expect with
  | inl (Ok a), inl b => rearrs_eqb a b
  | inr ValueErr, inr ValueErr => true
  | inr NegIndex, inr NegIndex => true
  | _, _ => false
  end.
