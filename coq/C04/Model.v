(* C04/Model.v — executable model of autode/bond_rearrangement.py (get_bond_rearrangs and everything it
   calls) and of the graph helpers of autode/mol_graphs.py it uses.  Definitions only.

   Graphs are simple labelled graphs: a node list, a label function (element, as the rank of the
   atomic symbol in the sorted list of symbols, so that nat order = Python string order of the symbols)
   an atom-class function,
   and a duplicate-free edge list in the iteration order of networkx `graph.edges`.
   External code is an oracle: networkx isomorphism (`iso_b`), `nx.cycle_basis` (ring sizes), the
   geometry-based neighbour lists (`nl`).  Exceptions are explicit result constructors.            *)
From Coq Require Import String Ascii.
From Coq Require Import Decimal DecimalString DecimalNat.
From Coq Require Import Arith List Bool Lia.
Import ListNotations.
Open Scope list_scope.
Open Scope nat_scope.

(* ------------------------------------------------------------------ edges / graphs *)
Definition edge := (nat * nat)%type.
(* g_class: the atom_class node attribute (0 = None) that is_isomorphic's node matcher compares besides
   atom_label (mol_graphs.py:109-116); it plays no role in the bond-type bookkeeping *)
Record graph := mkGraph { g_nodes : list nat; g_label : nat -> nat; g_class : nat -> nat; g_edges : list edge }.

Definition edge_eqb (a b : edge) : bool := (fst a =? fst b) && (snd a =? snd b).
Definition flip (e : edge) : edge := (snd e, fst e).
(* python `bond in list_of_tuples` *)
Definition in_l (e : edge) (l : list edge) : bool := existsb (edge_eqb e) l.
(* networkx has_edge / `(i, j) in bonds or (j, i) in bonds` : unordered *)
Definition has_edge (l : list edge) (e : edge) : bool := in_l e l || in_l (flip e) l.
Definition same_u (a b : edge) : bool := edge_eqb a b || edge_eqb a (flip b).

(* (min,max) tuple: bond_rearrangement.py:266-275 `if b[0] < b[1]: (b[0], b[1]) else (b[1], b[0])` *)
Definition norm (e : edge) : edge := if fst e <? snd e then (fst e, snd e) else (snd e, fst e).

(* networkx degree: a self-loop counts twice *)
Definition inc (i : nat) (e : edge) : nat := (if fst e =? i then 1 else 0) + (if snd e =? i then 1 else 0).
Definition degree_l (l : list edge) (i : nat) : nat := fold_right (fun e s => inc i e + s) 0 l.
Definition degree (g : graph) (i : nat) : nat := degree_l (g_edges g) i.

(* generate_rearranged_graph, bond_rearrangement.py:288-310: copy; add every fbond; remove every
   bbond.  add_edge of an existing edge changes nothing; remove_edge deletes the (unordered) edge.
   (networkx raises if the edge is absent: unreachable here, every candidate's bbonds are distinct
   edges of the reactant and are never forming bonds.) *)
Definition add_edge (l : list edge) (e : edge) : list edge := if has_edge l e then l else l ++ [e].
Definition remove_edge (l : list edge) (e : edge) : list edge := filter (fun x => negb (same_u x e)) l.
Definition apply_edit (g : graph) (fb bb : list edge) : graph :=
  mkGraph (g_nodes g) (g_label g) (g_class g) (fold_left remove_edge bb (fold_left add_edge fb (g_edges g))).

(* ------------------------------------------------------------------ get_bond_type_list (mol_graphs.py:663-698) *)
Definition key := (nat * nat)%type.
Definition key_eqb (a b : key) : bool := (fst a =? fst b) && (snd a =? snd b).

(* sorted(set(labels)) *)
Fixpoint ins (a : nat) (l : list nat) : list nat :=
  match l with
  | [] => [a]
  | b :: r => if a <? b then a :: l else if a =? b then l else b :: ins a r
  end.
Definition sorted_set (l : list nat) : list nat := fold_right ins [] l.
Definition label_list (g : graph) : list nat := sorted_set (map (g_label g) (g_nodes g)).

(* for index, a in enumerate(ordered): for i in range(index, len(ordered)): key = a + ordered[i] *)
Fixpoint all_keys (l : list nat) : list key :=
  match l with
  | [] => []
  | a :: r => map (pair a) (a :: r) ++ all_keys r
  end.

(* key1 = label_i + label_j if that is a dict key, else key2 = label_j + label_i.  Dict keys are the
   concatenations a+b with a <= b (element symbols split uniquely at capitals, so a+b determines (a,b)):
   the bond lands under the ordered label pair. *)
Definition pair_key (a b : nat) : key := if a <=? b then (a, b) else (b, a).
Definition edge_key (g : graph) (e : edge) : key := pair_key (g_label g (fst e)) (g_label g (snd e)).
(* the list stored under key k: bonds in graph.edges order *)
Definition bonds_of (g : graph) (k : key) : list edge :=
  filter (fun e => key_eqb (edge_key g e) k) (g_edges g).
Definition bond_types (g : graph) : list (key * list edge) :=
  map (fun k => (k, bonds_of g k)) (all_keys (label_list g)).

Fixpoint lookup_key {A} (k : key) (d : list (key * A)) : option A :=
  match d with
  | [] => None
  | (k', v) :: r => if key_eqb k k' then Some v else lookup_key k r
  end.

(* get_fbonds (mol_graphs.py:701-731): for i in nodes: for j in nodes: skip i > j (i == j is NOT
   skipped); not bonded either way; key1 == key or key2 == key *)
Definition possible_fbonds (g : graph) (k : key) : list edge :=
  flat_map (fun i =>
    flat_map (fun j =>
      if j <? i then []
      else if has_edge (g_edges g) (i, j) then []
      else if key_eqb (g_label g i, g_label g j) k || key_eqb (g_label g j, g_label g i) k
           then [(i, j)] else [])
      (g_nodes g)) (g_nodes g).

(* ------------------------------------------------------------------ classification loop (bond_rearrangement.py:47-85) *)
Record book := mkBook {
  all_bb : list (list edge);            (* all_possible_bbonds *)
  bb_fb  : option (list edge);          (* bbond_atom_type_fbonds (None until set) *)
  all_fb : list (list edge);            (* all_possible_fbonds *)
  fb_bb  : option (list edge);          (* fbond_atom_type_bbonds *)
  same_bf : list (list edge * list edge) (* possible_bbond_and_fbonds *)
}.
Definition book0 : book := mkBook [] None [] None [].

(* one iteration of `for reac_key, reac_bonds in reac_bond_dict.items()`; None = KeyError of
   prod_bond_dict[reac_key] *)
Definition classify_step (r : graph) (pd : list (key * list edge)) (acc : book)
           (kv : key * list edge) : option book :=
  let (k, rb) := kv in
  match lookup_key k pd with
  | None => None
  | Some pb =>
      let pf := possible_fbonds r k in
      if length pb <? length rb then
        Some (mkBook (all_bb acc ++ [rb]) (Some pf) (all_fb acc) (fb_bb acc) (same_bf acc))
      else if length rb <? length pb then
        Some (mkBook (all_bb acc) (bb_fb acc) (all_fb acc ++ [pf]) (Some rb) (same_bf acc))
      else if negb (length rb =? 0) then
        Some (mkBook (all_bb acc) (bb_fb acc) (all_fb acc) (fb_bb acc) (same_bf acc ++ [(rb, pf)]))
      else Some acc
  end.
Fixpoint classify (r : graph) (pd : list (key * list edge)) (rd : list (key * list edge))
         (acc : book) : option book :=
  match rd with
  | [] => Some acc
  | kv :: rest => match classify_step r pd acc kv with
                  | None => None
                  | Some acc' => classify r pd rest acc'
                  end
  end.

(* ------------------------------------------------------------------ candidate lists of get_fbonds_bbonds_* *)
Definition cand := (list edge * list edge)%type.   (* (fbonds, bbonds) as passed to add_bond_rearrangment *)
Definition rearr := (list edge * list edge)%type.  (* BondRearrangement (fbonds, bbonds) *)

(* itertools.combinations(l, 2) *)
Fixpoint pairs {A} (l : list A) : list (A * A) :=
  match l with
  | [] => []
  | x :: r => map (pair x) r ++ pairs r
  end.
Definition opt_list {A} (o : option (list A)) : list A := match o with Some l => l | None => [] end.

Inductive func := F1b | F2b | F1b1f | F2b1f | F2b2f.

(* :313-331.  all_possible_bbonds[0] on an empty list is an IndexError: None.  (Cannot happen after a
   successful classification with one bond fewer in the product: some bond type then has fewer bonds;
   for the edits of the completeness theorem this is part of its proof, Lemmas.pat_1b /
   hit_2b1f_bb_nonempty.) *)
Definition cands_1b (bk : book) : option (list cand) :=
  match all_bb bk with
  | [] => None
  | l0 :: _ => Some (map (fun b => ([], [b])) l0)
  end.

(* :334-364 *)
Definition cands_2b (bk : book) : list cand :=
  match all_bb bk with
  | [l0] => map (fun bp => ([], [fst bp; snd bp])) (pairs l0)
  | [l0; l1] => flat_map (fun b1 => map (fun b2 => ([], [b1; b2])) l1) l0
  | _ => []
  end.

(* :367-398 *)
Definition cands_1b1f (bk : book) : list cand :=
  match all_bb bk, all_fb bk with
  | [bl], [fl] => flat_map (fun f => map (fun b => ([f], [b])) bl) fl
  | [], [] => flat_map (fun bf => flat_map (fun b => map (fun f => ([f], [b])) (snd bf)) (fst bf)) (same_bf bk)
  | _, _ => []
  end.

(* :401-480.  bbond_atom_type_fbonds is set whenever all_possible_bbonds is non-empty (lemma
   classify_bb_fb_some), so the None of opt_list is unreachable in the third branch. *)
Definition cands_2b1f (bk : book) : list cand :=
  match all_bb bk, all_fb bk with
  | [bl0; bl1], [fl] =>
      flat_map (fun f => flat_map (fun b1 => map (fun b2 => ([f], [b1; b2])) bl1) bl0) fl
  | [bl], [fl] =>
      flat_map (fun f => map (fun bp => ([f], [fst bp; snd bp])) (pairs bl)) fl
  | [bl], [] =>
      flat_map (fun bf =>
        flat_map (fun f => flat_map (fun b1 => map (fun b2 => ([f], [b1; b2])) (fst bf)) bl) (snd bf))
        (same_bf bk)
      ++ flat_map (fun f => map (fun bp => ([f], [fst bp; snd bp])) (pairs bl)) (opt_list (bb_fb bk))
  | _, _ => []
  end.

(* :483-642 *)
Definition cands_2b2f (bk : book) : list cand :=
  match all_bb bk, all_fb bk with
  | [bl0; bl1], [fl0; fl1] =>
      flat_map (fun f1 => flat_map (fun f2 => flat_map (fun b1 =>
        map (fun b2 => ([f1; f2], [b1; b2])) bl1) bl0) fl1) fl0
  | [bl0; bl1], [fl] =>
      flat_map (fun b1 => flat_map (fun b2 =>
        map (fun fp => ([fst fp; snd fp], [b1; b2])) (pairs fl)) bl1) bl0
  | [bl], [fl0; fl1] =>
      flat_map (fun f1 => flat_map (fun f2 =>
        map (fun bp => ([f1; f2], [fst bp; snd bp])) (pairs bl)) fl1) fl0
  | [bl], [fl] =>
      (* :548-560 *)
      flat_map (fun fp => map (fun bp => ([fst fp; snd fp], [fst bp; snd bp])) (pairs bl)) (pairs fl)
      (* :562-576 *)
      ++ flat_map (fun bf =>
           flat_map (fun f1 => flat_map (fun f2 => flat_map (fun b1 =>
             map (fun b2 => ([f1; f2], [b1; b2])) (fst bf)) bl) (snd bf)) fl) (same_bf bk)
      (* :578-591 *)
      ++ flat_map (fun f1 => flat_map (fun f2 =>
           map (fun bp => ([f1; f2], [fst bp; snd bp])) (pairs bl)) (opt_list (bb_fb bk))) fl
      (* :593-607 *)
      ++ flat_map (fun b1 => flat_map (fun b2 =>
           map (fun fp => ([fst fp; snd fp], [b1; b2])) (pairs fl)) (opt_list (fb_bb bk))) bl
  | [], [] =>
      (* :610-624 *)
      flat_map (fun pq =>
        flat_map (fun f1 => flat_map (fun b1 => flat_map (fun f2 =>
          map (fun b2 => ([f1; f2], [b1; b2])) (fst (snd pq))) (snd (snd pq))) (fst (fst pq)))
          (snd (fst pq))) (pairs (same_bf bk))
      (* :626-640 *)
      ++ flat_map (fun bf =>
           flat_map (fun fp => map (fun bp => ([fst fp; snd fp], [fst bp; snd bp])) (pairs (fst bf)))
             (pairs (snd bf))) (same_bf bk)
  | _, _ => []
  end.

Definition cands (f : func) (bk : book) : option (list cand) :=
  match f with
  | F1b => cands_1b bk
  | F2b => Some (cands_2b bk)
  | F1b1f => Some (cands_1b1f bk)
  | F2b1f => Some (cands_2b1f bk)
  | F2b2f => Some (cands_2b2f bk)
  end.

(* ------------------------------------------------------------------ add_bond_rearrangment (:223-285) *)
Definition edge_leb (a b : edge) : bool := (fst a <? fst b) || ((fst a =? fst b) && (snd a <=? snd b)).
Fixpoint insert_edge (e : edge) (l : list edge) : list edge :=
  match l with
  | [] => [e]
  | x :: r => if edge_leb e x then e :: l else x :: insert_edge e r
  end.
Definition sort_edges (l : list edge) : list edge := fold_right insert_edge [] l.
Definition ordered (l : list edge) : list edge := sort_edges (map norm l).

Definition atoms_of (l : list edge) : list nat := flat_map (fun b => [fst b; snd b]) l.

(* valence pre-filter :246-257 : reject when some forming-bond atom is at its maximal valence in the
   reactant and is not an atom of a breaking bond *)
Definition valence_ok (mv : nat -> nat) (r : graph) (fb bb : list edge) : bool :=
  forallb (fun f =>
    forallb (fun idx => negb ((degree r idx =? mv (g_label r idx))
                              && negb (existsb (Nat.eqb idx) (atoms_of bb))))
            [fst f; snd f]) fb.

Inductive outcome :=
| Ok (l : list rearr)
| RNone            (* return None *)
| KeyErr           (* prod_bond_dict[reac_key] *)
| IndexErr.        (* all_possible_bbonds[0] *)

Section Enumerate.
  Variable iso_b : graph -> graph -> bool.   (* mol_graphs.is_isomorphic (oracle) *)
  Variable mv : nat -> nat.                  (* element label -> Atom.maximal_valance *)

  Definition add_bond_rearrangement (r p : graph) (acc : list rearr) (c : cand) : list rearr :=
    let (fb, bb) := c in
    if negb (valence_ok mv r fb bb) then acc
    else if iso_b (apply_edit r fb bb) p then acc ++ [(ordered fb, ordered bb)]
    else acc.

  Definition run_func (r p : graph) (cs : list cand) (acc : list rearr) : list rearr :=
    fold_left (add_bond_rearrangement r p) cs acc.

  (* delta_n_bonds dispatch :89-104 *)
  Definition funcs_of (nr np : nat) : option (list func) :=
    if nr =? np then Some [F1b1f; F2b2f]
    else if nr =? np + 1 then Some [F1b; F2b1f]
    else if nr =? np + 2 then Some [F2b]
    else None.

  (* `for func in funcs:` :106-146 — first function whose accumulated list is non-empty wins *)
  Fixpoint run_funcs (r p : graph) (bk : book) (fs : list func) (acc : list rearr) : outcome :=
    match fs with
    | [] => RNone
    | f :: rest =>
        match cands f bk with
        | None => IndexErr
        | Some cs =>
            let acc' := run_func r p cs acc in
            if 0 <? length acc' then Ok acc' else run_funcs r p bk rest acc'
        end
    end.

  (* everything before the pruning: the list `possible_brs` at line 126 *)
  Definition enumerate (r p : graph) (n_atoms_p : nat) : outcome :=
    if iso_b r p && (3 <? n_atoms_p) then RNone
    else match classify r (bond_types p) (bond_types r) book0 with
         | None => KeyErr
         | Some bk =>
             match funcs_of (length (g_edges r)) (length (g_edges p)) with
             | None => RNone
             | Some fs => run_funcs r p bk fs []
             end
         end.
End Enumerate.

(* ------------------------------------------------------------------ pruning *)
Section Prune.
  Variable nl : rearr -> nat.            (* class of get_active_atom_neighbour_lists(mol, depth=6) *)
  Variable rings : rearr -> list nat.    (* n_membered_rings(mol): nx.cycle_basis oracle *)
  Variable elems : rearr -> list nat.    (* sorted set of labels of the active atoms *)

  (* strip_equiv_bond_rearrs :645-685 *)
  Definition strip_step (uniq : list rearr) (br : rearr) : list rearr :=
    if existsb (fun u => nl u =? nl br) uniq then uniq else uniq ++ [br].
  Definition strip_equiv (l : list rearr) : list rearr := fold_left strip_step l [].

  (* prune_small_ring_rearrs :688-759 (Config.skip_small_ring_tss = True part) *)
  Definition list_eqb (a b : list nat) : bool :=
    (length a =? length b) && forallb (fun xy => fst xy =? snd xy) (combine a b).
  Definition list_min (l : list nat) : nat :=     (* python min(); min([]) raises: unreachable, see Lemmas *)
    match l with [] => 0 | x :: r => fold_left Nat.min r x end.
  Definition has_small (l : list nat) : bool := existsb (fun n => (n =? 3) || (n =? 4)) l.
  Definition excluded (l : list rearr) (bi : rearr) : bool :=
    has_small (rings bi) &&
    existsb (fun bj => list_eqb (elems bi) (elems bj)
                       && (length (rings bi) =? length (rings bj))
                       && (list_min (rings bi) <? list_min (rings bj))) l.
  Definition prune_small_rings (l : list rearr) : list rearr :=
    filter (fun bi => negb (excluded l bi)) l.

  (* :126-133 *)
  Definition post (skip : bool) (l : list rearr) : list rearr :=
    if 1 <? length l then
      let l1 := strip_equiv l in
      if skip then prune_small_rings l1 else l1
    else l.
End Prune.

(* elems :709-716 : set of labels of the active atoms, compared as sorted duplicate-free lists *)
Definition elems_of (r : graph) (br : rearr) : list nat :=
  sorted_set (map (g_label r) (atoms_of (fst br ++ snd br))).

Definition get_bond_rearrangs (iso_b : graph -> graph -> bool) (mv : nat -> nat)
           (nl : rearr -> nat) (rings : rearr -> list nat) (skip : bool)
           (r p : graph) (n_atoms_p : nat) : outcome :=
  match enumerate iso_b mv r p n_atoms_p with
  | Ok l => Ok (post nl rings (elems_of r) skip l)
  | o => o
  end.

(* ------------------------------------------------------------------ save / load text format (:149-220) *)
Open Scope string_scope.
Open Scope nat_scope.
Definition nl_char : ascii := Ascii.ascii_of_nat 10.
Definition dec (n : nat) : string := NilEmpty.string_of_uint (Nat.to_uint n).
(* digits only *)
Definition parse_nat (s : string) : option nat :=
  match s with
  | EmptyString => None
  | _ => option_map Nat.of_uint (NilEmpty.uint_of_string s)
  end.
(* Python int(tok) on ASCII text: [sign] digit (["_"] digit)*  (tokens carry no white space; non-ASCII
   digits are outside the modelled domain).  A negative value is a legal Python int but not an atom index
   of the model (nat): TNeg. *)
Inductive tokval := TNat (n : nat) | TNeg | TBad.
Definition is_digit_c (c : ascii) : bool :=
  let n := Ascii.nat_of_ascii c in (48 <=? n) && (n <=? 57).
Definition us_char : ascii := Ascii.ascii_of_nat 95.
Definition plus_char : ascii := Ascii.ascii_of_nat 43.
Definition minus_char : ascii := Ascii.ascii_of_nat 45.
(* remove single underscores that stand between two digits; None if the digit string is malformed *)
Fixpoint strip_us (s : string) (prev_digit : bool) : option string :=
  match s with
  | EmptyString => if prev_digit then Some EmptyString else None
  | String c s' =>
      if is_digit_c c then option_map (String c) (strip_us s' true)
      else if Ascii.eqb c us_char then (if prev_digit then strip_us s' false else None)
      else None
  end.
Definition parse_unsigned (s : string) : option nat :=
  match strip_us s false with Some d => parse_nat d | None => None end.
Definition parse_int (s : string) : tokval :=
  match s with
  | String c r =>
      if Ascii.eqb c plus_char then match parse_unsigned r with Some n => TNat n | None => TBad end
      else if Ascii.eqb c minus_char then
        match parse_unsigned r with Some 0 => TNat 0 | Some _ => TNeg | None => TBad end
      else match parse_unsigned s with Some n => TNat n | None => TBad end
  | EmptyString => TBad
  end.

Definition line (s : string) : string := s ++ String nl_char EmptyString.
Definition bond_line (e : edge) : string := line (dec (fst e) ++ " " ++ dec (snd e)).
Definition concat_map {A} (f : A -> string) (l : list A) : string :=
  fold_right (fun x acc => f x ++ acc) EmptyString l.
(* print of the word fbonds; each forming bond as two integers separated by a blank; the word
   bbonds; each breaking bond; the word end.  One line each. *)
Definition save_one (br : rearr) : string :=
  line "fbonds" ++ concat_map bond_line (fst br) ++ line "bbonds" ++ concat_map bond_line (snd br) ++ line "end".
Definition save (brs : list rearr) : string := concat_map save_one brs.

(* `for line in file` (text mode, universal newlines): pieces between line breaks, a break being
   "\n", "\r" or "\r\n" (the break itself is white space for split() and irrelevant for `in`; a final
   empty piece is a line without any effect) *)
Definition cr_char : ascii := Ascii.ascii_of_nat 13.
Fixpoint split_nl_aux (s : string) (cur : string) : list string :=
  match s with
  | EmptyString => [cur]
  | String c s' =>
      if Ascii.eqb c nl_char then cur :: split_nl_aux s' EmptyString
      else if Ascii.eqb c cr_char then
        match s' with
        | String c2 s'' => if Ascii.eqb c2 nl_char then cur :: split_nl_aux s'' EmptyString
                           else cur :: split_nl_aux s' EmptyString
        | EmptyString => cur :: split_nl_aux s' EmptyString
        end
      else split_nl_aux s' (cur ++ String c EmptyString)
  end.
Definition split_nl (s : string) : list string := split_nl_aux s EmptyString.

Definition is_ws (c : ascii) : bool :=
  let n := Ascii.nat_of_ascii c in ((9 <=? n) && (n <=? 13)) || ((28 <=? n) && (n <=? 32)).
(* str.split() *)
Fixpoint tokens_aux (s : string) (cur : string) : list string :=
  match s with
  | EmptyString => match cur with EmptyString => [] | _ => [cur] end
  | String c s' =>
      if is_ws c then match cur with EmptyString => tokens_aux s' EmptyString
                                 | _ => cur :: tokens_aux s' EmptyString end
      else tokens_aux s' (cur ++ String c EmptyString)
  end.
Definition tokens (s : string) : list string := tokens_aux s EmptyString.

Fixpoint is_prefix (p s : string) : bool :=
  match p, s with
  | EmptyString, _ => true
  | String a p', String b s' => Ascii.eqb a b && is_prefix p' s'
  | _, _ => false
  end.
(* python `sub in line` *)
Fixpoint contains (p s : string) : bool :=
  is_prefix p s || match s with EmptyString => false | String _ s' => contains p s' end.

Record lstate := mkL { l_block : bool; l_fb : list edge; l_bb : list edge; l_out : list rearr }.
Inductive lerr := ValueErr     (* int() raised ValueError *)
               | NegIndex.    (* a negative integer was read: legal in Python, outside the model's nat indices *)
(* one iteration of the loop :196-218.  int() is applied to the two tokens in order *)
Definition load_step (st : lstate) (ln : string) : lstate + lerr :=
  let blk := if contains "fbonds" ln then true else l_block st in
  let blk := if contains "bbonds" ln then false else blk in
  let st1 : lstate + lerr :=
    match tokens ln with
    | [a; b] => match parse_int a, parse_int b with
                | TBad, _ => inr ValueErr
                | _, TBad => inr ValueErr
                | TNat i, TNat j =>
                    inl (if blk then mkL blk (l_fb st ++ [(i, j)]) (l_bb st) (l_out st)
                         else mkL blk (l_fb st) (l_bb st ++ [(i, j)]) (l_out st))
                | _, _ => inr NegIndex
                end
    | _ => inl (mkL blk (l_fb st) (l_bb st) (l_out st))
    end in
  match st1 with
  | inr e => inr e
  | inl s => if contains "end" ln
             then inl (mkL (l_block s) [] [] (l_out s ++ [(l_fb s, l_bb s)]))
             else inl s
  end.
Fixpoint load_lines (ls : list string) (st : lstate) : list rearr + lerr :=
  match ls with
  | [] => inl (l_out st)
  | ln :: rest => match load_step st ln with
                  | inr e => inr e
                  | inl st' => load_lines rest st'
                  end
  end.
Definition load (text : string) : list rearr + lerr :=
  load_lines (split_nl text) (mkL false [] [] []).

(* get_bond_rearrangs :36-37 : if a file {name}_bond_rearrangs.txt exists its content is returned
   without looking at reactant or product.  `cache` = the text of that file if present. *)
Definition get_bond_rearrangs_cached (cache : option string)
           (iso_b : graph -> graph -> bool) (mv : nat -> nat)
           (nl : rearr -> nat) (rings : rearr -> list nat) (skip : bool)
           (r p : graph) (n_atoms_p : nat) : outcome + lerr :=
  match cache with
  | Some text => match load text with inl l => inl (Ok l) | inr e => inr e end
  | None => inl (get_bond_rearrangs iso_b mv nl rings skip r p n_atoms_p)
  end.
