(* C01/LSim.v -- simulation between the parser state and the environment of the reference reader
   along the spelling of a chain. *)
From Coq Require Import List Ascii ZArith Bool Arith Lia Permutation.
From AV.C01 Require Import Base Model Spec LBasic LStep LAtom LBracket.
From AV.gen Require Import C01_Gen.
Import ListNotations.
Open Scope char_scope.
Open Scope nat_scope.

Definition key_of (l : nat) : Z := (Z.of_nat l - 1)%Z.

Definition open_rel (u : Z * ring) (o : nat * (nat * bsym)) : Prop :=
  fst u = key_of (fst o) /\ r_i (snd u) = fst (snd o) /\ r_ord (snd u) = bsym_order (snd (snd o)).

Record R (s : st) (e : env) : Prop := mkR {
  R_atoms : map erase_stereo (atoms s) = map pre_atom (e_atoms e);
  R_bonds : Permutation (bonds s) (e_bonds e);
  R_open : Forall2 open_rel (unclosed s) (e_open e) }.

Lemma R_length s e : R s e -> length (atoms s) = length (e_atoms e).
Proof. intros [A _ _]. apply (f_equal (@length atom)) in A. rewrite !map_length in A. exact A. Qed.

(* ------------------------------------------------------------------ ring labels *)
Definition ring_bonds (l : nat) (s : st) (p : nat) : list bond :=
  match lookup (key_of l) (unclosed s) with
  | Some rb =>
      bonds_insert (r_bidx rb)
        (mkBond (Nat.min (r_i rb) p) (Nat.max (r_i rb) p)
                (if ceqb (sym_of_order (r_ord rb)) "-" then order_of (bond_symbol s) else r_ord rb))
        (bonds s)
  | None => bonds s
  end.
Definition ring_unclosed (l : nat) (s : st) (p : nat) : list (Z * ring) :=
  match lookup (key_of l) (unclosed s) with
  | Some rb => remove_key (key_of l) (unclosed s)
  | None => unclosed s ++ [(key_of l, mkRing p (order_of (bond_symbol s)) (length (bonds s)))]
  end.

Lemma run_label l pct s p rest :
  skip s = 0 -> atoms s <> [] -> prev s = Some p -> l < 100 -> ring_guard s = false ->
  exists s', run s (spell_label l pct) rest = Next s' /\
    atoms s' = atoms s /\ bonds s' = ring_bonds l s p /\ unclosed s' = ring_unclosed l s p /\
    branch s' = branch s /\ prev s' = prev s /\ skip s' = 0 /\
    pcl s' /\ pc_is s' "(" = false /\ pc_is s' ")" = false.
Proof.
  intros Hs Ha Hp Hl Hg. unfold ring_guard in Hg. unfold spell_label.
  assert (Hlen : (length (atoms s) =? 0) = false) by (destruct (atoms s); [congruence | reflexivity]).
  assert (Hat : forall (X : Type) (x y : X), match atoms s with [] => x | _ :: _ => y end = y)
    by (intros; destruct (atoms s); [congruence | reflexivity]).
  destruct (pct || (10 <=? l)) eqn:Ep.
  - (* "%nn" *)
    set (d1 := digit_char (l / 10)). set (d2 := digit_char (l mod 10)).
    assert (H1 : l / 10 < 10) by (apply Nat.div_lt_upper_bound; lia).
    assert (H2 : l mod 10 < 10) by (apply Nat.mod_upper_bound; lia).
    assert (Ek : ring_idx "%" (d1 :: d2 :: rest) = Some (key_of l)).
    { cbn [ring_idx digit_val]. unfold d1, d2. rewrite (digit_val_char _ H1), (digit_val_char _ H2). unfold key_of.
      f_equal. f_equal. f_equal. rewrite (Nat.div_mod l 10) at 3 by lia. lia. }
    rewrite run_cons. change ([d1; d2] ++ rest) with (d1 :: d2 :: rest).
    assert (Estep : step s "%" (d1 :: d2 :: rest) =
       Next (match lookup (key_of l) (unclosed s) with
             | Some rb => set_bonds (ring_bonds l s p) (set_unclosed (ring_unclosed l s p) (set_skip 2 s))
             | None => set_unclosed (ring_unclosed l s p) (set_skip 2 s)
             end)).
    { unfold step. rewrite Hs. cbn [Nat.ltb Nat.leb].
      change (is_bond_char "%") with false. change (is_digit "%" || ceqb "%" "%") with true. cbn iota.
      rewrite Hlen, Hg, Ek. change (ceqb "%" "%") with true. cbn iota.
      cbn [unclosed set_skip prev atoms bonds]. rewrite Hp.
      unfold ring_bonds, ring_unclosed. destruct (lookup (key_of l) (unclosed s)) as [rb|]; [rewrite Hat|]; reflexivity. }
    rewrite Estep.
    set (s1 := match lookup (key_of l) (unclosed s) with
               | Some rb => set_bonds (ring_bonds l s p) (set_unclosed (ring_unclosed l s p) (set_skip 2 s))
               | None => set_unclosed (ring_unclosed l s p) (set_skip 2 s) end).
    cbv beta iota.
    assert (F : atoms s1 = atoms s /\ bonds s1 = ring_bonds l s p /\ unclosed s1 = ring_unclosed l s p /\
                branch s1 = branch s /\ prev s1 = prev s /\ skip s1 = 2).
    { unfold s1, ring_bonds. destruct (lookup (key_of l) (unclosed s)); repeat split. }
    clearbody s1. destruct F as [F1 [F2 [F3 [F4 [F5 F6]]]]].
    destruct (run_skip [d1; d2] (advance "%" s1) rest "0") as [s2 [E2 [[A2 [B2 [R2 [U2 P2]]]] [K2 C2]]]];
      [cbn; exact F6|].
    rewrite E2.
    exists s2. cbn in A2, B2, R2, U2, P2, C2.
    assert (D2 : forall (P : ascii -> Prop), P "0" -> P "1" -> P "2" -> P "3" -> P "4" -> P "5" -> P "6" -> P "7" ->
                 P "8" -> P "9" -> P d2) by (intros; apply digit_char_prop; assumption).
    repeat match goal with |- _ /\ _ => split end; try congruence.
    + unfold pcl. rewrite C2. apply D2; reflexivity.
    + unfold pc_is. rewrite C2. apply D2; reflexivity.
    + unfold pc_is. rewrite C2. apply D2; reflexivity.
  - (* one digit *)
    apply orb_false_iff in Ep. destruct Ep as [_ Ep]. apply Nat.leb_gt in Ep.
    set (d := digit_char l).
    assert (Dv : digit_val d = Some l) by (apply digit_val_char; exact Ep).
    assert (D : forall (P : ascii -> Prop), P "0" -> P "1" -> P "2" -> P "3" -> P "4" -> P "5" -> P "6" -> P "7" ->
                 P "8" -> P "9" -> P d) by (intros; apply digit_char_prop; assumption).
    cbn [run app].
    assert (Estep : step s d rest =
       Next (match lookup (key_of l) (unclosed s) with
             | Some rb => set_bonds (ring_bonds l s p) (set_unclosed (ring_unclosed l s p) s)
             | None => set_unclosed (ring_unclosed l s p) s
             end)).
    { unfold step. rewrite Hs. cbn [Nat.ltb Nat.leb].
      assert (B : is_bond_char d = false) by (apply D; reflexivity). rewrite B.
      unfold is_digit. rewrite Dv. cbn [orb]. rewrite Hlen, Hg.
      unfold ring_idx. rewrite Dv.
      assert (C : ceqb d "%" = false) by (apply D; reflexivity). rewrite C.
      fold (key_of l). rewrite Hp.
      unfold ring_bonds, ring_unclosed. destruct (lookup (key_of l) (unclosed s)) as [rb|]; [rewrite Hat|]; reflexivity. }
    rewrite Estep.
    set (s1 := match lookup (key_of l) (unclosed s) with
               | Some rb => set_bonds (ring_bonds l s p) (set_unclosed (ring_unclosed l s p) s)
               | None => set_unclosed (ring_unclosed l s p) s end).
    cbv beta iota.
    assert (F : atoms s1 = atoms s /\ bonds s1 = ring_bonds l s p /\ unclosed s1 = ring_unclosed l s p /\
                branch s1 = branch s /\ prev s1 = prev s /\ skip s1 = 0).
    { unfold s1, ring_bonds. destruct (lookup (key_of l) (unclosed s)); repeat split; assumption. }
    clearbody s1. destruct F as [F1 [F2 [F3 [F4 [F5 F6]]]]].
    exists (advance d s1). split; [reflexivity|]. cbn [atoms bonds unclosed branch prev skip advance].
    repeat match goal with |- _ /\ _ => split end; try congruence.
    + unfold pcl. cbn. apply D; reflexivity.
    + unfold pc_is. cbn. apply D; reflexivity.
    + unfold pc_is. cbn. apply D; reflexivity.
Qed.

(* ------------------------------------------------------------------ open labels on both sides *)
Lemma key_of_inj a b : key_of a = key_of b -> a = b.
Proof. unfold key_of. lia. Qed.
Lemma key_eqb a b : Z.eqb (key_of a) (key_of b) = (a =? b).
Proof.
  destruct (a =? b) eqn:E.
  - apply Nat.eqb_eq in E. subst. apply Z.eqb_refl.
  - apply Nat.eqb_neq in E. apply Z.eqb_neq. intros H. apply E. apply key_of_inj. exact H.
Qed.

Lemma lookup_rel U O l :
  Forall2 open_rel U O ->
  match open_lookup l O with
  | None => lookup (key_of l) U = None
  | Some (j, b0) => exists rb, lookup (key_of l) U = Some rb /\ r_i rb = j /\ r_ord rb = bsym_order b0
  end.
Proof.
  induction 1 as [|[k rb] [l' [j b0]] U O [H1 [H2 H3]] HF IH]; cbn; [reflexivity|].
  cbn in H1, H2, H3. subst k. rewrite key_eqb.
  destruct (l =? l'); [exists rb; auto | exact IH].
Qed.
Lemma remove_rel U O l :
  Forall2 open_rel U O -> Forall2 open_rel (remove_key (key_of l) U) (open_remove l O).
Proof.
  induction 1 as [|[k rb] [l' [j b0]] U O [H1 [H2 H3]] HF IH]; cbn; [constructor|].
  cbn in H1. subst k. rewrite key_eqb.
  destruct (l =? l'); [exact HF | constructor; [repeat split; assumption | exact IH]].
Qed.

Lemma existsb_perm {A} (f : A -> bool) l1 l2 : Permutation l1 l2 -> existsb f l1 = existsb f l2.
Proof.
  induction 1; cbn; try congruence.
  - destruct (f y), (f x); reflexivity.
Qed.

Lemma same_pair_bonded j i o x :
  same_pair (mkBond j i o) x = true ->
  ((b_i x =? j) && (b_j x =? i)) || ((b_i x =? i) && (b_j x =? j)) = true.
Proof.
  unfold same_pair. cbn. intros H. repeat rewrite andb_true_iff in H. destruct H as [[[A B] C] D].
  repeat rewrite orb_true_iff in *. repeat rewrite Nat.eqb_eq in *. repeat rewrite andb_true_iff.
  repeat rewrite Nat.eqb_eq. lia.
Qed.

Lemma ring_order_impl b0 b o :
  ring_order b0 b = Some o ->
  (if ceqb (sym_of_order (bsym_order b0)) "-" then bsym_order b else bsym_order b0) = o.
Proof. destruct b0, b; cbn; intros H; inversion H; reflexivity. Qed.

Lemma insert_perm k (b : bond) l : Permutation (firstn k l ++ b :: skipn k l) (l ++ [b]).
Proof.
  etransitivity; [apply Permutation_sym, Permutation_middle|].
  rewrite firstn_skipn. apply Permutation_cons_append.
Qed.

(* ------------------------------------------------------------------ one ring-bond reference *)
Definition lex_ok (s : st) : Prop := skip s = 0 /\ pcl s /\ pc_is s "(" = false /\ pc_is s ")" = false.

Lemma first_label_not_dangling l pct rest : follows_dangling (spell_label l pct ++ rest) = false.
Proof.
  unfold spell_label. destruct (pct || (10 <=? l)); cbn [app follows_dangling]; [reflexivity|].
  apply (digit_char_prop (fun c => mem_char c (bond_order_symbols ++ dangling_follow_chars) = false)); reflexivity.
Qed.

Lemma sim_rref i r s e e' rest :
  R s e -> Inv s -> lex_ok s -> prev s = Some i -> length (atoms s) = S i ->
  rref_ok r = true -> den_rref i r e = Some e' ->
  exists s', run s (spell_rref r) rest = Next s' /\ R s' e' /\ Inv s' /\ lex_ok s' /\
             prev s' = Some i /\ atoms s' = atoms s /\ branch s' = branch s.
Proof.
  intros HR HI [Hs [Hpc [Hpo Hpcl]]] Hp Hn Hok Hd. unfold spell_rref.
  assert (Ha : atoms s <> []) by (intros E; rewrite E in Hn; discriminate).
  rewrite run_app. rewrite run_bsym; [|exact Hs | exact Ha | apply first_label_not_dangling].
  set (s1 := after_bsym (rr_b r) s).
  destruct (after_bsym_core (rr_b r) s) as [A1 [B1 [Br1 [U1 P1]]]]. fold s1 in A1, B1, Br1, U1, P1.
  pose proof (after_bsym_order (rr_b r) s Hpc) as Ho. fold s1 in Ho.
  unfold rref_ok in Hok. apply Nat.ltb_lt in Hok.
  destruct (run_label (rr_lbl r) (rr_pct r) s1 i rest) as [s2 [E2 [A2 [B2 [U2 [Br2 [P2 [K2 [C2 [O2 Cl2]]]]]]]]]].
  { unfold s1. rewrite after_bsym_skip. exact Hs. } { rewrite A1. exact Ha. } { rewrite P1. exact Hp. } { exact Hok. }
  { apply after_bsym_guard; assumption. }
  rewrite E2. exists s2.
  assert (HI1 : Inv s1) by (apply (same_core_Inv s); [repeat split; assumption | exact HI]).
  pose proof (run_good s1 (spell_label (rr_lbl r) (rr_pct r)) rest HI1) as G. rewrite E2 in G. cbn in G.
  split; [reflexivity|].
  assert (Core : R s2 e').
  { destruct HR as [RA RB RO]. unfold den_rref in Hd.
    pose proof (lookup_rel _ _ (rr_lbl r) RO) as LR.
    unfold ring_bonds in B2. unfold ring_unclosed in U2. rewrite U1 in B2, U2.
    destruct (open_lookup (rr_lbl r) (e_open e)) as [[j b0]|].
    - destruct LR as [rb [EL [Ej Eo]]]. rewrite EL in B2, U2.
      destruct ((j =? i) || bonded j i (e_bonds e)) eqn:Eji; [discriminate|].
      apply orb_false_iff in Eji. destruct Eji as [Eji Ebd]. apply Nat.eqb_neq in Eji.
      destruct (ring_order b0 (rr_b r)) as [o|] eqn:Ero; [|discriminate]. inversion Hd; subst e'. clear Hd.
      (* the opening atom is an earlier atom *)
      destruct HI as [_ _ _ HU]. rewrite Forall_forall in HU.
      destruct (lookup_In _ _ _ EL) as [k' Hin]. pose proof (HU _ Hin) as Hlt. cbn in Hlt. rewrite Ej, Hn in Hlt.
      assert (Hji : j < i) by lia.
      rewrite Ej in B2. rewrite Nat.min_l, Nat.max_r in B2 by lia.
      rewrite Eo, Ho, (ring_order_impl _ _ _ Ero) in B2.
      assert (Hne : bond_exists (mkBond j i o) (bonds s1) = false).
      { rewrite B1. unfold bond_exists. rewrite (existsb_perm _ _ _ RB).
        apply not_true_is_false. intros H. apply existsb_exists in H. destruct H as [x [Hx Hsp]].
        apply same_pair_bonded in Hsp. unfold bonded in Ebd.
        assert (existsb (fun b => (b_i b =? j) && (b_j b =? i) || (b_i b =? i) && (b_j b =? j)) (e_bonds e) = true)
          by (apply existsb_exists; exists x; split; assumption).
        congruence. }
      unfold bonds_insert in B2. rewrite Hne in B2.
      assert (Hself : self_bond (mkBond j i o) = false) by (unfold self_bond; cbn; apply Nat.eqb_neq; lia).
      rewrite Hself in B2. cbn [orb] in B2.
      split; cbn [e_atoms e_bonds e_open].
      + rewrite A2, A1. exact RA.
      + rewrite B2. etransitivity; [apply insert_perm|]. rewrite B1. apply Permutation_app_tail. exact RB.
      + rewrite U2. apply remove_rel. exact RO.
    - rewrite LR in B2, U2. inversion Hd; subst e'. clear Hd.
      split; cbn [e_atoms e_bonds e_open].
      + rewrite A2, A1. exact RA.
      + rewrite B2, B1. exact RB.
      + rewrite U2. apply Forall2_app; [exact RO|]. constructor; [|constructor].
        repeat split; cbn. exact Ho. }
  split; [exact Core|]. split; [exact G|]. split; [repeat split; assumption|].
  split; [congruence|]. split; congruence.
Qed.

Lemma sim_rrefs i rs : forall s e e' rest,
  R s e -> Inv s -> lex_ok s -> prev s = Some i -> length (atoms s) = S i ->
  forallb rref_ok rs = true -> den_rrefs i rs e = Some e' ->
  exists s', run s (spell_rrefs rs) rest = Next s' /\ R s' e' /\ Inv s' /\ lex_ok s' /\
             prev s' = Some i /\ atoms s' = atoms s /\ branch s' = branch s.
Proof.
  induction rs as [|r rs IH]; intros s e e' rest HR HI HL Hp Hn Hok Hd.
  - cbn in Hd. inversion Hd; subst. exists s. cbn. split; [reflexivity|]. split; [exact HR|]. split; [exact HI|]. split; [exact HL|]. auto.
  - cbn [forallb] in Hok. apply andb_true_iff in Hok. destruct Hok as [Hr Hrs].
    cbn [den_rrefs] in Hd. destruct (den_rref i r e) as [e1|] eqn:E1; [|discriminate].
    unfold spell_rrefs. cbn [flat_map]. fold (spell_rrefs rs). rewrite run_app.
    destruct (sim_rref i r s e e1 (spell_rrefs rs ++ rest) HR HI HL Hp Hn Hr E1)
      as [s1 [Er [R1 [I1 [L1 [P1 [A1 B1]]]]]]].
    rewrite Er.
    destruct (IH s1 e1 e' rest R1 I1 L1 P1) as [s2 [Er2 [R2 [I2 [L2 [P2 [A2 B2]]]]]]]; auto.
    { rewrite A1. exact Hn. }
    exists s2. rewrite Er2. split; [reflexivity|]. split; [exact R2|]. split; [exact I2|]. split; [exact L2|].
    split; [exact P2|]. split; congruence.
Qed.
