(* C01/Lemmas.v -- the lemma development is split over
     LBasic   (running the parser over a prefix, state invariant, no foreign exception),
     LStep / LAtom / LBracket (what one token of a well-formed spelling does),
     LSim / LChain (simulation between parser state and the reference reader's environment),
     LMain    (the statement about Parser.parse; spelling choices, ring-label renaming, charge, parity),
     LReject / LReject2 (malformed classes that are rejected);
   this file re-exports them. *)
From AV.C01 Require Export LBasic LStep LAtom LBracket LSim LChain LMain LReject LReject2.
