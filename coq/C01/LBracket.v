(* C01/LBracket.v -- a well-formed bracket atom "[" symbol @* H? charge? class? "]" is read by
   Parser._parse_sq_bracket exactly as the reference reader reads it. *)
From Coq Require Import List Ascii ZArith Bool Arith Lia Permutation.
From AV.C01 Require Import Base Model Spec LBasic LStep LAtom.
From AV.gen Require Import C01_Gen.
Import ListNotations.
Open Scope char_scope.
Open Scope nat_scope.

(* characters that may follow the symbol inside a bracket *)
Definition tailc (c : ascii) : bool := mem_char c ["@"; "H"; "+"; "-"; ":"; "0"; "1"; "2"; "3"; "4"; "5"; "6"; "7"; "8"; "9"].
Definition is_lower (c : ascii) : bool := let n := nat_of_ascii c in (97 <=? n) && (n <=? 122).
Definition is_letter (c : ascii) : bool :=
  let n := nat_of_ascii c in ((65 <=? n) && (n <=? 90)) || ((97 <=? n) && (n <=? 122)).

Definition btail (b : bracket) : str :=
  repeat "@" (k_chir b) ++ spell_h (k_h b) ++ spell_c (k_c b) ++ spell_class (k_class b).

Lemma bracket_body_eq b : bracket_body b = k_sym b ++ btail b.
Proof. reflexivity. Qed.

(* ---- table facts ---- *)
Lemma elements_shape :
  forallb (fun e => match e with
                    | [x] => is_letter x
                    | [x; y] => is_letter x && is_lower y
                    | _ => false
                    end) (elements ++ aromatic_symbols) = true.
Proof. vm_compute. reflexivity. Qed.
Lemma elements_not_tail :
  forallb (fun e => str_eqb e ["H"] || existsb (fun c => negb (tailc c)) e) elements = true.
Proof. vm_compute. reflexivity. Qed.
Lemma aromatic_single : forallb (fun e => match e with [_] => true | _ => false end) aromatic_symbols = true.
Proof. vm_compute. reflexivity. Qed.

Lemma arom_syms_eq s : mem_str s arom_syms = mem_str s aromatic_symbols.
Proof. reflexivity. Qed.

(* the package's element list is the periodic table of Spec.v *)
Lemma periodic_eq : periodic = elements.
Proof. vm_compute. reflexivity. Qed.
Lemma sym_ok_unfold s : sym_ok s = mem_str s elements || mem_str s aromatic_symbols.
Proof. unfold sym_ok. rewrite periodic_eq, arom_syms_eq. reflexivity. Qed.

Lemma sym_ok_mem s : sym_ok s = true -> mem_str s (elements ++ aromatic_symbols) = true.
Proof.
  rewrite sym_ok_unfold. unfold mem_str. rewrite existsb_app. auto.
Qed.

(* ---- scanning functions skip what does not concern them ---- *)
Lemma nh_skip l1 l2 :
  forallb (fun c => negb (ceqb c "H")) l1 = true -> atomic_n_hydrogens (l1 ++ l2) = atomic_n_hydrogens l2.
Proof.
  induction l1 as [|c l1 IH]; cbn; [reflexivity|]. intros H. apply andb_true_iff in H. destruct H as [Hc Hl].
  destruct (ceqb c "H"); [discriminate|]. apply IH. exact Hl.
Qed.
Lemma charge_skip l1 l2 :
  forallb (fun c => negb (ceqb c "+" || ceqb c "-")) l1 = true -> atomic_charge (l1 ++ l2) = atomic_charge l2.
Proof.
  induction l1 as [|c l1 IH]; cbn; [reflexivity|]. intros H. apply andb_true_iff in H. destruct H as [Hc Hl].
  destruct (ceqb c "+" || ceqb c "-"); [discriminate|]. apply IH. exact Hl.
Qed.
Lemma after_first_skip x l1 l2 :
  forallb (fun c => negb (ceqb c x)) l1 = true -> after_first x (l1 ++ l2) = after_first x l2.
Proof.
  induction l1 as [|c l1 IH]; cbn; [reflexivity|]. intros H. apply andb_true_iff in H. destruct H as [Hc Hl].
  destruct (ceqb c x); [discriminate|]. apply IH. exact Hl.
Qed.
Lemma take_until_none x l : forallb (fun c => negb (ceqb c x)) l = true -> take_until x l = l.
Proof.
  induction l as [|c l IH]; cbn; [reflexivity|]. intros H. apply andb_true_iff in H. destruct H as [Hc Hl].
  destruct (ceqb c x); [discriminate|]. f_equal. apply IH. exact Hl.
Qed.

Lemma forallb_repeat {A} (P : A -> bool) x n : P x = true -> forallb P (repeat x n) = true.
Proof. intros H. induction n; cbn; [reflexivity | rewrite H; exact IHn]. Qed.
Lemma forallb_digits (P : ascii -> bool) ds :
  P "0" = true -> P "1" = true -> P "2" = true -> P "3" = true -> P "4" = true -> P "5" = true ->
  P "6" = true -> P "7" = true -> P "8" = true -> P "9" = true -> forallb P (map digit_char ds) = true.
Proof.
  intros. induction ds as [|d ds IH]; cbn; [reflexivity|]. rewrite IH, andb_true_r.
  apply (digit_char_prop (fun c => P c = true)); assumption.
Qed.

Ltac dcs := let d := fresh "d" in intros d; pattern (digit_char d); apply digit_char_prop; reflexivity.

(* pieces of the tail and the characters they contain *)
Lemma spell_h_P (P : ascii -> bool) h :
  P "H" = true -> (forall d, P (digit_char d) = true) -> forallb P (spell_h h) = true.
Proof. intros A B. destruct h; cbn; rewrite ?A, ?B; reflexivity. Qed.
Lemma spell_c_P (P : ascii -> bool) c :
  P "+" = true -> P "-" = true -> (forall d, P (digit_char d) = true) -> forallb P (spell_c c) = true.
Proof. intros A B C. destruct c as [|[]|[] d|[]]; cbn; rewrite ?A, ?B, ?C; reflexivity. Qed.
Lemma spell_class_P (P : ascii -> bool) k :
  P ":" = true -> (forall d, P (digit_char d) = true) -> forallb P (spell_class k) = true.
Proof.
  intros A B. destruct k as [ds|]; cbn; [|reflexivity]. rewrite A. cbn.
  induction ds; cbn; [reflexivity | rewrite B; assumption].
Qed.
Lemma dcP (P : ascii -> bool) :
  P "0" = true -> P "1" = true -> P "2" = true -> P "3" = true -> P "4" = true -> P "5" = true ->
  P "6" = true -> P "7" = true -> P "8" = true -> P "9" = true -> forall d, P (digit_char d) = true.
Proof. intros. apply (digit_char_prop (fun c => P c = true)); assumption. Qed.

Lemma btail_P (P : ascii -> bool) b :
  P "@" = true -> P "H" = true -> P "+" = true -> P "-" = true -> P ":" = true ->
  (forall d, P (digit_char d) = true) -> forallb P (btail b) = true.
Proof.
  intros. unfold btail. rewrite !forallb_app.
  rewrite forallb_repeat, spell_h_P, spell_c_P, spell_class_P; auto.
Qed.

(* ---- the four field extractors on a well-formed tail ---- *)
Lemma next_digit_cclass c k : next_is_digit (spell_c c ++ spell_class k) = None.
Proof. destruct c as [|[]|[] d|[]]; cbn; try reflexivity. destruct k; reflexivity. Qed.

Lemma nh_tail b : h_ok (k_h b) = true -> atomic_n_hydrogens (btail b) = h_value (k_h b).
Proof.
  intros Hh. unfold btail. rewrite nh_skip by (apply forallb_repeat; reflexivity).
  assert (N : atomic_n_hydrogens (spell_c (k_c b) ++ spell_class (k_class b)) = 0).
  { rewrite <- (app_nil_r (spell_c _ ++ spell_class _)). rewrite nh_skip; [reflexivity|].
    rewrite forallb_app, spell_c_P, spell_class_P; auto; dcs. }
  destruct (k_h b) as [| |d]; cbn [spell_h app h_value].
  - exact N.
  - cbn. rewrite next_digit_cclass. reflexivity.
  - cbn [h_ok] in Hh. unfold digit_ok in Hh. apply Nat.ltb_lt in Hh. cbn. rewrite (digit_val_char d Hh). reflexivity.
Qed.

Lemma charge_class k : atomic_charge (spell_class k) = 0%Z.
Proof.
  rewrite <- (app_nil_r (spell_class k)). rewrite charge_skip; [reflexivity|].
  apply spell_class_P; [reflexivity | dcs].
Qed.

Lemma charge_tail b : c_ok (k_c b) = true -> atomic_charge (btail b) = c_value (k_c b).
Proof.
  intros Hc. unfold btail. rewrite charge_skip by (apply forallb_repeat; reflexivity).
  rewrite charge_skip by (apply spell_h_P; [reflexivity | dcs]).
  destruct (k_c b) as [|p|p d|p]; cbn [spell_c app c_value].
  - apply charge_class.
  - destruct p; cbn; destruct (k_class b); reflexivity.
  - cbn [c_ok] in Hc. unfold digit_ok in Hc. apply Nat.ltb_lt in Hc.
    destruct p; cbn; rewrite (digit_val_char d Hc); reflexivity.
  - destruct p; reflexivity.
Qed.

Lemma stereo_tail b : atomic_stereo (btail b) = (0 <? k_chir b).
Proof.
  unfold atomic_stereo, btail. rewrite !mem_char_app.
  assert (A : forall l, forallb (fun c => negb (ceqb c "@")) l = true -> mem_char "@" l = false).
  { unfold mem_char. induction l as [|c l IH]; cbn [forallb existsb]; [reflexivity|]. intros H.
    apply andb_true_iff in H. destruct H as [Hc Hl].
    rewrite (IH Hl), orb_false_r. unfold ceqb in *. rewrite Ascii.eqb_sym. destruct (Ascii.eqb c "@"); [discriminate | reflexivity]. }
  rewrite (A (spell_h _)) by (apply spell_h_P; [reflexivity | dcs]).
  rewrite (A (spell_c _)) by (apply spell_c_P; [reflexivity | reflexivity | dcs]).
  rewrite (A (spell_class _)) by (apply spell_class_P; [reflexivity | dcs]).
  rewrite !orb_false_r. destruct (k_chir b); reflexivity.
Qed.

Lemma class_tail b : class_ok (k_class b) = true -> atomic_class (btail b) = Some (class_value (k_class b)).
Proof.
  intros Hk. unfold atomic_class, btail.
  rewrite after_first_skip by (apply forallb_repeat; reflexivity).
  rewrite after_first_skip by (apply spell_h_P; [reflexivity | dcs]).
  rewrite after_first_skip by (apply spell_c_P; [reflexivity | reflexivity | dcs]).
  destruct (k_class b) as [ds|]; cbn [spell_class after_first class_value]; [|reflexivity].
  cbn. rewrite take_until_none by (apply forallb_digits; reflexivity).
  cbn [class_ok] in Hk. repeat rewrite andb_true_iff in Hk. destruct Hk as [[Hne Hd] Hlen].
  apply Nat.leb_le in Hlen.
  rewrite map_length. rewrite (forallb_digits is_digit ds) by reflexivity.
  destruct (length ds =? 0) eqn:E0; [discriminate Hne|]. cbn [negb orb].
  rewrite py_int_digits; [reflexivity | | exact Hd | exact Hlen].
  destruct ds; [discriminate | discriminate].
Qed.

Lemma is_infix_chars e l : is_infix e l = true -> forall c, In c e -> In c l.
Proof.
  assert (P : forall e l, is_prefix e l = true -> forall c, In c e -> In c l).
  { induction e0 as [|x e0 IH]; intros l0 H c Hc; [contradiction|].
    destruct l0 as [|y l0]; [discriminate|]. cbn in H. apply andb_true_iff in H. destruct H as [Hx He].
    apply ceqb_eq in Hx. subst y. destruct Hc as [<-|Hc]; [left; reflexivity | right; eapply IH; eassumption]. }
  induction l as [|y l IH]; intros H c Hc; cbn [is_infix] in H.
  - rewrite orb_false_r in H. exact (P e [] H c Hc).
  - apply orb_true_iff in H. destruct H as [H|H]; [exact (P e _ H c Hc) | right; exact (IH H c Hc)].
Qed.

Lemma other_element_tail l : forallb tailc l = true -> has_other_element l = false.
Proof.
  intros Hl. unfold has_other_element. apply not_true_is_false. intros H.
  apply existsb_exists in H. destruct H as [e [He H]]. apply andb_true_iff in H. destruct H as [HH Hi].
  pose proof elements_not_tail as T. rewrite forallb_forall in T. specialize (T e He).
  apply orb_true_iff in T. destruct T as [T|T]; [rewrite T in HH; discriminate|].
  apply existsb_exists in T. destruct T as [c [Hc Hn]].
  pose proof (is_infix_chars _ _ Hi c Hc) as Hin. rewrite forallb_forall in Hl. rewrite (Hl c Hin) in Hn. discriminate.
Qed.

Lemma btail_tailc b : forallb tailc (btail b) = true.
Proof. apply btail_P; try reflexivity. dcs. Qed.

(* first character of a non-empty tail is not a lower-case letter *)
Lemma btail_head b x l : btail b = x :: l -> is_lower x = false.
Proof.
  intros E. pose proof (btail_P (fun c => negb (is_lower c)) b) as H. rewrite E in H.
  cbn in H. assert (negb (is_lower x) && forallb (fun c => negb (is_lower c)) l = true).
  { apply H; try reflexivity. dcs. }
  apply andb_true_iff in H0. destruct H0 as [H0 _]. destruct (is_lower x); [discriminate | reflexivity].
Qed.

(* ---- Parser._parse_sq_bracket on a well-formed body ---- *)
Lemma psb_tail label tl cl :
  has_other_element tl = false -> atomic_class tl = Some cl -> (tl = [] -> cl = None) ->
  (tl = [] -> atomic_stereo tl = false /\ atomic_n_hydrogens tl = 0 /\ atomic_charge tl = 0%Z) ->
  match tl with
  | [] => of_atom (smiles_atom label false (Some 0) 0%Z None)
  | _ => if has_other_element tl then BInvalid else
         match atomic_class tl with
         | None => BInvalid
         | Some cls => of_atom (smiles_atom label (atomic_stereo tl) (Some (atomic_n_hydrogens tl)) (atomic_charge tl) cls)
         end
  end = of_atom (smiles_atom label (atomic_stereo tl) (Some (atomic_n_hydrogens tl)) (atomic_charge tl) cl).
Proof.
  intros H1 H2 H3 H4. destruct tl as [|x tl].
  - rewrite (H3 eq_refl). destruct (H4 eq_refl) as [A [B C]]. rewrite A, B, C. reflexivity.
  - rewrite H1, H2. reflexivity.
Qed.

Lemma parse_sq_bracket_ok b :
  bracket_ok b = true ->
  exists a, parse_sq_bracket (bracket_body b) = BAtom a /\ erase_stereo a = pre_atom (Brk b) /\
            a_stereo a = (0 <? k_chir b).
Proof.
  intros Hok. unfold bracket_ok in Hok. repeat rewrite andb_true_iff in Hok.
  destruct Hok as [[[[Hs Hch] Hh] Hc] Hk].
  pose proof (sym_ok_mem _ Hs) as Hmem.
  pose proof (table_forall _ _ _ elements_shape Hmem) as Hshape. cbn beta in Hshape.
  assert (Hnp : mem_char "(" (bracket_body b) || mem_char ")" (bracket_body b) = false).
  { rewrite bracket_body_eq, !mem_char_app.
    assert (A : forall x, is_letter x = false -> tailc x = false ->
                mem_char x (k_sym b) = false /\ mem_char x (btail b) = false).
    { intros x Hx Ht. split.
      - apply not_true_is_false. intros H. apply mem_char_In in H.
        destruct (k_sym b) as [|y [|z [|w r]]]; try discriminate.
        + destruct H as [<-|[]]. congruence.
        + apply andb_true_iff in Hshape. destruct Hshape as [A B].
          destruct H as [<-|[<-|[]]]; [congruence|]. unfold is_letter in Hx. unfold is_lower in B.
          rewrite B in Hx. rewrite orb_true_r in Hx. discriminate.
      - apply not_true_is_false. intros H. apply mem_char_In in H.
        pose proof (btail_tailc b) as T. rewrite forallb_forall in T. rewrite (T _ H) in Ht. discriminate. }
    destruct (A "(" eq_refl eq_refl) as [A1 A2]. destruct (A ")" eq_refl eq_refl) as [A3 A4].
    rewrite A1, A2, A3, A4. reflexivity. }
  assert (Hcap : mem_str (capitalize (k_sym b)) elements = true).
  { rewrite sym_ok_unfold in Hs. apply orb_true_iff in Hs. destruct Hs as [Hs|Hs];
      [apply cap_of_element; exact Hs | apply cap_of_aromatic; exact Hs]. }
  pose proof (other_element_tail _ (btail_tailc b)) as Hoe.
  pose proof (class_tail b Hk) as Hcl.
  set (a := mkAtom (k_sym b) (atomic_charge (btail b)) (Some (atomic_n_hydrogens (btail b)))
                   (class_value (k_class b)) (atomic_stereo (btail b))).
  assert (Ha : erase_stereo a = pre_atom (Brk b) /\ a_stereo a = (0 <? k_chir b)).
  { unfold a, erase_stereo. cbn. rewrite (charge_tail b Hc), (nh_tail b Hh), (stereo_tail b). split; reflexivity. }
  assert (Hnil : btail b = [] -> class_value (k_class b) = None).
  { intros E. unfold btail in E. apply app_eq_nil in E. destruct E as [_ E]. apply app_eq_nil in E. destruct E as [_ E].
    apply app_eq_nil in E. destruct E as [_ E]. destruct (k_class b); [discriminate | reflexivity]. }
  assert (Hnil2 : btail b = [] -> atomic_stereo (btail b) = false /\ atomic_n_hydrogens (btail b) = 0 /\
                                  atomic_charge (btail b) = 0%Z).
  { intros E. rewrite E. repeat split. }
  exists a. split; [|exact Ha].
  unfold parse_sq_bracket. rewrite Hnp. rewrite bracket_body_eq.
  destruct (k_sym b) as [|c1 [|c2 [|c3 r]]] eqn:Esym; try discriminate.
  - (* one-letter symbol *)
    destruct (btail b) as [|t1 tl] eqn:Et.
    + cbn [app]. rewrite sym_ok_unfold in Hs.
      apply orb_true_iff in Hs. assert (E : negb (mem_str [c1] elements) && negb (mem_str [c1] aromatic_symbols) = false).
      { destruct Hs as [-> | ->]; cbn; [reflexivity | apply andb_false_r]. }
      rewrite E. unfold a. rewrite smiles_atom_some by exact Hcap.
      rewrite (Hnil eq_refl). reflexivity.
    + cbn [app].
      assert (E2 : mem_str [c1; t1] elements = false).
      { apply not_true_is_false. intros H.
        assert (H' : mem_str [c1; t1] (elements ++ aromatic_symbols) = true)
          by (apply mem_str_In; apply in_or_app; left; apply mem_str_In; exact H).
        pose proof (table_forall _ _ _ elements_shape H') as S2. cbn beta in S2.
        apply andb_true_iff in S2. destruct S2 as [_ S2]. rewrite (btail_head b t1 tl Et) in S2. discriminate. }
      rewrite E2. rewrite sym_ok_unfold in Hs. rewrite Hs.
      cbn iota beta. rewrite Hoe, Hcl.
      unfold a. rewrite smiles_atom_some by exact Hcap. reflexivity.
  - (* two-letter symbol: an element *)
    assert (E2 : mem_str [c1; c2] elements = true).
    { rewrite sym_ok_unfold in Hs. apply orb_true_iff in Hs. destruct Hs as [Hs|Hs]; [exact Hs|].
      pose proof (table_forall _ _ _ aromatic_single Hs) as S1. discriminate. }
    cbn [app]. rewrite E2.
    rewrite (psb_tail [c1; c2] (btail b) _ Hoe Hcl Hnil Hnil2).
    unfold a. rewrite smiles_atom_some by exact Hcap. reflexivity.
Qed.

(* ---- the bracket token ---- *)
Lemma bracket_section_body body rest :
  forallb (fun c => negb (ceqb c "]")) body = true -> bracket_section (body ++ "]" :: rest) = Some body.
Proof.
  induction body as [|c body IH]; cbn; [reflexivity|]. intros H. apply andb_true_iff in H. destruct H as [Hc Hb].
  destruct (ceqb c "]"); [discriminate|]. rewrite (IH Hb). reflexivity.
Qed.

Lemma body_no_close b : bracket_ok b = true -> forallb (fun c => negb (ceqb c "]")) (bracket_body b) = true.
Proof.
  intros Hok. unfold bracket_ok in Hok. repeat rewrite andb_true_iff in Hok.
  destruct Hok as [[[[Hs _] _] _] _].
  pose proof (table_forall _ _ _ elements_shape (sym_ok_mem _ Hs)) as Hshape. cbn beta in Hshape.
  rewrite bracket_body_eq, forallb_app. apply andb_true_iff. split.
  - assert (L : forall x, is_letter x = true -> negb (ceqb x "]") = true).
    { intros x Hx. destruct (ceqb x "]") eqn:E; [|reflexivity]. apply ceqb_eq in E. subst. discriminate. }
    destruct (k_sym b) as [|y [|z [|w r]]]; try discriminate; cbn.
    + rewrite (L y Hshape). reflexivity.
    + apply andb_true_iff in Hshape. destruct Hshape as [A B]. rewrite (L y A).
      assert (is_letter z = true) by (unfold is_letter; unfold is_lower in B; rewrite B; apply orb_true_r).
      rewrite (L z H). reflexivity.
  - apply btail_P; try reflexivity. dcs.
Qed.

Lemma run_bracket b s rest :
  Inv s -> skip s = 0 -> bracket_ok b = true ->
  exists s', run s (spell_atom (Brk b)) rest = Next s' /\ atom_post s s' (Brk b).
Proof.
  intros HI Hs Hok. cbn [spell_atom]. cbn [run app].
  destruct (parse_sq_bracket_ok b Hok) as [a [Ea [Eer Est]]].
  assert (Estep : step s "[" ((bracket_body b ++ ["]"]) ++ rest) =
                  bottom (set_skip (length (bracket_body b) + 1) (push_atom a s)) (bond_symbol s) "[" ((bracket_body b ++ ["]"]) ++ rest)).
  { unfold step. rewrite Hs. cbn [Nat.ltb Nat.leb].
    change (is_bond_char "[") with false. change (is_digit "[" || ceqb "[" "%") with false.
    change (ceqb "[" "[") with true. cbn iota.
    rewrite <- app_assoc. cbn [app]. rewrite (bracket_section_body _ _ (body_no_close b Hok)). rewrite Ea. reflexivity. }
  rewrite Estep.
  destruct (bottom_spec s a (length (bracket_body b) + 1) "[" ((bracket_body b ++ ["]"]) ++ rest) HI)
    as [s1 [E [M [L [B0 [B1 [K [Br [U [P [C I1]]]]]]]]]]].
  rewrite E.
  destruct (run_skip (bracket_body b ++ ["]"]) (advance "[" s1) rest "]") as [s2 [E2 [C2 [K2 P2]]]].
  { cbn. rewrite K, app_length. cbn. reflexivity. }
  rewrite E2. exists s2. destruct C2 as [A2 [Bo2 [Br2 [U2 Pv2]]]]. cbn in A2, Bo2, Br2, U2, Pv2.
  assert (Pc : prevc s2 = Some "]").
  { rewrite P2. destruct (bracket_body b ++ ["]"]) eqn:El; [destruct (bracket_body b); discriminate|].
    rewrite <- El. rewrite last_last. reflexivity. }
  split; [reflexivity|].
  unfold atom_post. rewrite A2, Bo2, Br2, U2, Pv2, M, Eer.
  repeat match goal with |- _ /\ _ => split end; auto.
  - unfold pcl. rewrite Pc. reflexivity.
  - unfold pc_is. rewrite Pc. reflexivity.
  - unfold pc_is. rewrite Pc. reflexivity.
  - apply (same_core_Inv (advance "[" s1)); [repeat split; assumption | apply Inv_advance; exact I1].
Qed.
