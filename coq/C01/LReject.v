(* C01/LReject.v -- malformed classes the parser rejects (with InvalidSmilesString). *)
From Coq Require Import List Ascii ZArith Bool Arith Lia Permutation.
From AV.C01 Require Import Base Model Spec LBasic.
From AV.gen Require Import C01_Gen.
Import ListNotations.
Open Scope char_scope.
Open Scope nat_scope.

Definition accepted (r : result) : Prop := exists a b, r = Ok a b.

Lemma not_accepted_invalid s : ~ accepted (parse s) -> parse s = Invalid.
Proof.
  intros H. pose proof (parse_no_crash s) as NC. destruct (parse s) as [a b| |]; [|reflexivity|congruence].
  exfalso. apply H. exists a, b. reflexivity.
Qed.

(* ------------------------------------------------------------------ strip *)
Lemma lstrip_In sp c l : In c l -> sp c = false -> In c (lstrip_by sp l).
Proof.
  induction l as [|x l IH]; cbn; [auto|]. intros [<-|H] Hc.
  - rewrite Hc. left. reflexivity.
  - destruct (sp x); [apply IH; assumption | right; exact H].
Qed.
Lemma strip_In c l : In c l -> is_space c = false -> In c (strip l).
Proof.
  intros H Hc. unfold strip, strip_by. apply in_rev. rewrite rev_involutive.
  apply lstrip_In; [|exact Hc]. apply -> in_rev. apply lstrip_In; assumption.
Qed.

(* "." and "*" anywhere *)
Lemma reject_invalid_chars_l s c : In c invalid_chars -> In c s -> parse s = Invalid.
Proof.
  intros Hc Hs. unfold parse.
  assert (Sp : is_space c = false).
  { revert Hc. cbn. intros H. repeat (destruct H as [<-|H]; [reflexivity|]). contradiction. }
  assert (E : existsb (fun x => mem_char x invalid_chars) (strip s) = true).
  { apply existsb_exists. exists c. split; [apply strip_In; assumption | apply mem_char_In; exact Hc]. }
  rewrite E. reflexivity.
Qed.

(* ------------------------------------------------------------------ the first character *)
Definition atom_start (c : ascii) : bool :=
  ceqb c "[" || mem_str [c] (organic_symbols ++ aromatic_symbols).

Lemma two_letter_first :
  forallb (fun e => match e with [x; _] => mem_str [x] (organic_symbols ++ aromatic_symbols) | _ => true end)
          two_letter_organic = true.
Proof. vm_compute. reflexivity. Qed.

Lemma reject_bad_start_l s c r : strip s = c :: r -> atom_start c = false -> parse s = Invalid.
Proof.
  intros Es Hc. unfold parse. rewrite Es. destruct (existsb _ (c :: r)); [reflexivity|].
  unfold atom_start in Hc. apply orb_false_iff in Hc. destruct Hc as [Hb Ho].
  cbn [go]. unfold step. cbn [skip init Nat.ltb Nat.leb atoms length Nat.eqb orb].
  destruct (is_bond_char c); [reflexivity|].
  destruct (is_digit c || ceqb c "%"); [reflexivity|].
  rewrite Hb. destruct (ceqb c "("); [reflexivity|].
  destruct (ceqb c ")"); [reflexivity|].
  assert (E2 : match r with d :: _ => mem_str [c; d] two_letter_organic | [] => false end = false).
  { destruct r as [|d r']; [reflexivity|]. apply not_true_is_false. intros H.
    pose proof (table_forall _ _ _ two_letter_first H) as T. cbn beta iota in T. congruence. }
  rewrite E2, Ho. reflexivity.
Qed.

(* ------------------------------------------------------------------ a step never stops with "Ok" *)
Lemma bottom_stop s bsym c rest r : bottom s bsym c rest = Stop r -> r = Crash.
Proof.
  unfold bottom, add_bond. destruct (length (atoms s) =? 1); [discriminate|].
  destruct (ceqb bsym "="); [|discriminate].
  unfold set_db_stereo. destruct (negb _); [discriminate|].
  destruct (last _ _); [|intros H; inversion H; reflexivity].
  destruct (if has_slash (c :: rest) then _ else _); [|intros H; inversion H; reflexivity].
  destruct (if slash_before _ then _ else _); [discriminate|intros H; inversion H; reflexivity].
Qed.

Lemma step_stop s c rest r : step s c rest = Stop r -> r = Invalid \/ r = Crash.
Proof.
  unfold step. destruct (0 <? skip s); [discriminate|].
  destruct (is_bond_char c). { destruct (_ || _); [intros H; inversion H; auto | discriminate]. }
  destruct (is_digit c || ceqb c "%").
  { destruct (length (atoms s) =? 0); [intros H; inversion H; auto|].
    destruct (pc_is s "(" || (pc_bond s && pc2_is s "(")); [intros H; inversion H; auto|].
    destruct (ring_idx c rest); [|intros H; inversion H; auto].
    destruct (lookup _ _).
    - destruct (prev _); [|intros H; inversion H; auto]. destruct (atoms _); [intros H; inversion H; auto | discriminate].
    - destruct (prev _); [discriminate | intros H; inversion H; auto]. }
  destruct (ceqb c "[").
  { destruct (bracket_section rest) as [sec|]; [|intros H; inversion H; auto].
    destruct (parse_sq_bracket sec); [|intros H; inversion H; auto|intros H; inversion H; auto].
    intros H. right. eapply bottom_stop. exact H. }
  destruct (ceqb c "(").
  { destruct (_ || _); [intros H; inversion H; auto|]. destruct (pc_is s ")"); [discriminate|].
    destruct (prev s); [discriminate | intros H; inversion H; auto]. }
  destruct (ceqb c ")").
  { destruct (branch s); [intros H; inversion H; auto|]. destruct (pc_is s "("); [intros H; inversion H; auto | discriminate]. }
  destruct (match rest with d :: _ => mem_str [c; d] two_letter_organic | [] => false end).
  { destruct rest; [intros H; inversion H; auto|].
    destruct (smiles_atom _ _ _ _ _); [|intros H; inversion H; auto]. intros H. right. eapply bottom_stop. exact H. }
  destruct (mem_str [c] _); [|intros H; inversion H; auto].
  destruct (smiles_atom _ _ _ _ _); [|intros H; inversion H; auto]. intros H. right. eapply bottom_stop. exact H.
Qed.

Lemma step_stop_not_accepted s c rest r : step s c rest = Stop r -> ~ accepted r.
Proof. intros H [a [b E]]. destruct (step_stop _ _ _ _ H); congruence. Qed.

(* ------------------------------------------------------------------ the characters that are skipped *)
Definition is_lower (c : ascii) : bool := let n := nat_of_ascii c in (97 <=? n) && (n <=? 122).
Definition intc (c : ascii) : bool :=
  is_digit c || is_space_c c || ceqb c "+" || ceqb c "-" || ceqb c "_".
Definition paren (c : ascii) : bool := ceqb c "(" || ceqb c ")".

(* the shape of the next `skip s` characters: nothing, the second letter of Cl/Br, (the rest of) the two
   characters after "%", or (the rest of) a bracket section with its closing "]" *)
Definition region_ok (reg : str) : Prop :=
  reg = [] \/
  (exists d, reg = [d] /\ is_lower d = true) \/
  (reg <> [] /\ Forall (fun c => intc c = true) reg /\ (is_digit (last reg " ") || is_space_c (last reg " ")) = true) \/
  (exists sec, reg = sec ++ ["]"] /\ Forall (fun c => paren c = false /\ c <> "]") sec).

Definition J (s : st) (l : str) : Prop := skip s <= length l /\ region_ok (firstn (skip s) l).

Lemma region_tail c reg : region_ok (c :: reg) -> region_ok reg.
Proof.
  intros [H|[[d [H Hd]]|[[Hne [Hf Hl]]|[sec [H Hs]]]]].
  - discriminate.
  - inversion H. left. reflexivity.
  - destruct reg as [|c' reg']; [left; reflexivity|]. right. right. left.
    split; [discriminate|]. split; [inversion Hf; assumption|]. exact Hl.
  - destruct sec as [|x sec]; cbn in H; inversion H; [left; reflexivity|].
    right. right. right. exists sec. split; [reflexivity|]. inversion Hs; assumption.
Qed.

Lemma region_head_not_paren c reg : region_ok (c :: reg) -> paren c = false.
Proof.
  intros [H|[[d [H Hd]]|[[Hne [Hf Hl]]|[sec [H Hs]]]]].
  - discriminate.
  - inversion H; subst. destruct (paren d) eqn:E; [|reflexivity]. unfold paren in E.
    apply orb_true_iff in E. destruct E as [E|E]; apply ceqb_eq in E; subst; discriminate.
  - inversion Hf as [|? ? Hc _]; subst. destruct (paren c) eqn:E; [|reflexivity]. unfold paren in E.
    apply orb_true_iff in E. destruct E as [E|E]; apply ceqb_eq in E; subst; discriminate.
  - destruct sec as [|x sec]; cbn in H; inversion H; subst; [reflexivity|]. inversion Hs as [|? ? [Hp _] _]. exact Hp.
Qed.

Lemma two_letter_second :
  forallb (fun e => match e with [_; y] => is_lower y | _ => false end) two_letter_organic = true.
Proof. vm_compute. reflexivity. Qed.

Lemma bracket_section_split rest sec :
  bracket_section rest = Some sec ->
  exists rest', rest = sec ++ "]" :: rest' /\ Forall (fun c => c <> "]") sec.
Proof.
  revert sec. induction rest as [|c rest IH]; intros sec; cbn; [discriminate|].
  destruct (ceqb c "]") eqn:E.
  - intros H. inversion H; subst. apply ceqb_eq in E. subst. exists rest. split; [reflexivity | constructor].
  - destruct (bracket_section rest) as [sec'|]; [|discriminate]. cbn. intros H. inversion H; subst.
    destruct (IH sec' eq_refl) as [rest' [E1 F]]. exists rest'. split; [cbn; rewrite <- E1; reflexivity|].
    constructor; [apply ceqb_neq; exact E | exact F].
Qed.

Lemma psb_no_paren sec : parse_sq_bracket sec <> BInvalid -> Forall (fun c => paren c = false) sec.
Proof.
  unfold parse_sq_bracket. destruct (mem_char "(" sec || mem_char ")" sec) eqn:E; [congruence|]. intros _.
  apply orb_false_iff in E. destruct E as [E1 E2]. apply Forall_forall. intros c Hc.
  unfold paren. apply orb_false_iff. split; apply ceqb_neq; intros ->.
  - apply mem_char_In in Hc. congruence.
  - apply mem_char_In in Hc. congruence.
Qed.

Lemma bottom_fields s bsym c rest s' :
  bottom s bsym c rest = Next s' -> branch s' = branch s /\ skip s' = skip s.
Proof.
  unfold bottom, add_bond. destruct (length (atoms s) =? 1); [intros H; inversion H; split; reflexivity|].
  destruct (ceqb bsym "="); [|intros H; inversion H; split; reflexivity].
  unfold set_db_stereo. destruct (negb _); [intros H; inversion H; split; reflexivity|].
  destruct (last _ _); [|discriminate].
  destruct (if has_slash (c :: rest) then _ else _); [|discriminate].
  destruct (if slash_before _ then _ else _); [|discriminate]. intros H; inversion H; split; reflexivity.
Qed.

(* one step keeps J; when nothing is being skipped it leaves the branch stack alone unless the character
   is a parenthesis *)
Lemma J_step s c l s' :
  J s (c :: l) -> step s c l = Next s' ->
  J (advance c s') l /\
  (paren c = false -> branch s' = branch s) /\
  (0 < skip s -> paren c = false).
Proof.
  intros [Hle Hreg] Hst. unfold step in Hst.
  destruct (0 <? skip s) eqn:Esk.
  { apply Nat.ltb_lt in Esk. inversion Hst; subst. clear Hst.
    destruct (skip s) as [|k] eqn:Ek; [lia|]. cbn [firstn] in Hreg.
    split; [|split].
    - unfold J. cbn [skip advance set_skip]. replace (S k - 1) with k by lia. cbn in Hle.
      split; [lia | eapply region_tail; exact Hreg].
    - reflexivity.
    - intros _. eapply region_head_not_paren. exact Hreg. }
  assert (Ek : skip s = 0) by (apply Nat.ltb_ge in Esk; lia).
  split; [|split; [|rewrite Ek; lia]].
  2:{ (* branch unchanged for non-parentheses *)
      intros Hp. unfold paren in Hp. apply orb_false_iff in Hp. destruct Hp as [Hp1 Hp2].
      destruct (is_bond_char c). { destruct (_ || _); inversion Hst; reflexivity. }
      destruct (is_digit c || ceqb c "%").
      { destruct (length (atoms s) =? 0); [discriminate|].
        destruct (pc_is s "(" || (pc_bond s && pc2_is s "(")); [discriminate|].
        destruct (ring_idx c l); [|discriminate].
        destruct (lookup _ _).
        - destruct (prev _); [|discriminate]. destruct (atoms _); [discriminate|]. inversion Hst. destruct (ceqb c "%"); reflexivity.
        - destruct (prev _); [|discriminate]. inversion Hst. destruct (ceqb c "%"); reflexivity. }
      destruct (ceqb c "[").
      { destruct (bracket_section l) as [sec|]; [|discriminate]. destruct (parse_sq_bracket sec); try discriminate.
        apply bottom_fields in Hst. apply Hst. }
      rewrite Hp1, Hp2 in Hst.
      destruct (match l with d :: _ => mem_str [c; d] two_letter_organic | [] => false end).
      { destruct l; [discriminate|]. destruct (smiles_atom _ _ _ _ _); [|discriminate].
        apply bottom_fields in Hst. apply Hst. }
      destruct (mem_str [c] _); [|discriminate]. destruct (smiles_atom _ _ _ _ _); [|discriminate].
      apply bottom_fields in Hst. apply Hst. }
  (* J for the next position *)
  unfold J. cbn [skip advance].
  assert (Z0 : forall s0, skip s0 = 0 -> skip s0 <= length l /\ region_ok (firstn (skip s0) l)).
  { intros s0 H0. rewrite H0. split; [lia | left; reflexivity]. }
  destruct (is_bond_char c). { destruct (_ || _); inversion Hst; subst. apply Z0. exact Ek. }
  destruct (is_digit c || ceqb c "%").
  { destruct (length (atoms s) =? 0); [discriminate|].
    destruct (pc_is s "(" || (pc_bond s && pc2_is s "(")); [discriminate|].
    destruct (ring_idx c l) as [k|] eqn:Er; [|discriminate].
    assert (Hs1 : forall s1, s1 = (if ceqb c "%" then set_skip 2 s else s) ->
                  skip s1 <= length l /\ region_ok (firstn (skip s1) l)).
    { intros s1 ->. destruct (ceqb c "%") eqn:Ec; [|apply Z0; exact Ek].
      apply ceqb_eq in Ec. subst c. cbn [ring_idx digit_val] in Er.
      destruct l as [|c1 [|c2 l2]]; try discriminate. cbn [skip set_skip length firstn].
      destruct (digit_val c1) as [d1|] eqn:D1; [|discriminate]. destruct (digit_val c2) as [d2|] eqn:D2; [|discriminate].
      assert (I1 : intc c1 = true) by (unfold intc, is_digit; rewrite D1; reflexivity).
      assert (I2 : intc c2 = true) by (unfold intc, is_digit; rewrite D2; reflexivity).
      split; [lia|]. right. right. left. split; [discriminate|]. split; [repeat constructor; assumption|].
      cbn [last]. unfold is_digit. rewrite D2. reflexivity. }
    destruct (lookup _ _).
    - destruct (prev _); [|discriminate]. destruct (atoms _); [discriminate|]. inversion Hst; subst. cbn [skip set_bonds set_unclosed].
      apply Hs1. reflexivity.
    - destruct (prev _); [|discriminate]. inversion Hst; subst. cbn [skip set_unclosed]. apply Hs1. reflexivity. }
  destruct (ceqb c "[").
  { destruct (bracket_section l) as [sec|] eqn:Eb; [|discriminate].
    destruct (parse_sq_bracket sec) as [a| |] eqn:Ep; try discriminate.
    apply bottom_fields in Hst. destruct Hst as [_ Hsk]. rewrite Hsk. cbn [skip set_skip].
    destruct (bracket_section_split _ _ Eb) as [rest' [El Hns]]. subst l.
    assert (Hnp : Forall (fun c => paren c = false) sec) by (apply psb_no_paren; congruence).
    split.
    - rewrite app_length. cbn. lia.
    - right. right. right. exists sec. split.
      + replace (length sec + 1) with (length (sec ++ ["]"])) by (rewrite app_length; reflexivity).
        change (sec ++ "]" :: rest') with (sec ++ ["]"] ++ rest'). rewrite app_assoc. rewrite firstn_app.
        rewrite Nat.sub_diag. cbn [firstn]. rewrite app_nil_r. apply firstn_all.
      + rewrite Forall_forall in *. intros x Hx. split; [apply Hnp; exact Hx | apply Hns; exact Hx]. }
  destruct (ceqb c "(").
  { destruct (_ || _); [discriminate|]. destruct (pc_is s ")"); [inversion Hst; subst; apply Z0; exact Ek|].
    destruct (prev s); [|discriminate]. inversion Hst; subst. apply Z0. exact Ek. }
  destruct (ceqb c ")").
  { destruct (branch s); [discriminate|]. destruct (pc_is s "("); [discriminate|].
    inversion Hst; subst. destruct (next_is l "("); apply Z0; exact Ek. }
  destruct (match l with d :: _ => mem_str [c; d] two_letter_organic | [] => false end) eqn:E2.
  { destruct l as [|d l']; [discriminate|]. destruct (smiles_atom _ _ _ _ _); [|discriminate].
    apply bottom_fields in Hst. destruct Hst as [_ Hsk]. rewrite Hsk. cbn [skip set_skip length firstn].
    split; [lia|]. right. left. exists d. split; [reflexivity|].
    exact (table_forall _ _ _ two_letter_second E2). }
  destruct (mem_str [c] _); [|discriminate]. destruct (smiles_atom _ _ _ _ _); [|discriminate].
  apply bottom_fields in Hst. destruct Hst as [_ Hsk]. rewrite Hsk. apply Z0. exact Ek.
Qed.

Lemma J_init l : J init l.
Proof. split; cbn; [lia | left; reflexivity]. Qed.

(* ------------------------------------------------------------------ a bond symbol at the very end *)
Lemma reject_trailing_bond_go x : is_bond_char x = true -> dangling_follow_end = true ->
  forall l s, J s (l ++ [x]) -> ~ accepted (go s (l ++ [x])).
Proof.
  intros Hx Hend. induction l as [|c l IH]; intros s HJ.
  - cbn [app go]. destruct (step s x []) as [s'|r] eqn:Es; [|eapply step_stop_not_accepted; exact Es].
    exfalso. destruct HJ as [Hle Hreg]. cbn in Hle. unfold step in Es.
    destruct (skip s) as [|k] eqn:Ek.
    + cbn [Nat.ltb Nat.leb] in Es. rewrite Hx in Es. cbn [follows_dangling] in Es. rewrite Hend, orb_true_r in Es. discriminate.
    + assert (k = 0) by lia. subst k. cbn [firstn] in Hreg.
      destruct Hreg as [H|[[d [H Hd]]|[[Hne [Hf Hl]]|[sec [H Hs]]]]].
      * discriminate.
      * inversion H; subst. clear - Hx Hd. destruct d as [[] [] [] [] [] [] [] []]; vm_compute in Hx, Hd; congruence.
      * cbn in Hl. clear - Hx Hl. destruct x as [[] [] [] [] [] [] [] []]; vm_compute in Hx, Hl; congruence.
      * destruct sec as [|y [|z sec]]; cbn in H; inversion H; subst; discriminate Hx.
  - cbn [app go]. destruct (step s c (l ++ [x])) as [s'|r] eqn:Es; [|eapply step_stop_not_accepted; exact Es].
    apply IH. eapply J_step; [exact HJ | exact Es].
Qed.

Lemma reject_trailing_bond_l s l x :
  strip s = l ++ [x] -> is_bond_char x = true -> parse s = Invalid.
Proof.
  intros Es Hx. apply not_accepted_invalid. unfold parse. rewrite Es.
  destruct (existsb _ _); [intros [a [b H]]; discriminate|].
  apply reject_trailing_bond_go; [exact Hx | reflexivity | apply J_init].
Qed.

(* ------------------------------------------------------------------ "[" without a later "]" *)
Lemma bracket_section_none b : ~ In "]" b -> bracket_section b = None.
Proof.
  induction b as [|c b IH]; cbn; [reflexivity|]. intros H.
  destruct (ceqb c "]") eqn:E; [apply ceqb_eq in E; subst; exfalso; apply H; left; reflexivity|].
  rewrite IH; [reflexivity | intros H1; apply H; right; exact H1].
Qed.

Lemma in_firstn {A} (x : A) n l : In x (firstn n l) -> In x l.
Proof.
  revert l. induction n as [|n IH]; intros l; [cbn; tauto|]. destruct l as [|y l]; [cbn; tauto|].
  cbn [firstn]. intros [H|H]; [left; exact H | right; apply IH; exact H].
Qed.

Lemma reject_open_bracket_go b : ~ In "]" b ->
  forall a s, J s (a ++ "[" :: b) -> ~ accepted (go s (a ++ "[" :: b)).
Proof.
  intros Hb. induction a as [|c a IH]; intros s HJ.
  - cbn [app go]. destruct (step s "[" b) as [s'|r] eqn:Es; [|eapply step_stop_not_accepted; exact Es].
    exfalso. destruct HJ as [Hle Hreg]. unfold step in Es.
    destruct (skip s) as [|k] eqn:Ek.
    + cbn [Nat.ltb Nat.leb] in Es. change (is_bond_char "[") with false in Es.
      change (is_digit "[" || ceqb "[" "%") with false in Es. change (ceqb "[" "[") with true in Es. cbn iota in Es.
      rewrite (bracket_section_none b Hb) in Es. discriminate.
    + cbn [app firstn] in Hreg.
      destruct Hreg as [H|[[d [H Hd]]|[[Hne [Hf Hl]]|[sec [H Hs]]]]].
      * discriminate.
      * inversion H; subst. discriminate Hd.
      * inversion Hf as [|? ? Hc _]. discriminate Hc.
      * destruct sec as [|y sec]; cbn in H; inversion H; subst.
        apply Hb. apply (in_firstn _ k). rewrite H2. apply in_or_app. right. left. reflexivity.
  - cbn [app go]. destruct (step s c (a ++ "[" :: b)) as [s'|r] eqn:Es; [|eapply step_stop_not_accepted; exact Es].
    apply IH. eapply J_step; [exact HJ | exact Es].
Qed.

Lemma lstrip_mid sp a x b : sp x = false -> exists a', lstrip_by sp (a ++ x :: b) = a' ++ x :: b.
Proof.
  intros Hx. induction a as [|c a IH]; cbn.
  - rewrite Hx. exists []. reflexivity.
  - destruct (sp c); [exact IH | exists (c :: a); reflexivity].
Qed.
Lemma lstrip_suffix sp l : exists p, l = p ++ lstrip_by sp l.
Proof.
  induction l as [|c l IH]; cbn; [exists []; reflexivity|].
  destruct (sp c); [destruct IH as [p Hp]; exists (c :: p); cbn; f_equal; exact Hp | exists []; reflexivity].
Qed.
Lemma strip_mid a x b : is_space x = false ->
  exists a1 b1, strip (a ++ x :: b) = a1 ++ x :: b1 /\ (forall y, In y b1 -> In y b).
Proof.
  intros Hx. unfold strip, strip_by.
  destruct (lstrip_mid is_space a x b Hx) as [a1 E1]. rewrite E1.
  rewrite rev_app_distr. cbn [rev]. rewrite <- app_assoc. cbn [app].
  destruct (lstrip_mid is_space (rev b) x (rev a1) Hx) as [b2 E2]. rewrite E2.
  rewrite rev_app_distr. cbn [rev]. rewrite rev_involutive, <- app_assoc. cbn [app].
  exists a1, (rev b2). split; [reflexivity|]. intros y Hy. apply in_rev in Hy.
  (* b2 is what is left of rev b *)
  destruct (lstrip_suffix is_space (rev b ++ x :: rev a1)) as [p Hp]. rewrite E2 in Hp.
  assert (Hin : In y (rev b ++ x :: rev a1)) by (rewrite Hp; apply in_or_app; right; apply in_or_app; left; exact Hy).
  (* lengths: b2 ++ x :: rev a1 is a suffix of rev b ++ x :: rev a1 of the same tail, so b2 is a suffix of rev b *)
  assert (Hb2 : exists q, rev b = q ++ b2).
  { exists p. apply (app_inv_tail (x :: rev a1)). rewrite <- app_assoc. exact Hp. }
  destruct Hb2 as [q Hq]. apply in_rev. rewrite Hq. apply in_or_app. right. exact Hy.
Qed.

Lemma reject_open_bracket_l a b : ~ In "]" b -> parse (a ++ "[" :: b) = Invalid.
Proof.
  intros Hb. apply not_accepted_invalid. unfold parse.
  destruct (strip_mid a "[" b eq_refl) as [a1 [b1 [E Hsub]]]. rewrite E.
  destruct (existsb _ _); [intros [x [y H]]; discriminate|].
  apply reject_open_bracket_go; [|apply J_init]. intros H. apply Hb. apply Hsub. exact H.
Qed.

(* ------------------------------------------------------------------ unbalanced parentheses *)
Definition cnt (x : ascii) (l : str) : Z := Z.of_nat (count_occ ascii_dec l x).
Definition adj (s : st) (l : str) : Z := if pc_is s ")" && next_is l "(" then 1%Z else 0%Z.
Definition phi (s : st) (l : str) : Z :=
  (Z.of_nat (length (branch s)) + cnt "(" l - cnt ")" l - adj s l)%Z.

Lemma cnt_cons x c l : cnt x (c :: l) = ((if ceqb c x then 1 else 0) + cnt x l)%Z.
Proof.
  unfold cnt. cbn [count_occ]. destruct (ascii_dec c x) as [->|N].
  - rewrite ceqb_refl. lia.
  - apply ceqb_neq in N. rewrite N. lia.
Qed.

Lemma phi_step s c l s' :
  J s (c :: l) -> step s c l = Next s' -> phi (advance c s') l = phi s (c :: l).
Proof.
  intros HJ Hst. destruct (J_step _ _ _ _ HJ Hst) as [_ [Hbr Hsk]].
  destruct (paren c) eqn:Ep.
  - (* a parenthesis that is not skipped *)
    assert (Ek : skip s = 0). { destruct (skip s) eqn:E; [reflexivity|]. assert (Hp : 0 < S n) by lia. specialize (Hsk Hp). discriminate Hsk. }
    unfold step in Hst. rewrite Ek in Hst. cbn [Nat.ltb Nat.leb] in Hst.
    unfold paren in Ep. apply orb_true_iff in Ep. destruct Ep as [Ep|Ep]; apply ceqb_eq in Ep; subst c.
    + change (is_bond_char "(") with false in Hst. change (is_digit "(" || ceqb "(" "%") with false in Hst.
      change (ceqb "(" "[") with false in Hst. change (ceqb "(" "(") with true in Hst. cbn iota in Hst.
      destruct (_ || _); [discriminate|]. unfold phi, adj. rewrite !cnt_cons.
      change (ceqb "(" "(") with true. change (ceqb "(" ")") with false.
      change (pc_is (advance "(" s') ")") with false. cbn [andb next_is].
      change (ceqb "(" "(") with true. rewrite andb_true_r.
      destruct (pc_is s ")"); [inversion Hst; subst; cbn [branch advance set_branch length]; lia|].
      destruct (prev s); [|discriminate]. inversion Hst; subst; cbn [branch advance set_branch length]; lia.
    + change (is_bond_char ")") with false in Hst. change (is_digit ")" || ceqb ")" "%") with false in Hst.
      change (ceqb ")" "[") with false in Hst. change (ceqb ")" "(") with false in Hst.
      change (ceqb ")" ")") with true in Hst. cbn iota in Hst.
      destruct (branch s) as [|b bs] eqn:Eb; [discriminate|]. destruct (pc_is s "("); [discriminate|].
      unfold phi, adj. rewrite !cnt_cons. change (ceqb ")" "(") with false. change (ceqb ")" ")") with true.
      change (pc_is (advance ")" s') ")") with true. cbn [andb next_is]. change (ceqb ")" "(") with false. rewrite andb_false_r.
      inversion Hst; subst. destruct (next_is l "("); cbn [branch advance set_prev set_branch length]; rewrite ?Eb; cbn [length]; lia.
  - unfold phi, adj. rewrite !cnt_cons. unfold paren in Ep. apply orb_false_iff in Ep. destruct Ep as [E1 E2].
    rewrite E1, E2. cbn [branch advance]. rewrite (Hbr eq_refl).
    assert (A1 : pc_is (advance c s') ")" = false) by (unfold pc_is; cbn; exact E2).
    rewrite A1. cbn [next_is]. rewrite E1, andb_false_r. cbn [andb]. lia.
Qed.

Lemma accepted_phi l : forall s, J s l -> accepted (go s l) -> phi s l = 0%Z.
Proof.
  induction l as [|c l IH]; intros s HJ Hacc.
  - cbn [go] in Hacc. unfold finish in Hacc. destruct Hacc as [a [b H]].
    destruct (unclosed s); [|discriminate]. destruct (branch s) eqn:Eb; [|discriminate].
    unfold phi, adj. rewrite Eb. cbn. rewrite andb_false_r. reflexivity.
  - cbn [go] in Hacc. destruct (step s c l) as [s'|r] eqn:Es.
    + rewrite <- (phi_step _ _ _ _ HJ Es). apply IH; [|exact Hacc]. eapply J_step; [exact HJ | exact Es].
    + exfalso. eapply step_stop_not_accepted; [exact Es | exact Hacc].
Qed.

Lemma count_lstrip x l : is_space x = false ->
  count_occ ascii_dec (lstrip_by is_space l) x = count_occ ascii_dec l x.
Proof.
  intros Hx. induction l as [|c l IH]; cbn; [reflexivity|].
  destruct (is_space c) eqn:E; [|reflexivity]. rewrite IH. destruct (ascii_dec c x); [subst; congruence | reflexivity].
Qed.
Lemma count_rev x (l : str) : count_occ ascii_dec (rev l) x = count_occ ascii_dec l x.
Proof. apply Permutation_count_occ. apply Permutation_sym, Permutation_rev. Qed.
Lemma count_strip x l : is_space x = false -> count_occ ascii_dec (strip l) x = count_occ ascii_dec l x.
Proof.
  intros Hx. unfold strip, strip_by. rewrite count_rev, count_lstrip, count_rev, count_lstrip by exact Hx. reflexivity.
Qed.

Lemma reject_unbalanced_parens_l s :
  count_occ ascii_dec s "(" <> count_occ ascii_dec s ")" -> parse s = Invalid.
Proof.
  intros Hne. apply not_accepted_invalid. intros Hacc. unfold parse in Hacc.
  destruct (existsb _ _); [destruct Hacc as [a [b H]]; discriminate|].
  pose proof (accepted_phi (strip s) init (J_init _) Hacc) as P.
  unfold phi, adj, cnt in P. cbn [branch init length pc_is prevc andb] in P.
  rewrite !count_strip in P by reflexivity. lia.
Qed.

(* ------------------------------------------------------------------ reaching a position of an accepted string *)
Lemma reach a : forall s rest, J s (a ++ rest) -> accepted (go s (a ++ rest)) ->
  exists s', J s' rest /\ accepted (go s' rest) /\
             prevc s' = match a with [] => prevc s | _ => Some (last a " ") end.
Proof.
  induction a as [|c a IH]; intros s rest HJ Hacc.
  - exists s. auto.
  - cbn [app go] in Hacc. destruct (step s c (a ++ rest)) as [s1|r] eqn:Es;
      [|exfalso; eapply step_stop_not_accepted; [exact Es | exact Hacc]].
    destruct (J_step _ _ _ _ HJ Es) as [HJ1 _].
    destruct (IH (advance c s1) rest HJ1 Hacc) as [s' [A [B C]]].
    exists s'. split; [exact A|]. split; [exact B|]. rewrite C. destruct a; reflexivity.
Qed.

Lemma J_paren_skip s x l : J s (x :: l) -> paren x = true -> skip s = 0.
Proof.
  intros [_ Hreg] Hp. destruct (skip s) as [|k]; [reflexivity|]. cbn [firstn] in Hreg.
  rewrite (region_head_not_paren _ _ Hreg) in Hp. discriminate.
Qed.

(* "()" and "((" : an empty branch, a branch without a parent atom -- anywhere *)
Lemma reject_open_then_paren_go a y b : paren y = true ->
  forall s, J s (a ++ "(" :: y :: b) -> ~ accepted (go s (a ++ "(" :: y :: b)).
Proof.
  intros Hy s HJ Hacc. destruct (reach a s _ HJ Hacc) as [s' [HJ' [Hacc' _]]].
  pose proof (J_paren_skip _ _ _ HJ' eq_refl) as K.
  cbn [go] in Hacc'. destruct (step s' "(" (y :: b)) as [s1|r] eqn:Es;
    [|eapply step_stop_not_accepted; [exact Es | exact Hacc']].
  destruct (J_step _ _ _ _ HJ' Es) as [HJ1 _].
  pose proof (J_paren_skip _ _ _ HJ1 Hy) as K1.
  cbn [go] in Hacc'. destruct (step (advance "(" s1) y b) as [s2|r] eqn:Es2;
    [|eapply step_stop_not_accepted; [exact Es2 | exact Hacc']].
  unfold step in Es2. rewrite K1 in Es2. cbn [Nat.ltb Nat.leb] in Es2.
  unfold paren in Hy. apply orb_true_iff in Hy. destruct Hy as [Hy|Hy]; apply ceqb_eq in Hy; subst y.
  - change (is_bond_char "(") with false in Es2. change (is_digit "(" || ceqb "(" "%") with false in Es2.
    change (ceqb "(" "[") with false in Es2. change (ceqb "(" "(") with true in Es2. cbn iota in Es2.
    change (pc_is (advance "(" s1) "(") with true in Es2. rewrite orb_true_r in Es2. discriminate.
  - change (is_bond_char ")") with false in Es2. change (is_digit ")" || ceqb ")" "%") with false in Es2.
    change (ceqb ")" "[") with false in Es2. change (ceqb ")" "(") with false in Es2.
    change (ceqb ")" ")") with true in Es2. cbn iota in Es2.
    change (pc_is (advance "(" s1) "(") with true in Es2. destruct (branch (advance "(" s1)); discriminate.
Qed.

Lemma reject_open_then_paren_l s a y b :
  strip s = a ++ "(" :: y :: b -> paren y = true -> parse s = Invalid.
Proof.
  intros Es Hy. apply not_accepted_invalid. unfold parse. rewrite Es.
  destruct (existsb _ _); [intros [u [v H]]; discriminate|].
  apply reject_open_then_paren_go; [exact Hy | apply J_init].
Qed.
