(* C01/Base.v -- data types shared by the parser model (Model.v) and the independent reference
   reader (Spec.v), and the character-level helpers both are written with.  No logic of the
   parser lives here. *)
From Coq Require Import List Ascii String ZArith Bool Arith Lia.
Import ListNotations.
Open Scope char_scope.

Definition str := list ascii.

Definition ceqb (a b : ascii) : bool := Ascii.eqb a b.

Fixpoint str_eqb (a b : str) : bool :=
  match a, b with
  | [], [] => true
  | x :: a', y :: b' => ceqb x y && str_eqb a' b'
  | _, _ => false
  end.

Definition mem_char (c : ascii) (l : list ascii) : bool := existsb (ceqb c) l.
Definition mem_str (s : str) (l : list str) : bool := existsb (str_eqb s) l.

(* a heavy atom as observed on Parser.atoms: smiles_label, charge, n_hydrogens, atom_class and
   whether a stereo mark is attached (stereochem is not SMILESStereoChem.NONE) *)
Record atom := mkAtom {
  a_label : str; a_charge : Z; a_nh : option nat; a_class : option Z; a_stereo : bool }.

(* a bond as observed on Parser.bonds: the index pair in the order SMILESBond._list stores it, and
   the order *)
Record bond := mkBond { b_i : nat; b_j : nat; b_ord : nat }.

(* comparison "up to stereo marks" *)
Definition erase_stereo (a : atom) : atom :=
  mkAtom (a_label a) (a_charge a) (a_nh a) (a_class a) false.

Inductive result :=
| Ok (atoms : list atom) (bonds : list bond)
| Invalid          (* autode.exceptions.InvalidSmilesString *)
| Crash.           (* any other exception *)

(* ---- characters ---- *)
Definition digit_val (c : ascii) : option nat :=
  match c with
  | "0" => Some 0 | "1" => Some 1 | "2" => Some 2 | "3" => Some 3 | "4" => Some 4
  | "5" => Some 5 | "6" => Some 6 | "7" => Some 7 | "8" => Some 8 | "9" => Some 9
  | _ => None
  end%nat.
Definition is_digit (c : ascii) : bool := match digit_val c with Some _ => true | None => false end.

(* the characters Parser.smiles strips: string.strip(" \t\n\r\x0b\x0c")  (parser.py:98) *)
Definition is_space (c : ascii) : bool :=
  let n := nat_of_ascii c in ((9 <=? n) && (n <=? 13) || (n =? 32))%nat.

(* the characters int() skips around a number (C isspace): \t \n \v \f \r and the blank *)
Definition is_space_c (c : ascii) : bool :=
  let n := nat_of_ascii c in ((9 <=? n) && (n <=? 13) || (n =? 32))%nat.

Fixpoint lstrip_by (sp : ascii -> bool) (s : str) : str :=
  match s with
  | [] => []
  | c :: r => if sp c then lstrip_by sp r else s
  end.
Definition strip_by (sp : ascii -> bool) (s : str) : str := rev (lstrip_by sp (rev (lstrip_by sp s))).
(* str.strip() *)
Definition strip (s : str) : str := strip_by is_space s.

Definition upper (c : ascii) : ascii :=
  let n := nat_of_ascii c in if ((97 <=? n) && (n <=? 122))%nat then ascii_of_nat (n - 32) else c.
Definition lower (c : ascii) : ascii :=
  let n := nat_of_ascii c in if ((65 <=? n) && (n <=? 90))%nat then ascii_of_nat (n + 32) else c.
(* str.capitalize() on ASCII *)
Definition capitalize (s : str) : str :=
  match s with [] => [] | c :: r => upper c :: map lower r end.

(* int(s) of Python on an ASCII string: surrounding whitespace, an optional sign, then decimal
   digits in which single underscores may separate digits.  None = ValueError *)
Fixpoint int_body (l : str) (acc : Z) (last_us : bool) : option Z :=
  match l with
  | [] => if last_us then None else Some acc
  | c :: r =>
      match digit_val c with
      | Some d => int_body r (10 * acc + Z.of_nat d)%Z false
      | None => if ceqb c "_" && negb last_us then int_body r acc true else None
      end
  end.
(* int() refuses numerals of more than sys.get_int_max_str_digits() = 4300 digits (ValueError) *)
Definition max_str_digits : nat := 4300.
Definition count_digits (s : str) : nat := List.length (filter is_digit s).
Definition py_int (s : str) : option Z :=
  if (max_str_digits <? count_digits s)%nat then None else
  match strip_by is_space_c s with
  | [] => None
  | c :: r =>
      let sb := if ceqb c "+" then (1%Z, r) else if ceqb c "-" then ((-1)%Z, r) else (1%Z, c :: r) in
      match snd sb with
      | [] => None
      | d :: r' =>
          match digit_val d with
          | None => None
          | Some v => option_map (Z.mul (fst sb)) (int_body r' (Z.of_nat v) false)
          end
      end
  end.

Fixpoint is_prefix (p l : str) : bool :=
  match p, l with
  | [], _ => true
  | x :: p', y :: l' => ceqb x y && is_prefix p' l'
  | _ :: _, [] => false
  end.
(* Python  p in l  for strings *)
Fixpoint is_infix (p l : str) : bool :=
  is_prefix p l || match l with [] => false | _ :: l' => is_infix p l' end.

Fixpoint index_of (c : ascii) (l : list ascii) : nat :=
  match l with [] => 0 | x :: r => if ceqb c x then 0 else S (index_of c r) end.

Fixpoint assoc_str {A} (k : str) (l : list (str * A)) : option A :=
  match l with [] => None | (k', v) :: r => if str_eqb k k' then Some v else assoc_str k r end.

Fixpoint index_str (k : str) (l : list str) : nat :=
  match l with [] => 0 | x :: r => if str_eqb k x then 0 else S (index_str k r) end.
