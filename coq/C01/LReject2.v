(* C01/LReject2.v -- rejection of unknown characters and of unclosed ring labels, for strings that
   contain neither "[" nor "%" (inside a bracket the parser ignores what it does not understand, and
   "%" reads its two characters with int(): both are reported as findings, not as theorems). *)
From Coq Require Import List Ascii ZArith Bool Arith Lia Permutation.
From AV.C01 Require Import Base Model Spec LBasic LReject.
From AV.gen Require Import C01_Gen.
Import ListNotations.
Open Scope char_scope.
Open Scope nat_scope.

Definition plain (l : str) : Prop := ~ In "[" l /\ ~ In "%" l.

Definition second_letter (d : ascii) : bool :=
  existsb (fun e => match e with [_; y] => ceqb d y | _ => false end) two_letter_organic.

(* the only characters ever skipped in a plain string are the second letters of Cl / Br *)
Definition J2 (s : st) (l : str) : Prop :=
  skip s = 0 \/ (skip s = 1 /\ exists d l', l = d :: l' /\ second_letter d = true).

Lemma plain_tail c l : plain (c :: l) -> plain l /\ c <> "[" /\ c <> "%".
Proof.
  intros [A B]. repeat split.
  - intros H; apply A; right; exact H.
  - intros H; apply B; right; exact H.
  - intros ->; apply A; left; reflexivity.
  - intros ->; apply B; left; reflexivity.
Qed.

Lemma two_letter_second_letter c d : mem_str [c; d] two_letter_organic = true -> second_letter d = true.
Proof.
  intros H. apply mem_str_In in H. unfold second_letter. apply existsb_exists.
  exists [c; d]. split; [exact H | apply ceqb_refl].
Qed.

Lemma second_letter_facts d :
  second_letter d = true -> is_digit d = false /\ paren d = false /\ is_bond_char d = false.
Proof. destruct d as [[] [] [] [] [] [] [] []]; vm_compute; intros H; try discriminate H; repeat split. Qed.

(* one step on a plain string *)
Lemma J2_step s c l s' :
  J2 s (c :: l) -> c <> "[" -> c <> "%" -> step s c l = Next s' ->
  J2 (advance c s') l /\
  ((0 < skip s \/ is_digit c = false) -> unclosed s' = unclosed s).
Proof.
  intros HJ Hb Hp Hst. unfold step in Hst.
  apply ceqb_neq in Hb, Hp.
  destruct HJ as [Ek | [Ek [d [l' [El Hd]]]]].
  - rewrite Ek in Hst. cbn [Nat.ltb Nat.leb] in Hst.
    destruct (is_bond_char c). { destruct (_ || _); inversion Hst; subst. split; [left; exact Ek | reflexivity]. }
    rewrite Hp, orb_false_r in Hst.
    destruct (is_digit c) eqn:Ed.
    { destruct (length (atoms s) =? 0); [discriminate|].
      destruct (pc_is s "(" || (pc_bond s && pc2_is s "(")); [discriminate|].
      destruct (ring_idx c l); [|discriminate].
      destruct (lookup _ _).
      - destruct (prev _); [|discriminate]. destruct (atoms _); [discriminate|]. inversion Hst; subst.
        split; [left; exact Ek | intros [H|H]; [lia | discriminate]].
      - destruct (prev _); [|discriminate]. inversion Hst; subst.
        split; [left; exact Ek | intros [H|H]; [lia | discriminate]]. }
    rewrite Hb in Hst.
    destruct (ceqb c "(").
    { destruct (_ || _); [discriminate|]. destruct (pc_is s ")"); [inversion Hst; subst; (split; [left; exact Ek | reflexivity])|].
      destruct (prev s); [|discriminate]. inversion Hst; subst. split; [left; exact Ek | reflexivity]. }
    destruct (ceqb c ")").
    { destruct (branch s); [discriminate|]. destruct (pc_is s "("); [discriminate|]. inversion Hst; subst.
      destruct (next_is l "("); (split; [left; exact Ek | reflexivity]). }
    assert (Bot : forall s0 bsym, bottom s0 bsym c l = Next s' -> skip s' = skip s0 /\ unclosed s' = unclosed s0).
    { intros s0 bsym H. split; [apply (bottom_fields _ _ _ _ _ H)|].
      unfold bottom, add_bond in H. destruct (length (atoms s0) =? 1); [inversion H; reflexivity|].
      destruct (ceqb bsym "="); [|inversion H; reflexivity].
      unfold set_db_stereo in H. destruct (negb _); [inversion H; reflexivity|].
      destruct (last _ _); [|discriminate]. destruct (if has_slash (c :: l) then _ else _); [|discriminate].
      destruct (if slash_before _ then _ else _); [|discriminate]. inversion H; reflexivity. }
    destruct (match l with d :: _ => mem_str [c; d] two_letter_organic | [] => false end) eqn:E2.
    { destruct l as [|d l']; [discriminate|]. destruct (smiles_atom _ _ _ _ _); [|discriminate].
      destruct (Bot _ _ Hst) as [K U]. split; [|intros _; exact U].
      right. split; [cbn [skip advance]; rewrite K; reflexivity|]. exists d, l'. split; [reflexivity|]. eapply two_letter_second_letter. exact E2. }
    destruct (mem_str [c] _); [|discriminate]. destruct (smiles_atom _ _ _ _ _); [|discriminate].
    destruct (Bot _ _ Hst) as [K U]. split; [left; cbn [skip advance]; rewrite K; cbn; exact Ek | intros _; exact U].
  - rewrite Ek in Hst. cbn [Nat.ltb Nat.leb] in Hst. inversion Hst; subst. split; [left; reflexivity | reflexivity].
Qed.

(* ------------------------------------------------------------------ unknown characters *)
Definition known (c : ascii) : bool :=
  is_bond_char c || is_digit c || paren c || mem_str [c] (organic_symbols ++ aromatic_symbols) || second_letter c.

Lemma reject_unknown_go x : known x = false ->
  forall a b s, plain (a ++ x :: b) -> J2 s (a ++ x :: b) -> ~ accepted (go s (a ++ x :: b)).
Proof.
  intros Hx. unfold known in Hx. repeat rewrite orb_false_iff in Hx. destruct Hx as [[[[X1 X2] X3] X4] X5].
  induction a as [|c a IH]; intros b s Hpl HJ.
  - cbn [app go]. destruct (step s x b) as [s'|r] eqn:Es; [|eapply step_stop_not_accepted; exact Es].
    exfalso. destruct (plain_tail _ _ Hpl) as [_ [N1 N2]]. apply ceqb_neq in N1, N2.
    destruct HJ as [Ek | [Ek [d [l' [El Hd]]]]].
    + unfold step in Es. rewrite Ek in Es. cbn [Nat.ltb Nat.leb] in Es. rewrite X1, X2, N2, N1 in Es. cbn [orb] in Es.
      unfold paren in X3. apply orb_false_iff in X3. destruct X3 as [P1 P2]. rewrite P1, P2 in Es.
      assert (E2 : match b with d :: _ => mem_str [x; d] two_letter_organic | [] => false end = false).
      { destruct b as [|d b']; [reflexivity|]. apply not_true_is_false. intros H.
        pose proof (table_forall _ _ _ two_letter_first H) as T. cbn beta iota in T. congruence. }
      rewrite E2, X4 in Es. discriminate.
    + cbn [app] in El. inversion El; subst. congruence.
  - cbn [app go]. destruct (step s c (a ++ x :: b)) as [s'|r] eqn:Es; [|eapply step_stop_not_accepted; exact Es].
    cbn [app] in Hpl. destruct (plain_tail _ _ Hpl) as [Hpl' [N1 N2]].
    apply IH; [exact Hpl'|]. eapply J2_step; eassumption.
Qed.

Lemma strip_subset y l : In y (strip l) -> In y l.
Proof.
  assert (L : forall sp m, In y (lstrip_by sp m) -> In y m).
  { intros sp m. induction m as [|c m IH]; cbn; [tauto|]. destruct (sp c); [intros H; right; apply IH; exact H | tauto]. }
  unfold strip, strip_by. intros H. apply in_rev in H. apply L in H. apply in_rev in H. apply L in H. exact H.
Qed.

Lemma plain_strip l : plain l -> plain (strip l).
Proof. intros [A B]. split; intros H; [apply A | apply B]; apply strip_subset; exact H. Qed.

Lemma reject_unknown_char_l s x :
  plain s -> In x s -> is_space x = false -> known x = false -> parse s = Invalid.
Proof.
  intros Hpl Hin Hsp Hk. apply not_accepted_invalid. unfold parse.
  destruct (existsb _ _); [intros [a [b H]]; discriminate|].
  pose proof (strip_In x s Hin Hsp) as Hin'. apply in_split in Hin'. destruct Hin' as [a [b E]].
  pose proof (plain_strip s Hpl) as Hpl'. rewrite E in *.
  apply reject_unknown_go; [exact Hk | exact Hpl' | left; reflexivity].
Qed.

(* ------------------------------------------------------------------ a ring label left open *)
Definition memk (k : Z) (U : list (Z * ring)) : bool := existsb (fun kr => Z.eqb (fst kr) k) U.
Definition nodupk (U : list (Z * ring)) : Prop := NoDup (map fst U).

Lemma lookup_memk k U : memk k U = match lookup k U with Some _ => true | None => false end.
Proof.
  induction U as [|[k' v] U IH]; cbn; [reflexivity|]. rewrite Z.eqb_sym. destruct (Z.eqb k k'); [reflexivity | exact IH].
Qed.
Lemma memk_In k U : memk k U = true <-> In k (map fst U).
Proof.
  unfold memk. rewrite existsb_exists. split.
  - intros [[k' v] [Hin He]]. cbn in He. apply Z.eqb_eq in He. subst. apply in_map_iff. exists (k, v). split; [reflexivity | exact Hin].
  - intros H. apply in_map_iff in H. destruct H as [[k' v] [He Hin]]. cbn in He. subst. exists (k, v). split; [exact Hin | apply Z.eqb_refl].
Qed.
Lemma memk_remove_same k U : nodupk U -> memk k (remove_key k U) = false.
Proof.
  unfold nodupk. induction U as [|[k' v] U IH]; cbn; [reflexivity|]. intros H. inversion H as [|? ? Hn Hd]; subst.
  destruct (Z.eqb k k') eqn:E.
  - apply Z.eqb_eq in E. subst. apply not_true_is_false. intros M. apply memk_In in M. contradiction.
  - cbn. rewrite Z.eqb_sym, E. cbn. apply IH. exact Hd.
Qed.
Lemma memk_remove_other k k' U : k <> k' -> memk k (remove_key k' U) = memk k U.
Proof.
  intros Hne. unfold memk. induction U as [|[k2 v] U IH]; cbn; [reflexivity|].
  destruct (Z.eqb k' k2) eqn:E.
  - apply Z.eqb_eq in E. subst. destruct (Z.eqb k2 k) eqn:E2; [apply Z.eqb_eq in E2; congruence | reflexivity].
  - cbn. rewrite IH. reflexivity.
Qed.
Lemma nodupk_remove k U : nodupk U -> nodupk (remove_key k U).
Proof.
  unfold nodupk. induction U as [|[k' v] U IH]; cbn; [auto|]. intros H. inversion H as [|? ? Hn Hd]; subst.
  destruct (Z.eqb k k'); [exact Hd|]. cbn. constructor; [|apply IH; exact Hd].
  intros Hin. apply Hn. clear - Hin. induction U as [|[k2 v2] U IH]; cbn in *; [contradiction|].
  destruct (Z.eqb k k2); [right; exact Hin|]. cbn in Hin. destruct Hin as [H|H]; [left; exact H | right; apply IH; exact H].
Qed.
Lemma memk_app k U k' v : memk k (U ++ [(k', v)]) = memk k U || Z.eqb k' k.
Proof. unfold memk. rewrite existsb_app. cbn. rewrite orb_false_r. reflexivity. Qed.
Lemma NoDup_snoc {A} (l : list A) x : NoDup l -> ~ In x l -> NoDup (l ++ [x]).
Proof.
  induction l as [|y l IH]; cbn; intros Hd Hn; [constructor; [tauto | constructor]|].
  inversion Hd as [|? ? Hy Hl]; subst. constructor.
  - intros H. apply in_app_or in H. destruct H as [H|[H|[]]]; [contradiction | subst; apply Hn; left; reflexivity].
  - apply IH; [exact Hl | intros H; apply Hn; right; exact H].
Qed.
Lemma nodupk_app U k v : nodupk U -> lookup k U = None -> nodupk (U ++ [(k, v)]).
Proof.
  unfold nodupk. intros Hd Hl. rewrite map_app. cbn. apply NoDup_snoc.
  - exact Hd.
  - intros Hin. apply memk_In in Hin. rewrite lookup_memk, Hl in Hin. discriminate.
Qed.

Lemma digit_val_char_of c w : digit_val c = Some w -> c = ascii_of_nat (48 + w).
Proof. destruct c as [[] [] [] [] [] [] [] []]; vm_compute; intros H; try discriminate H; inversion H; reflexivity. Qed.
Lemma digit_val_inj c x w : digit_val c = Some w -> digit_val x = Some w -> c = x.
Proof. intros H1 H2. rewrite (digit_val_char_of _ _ H1), (digit_val_char_of _ _ H2). reflexivity. Qed.
Lemma digit_not_space c w : digit_val c = Some w -> is_space c = false.
Proof. destruct c as [[] [] [] [] [] [] [] []]; vm_compute; intros H; try discriminate H; reflexivity. Qed.
Lemma digit_not_bond c w : digit_val c = Some w -> is_bond_char c = false /\ ceqb c "%" = false.
Proof. destruct c as [[] [] [] [] [] [] [] []]; vm_compute; intros H; try discriminate H; split; reflexivity. Qed.

Definition dkey (v : nat) : Z := (Z.of_nat v - 1)%Z.

Lemma digit_step_unclosed s c w l s' :
  skip s = 0 -> digit_val c = Some w -> step s c l = Next s' ->
  (exists rb, lookup (dkey w) (unclosed s) = Some rb /\ unclosed s' = remove_key (dkey w) (unclosed s)) \/
  (lookup (dkey w) (unclosed s) = None /\ exists r, unclosed s' = unclosed s ++ [(dkey w, r)]).
Proof.
  intros Ek Hd Hst. unfold step in Hst. rewrite Ek in Hst. cbn [Nat.ltb Nat.leb] in Hst.
  destruct (digit_not_bond _ _ Hd) as [B P]. rewrite B in Hst. unfold is_digit in Hst. rewrite Hd in Hst. cbn [orb] in Hst.
  destruct (length (atoms s) =? 0); [discriminate|].
  destruct (pc_is s "(" || (pc_bond s && pc2_is s "(")); [discriminate|].
  unfold ring_idx in Hst. rewrite Hd, P in Hst. fold (dkey w) in Hst.
  destruct (lookup (dkey w) (unclosed s)) as [rb|] eqn:El.
  - destruct (prev s); [|discriminate]. destruct (atoms s); [discriminate|]. inversion Hst; subst.
    left. exists rb. split; reflexivity.
  - destruct (prev s); [|discriminate]. inversion Hst; subst. right. split; [reflexivity|]. eexists. reflexivity.
Qed.

Lemma ring_parity x v : digit_val x = Some v ->
  forall l s, plain l -> J2 s l -> nodupk (unclosed s) -> accepted (go s l) ->
  memk (dkey v) (unclosed s) = Nat.odd (count_occ ascii_dec l x).
Proof.
  intros Hx. induction l as [|c l IH]; intros s Hpl HJ Hnd Hacc.
  - cbn [go] in Hacc. unfold finish in Hacc. destruct Hacc as [a [b H]].
    destruct (unclosed s); [reflexivity | discriminate].
  - cbn [go] in Hacc. destruct (step s c l) as [s'|r] eqn:Es;
      [|exfalso; eapply step_stop_not_accepted; [exact Es | exact Hacc]].
    destruct (plain_tail _ _ Hpl) as [Hpl' [N1 N2]].
    destruct (J2_step _ _ _ _ HJ N1 N2 Es) as [HJ' Hsame].
    assert (Same : unclosed s' = unclosed s -> c <> x ->
                   memk (dkey v) (unclosed s) = Nat.odd (count_occ ascii_dec (c :: l) x)).
    { intros Eu Hne. cbn [count_occ]. destruct (ascii_dec c x) as [E|_]; [contradiction|].
      rewrite <- Eu. apply (IH (advance c s')); auto. cbn. rewrite Eu. exact Hnd. }
    destruct HJ as [Ek | [Ek [d [l' [El Hd]]]]].
    + destruct (digit_val c) as [w|] eqn:Ed.
      * (* a ring label *)
        destruct (digit_step_unclosed _ _ _ _ _ Ek Ed Es) as [[rb [Lk Eu]] | [Lk [r' Eu]]].
        -- assert (Hnd' : nodupk (unclosed (advance c s'))) by (cbn; rewrite Eu; apply nodupk_remove; exact Hnd).
           pose proof (IH (advance c s') Hpl' HJ' Hnd' Hacc) as P. cbn [unclosed advance] in P. rewrite Eu in P.
           cbn [count_occ]. destruct (ascii_dec c x) as [E|Hne].
           ++ subst c. rewrite Hx in Ed. inversion Ed; subst w.
              rewrite memk_remove_same in P by exact Hnd. rewrite lookup_memk, Lk.
              rewrite Nat.odd_succ, <- Nat.negb_odd, <- P. reflexivity.
           ++ assert (Hk : dkey v <> dkey w).
              { unfold dkey. intros H. assert (v = w) by lia. subst w. apply Hne. eapply digit_val_inj; eassumption. }
              rewrite memk_remove_other in P by exact Hk. exact P.
        -- assert (Hnd' : nodupk (unclosed (advance c s'))) by (cbn; rewrite Eu; apply nodupk_app; assumption).
           pose proof (IH (advance c s') Hpl' HJ' Hnd' Hacc) as P. cbn [unclosed advance] in P. rewrite Eu, memk_app in P.
           cbn [count_occ]. destruct (ascii_dec c x) as [E|Hne].
           ++ subst c. rewrite Hx in Ed. inversion Ed; subst w. rewrite Z.eqb_refl, orb_true_r in P.
              rewrite lookup_memk, Lk. rewrite Nat.odd_succ, <- Nat.negb_odd, <- P. reflexivity.
           ++ assert (Hk : Z.eqb (dkey w) (dkey v) = false).
              { apply Z.eqb_neq. unfold dkey. intros H. assert (v = w) by lia. subst w. apply Hne. eapply digit_val_inj; eassumption. }
              rewrite Hk, orb_false_r in P. exact P.
      * apply Same.
        -- apply Hsame. right. unfold is_digit. rewrite Ed. reflexivity.
        -- intros ->. congruence.
    + apply Same.
      * apply Hsame. left. lia.
      * inversion El; subst. intros ->. destruct (second_letter_facts _ Hd) as [F _]. unfold is_digit in F. rewrite Hx in F. discriminate.
Qed.

Lemma reject_unclosed_ring_l s x v :
  plain s -> digit_val x = Some v -> Nat.odd (count_occ ascii_dec s x) = true -> parse s = Invalid.
Proof.
  intros Hpl Hx Hodd. apply not_accepted_invalid. intros Hacc. unfold parse in Hacc.
  destruct (existsb _ _); [destruct Hacc as [a [b H]]; discriminate|].
  pose proof (ring_parity x v Hx (strip s) init (plain_strip s Hpl) (or_introl eq_refl) (NoDup_nil _) Hacc) as P.
  rewrite (count_strip x s (digit_not_space _ _ Hx)), Hodd in P. discriminate P.
Qed.

(* ------------------------------------------------------------------ reaching a position (plain strings) *)
Lemma plain_app a rest : plain (a ++ rest) -> plain rest.
Proof. intros [A B]. split; intros H; [apply A | apply B]; apply in_or_app; right; exact H. Qed.

Lemma reach2 a : forall s rest, plain (a ++ rest) -> J2 s (a ++ rest) -> accepted (go s (a ++ rest)) ->
  exists s', J2 s' rest /\ accepted (go s' rest) /\
             prevc s' = match a with [] => prevc s | _ => Some (last a " ") end /\
             prevc2 s' = match a with [] => prevc2 s | [_] => prevc s | _ => Some (last (removelast a) " ") end.
Proof.
  induction a as [|c a IH]; intros s rest Hpl HJ Hacc.
  - exists s. auto.
  - cbn [app go] in Hacc. destruct (step s c (a ++ rest)) as [s1|r] eqn:Es;
      [|exfalso; eapply step_stop_not_accepted; [exact Es | exact Hacc]].
    cbn [app] in Hpl. destruct (plain_tail _ _ Hpl) as [Hpl' [N1 N2]].
    destruct (J2_step _ _ _ _ HJ N1 N2 Es) as [HJ1 _].
    destruct (IH (advance c s1) rest Hpl' HJ1 Hacc) as [s' [A [B [C D]]]].
    exists s'. split; [exact A|]. split; [exact B|]. split.
    + rewrite C. destruct a; reflexivity.
    + rewrite D. destruct a as [|x [|y a]]; cbn [prevc prevc2 advance]; try reflexivity.
      (* prevc of s1 is prevc of s: a step never touches it *)
      clear - Es. unfold step in Es.
      assert (Bot : forall s0 bsym r0, bottom s0 bsym c r0 = Next s1 -> prevc s1 = prevc s0).
      { intros s0 bsym r0 H. unfold bottom, add_bond in H. destruct (length (atoms s0) =? 1); [inversion H; reflexivity|].
        destruct (ceqb bsym "="); [|inversion H; reflexivity].
        unfold set_db_stereo in H. destruct (negb _); [inversion H; reflexivity|].
        destruct (last _ _); [|discriminate]. destruct (if has_slash _ then _ else _); [|discriminate].
        destruct (if slash_before _ then _ else _); [|discriminate]. inversion H; reflexivity. }
      destruct (0 <? skip s); [inversion Es; reflexivity|].
      destruct (is_bond_char c). { destruct (_ || _); inversion Es; reflexivity. }
      destruct (is_digit c || ceqb c "%").
      { destruct (length (atoms s) =? 0); [discriminate|]. destruct (pc_is s "(" || _); [discriminate|].
        destruct (ring_idx c _); [|discriminate]. destruct (lookup _ _).
        - destruct (prev _); [|discriminate]. destruct (atoms _); [discriminate|]. inversion Es. destruct (ceqb c "%"); reflexivity.
        - destruct (prev _); [|discriminate]. inversion Es. destruct (ceqb c "%"); reflexivity. }
      destruct (ceqb c "[").
      { destruct (bracket_section _) as [sec|]; [|discriminate]. destruct (parse_sq_bracket sec); try discriminate.
        apply Bot in Es. exact Es. }
      destruct (ceqb c "("). { destruct (_ || _); [discriminate|]. destruct (pc_is s ")"); [inversion Es; reflexivity|].
                               destruct (prev s); [inversion Es; reflexivity | discriminate]. }
      destruct (ceqb c ")"). { destruct (branch s); [discriminate|]. destruct (pc_is s "("); [discriminate|].
                               inversion Es. destruct (next_is _ "("); reflexivity. }
      destruct (match [] ++ rest with d :: _ => mem_str [c; d] two_letter_organic | [] => false end).
      { destruct ([] ++ rest); [discriminate|]. destruct (smiles_atom _ _ _ _ _); [|discriminate]. apply Bot in Es. exact Es. }
      destruct (mem_str [c] _); [|discriminate]. destruct (smiles_atom _ _ _ _ _); [|discriminate]. apply Bot in Es. exact Es.
Qed.

Lemma J2_skip0 s x l : J2 s (x :: l) -> second_letter x = false -> skip s = 0.
Proof. intros [H|[_ [d [l' [E Hd]]]]] Hx; [exact H|]. inversion E; subst. congruence. Qed.

Lemma bond_not_second x : is_bond_char x = true -> second_letter x = false.
Proof. destruct x as [[] [] [] [] [] [] [] []]; vm_compute; intros H; try discriminate H; reflexivity. Qed.
Lemma dangling_follower y :
  is_bond_char y || paren y = true -> mem_char y (bond_order_symbols ++ dangling_follow_chars) = true.
Proof. destruct y as [[] [] [] [] [] [] [] []]; vm_compute; intros H; try discriminate H; reflexivity. Qed.

(* a bond symbol followed by another bond symbol or a parenthesis (plain strings) *)
Lemma reject_interior_dangling_go a x y b : is_bond_char x = true -> is_bond_char y || paren y = true ->
  forall s, plain (a ++ x :: y :: b) -> J2 s (a ++ x :: y :: b) -> ~ accepted (go s (a ++ x :: y :: b)).
Proof.
  intros Hx Hy s Hpl HJ Hacc. destruct (reach2 a s _ Hpl HJ Hacc) as [s' [HJ' [Hacc' _]]].
  pose proof (J2_skip0 _ _ _ HJ' (bond_not_second _ Hx)) as K.
  cbn [go] in Hacc'. destruct (step s' x (y :: b)) as [s1|r] eqn:Es;
    [|eapply step_stop_not_accepted; [exact Es | exact Hacc']].
  unfold step in Es. rewrite K in Es. cbn [Nat.ltb Nat.leb] in Es. rewrite Hx in Es.
  cbn [follows_dangling] in Es. rewrite (dangling_follower y Hy), orb_true_r in Es. discriminate.
Qed.

Lemma reject_interior_dangling_l s a x y b :
  plain s -> strip s = a ++ x :: y :: b -> is_bond_char x = true -> is_bond_char y || paren y = true ->
  parse s = Invalid.
Proof.
  intros Hpl Es Hx Hy. apply not_accepted_invalid. unfold parse.
  pose proof (plain_strip s Hpl) as Hpl'. rewrite Es in *.
  destruct (existsb _ _); [intros [u [v H]]; discriminate|].
  apply reject_interior_dangling_go; [exact Hx | exact Hy | exact Hpl' | left; reflexivity].
Qed.

(* a ring label directly after "(" or after "(" and a bond symbol (plain strings) *)
Lemma paren_not_second : second_letter "(" = false. Proof. reflexivity. Qed.

Lemma reject_label_at_branch_start_go a d b : is_digit d = true ->
  forall s, plain (a ++ "(" :: d :: b) -> J2 s (a ++ "(" :: d :: b) -> ~ accepted (go s (a ++ "(" :: d :: b)).
Proof.
  intros Hd s Hpl HJ Hacc.
  replace (a ++ "(" :: d :: b) with ((a ++ ["("]) ++ d :: b) in * by (rewrite <- app_assoc; reflexivity).
  destruct (reach2 (a ++ ["("]) s _ Hpl HJ Hacc) as [s' [HJ' [Hacc' [Pc _]]]].
  assert (Hns : second_letter d = false).
  { destruct (second_letter d) eqn:E; [|reflexivity]. destruct (second_letter_facts _ E) as [F _]. congruence. }
  pose proof (J2_skip0 _ _ _ HJ' Hns) as K.
  assert (Pc' : prevc s' = Some "(").
  { rewrite Pc. destruct (a ++ ["("]) eqn:E; [destruct a; discriminate|]. rewrite <- E. rewrite last_last. reflexivity. }
  cbn [go] in Hacc'. destruct (step s' d b) as [s1|r] eqn:Es;
    [|eapply step_stop_not_accepted; [exact Es | exact Hacc']].
  unfold step in Es. rewrite K in Es. cbn [Nat.ltb Nat.leb] in Es.
  assert (Hb : is_bond_char d = false).
  { clear - Hd. destruct d as [[] [] [] [] [] [] [] []]; vm_compute in Hd |- *; congruence. }
  rewrite Hb, Hd in Es. cbn [orb] in Es. destruct (length (atoms s') =? 0); [discriminate|].
    unfold pc_is in Es. rewrite Pc' in Es. change (ceqb "(" "(") with true in Es. cbn [orb] in Es. discriminate.
Qed.

Lemma reject_label_at_branch_start_l s a d b :
  plain s -> strip s = a ++ "(" :: d :: b -> is_digit d = true -> parse s = Invalid.
Proof.
  intros Hpl Es Hd. apply not_accepted_invalid. unfold parse.
  pose proof (plain_strip s Hpl) as Hpl'. rewrite Es in *.
  destruct (existsb _ _); [intros [u [v H]]; discriminate|].
  apply reject_label_at_branch_start_go; [exact Hd | exact Hpl' | left; reflexivity].
Qed.
