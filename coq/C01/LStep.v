(* C01/LStep.v -- what one token of a well-formed spelling does to the parser state. *)
From Coq Require Import List Ascii ZArith Bool Arith Lia Permutation.
From AV.C01 Require Import Base Model Spec LBasic.
From AV.gen Require Import C01_Gen.
Import ListNotations.
Open Scope char_scope.
Open Scope nat_scope.

(* prevc is not a bond character: the next bond is an implicit single bond *)
Definition pcl (s : st) : Prop :=
  match prevc s with Some p => is_bond_char p = false | None => True end.

Lemma pcl_bond_symbol s : pcl s -> bond_symbol s = "-".
Proof.
  unfold pcl, bond_symbol. destruct (prevc s) as [p|]; [|reflexivity].
  unfold is_bond_char. rewrite mem_char_app. intros H. apply orb_false_iff in H. destruct H as [H _].
  rewrite H. reflexivity.
Qed.
Lemma pcl_pc_bond s : pcl s -> pc_bond s = false.
Proof. unfold pcl, pc_bond. destruct (prevc s); [auto | reflexivity]. Qed.

(* the test of parser.py:424-428 (a ring label must not open a branch) *)
Definition ring_guard (s : st) : bool := pc_is s "(" || (pc_bond s && pc2_is s "(").

(* everything but the lexical bookkeeping is unchanged *)
Definition same_core (s s' : st) : Prop :=
  atoms s' = atoms s /\ bonds s' = bonds s /\ branch s' = branch s /\ unclosed s' = unclosed s /\
  prev s' = prev s.

Lemma same_core_refl s : same_core s s.
Proof. repeat split. Qed.
Lemma same_core_trans a b c : same_core a b -> same_core b c -> same_core a c.
Proof. intros [A1 [A2 [A3 [A4 A5]]]] [B1 [B2 [B3 [B4 B5]]]]. repeat split; congruence. Qed.
Lemma same_core_advance c s : same_core s (advance c s).
Proof. repeat split. Qed.
Lemma same_core_Inv s s' : same_core s s' -> Inv s -> Inv s'.
Proof.
  intros [A1 [A2 [A3 [A4 A5]]]] [P B Br U]. split; rewrite ?A1, ?A2, ?A3, ?A4, ?A5; assumption.
Qed.

(* ------------------------------------------------------------------ skipped characters *)
Lemma step_skip s c rest : 0 < skip s -> step s c rest = Next (set_skip (skip s - 1) s).
Proof. intros H. unfold step. apply Nat.ltb_lt in H. rewrite H. reflexivity. Qed.

Lemma run_skip l : forall s rest c0, skip s = length l ->
  exists s', run s l rest = Next s' /\ same_core s s' /\ skip s' = 0 /\
             prevc s' = match l with [] => prevc s | _ => Some (last l c0) end.
Proof.
  induction l as [|c l IH]; intros s rest c0 Hs.
  - exists s. cbn. repeat split; auto.
  - cbn [run]. rewrite step_skip by (cbn in Hs; lia).
    destruct (IH (advance c (set_skip (skip s - 1) s)) rest c0) as [s' [E [C [K P]]]].
    { cbn. cbn in Hs. lia. }
    exists s'. split; [exact E|]. split; [|split; [exact K|]].
    + eapply same_core_trans; [|exact C]. repeat split.
    + rewrite P. destruct l; reflexivity.
Qed.

(* ------------------------------------------------------------------ bond symbols *)
Definition bsym_char (b : bsym) : option ascii :=
  match b with
  | BImp => None | BSingle => Some "-" | BDouble => Some "=" | BTriple => Some "#" | BQuad => Some "$"
  | BUp => Some "/" | BDown => Some "\"
  end.
Definition after_bsym (b : bsym) (s : st) : st :=
  match bsym_char b with None => s | Some c => advance c s end.

Lemma step_bondchar s c rest :
  skip s = 0 -> is_bond_char c = true -> atoms s <> [] -> follows_dangling rest = false ->
  step s c rest = Next s.
Proof.
  intros Hs Hc Ha Hf. unfold step. rewrite Hs, Hc, Hf. cbn.
  destruct (atoms s); [congruence | reflexivity].
Qed.

Lemma run_bsym b s rest :
  skip s = 0 -> atoms s <> [] -> follows_dangling rest = false ->
  run s (spell_bsym b) rest = Next (after_bsym b s).
Proof.
  intros Hs Ha Hf. destruct b; cbn [spell_bsym run app]; unfold after_bsym; cbn [bsym_char];
    try reflexivity; rewrite step_bondchar by (auto; reflexivity); reflexivity.
Qed.

Lemma after_bsym_core b s : same_core s (after_bsym b s).
Proof. unfold after_bsym. destruct (bsym_char b); [apply same_core_advance | apply same_core_refl]. Qed.
Lemma after_bsym_skip b s : skip (after_bsym b s) = skip s.
Proof. unfold after_bsym. destruct (bsym_char b); reflexivity. Qed.

Lemma after_bsym_order b s : pcl s -> order_of (bond_symbol (after_bsym b s)) = bsym_order b.
Proof.
  intros H. destruct b; unfold after_bsym; cbn [bsym_char]; try reflexivity.
  rewrite (pcl_bond_symbol _ H). reflexivity.
Qed.
Lemma after_bsym_double b s :
  pcl s -> ceqb (bond_symbol (after_bsym b s)) "=" = match b with BDouble => true | _ => false end.
Proof.
  intros H. destruct b; unfold after_bsym; cbn [bsym_char]; try reflexivity.
  rewrite (pcl_bond_symbol _ H). reflexivity.
Qed.
Lemma after_bsym_pc b s x :
  mem_char x (bond_order_symbols ++ bond_extra_chars) = false ->
  pc_is (after_bsym b s) x = match bsym_char b with None => pc_is s x | Some _ => false end.
Proof.
  intros H. destruct b; unfold after_bsym; cbn [bsym_char]; try reflexivity;
    unfold pc_is; cbn [prevc advance]; apply ceqb_neq; intros E; subst x; discriminate H.
Qed.

(* ------------------------------------------------------------------ parentheses *)
Lemma step_open s rest p :
  skip s = 0 -> atoms s <> [] -> pc_is s "(" = false -> prev s = Some p ->
  step s "(" rest = Next (if pc_is s ")" then s else set_branch (p :: branch s) s).
Proof.
  intros Hs Ha Hp Hv. unfold step. rewrite Hs, Hp, Hv. cbn.
  destruct (atoms s) eqn:E; [congruence|]. cbn. destruct (pc_is s ")"); reflexivity.
Qed.

Lemma step_close s rest b bs :
  skip s = 0 -> branch s = b :: bs -> pc_is s "(" = false ->
  step s ")" rest = Next (set_prev (Some b) (if next_is rest "(" then s else set_branch bs s)).
Proof. intros Hs Hb Hp. unfold step. rewrite Hs, Hb, Hp. cbn. reflexivity. Qed.

(* ------------------------------------------------------------------ adding an atom *)
Lemma bond_exists_fresh n b l :
  Forall (bond_lt n) l -> b_j b = n -> bond_exists b l = false.
Proof.
  intros Hl Hb. unfold bond_exists. apply not_true_is_false. intros H.
  apply existsb_exists in H. destruct H as [x [Hx Hs]].
  rewrite Forall_forall in Hl. destruct (Hl _ Hx) as [A B].
  unfold same_pair in Hs. rewrite Hb in Hs.
  repeat rewrite andb_true_iff in Hs. destruct Hs as [[[_ H2] _] _].
  apply orb_true_iff in H2. destruct H2 as [H2|H2]; apply Nat.eqb_eq in H2; lia.
Qed.

(* the state after `bottom` on a freshly pushed atom *)
Lemma bottom_spec s a k c rest :
  Inv s ->
  exists s', bottom (set_skip k (push_atom a s)) (bond_symbol s) c rest = Next s' /\
    map erase_stereo (atoms s') = map erase_stereo (atoms s) ++ [erase_stereo a] /\
    length (atoms s') = S (length (atoms s)) /\
    (atoms s = [] -> bonds s' = bonds s) /\
    (forall p, atoms s <> [] -> prev s = Some p ->
       bonds s' = bonds s ++ [mkBond p (length (atoms s)) (order_of (bond_symbol s))]) /\
    skip s' = k /\ branch s' = branch s /\ unclosed s' = unclosed s /\
    prev s' = Some (length (atoms s)) /\ prevc s' = prevc s /\ Inv s'.
Proof.
  intros HI. pose proof (bottom_good s a k (bond_symbol s) c rest HI) as G.
  destruct HI as [Hp Hb Hbr Hu]. unfold bottom, add_bond in *.
  set (s0 := set_skip k (push_atom a s)) in *.
  assert (EA : atoms s0 = atoms s ++ [a]) by reflexivity.
  assert (Hn : length (atoms s0) = S (length (atoms s))) by apply push_atom_length.
  assert (EB : bonds s0 = bonds s) by reflexivity.
  assert (ER : branch s0 = branch s) by reflexivity.
  assert (EP : prev s0 = prev s) by reflexivity.
  assert (EU : unclosed s0 = unclosed s) by reflexivity.
  assert (EK : skip s0 = k) by reflexivity.
  assert (EC : prevc s0 = prevc s) by reflexivity.
  clearbody s0.
  destruct (length (atoms s0) =? 1) eqn:E1.
  - apply Nat.eqb_eq in E1. assert (E0 : atoms s = []) by (destruct (atoms s); [reflexivity | cbn in Hn; lia]).
    eexists. split; [reflexivity|].
    repeat match goal with |- _ /\ _ => split end; try exact G; cbn;
      rewrite ?Hn, ?EA, ?map_app, ?EB, ?EK, ?ER, ?EU, ?EC, ?E0; cbn; auto; try congruence; try (intros; congruence); try (f_equal; lia).
  - apply Nat.eqb_neq in E1.
    destruct Hp as [Hp | [p [Hp Hlt]]]; [rewrite Hp in Hn; cbn in Hn; lia|].
    rewrite EP, Hp in *.
    set (b := mkBond p (length (atoms s0) - 1) (order_of (bond_symbol s))) in *.
    assert (Hex : bond_exists b (bonds s0) = false).
    { rewrite EB. eapply bond_exists_fresh; [exact Hb|]. cbn. lia. }
    assert (Hself : self_bond b = false) by (unfold self_bond; cbn; apply Nat.eqb_neq; lia).
    assert (Eapp : bonds_append b (bonds s0) = bonds s ++ [mkBond p (length (atoms s)) (order_of (bond_symbol s))]).
    { unfold bonds_append. rewrite Hex, Hself. cbn. rewrite EB. unfold b. rewrite Hn.
      replace (S (length (atoms s)) - 1) with (length (atoms s)) by lia. reflexivity. }
    rewrite Eapp in *.
    set (s1 := set_bonds (bonds s ++ [mkBond p (length (atoms s)) (order_of (bond_symbol s))]) s0) in *.
    assert (Hne : atoms s <> []) by (intros H0; rewrite H0 in Hlt; cbn in Hlt; lia).
    destruct (ceqb (bond_symbol s) "=").
    + assert (Hb1 : Forall (bond_lt (length (atoms s1))) (bonds s1)).
      { cbn. rewrite Hn. apply Forall_app. split.
        - eapply Forall_bond_lt_mono; [|exact Hb]. lia.
        - constructor; [split; cbn; lia | constructor]. }
      assert (Hne1 : bonds s1 <> []) by (cbn; destruct (bonds s); discriminate).
      pose proof (set_db_stereo_good s1 c rest Hne1 Hb1) as G2.
      destruct (set_db_stereo s1 c rest) as [s2|r]; [|contradiction].
      destruct G2 as [L [B [R [P [K [U [C [_ M]]]]]]]].
      eexists. split; [reflexivity|].
      repeat match goal with |- _ /\ _ => split end; try exact G; cbn;
        rewrite ?M, ?L, ?B, ?R, ?U, ?K, ?C; cbn; rewrite ?Hn, ?EA, ?map_app, ?ER, ?EU, ?EK, ?EC; cbn;
        auto; try congruence; try (intros; congruence); try (f_equal; lia).
    + eexists. split; [reflexivity|].
      repeat match goal with |- _ /\ _ => split end; try exact G; cbn;
        rewrite ?Hn, ?EA, ?map_app, ?ER, ?EU, ?EK, ?EC; cbn; auto; try congruence; try (intros; congruence); try (f_equal; lia).
Qed.

Lemma after_bsym_guard b s : pcl s -> pc_is s "(" = false -> ring_guard (after_bsym b s) = false.
Proof.
  intros Hp Ho. unfold ring_guard. destruct b; unfold after_bsym; cbn [bsym_char];
    try (unfold pc_is, pc_bond, pc2_is; cbn [prevc prevc2 advance]; fold (pc_is s "("); rewrite Ho; reflexivity).
  rewrite Ho, (pcl_pc_bond s Hp). reflexivity.
Qed.
