(* C01/LAtom.v -- atom tokens (organic subset and bracket atoms) and ring-label tokens. *)
From Coq Require Import List Ascii ZArith Bool Arith Lia Permutation.
From AV.C01 Require Import Base Model Spec LBasic LStep.
From AV.gen Require Import C01_Gen.
Import ListNotations.
Open Scope char_scope.
Open Scope nat_scope.

(* the atom record before implicit hydrogens are filled in *)
Definition pre_atom (a : satom) : atom :=
  match a with
  | Org o => mkAtom (osym_str o) 0%Z None None false
  | Brk b => mkAtom (k_sym b) (c_value (k_c b)) (Some (h_value (k_h b))) (class_value (k_class b)) false
  end.

(* ------------------------------------------------------------------ digits *)
Lemma digit_char_cases d :
  In (digit_char d) ["0"; "1"; "2"; "3"; "4"; "5"; "6"; "7"; "8"; "9"].
Proof. do 10 (destruct d as [|d]; [cbn; tauto|]). cbn. tauto. Qed.

Lemma digit_char_prop (P : ascii -> Prop) d :
  P "0" -> P "1" -> P "2" -> P "3" -> P "4" -> P "5" -> P "6" -> P "7" -> P "8" -> P "9" -> P (digit_char d).
Proof.
  intros. pose proof (digit_char_cases d) as H9. cbn in H9.
  repeat (destruct H9 as [<-|H9]; [assumption|]). contradiction.
Qed.

Lemma digit_val_char d : d < 10 -> digit_val (digit_char d) = Some d.
Proof. intros H. do 10 (destruct d as [|d]; [reflexivity|]). lia. Qed.

Lemma strip_by_nospace sp l : forallb (fun c => negb (sp c)) l = true -> strip_by sp l = l.
Proof.
  intros H. unfold strip_by.
  assert (L : forall m, forallb (fun c => negb (sp c)) m = true -> lstrip_by sp m = m).
  { intros m Hm. destruct m as [|c m]; [reflexivity|]. cbn in *. apply andb_true_iff in Hm.
    destruct Hm as [Hc _]. destruct (sp c); [discriminate | reflexivity]. }
  rewrite (L l H). rewrite L.
  - apply rev_involutive.
  - rewrite forallb_forall in *. intros x Hx. apply H. apply in_rev. exact Hx.
Qed.

Lemma int_body_digits ds : forall a, forallb digit_ok ds = true ->
  int_body (map digit_char ds) (Z.of_nat a) false =
  Some (Z.of_nat (fold_left (fun acc d => 10 * acc + d) ds a)).
Proof.
  induction ds as [|d ds IH]; intros a H; cbn [map int_body fold_left]; [reflexivity|].
  cbn [forallb] in H. apply andb_true_iff in H. destruct H as [Hd Hds]. unfold digit_ok in Hd. apply Nat.ltb_lt in Hd.
  rewrite (digit_val_char d Hd).
  replace (10 * Z.of_nat a + Z.of_nat d)%Z with (Z.of_nat (10 * a + d)) by lia.
  apply IH. exact Hds.
Qed.

Lemma count_digits_chars ds : count_digits (map digit_char ds) = length ds.
Proof.
  unfold count_digits. induction ds as [|d ds IH]; cbn [map filter]; [reflexivity|].
  assert (E : is_digit (digit_char d) = true) by (pattern (digit_char d); apply digit_char_prop; reflexivity).
  rewrite E. cbn [length]. f_equal. exact IH.
Qed.

Lemma py_int_digits ds :
  ds <> [] -> forallb digit_ok ds = true -> length ds <= max_str_digits ->
  py_int (map digit_char ds) = Some (Z.of_nat (digits_value ds)).
Proof.
  intros Hne H Hlen. unfold py_int. rewrite count_digits_chars.
  apply Nat.ltb_ge in Hlen. rewrite Hlen. rewrite strip_by_nospace.
  2:{ rewrite forallb_forall. intros x Hx. apply in_map_iff in Hx. destruct Hx as [d [<- _]].
      apply (digit_char_prop (fun c => negb (is_space_c c) = true)); reflexivity. }
  destruct ds as [|d ds]; [congruence|]. cbn [map].
  assert (Ep : ceqb (digit_char d) "+" = false)
    by (apply (digit_char_prop (fun c => ceqb c "+" = false)); reflexivity).
  assert (Em : ceqb (digit_char d) "-" = false)
    by (apply (digit_char_prop (fun c => ceqb c "-" = false)); reflexivity).
  rewrite Ep, Em. cbn [fst snd].
  cbn [forallb] in H. apply andb_true_iff in H. destruct H as [Hd Hds]. unfold digit_ok in Hd. apply Nat.ltb_lt in Hd.
  rewrite (digit_val_char d Hd). rewrite (int_body_digits ds d Hds).
  unfold digits_value. cbn [fold_left option_map]. f_equal.
  replace (10 * 0 + d) with d by lia. destruct (Z.of_nat _); reflexivity.
Qed.

(* ------------------------------------------------------------------ organic-subset atoms *)
Definition nolr (rest : str) : Prop :=
  match rest with d :: _ => ceqb d "l" = false /\ ceqb d "r" = false | [] => True end.

Lemma step_org1 s c rest :
  skip s = 0 -> is_bond_char c = false -> is_digit c = false -> ceqb c "%" = false ->
  ceqb c "[" = false -> ceqb c "(" = false -> ceqb c ")" = false ->
  match rest with d :: _ => mem_str [c; d] two_letter_organic | [] => false end = false ->
  mem_str [c] (organic_symbols ++ aromatic_symbols) = true ->
  step s c rest = bottom (set_skip 0 (push_atom (mkAtom [c] 0%Z None None false) s)) (bond_symbol s) c rest.
Proof.
  intros Hs H1 H2 H3 H4 H5 H6 H7 H8. unfold step. rewrite Hs, H1, H2, H3, H4, H5, H6, H7, H8. cbn [Nat.ltb Nat.leb orb].
  rewrite (smiles_atom_some _ _ _ _ _ (table_forall _ _ _ organic_capitalized H8)).
  unfold push_atom, set_atoms, set_skip. cbn. rewrite Hs. reflexivity.
Qed.

Lemma step_org2 s c d rest :
  skip s = 0 -> is_bond_char c = false -> is_digit c = false -> ceqb c "%" = false ->
  ceqb c "[" = false -> ceqb c "(" = false -> ceqb c ")" = false ->
  mem_str [c; d] two_letter_organic = true ->
  step s c (d :: rest) =
  bottom (set_skip 1 (push_atom (mkAtom [c; d] 0%Z None None false) s)) (bond_symbol s) c (d :: rest).
Proof.
  intros Hs H1 H2 H3 H4 H5 H6 H7. unfold step. rewrite Hs, H1, H2, H3, H4, H5, H6, H7. cbn [Nat.ltb Nat.leb orb].
  rewrite (smiles_atom_some _ _ _ _ _ (table_forall _ _ _ two_letter_capitalized H7)). reflexivity.
Qed.

(* what an atom token establishes *)
Definition atom_post (s s' : st) (a : satom) : Prop :=
  map erase_stereo (atoms s') = map erase_stereo (atoms s) ++ [pre_atom a] /\
  length (atoms s') = S (length (atoms s)) /\
  (atoms s = [] -> bonds s' = bonds s) /\
  (forall p, atoms s <> [] -> prev s = Some p ->
     bonds s' = bonds s ++ [mkBond p (length (atoms s)) (order_of (bond_symbol s))]) /\
  skip s' = 0 /\ branch s' = branch s /\ unclosed s' = unclosed s /\
  prev s' = Some (length (atoms s)) /\
  pcl s' /\ pc_is s' "(" = false /\ pc_is s' ")" = false /\ Inv s'.

Lemma run_org o s rest :
  Inv s -> skip s = 0 -> nolr rest ->
  exists s', run s (osym_str o) rest = Next s' /\ atom_post s s' (Org o).
Proof.
  intros HI Hs Hlr.
  assert (Single : forall c, osym_str o = [c] ->
            is_bond_char c = false -> is_digit c = false -> ceqb c "%" = false ->
            ceqb c "[" = false -> ceqb c "(" = false -> ceqb c ")" = false ->
            (forall d, ceqb d "l" = false -> ceqb d "r" = false -> mem_str [c; d] two_letter_organic = false) ->
            mem_str [c] (organic_symbols ++ aromatic_symbols) = true ->
            is_bond_char c = false ->
            exists s', run s (osym_str o) rest = Next s' /\ atom_post s s' (Org o)).
  { intros c Eo H1 H2 H3 H4 H5 H6 H7 H8 H9. rewrite Eo. cbn [run app].
    rewrite step_org1; auto.
    2:{ destruct rest as [|d rest']; [reflexivity|]. destruct Hlr as [A B]. apply H7; assumption. }
    destruct (bottom_spec s (mkAtom [c] 0%Z None None false) 0 c rest HI)
      as [s1 [E [M [L [B0 [B1 [K [Br [U [P [C I1]]]]]]]]]]].
    rewrite E. eexists. split; [reflexivity|].
    unfold atom_post. cbn [atoms bonds skip branch unclosed prev advance].
    cbn [pre_atom]. rewrite Eo.
    repeat match goal with |- _ /\ _ => split end; auto;
      first [ unfold pcl; cbn; assumption | unfold pc_is; cbn; assumption | apply Inv_advance; exact I1 ]. }
  assert (Double : forall c d, osym_str o = [c; d] ->
            is_bond_char c = false -> is_digit c = false -> ceqb c "%" = false ->
            ceqb c "[" = false -> ceqb c "(" = false -> ceqb c ")" = false ->
            mem_str [c; d] two_letter_organic = true ->
            is_bond_char d = false -> ceqb d "(" = false -> ceqb d ")" = false ->
            exists s', run s (osym_str o) rest = Next s' /\ atom_post s s' (Org o)).
  { intros c d Eo H1 H2 H3 H4 H5 H6 H7 H9 H10 H11. rewrite Eo. cbn [run app].
    rewrite step_org2; auto.
    destruct (bottom_spec s (mkAtom [c; d] 0%Z None None false) 1 c (d :: rest) HI)
      as [s1 [E [M [L [B0 [B1 [K [Br [U [P [C I1]]]]]]]]]]].
    rewrite E. rewrite step_skip by (cbn; lia).
    eexists. split; [reflexivity|].
    unfold atom_post. cbn [atoms bonds skip branch unclosed prev advance set_skip].
    cbn [pre_atom]. rewrite Eo.
    repeat match goal with |- _ /\ _ => split end; auto;
      first [ rewrite K; reflexivity | unfold pcl; cbn; assumption | unfold pc_is; cbn; assumption
            | apply Inv_advance; apply (same_core_Inv (advance c s1)); [repeat split | apply Inv_advance; exact I1] ]. }
  destruct o;
    first [ eapply Single; [reflexivity | reflexivity | reflexivity | reflexivity | reflexivity | reflexivity
                            | reflexivity | (intros d Hl Hr; cbn; rewrite ?Hl, ?Hr; reflexivity) | reflexivity | reflexivity]
          | eapply Double; reflexivity ].
Qed.
