(* C01/Props.v -- the property theorems.  `parse` is the model of autode.smiles.parser.Parser.parse
   (C01/Model.v, tied to /repo by the correspondence check), `chain` / `denote` / `spell` the
   independent reference reader (C01/Spec.v).  Each theorem is closed by a lemma of the L*.v files. *)
From Coq Require Import List Ascii String ZArith Bool Arith Lia Permutation.
From AV.C01 Require Import Base Model Spec Lemmas.
Import ListNotations.
Local Open Scope char_scope.

(* `parse` is a Gallina Fixpoint on the string (one `step` per character, no fuel), hence total by
   construction; that needs no theorem. *)

(* Never an unrelated exception: on EVERY byte string the outcome is a molecule or
   InvalidSmilesString.  (Crash models AssertionError / TypeError / IndexError / ValueError.) *)
Theorem parse_no_foreign_exception : forall s : str, parse s <> Crash.
Proof. exact parse_no_crash. Qed.

(* The main statement, for the WHOLE supported grammar (organic-subset and aromatic atoms, bracket
   atoms with @ marks / H count / charge / class, branches, ring closures with one-digit and %nn
   labels incl. label reuse, all bond symbols incl. / and \): for every lexically well-formed chain
   that denotes a molecule and every spelling choice (explicit "-", "%0n" labels), parsing the
   spelling yields exactly the denoted atoms (label, charge, hydrogen count, class - up to stereo
   marks) with the same numbering, and the denoted bonds (same pairs, same orders) up to the order
   in which the implementation lists them. *)
Theorem parse_spell_denote : forall (c : chain) (k : choices) da db,
  chain_ok c = true -> denote c = Some (da, db) ->
  exists pa pb, parse (spell (respell k c)) = Ok pa pb /\
                map erase_stereo pa = map erase_stereo da /\ Permutation pb db.
Proof. intros c k da db. apply parse_respell_denote_l. Qed.

(* The package's element list (regenerated from autode/atoms.py on every run) is the periodic table that the
   reference reader writes down independently (Spec.periodic, H ... Og): atomic numbers are positions in it. *)
Theorem elements_are_the_periodic_table : C01_Gen.elements = periodic.
Proof. symmetry. exact periodic_eq. Qed.

(* ... hence, for every spelling choice, the total charge equals the charge read off the syntax tree, and
   Parser.mult equals the reference reader's OWN electron-count parity: spec_mult sums atomic numbers from
   Spec.periodic, hydrogens and charges of the DENOTED atoms (Spec.v mentions neither Parser.mult nor the
   package's element list). *)
Theorem parse_charge_and_parity : forall (c : chain) (k : choices) da db,
  chain_ok c = true -> denote c = Some (da, db) ->
  exists pa pb, parse (spell (respell k c)) = Ok pa pb /\
    total_charge pa = chain_charge c /\ mult pa = spec_mult da.
Proof. intros c k da db. apply parse_charge_parity_respell_l. Qed.

(* PARTIAL.  Ring-label renaming: an INJECTIVE renaming of the labels does not change the denoted molecule,
   so (when the new labels are below 100) the parser reads both spellings as the same molecule.  Label
   REUSE in time ("C1CC1C2CC2" vs "C1CC1C1CC1", not an injective renaming) has no theorem relating the two
   trees: each spelling is related to its own denotation by parse_spell_denote, and their equality is
   checked by the generator stream only (label styles + isomorphism oracle). *)
Theorem ring_relabel_invariant_partial : forall (f : nat -> nat) (c : chain),
  (forall a b, f a = f b -> a = b) ->
  denote (rename f c) = denote c /\
  (forall da db, chain_ok (rename f c) = true -> denote c = Some (da, db) ->
     exists pa pb, parse (spell (rename f c)) = Ok pa pb /\
                   map erase_stereo pa = map erase_stereo da /\ Permutation pb db).
Proof.
  intros f c Hinj. split; [apply denote_rename; exact Hinj|].
  intros da db Hok Hd. apply parse_spell_denote_l; [exact Hok|]. rewrite (denote_rename f Hinj). exact Hd.
Qed.

(* ---- malformed classes that are rejected with InvalidSmilesString ---- *)

(* "." and "*" anywhere *)
Theorem reject_invalid_characters : forall (s : str) (c : ascii),
  In c C01_Gen.invalid_chars -> In c s -> parse s = Invalid.
Proof. exact reject_invalid_chars_l. Qed.

(* the first non-blank character does not begin an atom: a ring digit or "%" before the first atom,
   a leading bond symbol, a leading parenthesis, an unknown character *)
Theorem reject_bad_first_character : forall (s : str) (c : ascii) (r : str),
  strip s = c :: r -> atom_start c = false -> parse s = Invalid.
Proof. exact reject_bad_start_l. Qed.

(* a dangling bond symbol at the end *)
Theorem reject_trailing_bond : forall (s l : str) (x : ascii),
  strip s = (l ++ [x])%list -> is_bond_char x = true -> parse s = Invalid.
Proof. exact reject_trailing_bond_l. Qed.

(* an unterminated bracket: "[" with no "]" after it, wherever it stands *)
Theorem reject_unterminated_bracket : forall a b : str,
  ~ In "]" b -> parse (a ++ "[" :: b)%list = Invalid.
Proof. exact reject_open_bracket_l. Qed.

(* unbalanced parentheses *)
Theorem reject_unbalanced_parentheses : forall s : str,
  count_occ ascii_dec s "(" <> count_occ ascii_dec s ")" -> parse s = Invalid.
Proof. exact reject_unbalanced_parens_l. Qed.

(* an empty branch "()" / a branch opened twice "((" / ")" right after "(" -- anywhere in the string *)
Theorem reject_empty_or_nested_open_branch : forall (s a b : str) (y : ascii),
  strip s = (a ++ "(" :: y :: b)%list -> paren y = true -> parse s = Invalid.
Proof. intros s a b y. apply reject_open_then_paren_l. Qed.

(* PARTIAL (strings without "[" and "%"): a bond symbol followed by another bond symbol or a parenthesis
   ("C==C", "C=)C", "C=(C)C").  Inside a bracket such characters are ignored (reject_bracket_junk_refuted). *)
Theorem reject_interior_dangling_bond_partial : forall (s a b : str) (x y : ascii),
  plain s -> strip s = (a ++ x :: y :: b)%list -> is_bond_char x = true -> is_bond_char y || paren y = true ->
  parse s = Invalid.
Proof. intros s a b x y. apply reject_interior_dangling_l. Qed.

(* PARTIAL (strings without "[" and "%"): a ring label directly after "(" ("C1CC(1)") *)
Theorem reject_ring_label_at_branch_start_partial : forall (s a b : str) (d : ascii),
  plain s -> strip s = (a ++ "(" :: d :: b)%list -> is_digit d = true -> parse s = Invalid.
Proof. intros s a b d. apply reject_label_at_branch_start_l. Qed.

(* PARTIAL (strings without "[" and "%"): a ring label digit written an odd number of times is an
   unclosed ring.  Inside brackets digits are hydrogen counts / charges / classes and after "%" they
   are two-digit labels, so the general statement needs the token structure; those strings are
   covered by parse_spell_denote (well formed) and by the correspondence check only. *)
Theorem reject_unclosed_ring_partial : forall (s : str) (x : ascii) (v : nat),
  plain s -> digit_val x = Some v -> Nat.odd (count_occ ascii_dec s x) = true -> parse s = Invalid.
Proof. exact reject_unclosed_ring_l. Qed.

(* PARTIAL (strings without "[" and "%"): any character that is not a bond symbol, digit, parenthesis,
   organic/aromatic symbol or the second letter of Cl/Br.  Not true inside a bracket (see
   reject_bracket_junk_refuted). *)
Theorem reject_unknown_character_partial : forall (s : str) (x : ascii),
  plain s -> In x s -> is_space x = false -> known x = false -> parse s = Invalid.
Proof. exact reject_unknown_char_l. Qed.

(* ---- statements of the property that are FALSE of the faithful model: concrete witnesses.
   Each is reported by the check as a finding (harness/c01.py, key in the comment). ---- *)
Local Open Scope string_scope.
Definition S (s : string) : str := list_ascii_of_string s.

(* "a spelling is accepted only if its chain denotes a molecule" fails: ring bond closing on its own
   atom (Parser.parse|self-ring-accepted) *)
Theorem reject_self_ring_refuted :
  exists c, chain_ok c = true /\ denote c = None /\ spell c = S "C11" /\ accepted (parse (spell c)).
Proof.
  exists (Atom (Org OC) [mkRref BImp 1 false; mkRref BImp 1 false] TEnd).
  repeat split; try reflexivity. eexists; eexists; vm_compute; reflexivity.
Qed.
(* a ring bond doubling an existing bond (Parser.parse|duplicate-ring-bond-accepted) *)
Theorem reject_duplicate_ring_bond_refuted :
  exists c, chain_ok c = true /\ denote c = None /\ spell c = S "C1C1" /\ accepted (parse (spell c)).
Proof.
  exists (Atom (Org OC) [mkRref BImp 1 false] (TNext BImp (Atom (Org OC) [mkRref BImp 1 false] TEnd))).
  repeat split; try reflexivity. eexists; eexists; vm_compute; reflexivity.
Qed.
(* conflicting bond symbols at the two ends of a ring bond (Parser.parse|ring-bond-conflict) *)
Theorem reject_ring_bond_conflict_refuted :
  exists c, chain_ok c = true /\ denote c = None /\ spell c = S "C=1CC#1" /\ accepted (parse (spell c)).
Proof.
  exists (Atom (Org OC) [mkRref BDouble 1 false]
            (TNext BImp (Atom (Org OC) [] (TNext BImp (Atom (Org OC) [mkRref BTriple 1 false] TEnd))))).
  repeat split; try reflexivity. eexists; eexists; vm_compute; reflexivity.
Qed.
(* unparsed content inside a bracket, and a wrong charge (Parser.parse|bracket-junk-accepted) *)
Theorem reject_bracket_junk_refuted :
  accepted (parse (S "[N4]")) /\ accepted (parse (S "[C~?]")) /\
  exists a, parse (S "[Fe+++]") = Ok [a] [] /\ a_charge a = 2%Z.
Proof. split; [eexists; eexists; vm_compute; reflexivity|]. split; [eexists; eexists; vm_compute; reflexivity|].
       eexists. split; vm_compute; reflexivity. Qed.
(* "[se]" is read as aromatic sulfur (Parser.parse|aromatic-se-as) *)
Theorem aromatic_selenium_refuted :
  exists a, parse (S "[se]") = Ok [a] [] /\ a_label a = S "s".
Proof. eexists. split; vm_compute; reflexivity. Qed.
(* a blank string is the empty molecule (Parser.parse|blank-accepted) *)
Theorem reject_blank_refuted : parse (S "  ") = Ok [] [].
Proof. vm_compute. reflexivity. Qed.
(* ---- non-vacuity: the hypotheses of parse_spell_denote are satisfiable on a fused bicyclic with a
   bracket atom, a charge, an atom class, a "%12" label, a branch and a double ring bond ---- *)
Definition ex_chain : chain :=
  Atom (Org OC) [mkRref BImp 1 false]
    (TNext BImp (Atom (Org OC) [mkRref BImp 12 false]
      (TBranch BImp (Atom (Brk (mkBracket (S "N") 0 (HNum 2) (CSign true) (Some [7]))) [] TEnd)
        (TNext BImp (Atom (Org OC) []
          (TNext BImp (Atom (Org OC) [mkRref BDouble 12 true]
            (TNext BImp (Atom (Org ON) [mkRref BImp 1 true] TEnd))))))))).
Example ex_chain_well_formed :
  chain_ok ex_chain = true /\ spell ex_chain = S "C1C%12([NH2+:7])CC=%12N%01" /\
  exists da db, denote ex_chain = Some (da, db) /\ List.length da = 6 /\ List.length db = 7.
Proof. split; [reflexivity|]. split; [reflexivity|]. eexists; eexists. split; [vm_compute; reflexivity|]. split; reflexivity. Qed.
Example ex_relabel : (forall a b, (fun l => l + 20) a = (fun l => l + 20) b -> a = b) /\
  chain_ok (rename (fun l => l + 20) ex_chain) = true.
Proof. split; [intros a b H; lia | reflexivity]. Qed.
(* a four-digit class, H0, a two-letter symbol with H count, a numeric charge: inside the grammar *)
Example ex_bracket_forms :
  chain_ok (Atom (Brk (mkBracket (S "Si") 0 (HNum 0) (CNum true 0) (Some [1; 2; 3; 4]))) [] TEnd) = true /\
  spell (Atom (Brk (mkBracket (S "Si") 0 (HNum 0) (CNum true 0) (Some [1; 2; 3; 4]))) [] TEnd) = S "[SiH0+0:1234]".
Proof. split; reflexivity. Qed.
Example ex_rejections :
  parse (S "1CC1") = Invalid /\ parse (S "C(") = Invalid /\ parse (S "C=") = Invalid /\ parse (S "C1CC") = Invalid /\
  parse (S "[CH4") = Invalid /\ parse (S "C?C") = Invalid /\ parse (S "C.C") = Invalid /\
  parse (S "C%+1CC1") = Invalid /\ parse (S "C1CC(1)") = Invalid /\ parse (S "C(=1)CC1") = Invalid /\ parse (S "[X]") = Invalid /\
  parse (S "[C:+1]") = Invalid /\ parse (S "[C: 7]") = Invalid /\ parse (S "[C:1_0]") = Invalid /\ parse (S "[C:]") = Invalid.
Proof. repeat split; vm_compute; reflexivity. Qed.
