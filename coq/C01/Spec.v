(* C01/Spec.v -- the independent reference reader.  A SMILES string of the supported grammar is the
   spelling of an abstract syntax tree `chain`

       chain   ::=  atom ringbond* tail
       tail    ::=  (empty)  |  "(" bond? chain ")" tail  |  bond? chain
       ringbond::=  bond? ( DIGIT | "%" DIGIT DIGIT )
       atom    ::=  organic-subset symbol | aromatic symbol
                 |  "[" symbol chirality? hcount? charge? class? "]"

   `denote` gives the molecule a chain stands for, in plain denotational style over the tree:
   every atom receives the next free index, a bond joins it to its parent, ring-bond labels are
   resolved through an environment of open labels, hydrogens of organic-subset atoms follow the
   OpenSMILES valence rule.  `spell` prints a chain; the spelling choices (explicit "-" for a single
   bond, "%0n" for a one-digit label) are fields of the tree that `denote` ignores, and `respell`
   overwrites them.  Nothing in this file mentions the parser's state machine. *)
From Coq Require Import List Ascii ZArith Bool Arith Lia.
From AV.C01 Require Import Base.
From AV.gen Require Import C01_Gen.
Import ListNotations.
Open Scope char_scope.
Open Scope nat_scope.

(* bond symbols: none, - = # $ / \ *)
Inductive bsym := BImp | BSingle | BDouble | BTriple | BQuad | BUp | BDown.

(* organic-subset and aromatic symbols that may be written without brackets *)
Inductive osym := OB | OC | ON | OO | OP | OS | OF | OCl | OBr | OI
                | Ab | Ac | An | Ao | As | Ap.

Inductive hspec := HNone | HOne | HNum (d : nat).                      (* "", "H", "Hd" *)
Inductive cspec := CNone | CSign (pos : bool) | CNum (pos : bool) (d : nat) | CDouble (pos : bool).
                                                                        (* "", "+", "+d", "++" *)
Record bracket := mkBracket {
  k_sym : str;                      (* element symbol or aromatic symbol *)
  k_chir : nat;                     (* number of '@' written: 0, 1 or 2 *)
  k_h : hspec;
  k_c : cspec;
  k_class : option (list nat) }.    (* the decimal digits after ':' *)

Inductive satom := Org (o : osym) | Brk (b : bracket).

Record rref := mkRref { rr_b : bsym; rr_lbl : nat; rr_pct : bool }.

Inductive chain :=
| Atom (a : satom) (rs : list rref) (t : tail)
with tail :=
| TEnd
| TBranch (b : bsym) (c : chain) (t : tail)
| TNext (b : bsym) (c : chain).

Scheme chain_ind2 := Induction for chain Sort Prop
  with tail_ind2 := Induction for tail Sort Prop.
Combined Scheme chain_tail_ind from chain_ind2, tail_ind2.

(* ------------------------------------------------------------------ printer *)
Definition osym_str (o : osym) : str :=
  match o with
  | OB => ["B"] | OC => ["C"] | ON => ["N"] | OO => ["O"] | OP => ["P"] | OS => ["S"] | OF => ["F"]
  | OCl => ["C"; "l"] | OBr => ["B"; "r"] | OI => ["I"]
  | Ab => ["b"] | Ac => ["c"] | An => ["n"] | Ao => ["o"] | As => ["s"] | Ap => ["p"]
  end.

Definition digit_char (d : nat) : ascii :=
  match d with
  | 0 => "0" | 1 => "1" | 2 => "2" | 3 => "3" | 4 => "4" | 5 => "5" | 6 => "6" | 7 => "7" | 8 => "8"
  | _ => "9"
  end.

Definition spell_bsym (b : bsym) : str :=
  match b with
  | BImp => [] | BSingle => ["-"] | BDouble => ["="] | BTriple => ["#"] | BQuad => ["$"]
  | BUp => ["/"] | BDown => ["\"]
  end.

Definition spell_h (h : hspec) : str :=
  match h with HNone => [] | HOne => ["H"] | HNum d => ["H"; digit_char d] end.
Definition sign_char (pos : bool) : ascii := if pos then "+" else "-".
Definition spell_c (c : cspec) : str :=
  match c with
  | CNone => []
  | CSign p => [sign_char p]
  | CNum p d => [sign_char p; digit_char d]
  | CDouble p => [sign_char p; sign_char p]
  end.
Definition spell_class (k : option (list nat)) : str :=
  match k with None => [] | Some ds => ":" :: map digit_char ds end.
Definition bracket_body (b : bracket) : str :=
  k_sym b ++ repeat "@" (k_chir b) ++ spell_h (k_h b) ++ spell_c (k_c b) ++ spell_class (k_class b).
Definition spell_atom (a : satom) : str :=
  match a with
  | Org o => osym_str o
  | Brk b => "[" :: bracket_body b ++ ["]"]
  end.

Definition spell_label (l : nat) (pct : bool) : str :=
  if pct || (10 <=? l) then ["%"; digit_char (l / 10); digit_char (l mod 10)] else [digit_char l].
Definition spell_rref (r : rref) : str := spell_bsym (rr_b r) ++ spell_label (rr_lbl r) (rr_pct r).
Definition spell_rrefs (rs : list rref) : str := flat_map spell_rref rs.

Fixpoint spell (c : chain) : str :=
  match c with
  | Atom a rs t => spell_atom a ++ spell_rrefs rs ++ spell_tail t
  end
with spell_tail (t : tail) : str :=
  match t with
  | TEnd => []
  | TBranch b c t' => "(" :: spell_bsym b ++ spell c ++ ")" :: spell_tail t'
  | TNext b c => spell_bsym b ++ spell c
  end.

(* spelling choices: k_single n = write the n-th implicit/single bond between two atoms as "-";
   k_pct n = write the n-th ring label with "%" (labels above 9 always are).  The bond symbol at a
   ring label is left alone: "C1CC=1" and "C-1CC=1" are not the same (the second is ill formed). *)
Record choices := mkChoices { k_single : nat -> bool; k_pct : nat -> bool }.

Definition respell_b (k : choices) (n : nat) (b : bsym) : bsym :=
  match b with
  | BImp | BSingle => if k_single k n then BSingle else BImp
  | _ => b
  end.
Fixpoint respell_rs (k : choices) (n : nat) (rs : list rref) : list rref * nat :=
  match rs with
  | [] => ([], n)
  | r :: rs' =>
      let '(rs'', n') := respell_rs k (S n) rs' in
      (mkRref (rr_b r) (rr_lbl r) (k_pct k n) :: rs'', n')
  end.
Fixpoint respell_from (k : choices) (n : nat) (c : chain) : chain * nat :=
  match c with
  | Atom a rs t =>
      let '(rs', n1) := respell_rs k n rs in
      let '(t', n2) := respell_tail k n1 t in
      (Atom a rs' t', n2)
  end
with respell_tail (k : choices) (n : nat) (t : tail) : tail * nat :=
  match t with
  | TEnd => (TEnd, n)
  | TBranch b c t' =>
      let '(c', n1) := respell_from k (S n) c in
      let '(t'', n2) := respell_tail k n1 t' in
      (TBranch (respell_b k n b) c' t'', n2)
  | TNext b c =>
      let '(c', n1) := respell_from k (S n) c in
      (TNext (respell_b k n b) c', n1)
  end.
Definition respell (k : choices) (c : chain) : chain := fst (respell_from k 0 c).

(* ------------------------------------------------------------------ meaning *)
Definition bsym_order (b : bsym) : nat :=
  match b with BDouble => 2 | BTriple => 3 | BQuad => 4 | _ => 1 end.
Definition bsym_implicit (b : bsym) : bool := match b with BImp => true | _ => false end.

(* order of a ring bond written with b1 at the opening and b2 at the closing digit: either side may
   leave it out; when both give it they must agree *)
Definition ring_order (b1 b2 : bsym) : option nat :=
  if bsym_implicit b1 then Some (bsym_order b2)
  else if bsym_implicit b2 then Some (bsym_order b1)
  else if bsym_order b1 =? bsym_order b2 then Some (bsym_order b1) else None.

(* OpenSMILES "normal valences" of the organic subset; an aromatic atom counts one less *)
Definition valences (o : osym) : list nat :=
  match o with
  | OB => [3] | OC => [4] | ON => [3; 5] | OO => [2] | OP => [3; 5] | OS => [2; 4; 6]
  | OF | OCl | OBr | OI => [1]
  | Ab => [2] | Ac => [3] | An => [2] | Ao => [1] | As => [1] | Ap => [2]
  end.
(* the smallest normal valence that accommodates the bonds written, else none *)
Definition hcount (vals : list nat) (sum : nat) : nat :=
  match find (fun v => sum <=? v) vals with Some v => v - sum | None => 0 end.

Definition h_value (h : hspec) : nat := match h with HNone => 0 | HOne => 1 | HNum d => d end.
Definition sign_z (pos : bool) : Z := if pos then 1%Z else (-1)%Z.
Definition c_value (c : cspec) : Z :=
  match c with
  | CNone => 0%Z
  | CSign p => sign_z p
  | CNum p d => (sign_z p * Z.of_nat d)%Z
  | CDouble p => (sign_z p * 2)%Z
  end.
Definition digits_value (ds : list nat) : nat := fold_left (fun acc d => 10 * acc + d) ds 0.
Definition class_value (k : option (list nat)) : option Z :=
  match k with None => None | Some ds => Some (Z.of_nat (digits_value ds)) end.

Record env := mkEnv {
  e_atoms : list satom;                       (* atom i of the molecule is the i-th entry *)
  e_bonds : list bond;                        (* (lower index, higher index, order) *)
  e_open : list (nat * (nat * bsym)) }.       (* open ring label -> (atom, bond symbol written) *)

Definition env0 : env := mkEnv [] [] [].

Fixpoint open_lookup (l : nat) (o : list (nat * (nat * bsym))) : option (nat * bsym) :=
  match o with [] => None | (l', v) :: r => if l =? l' then Some v else open_lookup l r end.
Fixpoint open_remove (l : nat) (o : list (nat * (nat * bsym))) : list (nat * (nat * bsym)) :=
  match o with [] => [] | (l', v) :: r => if l =? l' then r else (l', v) :: open_remove l r end.

Definition bonded (i j : nat) (bs : list bond) : bool :=
  existsb (fun b => ((b_i b =? i) && (b_j b =? j)) || ((b_i b =? j) && (b_j b =? i))) bs.

(* one ring-bond reference written on atom i *)
Definition den_rref (i : nat) (r : rref) (e : env) : option env :=
  match open_lookup (rr_lbl r) (e_open e) with
  | None => Some (mkEnv (e_atoms e) (e_bonds e) (e_open e ++ [(rr_lbl r, (i, rr_b r))]))
  | Some (j, b0) =>
      if (j =? i) || bonded j i (e_bonds e) then None         (* a ring bond joins two distinct, *)
      else match ring_order b0 (rr_b r) with                   (* not yet bonded atoms            *)
           | None => None
           | Some o => Some (mkEnv (e_atoms e) (e_bonds e ++ [mkBond j i o])
                                   (open_remove (rr_lbl r) (e_open e)))
           end
  end.
Fixpoint den_rrefs (i : nat) (rs : list rref) (e : env) : option env :=
  match rs with
  | [] => Some e
  | r :: rs' => match den_rref i r e with None => None | Some e' => den_rrefs i rs' e' end
  end.

Fixpoint den (c : chain) (parent : option (nat * bsym)) (e : env) : option env :=
  match c with
  | Atom a rs t =>
      let i := length (e_atoms e) in
      let bs := match parent with
                | None => e_bonds e
                | Some (p, b) => e_bonds e ++ [mkBond p i (bsym_order b)]
                end in
      match den_rrefs i rs (mkEnv (e_atoms e ++ [a]) bs (e_open e)) with
      | None => None
      | Some e1 => den_tail t i e1
      end
  end
with den_tail (t : tail) (i : nat) (e : env) : option env :=
  match t with
  | TEnd => Some e
  | TBranch b c t' => match den c (Some (i, b)) e with None => None | Some e' => den_tail t' i e' end
  | TNext b c => den c (Some (i, b)) e
  end.

Definition degree_sum (i : nat) (bs : list bond) : nat :=
  fold_right (fun b acc => if (b_i b =? i) || (b_j b =? i) then b_ord b + acc else acc) 0 bs.

Definition atom_of (a : satom) (sum : nat) : atom :=
  match a with
  | Org o => mkAtom (osym_str o) 0%Z (Some (hcount (valences o) sum)) None false
  | Brk b => mkAtom (k_sym b) (c_value (k_c b)) (Some (h_value (k_h b))) (class_value (k_class b))
                    (0 <? k_chir b)
  end.
Fixpoint atoms_from (i : nat) (l : list satom) (bs : list bond) : list atom :=
  match l with
  | [] => []
  | a :: r => atom_of a (degree_sum i bs) :: atoms_from (S i) r bs
  end.

(* the molecule denoted by a chain; None = the chain is not well formed (a label left open, a ring
   bond closing on its own atom or doubling a bond, conflicting ring-bond symbols) *)
Definition denote (c : chain) : option (list atom * list bond) :=
  match den c None env0 with
  | None => None
  | Some e =>
      match e_open e with
      | [] => Some (atoms_from 0 (e_atoms e) (e_bonds e), e_bonds e)
      | _ :: _ => None
      end
  end.

(* ------------------------------------------------------------------ lexical well-formedness *)
Definition digit_ok (d : nat) : bool := d <? 10.
Definition h_ok (h : hspec) : bool := match h with HNum d => digit_ok d | _ => true end.
Definition c_ok (c : cspec) : bool := match c with CNum _ d => digit_ok d | _ => true end.
(* the class is a non-empty decimal numeral; Python's int() refuses more than 4300 digits *)
Definition max_class_digits : nat := 4300.
Definition class_ok (k : option (list nat)) : bool :=
  match k with
  | None => true
  | Some ds => negb (length ds =? 0) && forallb digit_ok ds && (length ds <=? max_class_digits)
  end.
(* the periodic table, written down here independently of the package (hydrogen ... oganesson); the atomic
   number of a symbol is its position.  Props.elements_are_the_periodic_table states that the package's
   `elements` list (regenerated from autode/atoms.py on every run) is this list. *)
Definition periodic : list str := [
  ["H"]; ["H"; "e"]; ["L"; "i"]; ["B"; "e"]; ["B"]; ["C"]; ["N"]; ["O"]; ["F"]; ["N"; "e"];
  ["N"; "a"]; ["M"; "g"]; ["A"; "l"]; ["S"; "i"]; ["P"]; ["S"]; ["C"; "l"]; ["A"; "r"]; ["K"]; ["C"; "a"];
  ["S"; "c"]; ["T"; "i"]; ["V"]; ["C"; "r"]; ["M"; "n"]; ["F"; "e"]; ["C"; "o"]; ["N"; "i"]; ["C"; "u"]; ["Z"; "n"];
  ["G"; "a"]; ["G"; "e"]; ["A"; "s"]; ["S"; "e"]; ["B"; "r"]; ["K"; "r"]; ["R"; "b"]; ["S"; "r"]; ["Y"]; ["Z"; "r"];
  ["N"; "b"]; ["M"; "o"]; ["T"; "c"]; ["R"; "u"]; ["R"; "h"]; ["P"; "d"]; ["A"; "g"]; ["C"; "d"]; ["I"; "n"]; ["S"; "n"];
  ["S"; "b"]; ["T"; "e"]; ["I"]; ["X"; "e"]; ["C"; "s"]; ["B"; "a"]; ["L"; "a"]; ["C"; "e"]; ["P"; "r"]; ["N"; "d"];
  ["P"; "m"]; ["S"; "m"]; ["E"; "u"]; ["G"; "d"]; ["T"; "b"]; ["D"; "y"]; ["H"; "o"]; ["E"; "r"]; ["T"; "m"]; ["Y"; "b"];
  ["L"; "u"]; ["H"; "f"]; ["T"; "a"]; ["W"]; ["R"; "e"]; ["O"; "s"]; ["I"; "r"]; ["P"; "t"]; ["A"; "u"]; ["H"; "g"];
  ["T"; "l"]; ["P"; "b"]; ["B"; "i"]; ["P"; "o"]; ["A"; "t"]; ["R"; "n"]; ["F"; "r"]; ["R"; "a"]; ["A"; "c"]; ["T"; "h"];
  ["P"; "a"]; ["U"]; ["N"; "p"]; ["P"; "u"]; ["A"; "m"]; ["C"; "m"]; ["B"; "k"]; ["C"; "f"]; ["E"; "s"]; ["F"; "m"];
  ["M"; "d"]; ["N"; "o"]; ["L"; "r"]; ["R"; "f"]; ["D"; "b"]; ["S"; "g"]; ["B"; "h"]; ["H"; "s"]; ["M"; "t"]; ["D"; "s"];
  ["R"; "g"]; ["C"; "n"]; ["N"; "h"]; ["F"; "l"]; ["M"; "c"]; ["L"; "v"]; ["T"; "s"]; ["O"; "g"]].
Definition spec_z (label : str) : nat := S (index_str (capitalize label) periodic).
(* bracket symbols: any element of the periodic table, or b c n o p s *)
Definition arom_syms : list str := [["b"]; ["c"]; ["n"]; ["o"]; ["s"]; ["p"]].
Definition sym_ok (s : str) : bool := mem_str s periodic || mem_str s arom_syms.
Definition bracket_ok (b : bracket) : bool :=
  sym_ok (k_sym b) && (k_chir b <=? 2) && h_ok (k_h b) && c_ok (k_c b) && class_ok (k_class b).
Definition satom_ok (a : satom) : bool := match a with Org _ => true | Brk b => bracket_ok b end.
Definition rref_ok (r : rref) : bool := rr_lbl r <? 100.

Fixpoint chain_ok (c : chain) : bool :=
  match c with
  | Atom a rs t => satom_ok a && forallb rref_ok rs && tail_ok t
  end
with tail_ok (t : tail) : bool :=
  match t with
  | TEnd => true
  | TBranch _ c t' => chain_ok c && tail_ok t'
  | TNext _ c => chain_ok c
  end.

(* ------------------------------------------------------------------ ring-label renaming *)
Definition rename_rref (f : nat -> nat) (r : rref) : rref := mkRref (rr_b r) (f (rr_lbl r)) (rr_pct r).
Fixpoint rename (f : nat -> nat) (c : chain) : chain :=
  match c with
  | Atom a rs t => Atom a (map (rename_rref f) rs) (rename_tail f t)
  end
with rename_tail (f : nat -> nat) (t : tail) : tail :=
  match t with
  | TEnd => TEnd
  | TBranch b c t' => TBranch b (rename f c) (rename_tail f t')
  | TNext b c => TNext b (rename f c)
  end.

(* ------------------------------------------------------------------ electron count of a molecule *)
(* sum of atomic numbers (periodic table above) plus hydrogens minus the total charge *)
Definition spec_electrons (ats : list atom) : Z :=
  fold_right (fun a acc => (Z.of_nat (spec_z (a_label a)) + Z.of_nat (match a_nh a with Some h => h | None => 0 end)
                            - a_charge a + acc)%Z) 0%Z ats.
(* multiplicity of the lowest-spin state: singlet for an even, doublet for an odd number of electrons *)
Definition spec_mult (ats : list atom) : Z := (spec_electrons ats mod 2 + 1)%Z.

(* ------------------------------------------------------------------ totals read off the tree *)
Definition satom_charge (a : satom) : Z := match a with Org _ => 0%Z | Brk b => c_value (k_c b) end.
Fixpoint chain_charge (c : chain) : Z :=
  match c with Atom a _ t => (satom_charge a + tail_charge t)%Z end
with tail_charge (t : tail) : Z :=
  match t with
  | TEnd => 0%Z
  | TBranch _ c t' => (chain_charge c + tail_charge t')%Z
  | TNext _ c => chain_charge c
  end.
