(* C01/LBasic.v -- basic lemmas: strings, the generated tables, running the parser over a prefix,
   the state invariant and the absence of foreign exceptions. *)
From Coq Require Import List Ascii ZArith Bool Arith Lia Permutation.
From AV.C01 Require Import Base Model.
From AV.gen Require Import C01_Gen.
Import ListNotations.
Open Scope char_scope.
Open Scope nat_scope.

(* ------------------------------------------------------------------ strings *)
Lemma ceqb_eq a b : ceqb a b = true <-> a = b.
Proof. unfold ceqb. apply Ascii.eqb_eq. Qed.
Lemma ceqb_refl a : ceqb a a = true.
Proof. apply ceqb_eq. reflexivity. Qed.
Lemma ceqb_neq a b : ceqb a b = false <-> a <> b.
Proof. unfold ceqb. apply Ascii.eqb_neq. Qed.

Lemma str_eqb_eq a b : str_eqb a b = true <-> a = b.
Proof.
  revert b. induction a as [|x a IH]; destruct b as [|y b]; cbn; try (split; congruence).
  rewrite andb_true_iff, ceqb_eq, IH. split; [intros [-> ->]; reflexivity | intros H; inversion H; auto].
Qed.
Lemma str_eqb_refl a : str_eqb a a = true.
Proof. apply str_eqb_eq. reflexivity. Qed.

Lemma mem_char_In c l : mem_char c l = true <-> In c l.
Proof.
  unfold mem_char. rewrite existsb_exists. split.
  - intros [x [Hx He]]. apply ceqb_eq in He. subst. exact Hx.
  - intros H. exists c. split; [exact H | apply ceqb_refl].
Qed.
Lemma mem_str_In s l : mem_str s l = true <-> In s l.
Proof.
  unfold mem_str. rewrite existsb_exists. split.
  - intros [x [Hx He]]. apply str_eqb_eq in He. subst. exact Hx.
  - intros H. exists s. split; [exact H | apply str_eqb_refl].
Qed.
Lemma mem_char_app c l1 l2 : mem_char c (l1 ++ l2) = mem_char c l1 || mem_char c l2.
Proof. unfold mem_char. apply existsb_app. Qed.

(* a property of every member of a finite table, from a boolean sweep *)
Lemma table_forall (P : str -> bool) (l : list str) s :
  forallb P l = true -> mem_str s l = true -> P s = true.
Proof. intros H Hm. apply mem_str_In in Hm. rewrite forallb_forall in H. apply H. exact Hm. Qed.

(* ------------------------------------------------------------------ running over a prefix *)
(* process the characters of l; `rest` is what follows them (the lookahead of the last steps) *)
Fixpoint run (s : st) (l rest : str) : outcome :=
  match l with
  | [] => Next s
  | c :: l' =>
      match step s c (l' ++ rest) with
      | Next s' => run (advance c s') l' rest
      | Stop r => Stop r
      end
  end.

Lemma go_run s l rest :
  go s (l ++ rest) = match run s l rest with Next s' => go s' rest | Stop r => r end.
Proof.
  revert s. induction l as [|c l IH]; intros s; cbn; [reflexivity|].
  destruct (step s c (l ++ rest)); [apply IH | reflexivity].
Qed.

Lemma run_app s l1 l2 rest :
  run s (l1 ++ l2) rest =
  match run s l1 (l2 ++ rest) with Next s' => run s' l2 rest | Stop r => Stop r end.
Proof.
  revert s. induction l1 as [|c l1 IH]; intros s; cbn; [reflexivity|].
  rewrite <- app_assoc. destruct (step s c (l1 ++ l2 ++ rest)); [apply IH | reflexivity].
Qed.

Lemma run_nil s rest : run s [] rest = Next s.
Proof. reflexivity. Qed.

Lemma run_cons s c l rest :
  run s (c :: l) rest =
  match step s c (l ++ rest) with Next s' => run (advance c s') l rest | Stop r => Stop r end.
Proof. reflexivity. Qed.

(* ------------------------------------------------------------------ the state invariant *)
Definition bond_lt (n : nat) (b : bond) : Prop := b_i b < n /\ b_j b < n.

Record Inv (s : st) : Prop := mkInv {
  inv_prev : atoms s = [] \/ exists p, prev s = Some p /\ p < length (atoms s);
  inv_bonds : Forall (bond_lt (length (atoms s))) (bonds s);
  inv_branch : Forall (fun x => x < length (atoms s)) (branch s);
  inv_unclosed : Forall (fun kr => r_i (snd kr) < length (atoms s)) (unclosed s) }.

Lemma Inv_init : Inv init.
Proof. split; cbn; auto. Qed.

Lemma Inv_advance c s : Inv s -> Inv (advance c s).
Proof. intros [A B C D]. split; cbn; assumption. Qed.

Lemma mark_length k l l' : mark k l = Some l' -> length l' = length l.
Proof.
  revert k l'. induction l as [|a l IH]; intros k l'; destruct k; cbn; try discriminate.
  - intros H. inversion H. reflexivity.
  - destruct (mark k l) eqn:E; cbn; [|discriminate]. intros H. inversion H. cbn. f_equal. eapply IH. exact E.
Qed.
Lemma mark_some k l : k < length l -> exists l', mark k l = Some l'.
Proof.
  revert k. induction l as [|a l IH]; intros k Hk; cbn in Hk; [lia|].
  destruct k; cbn; [eexists; reflexivity|].
  destruct (IH k) as [l' E]; [lia|]. rewrite E. cbn. eexists; reflexivity.
Qed.
Lemma mark_erase k l l' : mark k l = Some l' -> map erase_stereo l' = map erase_stereo l.
Proof.
  revert k l'. induction l as [|a l IH]; intros k l'; destruct k; cbn; try discriminate.
  - intros H. inversion H. reflexivity.
  - destruct (mark k l) eqn:E; cbn; [|discriminate]. intros H. inversion H. cbn. f_equal. eapply IH. exact E.
Qed.

Lemma Forall_bond_lt_mono n m l : n <= m -> Forall (bond_lt n) l -> Forall (bond_lt m) l.
Proof. intros H. apply Forall_impl. intros b [A B]. split; lia. Qed.

Lemma bonds_append_Forall n b l :
  bond_lt n b -> Forall (bond_lt n) l -> Forall (bond_lt n) (bonds_append b l).
Proof.
  intros Hb Hl. unfold bonds_append. destruct (bond_exists b l || self_bond b); [exact Hl|].
  apply Forall_app. split; [exact Hl | constructor; [exact Hb | constructor]].
Qed.
Lemma bonds_insert_Forall n k b l :
  bond_lt n b -> Forall (bond_lt n) l -> Forall (bond_lt n) (bonds_insert k b l).
Proof.
  intros Hb Hl. unfold bonds_insert. destruct (bond_exists b l || self_bond b); [exact Hl|].
  apply Forall_app. split.
  - rewrite <- (firstn_skipn k l) in Hl. apply Forall_app in Hl. tauto.
  - constructor; [exact Hb|]. rewrite <- (firstn_skipn k l) in Hl. apply Forall_app in Hl. tauto.
Qed.

Lemma last_some_In {A} (l : list A) b : last (map Some l) None = Some b -> In b l.
Proof.
  induction l as [|x l IH]; cbn; [discriminate|].
  destruct l as [|y l]; [intros H; inversion H; left; reflexivity|].
  intros H. right. apply IH. exact H.
Qed.
Lemma last_some_ex {A} (l : list A) : l <> [] -> exists b, last (map Some l) None = Some b.
Proof.
  induction l as [|x l IH]; [congruence|]. intros _.
  destruct l as [|y l]; [exists x; reflexivity|].
  destruct IH as [b Hb]; [discriminate|]. exists b. exact Hb.
Qed.
Lemma last_snoc {A} (l : list A) b : last (map Some (l ++ [b])) None = Some b.
Proof.
  induction l as [|x l IH]; [reflexivity|].
  cbn [app map]. destruct (l ++ [b]) eqn:E; [destruct l; discriminate|]. exact IH.
Qed.

Lemma bonds_append_nonempty b l : self_bond b = false -> bonds_append b l <> [].
Proof.
  intros Hs. unfold bonds_append. rewrite Hs, orb_false_r.
  destruct (bond_exists b l) eqn:E.
  - destruct l; [discriminate | discriminate].
  - destruct l; discriminate.
Qed.

(* ------------------------------------------------------------------ table facts used for crash freedom *)
Lemma elements_capitalized : forallb (fun e => mem_str (capitalize e) elements) elements = true.
Proof. vm_compute. reflexivity. Qed.
Lemma aromatic_capitalized : forallb (fun e => mem_str (capitalize e) elements) aromatic_symbols = true.
Proof. vm_compute. reflexivity. Qed.
Lemma organic_capitalized :
  forallb (fun e => mem_str (capitalize e) elements) (organic_symbols ++ aromatic_symbols) = true.
Proof. vm_compute. reflexivity. Qed.
Lemma two_letter_capitalized : forallb (fun e => mem_str (capitalize e) elements) two_letter_organic = true.
Proof. vm_compute. reflexivity. Qed.

Lemma smiles_atom_some label st nh q cl :
  mem_str (capitalize label) elements = true ->
  smiles_atom label st nh q cl = Some (mkAtom label q nh cl st).
Proof. intros H. unfold smiles_atom. rewrite H. reflexivity. Qed.

Lemma cap_of_element label : mem_str label elements = true -> mem_str (capitalize label) elements = true.
Proof. intros H. exact (table_forall _ _ _ elements_capitalized H). Qed.
Lemma cap_of_aromatic label : mem_str label aromatic_symbols = true -> mem_str (capitalize label) elements = true.
Proof. intros H. exact (table_forall _ _ _ aromatic_capitalized H). Qed.

Lemma parse_sq_bracket_no_crash sec : parse_sq_bracket sec <> BCrash.
Proof.
  unfold parse_sq_bracket.
  destruct (mem_char "(" sec || mem_char ")" sec); [discriminate|].
  destruct sec as [|c1 [|c2 r2]]; [discriminate| |].
  - destruct (mem_str [c1] elements) eqn:E1; cbn [negb andb].
    + rewrite (smiles_atom_some _ _ _ _ _ (cap_of_element _ E1)). discriminate.
    + destruct (mem_str [c1] aromatic_symbols) eqn:E2; cbn [negb]; [|discriminate].
      rewrite (smiles_atom_some _ _ _ _ _ (cap_of_aromatic _ E2)). discriminate.
  - assert (Hl : forall label, (mem_str label elements = true \/ mem_str label aromatic_symbols = true) ->
                 forall a b c d, of_atom (smiles_atom label a b c d) <> BCrash).
    { intros label [H|H] a b c d.
      - rewrite (smiles_atom_some _ _ _ _ _ (cap_of_element _ H)). discriminate.
      - rewrite (smiles_atom_some _ _ _ _ _ (cap_of_aromatic _ H)). discriminate. }
    destruct (mem_str [c1; c2] elements) eqn:E12.
    + destruct r2 as [|x r2]; [apply Hl; left; exact E12|].
      destruct (has_other_element (x :: r2)); [discriminate|].
      destruct (atomic_class (x :: r2)); [|discriminate]. apply Hl. left. exact E12.
    + destruct (mem_str [c1] elements || mem_str [c1] aromatic_symbols) eqn:E1; [|discriminate].
      apply orb_true_iff in E1.
      destruct (has_other_element (c2 :: r2)); [discriminate|].
      destruct (atomic_class (c2 :: r2)); [|discriminate]. apply Hl. exact E1.
Qed.

(* ------------------------------------------------------------------ every step keeps the invariant and
   raises nothing but InvalidSmilesString *)
Definition good (o : outcome) : Prop :=
  match o with Next s' => Inv s' | Stop r => r <> Crash end.

Lemma push_atom_length a s : length (atoms (push_atom a s)) = S (length (atoms s)).
Proof. unfold push_atom. cbn. rewrite app_length. cbn. lia. Qed.

Lemma set_db_stereo_good s c rest :
  bonds s <> [] -> Forall (bond_lt (length (atoms s))) (bonds s) ->
  match set_db_stereo s c rest with
  | Next s' => length (atoms s') = length (atoms s) /\ bonds s' = bonds s /\ branch s' = branch s /\
               prev s' = prev s /\ skip s' = skip s /\ unclosed s' = unclosed s /\ prevc s' = prevc s /\
               slash_before s' = slash_before s /\ map erase_stereo (atoms s') = map erase_stereo (atoms s)
  | Stop r => False
  end.
Proof.
  intros Hne Hb. unfold set_db_stereo.
  destruct (negb (slash_before s || has_slash (c :: rest))); [repeat split; reflexivity|].
  destruct (last_some_ex _ Hne) as [b Eb]. rewrite Eb.
  pose proof (last_some_In _ _ Eb) as Hin. rewrite Forall_forall in Hb. destruct (Hb _ Hin) as [Hi Hj].
  assert (E1 : exists at1, (if has_slash (c :: rest) then mark (b_j b) (atoms s) else Some (atoms s)) = Some at1 /\
                           length at1 = length (atoms s) /\ map erase_stereo at1 = map erase_stereo (atoms s)).
  { destruct (has_slash (c :: rest)).
    - destruct (mark_some _ _ Hj) as [l' E]. exists l'. split; [exact E|]. split; [eapply mark_length | eapply mark_erase]; exact E.
    - exists (atoms s). auto. }
  destruct E1 as [at1 [E1 [L1 M1]]]. rewrite E1.
  assert (E2 : exists at2, (if slash_before s then mark (b_i b) at1 else Some at1) = Some at2 /\
                           length at2 = length at1 /\ map erase_stereo at2 = map erase_stereo at1).
  { destruct (slash_before s).
    - destruct (mark_some (b_i b) at1) as [l' E]; [lia|]. exists l'. split; [exact E|]. split; [eapply mark_length | eapply mark_erase]; exact E.
    - exists at1. auto. }
  destruct E2 as [at2 [E2 [L2 M2]]]. rewrite E2. cbn.
  repeat split; try reflexivity; congruence.
Qed.

Lemma lookup_In k l rb : lookup k l = Some rb -> exists k', In (k', rb) l.
Proof.
  induction l as [|[k' v] l IH]; cbn; [discriminate|].
  destruct (Z.eqb k k'); [intros H; inversion H; subst; eexists; left; reflexivity|].
  intros H. destruct (IH H) as [k2 Hin]. exists k2. right. exact Hin.
Qed.
Lemma remove_key_Forall (P : Z * ring -> Prop) k l : Forall P l -> Forall P (remove_key k l).
Proof.
  induction 1 as [|[k' v] l Hx Hl IH]; cbn; [constructor|].
  destruct (Z.eqb k k'); [exact Hl | constructor; assumption].
Qed.

Lemma bottom_good s a k bsym c rest :
  Inv s -> good (bottom (set_skip k (push_atom a s)) bsym c rest).
Proof.
  intros [Hp Hb Hbr Hu]. unfold bottom, add_bond.
  set (s0 := set_skip k (push_atom a s)).
  assert (Hn : length (atoms s0) = S (length (atoms s))) by apply push_atom_length.
  assert (EB : bonds s0 = bonds s) by reflexivity.
  assert (ER : branch s0 = branch s) by reflexivity.
  assert (EP : prev s0 = prev s) by reflexivity.
  assert (EU : unclosed s0 = unclosed s) by reflexivity.
  clearbody s0.
  assert (Hb0 : Forall (bond_lt (length (atoms s0))) (bonds s0)).
  { rewrite Hn, EB. eapply Forall_bond_lt_mono; [|exact Hb]. lia. }
  assert (Hbr0 : Forall (fun x => x < length (atoms s0)) (branch s0)).
  { rewrite Hn, ER. eapply Forall_impl; [|exact Hbr]. cbn. intros; lia. }
  assert (Hu0 : Forall (fun kr => r_i (snd kr) < length (atoms s0)) (unclosed s0)).
  { rewrite Hn, EU. eapply Forall_impl; [|exact Hu]. cbn. intros; lia. }
  assert (Fin : forall s2, length (atoms s2) = length (atoms s0) ->
                Forall (bond_lt (length (atoms s0))) (bonds s2) -> branch s2 = branch s0 -> unclosed s2 = unclosed s0 ->
                Inv (set_prev (Some (length (atoms s2) - 1)) s2)).
  { intros s2 L B R U. split; cbn.
    - right. eexists. split; [reflexivity|]. lia.
    - rewrite L. exact B.
    - rewrite R, L. exact Hbr0.
    - rewrite U, L. exact Hu0. }
  destruct (length (atoms s0) =? 1) eqn:E1.
  - cbn. apply Fin; auto.
  - apply Nat.eqb_neq in E1.
    destruct Hp as [Hp | [p [Hp Hlt]]].
    { rewrite Hp in Hn. cbn in Hn. lia. }
    rewrite EP, Hp.
    set (b := mkBond p (length (atoms s0) - 1) (order_of bsym)).
    assert (Hbl : bond_lt (length (atoms s0)) b) by (split; cbn; lia).
    assert (Hself : self_bond b = false) by (unfold self_bond; cbn; apply Nat.eqb_neq; lia).
    set (s1 := set_bonds (bonds_append b (bonds s0)) s0).
    assert (Hb1 : Forall (bond_lt (length (atoms s1))) (bonds s1)).
    { cbn. apply bonds_append_Forall; assumption. }
    assert (Hne : bonds s1 <> []) by (cbn; apply bonds_append_nonempty; exact Hself).
    destruct (ceqb bsym "=").
    + pose proof (set_db_stereo_good s1 c rest Hne Hb1) as G.
      destruct (set_db_stereo s1 c rest) as [s2|r]; [|contradiction].
      destruct G as [L [B [R [_ [_ [U _]]]]]].
      cbn. apply Fin; [exact L | rewrite B; exact Hb1 | rewrite R; reflexivity | rewrite U; reflexivity].
    + cbn. apply (Fin s1); [reflexivity | exact Hb1 | reflexivity | reflexivity].
Qed.

Lemma step_good s c rest : Inv s -> good (step s c rest).
Proof.
  intros HI. pose proof HI as [Hp Hb Hbr Hu]. unfold step.
  destruct (0 <? skip s); [split; assumption|].
  destruct (is_bond_char c).
  { destruct ((length (atoms s) =? 0) || follows_dangling rest); cbn; [discriminate | exact HI]. }
  destruct (is_digit c || ceqb c "%").
  { destruct (length (atoms s) =? 0) eqn:E0; [cbn; discriminate|].
    destruct (pc_is s "(" || (pc_bond s && pc2_is s "(")); [cbn; discriminate|].
    destruct (ring_idx c rest) as [k|]; [|cbn; discriminate].
    set (s1 := if ceqb c "%" then set_skip 2 s else s).
    assert (A1 : atoms s1 = atoms s) by (unfold s1; destruct (ceqb c "%"); reflexivity).
    assert (B1 : bonds s1 = bonds s) by (unfold s1; destruct (ceqb c "%"); reflexivity).
    assert (P1 : prev s1 = prev s) by (unfold s1; destruct (ceqb c "%"); reflexivity).
    assert (R1 : branch s1 = branch s) by (unfold s1; destruct (ceqb c "%"); reflexivity).
    assert (U1 : unclosed s1 = unclosed s) by (unfold s1; destruct (ceqb c "%"); reflexivity).
    clearbody s1.
    apply Nat.eqb_neq in E0.
    destruct Hp as [Hp | [p [Hp Hlt]]]; [rewrite Hp in E0; cbn in E0; lia|].
    rewrite P1, Hp.
    destruct (lookup k (unclosed s1)) as [rb|] eqn:EL.
    - rewrite A1. destruct (atoms s) eqn:EA; [cbn in E0; lia|]. rewrite <- EA in *.
      destruct (lookup_In _ _ _ EL) as [k' Hin]. rewrite U1 in Hin.
      rewrite Forall_forall in Hu. pose proof (Hu _ Hin) as Hri. cbn in Hri.
      cbn. split; cbn; rewrite ?A1, ?B1, ?P1, ?R1, ?U1.
      + right. exists p. split; assumption.
      + apply bonds_insert_Forall; [|exact Hb]. split; cbn; lia.
      + exact Hbr.
      + apply remove_key_Forall. apply Forall_forall. exact Hu.
    - cbn. split; cbn; rewrite ?A1, ?B1, ?P1, ?R1, ?U1.
      + right; exists p; split; assumption.
      + exact Hb.
      + exact Hbr.
      + apply Forall_app. split; [exact Hu|]. constructor; [cbn; exact Hlt | constructor]. }
  destruct (ceqb c "[").
  { destruct (bracket_section rest) as [sec|]; [|cbn; discriminate].
    pose proof (parse_sq_bracket_no_crash sec) as NC.
    destruct (parse_sq_bracket sec) as [a| |]; [|cbn; discriminate|congruence].
    apply bottom_good. exact HI. }
  destruct (ceqb c "(").
  { destruct ((length (atoms s) =? 0) || pc_is s "(") eqn:E0; [cbn; discriminate|].
    destruct (pc_is s ")"); [exact HI|].
    apply orb_false_iff in E0. destruct E0 as [E0 _]. apply Nat.eqb_neq in E0.
    destruct Hp as [Hp | [p [Hp Hlt]]]; [rewrite Hp in E0; cbn in E0; lia|].
    rewrite Hp. cbn. split; cbn; try assumption.
    - right. exists p. split; assumption.
    - constructor; [exact Hlt | exact Hbr]. }
  destruct (ceqb c ")").
  { destruct (branch s) as [|b bs] eqn:EB; [cbn; discriminate|].
    destruct (pc_is s "("); [cbn; discriminate|].
    apply Forall_cons_iff in Hbr. destruct Hbr as [Hb0 Hbs].
    destruct (next_is rest "("); cbn; split; cbn; rewrite ?EB; try assumption;
      try (right; exists b; split; [reflexivity | exact Hb0]).
    constructor; assumption. }
  destruct (match rest with d :: _ => mem_str [c; d] two_letter_organic | [] => false end) eqn:E2.
  { destruct rest as [|d rest']; [discriminate|].
    rewrite (smiles_atom_some _ _ _ _ _ (table_forall _ _ _ two_letter_capitalized E2)).
    apply bottom_good. exact HI. }
  destruct (mem_str [c] (organic_symbols ++ aromatic_symbols)) eqn:E1; [|cbn; discriminate].
  rewrite (smiles_atom_some _ _ _ _ _ (table_forall _ _ _ organic_capitalized E1)).
  change (push_atom ?a s) with (set_skip (skip s) (push_atom a s)) at 1.
  apply (bottom_good s _ (skip s)). exact HI.
Qed.

Lemma run_good s l rest : Inv s -> good (run s l rest).
Proof.
  revert s. induction l as [|c l IH]; intros s HI; cbn; [exact HI|].
  pose proof (step_good s c (l ++ rest) HI) as G.
  destruct (step s c (l ++ rest)) as [s'|r]; [|exact G].
  apply IH. apply Inv_advance. exact G.
Qed.

Lemma finish_no_crash s : finish s <> Crash.
Proof.
  unfold finish. destruct (unclosed s); [|discriminate]. destruct (branch s); [|discriminate].
  destruct (implicit_hs_from (bonds s) 0 (atoms s)); discriminate.
Qed.

Lemma go_no_crash l : forall s, Inv s -> go s l <> Crash.
Proof.
  induction l as [|c l IH]; intros s HI; cbn; [apply finish_no_crash|].
  pose proof (step_good s c l HI) as G.
  destruct (step s c l) as [s'|r]; [|exact G].
  apply IH. apply Inv_advance. exact G.
Qed.

Lemma parse_no_crash s : parse s <> Crash.
Proof.
  unfold parse. destruct (existsb _ _); [discriminate|]. apply go_no_crash. apply Inv_init.
Qed.
