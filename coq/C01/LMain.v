(* C01/LMain.v -- from the simulation to the statement about Parser.parse, and the corollaries
   (charge, electron parity, spelling choices, ring-label renaming). *)
From Coq Require Import List Ascii ZArith Bool Arith Lia Permutation.
From AV.C01 Require Import Base Model Spec LBasic LStep LAtom LBracket LSim LChain.
From AV.gen Require Import C01_Gen.
Import ListNotations.
Open Scope char_scope.
Open Scope nat_scope.

(* ------------------------------------------------------------------ characters of a spelling *)
Definition okc (c : ascii) : bool := negb (is_space c) && negb (mem_char c invalid_chars).

Lemma letter_okc x : is_letter x = true -> okc x = true.
Proof. destruct x as [[] [] [] [] [] [] [] []]; vm_compute; intros H; congruence. Qed.

Lemma bsym_okc b : forallb okc (spell_bsym b) = true.
Proof. destruct b; reflexivity. Qed.
Lemma dc_okc d : okc (digit_char d) = true.
Proof. pattern (digit_char d); apply digit_char_prop; reflexivity. Qed.
Lemma label_okc l p : forallb okc (spell_label l p) = true.
Proof.
  unfold spell_label. destruct (p || (10 <=? l)); cbn [forallb]; rewrite ?dc_okc; reflexivity.
Qed.
Lemma rrefs_okc rs : forallb okc (spell_rrefs rs) = true.
Proof.
  induction rs as [|r rs IH]; [reflexivity|]. unfold spell_rrefs. cbn [flat_map]. fold (spell_rrefs rs).
  unfold spell_rref. rewrite !forallb_app, bsym_okc, label_okc, IH. reflexivity.
Qed.
Lemma atom_okc a : satom_ok a = true -> forallb okc (spell_atom a) = true.
Proof.
  destruct a as [o|b]; [intros _; destruct o; reflexivity|].
  cbn [satom_ok spell_atom]. intros Hok. cbn [forallb]. change (okc "[") with true. cbn [andb].
  rewrite forallb_app. cbn [forallb]. change (okc "]") with true. rewrite andb_true_r. cbn [andb].
  rewrite bracket_body_eq, forallb_app. apply andb_true_iff. split.
  - unfold bracket_ok in Hok. repeat rewrite andb_true_iff in Hok. destruct Hok as [[[[Hs _] _] _] _].
    pose proof (table_forall _ _ _ elements_shape (sym_ok_mem _ Hs)) as Hshape. cbn beta in Hshape.
    destruct (k_sym b) as [|y [|z [|w r]]]; try discriminate; cbn [forallb].
    + rewrite (letter_okc y Hshape). reflexivity.
    + apply andb_true_iff in Hshape. destruct Hshape as [A B]. rewrite (letter_okc y A).
      assert (is_letter z = true) by (unfold is_letter; unfold is_lower in B; rewrite B; apply orb_true_r).
      rewrite (letter_okc z H). reflexivity.
  - apply btail_P; try reflexivity. intros d; pattern (digit_char d); apply digit_char_prop; reflexivity.
Qed.

Lemma spell_okc :
  (forall c, chain_ok c = true -> forallb okc (spell c) = true) /\
  (forall t, tail_ok t = true -> forallb okc (spell_tail t) = true).
Proof.
  apply chain_tail_ind.
  - intros a rs t IHt H. cbn [chain_ok] in H. repeat rewrite andb_true_iff in H. destruct H as [[Ha _] Ht].
    cbn [spell]. rewrite !forallb_app, (atom_okc a Ha), rrefs_okc, (IHt Ht). reflexivity.
  - reflexivity.
  - intros b c IHc t IHt H. cbn [tail_ok] in H. apply andb_true_iff in H. destruct H as [Hc Ht].
    cbn [spell_tail forallb]. change (okc "(") with true. cbn [andb].
    rewrite !forallb_app. cbn [forallb]. change (okc ")") with true. cbn [andb].
    rewrite bsym_okc, (IHc Hc), (IHt Ht). reflexivity.
  - intros b c IHc H. cbn [tail_ok] in H. cbn [spell_tail]. rewrite forallb_app, bsym_okc, (IHc H). reflexivity.
Qed.

Lemma strip_spell c : chain_ok c = true -> strip (spell c) = spell c.
Proof.
  intros H. unfold strip. apply strip_by_nospace.
  pose proof (proj1 spell_okc c H) as K. rewrite forallb_forall in *. intros x Hx.
  specialize (K x Hx). unfold okc in K. apply andb_true_iff in K. tauto.
Qed.
Lemma no_invalid_spell c :
  chain_ok c = true -> existsb (fun x => mem_char x invalid_chars) (spell c) = false.
Proof.
  intros H. apply not_true_is_false. intros E. apply existsb_exists in E. destruct E as [x [Hx Hm]].
  pose proof (proj1 spell_okc c H) as K. rewrite forallb_forall in K. specialize (K x Hx).
  unfold okc in K. apply andb_true_iff in K. destruct K as [_ K]. rewrite Hm in K. discriminate.
Qed.

(* ------------------------------------------------------------------ implicit hydrogens *)
Lemma assoc_valences o : assoc_str (osym_str o) elems_poss_val = Some (valences o).
Proof. destruct o; reflexivity. Qed.

Lemma first_fit_hcount vals sum : first_fit vals sum = hcount vals sum.
Proof.
  unfold hcount. induction vals as [|v vals IH]; cbn; [reflexivity|].
  destruct (sum <=? v); [reflexivity | exact IH].
Qed.

Lemma sum_orders_perm idx l1 l2 : Permutation l1 l2 -> sum_orders idx l1 = sum_orders idx l2.
Proof.
  unfold sum_orders. induction 1 as [|x l l' H IH|x y l|l l' l'' H1 IH1 H2 IH2]; cbn.
  - reflexivity.
  - rewrite IH. reflexivity.
  - destruct (involves idx y), (involves idx x); lia.
  - congruence.
Qed.
Lemma sum_orders_degree idx l : sum_orders idx l = degree_sum idx l.
Proof. reflexivity. Qed.

Lemma implicit_ok satoms : forall ats idx bs ebs,
  map erase_stereo ats = map pre_atom satoms -> Permutation bs ebs ->
  exists ats', implicit_hs_from bs idx ats = Some ats' /\
               map erase_stereo ats' = map erase_stereo (atoms_from idx satoms ebs).
Proof.
  induction satoms as [|sa satoms IH]; intros ats idx bs ebs Hm Hp.
  - destruct ats; [|discriminate]. exists []. split; reflexivity.
  - destruct ats as [|a ats]; [discriminate|]. cbn [map] in Hm. inversion Hm as [[Ha Hats]].
    destruct (IH ats (S idx) bs ebs Hats Hp) as [ats' [E M]].
    cbn [implicit_hs_from atoms_from]. rewrite E.
    destruct sa as [o|b].
    + destruct a as [lab q nh cl st]. unfold erase_stereo in Ha. cbn in Ha. inversion Ha; subst.
      unfold implicit_h. cbn [a_nh a_label a_charge a_class a_stereo]. rewrite assoc_valences.
      eexists. split; [reflexivity|]. cbn [map]. rewrite M. f_equal.
      unfold erase_stereo. cbn. rewrite first_fit_hcount, (sum_orders_perm idx bs ebs Hp). reflexivity.
    + destruct a as [lab q nh cl st]. unfold erase_stereo in Ha. cbn in Ha. inversion Ha; subst.
      unfold implicit_h. cbn [a_nh].
      eexists. split; [reflexivity|]. cbn [map]. rewrite M. f_equal.
Qed.

(* ------------------------------------------------------------------ the main statement *)
Lemma R_init : R init env0.
Proof. split; cbn; constructor. Qed.

Lemma parse_spell_denote_l c da db :
  chain_ok c = true -> denote c = Some (da, db) ->
  exists pa pb, parse (spell c) = Ok pa pb /\
                map erase_stereo pa = map erase_stereo da /\ Permutation pb db.
Proof.
  intros Hok Hd. unfold denote in Hd.
  destruct (den c None env0) as [e|] eqn:Ed; [|discriminate].
  destruct (e_open e) eqn:Eo; [|discriminate]. inversion Hd; subst da db. clear Hd.
  destruct (proj1 sim_all c init env0 None [] e R_init Inv_init eq_refl eq_refl Hok Ed I)
    as [s' [Er [[RA RB RO] [I' [L' [Br' Ne']]]]]].
  unfold parse. rewrite (strip_spell c Hok), (no_invalid_spell c Hok).
  rewrite <- (app_nil_r (spell c)). rewrite go_run, Er. cbn [go].
  unfold finish. rewrite Eo in RO. inversion RO as [E0|]. rewrite Br'. cbn [branch init].
  destruct (implicit_ok (e_atoms e) (atoms s') 0 (bonds s') (e_bonds e) RA RB) as [ats' [Ei Mi]].
  rewrite Ei. exists ats', (bonds s'). split; [reflexivity|]. split; [exact Mi | exact RB].
Qed.


(* ------------------------------------------------------------------ spelling choices *)
Lemma bsym_order_respell k n b : bsym_order (respell_b k n b) = bsym_order b.
Proof. destruct b; cbn; try reflexivity; destruct (k_single k n); reflexivity. Qed.

Lemma den_parent_order c p b b' e :
  bsym_order b = bsym_order b' -> den c (Some (p, b)) e = den c (Some (p, b')) e.
Proof. intros H. destruct c as [a rs t]. cbn [den]. rewrite H. reflexivity. Qed.

Lemma den_rref_pct i r pct e : den_rref i (mkRref (rr_b r) (rr_lbl r) pct) e = den_rref i r e.
Proof. reflexivity. Qed.

Lemma den_rrefs_respell k : forall rs n i e, den_rrefs i (fst (respell_rs k n rs)) e = den_rrefs i rs e.
Proof.
  induction rs as [|r rs IH]; intros n i e; [reflexivity|].
  cbn [respell_rs]. specialize (IH (S n)). destruct (respell_rs k (S n) rs) as [rs2 n2]. cbn [fst] in *.
  cbn [den_rrefs]. rewrite den_rref_pct. destruct (den_rref i r e); [apply IH | reflexivity].
Qed.

Lemma den_respell k :
  (forall c n parent e, den (fst (respell_from k n c)) parent e = den c parent e) /\
  (forall t n i e, den_tail (fst (respell_tail k n t)) i e = den_tail t i e).
Proof.
  apply chain_tail_ind.
  - intros a rs t IHt n parent e. cbn [respell_from].
    pose proof (den_rrefs_respell k rs n) as Hrs. destruct (respell_rs k n rs) as [rs2 n1]. cbn [fst] in Hrs.
    specialize (IHt n1). destruct (respell_tail k n1 t) as [t2 n2]. cbn [fst] in *.
    cbn [den]. rewrite Hrs. destruct (den_rrefs _ rs _); [apply IHt | reflexivity].
  - reflexivity.
  - intros b c IHc t IHt n i e. cbn [respell_tail].
    specialize (IHc (S n)). destruct (respell_from k (S n) c) as [c2 n1]. cbn [fst] in IHc.
    specialize (IHt n1). destruct (respell_tail k n1 t) as [t2 n2]. cbn [fst] in *.
    cbn [den_tail]. rewrite IHc. rewrite (den_parent_order c i _ b e (bsym_order_respell k n b)).
    destruct (den c (Some (i, b)) e); [apply IHt | reflexivity].
  - intros b c IHc n i e. cbn [respell_tail].
    specialize (IHc (S n)). destruct (respell_from k (S n) c) as [c2 n1]. cbn [fst] in *.
    cbn [den_tail]. rewrite IHc. apply den_parent_order. apply bsym_order_respell.
Qed.

Lemma denote_respell k c : denote (respell k c) = denote c.
Proof. unfold denote, respell. rewrite (proj1 (den_respell k)). reflexivity. Qed.

Lemma forallb_rref_respell k : forall rs n, forallb rref_ok (fst (respell_rs k n rs)) = forallb rref_ok rs.
Proof.
  induction rs as [|r rs IH]; intros n; [reflexivity|].
  cbn [respell_rs]. specialize (IH (S n)). destruct (respell_rs k (S n) rs) as [rs2 n2]. cbn [fst] in *.
  cbn [forallb]. rewrite IH. reflexivity.
Qed.

Lemma chain_ok_respell k :
  (forall c n, chain_ok (fst (respell_from k n c)) = chain_ok c) /\
  (forall t n, tail_ok (fst (respell_tail k n t)) = tail_ok t).
Proof.
  apply chain_tail_ind.
  - intros a rs t IHt n. cbn [respell_from].
    pose proof (forallb_rref_respell k rs n) as Hrs. destruct (respell_rs k n rs) as [rs2 n1]. cbn [fst] in Hrs.
    specialize (IHt n1). destruct (respell_tail k n1 t) as [t2 n2]. cbn [fst] in *.
    cbn [chain_ok]. rewrite Hrs, IHt. reflexivity.
  - reflexivity.
  - intros b c IHc t IHt n. cbn [respell_tail].
    specialize (IHc (S n)). destruct (respell_from k (S n) c) as [c2 n1]. cbn [fst] in IHc.
    specialize (IHt n1). destruct (respell_tail k n1 t) as [t2 n2]. cbn [fst] in *.
    cbn [tail_ok]. rewrite IHc, IHt. reflexivity.
  - intros b c IHc n. cbn [respell_tail].
    specialize (IHc (S n)). destruct (respell_from k (S n) c) as [c2 n1]. cbn [fst] in *.
    cbn [tail_ok]. exact IHc.
Qed.

Lemma parse_respell_denote_l k c da db :
  chain_ok c = true -> denote c = Some (da, db) ->
  exists pa pb, parse (spell (respell k c)) = Ok pa pb /\
                map erase_stereo pa = map erase_stereo da /\ Permutation pb db.
Proof.
  intros Hok Hd. apply parse_spell_denote_l.
  - unfold respell. rewrite (proj1 (chain_ok_respell k)). exact Hok.
  - rewrite denote_respell. exact Hd.
Qed.

(* ------------------------------------------------------------------ ring-label renaming *)
Definition map_open (f : nat -> nat) (o : list (nat * (nat * bsym))) : list (nat * (nat * bsym)) :=
  map (fun lv => (f (fst lv), snd lv)) o.
Definition menv (f : nat -> nat) (e : env) : env := mkEnv (e_atoms e) (e_bonds e) (map_open f (e_open e)).

Section Rename.
  Variable f : nat -> nat.
  Hypothesis f_inj : forall a b, f a = f b -> a = b.

  Lemma f_eqb a b : (f a =? f b) = (a =? b).
  Proof.
    destruct (a =? b) eqn:E.
    - apply Nat.eqb_eq in E. subst. apply Nat.eqb_refl.
    - apply Nat.eqb_neq in E. apply Nat.eqb_neq. intros H. apply E. apply f_inj. exact H.
  Qed.

  Lemma open_lookup_map l o : open_lookup (f l) (map_open f o) = open_lookup l o.
  Proof.
    unfold map_open. induction o as [|[l' v] o IH]; cbn; [reflexivity|]. rewrite f_eqb. destruct (l =? l'); [reflexivity | exact IH].
  Qed.
  Lemma open_remove_map l o : open_remove (f l) (map_open f o) = map_open f (open_remove l o).
  Proof.
    unfold map_open. induction o as [|[l' v] o IH]; cbn; [reflexivity|]. rewrite f_eqb.
    destruct (l =? l'); [reflexivity | cbn; rewrite IH; reflexivity].
  Qed.

  Lemma den_rref_rename i r e :
    den_rref i (rename_rref f r) (menv f e) = option_map (menv f) (den_rref i r e).
  Proof.
    unfold den_rref, rename_rref, menv. cbn [rr_lbl rr_b e_open e_atoms e_bonds].
    rewrite open_lookup_map. destruct (open_lookup (rr_lbl r) (e_open e)) as [[j b0]|].
    - destruct ((j =? i) || bonded j i (e_bonds e)); [reflexivity|].
      destruct (ring_order b0 (rr_b r)); [|reflexivity]. cbn [option_map e_atoms e_bonds e_open].
      rewrite open_remove_map. reflexivity.
    - cbn [option_map e_atoms e_bonds e_open]. unfold map_open. rewrite map_app. reflexivity.
  Qed.
  Lemma den_rrefs_rename i : forall rs e,
    den_rrefs i (map (rename_rref f) rs) (menv f e) = option_map (menv f) (den_rrefs i rs e).
  Proof.
    induction rs as [|r rs IH]; intros e; [reflexivity|]. cbn [map den_rrefs]. rewrite den_rref_rename.
    destruct (den_rref i r e) as [e1|]; cbn; [apply IH | reflexivity].
  Qed.

  Lemma den_rename :
    (forall c parent e, den (rename f c) parent (menv f e) = option_map (menv f) (den c parent e)) /\
    (forall t i e, den_tail (rename_tail f t) i (menv f e) = option_map (menv f) (den_tail t i e)).
  Proof.
    apply chain_tail_ind.
    - intros a rs t IHt parent e. cbn [rename den].
      change (length (e_atoms (menv f e))) with (length (e_atoms e)).
      set (bs := match parent with None => e_bonds e | Some (p, b) => e_bonds e ++ [mkBond p (length (e_atoms e)) (bsym_order b)] end).
      change (mkEnv (e_atoms (menv f e) ++ [a])
                (match parent with None => e_bonds (menv f e) | Some (p, b) => e_bonds (menv f e) ++ [mkBond p (length (e_atoms e)) (bsym_order b)] end)
                (e_open (menv f e)))
        with (menv f (mkEnv (e_atoms e ++ [a]) bs (e_open e))).
      rewrite den_rrefs_rename.
      destruct (den_rrefs (length (e_atoms e)) rs (mkEnv (e_atoms e ++ [a]) bs (e_open e))) as [e1|]; cbn; [apply IHt | reflexivity].
    - reflexivity.
    - intros b c IHc t IHt i e. cbn [rename_tail den_tail]. rewrite IHc.
      destruct (den c (Some (i, b)) e) as [e1|]; cbn; [apply IHt | reflexivity].
    - intros b c IHc i e. cbn [rename_tail den_tail]. apply IHc.
  Qed.

  Lemma denote_rename c : denote (rename f c) = denote c.
  Proof.
    unfold denote. change (den (rename f c) None env0) with (den (rename f c) None (menv f env0)).
    rewrite (proj1 den_rename).
    destruct (den c None env0) as [e|]; cbn; [|reflexivity].
    destruct (e_open e); reflexivity.
  Qed.
End Rename.

(* ------------------------------------------------------------------ charge and electron parity *)
Lemma total_charge_erase l : total_charge (map erase_stereo l) = total_charge l.
Proof. unfold total_charge. induction l as [|a l IH]; cbn; [reflexivity | rewrite IH; reflexivity]. Qed.
Lemma fold_erase (g : atom -> Z) l :
  (forall a, g (erase_stereo a) = g a) ->
  fold_right (fun a acc => (g a + acc)%Z) 0%Z (map erase_stereo l) = fold_right (fun a acc => (g a + acc)%Z) 0%Z l.
Proof. intros H. induction l as [|a l IH]; cbn; [reflexivity | rewrite IH, H; reflexivity]. Qed.
Lemma n_electrons_erase l : n_electrons (map erase_stereo l) = n_electrons l.
Proof.
  unfold n_electrons. rewrite total_charge_erase.
  rewrite (fold_erase (fun a => Z.of_nat (atomic_number a))) by (intros a; reflexivity).
  rewrite (fold_erase (fun a => Z.of_nat (match a_nh a with Some h => h | None => 0 end))) by (intros a; reflexivity).
  reflexivity.
Qed.
Lemma mult_erase l : mult (map erase_stereo l) = mult l.
Proof. unfold mult. rewrite n_electrons_erase. reflexivity. Qed.

Definition scharge (l : list satom) : Z := fold_right (fun a acc => (satom_charge a + acc)%Z) 0%Z l.
Lemma scharge_app l1 l2 : scharge (l1 ++ l2) = (scharge l1 + scharge l2)%Z.
Proof. unfold scharge. induction l1 as [|a l1 IH]; cbn; [reflexivity | rewrite IH; lia]. Qed.

Lemma den_rrefs_atoms i : forall rs e e', den_rrefs i rs e = Some e' -> e_atoms e' = e_atoms e.
Proof.
  induction rs as [|r rs IH]; intros e e' H; cbn in H; [inversion H; reflexivity|].
  destruct (den_rref i r e) as [e1|] eqn:E; [|discriminate]. rewrite (IH _ _ H).
  unfold den_rref in E. destruct (open_lookup _ _) as [[j b0]|].
  - destruct (_ || _); [discriminate|]. destruct (ring_order _ _); [|discriminate]. inversion E; reflexivity.
  - inversion E; reflexivity.
Qed.

Lemma den_charge :
  (forall c parent e e', den c parent e = Some e' ->
      scharge (e_atoms e') = (scharge (e_atoms e) + chain_charge c)%Z) /\
  (forall t i e e', den_tail t i e = Some e' ->
      scharge (e_atoms e') = (scharge (e_atoms e) + tail_charge t)%Z).
Proof.
  apply chain_tail_ind.
  - intros a rs t IHt parent e e' H. cbn [den] in H.
    destruct (den_rrefs _ rs _) as [e1|] eqn:E; [|discriminate].
    rewrite (IHt _ _ _ H). rewrite (den_rrefs_atoms _ _ _ _ E). cbn [e_atoms chain_charge].
    rewrite scharge_app. cbn. lia.
  - intros i e e' H. inversion H. cbn. lia.
  - intros b c IHc t IHt i e e' H. cbn [den_tail] in H.
    destruct (den c (Some (i, b)) e) as [e1|] eqn:E; [|discriminate].
    rewrite (IHt _ _ _ H), (IHc _ _ _ E). cbn [tail_charge]. lia.
  - intros b c IHc i e e' H. cbn [den_tail] in H. rewrite (IHc _ _ _ H). reflexivity.
Qed.

Lemma atoms_from_charge bs : forall l i, total_charge (atoms_from i l bs) = scharge l.
Proof.
  unfold scharge, total_charge. induction l as [|a l IH]; intros i; cbn; [reflexivity|]. rewrite IH. destruct a; reflexivity.
Qed.

Lemma denote_charge c da db : denote c = Some (da, db) -> total_charge da = chain_charge c.
Proof.
  unfold denote. destruct (den c None env0) as [e|] eqn:E; [|discriminate].
  destruct (e_open e); [|discriminate]. intros H. inversion H; subst.
  rewrite atoms_from_charge. rewrite (proj1 den_charge _ _ _ _ E). cbn. reflexivity.
Qed.

Lemma parse_charge_parity_l c da db :
  chain_ok c = true -> denote c = Some (da, db) ->
  exists pa pb, parse (spell c) = Ok pa pb /\
    total_charge pa = chain_charge c /\ total_charge pa = total_charge da /\ mult pa = mult da.
Proof.
  intros Hok Hd. destruct (parse_spell_denote_l c da db Hok Hd) as [pa [pb [E [M _]]]].
  exists pa, pb. split; [exact E|].
  assert (T : total_charge pa = total_charge da).
  { rewrite <- (total_charge_erase pa), M, total_charge_erase. reflexivity. }
  split; [rewrite T; apply (denote_charge c da db Hd)|]. split; [exact T|].
  rewrite <- (mult_erase pa), M, mult_erase. reflexivity.
Qed.

(* ------------------------------------------------------------------ the reference reader's own electron count *)
Lemma atomic_number_spec a : atomic_number a = spec_z (a_label a).
Proof. unfold atomic_number, spec_z. rewrite periodic_eq. reflexivity. Qed.

Lemma spec_electrons_model l : spec_electrons l = n_electrons l.
Proof.
  unfold n_electrons, spec_electrons, total_charge.
  induction l as [|a l IH]; [reflexivity|]. cbn [fold_right]. rewrite IH, atomic_number_spec. lia.
Qed.
Lemma spec_mult_model l : spec_mult l = mult l.
Proof. unfold spec_mult, mult. rewrite spec_electrons_model. reflexivity. Qed.

Lemma spec_electrons_erase l : spec_electrons (map erase_stereo l) = spec_electrons l.
Proof. rewrite !spec_electrons_model. apply n_electrons_erase. Qed.

Lemma parse_charge_parity_respell_l k c da db :
  chain_ok c = true -> denote c = Some (da, db) ->
  exists pa pb, parse (spell (respell k c)) = Ok pa pb /\
    total_charge pa = chain_charge c /\ mult pa = spec_mult da.
Proof.
  intros Hok Hd. destruct (parse_respell_denote_l k c da db Hok Hd) as [pa [pb [E [M _]]]].
  exists pa, pb. split; [exact E|]. split.
  - rewrite <- (total_charge_erase pa), M, total_charge_erase. apply (denote_charge c da db Hd).
  - rewrite spec_mult_model. rewrite <- (mult_erase pa), M, mult_erase. reflexivity.
Qed.
