(* C01/Corr.v -- helpers used only by the correspondence check (model vs implementation):
   decidable equality on results, a digest for the bounded-exhaustive enumeration, and the
   reference reader run on serialised chains. *)
From Coq Require Import List Ascii String ZArith NArith Bool Arith.
From AV.C01 Require Import Base Model Spec.
From AV.gen Require Import C01_Gen.
Import ListNotations.

Definition bytes_of_codes (l : list nat) : str := map ascii_of_nat l.

Definition opt_eqb {A} (e : A -> A -> bool) (a b : option A) : bool :=
  match a, b with Some x, Some y => e x y | None, None => true | _, _ => false end.
Fixpoint list_eqb {A} (e : A -> A -> bool) (a b : list A) : bool :=
  match a, b with
  | [], [] => true
  | x :: a', y :: b' => e x y && list_eqb e a' b'
  | _, _ => false
  end.
Definition atom_eqb (a b : atom) : bool :=
  str_eqb (a_label a) (a_label b) && Z.eqb (a_charge a) (a_charge b) &&
  opt_eqb Nat.eqb (a_nh a) (a_nh b) && opt_eqb Z.eqb (a_class a) (a_class b) &&
  Bool.eqb (a_stereo a) (a_stereo b).
Definition bond_eqb (a b : bond) : bool :=
  Nat.eqb (b_i a) (b_i b) && Nat.eqb (b_j a) (b_j b) && Nat.eqb (b_ord a) (b_ord b).
Definition result_eqb (a b : result) : bool :=
  match a, b with
  | Ok x y, Ok x' y' => list_eqb atom_eqb x x' && list_eqb bond_eqb y y'
  | Invalid, Invalid => true
  | Crash, Crash => true
  | _, _ => false
  end.

(* atom literal: label, charge, n_hydrogens, class, stereo mark *)
Definition A (l : string) (q : Z) (h : nat) (c : option Z) (s : bool) : atom :=
  mkAtom (list_ascii_of_string l) q (Some h) c s.
Definition B := mkBond.

(* the model run on a string literal / on byte codes must give exactly the observed outcome;
   the second component is (charge, mult) as Parser.charge / Parser.mult report them *)
Definition outcome_ok (r : result) (expect : result) (cm : option (Z * Z)) : bool :=
  result_eqb r expect &&
  match r, cm with
  | Ok ats _, Some (q, m) => Z.eqb (total_charge ats) q && Z.eqb (mult ats) m
  | Ok _ _, None => false
  | _, None => true
  | _, Some _ => false
  end.
Definition check (s : string) (expect : result) (cm : option (Z * Z)) : bool :=
  outcome_ok (parse (list_ascii_of_string s)) expect cm.
Definition check_codes (codes : list nat) (expect : result) (cm : option (Z * Z)) : bool :=
  outcome_ok (parse (bytes_of_codes codes)) expect cm.

(* ---- digest for bounded-exhaustive enumeration (twin: harness/c01.py digest()) ---- *)
Local Open Scope N_scope.
Definition PR : N := 2147483647.
Definition mix (acc x : N) : N := (acc * 131 + x + 1) mod PR.
Definition zcode (z : Z) : N :=
  match z with Z0 => 0 | Zpos p => 2 * Npos p | Zneg p => 2 * Npos p + 1 end.
Definition digest_atom (acc : N) (a : atom) : N :=
  let acc := fold_left (fun ac c => mix ac (N_of_ascii c)) (a_label a) (mix acc 7) in
  let acc := mix acc (zcode (a_charge a) mod PR) in
  let acc := mix acc (match a_nh a with None => 0 | Some h => N.of_nat h + 1 end) in
  let acc := mix acc (match a_class a with None => 0 | Some z => zcode z mod PR + 1 end) in
  mix acc (if a_stereo a then 1 else 0).
Definition digest_bond (acc : N) (b : bond) : N :=
  mix (mix (mix acc (N.of_nat (b_i b))) (N.of_nat (b_j b))) (N.of_nat (b_ord b)).
Definition digest (r : result) : N :=
  match r with
  | Invalid => 1
  | Crash => 2
  | Ok ats bs => fold_left digest_bond bs (mix (fold_left digest_atom ats 3) 11)
  end.

Fixpoint enum (alpha : list ascii) (n : nat) : list str :=
  match n with
  | O => [[]]
  | S k => flat_map (fun c => map (cons c) (enum alpha k)) alpha
  end.
(* every string  prefix ++ t  with t of length n over alpha (first character major) *)
Definition check_enum (alpha prefix : string) (n : nat) (expect : list N) : bool :=
  let al := list_ascii_of_string alpha in
  let pre := list_ascii_of_string prefix in
  list_eqb N.eqb (map (fun t => digest (parse (pre ++ t)%list)) (enum al n)) expect.
Definition check_enum_codes (alpha prefix : list nat) (n : nat) (expect : list N) : bool :=
  let al := bytes_of_codes alpha in
  let pre := bytes_of_codes prefix in
  list_eqb N.eqb (map (fun t => digest (parse (pre ++ t)%list)) (enum al n)) expect.

(* Python int() on short strings: exhaustive check of py_int *)
Definition check_int_codes (codes : list nat) (expect : option Z) : bool :=
  opt_eqb Z.eqb (py_int (bytes_of_codes codes)) expect.

(* ---- the reference reader on serialised chains: executable twin of Props.parse_spell_denote ---- *)
Local Close Scope N_scope.
Definition bonds_perm_b (x y : list bond) : bool :=
  Nat.eqb (List.length x) (List.length y) && forallb (fun b => existsb (bond_eqb b) y) x &&
  forallb (fun b => existsb (bond_eqb b) x) y.
Definition holds_b (c : chain) : bool :=
  match denote c, parse (spell c) with
  | Some (da, db), Ok pa pb =>
      list_eqb atom_eqb (map erase_stereo pa) (map erase_stereo da) && bonds_perm_b pb db
  | _, _ => false
  end.
Definition BK (s : string) (chir : nat) (h : hspec) (c : cspec) (k : option (list nat)) : satom :=
  Brk (mkBracket (list_ascii_of_string s) chir h c k).
Definition R := mkRref.
(* the chain is lexically well formed, is spelled exactly as the string the implementation was given,
   and the model parses that spelling to the molecule the chain denotes *)
Definition check_chain (c : chain) (s : string) : bool :=
  str_eqb (spell c) (list_ascii_of_string s) && chain_ok c && holds_b c.
