(* C01/LChain.v -- the simulation along a whole chain (mutual induction on chain / tail). *)
From Coq Require Import List Ascii ZArith Bool Arith Lia Permutation.
From AV.C01 Require Import Base Model Spec LBasic LStep LAtom LBracket LSim.
From AV.gen Require Import C01_Gen.
Import ListNotations.
Open Scope char_scope.
Open Scope nat_scope.

(* ------------------------------------------------------------------ first characters *)
Definition hd_in (P : ascii -> bool) (l : str) : Prop :=
  match l with [] => True | c :: _ => P c = true end.

Definition astart (c : ascii) : bool :=
  mem_char c ["B"; "C"; "N"; "O"; "P"; "S"; "F"; "I"; "b"; "c"; "n"; "o"; "s"; "p"; "["].
Definition fset (c : ascii) : bool :=
  astart c || mem_char c ["-"; "="; "#"; "$"; "/"; "\"; "%"; "("; ")"; "0"; "1"; "2"; "3"; "4"; "5"; "6"; "7"; "8"; "9"].

Definition follow (rest : str) : Prop := match rest with [] => True | c :: _ => c = ")" end.

Lemma follow_fset rest : follow rest -> hd_in fset rest.
Proof. destruct rest as [|c r]; cbn; [auto | intros ->; reflexivity]. Qed.

Lemma spell_atom_head a : exists x l, spell_atom a = x :: l /\ astart x = true.
Proof. destruct a as [o|b]; [destruct o; cbn; eexists; eexists; split; reflexivity | cbn; eexists; eexists; split; reflexivity]. Qed.

Lemma spell_head c X : exists x l, spell c ++ X = x :: l /\ astart x = true.
Proof.
  destruct c as [a rs t]. cbn [spell]. destruct (spell_atom_head a) as [x [l [E H]]].
  rewrite E. cbn. eexists; eexists; split; [reflexivity | exact H].
Qed.

Lemma astart_fset x : astart x = true -> fset x = true.
Proof. intros H. unfold fset. rewrite H. reflexivity. Qed.

Lemma spell_bsym_head b X : hd_in fset X -> hd_in fset (spell_bsym b ++ X).
Proof. destruct b; cbn; auto. Qed.

Lemma spell_label_head l pct X : hd_in fset (spell_label l pct ++ X).
Proof.
  unfold spell_label. destruct (pct || (10 <=? l)); cbn; [reflexivity|].
  apply (digit_char_prop (fun c => fset c = true)); reflexivity.
Qed.

Lemma spell_rrefs_head rs X : hd_in fset X -> hd_in fset (spell_rrefs rs ++ X).
Proof.
  destruct rs as [|r rs]; cbn; [auto|]. intros _. unfold spell_rref. rewrite <- !app_assoc.
  apply spell_bsym_head. apply spell_label_head.
Qed.

Lemma spell_tail_head t X : hd_in fset X -> hd_in fset (spell_tail t ++ X).
Proof.
  destruct t as [|b c t'|b c]; cbn [spell_tail]; [auto | intros _; reflexivity |].
  intros _. rewrite <- app_assoc. apply spell_bsym_head.
  destruct (spell_head c X) as [x [l [E H]]]. rewrite E. cbn. apply astart_fset. exact H.
Qed.

Lemma fset_nolr l : hd_in fset l -> nolr l.
Proof.
  destruct l as [|c l]; cbn; [auto|]. intros H. split; apply ceqb_neq; intros ->; discriminate H.
Qed.

Lemma nd_chain c X : follows_dangling (spell c ++ X) = false.
Proof.
  destruct (spell_head c X) as [x [l [E H]]]. rewrite E. cbn [follows_dangling].
  apply not_true_is_false. intros M. apply mem_char_In in M.
  unfold astart in H. apply mem_char_In in H.
  cbn in M, H. repeat (destruct M as [<-|M]; [repeat (destruct H as [H|H]; [discriminate H|]); contradiction|]).
  contradiction.
Qed.

Lemma next_paren_tail t rest :
  follow rest -> next_is (spell_tail t ++ rest) "(" = match t with TBranch _ _ _ => true | _ => false end.
Proof.
  intros F. destruct t as [|b c t'|b c]; cbn [spell_tail app].
  - destruct rest as [|x r]; cbn; [reflexivity|]. cbn in F. subst x. reflexivity.
  - reflexivity.
  - rewrite <- app_assoc. destruct (spell_head c rest) as [x [l [E H]]].
    assert (Hx : ceqb x "(" = false).
    { apply ceqb_neq. intros ->. discriminate H. }
    destruct b; cbn [spell_bsym app]; try reflexivity. rewrite E. cbn. exact Hx.
Qed.

(* ------------------------------------------------------------------ the simulation *)
Definition ctx_ok (s : st) (parent : option (nat * bsym)) : Prop :=
  match parent with
  | None => atoms s = []
  | Some (p, b) => atoms s <> [] /\ prev s = Some p /\ order_of (bond_symbol s) = bsym_order b
  end.

Definition lex_ok' (s : st) : Prop := skip s = 0 /\ pcl s /\ pc_is s "(" = false.

Definition Pc (c : chain) : Prop := forall s e parent rest e',
  R s e -> Inv s -> skip s = 0 -> ctx_ok s parent -> chain_ok c = true ->
  den c parent e = Some e' -> follow rest ->
  exists s', run s (spell c) rest = Next s' /\ R s' e' /\ Inv s' /\ lex_ok' s' /\
             branch s' = branch s /\ atoms s' <> [].

Definition Qt (t : tail) : Prop := forall s e i st0 rest e',
  R s e -> Inv s -> lex_ok' s -> atoms s <> [] -> prev s = Some i ->
  tail_ok t = true -> den_tail t i e = Some e' -> follow rest ->
  ((pc_is s ")" = true /\ branch s = (if next_is (spell_tail t ++ rest) "(" then i :: st0 else st0)) \/
   (pc_is s ")" = false /\ branch s = st0 /\ length (atoms s) = S i)) ->
  exists s', run s (spell_tail t) rest = Next s' /\ R s' e' /\ Inv s' /\ lex_ok' s' /\
             branch s' = st0 /\ atoms s' <> [].

Lemma R_core s s' e : same_core s s' -> R s e -> R s' e.
Proof. intros [A [B [_ [U _]]]] [RA RB RO]. split; rewrite ?A, ?B, ?U; assumption. Qed.

Lemma run_atom a s rest :
  Inv s -> skip s = 0 -> satom_ok a = true -> nolr rest ->
  exists s', run s (spell_atom a) rest = Next s' /\ atom_post s s' a.
Proof.
  intros HI Hs Hok Hl. destruct a as [o|b]; [apply run_org; assumption | apply run_bracket; assumption].
Qed.

Lemma sim_atom_case a rs t : Qt t -> Pc (Atom a rs t).
Proof.
  intros IHt s e parent rest e' HR HI Hs Hctx Hok Hd HF.
  cbn [chain_ok] in Hok. repeat rewrite andb_true_iff in Hok. destruct Hok as [[Ha Hrs] Ht].
  cbn [spell]. rewrite run_app.
  destruct (run_atom a s ((spell_rrefs rs ++ spell_tail t) ++ rest) HI Hs Ha) as [s1 [E1 Post]].
  { apply fset_nolr. rewrite <- app_assoc. apply spell_rrefs_head. apply spell_tail_head. apply follow_fset. exact HF. }
  rewrite E1. rewrite run_app.
  destruct Post as [M [L [B0 [B1 [K [Br [U [P [C [O [Cl I1]]]]]]]]]]].
  pose proof (R_length _ _ HR) as Hlen.
  cbn [den] in Hd.
  set (i := length (e_atoms e)) in *.
  set (bs := match parent with None => e_bonds e | Some (p, b) => e_bonds e ++ [mkBond p i (bsym_order b)] end) in *.
  destruct (den_rrefs i rs (mkEnv (e_atoms e ++ [a]) bs (e_open e))) as [e1|] eqn:Er; [|discriminate].
  assert (R1 : R s1 (mkEnv (e_atoms e ++ [a]) bs (e_open e))).
  { destruct HR as [RA RB RO]. split; cbn [e_atoms e_bonds e_open].
    - rewrite M, RA, map_app. reflexivity.
    - unfold bs. destruct parent as [[p b]|].
      + destruct Hctx as [Hne [Hp Ho]]. rewrite (B1 p Hne Hp). rewrite Ho, Hlen. fold i.
        apply Permutation_app_tail. exact RB.
      + cbn in Hctx. rewrite (B0 Hctx). exact RB.
    - rewrite U. exact RO. }
  assert (Hn1 : length (atoms s1) = S i) by (rewrite L, Hlen; reflexivity).
  assert (P1 : prev s1 = Some i) by (rewrite P, Hlen; reflexivity).
  destruct (sim_rrefs i rs s1 _ e1 (spell_tail t ++ rest) R1 I1 (conj K (conj C (conj O Cl))) P1 Hn1 Hrs Er)
    as [s2 [E2 [R2 [I2 [[K2 [C2 [O2 Cl2]]] [P2 [A2 Br2]]]]]]].
  rewrite E2.
  assert (Hne2 : atoms s2 <> []) by (rewrite A2; intros E0; rewrite E0 in Hn1; discriminate).
  destruct (IHt s2 e1 i (branch s) rest e' R2 I2 (conj K2 (conj C2 O2)) Hne2 P2 Ht Hd HF) as [s3 [E3 H3]].
  { right. split; [exact Cl2|]. split; [congruence|]. rewrite A2. exact Hn1. }
  exists s3. split; [exact E3 | exact H3].
Qed.

Lemma sim_end_case : Qt TEnd.
Proof.
  intros s e i st0 rest e' HR HI HL Hne Hp _ Hd HF Hmode. cbn in Hd. inversion Hd; subst e'.
  exists s. cbn [spell_tail run]. split; [reflexivity|]. split; [exact HR|]. split; [exact HI|]. split; [exact HL|].
  split; [|exact Hne].
  destruct Hmode as [[_ Hb] | [_ [Hb _]]]; [|exact Hb].
  rewrite (next_paren_tail TEnd rest HF) in Hb. exact Hb.
Qed.

Lemma sim_next_case b c : Pc c -> Qt (TNext b c).
Proof.
  intros IHc s e i st0 rest e' HR HI [Hs [Hpc Hpo]] Hne Hp Hok Hd HF Hmode.
  cbn [tail_ok] in Hok. cbn [den_tail] in Hd. cbn [spell_tail]. rewrite run_app.
  rewrite run_bsym; [|exact Hs | exact Hne | apply nd_chain].
  set (s1 := after_bsym b s).
  pose proof (after_bsym_core b s) as Core. fold s1 in Core.
  destruct Core as [A1 [B1 [Br1 [U1 P1]]]].
  assert (Hctx : ctx_ok s1 (Some (i, b))).
  { cbn. split; [rewrite A1; exact Hne|]. split; [rewrite P1; exact Hp|]. apply after_bsym_order. exact Hpc. }
  assert (R1 : R s1 e) by (apply (R_core s); [repeat split; assumption | exact HR]).
  assert (I1 : Inv s1) by (apply (same_core_Inv s); [repeat split; assumption | exact HI]).
  assert (K1 : skip s1 = 0) by (unfold s1; rewrite after_bsym_skip; exact Hs).
  destruct (IHc s1 e (Some (i, b)) rest e' R1 I1 K1 Hctx Hok Hd HF) as [s2 [E2 [R2 [I2 [L2 [Br2 Ne2]]]]]].
  exists s2. split; [exact E2|]. split; [exact R2|]. split; [exact I2|]. split; [exact L2|]. split; [|exact Ne2].
  rewrite Br2, Br1.
  destruct Hmode as [[_ Hb] | [_ [Hb _]]]; [|exact Hb].
  rewrite (next_paren_tail (TNext b c) rest HF) in Hb. exact Hb.
Qed.

Lemma sim_branch_case b c t : Pc c -> Qt t -> Qt (TBranch b c t).
Proof.
  intros IHc IHt s e i st0 rest e' HR HI [Hs [Hpc Hpo]] Hne Hp Hok Hd HF Hmode.
  cbn [tail_ok] in Hok. apply andb_true_iff in Hok. destruct Hok as [Hc Ht].
  cbn [den_tail] in Hd. destruct (den c (Some (i, b)) e) as [e1|] eqn:Ed; [|discriminate].
  cbn [spell_tail]. rewrite run_cons. rewrite (step_open s _ i) by assumption.
  set (s0 := if pc_is s ")" then s else set_branch (i :: branch s) s).
  assert (F0 : atoms s0 = atoms s /\ bonds s0 = bonds s /\ unclosed s0 = unclosed s /\ prev s0 = prev s /\
               skip s0 = 0 /\ branch s0 = i :: st0).
  { unfold s0. destruct Hmode as [[Hm Hb] | [Hm [Hb Hl]]]; rewrite Hm.
    - repeat split; auto.
    - cbn. repeat split; auto. rewrite Hb. reflexivity. }
  clearbody s0. destruct F0 as [A0 [B0 [U0 [P0 [K0 Br0]]]]].
  set (s1 := advance "(" s0).
  assert (I1 : Inv s1).
  { unfold s1. apply Inv_advance. destruct HI as [IP IB IBr IU]. split; rewrite ?A0, ?B0, ?U0, ?P0, ?Br0; auto.
    constructor; [|].
    - destruct IP as [IP|[p [IP1 IP2]]]; [congruence|]. rewrite Hp in IP1. inversion IP1; subst p. exact IP2.
    - destruct Hmode as [[_ Hb] | [_ [Hb _]]].
      + rewrite (next_paren_tail (TBranch b c t) rest HF) in Hb. rewrite Hb in IBr. inversion IBr; assumption.
      + rewrite Hb in IBr. exact IBr. }
  assert (R1 : R s1 e) by (destruct HR as [RA RB RO]; split; cbn; rewrite ?A0, ?B0, ?U0; assumption).
  rewrite run_app.
  rewrite run_bsym; [|cbn; exact K0 | cbn; rewrite A0; exact Hne | rewrite <- app_assoc; apply nd_chain].
  set (s2 := after_bsym b s1).
  pose proof (after_bsym_core b s1) as Core. fold s2 in Core. destruct Core as [A2 [B2 [Br2 [U2 P2]]]].
  assert (Hpc1 : pcl s1) by (unfold pcl, s1; cbn; reflexivity).
  assert (Hctx : ctx_ok s2 (Some (i, b))).
  { cbn. split; [rewrite A2; cbn; rewrite A0; exact Hne|]. split; [rewrite P2; cbn; rewrite P0; exact Hp|].
    apply after_bsym_order. exact Hpc1. }
  rewrite run_app.
  assert (R2 : R s2 e) by (apply (R_core s1); [repeat split; assumption | exact R1]).
  assert (I2 : Inv s2) by (apply (same_core_Inv s1); [repeat split; assumption | exact I1]).
  assert (K2 : skip s2 = 0) by (unfold s2; rewrite after_bsym_skip; exact K0).
  assert (F2 : follow ((")" :: spell_tail t) ++ rest)) by reflexivity.
  destruct (IHc s2 e (Some (i, b)) ((")" :: spell_tail t) ++ rest) e1 R2 I2 K2 Hctx Hc Ed F2)
    as [s3 [E3 [R3 [I3 [[K3 [C3 O3]] [Br3 Ne3]]]]]].
  rewrite E3. cbn [app]. rewrite run_cons.
  assert (Br3' : branch s3 = i :: st0) by (rewrite Br3, Br2; cbn; exact Br0).
  pose proof (step_good s3 ")" (spell_tail t ++ rest) I3) as G.
  rewrite (step_close s3 (spell_tail t ++ rest) i st0 K3 Br3' O3) in *.
  set (s4 := set_prev (Some i) (if next_is (spell_tail t ++ rest) "(" then s3 else set_branch st0 s3)) in *.
  cbn in G.
  assert (F4 : atoms s4 = atoms s3 /\ bonds s4 = bonds s3 /\ unclosed s4 = unclosed s3 /\ prev s4 = Some i /\
               skip s4 = 0 /\ branch s4 = (if next_is (spell_tail t ++ rest) "(" then i :: st0 else st0)).
  { unfold s4. destruct (next_is (spell_tail t ++ rest) "("); cbn; repeat split; auto. }
  clearbody s4. destruct F4 as [A4 [B4 [U4 [P4 [K4 Br4]]]]].
  assert (R5 : R (advance ")" s4) e1) by (destruct R3 as [RA RB RO]; split; cbn; rewrite ?A4, ?B4, ?U4; assumption).
  assert (I5 : Inv (advance ")" s4)) by (apply Inv_advance; exact G).
  assert (L5 : lex_ok' (advance ")" s4)) by (repeat split; cbn; auto).
  assert (N5 : atoms (advance ")" s4) <> []) by (cbn; rewrite A4; exact Ne3).
  assert (P5 : prev (advance ")" s4) = Some i) by (cbn; exact P4).
  destruct (IHt (advance ")" s4) e1 i st0 rest e' R5 I5 L5 N5 P5 Ht Hd HF) as [s5 [E5 H5]].
  { left. split; [reflexivity|]. cbn. exact Br4. }
  exists s5. split; [exact E5 | exact H5].
Qed.

Lemma sim_all : (forall c, Pc c) /\ (forall t, Qt t).
Proof.
  apply chain_tail_ind.
  - intros a rs t IHt. apply sim_atom_case. exact IHt.
  - apply sim_end_case.
  - intros b c IHc t IHt. apply sim_branch_case; assumption.
  - intros b c IHc. apply sim_next_case. exact IHc.
Qed.
