(* C01/Model.v -- executable model of autode/smiles/parser.py :: Parser.parse and of the parts of
   autode/smiles/base.py it uses (SMILESAtom, SMILESBond, RingBond, SMILESBonds.append/insert).
   Definitions only.  One `step` per character, following parser.py:395-493 line by line.

   The tables (organic/aromatic symbols, bond_order_symbols, elems_poss_val, elements, and the
   literal character collections of Parser.parse) come from gen/C01_Gen.v, regenerated from the
   source on every run.

   Conventions
   * the input is a byte string (7-bit ASCII is what the correspondence check exercises);
   * parsed_idxs: every range the code adds starts at the current index and is contiguous
     ([i,i+1] for Cl/Br, [i+1,i+2] after '%', range(i, i+len+2) for a bracket), and nothing is
     added while indices are being skipped, so the set is represented by `skip` = number of
     following characters that are already parsed;
   * stereochemistry: only "carries a mark" (stereochem is not NONE) is modelled, not handedness;
     invert_stereochem (parser.py:430) therefore changes nothing;
   * exceptions: InvalidSmilesString = Invalid; anything else (AssertionError of Atom.__init__,
     TypeError of sorted([i, None]), IndexError) = Crash. *)
From Coq Require Import List Ascii ZArith Bool Arith Lia.
From AV.C01 Require Import Base.
From AV.gen Require Import C01_Gen.
Import ListNotations.
Open Scope char_scope.
Open Scope nat_scope.

(* ------------------------------------------------------------------ base.py *)
(* SMILESBond.__init__: order = bond_order_symbols.index(symbol) + 1   (base.py:127).  The symbol
   is always a member of bond_order_symbols or "-" (parser.py:397-400); the translator refuses a
   table without "-". *)
Definition order_of (sym : ascii) : nat := S (index_of sym bond_order_symbols).
(* SMILESBond.symbol getter (base.py:193-196) *)
Definition sym_of_order (o : nat) : ascii := nth (o - 1) bond_order_symbols "-".

(* bond.atom_indexes == item.atom_indexes  (sets)  base.py:243 *)
Definition same_pair (a b : bond) : bool :=
  let ina x := (x =? b_i b) || (x =? b_j b) in
  let inb x := (x =? b_i a) || (x =? b_j a) in
  ina (b_i a) && ina (b_j a) && inb (b_i b) && inb (b_j b).
Definition bond_exists (b : bond) (l : list bond) : bool := existsb (same_pair b) l.
(* len(set(bond.atom_indexes)) != 2 *)
Definition self_bond (b : bond) : bool := b_i b =? b_j b.
(* SMILESBonds.append  base.py:268-274 *)
Definition bonds_append (b : bond) (l : list bond) : list bond :=
  if bond_exists b l || self_bond b then l else l ++ [b].
(* SMILESBonds.insert  base.py:276-282 *)
Definition bonds_insert (k : nat) (b : bond) (l : list bond) : list bond :=
  if bond_exists b l || self_bond b then l else firstn k l ++ b :: skipn k l.

(* SMILESAtom.__init__ -> Atom.__init__: assert label.capitalize() in elements
   (base.py:53, atoms.py:59).  None = AssertionError *)
Definition smiles_atom (label : str) (stereo : bool) (nh : option nat) (charge : Z) (cls : option Z)
  : option atom :=
  if mem_str (capitalize label) elements then Some (mkAtom label charge nh cls stereo) else None.

(* RingBond: idx_i, order, bond_idx  (base.py:223-237) *)
Record ring := mkRing { r_i : nat; r_ord : nat; r_bidx : nat }.

(* ------------------------------------------------------------------ bracket atoms *)
Definition next_is_digit (l : str) : option nat :=
  match l with c :: _ => digit_val c | [] => None end.

(* atomic_charge  parser.py:505-542 *)
Fixpoint atomic_charge (l : str) : Z :=
  match l with
  | [] => 0%Z
  | c :: r =>
      if ceqb c "+" || ceqb c "-" then
        let sg := if ceqb c "+" then 1%Z else (-1)%Z in
        match r with
        | [] => sg
        | d :: _ =>
            match digit_val d with
            | Some v => (sg * Z.of_nat v)%Z
            | None => if ceqb d "+" || ceqb d "-" then (sg * 2)%Z else sg
            end
        end
      else atomic_charge r
  end.

(* atomic_sterochem  parser.py:545-568: a mark iff some '@' occurs *)
Definition atomic_stereo (l : str) : bool := mem_char "@" l.

(* atomic_n_hydrogens  parser.py:571-596 *)
Fixpoint atomic_n_hydrogens (l : str) : nat :=
  match l with
  | [] => 0
  | c :: r => if ceqb c "H" then match next_is_digit r with Some v => v | None => 1 end
              else atomic_n_hydrogens r
  end.

(* string.split(":")[1] *)
Fixpoint take_until (x : ascii) (l : str) : str :=
  match l with [] => [] | c :: r => if ceqb c x then [] else c :: take_until x r end.
Fixpoint after_first (x : ascii) (l : str) : option str :=
  match l with [] => None | c :: r => if ceqb c x then Some r else after_first x r end.
(* atomic_class (module function of parser.py).   None = InvalidSmilesString: the text between the first and the
   second ":" must be a non-empty run of ASCII digits; int() still fails on more than 4300 digits *)
Definition atomic_class (l : str) : option (option Z) :=
  match after_first ":" l with
  | None => Some None
  | Some r =>
      let ds := take_until ":" r in
      if (length ds =? 0) || negb (forallb is_digit ds) then None
      else match py_int ds with Some z => Some (Some z) | None => None end
  end.

Inductive bracket_res := BAtom (a : atom) | BInvalid | BCrash.
Definition of_atom (o : option atom) : bracket_res :=
  match o with Some a => BAtom a | None => BCrash end.

(* any(elem in rest for elem in elements if elem != "H")   parser.py:140 *)
Definition has_other_element (rest : str) : bool :=
  existsb (fun e => negb (str_eqb e ["H"]) && is_infix e rest) elements.

(* Parser._parse_sq_bracket  parser.py:105-152 *)
Definition parse_sq_bracket (sec : str) : bracket_res :=
  if mem_char "(" sec || mem_char ")" sec then BInvalid else
  match sec with
  | [] => BInvalid
  | [c] =>
      if negb (mem_str [c] elements) && negb (mem_str [c] aromatic_symbols) then BInvalid   (* :120 *)
      else of_atom (smiles_atom [c] false (Some 0) 0%Z None)
  | c1 :: c2 :: r2 =>
      let split :=
        if mem_str [c1; c2] elements then Some ([c1; c2], r2)
        else if mem_str [c1] elements || mem_str [c1] aromatic_symbols then Some ([c1], c2 :: r2)
        else None in
      match split with
      | None => BInvalid
      | Some (label, []) => of_atom (smiles_atom label false (Some 0) 0%Z None)
      | Some (label, rest) =>
          if has_other_element rest then BInvalid else
          match atomic_class rest with
          | None => BInvalid
          | Some cls => of_atom (smiles_atom label (atomic_stereo rest) (Some (atomic_n_hydrogens rest))
                                             (atomic_charge rest) cls)
          end
      end
  end.

(* ------------------------------------------------------------------ parser state *)
Record st := mkSt {
  atoms : list atom;              (* self.atoms *)
  bonds : list bond;              (* self.bonds *)
  skip : nat;                     (* parsed_idxs, see header *)
  branch : list nat;              (* branch_idxs, top of the stack first *)
  unclosed : list (Z * ring);     (* unclosed_bonds *)
  prev : option nat;              (* prev_idx *)
  prevc : option ascii;           (* self._string[i-1] *)
  prevc2 : option ascii;          (* self._string[i-2] *)
  slash_before : bool }.          (* '/' or '\' occurs in self._string[:i] *)

Definition init : st := mkSt [] [] 0 [] [] None None None false.

Definition set_atoms v s := mkSt v (bonds s) (skip s) (branch s) (unclosed s) (prev s) (prevc s) (prevc2 s) (slash_before s).
Definition set_bonds v s := mkSt (atoms s) v (skip s) (branch s) (unclosed s) (prev s) (prevc s) (prevc2 s) (slash_before s).
Definition set_skip v s := mkSt (atoms s) (bonds s) v (branch s) (unclosed s) (prev s) (prevc s) (prevc2 s) (slash_before s).
Definition set_branch v s := mkSt (atoms s) (bonds s) (skip s) v (unclosed s) (prev s) (prevc s) (prevc2 s) (slash_before s).
Definition set_unclosed v s := mkSt (atoms s) (bonds s) (skip s) (branch s) v (prev s) (prevc s) (prevc2 s) (slash_before s).
Definition set_prev v s := mkSt (atoms s) (bonds s) (skip s) (branch s) (unclosed s) v (prevc s) (prevc2 s) (slash_before s).

Inductive outcome := Next (s : st) | Stop (r : result).

Definition is_slash (c : ascii) : bool := mem_char c bond_extra_chars.
Definition has_slash (l : str) : bool := existsb is_slash l.
Definition is_bond_char (c : ascii) : bool := mem_char c (bond_order_symbols ++ bond_extra_chars).

(* end of one loop iteration: i := i + 1 *)
Definition advance (c : ascii) (s : st) : st :=
  mkSt (atoms s) (bonds s) (skip s) (branch s) (unclosed s) (prev s) (Some c) (prevc s) (slash_before s || is_slash c).

(* parser.py:397-400 *)
Definition bond_symbol (s : st) : ascii :=
  match prevc s with
  | Some p => if mem_char p bond_order_symbols then p else "-"
  | None => "-"
  end.

Fixpoint lookup (k : Z) (l : list (Z * ring)) : option ring :=
  match l with [] => None | (k', v) :: r => if Z.eqb k k' then Some v else lookup k r end.
Fixpoint remove_key (k : Z) (l : list (Z * ring)) : list (Z * ring) :=
  match l with [] => [] | (k', v) :: r => if Z.eqb k k' then r else (k', v) :: remove_key k r end.

(* self.atoms[k].stereochem = ALKENE_UP/DOWN ;  None = IndexError *)
Fixpoint mark (k : nat) (l : list atom) : option (list atom) :=
  match l, k with
  | [], _ => None
  | a :: r, 0 => Some (mkAtom (a_label a) (a_charge a) (a_nh a) (a_class a) true :: r)
  | a :: r, S k' => option_map (cons a) (mark k' r)
  end.

(* Parser._set_double_bond_stereochem(idx)  parser.py:257-321; c :: rest = self._string[idx:] *)
Definition set_db_stereo (s : st) (c : ascii) (rest : str) : outcome :=
  if negb (slash_before s || has_slash (c :: rest)) then Next s else
  match last (map Some (bonds s)) None with
  | None => Stop Crash                                    (* self.bonds[-1] on an empty list *)
  | Some b =>
      let j := b_i b in let i := b_j b in
      match (if has_slash (c :: rest) then mark i (atoms s) else Some (atoms s)) with
      | None => Stop Crash
      | Some at1 =>
          match (if slash_before s then mark j at1 else Some at1) with
          | None => Stop Crash
          | Some at2 => Next (set_atoms at2 s)
          end
      end
  end.

(* Parser._add_bond(symbol, idx, prev_atom_idx)  parser.py:229-255 *)
Definition add_bond (s : st) (bsym : ascii) (c : ascii) (rest : str) : outcome :=
  let n := length (atoms s) in
  if n =? 1 then Next s else
  let p := match prev s with Some p => p | None => n - 2 end in
  let s' := set_bonds (bonds_append (mkBond p (n - 1) (order_of bsym)) (bonds s)) s in
  if ceqb bsym "=" then set_db_stereo s' c rest else Next s'.

(* parser.py:486-493: add the bond, mark the character parsed, prev_idx = n_atoms - 1 *)
Definition bottom (s : st) (bsym : ascii) (c : ascii) (rest : str) : outcome :=
  match add_bond s bsym c rest with
  | Stop r => Stop r
  | Next s' => Next (set_prev (Some (length (atoms s') - 1)) s')
  end.

(* Parser._parse_ring_idx  parser.py:188-227 *)
Definition ring_idx (c : ascii) (rest : str) : option Z :=
  match digit_val c with
  | Some d => Some (Z.of_nat d - 1)%Z
  | None =>                                                 (* c = '%' *)
      match rest with
      | c1 :: c2 :: _ =>
          match digit_val c1, digit_val c2 with                 (* all(digit in "0123456789" ...) *)
          | Some a, Some b => Some (Z.of_nat (10 * a + b) - 1)%Z
          | _, _ => None
          end
      | _ => None
      end
  end.

(* next_char(self._string, i) in bond_order_symbols + ["/", "\\", "(", ")", ""]   parser.py:408-410 *)
Definition follows_dangling (rest : str) : bool :=
  match rest with
  | [] => dangling_follow_end
  | d :: _ => mem_char d (bond_order_symbols ++ dangling_follow_chars)
  end.

Definition pc_is (s : st) (x : ascii) : bool :=
  match prevc s with Some p => ceqb p x | None => false end.
Definition pc2_is (s : st) (x : ascii) : bool :=
  match prevc2 s with Some p => ceqb p x | None => false end.
Definition pc_bond (s : st) : bool :=
  match prevc s with Some p => is_bond_char p | None => false end.
Definition next_is (rest : str) (x : ascii) : bool :=
  match rest with d :: _ => ceqb d x | [] => false end.

(* split("]")[0] of self.smiles[idx+1:]; None when there is no "]"  (parser.py:167-180; a "[" that
   is the last character is the same outcome) *)
Fixpoint bracket_section (rest : str) : option str :=
  match rest with
  | [] => None
  | c :: r => if ceqb c "]" then Some [] else option_map (cons c) (bracket_section r)
  end.

Definition push_atom (a : atom) (s : st) : st := set_atoms (atoms s ++ [a]) s.

(* one iteration of the loop of Parser.parse, parser.py:395-493 *)
Definition step (s : st) (c : ascii) (rest : str) : outcome :=
  let bsym := bond_symbol s in
  if 0 <? skip s then Next (set_skip (skip s - 1) s)                              (* :403 *)
  else if is_bond_char c then                                                      (* :406 *)
    if (length (atoms s) =? 0) || follows_dangling rest then Stop Invalid else Next s
  else if is_digit c || ceqb c "%" then                                            (* :416 *)
    if length (atoms s) =? 0 then Stop Invalid else
    if pc_is s "(" || (pc_bond s && pc2_is s "(") then Stop Invalid else          (* :424-428 *)
    match ring_idx c rest with
    | None => Stop Invalid
    | Some k =>
        let s1 := if ceqb c "%" then set_skip 2 s else s in                        (* :422-424 *)
        match lookup k (unclosed s1) with
        | Some rb =>                                                               (* :427-433 *)
            match prev s1 with
            | None => Stop Crash                          (* sorted([idx_i, None]) : TypeError *)
            | Some p =>
                let o := if ceqb (sym_of_order (r_ord rb)) "-" then order_of bsym else r_ord rb in
                let b := mkBond (Nat.min (r_i rb) p) (Nat.max (r_i rb) p) o in
                match atoms s1 with
                | [] => Stop Crash                        (* self.atoms[-1] : IndexError *)
                | _ => Next (set_bonds (bonds_insert (r_bidx rb) b (bonds s1))
                               (set_unclosed (remove_key k (unclosed s1)) s1))
                end
            end
        | None =>                                                                  (* :435-439 *)
            match prev s1 with
            | None => Stop Crash                          (* unreachable: see Lemmas.prev_some *)
            | Some p =>
                (* parsed_idxs.add(i); continue -- no bond is added, prev_idx is unchanged *)
                Next (set_unclosed (unclosed s1 ++ [(k, mkRing p (order_of bsym) (length (bonds s1)))]) s1)
            end
        end
    end
  else if ceqb c "[" then                                                          (* :442 *)
    match bracket_section rest with
    | None => Stop Invalid
    | Some sec =>
        match parse_sq_bracket sec with
        | BInvalid => Stop Invalid
        | BCrash => Stop Crash
        | BAtom a => bottom (set_skip (length sec + 1) (push_atom a s)) bsym c rest
        end
    end
  else if ceqb c "(" then                                                          (* :445-454 *)
    if (length (atoms s) =? 0) || pc_is s "(" then Stop Invalid
    else if pc_is s ")" then Next s
    else match prev s with
         | Some p => Next (set_branch (p :: branch s) s)      (* branch_idxs.append(prev_idx)  :457 *)
         | None => Stop Crash      (* unreachable: n_atoms > 0 implies prev_idx is set (LBasic.Inv) *)
         end
  else if ceqb c ")" then                                                          (* :456-470 *)
    match branch s with
    | [] => Stop Invalid
    | b :: bs =>
        if pc_is s "(" then Stop Invalid
        else Next (set_prev (Some b) (if next_is rest "(" then s else set_branch bs s))
    end
  else if match rest with d :: _ => mem_str [c; d] two_letter_organic | [] => false end then   (* :473 *)
    match rest with
    | d :: _ =>
        match smiles_atom [c; d] false None 0%Z None with
        | None => Stop Crash
        | Some a => bottom (set_skip 1 (push_atom a s)) bsym c rest
        end
    | [] => Stop Invalid
    end
  else if mem_str [c] (organic_symbols ++ aromatic_symbols) then                   (* :480 *)
    match smiles_atom [c] false None 0%Z None with
    | None => Stop Crash
    | Some a => bottom (push_atom a s) bsym c rest
    end
  else Stop Invalid.                                                               (* :484 *)

(* Parser._set_implicit_hs  parser.py:323-380 *)
Fixpoint first_fit (vals : list nat) (sum : nat) : nat :=
  match vals with
  | [] => 0
  | v :: r => if sum <=? v then v - sum else first_fit r sum
  end.
Definition involves (idx : nat) (b : bond) : bool := (b_i b =? idx) || (b_j b =? idx).
Definition sum_orders (idx : nat) (bs : list bond) : nat :=
  fold_right (fun b acc => if involves idx b then b_ord b + acc else acc) 0 bs.
Definition implicit_h (bs : list bond) (idx : nat) (a : atom) : option atom :=
  match a_nh a with
  | Some _ => Some a
  | None =>
      match assoc_str (a_label a) elems_poss_val with
      | None => None                                             (* InvalidSmilesString :358-361 *)
      | Some vals => Some (mkAtom (a_label a) (a_charge a) (Some (first_fit vals (sum_orders idx bs)))
                                  (a_class a) (a_stereo a))
      end
  end.
Fixpoint implicit_hs_from (bs : list bond) (idx : nat) (l : list atom) : option (list atom) :=
  match l with
  | [] => Some []
  | a :: r =>
      match implicit_h bs idx a, implicit_hs_from bs (S idx) r with
      | Some a', Some r' => Some (a' :: r')
      | _, _ => None
      end
  end.

(* after the loop: parser.py:495-502 *)
Definition finish (s : st) : result :=
  match unclosed s with
  | _ :: _ => Invalid
  | [] =>
      match branch s with
      | _ :: _ => Invalid
      | [] =>
          match implicit_hs_from (bonds s) 0 (atoms s) with
          | None => Invalid
          | Some ats => Ok ats (bonds s)
          end
      end
  end.

Fixpoint go (s : st) (l : str) : result :=
  match l with
  | [] => finish s
  | c :: rest =>
      match step s c rest with
      | Next s' => go (advance c s') rest
      | Stop r => r
      end
  end.

(* Parser.parse: the smiles setter strips and rejects "." and "*" (parser.py:75-103) *)
Definition parse (input : str) : result :=
  let s := strip input in
  if existsb (fun c => mem_char c invalid_chars) s then Invalid else go init s.

(* Parser.charge / Parser.mult  parser.py:48-68 *)
Definition total_charge (ats : list atom) : Z := fold_right (fun a acc => (a_charge a + acc)%Z) 0%Z ats.
Definition atomic_number (a : atom) : nat := S (index_str (capitalize (a_label a)) elements).
Definition n_electrons (ats : list atom) : Z :=
  (fold_right (fun a acc => (Z.of_nat (atomic_number a) + acc)%Z) 0%Z ats - total_charge ats
   + fold_right (fun a acc => (Z.of_nat (match a_nh a with Some h => h | None => 0 end) + acc)%Z) 0%Z ats)%Z.
Definition mult (ats : list atom) : Z := (n_electrons ats mod 2 + 1)%Z.
