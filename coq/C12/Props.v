(* C12/Props.v — the property theorems for C12 (statements; each closed by lemmas of Lemmas.v).
   Every formula named here (h_cont, g_cont, entropy, internal_energy, q_rot_igm, q_trans_igm, s_trans_pib,
   igm_/truhlar_/grimme_s_vib, grimme_w, internal_vib_energy, moi, com, moi_about_com, eig_arg ...) is
   GENERATED from /repo on every run (gen/C12_Gen.v); RO instantiates its operations at the reals. *)
From Coq Require Import Reals ZArith List Bool Arith QArith Qcanon String Permutation Lia Lra.
From AV.lib Require Import QcInst.
From AV.C12 Require Import Base Model Lemmas.
From AV.gen Require Import C12_Gen.
Require AV.C06.Base AV.C06.Model AV.gen.C06_Gen.
Import ListNotations.
Open Scope R_scope.

(* H = U + k_B T and G = H - T S, exactly as calculate_thermo_cont assembles them (values stored in Ha;
   to_J is the .to("J") of the stored value). *)
Theorem H_is_U_plus_kT : forall (sp : Species R) (p : Params R),
  to_J (h_cont RO sp p) = internal_energy RO sp p + si_k_b RO * p_T p /\
  h_cont RO sp p = to_Ha (internal_energy RO sp p + si_k_b RO * p_T p).
Proof. intros sp p. split; [apply h_assembly_J|apply h_cont_U]. Qed.

Theorem G_is_H_minus_TS : forall (sp : Species R) (p : Params R),
  to_J (g_cont RO sp p) = to_J (h_cont RO sp p) - p_T p * entropy RO sp p /\
  g_cont RO sp p = h_cont RO sp p - to_Ha (p_T p * entropy RO sp p).
Proof.
  intros sp p. split; [apply g_assembly_J|]. rewrite g_cont_US, h_cont_U, <- to_Ha_sub. reflexivity.
Qed.

(* The symmetry number enters G only as + k_B T ln(sigma) (both rotor branches: sp_linear is arbitrary);
   H does not depend on it; for a single atom neither does. *)
Theorem sigma_enters_G_as_kT_ln_sigma : forall (sp : Species R) (p : Params R) (s : R),
  0 < s ->
  h_cont RO sp (with_sigma p s) = h_cont RO sp (with_sigma p 1) /\
  ((2 <= List.length (sp_atoms sp))%nat -> 0 < q_rot_igm RO sp (p_T p) 1 ->
     g_cont RO sp (with_sigma p s) - g_cont RO sp (with_sigma p 1) = to_Ha (si_k_b RO * p_T p * ln s)) /\
  (List.length (sp_atoms sp) = 1%nat -> g_cont RO sp (with_sigma p s) = g_cont RO sp (with_sigma p 1)).
Proof.
  intros sp p s Hs. split; [|split].
  - rewrite !h_cont_U, !internal_energy_sigma. destruct p; reflexivity.
  - intros Hn Hq. apply g_sigma; assumption.
  - intros Hn. rewrite (proj1 (g_sigma_single sp p s Hn)), (proj1 (g_sigma_single sp p 1 Hn)). reflexivity.
Qed.

(* the positivity premise above is dischargeable: it holds for every non-linear rotor with a valid spectrum *)
Theorem q_rot_positive_nonlinear : forall (sp : Species R) (T : R),
  0 < T -> eig_ok sp -> sp_linear sp = false -> List.length (sp_atoms sp) <> 1%nat -> 0 < q_rot_igm RO sp T 1.
Proof. exact q_rot_pos_nonlinear. Qed.

(* Changing the standard state 1 atm -> 1 M shifts G by k_B T ln(V_1atm / V_1M) and leaves H unchanged;
   V_1atm = k_B T / atm_to_pa, V_1M = 1 / (N_A (1/dm_to_m)^3) are the generated effective volumes. *)
Theorem standard_state_shift : forall (sp : Species R) (p : Params R),
  0 < p_T p -> 0 < weight RO (sp_atoms sp) ->
  g_cont RO sp (with_ss p SS_1M) - g_cont RO sp (with_ss p SS_1atm) =
    to_Ha (si_k_b RO * p_T p * ln (vol_1atm (p_T p) / vol_1m)) /\
  h_cont RO sp (with_ss p SS_1M) = h_cont RO sp (with_ss p SS_1atm) /\
  (forall ss T, q_trans_igm RO sp ss T = pow15R (trans_arg sp T) * vol_of ss T).
Proof.
  intros sp p HT Hw. split; [apply g_ss; assumption|]. split; [rewrite !h_ss; reflexivity|]. intros. apply q_trans_form.
Qed.

(* A single atom has translational terms only: S = S_trans, U = 3/2 k_B T, rotational entropy 0 (q_rot = 1),
   no zero-point energy, hence H = 5/2 k_B T and G = H - T S_trans whatever the frequencies, the method,
   the symmetry number, the linearity flag and the coordinates are. *)
Theorem single_atom_translational_only : forall (sp : Species R) (p : Params R),
  List.length (sp_atoms sp) = 1%nat ->
  entropy RO sp p = s_trans_pib RO sp (p_ss p) (p_T p) /\
  internal_energy RO sp p = 3 / 2 * si_k_b RO * p_T p /\
  s_rot_rr RO sp (p_T p) (p_sigma p) = 0 /\ q_rot_igm RO sp (p_T p) (p_sigma p) = 1 /\ zpe RO sp = 0 /\
  h_cont RO sp p = to_Ha (5 / 2 * si_k_b RO * p_T p) /\
  g_cont RO sp p = to_Ha (5 / 2 * si_k_b RO * p_T p - p_T p * s_trans_pib RO sp (p_ss p) (p_T p)).
Proof.
  intros sp p Hn. destruct (single_atom_terms sp p Hn) as [HS [HU [Hr [Hq Hz]]]].
  repeat split; try assumption.
  - rewrite h_cont_U, HU. f_equal. field.
  - rewrite g_cont_US, HU, HS. f_equal. field.
Qed.

(* Truhlar's treatment equals the plain harmonic (igm) one when no frequency is below the shift: exactly. *)
Theorem truhlar_equals_igm_when_above_shift : forall (sp : Species R) (p : Params R),
  p_T p <> 0 -> Forall (fun f => p_shift p <= f) (sp_vib sp) ->
  entropy RO sp (with_method p LF_truhlar) = entropy RO sp (with_method p LF_igm) /\
  h_cont RO sp (with_method p LF_truhlar) = h_cont RO sp (with_method p LF_igm) /\
  g_cont RO sp (with_method p LF_truhlar) = g_cont RO sp (with_method p LF_igm).
Proof.
  intros sp p HT Hall. pose proof (entropy_truhlar_igm sp p HT Hall) as ES.
  pose proof (internal_energy_two_methods sp p LF_truhlar LF_igm ltac:(discriminate) ltac:(discriminate)) as EU.
  split; [exact ES|]. rewrite !h_cont_U, !g_cont_US, ES, EU, !p_T_with_method. split; reflexivity.
Qed.

(* Grimme's interpolation: the gap to the harmonic entropy is EXACTLY sum (1 - w_i)(s_r,i - s_v,i); the weights
   satisfy 0 <= 1 - w_i <= (w0/f_i)^alpha; so when every frequency is at least K*w0 the gap in S (and in G,
   H being identical) is at most (1/K)^alpha times sum |s_r,i - s_v,i|.
   PARTIAL with respect to the clause "coincides with the harmonic result when all frequencies are high": the bound is
   proved, a LIMIT is not.  The remaining sum depends on the frequencies (s_r grows like ln(1/f)); it vanishes for fixed
   frequencies as w0 -> 0, but for fixed w0 and growing frequencies no lemma here bounds sum |s_r - s_v|, so convergence
   to the harmonic result is not proved (it is exercised on the implementation only, at w0 = 1 cm-1). *)
Theorem grimme_igm_gap_bound_partial : forall (sp : Species R) (p : Params R) (K : R),
  (2 <= List.length (sp_atoms sp))%nat -> 0 <= p_T p -> 0 <= p_w0 p -> 0 < K ->
  Forall (fun f => 0 < f /\ K * p_w0 p <= f) (sp_vib sp) ->
  grimme_s_vib RO sp (p_T p) (p_w0 p) (p_alpha p) - igm_s_vib RO sp (p_T p) =
    lsum RO (fun f => (1 - gw p f) * (s_free sp (p_T p) f - s_harm (p_T p) f)) (sp_vib sp) /\
  (forall f, In f (sp_vib sp) -> 0 <= 1 - gw p f <= (p_w0 p / f) ^ p_alpha p) /\
  Rabs (entropy RO sp (with_method p LF_grimme) - entropy RO sp (with_method p LF_igm)) <=
    (1 / K) ^ p_alpha p * lsum RO (fun f => Rabs (s_free sp (p_T p) f - s_harm (p_T p) f)) (sp_vib sp) /\
  h_cont RO sp (with_method p LF_grimme) = h_cont RO sp (with_method p LF_igm) /\
  Rabs (g_cont RO sp (with_method p LF_grimme) - g_cont RO sp (with_method p LF_igm)) <=
    to_Ha (p_T p * ((1 / K) ^ p_alpha p * lsum RO (fun f => Rabs (s_free sp (p_T p) f - s_harm (p_T p) f)) (sp_vib sp))).
Proof.
  intros sp p K Hn HT Hw HK Hall. split; [apply grimme_gap_exact|]. split.
  - intros f Hf. rewrite Forall_forall in Hall. destruct (Hall f Hf) as [Hfp _].
    exact (proj1 (grimme_w_bounds (p_w0 p) f (p_alpha p) Hw Hfp)).
  - split; [rewrite (proj1 (entropy_methods sp p Hn)); apply grimme_gap_bound; assumption|].
    split; [|apply g_grimme_igm_gap; assumption].
    rewrite !h_cont_U, !p_T_with_method.
    rewrite (internal_energy_two_methods sp p LF_grimme LF_igm) by discriminate. reflexivity.
Qed.

(* Minenkov's variant additionally interpolates the vibrational internal energy with the same weights:
   U_minenkov - U_igm = sum (1 - w_i)(u_r - u_v,i), S_minenkov = S_grimme, and the gaps in H and G obey the same
   (1/K)^alpha bound. *)
Theorem minenkov_gap_bound_partial : forall (sp : Species R) (p : Params R) (K : R),
  (2 <= List.length (sp_atoms sp))%nat -> 0 <= p_T p -> 0 <= p_w0 p -> 0 < K ->
  Forall (fun f => 0 < f /\ K * p_w0 p <= f) (sp_vib sp) ->
  internal_vib_energy RO sp (with_method p LF_minenkov) - internal_vib_energy RO sp (with_method p LF_igm) =
    lsum RO (fun f => (1 - gw p f) * (u_free (p_T p) - u_harm (p_T p) f)) (sp_vib sp) /\
  entropy RO sp (with_method p LF_minenkov) = entropy RO sp (with_method p LF_grimme) /\
  Rabs (h_cont RO sp (with_method p LF_minenkov) - h_cont RO sp (with_method p LF_igm)) <=
    to_Ha ((1 / K) ^ p_alpha p * lsum RO (fun f => Rabs (u_free (p_T p) - u_harm (p_T p) f)) (sp_vib sp)) /\
  Rabs (g_cont RO sp (with_method p LF_minenkov) - g_cont RO sp (with_method p LF_igm)) <=
    to_Ha ((1 / K) ^ p_alpha p *
           (lsum RO (fun f => Rabs (u_free (p_T p) - u_harm (p_T p) f)) (sp_vib sp)
            + p_T p * lsum RO (fun f => Rabs (s_free sp (p_T p) f - s_harm (p_T p) f)) (sp_vib sp))).
Proof.
  intros sp p K Hn HT Hw HK Hall.
  destruct (g_minenkov_igm_gap sp p K Hn HT Hw HK Hall) as [HG HH].
  split; [|split; [exact (proj2 (entropy_methods sp p Hn))|split; assumption]].
  pose proof (minenkov_U_gap_exact sp (with_method p LF_igm)) as E.
  rewrite with_method_twice in E. destruct p as [T ss m0 sh w0 al sg]. apply E. discriminate.
Qed.

(* The inertia tensor: trace and determinant are invariant under EVERY orthogonal change of frame — over any
   field (instantiated below at R and Qc) — and the tensor about the centre of mass of ANY number of atoms
   transforms by conjugation under r -> Rm r + t followed by any permutation of the atoms. *)
Theorem moi_trace_and_det_rotation_invariant :
  forall (F : Type) (O : Ops F) (Finv : F -> F),
  field_theory (o0 O) (o1 O) (oadd O) (omul O) (osub O) (oopp O) (odiv O) Finv (@eq F) ->
  forall (Rm : @mat F), orthogonal O Rm ->
  (forall M : @mat F, det3 O (conj3 O Rm M) = det3 O M /\ trace3 O (conj3 O Rm M) = trace3 O M) /\
  (forall (t : nat -> F) (sp sp' : Species F),
     mom0 O (sp_atoms sp) <> o0 O -> Permutation (sp_atoms sp') (map (move O Rm t) (sp_atoms sp)) ->
     (forall i j, (i < 3)%nat -> (j < 3)%nat -> moi_about_com O sp' i j = conj3 O Rm (moi_about_com O sp) i j) /\
     det3 O (eig_arg O sp') = det3 O (eig_arg O sp) /\ trace3 O (eig_arg O sp') = trace3 O (eig_arg O sp)).
Proof.
  intros F O Finv Fth Rm HR. split.
  - intros M. split; [apply (det3_conj O Finv Fth)|apply (trace3_conj O Finv Fth)]; exact HR.
  - intros t sp sp' HM P. split.
    + intros i j Hi Hj. apply (mac_covariant O Finv Fth Rm t); assumption.
    + apply (eig_arg_invariants O Finv Fth Rm t); assumption.
Qed.

Corollary moi_invariants_over_R_and_Qc :
  (forall Rm t (sp sp' : Species R), orthogonal RO Rm -> mom0 RO (sp_atoms sp) <> 0 ->
     Permutation (sp_atoms sp') (map (move RO Rm t) (sp_atoms sp)) ->
     det3 RO (eig_arg RO sp') = det3 RO (eig_arg RO sp) /\ trace3 RO (eig_arg RO sp') = trace3 RO (eig_arg RO sp)) /\
  (forall Rm t (sp sp' : Species Qc), orthogonal QO Rm -> mom0 QO (sp_atoms sp) <> Q2Qc 0 ->
     Permutation (sp_atoms sp') (map (move QO Rm t) (sp_atoms sp)) ->
     det3 QO (eig_arg QO sp') = det3 QO (eig_arg QO sp) /\ trace3 QO (eig_arg QO sp') = trace3 QO (eig_arg QO sp)).
Proof.
  split; intros Rm t sp sp' HR HM P.
  - exact (proj2 (proj2 (moi_trace_and_det_rotation_invariant R RO Rinv RO_field Rm HR) t sp sp' HM P)).
  - exact (proj2 (proj2 (moi_trace_and_det_rotation_invariant Qc QO Qcinv QO_field Rm HR) t sp sp' HM P)).
Qed.

(* The tensor used by the formulas is about the centre of mass: a translation of the species leaves every
   entry unchanged (any number of atoms, any field). *)
Theorem moi_translation_invariant_about_com :
  forall (F : Type) (O : Ops F) (Finv : F -> F),
  field_theory (o0 O) (o1 O) (oadd O) (omul O) (osub O) (oopp O) (odiv O) Finv (@eq F) ->
  forall (t : nat -> F) (sp sp' : Species F),
  mom0 O (sp_atoms sp) <> o0 O -> sp_atoms sp' = map (move O (delta O) t) (sp_atoms sp) ->
  forall i j, (i < 3)%nat -> (j < 3)%nat -> moi_about_com O sp' i j = moi_about_com O sp i j.
Proof. intros F O Finv Fth t sp sp' HM E i j Hi Hj. apply (mac_translation_invariant O Finv Fth t); assumption. Qed.

(* q_rot of a non-linear rotor depends on the tensor only through the product of the eigenvalues the oracle
   returns, i.e. through the determinant: it is a closed form in det3 of the matrix handed to eigvalsh. *)
Theorem q_rot_depends_on_moi_via_invariants : forall (sp : Species R) (T s : R),
  eig_ok sp -> sp_linear sp = false -> List.length (sp_atoms sp) <> 1%nat ->
  q_rot_igm RO sp T s =
  pow15R T / s * sqrt (PI / (si_h RO ^ 2 * si_h RO ^ 2 * si_h RO ^ 2 /
                              (rot_const * rot_const * rot_const * det3 RO (eig_arg RO sp)))).
Proof. exact q_rot_nonlinear_det. Qed.

(* Frame independence of the ARITHMETIC between the oracles, for every molecule class (single atom, linear, non-linear):
   the same molecule after ANY rigid motion r -> Rm r + t (Rm orthogonal) and ANY permutation of its atoms, carrying the
   same given frequency list and the same parameters, has the same H and G contributions, entropy and internal energy,
   PROVIDED the oracles answer alike in both frames.
   PARTIAL with respect to the clause "do not depend on position, orientation or atom order": three oracle premises
   remain (the second is false of the real code on some inputs: known finding):
     - sp_linear sp' = sp_linear sp (inside same_molecule): discharged for atom re-orderings by is_linear_atom_order_independent
       (hand model of Atoms.are_linear, tied by pin + correspondence); for rigid motions it is exercised on the implementation only;
     - the same p_sigma in both frames: the default symmetry number comes from the search in symmetry.py, which depends
       on the atom order for benzene-type molecules;
     - the eigenvalue oracle is valid (product = det, sum = trace, positive) wherever it is consulted, i.e. only for
       non-linear species with more than one atom (needs_eig); for linear molecules and single atoms nothing is assumed. *)
Theorem thermo_frame_independent_partial :
  forall (Rm : @mat R) (t : nat -> R) (sp sp' : Species R) (p : Params R),
  same_molecule RO Rm t sp sp' -> orthogonal RO Rm -> mom0 RO (sp_atoms sp) <> 0 ->
  (needs_eig sp -> eig_ok sp) -> (needs_eig sp' -> eig_ok sp') ->
  h_cont RO sp' p = h_cont RO sp p /\ g_cont RO sp' p = g_cont RO sp p /\
  entropy RO sp' p = entropy RO sp p /\ internal_energy RO sp' p = internal_energy RO sp p.
Proof.
  intros Rm t sp sp' p Hs Ho Hm Hok Hok'.
  destruct (frame_thermo Rm t sp sp' Hs Ho Hm p Hok Hok') as [Hh Hg].
  repeat split; [exact Hh|exact Hg|apply (frame_entropy Rm t); assumption|apply (frame_internal_energy Rm t); assumption].
Qed.

(* The calculation leaves the internal geometry untouched: its only mutation is the translation by -com inside
   symmetry_number(), which preserves every interatomic distance (and masses and atom count); so does every
   rigid motion. *)
Theorem thermo_leaves_geometry :
  forall (F : Type) (O : Ops F) (Finv : F -> F),
  field_theory (o0 O) (o1 O) (oadd O) (omul O) (osub O) (oopp O) (odiv O) Finv (@eq F) ->
  forall (atoms : list (@atom F)),
  List.length (recentre O atoms) = List.length atoms /\
  (forall i j d, dist2 O (nth i (recentre O atoms) (mkAtom (am d) (osub O (ax d) (com O atoms 0)) (osub O (ay d) (com O atoms 1)) (osub O (az d) (com O atoms 2))))
                         (nth j (recentre O atoms) (mkAtom (am d) (osub O (ax d) (com O atoms 0)) (osub O (ay d) (com O atoms 1)) (osub O (az d) (com O atoms 2))))
                 = dist2 O (nth i atoms d) (nth j atoms d)) /\
  (forall Rm t a b, orthogonal O Rm -> dist2 O (move O Rm t a) (move O Rm t b) = dist2 O a b).
Proof.
  intros F O Finv Fth atoms. split; [unfold recentre; apply map_length|]. split.
  - intros i j d. unfold recentre.
    rewrite !(map_nth (fun a => mkAtom (am a) (osub O (ax a) (com O atoms 0)) (osub O (ay a) (com O atoms 1)) (osub O (az a) (com O atoms 2)))).
    apply (dist2_shift O Finv Fth).
  - intros Rm t a b HR. apply (dist2_move O Finv Fth). exact HR.
Qed.

(* Plain numbers in the default unit and unit-carrying values give the same arguments: temp=x (float) and
   Temperature(x, K); freq_shift / w0 = x (float, becomes Frequency(x) in cm-1) and Frequency(x, cm-1).  This is
   the C06 conversion identity conv x u u = x at the same unit; other units go through the C06 conversion. *)
Theorem numbers_equal_unit_values : forall x : Qc,
  temp_arg (WithUnit x AV.gen.C06_Gen.u_kelvin) = temp_arg (Num x) /\
  freq_arg (WithUnit x AV.gen.C06_Gen.u_wavenumber) = freq_arg (Num x) /\ freq_arg (Num x) = Some x /\
  AV.gen.C06_Gen.conv x AV.gen.C06_Gen.u_kelvin AV.gen.C06_Gen.u_kelvin = x /\
  AV.gen.C06_Gen.conv x AV.gen.C06_Gen.u_wavenumber AV.gen.C06_Gen.u_wavenumber = x /\
  temp_arg (WithUnit x AV.gen.C06_Gen.u_celsius) = Some (AV.gen.C06_Gen.conv x AV.gen.C06_Gen.u_celsius AV.gen.C06_Gen.u_kelvin) /\
  freq_arg (WithUnit x AV.gen.C06_Gen.u_hz) = Some (AV.gen.C06_Gen.conv x AV.gen.C06_Gen.u_hz AV.gen.C06_Gen.u_wavenumber).
Proof.
  intros x. rewrite temp_arg_kelvin, freq_arg_wavenumber, freq_arg_num, conv_same_kelvin, conv_same_wavenumber.
  do 5 (split; [reflexivity|]). split; [apply temp_arg_celsius|apply freq_arg_hz].
Qed.
(* The linearity decision (hand model are_linear_q of Atoms.are_linear as repaired by 5a4ab9d: the angles are measured at EVERY
   atom) does not depend on the order of the atoms, hence neither does the number of vibrational modes vib_of selects: the premise
   sp_linear sp' = sp_linear sp of thermo_frame_independent_partial holds for every re-ordering.  (Before the repair every angle was
   measured at atom 0 and a triatomic bent by 1.5 degrees was linear listed O,C,O but not listed C,O,O; the harness keeps that input:
   key calculate_thermo_cont|atom-order-dependence:near-linear:delta=1.5deg.) *)
Theorem is_linear_atom_order_independent :
  forall (tol : Qc) (atoms atoms' : list (@atom Qc)) (freqs : list Qc),
    Permutation atoms atoms' ->
    are_linear_q tol atoms = are_linear_q tol atoms' /\
    vib_of (are_linear_q tol atoms) freqs = vib_of (are_linear_q tol atoms') freqs.
Proof. intros tol atoms atoms' freqs P. rewrite (are_linear_q_perm tol _ _ P). split; reflexivity. Qed.

(* non-vacuity / discrimination: the decision separates a 0.75-degree from a 1.5-degree bend in EVERY order of O,C,O *)
Example are_linear_q_discriminates :
  let tol := qc 1523 10000000 in
  let o1 := mkAtom (qc 16 1) (qc (-1) 1) (Q2Qc 0) (Q2Qc 0) in let o2 := mkAtom (qc 16 1) (qc 1 1) (Q2Qc 0) (Q2Qc 0) in
  let c15 := mkAtom (qc 12 1) (Q2Qc 0) (qc 1 76) (Q2Qc 0) in let c05 := mkAtom (qc 12 1) (Q2Qc 0) (qc 1 229) (Q2Qc 0) in
  are_linear_q tol [o1; c15; o2] = false /\ are_linear_q tol [c15; o1; o2] = false /\
  are_linear_q tol [o1; c05; o2] = true /\ are_linear_q tol [c05; o2; o1] = true.
Proof. cbv zeta. repeat split; vm_compute; reflexivity. Qed.

(* ------------------------------------------------------------------ non-vacuity *)
(* an exactly orthogonal, non-trivial rational rotation (Pythagorean quaternion (1,2,2,4), norm 25) *)
Definition ex_rows : list (list Qc) :=
  [[qc (-15) 25; qc 0 25; qc 20 25]; [qc 16 25; qc (-15) 25; qc 12 25]; [qc 12 25; qc 20 25; qc 9 25]].
Example orthogonal_nonvacuous : orthogonal QO (mat_of_list ex_rows) /\ mat_of_list ex_rows 0%nat 2%nat <> Q2Qc 0.
Proof.
  split.
  - intros i j Hi Hj.
    destruct i as [|[|[|i]]]; try lia; destruct j as [|[|[|j]]]; try lia; split; apply Qc_is_canon; vm_compute; reflexivity.
  - intros E. apply (f_equal (fun q => Qeq_bool (this q) 0)) in E. vm_compute in E. discriminate.
Qed.

(* a non-linear 6-atom species with a valid spectrum, a quarter turn about z composed with a translation and a
   reversal of the atom order: all hypotheses of thermo_frame_independent / sigma_enters_G / the gap bounds hold *)
Definition ex_atoms : list (@atom R) :=
  [mkAtom 1 1 0 0; mkAtom 1 (-1) 0 0; mkAtom 1 0 2 0; mkAtom 1 0 (-2) 0; mkAtom 1 0 0 3; mkAtom 1 0 0 (-3)].
Definition ex_scale : R := u_kg_m_sq RO / u_amu_ang_sq RO.
Definition ex_eig (k : nat) : R := match k with 0%nat => 10 * ex_scale | 1%nat => 20 * ex_scale | _ => 26 * ex_scale end.
Definition ex_freqs : list R := [0; 0; 0; 0; 0; 0; 3000; 3500].
Definition ex_sp : Species R := mkSpecies ex_atoms false ex_eig [3000; 3500].
Definition ex_Rm : @mat R := fun i j =>
  match i, j with 0%nat, 1%nat => -1 | 1%nat, 0%nat => 1 | 2%nat, 2%nat => 1 | _, _ => 0 end.
Definition ex_t (k : nat) : R := match k with 0%nat => 1 | 1%nat => 2 | _ => 3 end.
Definition ex_sp' : Species R := mkSpecies (rev (map (move RO ex_Rm ex_t) ex_atoms)) false ex_eig [3000; 3500].

Lemma ex_moi i j : (i < 3)%nat -> (j < 3)%nat ->
  moi_about_com RO ex_sp i j = match i, j with 0%nat, 0%nat => 26 | 1%nat, 1%nat => 20 | 2%nat, 2%nat => 10 | _, _ => 0 end.
Proof.
  intros Hi Hj. unfold moi_about_com, moi, com, ex_sp, ex_atoms. cbv zeta. cbn [sp_atoms lsum].
  destruct i as [|[|[|i]]]; try lia; destruct j as [|[|[|j]]]; try lia;
    unfold moi_entry, coordk; cbn [am ax ay az Nat.eqb]; ro; field.
Qed.

Example frame_hypotheses_nonvacuous :
  same_molecule RO ex_Rm ex_t ex_sp ex_sp' /\ orthogonal RO ex_Rm /\ mom0 RO (sp_atoms ex_sp) <> 0 /\
  needs_eig ex_sp /\ eig_ok ex_sp /\ eig_ok ex_sp' /\ (2 <= List.length (sp_atoms ex_sp))%nat /\ 0 < q_rot_igm RO ex_sp 300 1 /\
  Forall (fun f => 0 < f /\ 30 * 100 <= f) (sp_vib ex_sp) /\ Forall (fun f => 100 <= f) (sp_vib ex_sp).
Proof.
  assert (Hsame : same_molecule RO ex_Rm ex_t ex_sp ex_sp').
  { split; [|split; [reflexivity|exists ex_freqs; split; reflexivity]].
    cbn [sp_atoms ex_sp ex_sp']. apply Permutation_sym, Permutation_rev. }
  assert (Horth : orthogonal RO ex_Rm).
  { intros i j Hi Hj. unfold gram, gramT, delta, ex_Rm.
    destruct i as [|[|[|i]]]; try lia; destruct j as [|[|[|j]]]; try lia; cbn [Nat.eqb]; ro; split; ring. }
  assert (Hmass : mom0 RO (sp_atoms ex_sp) <> 0).
  { unfold mom0, ex_sp, ex_atoms. cbn [sp_atoms lsum am]. ro. lra. }
  assert (Hscale : 0 < ex_scale).
  { unfold ex_scale. pose proof u_kgm2_pos. pose proof u_amuang2_pos. apply Rdiv_lt_0_compat; lra. }
  assert (Hpos : forall k, (k < 3)%nat -> 0 < ex_eig k).
  { intros k Hk. unfold ex_eig. destruct k as [|[|k]]; lra. }
  assert (Hdet : prod3 RO ex_eig = det3 RO (eig_arg RO ex_sp) /\ sum3 RO ex_eig = trace3 RO (eig_arg RO ex_sp)).
  { unfold eig_arg, det3, trace3, prod3, sum3. rewrite !ex_moi by lia. unfold ex_eig. ro. fold ex_scale. split; ring. }
  assert (Hok : eig_ok ex_sp) by (split; [exact (proj1 Hdet)|split; [exact (proj2 Hdet)|exact Hpos]]).
  assert (Hok' : eig_ok ex_sp').
  { destruct (proj1 moi_invariants_over_R_and_Qc ex_Rm ex_t ex_sp ex_sp' Horth Hmass (proj1 Hsame)) as [Hd Ht].
    split; [|split; [|exact Hpos]]; cbn [sp_eig ex_sp'].
    - rewrite Hd. exact (proj1 Hdet).
    - rewrite Ht. exact (proj2 Hdet). }
  split; [exact Hsame|]. split; [exact Horth|]. split; [exact Hmass|].
  split; [split; [reflexivity|cbn [sp_atoms ex_sp ex_atoms List.length]; lia]|]. split; [exact Hok|]. split; [exact Hok'|].
  split; [cbn [sp_atoms ex_sp ex_atoms List.length]; lia|].
  split; [apply q_rot_positive_nonlinear; [lra|exact Hok|reflexivity|cbn [sp_atoms ex_sp ex_atoms List.length]; lia]|].
  cbn [sp_vib ex_sp]. split; repeat constructor; lra.
Qed.

(* the linear and the atomic class: the premises of thermo_frame_independent_partial are satisfiable there too, and the
   eigenvalue premises are vacuous (needs_eig is false), so the theorem applies with NO assumption on the oracle sp_eig *)
Definition ex_lin (e : nat -> R) : Species R := mkSpecies [mkAtom 1 0 0 0; mkAtom 19 0 0 1] true e [4000].
Definition ex_lin' (e : nat -> R) : Species R :=
  mkSpecies (rev (map (move RO ex_Rm ex_t) [mkAtom 1 0 0 0; mkAtom 19 0 0 1])) true e [4000].
Definition ex_atom (e : nat -> R) : Species R := mkSpecies [mkAtom 40 3 1 (-2)] false e [].
Definition ex_atom' (e : nat -> R) : Species R := mkSpecies (map (move RO ex_Rm ex_t) [mkAtom 40 3 1 (-2)]) false e [].

Example frame_hypotheses_nonvacuous_linear_and_atom : forall (e e' : nat -> R) (p : Params R),
  (same_molecule RO ex_Rm ex_t (ex_lin e) (ex_lin' e') /\ mom0 RO (sp_atoms (ex_lin e)) <> 0 /\ ~ needs_eig (ex_lin e) /\
   g_cont RO (ex_lin' e') p = g_cont RO (ex_lin e) p /\ h_cont RO (ex_lin' e') p = h_cont RO (ex_lin e) p) /\
  (same_molecule RO ex_Rm ex_t (ex_atom e) (ex_atom' e') /\ mom0 RO (sp_atoms (ex_atom e)) <> 0 /\ ~ needs_eig (ex_atom e) /\
   g_cont RO (ex_atom' e') p = g_cont RO (ex_atom e) p /\ h_cont RO (ex_atom' e') p = h_cont RO (ex_atom e) p).
Proof.
  intros e e' p.
  assert (Horth : orthogonal RO ex_Rm).
  { intros i j Hi Hj. unfold gram, gramT, delta, ex_Rm.
    destruct i as [|[|[|i]]]; try lia; destruct j as [|[|[|j]]]; try lia; cbn [Nat.eqb]; ro; split; ring. }
  split.
  - assert (Hs : same_molecule RO ex_Rm ex_t (ex_lin e) (ex_lin' e')).
    { split; [|split; [reflexivity|exists [0; 0; 0; 0; 0; 4000]; split; reflexivity]].
      cbn [sp_atoms ex_lin ex_lin']. apply Permutation_sym, Permutation_rev. }
    assert (Hm : mom0 RO (sp_atoms (ex_lin e)) <> 0) by (unfold mom0; cbn [sp_atoms ex_lin lsum am]; ro; lra).
    assert (Hn : ~ needs_eig (ex_lin e)) by (intros [H _]; discriminate H).
    assert (Hn' : ~ needs_eig (ex_lin' e')) by (intros [H _]; discriminate H).
    destruct (thermo_frame_independent_partial ex_Rm ex_t (ex_lin e) (ex_lin' e') p Hs Horth Hm
                (fun H => False_ind _ (Hn H)) (fun H => False_ind _ (Hn' H))) as [Hh [Hg _]].
    split; [exact Hs|]. split; [exact Hm|]. split; [exact Hn|]. split; [exact Hg|exact Hh].
  - assert (Hs : same_molecule RO ex_Rm ex_t (ex_atom e) (ex_atom' e')).
    { split; [apply Permutation_refl|split; [reflexivity|exists []; split; reflexivity]]. }
    assert (Hm : mom0 RO (sp_atoms (ex_atom e)) <> 0) by (unfold mom0; cbn [sp_atoms ex_atom lsum am]; ro; lra).
    assert (Hn : ~ needs_eig (ex_atom e)) by (intros [_ H]; apply H; reflexivity).
    assert (Hn' : ~ needs_eig (ex_atom' e')) by (intros [_ H]; apply H; reflexivity).
    destruct (thermo_frame_independent_partial ex_Rm ex_t (ex_atom e) (ex_atom' e') p Hs Horth Hm
                (fun H => False_ind _ (Hn H)) (fun H => False_ind _ (Hn' H))) as [Hh [Hg _]].
    split; [exact Hs|]. split; [exact Hm|]. split; [exact Hn|]. split; [exact Hg|exact Hh].
Qed.
