(* C12/Corr.v — helpers used only by the correspondence check: the GENERATED formulas evaluated at Qc on the
   rational-closed parts, compared with what the implementation returned (floats as exact rationals).
   QO: np.pi = the double, no transcendental functions.  Two further instances make more of the formulas
   rational-closed:  QO_one (x ** 1.5 := 1) turns q_trans_igm into the effective volume alone;
   QO_id (x ** 1.5 := x, sqrt := x) turns q_trans_igm into ARG * V and the non-linear q_rot_igm into
   (T / sigma) * (pi / prod omega), from which q^2 is a rational function. *)
From Coq Require Import ZArith QArith Qcanon List Bool Arith.
From AV.lib Require Import QcInst.
From AV.C12 Require Import Base Model.
From AV.gen Require Import C12_Gen.
Import ListNotations.

Definition z : Qc := Q2Qc 0.
Definition QO_one : Ops Qc :=
  mkOps Qc (Q2Qc 0) (Q2Qc 1) Qcplus Qcmult Qcminus Qcopp Qcdiv qc pi_double
        (fun _ => z) (fun _ => z) (fun _ => z) (fun _ => Q2Qc 1) Qcmaxq.
Definition QO_id : Ops Qc :=
  mkOps Qc (Q2Qc 0) (Q2Qc 1) Qcplus Qcmult Qcminus Qcopp Qcdiv qc pi_double
        (fun _ => z) (fun _ => z) (fun x => x) (fun x => x) Qcmaxq.

(* relative closeness |a-b| <= tol * max(|a|,|b|)   (SI quantities are tiny: QcInst.close is absolute below 1) *)
Definition rclose (tol a b : Qc) : bool := Qcleb (Qcabs (a - b)%Qc) (tol * Qcmaxq (Qcabs a) (Qcabs b))%Qc.
Fixpoint rcloseL (tol : Qc) (a b : list Qc) : bool :=
  match a, b with
  | [], [] => true
  | x :: a', y :: b' => rclose tol x y && rcloseL tol a' b'
  | _, _ => false
  end.
(* mixed: relative, or absolute below `abs` (entries that cancel to ~0) *)
Definition mclose (tol abs a b : Qc) : bool := rclose tol a b || Qcleb (Qcabs (a - b)%Qc) abs.
Fixpoint mcloseL (tol abs : Qc) (a b : list Qc) : bool :=
  match a, b with
  | [], [] => true
  | x :: a', y :: b' => mclose tol abs x y && mcloseL tol abs a' b'
  | _, _ => false
  end.

Definition tol9 : Qc := qc 1 1000000000.
Definition tol11 : Qc := qc 1 100000000000.

(* atoms as rows [mass; x; y; z] *)
Definition mk_atoms (rows : list (list Qc)) : list (@atom Qc) :=
  map (fun r => mkAtom (nth 0 r z) (nth 1 r z) (nth 2 r z) (nth 3 r z)) rows.
Definition mk_sp (rows : list (list Qc)) (linear : bool) (eig vib : list Qc) : Species Qc :=
  mkSpecies (mk_atoms rows) linear (vec_of_list eig) vib.
Definition flat3 (M : nat -> nat -> Qc) : list Qc :=
  [M 0 0; M 0 1; M 0 2; M 1 0; M 1 1; M 1 2; M 2 0; M 2 1; M 2 2]%nat.

(* Atoms.moi / Atoms.com / weight / _moi_about_com of the CURRENT coordinates (amu, Angstrom); `scale` is the
   size of the tensor (sum m r^2), entries that cancel are compared absolutely against it *)
Definition check_moi (rows : list (list Qc)) (expect : list Qc) (scale : Qc) : bool :=
  mcloseL tol9 (tol9 * scale)%Qc (flat3 (moi QO (mk_atoms rows))) expect.
Definition check_mac (rows : list (list Qc)) (expect : list Qc) (scale : Qc) : bool :=
  mcloseL tol9 (tol9 * scale)%Qc (flat3 (moi_about_com QO (mk_sp rows false [] []))) expect.
Definition check_com (rows : list (list Qc)) (expect : list Qc) (scale : Qc) : bool :=
  let a := mk_atoms rows in mcloseL tol9 (tol9 * scale)%Qc [com QO a 0; com QO a 1; com QO a 2]%nat expect.
Definition check_weight (rows : list (list Qc)) (expect : Qc) : bool := rclose tol11 (weight QO (mk_atoms rows)) expect.

(* evaluate the nine entries once *)
Definition tab3 (M : nat -> nat -> Qc) : nat -> nat -> Qc :=
  let l := flat3 M in fun i j => nth (3 * i + j) l z.

(* the eigenvalue ORACLE is valid for the matrix the generated code hands to eigvalsh: product = det, sum = trace *)
Definition check_eig (rows : list (list Qc)) (eig : list Qc) : bool :=
  let sp := mk_sp rows false eig [] in
  let M := tab3 (eig_arg QO sp) in
  rclose tol9 (prod3 QO (sp_eig sp)) (det3 QO M) && rclose tol9 (sum3 QO (sp_eig sp)) (trace3 QO M).

(* _q_rot_igm: linear branch exactly rational; non-linear branch through its square *)
Definition check_q_rot_linear (rows : list (list Qc)) (T sigma expect : Qc) : bool :=
  rclose tol9 (q_rot_igm QO (mk_sp rows true [] []) T sigma) expect.
Definition check_q_rot_sq (rows : list (list Qc)) (eig : list Qc) (T sigma expect_sq : Qc) : bool :=
  rclose tol9 (q_rot_igm QO_id (mk_sp rows false eig []) T sigma * T * T / sigma)%Qc expect_sq.
(* _q_trans_igm: effective volume, and the square of the whole *)
Definition check_vol (rows : list (list Qc)) (ss : sstate) (T expect : Qc) : bool :=
  rclose tol9 (q_trans_igm QO_one (mk_sp rows false [] []) ss T) expect.
Definition check_q_trans_sq (rows : list (list Qc)) (ss : sstate) (T expect_sq : Qc) : bool :=
  let sp := mk_sp rows false [] [] in
  let v := q_trans_igm QO_one sp ss T in
  let av := q_trans_igm QO_id sp ss T in          (* ARG * V *)
  rclose tol9 (av * av * av / v)%Qc expect_sq.   (* ARG^3 V^2 *)
(* the effective volumes against their physical definition: k_B T / (1 atm) and 1 L / N_A *)
Definition check_vol_reference (T : Qc) : bool :=
  let sp := mk_sp [] false [] [] in
  rclose tol11 (q_trans_igm QO_one sp SS_1atm T) (si_k_b QO * T / qc 101325 1)%Qc &&
  rclose tol11 (q_trans_igm QO_one sp SS_1M T) (qc 1 1000 / c_n_a QO)%Qc.

(* _zpe, _grimme_w, the H / G assembly *)
Definition check_zpe (rows : list (list Qc)) (vib : list Qc) (expect : Qc) : bool :=
  rclose tol9 (zpe QO (mk_sp rows false [] vib)) expect.
Definition check_grimme_w (w0 f : Qc) (alpha : nat) (expect : Qc) : bool := rclose tol9 (grimme_w QO w0 f alpha) expect.
Definition check_h_assembly (U T expect : Qc) : bool := rclose tol9 (h_assembly QO U T) expect.
Definition check_g_assembly (H T S expect : Qc) : bool := mclose tol9 (tol9 * Qcabs H)%Qc (g_assembly QO H T S) expect.
(* the rational part of U:  U - e_vib = zpe + (3/2 + rot) k_B T *)
Definition check_u_rational (rows : list (list Qc)) (linear : bool) (vib : list Qc) (T expect : Qc) : bool :=
  let sp := mk_sp rows linear [] vib in
  let p := mkParams T SS_1atm LF_igm z z 1%nat (Q2Qc 1) in
  (* with oexp := 0 every harmonic term is k_B x / (0 - 1): subtract it again *)
  rclose tol9 (internal_energy QO sp p - internal_vib_energy QO sp p)%Qc expect.

(* the hand model of Atoms.are_linear (Model.are_linear_q) against species.is_linear() *)
Definition check_are_linear (rows : list (list Qc)) (tol : Qc) (expect : bool) : bool :=
  Bool.eqb (are_linear_q tol (mk_atoms rows)) expect.
