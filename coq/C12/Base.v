(* C12/Base.v — the vocabulary the generated thermochemistry formulas (gen/C12_Gen.v) are written in.
   Definitions only.  One record of operations `Ops F` so that the SAME generated Gallina term is
   (a) instantiated at R with the real functions (theorems, Model.v / Lemmas.v) and
   (b) instantiated at Qc for evaluation of the rational-closed parts (Corr.v). *)
From Coq Require Import ZArith List.
Import ListNotations.

Record Ops (F : Type) := mkOps {
  o0 : F; o1 : F;
  oadd : F -> F -> F; omul : F -> F -> F; osub : F -> F -> F; oopp : F -> F;
  odiv : F -> F -> F;
  ofQ : Z -> positive -> F;      (* a numeric literal / folded constant: the exact value n/d of the double *)
  opi : F;                       (* np.pi *)
  oln : F -> F; oexp : F -> F; osqrt : F -> F;     (* np.log, np.exp, np.sqrt *)
  opow15 : F -> F;               (* x ** 1.5 *)
  omax : F -> F -> F             (* max(a, b) *)
}.
Arguments o0 {F} _. Arguments o1 {F} _. Arguments oadd {F} _ _ _. Arguments omul {F} _ _ _.
Arguments osub {F} _ _ _. Arguments oopp {F} _ _. Arguments odiv {F} _ _ _. Arguments ofQ {F} _ _ _.
Arguments opi {F} _. Arguments oln {F} _ _. Arguments oexp {F} _ _. Arguments osqrt {F} _ _.
Arguments opow15 {F} _ _. Arguments omax {F} _ _ _.

Section Vocabulary.
Context {F : Type} (O : Ops F).

(* x ** k for a literal / integer exponent k *)
Fixpoint pown (x : F) (k : nat) : F :=
  match k with 0%nat => o1 O | S k' => omul O x (pown x k') end.

(* sum(... for a in l) and the `s = 0; for a in l: s += term` accumulator *)
Fixpoint lsum {A : Type} (f : A -> F) (l : list A) : F :=
  match l with [] => o0 O | a :: r => oadd O (f a) (lsum f r) end.

(* an atom: mass (amu) and Cartesian coordinates (Angstrom) *)
Record atom := mkAtom { am : F; ax : F; ay : F; az : F }.

Definition mat := nat -> nat -> F.
Definition trace3 (M : mat) : F := oadd O (oadd O (M 0%nat 0%nat) (M 1%nat 1%nat)) (M 2%nat 2%nat).
Definition prod3 (v : nat -> F) : F := omul O (omul O (v 0%nat) (v 1%nat)) (v 2%nat).
Definition mscale (c : F) (M : mat) : mat := fun i j => omul O (M i j) c.
End Vocabulary.

Arguments mkAtom {F} _ _ _ _. Arguments am {F} _. Arguments ax {F} _. Arguments ay {F} _. Arguments az {F} _.

(* what the formulas read from a species (everything else is derived from the atoms by generated code) *)
Record Species (F : Type) := mkSpecies {
  sp_atoms : list (@atom F);     (* species.atoms at the time the formulas run *)
  sp_linear : bool;              (* ORACLE species.is_linear() *)
  sp_eig : nat -> F;             (* ORACLE np.linalg.eigvalsh(species.moi.to("kg m^2")), 3 values *)
  sp_vib : list F                (* species.vib_frequencies: real parts, cm-1 *)
}.
Arguments mkSpecies {F} _ _ _ _. Arguments sp_atoms {F} _. Arguments sp_linear {F} _.
Arguments sp_eig {F} _ _. Arguments sp_vib {F} _.

Inductive lfm := LF_igm | LF_truhlar | LF_grimme | LF_minenkov.    (* igm.LFMethod *)
Definition lfm_eqb (a b : lfm) : bool :=
  match a, b with
  | LF_igm, LF_igm | LF_truhlar, LF_truhlar | LF_grimme, LF_grimme | LF_minenkov, LF_minenkov => true
  | _, _ => false
  end.
Inductive sstate := SS_1atm | SS_1M.                               (* params.ss.lower() in {"1atm","1m"} *)
Definition is_1atm (s : sstate) : bool := match s with SS_1atm => true | _ => false end.
Definition is_1m (s : sstate) : bool := match s with SS_1M => true | _ => false end.

(* igm._ThermoParams, after the unit handling of Model.temp_arg / Model.freq_arg *)
Record Params (F : Type) := mkParams {
  p_T : F;            (* params.T, K *)
  p_ss : sstate;      (* params.ss *)
  p_method : lfm;     (* params.method *)
  p_shift : F;        (* float(params.shift.to("cm-1")) *)
  p_w0 : F;           (* float(params.w0.to("cm-1")) *)
  p_alpha : nat;      (* params.alpha = int(...) *)
  p_sigma : F         (* params.sigma_r *)
}.
Arguments mkParams {F} _ _ _ _ _ _ _. Arguments p_T {F} _. Arguments p_ss {F} _. Arguments p_method {F} _.
Arguments p_shift {F} _. Arguments p_w0 {F} _. Arguments p_alpha {F} _. Arguments p_sigma {F} _.
