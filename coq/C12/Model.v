(* C12/Model.v — definitions only.
   The thermochemistry formulas themselves are GENERATED (gen/C12_Gen.v, from autode/thermochemistry/igm.py,
   Atoms.moi / Atoms.com / weight of autode/atoms.py) over the operation record Base.Ops.  Here:
   - the instance RO of the operations at the Coq reals (np.log -> ln, np.exp -> exp, np.sqrt -> sqrt,
     np.pi -> PI, x ** 1.5 -> x * sqrt x, max -> Rmax);
   - rigid motions / orthogonal frame changes of a list of atoms over any field, 3x3 determinant and
     conjugation, what "the eigenvalue oracle is valid" means;
   - the per-mode quantities the Grimme / Minenkov bounds are stated with;
   - how `temp`, `freq_shift`, `w0` arrive as plain numbers or as unit-carrying values
     (igm.py:43-54, 107-111), on top of the C06 model of autode.values (Value.to). *)
From Coq Require Import Reals ZArith List Bool Arith QArith Qcanon String Permutation.
From AV.lib Require Import QcInst.
From AV.C12 Require Import Base.
From AV.gen Require Import C12_Gen.
Require AV.C06.Base AV.C06.Model AV.gen.C06_Gen.
Import ListNotations.

(* ------------------------------------------------------------------ the real instance *)
Definition ofQR (n : Z) (d : positive) : R := (IZR n / IZR (Zpos d))%R.
Definition pow15R (x : R) : R := (x * sqrt x)%R.        (* x ** 1.5 for x >= 0 *)
Definition RO : Ops R :=
  mkOps R 0%R 1%R Rplus Rmult Rminus Ropp Rdiv ofQR PI ln exp sqrt pow15R Rmax.

(* the rational instance used for EVALUATION of the rational-closed parts (Corr.v) and for the statement that
   the inertia-tensor algebra holds over Qc as well: np.pi is the double, transcendental functions are not
   available (dummy 0) and never reached by what is evaluated *)
Definition pi_double : Qc := qc 884279719003555 281474976710656.
Definition QO : Ops Qc :=
  mkOps Qc (Q2Qc 0) (Q2Qc 1) Qcplus Qcmult Qcminus Qcopp Qcdiv qc pi_double
        (fun _ => Q2Qc 0) (fun _ => Q2Qc 0) (fun _ => Q2Qc 0) (fun _ => Q2Qc 0) Qcmaxq.

(* ------------------------------------------------------------------ geometry over any operations record *)
Section Geometry.
Context {F : Type} (O : Ops F).
Local Notation "a + b" := (oadd O a b).
Local Notation "a * b" := (omul O a b).
Local Notation "a - b" := (osub O a b).
Local Notation atomT := (@atom F).
Local Notation matT := (@mat F).

Definition delta (i j : nat) : F := if Nat.eqb i j then o1 O else o0 O.
(* (Rm r)_k for the position r of atom a *)
Definition mv3 (Rm : matT) (a : atomT) (k : nat) : F :=
  Rm k 0%nat * ax a + Rm k 1%nat * ay a + Rm k 2%nat * az a.
(* rigid motion r -> Rm r + t of one atom (mass unchanged) *)
Definition move (Rm : matT) (t : nat -> F) (a : atomT) : atomT :=
  mkAtom (am a) (mv3 Rm a 0 + t 0%nat) (mv3 Rm a 1 + t 1%nat) (mv3 Rm a 2 + t 2%nat).
(* Rm Rm^T and Rm^T Rm *)
Definition gram (Rm : matT) (i j : nat) : F :=
  Rm i 0%nat * Rm j 0%nat + Rm i 1%nat * Rm j 1%nat + Rm i 2%nat * Rm j 2%nat.
Definition gramT (Rm : matT) (i j : nat) : F :=
  Rm 0%nat i * Rm 0%nat j + Rm 1%nat i * Rm 1%nat j + Rm 2%nat i * Rm 2%nat j.
Definition orthogonal (Rm : matT) : Prop :=
  forall i j, (i < 3)%nat -> (j < 3)%nat -> gram Rm i j = delta i j /\ gramT Rm i j = delta i j.
(* (Rm M Rm^T)_ij *)
Definition row3 (Rm M : matT) (i l : nat) : F := Rm i 0%nat * M 0%nat l + Rm i 1%nat * M 1%nat l + Rm i 2%nat * M 2%nat l.
Definition conj3 (Rm M : matT) : matT :=
  fun i j => row3 Rm M i 0 * Rm j 0%nat + row3 Rm M i 1 * Rm j 1%nat + row3 Rm M i 2 * Rm j 2%nat.
Definition det3 (M : matT) : F :=
  M 0%nat 0%nat * (M 1%nat 1%nat * M 2%nat 2%nat - M 1%nat 2%nat * M 2%nat 1%nat)
  - M 0%nat 1%nat * (M 1%nat 0%nat * M 2%nat 2%nat - M 1%nat 2%nat * M 2%nat 0%nat)
  + M 0%nat 2%nat * (M 1%nat 0%nat * M 2%nat 1%nat - M 1%nat 1%nat * M 2%nat 0%nat).
Definition sum3 (v : nat -> F) : F := v 0%nat + v 1%nat + v 2%nat.
(* squared distance between two atoms *)
Definition dist2 (a b : atomT) : F :=
  (ax a - ax b) * (ax a - ax b) + (ay a - ay b) * (ay a - ay b) + (az a - az b) * (az a - az b).
(* the translation symmetry_number() applies to the species (symmetry.py:231): r -> r - com *)
Definition recentre (atoms : list atomT) : list atomT :=
  map (fun a => mkAtom (am a) (ax a - com O atoms 0) (ay a - com O atoms 1) (az a - com O atoms 2)) atoms.

(* mass moments of a list of atoms *)
Definition mom0 (atoms : list atomT) : F := lsum O (fun a => am a) atoms.
Definition mom1 (atoms : list atomT) (k : nat) : F := lsum O (fun a => am a * coordk a k) atoms.
Definition mom2 (atoms : list atomT) (k l : nat) : F := lsum O (fun a => am a * coordk a k * coordk a l) atoms.
End Geometry.

(* Species.vib_frequencies (species.py): all but the lowest 6 of the frequency list, all but the lowest 5 when the species is
   linear.  The vibrational frequencies a species hands to the formulas are DERIVED from the linearity oracle. *)
Definition vib_of {F} (linear : bool) (freqs : list F) : list F := skipn (if linear then 5 else 6)%nat freqs.

(* the same molecule in another frame / atom order: atoms' is a permutation of the moved atoms and both carry the same given
   frequency list `freqs`.  The linearity ORACLE is re-evaluated in the new frame; that it gives the same answer there is a
   premise (sp_linear sp' = sp_linear sp); for atom re-orderings see are_linear_q below. *)
Definition same_molecule {F} (O : Ops F) (Rm : @mat F) (t : nat -> F) (sp sp' : Species F) : Prop :=
  Permutation (sp_atoms sp') (map (move O Rm t) (sp_atoms sp)) /\
  sp_linear sp' = sp_linear sp /\
  exists freqs, sp_vib sp = vib_of (sp_linear sp) freqs /\ sp_vib sp' = vib_of (sp_linear sp') freqs.

(* ------------------------------------------------------------------ over the reals *)
Open Scope R_scope.

(* the eigenvalue oracle is valid: three positive numbers whose product is the determinant and whose sum is
   the trace of the matrix handed to eigvalsh (all a symmetric positive-definite matrix's spectrum is used for) *)
(* the eigenvalue oracle is only consulted by the non-linear branch of _q_rot_igm of a species with more than one atom *)
Definition needs_eig {F} (sp : Species F) : Prop := sp_linear sp = false /\ List.length (sp_atoms sp) <> 1%nat.
Definition eig_ok (sp : Species R) : Prop :=
  prod3 RO (sp_eig sp) = det3 RO (eig_arg RO sp) /\
  sum3 RO (sp_eig sp) = trace3 RO (eig_arg RO sp) /\
  (forall k, (k < 3)%nat -> 0 < sp_eig sp k).

(* weights and per-mode entropies / energies of the interpolating treatments *)
Definition gw (p : Params R) (f : R) : R := grimme_w RO (p_w0 p) f (p_alpha p).
Definition s_harm (T f : R) : R :=                              (* s_v: harmonic oscillator, = igm term *)
  let x := f * (u_hz RO / u_wavenumber RO) * si_h RO / (si_k_b RO * T) in
  si_k_b RO * (x / (exp x - 1) - ln (1 - exp (- x))).
Definition s_free (sp : Species R) (T f : R) : R :=             (* s_r: free rotor with averaged inertia *)
  let b_avg := trace3 RO (eig_arg RO sp) / 3 in
  let omega := f * (u_hz RO / u_wavenumber RO) in
  let mu := si_h RO / (8 * PI ^ 2 * omega) in
  let mu' := mu * b_avg / (mu + b_avg) in
  si_k_b RO * (1 / 2 + ln (sqrt (8 * PI ^ 3 * mu' * si_k_b RO * T / si_h RO ^ 2))).
Definition u_harm (T f : R) : R :=
  let x := f * c_c_in_cm RO * si_h RO / si_k_b RO in
  si_k_b RO * x * (1 / (exp (x / T) - 1)).
Definition u_free (T : R) : R := 1 / 2 * si_k_b RO * T.

Definition with_method (p : Params R) (m : lfm) : Params R :=
  mkParams (p_T p) (p_ss p) m (p_shift p) (p_w0 p) (p_alpha p) (p_sigma p).
Definition with_sigma (p : Params R) (s : R) : Params R :=
  mkParams (p_T p) (p_ss p) (p_method p) (p_shift p) (p_w0 p) (p_alpha p) s.
Definition with_ss (p : Params R) (s : sstate) : Params R :=
  mkParams (p_T p) s (p_method p) (p_shift p) (p_w0 p) (p_alpha p) (p_sigma p).

(* energies in J of the Ha values calculate_thermo_cont stores (EnthalpyCont/FreeEnergyCont .to("J")) *)
Definition to_J (x : R) : R := x * (u_J RO / u_ha RO).
Definition to_Ha (x : R) : R := x * (u_ha RO / u_J RO).

(* translational partition function  q = (2 pi m k_B T / h^2)^1.5 * V  and the two effective volumes *)
Definition vol_1atm (T : R) : R := si_k_b RO * T / c_atm_to_pa RO.            (* k_B T / p(1 atm) *)
Definition vol_1m : R := 1 / (c_n_a RO * (1 / c_dm_to_m RO) ^ 3).           (* 1 / (N_A dm^-3) *)
Definition vol_of (ss : sstate) (T : R) : R := match ss with SS_1atm => vol_1atm T | SS_1M => vol_1m end.
Definition trans_arg (sp : Species R) (T : R) : R :=
  2 * PI * (weight RO (sp_atoms sp) * (u_kg RO / u_amu RO)) * si_k_b RO * T / si_h RO ^ 2.

(* physical sanity of a species / parameter set (hypotheses of the logarithm identities) *)
Definition positive_masses (atoms : list (@atom R)) : Prop := Forall (fun a => 0 < am a) atoms.
Close Scope R_scope.

(* ------------------------------------------------------------------ numbers or unit-carrying values *)
(* calculate_thermo_cont:  T = float(temp.to("K")) if isinstance(temp, Temperature) else temp        (igm.py:109)
   _ThermoParams:          shift = Frequency(kwargs.get("freq_shift", ...)), w0 likewise               (igm.py:51-52)
                           later float(x.to("cm-1"));   Frequency(number) carries cm-1, Frequency(Value) keeps
                           the value's unit (values.py:134-137).   Value.to is the C06 model `to_name`. *)
Inductive qty := Num (x : Qc) | WithUnit (x : Qc) (u : AV.C06.Base.unit).

Fixpoint class_units (k : string) (l : list (string * list AV.C06.Base.unit)) : list AV.C06.Base.unit :=
  match l with [] => [] | (k', v) :: r => if String.eqb k k' then v else class_units k r end.
Definition temperature_units := class_units "Temperature" AV.gen.C06_Gen.classes.
Definition frequency_units := class_units "Frequency" AV.gen.C06_Gen.classes.

Definition value_to (cls : list AV.C06.Base.unit) (x : Qc) (u : AV.C06.Base.unit) (name : string) : option Qc :=
  option_map AV.C06.Model.vx (AV.C06.Model.to_name cls (AV.C06.Model.mkValue x u) name).
Definition temp_arg (t : qty) : option Qc :=
  match t with Num x => Some x | WithUnit x u => value_to temperature_units x u "k" end.
Definition freq_arg (f : qty) : option Qc :=
  match f with
  | Num x => value_to frequency_units x AV.gen.C06_Gen.u_wavenumber "cm-1"
  | WithUnit x u => value_to frequency_units x u "cm-1"
  end.

(* ------------------------------------------------------------------ the linearity oracle, hand model (rational form) *)
(* Atoms.are_linear (atoms.py, pinned; as repaired by 5a4ab9d): fewer than 2 atoms -> False; 2 atoms -> True; otherwise with
   tol = |1 - cos(angle_tol)|: for EVERY atom i, the unit vectors from i to all the other atoms; False as soon as some pair of
   them has | |cos| - 1 | > tol.  Since |cos| <= 1 the test reads |cos| < 1 - tol, i.e. (v.w)^2 < (1 - tol)^2 (v.v)(w.w) for the
   unnormalised difference vectors: a decision over the rationals (no square root), equal to the code's up to rounding of a tie.
   (Quantifying j, k over ALL atoms instead of the others only adds zero vectors, for which the strict test is false.) *)
Definition dq (a b : @atom Qc) : Qc * Qc * Qc := ((ax a - ax b)%Qc, (ay a - ay b)%Qc, (az a - az b)%Qc).
Definition dotq (v w : Qc * Qc * Qc) : Qc :=
  let '(a, b, c) := v in let '(d, e, f) := w in (a * d + b * e + c * f)%Qc.
Definition off_axis (tol : Qc) (a j k : @atom Qc) : bool :=
  let v := dq j a in let w := dq k a in
  Qcltb (dotq v w * dotq v w)%Qc ((Q2Qc 1 - tol) * (Q2Qc 1 - tol) * dotq v v * dotq w w)%Qc.
Definition all_on_axis (tol : Qc) (atoms : list (@atom Qc)) : bool :=
  forallb (fun a => forallb (fun j => forallb (fun k => negb (off_axis tol a j k)) atoms) atoms) atoms.
Definition are_linear_q (tol : Qc) (atoms : list (@atom Qc)) : bool :=
  if Nat.ltb (List.length atoms) 2 then false
  else if Nat.eqb (List.length atoms) 2 then true else all_on_axis tol atoms.
