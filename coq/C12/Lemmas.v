(* C12/Lemmas.v — lemmas and proofs for C12.
   Part A: algebra of the inertia tensor over ANY field (instantiated at R and Qc): mass moments, their
           behaviour under rigid motions and atom permutations, trace / determinant under orthogonal
           conjugation.  No axioms.
   Part B: the generated thermochemistry formulas at the reals (RO): assembly identities, symmetry number,
           standard state, single atom, Truhlar / Grimme / Minenkov versus the harmonic treatment, frame
           independence.  Uses the standard library's real-number axioms.
   Part C: numbers versus unit-carrying values (over Qc, on top of the C06 model). *)
From Coq Require Import Reals ZArith List Bool Arith QArith Qcanon String Permutation Lia Lra Field Ring.
From AV.lib Require Import QcInst.
From AV.C12 Require Import Base Model.
From AV.gen Require Import C12_Gen.
Require AV.C06.Base AV.C06.Model AV.gen.C06_Gen.
Import ListNotations.

(* ================================================================== Part A: any field *)
Section Algebra.
Context {F : Type} (O : Ops F) (Finv : F -> F).
Hypothesis Fth : field_theory (o0 O) (o1 O) (oadd O) (omul O) (osub O) (oopp O) (odiv O) Finv (@eq F).
Add Field FfC12 : Fth.
Local Notation "0" := (o0 O).
Local Notation "1" := (o1 O).
Local Notation "a + b" := (oadd O a b).
Local Notation "a * b" := (omul O a b).
Local Notation "a - b" := (osub O a b).
Local Notation "a / b" := (odiv O a b).
Local Notation "- a" := (oopp O a).
Local Notation atomT := (@atom F).
Local Notation matT := (@mat F).

(* ---------- finite sums over lists ---------- *)
Lemma lsum_perm {A} (f : A -> F) l l' : Permutation l l' -> lsum O f l = lsum O f l'.
Proof.
  induction 1 as [|x l l' _ IH|x y l|l l' l'' _ IH1 _ IH2]; cbn [lsum].
  - reflexivity.
  - rewrite IH. reflexivity.
  - ring.
  - rewrite IH1. exact IH2.
Qed.

Lemma lsum_map {A B} (g : A -> B) (f : B -> F) l : lsum O f (map g l) = lsum O (fun a => f (g a)) l.
Proof. induction l as [|a l IH]; cbn [lsum map]; [reflexivity|]. rewrite IH. reflexivity. Qed.

Lemma lsum_ext {A} (f g : A -> F) l : (forall a, f a = g a) -> lsum O f l = lsum O g l.
Proof. intros H. induction l as [|a l IH]; cbn [lsum]; [reflexivity|]. rewrite IH, H. reflexivity. Qed.

Lemma lsum_ext_in {A} (f g : A -> F) l : (forall a, In a l -> f a = g a) -> lsum O f l = lsum O g l.
Proof.
  intros H. induction l as [|a l IH]; cbn [lsum]; [reflexivity|].
  rewrite IH by (intros b Hb; apply H; right; exact Hb). rewrite (H a) by (left; reflexivity). reflexivity.
Qed.

Lemma lsum_add {A} (f g : A -> F) l : lsum O (fun a => f a + g a) l = lsum O f l + lsum O g l.
Proof. induction l as [|a l IH]; cbn [lsum]; [ring|]. rewrite IH. ring. Qed.

Lemma lsum_sub {A} (f g : A -> F) l : lsum O (fun a => f a - g a) l = lsum O f l - lsum O g l.
Proof. induction l as [|a l IH]; cbn [lsum]; [ring|]. rewrite IH. ring. Qed.

Lemma lsum_scal {A} c (f : A -> F) l : lsum O (fun a => c * f a) l = c * lsum O f l.
Proof. induction l as [|a l IH]; cbn [lsum]; [ring|]. rewrite IH. ring. Qed.

Lemma lsum_zero {A} (l : list A) : lsum O (fun _ => 0) l = 0.
Proof. induction l as [|a l IH]; cbn [lsum]; [reflexivity|]. rewrite IH. ring. Qed.

(* ---------- Atoms.moi in terms of the second mass moments ---------- *)
Definition trQ (atoms : list atomT) : F := mom2 O atoms 0 0 + mom2 O atoms 1 1 + mom2 O atoms 2 2.

Lemma moi_moments atoms i j : (i < 3)%nat -> (j < 3)%nat ->
  moi O atoms i j = delta O i j * trQ atoms - mom2 O atoms i j.
Proof.
  intros Hi Hj. unfold moi, trQ, mom2.
  destruct i as [|[|[|i]]]; try lia; destruct j as [|[|[|j]]]; try lia;
    (induction atoms as [|a l IH]; cbn [lsum];
     [unfold delta; cbn [Nat.eqb]; ring
     |rewrite IH; unfold moi_entry, delta, coordk; cbn [Nat.eqb pown]; ring]).
Qed.

(* ---------- mass moments under a rigid motion r -> Rm r + t ---------- *)
Lemma coordk_move Rm t (a : atomT) k : (k < 3)%nat ->
  coordk (move O Rm t a) k = Rm k 0%nat * ax a + Rm k 1%nat * ay a + Rm k 2%nat * az a + t k.
Proof. intros Hk. destruct k as [|[|[|k]]]; try lia; reflexivity. Qed.

Lemma mom0_move Rm t atoms : mom0 O (map (move O Rm t) atoms) = mom0 O atoms.
Proof. unfold mom0. rewrite lsum_map. apply lsum_ext. intros a. reflexivity. Qed.

Lemma mom1_move Rm t atoms k : (k < 3)%nat ->
  mom1 O (map (move O Rm t) atoms) k =
  Rm k 0%nat * mom1 O atoms 0 + Rm k 1%nat * mom1 O atoms 1 + Rm k 2%nat * mom1 O atoms 2 + t k * mom0 O atoms.
Proof.
  intros Hk. unfold mom1, mom0. rewrite lsum_map.
  rewrite (lsum_ext _ (fun a => Rm k 0%nat * (am a * coordk a 0) + Rm k 1%nat * (am a * coordk a 1)
                               + Rm k 2%nat * (am a * coordk a 2) + t k * am a)).
  - rewrite !lsum_add, !lsum_scal. reflexivity.
  - intros a. rewrite coordk_move by exact Hk. cbn [am move coordk]. ring.
Qed.

Lemma mom2_move Rm t atoms k m : (k < 3)%nat -> (m < 3)%nat ->
  mom2 O (map (move O Rm t) atoms) k m =
    (Rm k 0%nat * Rm m 0%nat * mom2 O atoms 0 0 + Rm k 0%nat * Rm m 1%nat * mom2 O atoms 0 1 + Rm k 0%nat * Rm m 2%nat * mom2 O atoms 0 2
   + Rm k 1%nat * Rm m 0%nat * mom2 O atoms 1 0 + Rm k 1%nat * Rm m 1%nat * mom2 O atoms 1 1 + Rm k 1%nat * Rm m 2%nat * mom2 O atoms 1 2
   + Rm k 2%nat * Rm m 0%nat * mom2 O atoms 2 0 + Rm k 2%nat * Rm m 1%nat * mom2 O atoms 2 1 + Rm k 2%nat * Rm m 2%nat * mom2 O atoms 2 2)
   + t k * (Rm m 0%nat * mom1 O atoms 0 + Rm m 1%nat * mom1 O atoms 1 + Rm m 2%nat * mom1 O atoms 2)
   + t m * (Rm k 0%nat * mom1 O atoms 0 + Rm k 1%nat * mom1 O atoms 1 + Rm k 2%nat * mom1 O atoms 2)
   + t k * t m * mom0 O atoms.
Proof.
  intros Hk Hm. unfold mom2, mom1, mom0. rewrite lsum_map.
  rewrite (lsum_ext _ (fun a =>
      (Rm k 0%nat * Rm m 0%nat * (am a * coordk a 0 * coordk a 0) + Rm k 0%nat * Rm m 1%nat * (am a * coordk a 0 * coordk a 1)
     + Rm k 0%nat * Rm m 2%nat * (am a * coordk a 0 * coordk a 2)
     + Rm k 1%nat * Rm m 0%nat * (am a * coordk a 1 * coordk a 0) + Rm k 1%nat * Rm m 1%nat * (am a * coordk a 1 * coordk a 1)
     + Rm k 1%nat * Rm m 2%nat * (am a * coordk a 1 * coordk a 2)
     + Rm k 2%nat * Rm m 0%nat * (am a * coordk a 2 * coordk a 0) + Rm k 2%nat * Rm m 1%nat * (am a * coordk a 2 * coordk a 1)
     + Rm k 2%nat * Rm m 2%nat * (am a * coordk a 2 * coordk a 2))
     + t k * (Rm m 0%nat * (am a * coordk a 0) + Rm m 1%nat * (am a * coordk a 1) + Rm m 2%nat * (am a * coordk a 2))
     + t m * (Rm k 0%nat * (am a * coordk a 0) + Rm k 1%nat * (am a * coordk a 1) + Rm k 2%nat * (am a * coordk a 2))
     + t k * t m * am a)).
  - rewrite !lsum_add, !lsum_scal. rewrite !lsum_add, !lsum_scal. reflexivity.
  - intros a. rewrite !coordk_move by assumption. cbn [am move coordk]. ring.
Qed.

Lemma mom_perm atoms atoms' : Permutation atoms' atoms ->
  mom0 O atoms' = mom0 O atoms /\ (forall k, mom1 O atoms' k = mom1 O atoms k) /\
  (forall k l, mom2 O atoms' k l = mom2 O atoms k l).
Proof. intros P. unfold mom0, mom1, mom2. repeat split; intros; apply lsum_perm; exact P. Qed.

(* ---------- central second moment and the inertia tensor about the centre of mass ---------- *)
Definition Qcen (atoms : list atomT) (k l : nat) : F :=
  mom2 O atoms k l - mom1 O atoms k * mom1 O atoms l / mom0 O atoms.
Definition trQcen (atoms : list atomT) : F := Qcen atoms 0 0 + Qcen atoms 1 1 + Qcen atoms 2 2.
(* (Rm C Rm^T)_km written out *)
Definition rotm (Rm C : matT) (k m : nat) : F :=
    Rm k 0%nat * Rm m 0%nat * C 0%nat 0%nat + Rm k 0%nat * Rm m 1%nat * C 0%nat 1%nat + Rm k 0%nat * Rm m 2%nat * C 0%nat 2%nat
  + Rm k 1%nat * Rm m 0%nat * C 1%nat 0%nat + Rm k 1%nat * Rm m 1%nat * C 1%nat 1%nat + Rm k 1%nat * Rm m 2%nat * C 1%nat 2%nat
  + Rm k 2%nat * Rm m 0%nat * C 2%nat 0%nat + Rm k 2%nat * Rm m 1%nat * C 2%nat 1%nat + Rm k 2%nat * Rm m 2%nat * C 2%nat 2%nat.

Lemma Qcen_move Rm t atoms k m : mom0 O atoms <> 0 -> (k < 3)%nat -> (m < 3)%nat ->
  Qcen (map (move O Rm t) atoms) k m = rotm Rm (Qcen atoms) k m.
Proof.
  intros HM Hk Hm. unfold Qcen, rotm.
  rewrite mom2_move, !mom1_move, mom0_move by assumption. field. exact HM.
Qed.

Lemma Qcen_perm atoms atoms' k l : Permutation atoms' atoms -> Qcen atoms' k l = Qcen atoms k l.
Proof. intros P. destruct (mom_perm _ _ P) as [H0 [H1 H2]]. unfold Qcen. rewrite H0, !H1, H2. reflexivity. Qed.

(* orthogonality facts in usable form *)
Lemma orth_gram Rm i j : orthogonal O Rm -> (i < 3)%nat -> (j < 3)%nat -> gram O Rm i j = delta O i j.
Proof. intros H Hi Hj. exact (proj1 (H i j Hi Hj)). Qed.
Lemma orth_gramT Rm i j : orthogonal O Rm -> (i < 3)%nat -> (j < 3)%nat -> gramT O Rm i j = delta O i j.
Proof. intros H Hi Hj. exact (proj2 (H i j Hi Hj)). Qed.

Lemma trace_rotm Rm C : orthogonal O Rm -> rotm Rm C 0 0 + rotm Rm C 1 1 + rotm Rm C 2 2 = C 0%nat 0%nat + C 1%nat 1%nat + C 2%nat 2%nat.
Proof.
  intros H.
  transitivity (C 0%nat 0%nat * gramT O Rm 0 0 + C 0%nat 1%nat * gramT O Rm 0 1 + C 0%nat 2%nat * gramT O Rm 0 2
              + C 1%nat 0%nat * gramT O Rm 1 0 + C 1%nat 1%nat * gramT O Rm 1 1 + C 1%nat 2%nat * gramT O Rm 1 2
              + C 2%nat 0%nat * gramT O Rm 2 0 + C 2%nat 1%nat * gramT O Rm 2 1 + C 2%nat 2%nat * gramT O Rm 2 2).
  - unfold rotm, gramT. ring.
  - rewrite !(orth_gramT Rm) by (try exact H; lia). unfold delta. cbn [Nat.eqb]. ring.
Qed.

(* the generated _moi_about_com is  delta_ij tr(Qcen) - Qc_ij *)
Lemma mac_Qcen (sp : Species F) i j : mom0 O (sp_atoms sp) <> 0 -> (i < 3)%nat -> (j < 3)%nat ->
  moi_about_com O sp i j = delta O i j * trQcen (sp_atoms sp) - Qcen (sp_atoms sp) i j.
Proof.
  intros HM Hi Hj. unfold moi_about_com. cbv zeta. rewrite moi_moments by assumption.
  unfold trQcen, trQ, Qcen, com. fold (mom0 O (sp_atoms sp)).
  change (lsum O (fun atom : atomT => am atom * coordk atom 0) (sp_atoms sp)) with (mom1 O (sp_atoms sp) 0).
  change (lsum O (fun atom : atomT => am atom * coordk atom 1) (sp_atoms sp)) with (mom1 O (sp_atoms sp) 1).
  change (lsum O (fun atom : atomT => am atom * coordk atom 2) (sp_atoms sp)) with (mom1 O (sp_atoms sp) 2).
  change (lsum O (fun atom : atomT => am atom * coordk atom i) (sp_atoms sp)) with (mom1 O (sp_atoms sp) i).
  change (lsum O (fun atom : atomT => am atom * coordk atom j) (sp_atoms sp)) with (mom1 O (sp_atoms sp) j).
  destruct i as [|[|[|i]]]; try lia; destruct j as [|[|[|j]]]; try lia;
    unfold delta; cbn [Nat.eqb]; field; exact HM.
Qed.

(* ---------- 3x3 conjugation by an orthogonal matrix: trace and determinant ---------- *)
Lemma conj3_ext Rm M N i j :
  (forall k l, (k < 3)%nat -> (l < 3)%nat -> M k l = N k l) -> conj3 O Rm M i j = conj3 O Rm N i j.
Proof. intros H. unfold conj3, row3. rewrite !H by lia. reflexivity. Qed.

Lemma det3_ext M N : (forall k l, (k < 3)%nat -> (l < 3)%nat -> M k l = N k l) -> det3 O M = det3 O N.
Proof. intros H. unfold det3. rewrite !H by lia. reflexivity. Qed.

Lemma trace3_ext M N : (forall k l, (k < 3)%nat -> (l < 3)%nat -> M k l = N k l) -> trace3 O M = trace3 O N.
Proof. intros H. unfold trace3. rewrite !H by lia. reflexivity. Qed.

Lemma det3_delta : det3 O (delta O) = 1.
Proof. unfold det3, delta. cbn [Nat.eqb]. ring. Qed.

Lemma det3_conj_mult Rm M : det3 O (conj3 O Rm M) = det3 O (gram O Rm) * det3 O M.
Proof. unfold det3, conj3, row3, gram. ring. Qed.

Theorem det3_conj Rm M : orthogonal O Rm -> det3 O (conj3 O Rm M) = det3 O M.
Proof.
  intros H. rewrite det3_conj_mult.
  rewrite (det3_ext (gram O Rm) (delta O)) by (intros; apply orth_gram; assumption).
  rewrite det3_delta. ring.
Qed.

Theorem trace3_conj Rm M : orthogonal O Rm -> trace3 O (conj3 O Rm M) = trace3 O M.
Proof.
  intros H.
  transitivity (M 0%nat 0%nat * gramT O Rm 0 0 + M 0%nat 1%nat * gramT O Rm 0 1 + M 0%nat 2%nat * gramT O Rm 0 2
              + M 1%nat 0%nat * gramT O Rm 1 0 + M 1%nat 1%nat * gramT O Rm 1 1 + M 1%nat 2%nat * gramT O Rm 1 2
              + M 2%nat 0%nat * gramT O Rm 2 0 + M 2%nat 1%nat * gramT O Rm 2 1 + M 2%nat 2%nat * gramT O Rm 2 2).
  - unfold trace3, conj3, row3, gramT. ring.
  - rewrite !(orth_gramT Rm) by (try exact H; lia). unfold trace3, delta. cbn [Nat.eqb]. ring.
Qed.

Lemma conj3_delta_minus Rm (s : F) (C : matT) i j :
  conj3 O Rm (fun k l => delta O k l * s - C k l) i j = s * gram O Rm i j - rotm Rm C i j.
Proof. unfold conj3, row3, rotm, gram, delta. cbn [Nat.eqb]. ring. Qed.

(* scaling every entry by c (the unit conversion of the tensor) *)
Lemma det3_scale (M : matT) c : det3 O (fun i j => M i j * c) = c * c * c * det3 O M.
Proof. unfold det3. ring. Qed.
Lemma trace3_scale (M : matT) c : trace3 O (fun i j => M i j * c) = c * trace3 O M.
Proof. unfold trace3. ring. Qed.

(* ---------- the inertia tensor about the centre of mass under a change of frame and atom order ---------- *)
Theorem mac_covariant Rm t (sp sp' : Species F) i j :
  mom0 O (sp_atoms sp) <> 0 -> orthogonal O Rm ->
  Permutation (sp_atoms sp') (map (move O Rm t) (sp_atoms sp)) ->
  (i < 3)%nat -> (j < 3)%nat ->
  moi_about_com O sp' i j = conj3 O Rm (moi_about_com O sp) i j.
Proof.
  intros HM HR P Hi Hj.
  assert (HM' : mom0 O (sp_atoms sp') <> 0).
  { destruct (mom_perm _ _ P) as [H0 _]. rewrite H0, mom0_move. exact HM. }
  rewrite mac_Qcen by assumption.
  rewrite (conj3_ext Rm _ (fun k l => delta O k l * trQcen (sp_atoms sp) - Qcen (sp_atoms sp) k l))
    by (intros; apply mac_Qcen; assumption).
  rewrite conj3_delta_minus, orth_gram by assumption.
  unfold trQcen. rewrite !(Qcen_perm _ _ _ _ P). rewrite !Qcen_move by (try assumption; lia).
  rewrite trace_rotm by exact HR. ring.
Qed.

Theorem mac_translation_invariant t (sp sp' : Species F) i j :
  mom0 O (sp_atoms sp) <> 0 ->
  sp_atoms sp' = map (move O (delta O) t) (sp_atoms sp) ->
  (i < 3)%nat -> (j < 3)%nat ->
  moi_about_com O sp' i j = moi_about_com O sp i j.
Proof.
  intros HM E Hi Hj.
  assert (HM' : mom0 O (sp_atoms sp') <> 0) by (rewrite E, mom0_move; exact HM).
  rewrite !mac_Qcen by assumption. unfold trQcen. rewrite E, !Qcen_move by (try assumption; lia).
  unfold rotm, delta. destruct i as [|[|[|i]]]; try lia; destruct j as [|[|[|j]]]; try lia; cbn [Nat.eqb]; ring.
Qed.

Lemma orthogonal_delta : orthogonal O (delta O).
Proof.
  intros i j Hi Hj. unfold gram, gramT, delta.
  destruct i as [|[|[|i]]]; try lia; destruct j as [|[|[|j]]]; try lia; cbn [Nat.eqb]; split; ring.
Qed.

(* trace and determinant of the matrix handed to eigvalsh are the same in every frame / atom order *)
Theorem eig_arg_invariants Rm t (sp sp' : Species F) :
  mom0 O (sp_atoms sp) <> 0 -> orthogonal O Rm ->
  Permutation (sp_atoms sp') (map (move O Rm t) (sp_atoms sp)) ->
  det3 O (eig_arg O sp') = det3 O (eig_arg O sp) /\ trace3 O (eig_arg O sp') = trace3 O (eig_arg O sp).
Proof.
  intros HM HR P. unfold eig_arg. rewrite !det3_scale, !trace3_scale.
  rewrite (det3_ext (moi_about_com O sp') (conj3 O Rm (moi_about_com O sp)))
    by (intros; eapply mac_covariant; eassumption).
  rewrite (trace3_ext (moi_about_com O sp') (conj3 O Rm (moi_about_com O sp)))
    by (intros; eapply mac_covariant; eassumption).
  rewrite det3_conj, trace3_conj by exact HR. split; reflexivity.
Qed.

(* ---------- the linear rotor's moment of inertia  sum m |r - com|^2  (with unit factors kg, s) ---------- *)
Lemma ival_gen (atoms : list atomT) (kg s : F) : mom0 O atoms <> 0 ->
  lsum O (fun atom : atomT => (am atom * kg) *
      (((coordk atom 0 * s - com O atoms 0 * s) * (coordk atom 0 * s - com O atoms 0 * s)
      + (coordk atom 1 * s - com O atoms 1 * s) * (coordk atom 1 * s - com O atoms 1 * s))
      + (coordk atom 2 * s - com O atoms 2 * s) * (coordk atom 2 * s - com O atoms 2 * s))) atoms
  = kg * s * s * trQcen atoms.
Proof.
  intros HM.
  set (c0 := com O atoms 0). set (c1 := com O atoms 1). set (c2 := com O atoms 2).
  rewrite (lsum_ext _ (fun a =>
     kg * s * s * (((am a * coordk a 0 * coordk a 0 + am a * coordk a 1 * coordk a 1) + am a * coordk a 2 * coordk a 2)
     - (c0 + c0) * (am a * coordk a 0) - (c1 + c1) * (am a * coordk a 1) - (c2 + c2) * (am a * coordk a 2)
     + (c0 * c0 + c1 * c1 + c2 * c2) * am a))) by (intros a; ring).
  rewrite lsum_scal, !lsum_add, !lsum_sub, !lsum_add, !lsum_scal.
  fold (mom0 O atoms). fold (mom1 O atoms 0) (mom1 O atoms 1) (mom1 O atoms 2).
  fold (mom2 O atoms 0 0) (mom2 O atoms 1 1) (mom2 O atoms 2 2).
  unfold c0, c1, c2, com, trQcen, Qcen. fold (mom0 O atoms). fold (mom1 O atoms 0) (mom1 O atoms 1) (mom1 O atoms 2).
  change (lsum O am atoms) with (mom0 O atoms).
  field. exact HM.
Qed.

Theorem trQcen_invariant Rm t atoms atoms' :
  mom0 O atoms <> 0 -> orthogonal O Rm -> Permutation atoms' (map (move O Rm t) atoms) ->
  trQcen atoms' = trQcen atoms.
Proof.
  intros HM HR P. unfold trQcen. rewrite !(Qcen_perm _ _ _ _ P), !Qcen_move by (try assumption; lia).
  apply trace_rotm. exact HR.
Qed.

(* rigid motions preserve every interatomic distance; so does the re-centring done by symmetry_number *)
Lemma dist2_move Rm t (a b : atomT) : orthogonal O Rm -> dist2 O (move O Rm t a) (move O Rm t b) = dist2 O a b.
Proof.
  intros HR.
  set (dx := ax a - ax b). set (dy := ay a - ay b). set (dz := az a - az b).
  transitivity (dx * dx * gramT O Rm 0 0 + dy * dy * gramT O Rm 1 1 + dz * dz * gramT O Rm 2 2
              + (dx * dy + dx * dy) * gramT O Rm 0 1 + (dx * dz + dx * dz) * gramT O Rm 0 2 + (dy * dz + dy * dz) * gramT O Rm 1 2).
  - unfold dist2, move, mv3, gramT, dx, dy, dz. cbn [ax ay az]. ring.
  - rewrite !(orth_gramT Rm) by (try exact HR; lia). unfold dist2, delta, dx, dy, dz. cbn [Nat.eqb]. ring.
Qed.

Lemma dist2_shift (a b : atomT) c0 c1 c2 :
  dist2 O (mkAtom (am a) (ax a - c0) (ay a - c1) (az a - c2)) (mkAtom (am b) (ax b - c0) (ay b - c1) (az b - c2)) = dist2 O a b.
Proof. unfold dist2. cbn [ax ay az]. ring. Qed.

Lemma weight_invariant Rm t atoms atoms' : Permutation atoms' (map (move O Rm t) atoms) -> weight O atoms' = weight O atoms.
Proof. intros P. destruct (mom_perm _ _ P) as [H0 _]. unfold weight. fold (mom0 O atoms') (mom0 O atoms). rewrite H0. apply mom0_move. Qed.
End Algebra.

(* ================================================================== Part B: the reals *)
Open Scope R_scope.

Ltac ro := cbn [o0 o1 oadd omul osub oopp odiv ofQ opi oln oexp osqrt opow15 omax RO pown] in *.

Lemma RO_field : field_theory (o0 RO) (o1 RO) (oadd RO) (omul RO) (osub RO) (oopp RO) (odiv RO) Rinv (@eq R).
Proof. exact RealField.Rfield. Qed.

Lemma ofQR_pos n d : (0 < n)%Z -> 0 < ofQR n d.
Proof. intros H. unfold ofQR. apply Rdiv_lt_0_compat; apply IZR_lt; [exact H|reflexivity]. Qed.

(* the generated constants are positive (their numerators are) *)
Lemma k_b_pos : 0 < si_k_b RO. Proof. apply ofQR_pos. reflexivity. Qed.
Lemma h_pos : 0 < si_h RO. Proof. apply ofQR_pos. reflexivity. Qed.
Lemma atm_pos : 0 < c_atm_to_pa RO. Proof. apply ofQR_pos. reflexivity. Qed.
Lemma n_a_pos : 0 < c_n_a RO. Proof. apply ofQR_pos. reflexivity. Qed.
Lemma dm_pos : 0 < c_dm_to_m RO. Proof. apply ofQR_pos. reflexivity. Qed.
Lemma c_cm_pos : 0 < c_c_in_cm RO. Proof. apply ofQR_pos. reflexivity. Qed.
Lemma u_kg_pos : 0 < u_kg RO. Proof. apply ofQR_pos. reflexivity. Qed.
Lemma u_amu_pos : 0 < u_amu RO. Proof. apply ofQR_pos. reflexivity. Qed.
Lemma u_m_pos : 0 < u_m RO. Proof. apply ofQR_pos. reflexivity. Qed.
Lemma u_ang_pos : 0 < u_ang RO. Proof. apply ofQR_pos. reflexivity. Qed.
Lemma u_kgm2_pos : 0 < u_kg_m_sq RO. Proof. apply ofQR_pos. reflexivity. Qed.
Lemma u_amuang2_pos : 0 < u_amu_ang_sq RO. Proof. apply ofQR_pos. reflexivity. Qed.
Lemma u_hz_pos : 0 < u_hz RO. Proof. apply ofQR_pos. reflexivity. Qed.
Lemma u_wn_pos : 0 < u_wavenumber RO. Proof. apply ofQR_pos. reflexivity. Qed.
Lemma u_ha_pos : 0 < u_ha RO. Proof. apply ofQR_pos. reflexivity. Qed.
Lemma u_J_pos : 0 < u_J RO. Proof. apply ofQR_pos. reflexivity. Qed.
(* Frequency.to("hz") multiplies by exactly the constant Truhlar's / the internal-energy formula use *)
Lemma hz_factor_is_c_in_cm : u_hz RO / u_wavenumber RO = c_c_in_cm RO.
Proof. unfold u_hz, u_wavenumber, c_c_in_cm. ro. unfold ofQR. field. Qed.

Lemma pown_pow (x : R) k : pown RO x k = x ^ k.
Proof. induction k as [|k IH]; cbn [pown pow]; cbn [o1 omul RO]; [reflexivity|rewrite IH; reflexivity]. Qed.

Lemma lsumR_ext {A} (f g : A -> R) l : (forall a, In a l -> f a = g a) -> lsum RO f l = lsum RO g l.
Proof. apply (lsum_ext_in RO). Qed.

(* ---------- H = U + kT,  G = H - TS (calculate_thermo_cont) ---------- *)
Lemma h_assembly_J U T : to_J (h_assembly RO U T) = U + si_k_b RO * T.
Proof. unfold to_J, h_assembly. ro. pose proof u_J_pos. pose proof u_ha_pos. field. split; lra. Qed.

Lemma g_assembly_J H T S : to_J (g_assembly RO H T S) = to_J H - T * S.
Proof. unfold to_J, g_assembly. ro. pose proof u_J_pos. pose proof u_ha_pos. field. split; lra. Qed.

Lemma to_Ha_J x : to_Ha (to_J x) = x.
Proof. unfold to_J, to_Ha. pose proof u_J_pos. pose proof u_ha_pos. field. split; lra. Qed.
Lemma to_J_Ha x : to_J (to_Ha x) = x.
Proof. unfold to_J, to_Ha. pose proof u_J_pos. pose proof u_ha_pos. field. split; lra. Qed.
Lemma to_J_inj x y : to_J x = to_J y -> x = y.
Proof. intros H. rewrite <- (to_Ha_J x), <- (to_Ha_J y), H. reflexivity. Qed.
Lemma to_Ha_sub x y : to_Ha (x - y) = to_Ha x - to_Ha y.
Proof. unfold to_Ha. ring. Qed.

(* G as a function of U and S *)
Lemma g_cont_US sp p :
  g_cont RO sp p = to_Ha (internal_energy RO sp p + si_k_b RO * p_T p - p_T p * entropy RO sp p).
Proof.
  apply to_J_inj. rewrite to_J_Ha. unfold g_cont, h_cont. rewrite g_assembly_J, h_assembly_J. reflexivity.
Qed.
Lemma h_cont_U sp p : h_cont RO sp p = to_Ha (internal_energy RO sp p + si_k_b RO * p_T p).
Proof. apply to_J_inj. rewrite to_J_Ha. unfold h_cont. apply h_assembly_J. Qed.
Lemma ln_quot x y : 0 < x -> 0 < y -> ln (x / y) = ln x - ln y.
Proof.
  intros Hx Hy. unfold Rdiv. rewrite ln_mult by (try assumption; apply Rinv_0_lt_compat; exact Hy).
  rewrite ln_Rinv by exact Hy. ring.
Qed.

(* ---------- the symmetry number ---------- *)
Lemma q_rot_sigma sp T s : s <> 0 -> List.length (sp_atoms sp) <> 1%nat ->
  q_rot_igm RO sp T s = q_rot_igm RO sp T 1 / s.
Proof.
  intros Hs Hn. unfold q_rot_igm. apply Nat.eqb_neq in Hn. rewrite Hn.
  pose proof h_pos as Hh.
  destruct (sp_linear sp); cbv zeta.
  - match goal with |- context [lsum RO ?f ?l] => set (IV := lsum RO f l) end.
    ro. field. split; [lra|exact Hs].
  - match goal with |- context [prod3 RO ?f] => set (PR := prod3 RO f) end.
    ro. field. exact Hs.
Qed.

Lemma s_rot_sigma sp T s : 0 < s -> 0 < q_rot_igm RO sp T 1 -> List.length (sp_atoms sp) <> 1%nat ->
  s_rot_rr RO sp T s = s_rot_rr RO sp T 1 - si_k_b RO * ln s.
Proof.
  intros Hs Hq Hn. unfold s_rot_rr. pose proof (proj2 (Nat.eqb_neq _ _) Hn) as E. rewrite E. cbv zeta.
  rewrite (q_rot_sigma sp T s) by (try assumption; lra).
  destruct (sp_linear sp); ro; rewrite ln_quot by assumption; ring.
Qed.

Lemma internal_energy_sigma sp p s : internal_energy RO sp (with_sigma p s) = internal_energy RO sp p.
Proof. destruct p as [T ss m sh w0 al sg]. reflexivity. Qed.

Lemma entropy_sigma sp p s : 0 < s -> 0 < q_rot_igm RO sp (p_T p) 1 -> (2 <= List.length (sp_atoms sp))%nat ->
  entropy RO sp (with_sigma p s) = entropy RO sp (with_sigma p 1) - si_k_b RO * ln s.
Proof.
  intros Hs Hq Hn. destruct p as [T ss m sh w0 al sg]. unfold entropy, with_sigma.
  cbn [p_T p_ss p_method p_shift p_w0 p_alpha p_sigma] in *. cbv zeta.
  assert (E : Nat.ltb (List.length (sp_atoms sp)) 2 = false) by (apply Nat.ltb_ge; exact Hn). rewrite E.
  rewrite (s_rot_sigma sp T s) by (try assumption; lia).
  destruct m; cbn [lfm_eqb orb]; ro; ring.
Qed.

Lemma g_sigma sp p s : 0 < s -> 0 < q_rot_igm RO sp (p_T p) 1 -> (2 <= List.length (sp_atoms sp))%nat ->
  g_cont RO sp (with_sigma p s) - g_cont RO sp (with_sigma p 1) = to_Ha (si_k_b RO * p_T p * ln s).
Proof.
  intros Hs Hq Hn. rewrite !g_cont_US, !internal_energy_sigma, entropy_sigma by assumption.
  destruct p as [T ss m sh w0 al sg]; cbn [with_sigma p_T]. unfold to_Ha. ring.
Qed.

Lemma g_sigma_single sp p s : List.length (sp_atoms sp) = 1%nat ->
  g_cont RO sp (with_sigma p s) = g_cont RO sp p /\ h_cont RO sp (with_sigma p s) = h_cont RO sp p.
Proof.
  intros Hn. rewrite !g_cont_US, !h_cont_U, internal_energy_sigma. destruct p as [T ss m sh w0 al sg].
  unfold entropy, with_sigma. cbn [p_T p_ss p_method p_shift p_w0 p_alpha p_sigma]. cbv zeta. rewrite Hn.
  cbn [Nat.ltb Nat.leb]. split; reflexivity.
Qed.
Ltac posfacts :=
  pose proof k_b_pos; pose proof h_pos; pose proof atm_pos; pose proof n_a_pos; pose proof dm_pos; pose proof c_cm_pos;
  pose proof u_kg_pos; pose proof u_amu_pos; pose proof u_m_pos; pose proof u_ang_pos; pose proof u_kgm2_pos;
  pose proof u_amuang2_pos; pose proof u_hz_pos; pose proof u_wn_pos; pose proof u_ha_pos; pose proof u_J_pos;
  pose proof PI_RGT_0.

(* ---------- the standard state ---------- *)
Lemma ofQR_frac n d : ofQR n d = IZR n / IZR (Zpos d).
Proof. reflexivity. Qed.

Lemma pow15R_pos x : 0 < x -> 0 < pow15R x.
Proof. intros H. unfold pow15R. apply Rmult_lt_0_compat; [exact H|apply sqrt_lt_R0; exact H]. Qed.

Lemma q_trans_form sp ss T : q_trans_igm RO sp ss T = pow15R (trans_arg sp T) * vol_of ss T.
Proof.
  posfacts.
  unfold q_trans_igm, trans_arg, vol_of, vol_1atm, vol_1m.
  destruct ss; cbn [is_1atm is_1m]; cbv zeta; ro; unfold ofQR.
  - f_equal. f_equal. field. split; lra.
  - f_equal; [f_equal; field; split; lra|field; repeat split; lra].
Qed.

Lemma trans_arg_pos sp T : 0 < T -> 0 < weight RO (sp_atoms sp) -> 0 < trans_arg sp T.
Proof.
  intros HT Hw. unfold trans_arg.
  posfacts.
  assert (0 < u_kg RO / u_amu RO) by (apply Rdiv_lt_0_compat; lra).
  assert (0 < weight RO (sp_atoms sp) * (u_kg RO / u_amu RO)) by (apply Rmult_lt_0_compat; assumption).
  assert (0 < 2 * PI) by lra.
  apply Rdiv_lt_0_compat; [|nra].
  apply Rmult_lt_0_compat; [|exact HT]. apply Rmult_lt_0_compat; [|lra]. apply Rmult_lt_0_compat; assumption.
Qed.

Lemma vol_1atm_pos T : 0 < T -> 0 < vol_1atm T.
Proof. intros HT. unfold vol_1atm. pose proof k_b_pos. pose proof atm_pos. apply Rdiv_lt_0_compat; nra. Qed.
Lemma vol_1m_pos : 0 < vol_1m.
Proof.
  unfold vol_1m. pose proof n_a_pos. pose proof dm_pos.
  apply Rdiv_lt_0_compat; [lra|]. apply Rmult_lt_0_compat; [lra|]. apply pow_lt. apply Rdiv_lt_0_compat; lra.
Qed.

Lemma s_trans_ss sp T : 0 < T -> 0 < weight RO (sp_atoms sp) ->
  s_trans_pib RO sp SS_1M T - s_trans_pib RO sp SS_1atm T = - (si_k_b RO * ln (vol_1atm T / vol_1m)).
Proof.
  intros HT Hw. unfold s_trans_pib. cbv zeta. rewrite !q_trans_form. cbn [vol_of]. ro.
  pose proof (pow15R_pos _ (trans_arg_pos sp T HT Hw)). pose proof (vol_1atm_pos T HT). pose proof vol_1m_pos.
  rewrite !ln_mult, ln_quot by assumption. ring.
Qed.

Lemma entropy_ss sp p s1 s2 :
  entropy RO sp (with_ss p s1) - entropy RO sp (with_ss p s2) = s_trans_pib RO sp s1 (p_T p) - s_trans_pib RO sp s2 (p_T p).
Proof.
  destruct p as [T ss m sh w0 al sg]. unfold entropy, with_ss. cbn [p_T p_ss p_method p_shift p_w0 p_alpha p_sigma]. cbv zeta.
  destruct (Nat.ltb (List.length (sp_atoms sp)) 2); [reflexivity|].
  destruct m; cbn [lfm_eqb orb]; ro; ring.
Qed.

Lemma internal_energy_ss sp p s : internal_energy RO sp (with_ss p s) = internal_energy RO sp p.
Proof. destruct p as [T ss m sh w0 al sg]. reflexivity. Qed.

Lemma g_ss sp p : 0 < p_T p -> 0 < weight RO (sp_atoms sp) ->
  g_cont RO sp (with_ss p SS_1M) - g_cont RO sp (with_ss p SS_1atm) = to_Ha (si_k_b RO * p_T p * ln (vol_1atm (p_T p) / vol_1m)).
Proof.
  intros HT Hw. rewrite !g_cont_US, !internal_energy_ss.
  pose proof (entropy_ss sp p SS_1M SS_1atm) as E. rewrite (s_trans_ss sp (p_T p) HT Hw) in E.
  replace (p_T (with_ss p SS_1M)) with (p_T p) by (destruct p; reflexivity).
  replace (p_T (with_ss p SS_1atm)) with (p_T p) by (destruct p; reflexivity).
  unfold to_Ha. nra.
Qed.

Lemma h_ss sp p s : h_cont RO sp (with_ss p s) = h_cont RO sp p.
Proof. rewrite !h_cont_U, internal_energy_ss. destruct p; reflexivity. Qed.

(* ---------- a single atom ---------- *)
Lemma single_atom_terms sp p : List.length (sp_atoms sp) = 1%nat ->
  entropy RO sp p = s_trans_pib RO sp (p_ss p) (p_T p) /\
  internal_energy RO sp p = 3 / 2 * si_k_b RO * p_T p /\
  s_rot_rr RO sp (p_T p) (p_sigma p) = 0 /\ q_rot_igm RO sp (p_T p) (p_sigma p) = 1 /\ zpe RO sp = 0.
Proof.
  intros Hn. unfold entropy, internal_energy, s_rot_rr, q_rot_igm, zpe. cbv zeta. rewrite Hn.
  cbn [Nat.ltb Nat.leb Nat.eqb]. ro. unfold ofQR. repeat split; try reflexivity; field.
Qed.
(* ---------- Truhlar's shift versus the harmonic (igm) entropy ---------- *)
Lemma lit_div1 x : x / 1 = x.
Proof. field. Qed.
Ltac lits := unfold ofQR; rewrite ?lit_div1.

Lemma igm_term_is_s_harm sp T f : igm_s_vib_term RO sp T f = s_harm T f.
Proof. unfold igm_s_vib_term, s_harm. cbv zeta. ro. lits. reflexivity. Qed.

Lemma truhlar_term_above sp T sh f : T <> 0 -> sh <= f ->
  truhlar_s_vib_term RO sp T sh sh f = igm_s_vib_term RO sp T f.
Proof.
  intros HT Hf. posfacts. unfold truhlar_s_vib_term, igm_s_vib_term. cbv zeta. ro.
  rewrite Rmax_left by exact Hf. rewrite hz_factor_is_c_in_cm.
  set (X := f * c_c_in_cm RO * si_h RO / (si_k_b RO * T)).
  replace (f * c_c_in_cm RO * si_h RO / si_k_b RO / T) with X by (unfold X; field; split; lra).
  replace (- (f * c_c_in_cm RO * si_h RO / si_k_b RO) / T) with (- X) by (unfold X; field; split; lra).
  reflexivity.
Qed.

Lemma truhlar_is_igm sp T sh : T <> 0 -> Forall (fun f => sh <= f) (sp_vib sp) ->
  truhlar_s_vib RO sp T sh = igm_s_vib RO sp T.
Proof.
  intros HT Hall. unfold truhlar_s_vib, igm_s_vib. cbv zeta. apply lsumR_ext.
  intros f Hf. apply truhlar_term_above; [exact HT|]. rewrite Forall_forall in Hall. apply Hall. exact Hf.
Qed.

Lemma internal_energy_not_minenkov sp p m : m <> LF_minenkov -> p_method p <> LF_minenkov ->
  internal_energy RO sp (with_method p m) = internal_energy RO sp p.
Proof.
  intros Hm Hp. destruct p as [T ss m0 sh w0 al sg]. cbn [p_method] in Hp.
  unfold internal_energy, internal_vib_energy, internal_vib_energy_term, with_method.
  cbn [p_T p_ss p_method p_shift p_w0 p_alpha p_sigma]. cbv zeta.
  assert (E1 : lfm_eqb m LF_minenkov = false) by (destruct m; try reflexivity; congruence).
  assert (E2 : lfm_eqb m0 LF_minenkov = false) by (destruct m0; try reflexivity; congruence).
  rewrite E1, E2. reflexivity.
Qed.

Lemma entropy_truhlar_igm sp p : p_T p <> 0 -> Forall (fun f => p_shift p <= f) (sp_vib sp) ->
  entropy RO sp (with_method p LF_truhlar) = entropy RO sp (with_method p LF_igm).
Proof.
  intros HT Hall. destruct p as [T ss m0 sh w0 al sg]. cbn [p_T p_shift] in *.
  unfold entropy, with_method. cbn [p_T p_ss p_method p_shift p_w0 p_alpha p_sigma lfm_eqb orb]. cbv zeta.
  rewrite truhlar_is_igm by assumption. reflexivity.
Qed.

(* ---------- Grimme / Minenkov interpolation versus the harmonic result ---------- *)
Lemma lsumR_add {A} (f g : A -> R) l : lsum RO (fun a => f a + g a) l = lsum RO f l + lsum RO g l.
Proof. apply (lsum_add RO Rinv RO_field). Qed.
Lemma lsumR_sub {A} (f g : A -> R) l : lsum RO (fun a => f a - g a) l = lsum RO f l - lsum RO g l.
Proof. apply (lsum_sub RO Rinv RO_field). Qed.
Lemma lsumR_scal {A} c (f : A -> R) l : lsum RO (fun a => c * f a) l = c * lsum RO f l.
Proof. apply (lsum_scal RO Rinv RO_field). Qed.

Lemma lsumR_le {A} (f g : A -> R) l : (forall a, In a l -> f a <= g a) -> lsum RO f l <= lsum RO g l.
Proof.
  induction l as [|a l IH]; intros H; cbn [lsum]; ro; [lra|].
  pose proof (H a (or_introl eq_refl)). pose proof (IH (fun b Hb => H b (or_intror Hb))). lra.
Qed.

Lemma lsumR_abs {A} (f : A -> R) l : Rabs (lsum RO f l) <= lsum RO (fun a => Rabs (f a)) l.
Proof.
  induction l as [|a l IH]; cbn [lsum]; ro; [rewrite Rabs_R0; lra|].
  eapply Rle_trans; [apply Rabs_triang|]. lra.
Qed.

Lemma grimme_term_split sp T w0 al f :
  grimme_s_vib_term RO sp T w0 al w0 (trace3 RO (eig_arg RO sp) / 3) f =
  grimme_w RO w0 f al * s_harm T f + (1 - grimme_w RO w0 f al) * s_free sp T f.
Proof.
  unfold grimme_s_vib_term, s_harm, s_free. cbv zeta. ro. unfold ofQR.
  replace (8 / 1) with 8 by field. replace (1 / 1) with 1 by field.
  rewrite <- !pown_pow. cbn [pown]. ro. reflexivity.
Qed.

Lemma grimme_s_vib_split sp T w0 al :
  grimme_s_vib RO sp T w0 al =
  lsum RO (fun f => grimme_w RO w0 f al * s_harm T f + (1 - grimme_w RO w0 f al) * s_free sp T f) (sp_vib sp).
Proof.
  unfold grimme_s_vib. cbv zeta. apply lsumR_ext. intros f _.
  rewrite <- grimme_term_split. unfold eig_arg. ro. unfold ofQR. replace (3 / 1) with 3 by field. reflexivity.
Qed.

(* exact gap:  S_grimme - S_igm = sum (1 - w_i) (s_r,i - s_v,i) *)
Lemma grimme_gap_exact sp T w0 al :
  grimme_s_vib RO sp T w0 al - igm_s_vib RO sp T =
  lsum RO (fun f => (1 - grimme_w RO w0 f al) * (s_free sp T f - s_harm T f)) (sp_vib sp).
Proof.
  rewrite grimme_s_vib_split. unfold igm_s_vib. cbv zeta. rewrite <- lsumR_sub. apply lsumR_ext.
  intros f _. rewrite igm_term_is_s_harm. ring.
Qed.

(* the weight: 0 < w <= 1 and 1 - w <= (w0/f)^alpha *)
Lemma grimme_w_bounds w0 f al : 0 <= w0 -> 0 < f ->
  0 <= 1 - grimme_w RO w0 f al <= (w0 / f) ^ al /\ 0 < grimme_w RO w0 f al <= 1.
Proof.
  intros Hw Hf. unfold grimme_w. ro. rewrite pown_pow. unfold ofQR. replace (1 / 1) with 1 by field.
  assert (Hr : 0 <= (w0 / f) ^ al).
  { apply pow_le. apply Rmult_le_pos; [exact Hw|]. left. apply Rinv_0_lt_compat. exact Hf. }
  set (r := (w0 / f) ^ al) in *.
  assert (H1 : 0 < 1 + r) by lra.
  assert (E : 1 - 1 / (1 + r) = r / (1 + r)) by (field; lra).
  assert (Hq : 0 <= r / (1 + r) <= r).
  { split.
    - apply Rmult_le_pos; [exact Hr|]. left. apply Rinv_0_lt_compat. exact H1.
    - apply (Rmult_le_reg_r (1 + r)); [exact H1|]. unfold Rdiv. rewrite Rmult_assoc, Rinv_l by lra. nra. }
  rewrite E. split; [exact Hq|]. split.
  - apply Rdiv_lt_0_compat; lra.
  - lra.
Qed.

Lemma pow_inv_le K x al : 0 < K -> 0 <= x -> x <= 1 / K -> x ^ al <= (1 / K) ^ al.
Proof. intros HK Hx Hle. apply pow_incr. split; assumption. Qed.

(* quantitative bound: when every frequency is at least K*w0 the gap is at most (1/K)^alpha * sum |s_r - s_v| *)
Lemma grimme_gap_bound sp T w0 al K : 0 <= w0 -> 0 < K ->
  Forall (fun f => 0 < f /\ K * w0 <= f) (sp_vib sp) ->
  Rabs (grimme_s_vib RO sp T w0 al - igm_s_vib RO sp T) <=
  (1 / K) ^ al * lsum RO (fun f => Rabs (s_free sp T f - s_harm T f)) (sp_vib sp).
Proof.
  intros Hw HK Hall. rewrite grimme_gap_exact. rewrite <- lsumR_scal.
  eapply Rle_trans; [apply lsumR_abs|]. apply lsumR_le. intros f Hf.
  rewrite Forall_forall in Hall. destruct (Hall f Hf) as [Hfp HfK].
  destruct (grimme_w_bounds w0 f al Hw Hfp) as [[Hlo Hhi] _].
  rewrite Rabs_mult. rewrite (Rabs_right (1 - grimme_w RO w0 f al)) by lra.
  apply Rmult_le_compat_r; [apply Rabs_pos|].
  eapply Rle_trans; [exact Hhi|]. apply pow_inv_le; [exact HK| |].
  - apply Rmult_le_pos; [exact Hw|]. left. apply Rinv_0_lt_compat. exact Hfp.
  - apply (Rmult_le_reg_r f); [exact Hfp|]. unfold Rdiv. rewrite Rmult_assoc, Rinv_l by lra.
    apply (Rmult_le_reg_l K); [exact HK|]. replace (K * (1 * / K * f)) with f by (field; lra). lra.
Qed.

(* Minenkov: the internal vibrational energy is interpolated with the same weights *)
Lemma minenkov_term_split sp p f : p_method p = LF_minenkov ->
  internal_vib_energy_term RO sp p (p_T p) (p_w0 p) (1 / 2 * si_k_b RO * p_T p) f =
  gw p f * u_harm (p_T p) f + (1 - gw p f) * u_free (p_T p).
Proof.
  intros Hm. unfold internal_vib_energy_term, gw, u_harm, u_free. cbv zeta. rewrite Hm. cbn [lfm_eqb]. ro.
  unfold ofQR. replace (1 / 1) with 1 by field. reflexivity.
Qed.

Lemma harmonic_term sp p f : p_method p <> LF_minenkov ->
  internal_vib_energy_term RO sp p (p_T p) (p_w0 p) (1 / 2 * si_k_b RO * p_T p) f = u_harm (p_T p) f.
Proof.
  intros Hm. unfold internal_vib_energy_term, u_harm. cbv zeta.
  assert (E : lfm_eqb (p_method p) LF_minenkov = false) by (destruct (p_method p); try reflexivity; congruence).
  rewrite E. ro. unfold ofQR. replace (1 / 1) with 1 by field. reflexivity.
Qed.

Lemma internal_vib_energy_form sp p :
  internal_vib_energy RO sp p =
  lsum RO (internal_vib_energy_term RO sp p (p_T p) (p_w0 p) (1 / 2 * si_k_b RO * p_T p)) (sp_vib sp).
Proof.
  unfold internal_vib_energy. cbv zeta. ro. unfold ofQR. reflexivity.
Qed.

Lemma minenkov_U_gap_exact sp p : p_method p <> LF_minenkov ->
  internal_vib_energy RO sp (with_method p LF_minenkov) - internal_vib_energy RO sp p =
  lsum RO (fun f => (1 - gw p f) * (u_free (p_T p) - u_harm (p_T p) f)) (sp_vib sp).
Proof.
  intros Hm. rewrite !internal_vib_energy_form. rewrite <- lsumR_sub. apply lsumR_ext. intros f _.
  rewrite (harmonic_term sp p f Hm).
  pose proof (minenkov_term_split sp (with_method p LF_minenkov) f) as E.
  destruct p as [T ss m0 sh w0 al sg]. unfold with_method in *. cbn [p_T p_w0 p_method p_alpha p_ss p_shift p_sigma] in *.
  rewrite (E eq_refl). unfold gw. cbn [p_w0 p_alpha]. ring.
Qed.

Lemma minenkov_U_gap_bound sp p K : p_method p <> LF_minenkov -> 0 <= p_w0 p -> 0 < K ->
  Forall (fun f => 0 < f /\ K * p_w0 p <= f) (sp_vib sp) ->
  Rabs (internal_vib_energy RO sp (with_method p LF_minenkov) - internal_vib_energy RO sp p) <=
  (1 / K) ^ p_alpha p * lsum RO (fun f => Rabs (u_free (p_T p) - u_harm (p_T p) f)) (sp_vib sp).
Proof.
  intros Hm Hw HK Hall. rewrite minenkov_U_gap_exact by exact Hm. rewrite <- lsumR_scal.
  eapply Rle_trans; [apply lsumR_abs|]. apply lsumR_le. intros f Hf.
  rewrite Forall_forall in Hall. destruct (Hall f Hf) as [Hfp HfK].
  destruct (grimme_w_bounds (p_w0 p) f (p_alpha p) Hw Hfp) as [[Hlo Hhi] _]. fold (gw p f) in Hlo, Hhi.
  rewrite Rabs_mult. rewrite (Rabs_right (1 - gw p f)) by lra.
  apply Rmult_le_compat_r; [apply Rabs_pos|].
  eapply Rle_trans; [exact Hhi|]. apply pow_inv_le; [exact HK| |].
  - apply Rmult_le_pos; [exact Hw|]. left. apply Rinv_0_lt_compat. exact Hfp.
  - apply (Rmult_le_reg_r f); [exact Hfp|]. unfold Rdiv. rewrite Rmult_assoc, Rinv_l by lra.
    apply (Rmult_le_reg_l K); [exact HK|]. replace (K * (1 * / K * f)) with f by (field; lra). lra.
Qed.
(* ---------- methods at the level of S, U and G ---------- *)
Lemma entropy_methods sp p : (2 <= List.length (sp_atoms sp))%nat ->
  entropy RO sp (with_method p LF_grimme) - entropy RO sp (with_method p LF_igm) =
    grimme_s_vib RO sp (p_T p) (p_w0 p) (p_alpha p) - igm_s_vib RO sp (p_T p) /\
  entropy RO sp (with_method p LF_minenkov) = entropy RO sp (with_method p LF_grimme).
Proof.
  intros Hn. destruct p as [T ss m0 sh w0 al sg]. unfold entropy, with_method.
  cbn [p_T p_ss p_method p_shift p_w0 p_alpha p_sigma lfm_eqb orb]. cbv zeta.
  assert (E : Nat.ltb (List.length (sp_atoms sp)) 2 = false) by (apply Nat.ltb_ge; exact Hn). rewrite E.
  ro. split; [ring|reflexivity].
Qed.

Lemma internal_energy_methods sp p m : (2 <= List.length (sp_atoms sp))%nat ->
  internal_energy RO sp (with_method p m) - internal_energy RO sp p =
  internal_vib_energy RO sp (with_method p m) - internal_vib_energy RO sp p.
Proof.
  intros Hn. destruct p as [T ss m0 sh w0 al sg]. unfold internal_energy, with_method.
  cbn [p_T p_ss p_method p_shift p_w0 p_alpha p_sigma]. cbv zeta.
  assert (E : Nat.ltb (List.length (sp_atoms sp)) 2 = false) by (apply Nat.ltb_ge; exact Hn). rewrite E.
  destruct (sp_linear sp); ro; ring.
Qed.

Lemma p_T_with_method p m : p_T (with_method p m) = p_T p.
Proof. destruct p; reflexivity. Qed.

(* ---------- the rotational partition function through the determinant ---------- *)
Lemma prod3_omega (a c : R) (e : nat -> R) : c <> 0 -> (forall k, (k < 3)%nat -> e k <> 0) ->
  prod3 RO (fun k => a / (c * e k)) = a * a * a / (c * c * c * prod3 RO e).
Proof.
  intros Hc He. unfold prod3. ro. pose proof (He 0%nat ltac:(lia)). pose proof (He 1%nat ltac:(lia)).
  pose proof (He 2%nat ltac:(lia)). field. repeat split; assumption.
Qed.

Definition rot_const : R := 8 * PI ^ 2 * si_k_b RO.

Lemma rot_const_pos : 0 < rot_const.
Proof. unfold rot_const. posfacts. assert (0 < PI ^ 2) by (apply pow_lt; lra). nra. Qed.

Lemma q_rot_nonlinear_det sp T s : eig_ok sp -> sp_linear sp = false -> List.length (sp_atoms sp) <> 1%nat ->
  q_rot_igm RO sp T s =
  pow15R T / s * sqrt (PI / (si_h RO ^ 2 * si_h RO ^ 2 * si_h RO ^ 2 / (rot_const * rot_const * rot_const * det3 RO (eig_arg RO sp)))).
Proof.
  intros [Hdet [_ Hpos]] Hl Hn. unfold q_rot_igm. apply Nat.eqb_neq in Hn. rewrite Hn, Hl. cbv zeta.
  rewrite <- Hdet.
  rewrite <- (prod3_omega (si_h RO ^ 2) rot_const (sp_eig sp)).
  - ro. lits. unfold rot_const. rewrite <- !pown_pow. cbn [pown]. ro. reflexivity.
  - pose proof rot_const_pos. lra.
  - intros k Hk. pose proof (Hpos k Hk). lra.
Qed.

(* ---------- frame independence of every translated formula ---------- *)
Section Frames.
Variables (Rm : @mat R) (t : nat -> R) (sp sp' : Species R).
Hypothesis Hsame : same_molecule RO Rm t sp sp'.
Hypothesis Horth : orthogonal RO Rm.
Hypothesis Hmass : mom0 RO (sp_atoms sp) <> 0.

Lemma frame_vib : sp_vib sp' = sp_vib sp.
Proof. destruct Hsame as [_ [Hlin [fr [E1 E2]]]]. rewrite E1, E2, Hlin. reflexivity. Qed.

Lemma frame_length : List.length (sp_atoms sp') = List.length (sp_atoms sp).
Proof. destruct Hsame as [P _]. rewrite (Permutation_length P), map_length. reflexivity. Qed.

Lemma frame_weight : weight RO (sp_atoms sp') = weight RO (sp_atoms sp).
Proof. destruct Hsame as [P _]. apply (weight_invariant RO Rinv RO_field Rm t). exact P. Qed.

Lemma frame_mass' : mom0 RO (sp_atoms sp') <> 0.
Proof. pose proof frame_weight as W. unfold weight in W. unfold mom0. rewrite W. exact Hmass. Qed.

Lemma frame_q_trans ss T : q_trans_igm RO sp' ss T = q_trans_igm RO sp ss T.
Proof. rewrite !q_trans_form. unfold trans_arg. rewrite frame_weight. reflexivity. Qed.

Lemma frame_invariants :
  det3 RO (eig_arg RO sp') = det3 RO (eig_arg RO sp) /\ trace3 RO (eig_arg RO sp') = trace3 RO (eig_arg RO sp).
Proof. destruct Hsame as [P _]. apply (eig_arg_invariants RO Rinv RO_field Rm t); assumption. Qed.

Lemma frame_q_rot T s : (needs_eig sp -> eig_ok sp) -> (needs_eig sp' -> eig_ok sp') -> q_rot_igm RO sp' T s = q_rot_igm RO sp T s.
Proof.
  intros Hok Hok'. destruct Hsame as [P [Hlin _]]. pose proof frame_vib as Hvib.
  destruct (Nat.eq_dec (List.length (sp_atoms sp)) 1) as [Hn|Hn].
  - unfold q_rot_igm. rewrite frame_length, Hn. reflexivity.
  - destruct (sp_linear sp) eqn:El.
    + unfold q_rot_igm. rewrite frame_length, Hlin, El. apply Nat.eqb_neq in Hn. rewrite Hn. cbv zeta. ro.
      rewrite (ival_gen RO Rinv RO_field (sp_atoms sp')) by exact frame_mass'.
      rewrite (ival_gen RO Rinv RO_field (sp_atoms sp)) by exact Hmass.
      rewrite (trQcen_invariant RO Rinv RO_field Rm t (sp_atoms sp) (sp_atoms sp')) by assumption.
      reflexivity.
    + assert (Ne : needs_eig sp) by (split; assumption).
      assert (Ne' : needs_eig sp') by (split; [congruence|rewrite frame_length; assumption]).
      specialize (Hok Ne). specialize (Hok' Ne').
      rewrite !q_rot_nonlinear_det by (try assumption; try (rewrite frame_length; assumption); congruence).
      rewrite (proj1 frame_invariants). reflexivity.
Qed.

Lemma frame_entropy p : (needs_eig sp -> eig_ok sp) -> (needs_eig sp' -> eig_ok sp') -> entropy RO sp' p = entropy RO sp p.
Proof.
  intros Hok Hok'. destruct Hsame as [P [Hlin _]]. pose proof frame_vib as Hvib.
  unfold entropy, s_trans_pib, s_rot_rr, igm_s_vib, truhlar_s_vib, grimme_s_vib. cbv zeta.
  rewrite frame_length, Hlin, Hvib, !frame_q_trans, !frame_q_rot by assumption.
  fold (eig_arg RO sp') (eig_arg RO sp). rewrite (proj2 frame_invariants). reflexivity.
Qed.

Lemma frame_internal_energy p : internal_energy RO sp' p = internal_energy RO sp p.
Proof.
  destruct Hsame as [P [Hlin _]]. pose proof frame_vib as Hvib.
  unfold internal_energy, zpe, internal_vib_energy. cbv zeta. rewrite frame_length, Hlin, Hvib. reflexivity.
Qed.

Lemma frame_thermo p : (needs_eig sp -> eig_ok sp) -> (needs_eig sp' -> eig_ok sp') ->
  h_cont RO sp' p = h_cont RO sp p /\ g_cont RO sp' p = g_cont RO sp p.
Proof.
  intros Hok Hok'. rewrite !h_cont_U, !g_cont_US, frame_internal_energy, frame_entropy by assumption. split; reflexivity.
Qed.
End Frames.
Close Scope R_scope.

(* ================================================================== Part C: numbers or unit-carrying values *)
Lemma value_to_same cls x u name : AV.C06.Model.has_alias name u = true -> value_to cls x u name = Some x.
Proof. intros H. unfold value_to, AV.C06.Model.to_name. cbn [AV.C06.Model.vu]. rewrite H. reflexivity. Qed.

Lemma value_to_other cls x u v name :
  AV.C06.Model.has_alias name u = false -> AV.C06.Model.find_unit cls name = Some v ->
  value_to cls x u name = Some (AV.gen.C06_Gen.conv x u v).
Proof.
  intros H1 H2. unfold value_to, AV.C06.Model.to_name. cbn [AV.C06.Model.vu AV.C06.Model.vx]. rewrite H1, H2. reflexivity.
Qed.

Lemma temp_arg_kelvin x : temp_arg (WithUnit x AV.gen.C06_Gen.u_kelvin) = Some x.
Proof. unfold temp_arg. apply value_to_same. vm_compute. reflexivity. Qed.

Lemma temp_arg_celsius x :
  temp_arg (WithUnit x AV.gen.C06_Gen.u_celsius) = Some (AV.gen.C06_Gen.conv x AV.gen.C06_Gen.u_celsius AV.gen.C06_Gen.u_kelvin).
Proof. unfold temp_arg. apply value_to_other; vm_compute; reflexivity. Qed.

Lemma freq_arg_num x : freq_arg (Num x) = Some x.
Proof. unfold freq_arg. apply value_to_same. vm_compute. reflexivity. Qed.

Lemma freq_arg_wavenumber x : freq_arg (WithUnit x AV.gen.C06_Gen.u_wavenumber) = Some x.
Proof. unfold freq_arg. apply value_to_same. vm_compute. reflexivity. Qed.

Lemma freq_arg_hz x :
  freq_arg (WithUnit x AV.gen.C06_Gen.u_hz) = Some (AV.gen.C06_Gen.conv x AV.gen.C06_Gen.u_hz AV.gen.C06_Gen.u_wavenumber).
Proof. unfold freq_arg. apply value_to_other; vm_compute; reflexivity. Qed.

(* the C06 identity at the same unit (re-proved here over the generated conv, so that this slice does not depend on C06/Lemmas.v) *)
Lemma conv_same_local x u : AV.C06.Base.utimes u <> Q2Qc 0 -> AV.gen.C06_Gen.conv x u u = x.
Proof. intros Hu. unfold AV.gen.C06_Gen.conv. field. exact Hu. Qed.
Lemma conv_same_kelvin x : AV.gen.C06_Gen.conv x AV.gen.C06_Gen.u_kelvin AV.gen.C06_Gen.u_kelvin = x.
Proof. apply conv_same_local. vm_compute. discriminate. Qed.
Lemma conv_same_wavenumber x : AV.gen.C06_Gen.conv x AV.gen.C06_Gen.u_wavenumber AV.gen.C06_Gen.u_wavenumber = x.
Proof. apply conv_same_local. vm_compute. discriminate. Qed.
Open Scope R_scope.
(* ---------- G-level consequences for the interpolating methods ---------- *)
Lemma to_Ha_abs x : Rabs (to_Ha x) = to_Ha (Rabs x).
Proof.
  unfold to_Ha. posfacts. rewrite Rabs_mult. f_equal. apply Rabs_right.
  apply Rle_ge. left. apply Rdiv_lt_0_compat; lra.
Qed.
Lemma to_Ha_le x y : x <= y -> to_Ha x <= to_Ha y.
Proof.
  intros H. unfold to_Ha. posfacts. apply Rmult_le_compat_r; [|exact H]. left. apply Rdiv_lt_0_compat; lra.
Qed.

Lemma with_method_twice p m1 m2 : with_method (with_method p m2) m1 = with_method p m1.
Proof. destruct p; reflexivity. Qed.

Lemma internal_energy_two_methods sp p m1 m2 : m1 <> LF_minenkov -> m2 <> LF_minenkov ->
  internal_energy RO sp (with_method p m1) = internal_energy RO sp (with_method p m2).
Proof.
  intros H1 H2. rewrite <- (with_method_twice p m1 m2). apply internal_energy_not_minenkov; [exact H1|].
  destruct p; exact H2.
Qed.

Lemma g_grimme_igm_gap sp p K : (2 <= List.length (sp_atoms sp))%nat -> 0 <= p_T p -> 0 <= p_w0 p -> 0 < K ->
  Forall (fun f => 0 < f /\ K * p_w0 p <= f) (sp_vib sp) ->
  Rabs (g_cont RO sp (with_method p LF_grimme) - g_cont RO sp (with_method p LF_igm)) <=
  to_Ha (p_T p * ((1 / K) ^ p_alpha p * lsum RO (fun f => Rabs (s_free sp (p_T p) f - s_harm (p_T p) f)) (sp_vib sp))).
Proof.
  intros Hn HT Hw HK Hall. rewrite !g_cont_US, !p_T_with_method.
  rewrite (internal_energy_two_methods sp p LF_grimme LF_igm) by discriminate.
  rewrite <- to_Ha_sub.
  replace (internal_energy RO sp (with_method p LF_igm) + si_k_b RO * p_T p - p_T p * entropy RO sp (with_method p LF_grimme) -
           (internal_energy RO sp (with_method p LF_igm) + si_k_b RO * p_T p - p_T p * entropy RO sp (with_method p LF_igm)))
    with (- (p_T p * (entropy RO sp (with_method p LF_grimme) - entropy RO sp (with_method p LF_igm)))) by ring.
  rewrite (proj1 (entropy_methods sp p Hn)). rewrite to_Ha_abs. apply to_Ha_le.
  rewrite Rabs_Ropp, Rabs_mult, (Rabs_right (p_T p)) by lra.
  apply Rmult_le_compat_l; [exact HT|]. apply grimme_gap_bound; assumption.
Qed.

Lemma g_minenkov_igm_gap sp p K : (2 <= List.length (sp_atoms sp))%nat -> 0 <= p_T p -> 0 <= p_w0 p -> 0 < K ->
  Forall (fun f => 0 < f /\ K * p_w0 p <= f) (sp_vib sp) ->
  Rabs (g_cont RO sp (with_method p LF_minenkov) - g_cont RO sp (with_method p LF_igm)) <=
  to_Ha ((1 / K) ^ p_alpha p *
         (lsum RO (fun f => Rabs (u_free (p_T p) - u_harm (p_T p) f)) (sp_vib sp)
          + p_T p * lsum RO (fun f => Rabs (s_free sp (p_T p) f - s_harm (p_T p) f)) (sp_vib sp))) /\
  Rabs (h_cont RO sp (with_method p LF_minenkov) - h_cont RO sp (with_method p LF_igm)) <=
  to_Ha ((1 / K) ^ p_alpha p * lsum RO (fun f => Rabs (u_free (p_T p) - u_harm (p_T p) f)) (sp_vib sp)).
Proof.
  intros Hn HT Hw HK Hall.
  set (q := with_method p LF_igm).
  assert (Eq : with_method p LF_minenkov = with_method q LF_minenkov) by (unfold q; rewrite with_method_twice; reflexivity).
  assert (Hq : p_method q <> LF_minenkov) by (unfold q; destruct p; discriminate).
  assert (HU := minenkov_U_gap_bound sp q K Hq).
  assert (Hqw : p_w0 q = p_w0 p) by (unfold q; destruct p; reflexivity).
  assert (Hqa : p_alpha q = p_alpha p) by (unfold q; destruct p; reflexivity).
  assert (HqT : p_T q = p_T p) by (unfold q; destruct p; reflexivity).
  rewrite Hqw, Hqa, HqT in HU. specialize (HU Hw HK Hall).
  pose proof (internal_energy_methods sp q LF_minenkov Hn) as EU. rewrite <- Eq in EU, HU.
  pose proof (entropy_methods sp p Hn) as [ES1 ES2].
  pose proof (grimme_gap_bound sp (p_T p) (p_w0 p) (p_alpha p) K Hw HK Hall) as HS. rewrite <- ES1, <- ES2 in HS.
  fold q in HS.
  set (dU := internal_vib_energy RO sp (with_method p LF_minenkov) - internal_vib_energy RO sp q) in *.
  set (dS := entropy RO sp (with_method p LF_minenkov) - entropy RO sp q) in *.
  split.
  - rewrite !g_cont_US, ?p_T_with_method. fold q. rewrite ?HqT. rewrite <- to_Ha_sub, to_Ha_abs. apply to_Ha_le.
    replace (internal_energy RO sp (with_method p LF_minenkov) + si_k_b RO * p_T p - p_T p * entropy RO sp (with_method p LF_minenkov) -
             (internal_energy RO sp q + si_k_b RO * p_T p - p_T p * entropy RO sp q))
      with (dU - p_T p * dS) by (rewrite <- EU; unfold dS; ring).
    eapply Rle_trans; [apply Rabs_triang|]. rewrite Rabs_Ropp, Rabs_mult, (Rabs_right (p_T p)) by lra.
    assert (p_T p * Rabs dS <= p_T p * ((1 / K) ^ p_alpha p * lsum RO (fun f => Rabs (s_free sp (p_T p) f - s_harm (p_T p) f)) (sp_vib sp)))
      by (apply Rmult_le_compat_l; assumption).
    lra.
  - rewrite !h_cont_U, ?p_T_with_method. fold q. rewrite ?HqT. rewrite <- to_Ha_sub, to_Ha_abs. apply to_Ha_le.
    replace (internal_energy RO sp (with_method p LF_minenkov) + si_k_b RO * p_T p - (internal_energy RO sp q + si_k_b RO * p_T p))
      with dU by (rewrite <- EU; ring).
    exact HU.
Qed.

(* ---------- positivity of the rotational partition function of a non-linear rotor ---------- *)
Lemma q_rot_pos_nonlinear sp T : 0 < T -> eig_ok sp -> sp_linear sp = false -> List.length (sp_atoms sp) <> 1%nat ->
  0 < q_rot_igm RO sp T 1.
Proof.
  intros HT [_ [_ Hpos]] Hl Hn. unfold q_rot_igm. apply Nat.eqb_neq in Hn. rewrite Hn, Hl. cbv zeta. ro. lits.
  posfacts.
  assert (Hw : forall k, (k < 3)%nat -> 0 < si_h RO * (si_h RO * 1) / (8 * (PI * (PI * 1)) * si_k_b RO * sp_eig sp k)).
  { intros k Hk. pose proof (Hpos k Hk). apply Rdiv_lt_0_compat; [nra|].
    assert (0 < PI * (PI * 1)) by nra. assert (0 < 8 * (PI * (PI * 1)) * si_k_b RO) by nra. nra. }
  apply Rmult_lt_0_compat.
  - apply pow15R_pos. exact HT.
  - apply sqrt_lt_R0. apply Rdiv_lt_0_compat; [lra|]. unfold prod3. ro.
    pose proof (Hw 0%nat ltac:(lia)). pose proof (Hw 1%nat ltac:(lia)). pose proof (Hw 2%nat ltac:(lia)).
    apply Rmult_lt_0_compat; [apply Rmult_lt_0_compat|]; assumption.
Qed.
Close Scope R_scope.

(* the rational instance is a field as well *)
Lemma QO_field : field_theory (o0 QO) (o1 QO) (oadd QO) (omul QO) (osub QO) (oopp QO) (odiv QO) Qcinv (@eq Qc).
Proof. exact Qcft. Qed.

(* ================================================================== Part D: the linearity decision and atom order *)
Lemma forallb_perm {A} (f : A -> bool) l l' : Permutation l l' -> forallb f l = forallb f l'.
Proof.
  induction 1 as [|x l l' _ IH|x y l|l l' l'' _ IH1 _ IH2]; cbn [forallb].
  - reflexivity.
  - rewrite IH. reflexivity.
  - destruct (f x), (f y); reflexivity.
  - rewrite IH1. exact IH2.
Qed.

Lemma forallb_ext' {A} (f g : A -> bool) l : (forall x, f x = g x) -> forallb f l = forallb g l.
Proof. intros H. induction l as [|a l IH]; cbn [forallb]; [reflexivity|]. rewrite H, IH. reflexivity. Qed.

Lemma all_on_axis_perm tol atoms atoms' : Permutation atoms atoms' -> all_on_axis tol atoms = all_on_axis tol atoms'.
Proof.
  intros P. unfold all_on_axis. rewrite (forallb_perm _ _ _ P). apply forallb_ext'. intros a.
  rewrite (forallb_perm _ _ _ P). apply forallb_ext'. intros j. apply forallb_perm. exact P.
Qed.

Lemma are_linear_q_perm tol atoms atoms' : Permutation atoms atoms' -> are_linear_q tol atoms = are_linear_q tol atoms'.
Proof.
  intros P. unfold are_linear_q. rewrite (Permutation_length P), (all_on_axis_perm tol _ _ P). reflexivity.
Qed.
