(* C10/Corr.v — helpers used only by the correspondence check (model vs implementation). *)
From Coq Require Import ZArith QArith Qcanon List Bool Arith.
From AV.lib Require Import QcInst.
From AV.C10 Require Import Base Model.
From AV.gen Require Import C10_Gen.
Import ListNotations.

Definition Qceqb (a b : Qc) : bool := Qeq_bool (this a) (this b).
Definition ext_eqb (a b : ext) : bool :=
  match a, b with
  | Fin x, Fin y => Qceqb x y
  | PInf, PInf | NInf, NInf | NaN, NaN => true
  | _, _ => false
  end.
(* |a - b| <= tol * max(|a|,|b|) : purely relative (thresholds are ~1e-6) *)
Definition rclose (tol a b : Qc) : bool :=
  Qcleb (Qcabs (a - b)%Qc) (tol * Qcmaxq (Qcabs a) (Qcabs b))%Qc.
Definition ext_close (tol : Qc) (a b : ext) : bool :=
  match a, b with
  | Fin x, Fin y => rclose tol x y
  | PInf, PInf | NInf, NInf | NaN, NaN => true
  | _, _ => false
  end.
Definition oext_rel (r : ext -> ext -> bool) (a b : option ext) : bool :=
  match a, b with Some x, Some y => r x y | None, None => true | _, _ => false end.

Definition rb_eqb (a b : result bool) : bool :=
  match a, b with
  | Ok x, Ok y => Bool.eqb x y
  | ValueError, ValueError | TypeError, TypeError | AssertionError, AssertionError => true
  | _, _ => false
  end.
Fixpoint lb_eqb (a b : list bool) : bool :=
  match a, b with
  | [], [] => true
  | x :: a', y :: b' => Bool.eqb x y && lb_eqb a' b'
  | _, _ => false
  end.
Definition rl_eqb (a b : result (list bool)) : bool :=
  match a, b with
  | Ok x, Ok y => lb_eqb x y
  | ValueError, ValueError | TypeError, TypeError | AssertionError, AssertionError => true
  | _, _ => false
  end.

(* ---- ConvergenceParams ---- *)
Definition check_meets (c v : params) (e : result bool) : bool := rb_eqb (meets_criteria c v) e.
Definition check_sat (c v : params) (e : result (list bool)) : bool := rl_eqb (are_satisfied c v) e.
(* ok = the constructor accepted the arguments (no ValueError) *)
Definition check_construct (p : params) (ok : bool) : bool :=
  match construct p with Ok _ => ok | ValueError => negb ok | _ => false end.
Definition tol12 : Qc := qc 1 1000000000000.
Definition params_close (a b : params) : bool :=
  forallb (fun t => oext_rel (ext_close tol12) (getattr a t) (getattr b t)) num_attrs
  && Bool.eqb (strict a) (strict b).
(* c * factors: Some p = the product object, None = an exception of the given class *)
Definition check_mul (c : params) (f : list Qc) (e : result params) : bool :=
  match pmul c f, e with
  | Ok p, Ok p' => params_close p p'
  | ValueError, ValueError | TypeError, TypeError | AssertionError, AssertionError => true
  | _, _ => false
  end.

(* ---- conv_params: the implementation's five numbers against the model evaluated with sqrtf := id, i.e.
        RMS fields are compared through their squares ---- *)
Definition tol9 : Qc := qc 1 1000000000.
Definition sq_ext (e : ext) : ext := match e with Fin x => Fin (x * x)%Qc | o => o end.
Definition check_conv_params (l : point) (k : option point) (impl : params) : bool :=
  match conv_params_of (fun y => y) l k with
  | Ok m =>
      oext_rel (ext_close tol9) (abs_d_e impl) (abs_d_e m) &&
      oext_rel (ext_close tol9) (option_map sq_ext (rms_g impl)) (rms_g m) &&
      oext_rel (ext_close tol9) (max_g impl) (max_g m) &&
      oext_rel (ext_close tol9) (option_map sq_ext (rms_s impl)) (rms_s m) &&
      oext_rel (ext_close tol9) (max_s impl) (max_s m) && negb (strict impl)
  | _ => false
  end.
(* DICWithConstraints.cart_proj_g against the model's masking + B^T *)
Fixpoint lclose (tol atol : Qc) (a b : list Qc) : bool :=
  match a, b with
  | [], [] => true
  | x :: a', y :: b' => (rclose tol x y || Qcleb (Qcabs (x - y)%Qc) atol) && lclose tol atol a' b'
  | _, _ => false
  end.
Definition check_cart_proj_g (ncart : nat) (B : list (list Qc)) (inactive : list nat) (g_s impl : list Qc) : bool :=
  lclose tol9 (qc 1 100000000000000) (cart_proj_g ncart B inactive g_s) impl.

(* ---- converged / iteration / limit on states of real optimisers ---- *)
Definition check_converged (single_atom : bool) (n_c n_s : nat) (curr tol : params) (e : result bool) : bool :=
  rb_eqb (converged_rule single_atom n_c n_s (construct curr) (meets_criteria tol)) e.
Definition check_iteration (hist_len it : nat) : bool := Nat.eqb (iteration_of hist_len) it.
Definition check_exceeded (it maxiter : nat) (e : bool) : bool := Bool.eqb (exceeded it maxiter) e.
Definition check_maxiter_guard (m : Z) (rejected : bool) : bool := Bool.eqb (maxiter_rejected m) rejected.

(* constraint counters of a real DICWithConstraints state from independently measured deltas *)
Definition check_nsat (deltas : list Qc) (nc ns : nat) : bool :=
  Nat.eqb (n_constraints_of deltas) nc && Nat.eqb (n_satisfied_of deltas) ns.

(* ---- scripted runs of the real Optimiser.run against the model loop ----
   All Cartesian components of entry i equal sx, all gradient components equal sg, so that
   RMS = max = |.| exactly.  sj counts gradient evaluations, sid is the index of the coordinates. *)
Record sentry := mkS { sx : Qc; se : Qc; sg : Qc; sj : nat; sid : nat; she : bool (* has an energy *) }.
Definition q0 : Qc := Q2Qc 0.
Section Scripted.
Variables (STP : list bool) (X E G : list Qc) (SAT : list bool).
Definition s_step (h : list sentry) : option sentry :=
  match h with
  | c :: _ => if nth (sj c - 1) STP true
              then Some (mkS (nth (length h) X q0) (se c) (sg c) (sj c) (length h) false)
              else None
  | [] => None
  end.
Definition s_evalg (c : sentry) : sentry := mkS (sx c) (nth (sj c) E q0) (nth (sj c) G q0) (S (sj c)) (sid c) true.
Definition s_conv (h : list sentry) : result params :=
  match h with
  | l :: k :: _ =>
      if negb (she l && she k) then AssertionError else       (* base.py: assert coords_l.e is not None and coords_k.e ... *)
      construct (mkP (Some (Fin (Qcabs (se l - se k)%Qc))) (Some (Fin (Qcabs (sg l)))) (Some (Fin (Qcabs (sg l))))
                     (Some (Fin (Qcabs (sx l - sx k)%Qc))) (Some (Fin (Qcabs (sx l - sx k)%Qc))) false)
  | [l] => construct (mkP (Some PInf) (Some (Fin (Qcabs (sg l)))) (Some (Fin (Qcabs (sg l))))
                          (Some PInf) (Some PInf) false)
  | [] => AssertionError
  end.
Definition s_nsat (c : sentry) : nat := if nth (sid c) SAT true then 1%nat else 0%nat.
(* PRE = the optimiser was constructed with `coords=`: the history already holds those (unevaluated) coordinates *)
Definition s_loop (PRE : bool) (tol : params) (maxiter fuel : nat) : outcome sentry :=
  loop sentry s_step s_evalg (fun c => c) s_conv (fun _ => 1%nat) s_nsat false tol maxiter fuel
       (s_evalg (mkS (nth 0 X q0) q0 q0 0 0 false) :: (if PRE then [mkS (nth 0 X q0) q0 q0 0 0 false] else [])).

(* kind: 0 = left the loop, 1 = exception from converged, 2 = more than `fuel` passes *)
Definition check_scripted (PRE : bool) (tol : params) (maxiter fuel : nat) (kind it : nat) (flag : result bool) : bool :=
  let o := s_loop PRE tol maxiter fuel in
  Nat.eqb (match o with Done _ _ => 0 | Raised _ _ => 1 | OutOfFuel _ _ => 2 end)%nat kind &&
  Nat.eqb (iteration sentry (final_hist sentry o)) it &&
  rb_eqb (reported sentry s_conv (fun _ => 1%nat) s_nsat false tol o) flag.
End Scripted.
