(* C10/Props.v — the property theorems (statements; each closed by lemmas of Lemmas.v).
   meets_criteria / are_satisfied / converged_rule / loop_body / exceeded / iteration_of /
   post_init_rejects / maxiter_rejected are REGENERATED from autode/opt/optimisers/base.py on every run.
   `construct p = Ok p` says "p is a ConvergenceParams object" (it passed __post_init__). *)
From Coq Require Import ZArith QArith Qcanon List Bool Arith Lia.
From AV.lib Require Import QcInst.
From AV.C10 Require Import Base Model Lemmas.
From AV.gen Require Import C10_Gen.
Import ListNotations.
Open Scope Qc_scope.

(* Reported convergence respects EXACTLY the relaxation the property allows: for every set (finite)
   criterion the measured value is a finite number with
      RMS gradient <= threshold,  max gradient <= threshold   (never relaxed),
      |dE| <= 3 x threshold,  RMS step <= 3 x threshold,  max step <= 3 x threshold.
   Proved for every program the translator can emit that passes the decidable check
   prog_ok false bound_of (Lemmas.meets_prog_ok evaluates it on the translated program): any factor that
   loosens a gradient criterion or exceeds 3 makes this theorem fail to build. *)
Theorem converged_implies_thresholds : forall c v : params,
  construct c = Ok c -> construct v = Ok v -> meets_criteria c v = Ok true ->
  within (Q2Qc 1) (rms_g c) (rms_g v) /\ within (Q2Qc 1) (max_g c) (max_g v) /\
  within (qc 3 1) (abs_d_e c) (abs_d_e v) /\ within (qc 3 1) (rms_s c) (rms_s v) /\
  within (qc 3 1) (max_s c) (max_s v).
Proof.
  intros c v Vc Vv H.
  pose proof (run_prog_sound false bound_of c v bound_of_ge1 (valid_wf _ Vc)
                (fun a => valid_no_ninf v a Vv) (fun E => ltac:(discriminate E)) meets_prog meets_prog_ok H) as W.
  repeat split; [exact (W A_rms_g)|exact (W A_max_g)|exact (W A_abs_d_e)|exact (W A_rms_s)|exact (W A_max_s)].
Qed.

(* strict = True: all five measures within their thresholds, no relaxation at all *)
Theorem strict_implies_all : forall c v : params,
  construct c = Ok c -> construct v = Ok v -> strict c = true -> meets_criteria c v = Ok true ->
  within (Q2Qc 1) (abs_d_e c) (abs_d_e v) /\ within (Q2Qc 1) (rms_g c) (rms_g v) /\
  within (Q2Qc 1) (max_g c) (max_g v) /\ within (Q2Qc 1) (rms_s c) (rms_s v) /\
  within (Q2Qc 1) (max_s c) (max_s v).
Proof.
  intros c v Vc Vv S H.
  pose proof (run_prog_sound true bound_strict c v bound_strict_ge1 (valid_wf _ Vc)
                (fun a => valid_no_ninf v a Vv) (fun _ => S) meets_prog meets_prog_ok_strict H) as W.
  repeat split; [exact (W A_abs_d_e)|exact (W A_rms_g)|exact (W A_max_g)|exact (W A_rms_s)|exact (W A_max_s)].
Qed.

(* Unset criteria behave as satisfied: the element of are_satisfied is True whatever was measured, and
   the decision does not depend on the measured values of attributes whose criterion is unset. *)
Theorem unset_criteria_behave_as_satisfied :
  (forall v, sat_one None v = Ok true) /\
  (forall c v v', (forall a, getattr c a = None \/ getattr v a = getattr v' a) ->
                  meets_criteria c v = meets_criteria c v').
Proof.
  split; [exact sat_one_unset|]. intros c v v' H. exact (run_prog_indep meets_prog c v v' H).
Qed.

(* `converged` requires the constraint gate: for a species with more than one atom it is True only if
   every constraint is satisfied AND the criteria are met by conv_params of the history. *)
Theorem converged_requires_constraints :
  forall (entry : Type) (conv_params : list entry -> result params) (n_constraints n_satisfied : entry -> nat)
         (tol : params) (h : list entry),
  converged entry conv_params n_constraints n_satisfied false tol h = Ok true ->
  exists c r cp, h = c :: r /\ conv_params h = Ok cp /\ n_constraints c = n_satisfied c /\
                 meets_criteria tol cp = Ok true.
Proof.
  intros entry cp nc ns tol h H.
  destruct (converged_true_inv entry cp nc ns false tol h H) as [E|E]; [discriminate|exact E].
Qed.

(* The iteration counter (len(history) - 1) never exceeds maxiter — for ANY step function, gradient
   evaluation, callback, conv_params and tolerance, at the top of every pass (OutOfFuel k is the state
   after k passes) and at the end.  maxiter >= 1 is what Optimiser.__init__ enforces. *)
Theorem iteration_never_exceeds_maxiter :
  forall (entry : Type) (step : list entry -> option entry) (evalg cb : entry -> entry)
         (conv_params : list entry -> result params) (n_constraints n_satisfied : entry -> nat)
         (single_atom : bool) (tol : params) (maxiter : nat),
  (* the default history (nothing before the start point) always qualifies: maxiter >= 1 is enforced *)
  (maxiter_rejected (Z.of_nat maxiter) = false -> (length (@nil entry) < maxiter)%nat) /\
  (* pre = what the constructor put into the history before run(): [] or the `coords=` argument *)
  forall pre : list entry, (length pre < maxiter)%nat ->
  forall (fuel : nat) (c0 : entry),
  (iteration entry (final_hist entry
     (loop entry step evalg cb conv_params n_constraints n_satisfied single_atom tol maxiter fuel (evalg c0 :: pre)))
   <= maxiter)%nat.
Proof.
  intros entry step evalg cb cp nc ns sa tol maxiter. split.
  - intros Hm. unfold maxiter_rejected in Hm. cbn [length].
    first [apply Z.leb_gt in Hm | apply Z.ltb_ge in Hm]; lia.
  - intros pre Hp fuel c0.
    apply loop_iteration_bound; [cbn [length]; lia|]. unfold iteration, iteration_of. cbn [length]. lia.
Qed.

(* When every step appends a point, maxiter passes are enough: the model's fuel never runs out, i.e.
   run() terminates after at most maxiter steps. *)
Theorem maxiter_passes_suffice :
  forall (entry : Type) (step : list entry -> option entry) (evalg cb : entry -> entry)
         (conv_params : list entry -> result params) (n_constraints n_satisfied : entry -> nat)
         (single_atom : bool) (tol : params) (maxiter : nat) (pre : list entry),
  (length pre < maxiter)%nat -> (forall h, step h <> None) ->
  forall (c0 : entry) (h' : list entry),
  run_with entry step evalg cb conv_params n_constraints n_satisfied single_atom tol maxiter pre c0
    <> OutOfFuel entry h'.
Proof.
  intros entry step evalg cb cp nc ns sa tol maxiter pre Hp Hs c0 h'.
  unfold run_with. apply loop_fuel_suffices; [exact Hs|cbn [length]; lia| |];
    unfold iteration, iteration_of; cbn [length]; lia.
Qed.

(* A run that stops at the limit reports the truth: the loop is left below the limit only when converged;
   and the flag read afterwards is the decision on the FINAL history — True exactly when the constraints
   are met and conv_params of the final entry meet the criteria.  So a run cut by the limit reports
   non-convergence unless its last point really satisfies the criteria. *)
Theorem stops_at_limit_reports_truth :
  forall (entry : Type) (step : list entry -> option entry) (evalg cb : entry -> entry)
         (conv_params : list entry -> result params) (n_constraints n_satisfied : entry -> nat)
         (tol : params) (maxiter : nat) (pre : list entry) (c0 : entry) (h' : list entry),
  (length pre < maxiter)%nat ->
  run_with entry step evalg cb conv_params n_constraints n_satisfied false tol maxiter pre c0 = Done entry h' ->
  (converged entry conv_params n_constraints n_satisfied false tol h' = Ok true \/
   iteration entry h' = maxiter) /\
  (reported entry conv_params n_constraints n_satisfied false tol (Done entry h') = Ok true <->
   exists c r cp, h' = c :: r /\ conv_params h' = Ok cp /\ n_constraints c = n_satisfied c /\
                  meets_criteria tol cp = Ok true).
Proof.
  intros entry step evalg cb cp nc ns tol maxiter pre c0 h' Hp Hrun. split.
  - destruct (loop_done_inv entry step evalg cb cp nc ns false tol maxiter _ _ _ Hrun) as [C|E];
      [left; exact C|right].
    destruct (iteration_never_exceeds_maxiter entry step evalg cb cp nc ns false tol maxiter) as [_ B].
    specialize (B pre Hp maxiter c0).
    unfold run_with in Hrun. rewrite Hrun in B. cbn [final_hist] in B.
    unfold exceeded_now, exceeded in E. apply Nat.leb_le in E. lia.
  - unfold reported. cbn [final_hist]. split.
    + intros H. exact (converged_requires_constraints entry cp nc ns tol h' H).
    + intros [c [r [p [-> [Ecp [En Em]]]]]]. unfold converged, converged_rule. rewrite Ecp. cbn [bind].
      rewrite En, Nat.eqb_refl. cbn [bind]. exact Em.
Qed.

(* End to end: whenever the flag read after run() is True (species with more than one atom, conv_params
   producing ConvergenceParams objects), all constraints are met and the measures of the final history
   are within the thresholds with the allowed relaxation. *)
Theorem reported_convergence_is_sound :
  forall (entry : Type) (step : list entry -> option entry) (evalg cb : entry -> entry)
         (conv_params : list entry -> result params) (n_constraints n_satisfied : entry -> nat)
         (tol : params) (maxiter : nat) (c0 : entry),
  construct tol = Ok tol -> (forall h p, conv_params h = Ok p -> construct p = Ok p) ->
  let o := run entry step evalg cb conv_params n_constraints n_satisfied false tol maxiter c0 in
  reported entry conv_params n_constraints n_satisfied false tol o = Ok true ->
  exists c r v, final_hist entry o = c :: r /\ conv_params (c :: r) = Ok v /\
    n_constraints c = n_satisfied c /\
    within (Q2Qc 1) (rms_g tol) (rms_g v) /\ within (Q2Qc 1) (max_g tol) (max_g v) /\
    within (qc 3 1) (abs_d_e tol) (abs_d_e v) /\ within (qc 3 1) (rms_s tol) (rms_s v) /\
    within (qc 3 1) (max_s tol) (max_s v).
Proof.
  intros entry step evalg cb cp nc ns tol maxiter c0 Vt Vcp o H. unfold reported in H.
  destruct (converged_requires_constraints entry cp nc ns tol _ H) as [c [r [v [Eh [Ev [En Em]]]]]].
  exists c, r, v. rewrite <- Eh. repeat split; try assumption;
    apply (converged_implies_thresholds tol v Vt (Vcp _ _ Ev) Em).
Qed.

(* conv_params never raises on what it computes: RMS, max|.| and |dE| are non-negative — possibly ZERO
   (start at a stationary point, null step) — or +inf (first point), and the constructor accepts every
   such record.  (Breaks if the sanity test is turned back into "must be > 0".) *)
Theorem nonnegative_measures_accepted :
  (forall p : params, rms_g p <> None ->
     (forall a e, getattr p a = Some e -> e = PInf \/ exists x, e = Fin x /\ 0 <= x) -> construct p = Ok p) /\
  (forall (sqrtf : Qc -> Qc), (forall y, 0 <= sqrtf y) ->
   forall (l : point) (k : option point), p_e l <> None -> (forall k', k = Some k' -> p_e k' <> None) ->
   (* numpy raises on empty / differently long vectors where the total model computes 0: excluded *)
   (forall g, p_g l = Some g -> g <> []) -> p_x l <> [] ->
   (forall k', k = Some k' -> length (p_x k') = length (p_x l)) ->
   exists p, conv_params_of sqrtf l k = Ok p /\ construct p = Ok p).
Proof.
  split; [exact construct_legit|].
  intros sqrtf Hs l k El Ek _ _ _. destruct (conv_params_of_ok sqrtf Hs l k El Ek) as [p [E [V _]]].
  exists p. split; assumption.
Qed.

(* PARTIAL.  Proved: components of the internal gradient at the indexes handed over as `inactive` never reach
   cart_proj_g, and the max measure bounds every Cartesian component of what is counted.  NOT proved: that the
   inactive indexes are exactly the satisfied constraints' modes and that removing them is the projection onto
   the constraint surface — that needs the structure of B (Schmidt-orthogonalised U, dic.py:367-381), which is
   neither modelled nor translated; it is exercised by check_cart_proj_g and the constrained-run oracles.
   Only the gradient within the constraint surface is counted: components of the internal gradient at
   inactive indexes (the satisfied constraints) never reach cart_proj_g, and the max measure bounds every
   Cartesian component of what is counted. *)
Theorem projected_gradient_masks_inactive_components_partial :
  (forall ncart B inactive g g', length g = length g' ->
     (forall i, ~ In i inactive -> nth i g (Q2Qc 0) = nth i g' (Q2Qc 0)) ->
     cart_proj_g ncart B inactive g = cart_proj_g ncart B inactive g') /\
  (forall g t, maxabs g <= t -> forall x, In x g -> - t <= x /\ x <= t).
Proof.
  split; [exact cart_proj_g_masks|].
  intros g t H x Hx. apply Qcabs_bounds. apply (Qcle_trans _ (maxabs g)); [apply maxabs_ge; exact Hx|exact H].
Qed.

(* Every distance constraint is met to its tolerance when `converged` lets a run through: the constraint gate
   compares n_constraints with n_satisfied_constraints, and equality of the two counters means every
   constrained primitive deviates from its required value by at most the (translated) tolerance. *)
Theorem constraints_met_within_tolerance : forall deltas : list Qc,
  n_satisfied_of deltas = n_constraints_of deltas ->
  forall d, In d deltas -> - constraint_tol <= d /\ d <= constraint_tol.
Proof. exact all_satisfied_within_tol. Qed.

(* The species holds the last evaluated point.  State = (history, species); only the gradient update writes the
   species (snapshot `snap` of the entry it evaluated).  For any step / gradient / callback functions, any
   prefix, every number of passes: the history component is the model loop's history, its final entry is a point
   that was evaluated after it was created, and the species holds exactly the snapshot of that entry.  (Depends
   on the ORDER of the translated loop body; that snap is "coordinates, energy, gradient" of the real species
   is exercised by the species|state-not-last-evaluated oracle.) *)
Theorem species_holds_last_evaluated_point :
  forall (entry : Type) (step : list entry -> option entry) (evalg cb : entry -> entry)
         (conv_params : list entry -> result params) (n_constraints n_satisfied : entry -> nat)
         (single_atom : bool) (tol : params) (maxiter fuel : nat) (Sp : Type) (snap : entry -> Sp)
         (pre : list entry) (c0 : entry),
  let x := loop2 entry step evalg cb conv_params n_constraints n_satisfied single_atom tol maxiter Sp snap fuel
                 (evalg c0 :: pre, snap (evalg c0)) in
  fst x = final_hist entry (loop entry step evalg cb conv_params n_constraints n_satisfied single_atom tol
                                 maxiter fuel (evalg c0 :: pre)) /\
  exists c r, fst x = evalg c :: r /\ snd x = snap (evalg c).
Proof.
  intros. apply (loop2_spec entry step evalg cb conv_params n_constraints n_satisfied single_atom tol maxiter
                            Sp snap fuel (evalg c0 :: pre, snap (evalg c0))).
  exists c0, pre. split; reflexivity.
Qed.

(* COMPOSITION on concrete history entries (energy, Cartesian coordinates, projected gradient, one deviation per
   constrained primitive), with conv_params = the hand model of OptimiserHistory.conv_params on the last two
   entries and the constraint counters = the model of n_constraints / n_satisfied_constraints:
   `converged` = True  ==>  every constraint deviation is within the tolerance, RMS and max of the counted
   gradient of the FINAL entry are within their thresholds, and |dE| and the last step (RMS, max) between the
   final two entries are within 3x theirs.  (sqrtf is the square-root oracle; only its sign is used.) *)
Theorem converged_point_within_tolerances :
  forall (sqrtf : Qc -> Qc) (tol : params) (l : cpoint) (rest : list cpoint),
  (forall y, 0 <= sqrtf y) -> construct tol = Ok tol ->
  concrete_converged sqrtf tol (l :: rest) = Ok true ->
  (forall d, In d (cp_deltas l) -> - constraint_tol <= d /\ d <= constraint_tol) /\
  (forall t, rms_g tol = Some (Fin t) -> exists g, p_g (cp_pt l) = Some g /\ rms sqrtf g <= Q2Qc 1 * t) /\
  (forall t, max_g tol = Some (Fin t) -> exists g, p_g (cp_pt l) = Some g /\ maxabs g <= Q2Qc 1 * t) /\
  (forall t, abs_d_e tol = Some (Fin t) -> exists k rest' el ek, rest = k :: rest' /\
      p_e (cp_pt l) = Some el /\ p_e (cp_pt k) = Some ek /\ Qcabs (el - ek) <= qc 3 1 * t) /\
  (forall t, rms_s tol = Some (Fin t) -> exists k rest', rest = k :: rest' /\
      rms sqrtf (lsub (p_x (cp_pt l)) (p_x (cp_pt k))) <= qc 3 1 * t) /\
  (forall t, max_s tol = Some (Fin t) -> exists k rest', rest = k :: rest' /\
      maxabs (lsub (p_x (cp_pt l)) (p_x (cp_pt k))) <= qc 3 1 * t).
Proof.
  intros sqrtf tol l rest Hs Vt H. unfold concrete_converged in H.
  destruct (converged_requires_constraints _ _ _ _ _ _ H) as [c [r [v [Eh [Ev [En Em]]]]]].
  injection Eh as <- <-.
  split; [exact (all_satisfied_within_tol _ (eq_sym En))|].
  assert (Inv : exists k, conv_params_of sqrtf (cp_pt l) k = Ok v /\
                (k = None -> rest = []) /\ (forall k', k = Some k' -> exists kc rest', rest = kc :: rest' /\ k' = cp_pt kc)).
  { cbn [concrete_conv] in Ev. destruct rest as [|kc rest'].
    - exists None. split; [exact Ev|]. split; [reflexivity|discriminate].
    - exists (Some (cp_pt kc)). split; [exact Ev|]. split; [discriminate|].
      intros k' E. injection E as <-. exists kc, rest'. split; reflexivity. }
  destruct Inv as [k [Ek [Kn Ks]]].
  destruct (conv_params_of_inv sqrtf (cp_pt l) k v Ek) as [Vv [Erg [Emg Erest]]].
  destruct (converged_implies_thresholds tol v Vt Vv Em) as [Wrg [Wmg [Wde [Wrs Wms]]]].
  split; [|split]; [| |split; [|split]].
  - intros t Ht. destruct (within_fin _ _ _ _ Wrg Ht _ Erg) as [x [Ex Hle]].
    destruct (p_g (cp_pt l)) as [g|]; [|discriminate]. injection Ex as <-. exists g. split; [reflexivity|exact Hle].
  - intros t Ht. destruct (within_fin _ _ _ _ Wmg Ht _ Emg) as [x [Ex Hle]].
    destruct (p_g (cp_pt l)) as [g|]; [|discriminate]. injection Ex as <-. exists g. split; [reflexivity|exact Hle].
  - intros t Ht. destruct k as [k'|].
    + destruct Erest as [el [ek [Eel [Eek [Ede _]]]]]. destruct (Ks k' eq_refl) as [kc [rest' [-> ->]]].
      destruct (within_fin _ _ _ _ Wde Ht _ Ede) as [x [Ex Hle]]. injection Ex as <-.
      exists kc, rest', el, ek. repeat split; assumption.
    + destruct Erest as [Ede _]. destruct (within_fin _ _ _ _ Wde Ht _ Ede) as [x [Ex _]]. discriminate.
  - intros t Ht. destruct k as [k'|].
    + destruct Erest as [el [ek [_ [_ [_ [Ers _]]]]]]. destruct (Ks k' eq_refl) as [kc [rest' [-> ->]]].
      destruct (within_fin _ _ _ _ Wrs Ht _ Ers) as [x [Ex Hle]]. injection Ex as <-.
      exists kc, rest'. split; [reflexivity|exact Hle].
    + destruct Erest as [_ [Ers _]]. destruct (within_fin _ _ _ _ Wrs Ht _ Ers) as [x [Ex _]]. discriminate.
  - intros t Ht. destruct k as [k'|].
    + destruct Erest as [el [ek [_ [_ [_ [_ Ems]]]]]]. destruct (Ks k' eq_refl) as [kc [rest' [-> ->]]].
      destruct (within_fin _ _ _ _ Wms Ht _ Ems) as [x [Ex Hle]]. injection Ex as <-.
      exists kc, rest'. split; [reflexivity|exact Hle].
    + destruct Erest as [_ [_ Ems]]. destruct (within_fin _ _ _ _ Wms Ht _ Ems) as [x [Ex _]]. discriminate.
Qed.

(* ---- non-vacuity: the hypotheses are satisfiable and the 3x relaxation is really reachable ---- *)
Definition ex_c (s : bool) : params :=
  mkP (Some (Fin (qc 1 100))) (Some (Fin (qc 1 100))) (Some (Fin (qc 1 100)))
      (Some (Fin (qc 1 100))) (Some (Fin (qc 1 100))) s.
Definition ex_v : params :=   (* |dE| = 3 x threshold, gradients at half, steps at threshold *)
  mkP (Some (Fin (qc 3 100))) (Some (Fin (qc 1 200))) (Some (Fin (qc 1 200)))
      (Some (Fin (qc 1 100))) (Some (Fin (qc 1 100))) false.
Example nonvacuous_relaxed_and_strict :
  construct (ex_c false) = Ok (ex_c false) /\ construct ex_v = Ok ex_v /\
  meets_criteria (ex_c false) ex_v = Ok true /\ meets_criteria (ex_c true) ex_v = Ok false /\
  are_satisfied (ex_c false) ex_v = Ok [false; true; true; true; true].
Proof. vm_compute. repeat split; reflexivity. Qed.

(* a loop that is cut by the limit: entries are naturals, every step appends, criteria never met *)
Example nonvacuous_limit :
  let far := mkP (Some PInf) (Some (Fin (qc 1 1))) (Some (Fin (qc 1 1))) (Some PInf) (Some PInf) false in
  let o := run nat (fun h => Some (length h)) (fun c => c) (fun c => c) (fun _ => Ok far)
               (fun _ => 0%nat) (fun _ => 0%nat) false (ex_c false) 3 0%nat in
  o = Done nat [3; 2; 1; 0]%nat /\
  reported nat (fun _ => Ok far) (fun _ => 0%nat) (fun _ => 0%nat) false (ex_c false) o = Ok false.
Proof. vm_compute. split; reflexivity. Qed.

(* the premise of converged_point_within_tolerances is satisfiable: two concrete entries, one satisfied constraint *)
Example nonvacuous_concrete :
  let pt e := mkCP (mkPoint (Some e) [qc 1 2; qc 1 4] (Some [qc 1 1000; qc (-1) 2000])) [qc 1 100000] in
  concrete_converged (fun y => Qcabs y) (ex_c false) [pt (qc 1 1000); pt (qc 1 500)] = Ok true.
Proof. vm_compute. reflexivity. Qed.
