(* C10/Model.v — executable model of the convergence decision and of the optimiser loop.
   Definitions only.  Everything named in gen/C10_Gen.v (num_attrs, sat_one, meets_prog,
   post_init_rejects, maxiter_rejected, iteration_of, exceeded, converged_rule, loop_body) is
   REGENERATED from /repo/autode/opt/optimisers/base.py on every run; the rest is hand-written from
   source text that the translator pins (it aborts when that text changes). *)
From Coq Require Import ZArith QArith Qcanon List Bool Arith.
From AV.lib Require Import QcInst.
From AV.C10 Require Import Base.
From AV.gen Require Import C10_Gen.
Import ListNotations.

(* ------------------------------------------------------------------ ConvergenceParams *)

(* Value * float (values.py:226-240) on the float classes; inf * 0 = nan *)
Definition ext_mul (a : ext) (f : Qc) : ext :=
  match a with
  | Fin x => Fin (x * f)%Qc
  | NaN => NaN
  | PInf => if Qcltb (Q2Qc 0) f then PInf else if Qcltb f (Q2Qc 0) then NInf else NaN
  | NInf => if Qcltb (Q2Qc 0) f then NInf else if Qcltb f (Q2Qc 0) then PInf else NaN
  end.

(* The dataclass constructor, i.e. __post_init__ (base.py:493-512).  All numbers are taken to be in the
   base units already (Ha, Ha/Å, Å) so that _to_base_units (base.py:514-529) is the identity. *)
Definition check_attr (x : option ext) : bool :=
  match x with None => true | Some e => negb (post_init_rejects e) end.
Definition construct (p : params) : result params :=
  if is_none (rms_g p) then ValueError                         (* base.py:500-503 *)
  else if forallb (fun a => check_attr (getattr p a)) num_attrs then Ok p
  else ValueError.                                              (* base.py:505-512 *)

Definition setattr (p : params) (a : attr) (x : option ext) : params :=
  match a with
  | A_abs_d_e => mkP x (rms_g p) (max_g p) (rms_s p) (max_s p) (strict p)
  | A_rms_g => mkP (abs_d_e p) x (max_g p) (rms_s p) (max_s p) (strict p)
  | A_max_g => mkP (abs_d_e p) (rms_g p) x (rms_s p) (max_s p) (strict p)
  | A_rms_s => mkP (abs_d_e p) (rms_g p) (max_g p) x (max_s p) (strict p)
  | A_max_s => mkP (abs_d_e p) (rms_g p) (max_g p) (rms_s p) x (strict p)
  end.

(* __mul__ (base.py:587-597): kwargs[attr] = getattr(self, attr) * factors[idx] for idx, attr in
   enumerate(_num_attrs) (None stays None); then the constructor is called with these keyword arguments and strict=self.strict. *)
Fixpoint mul_kwargs (self : params) (attrs : list attr) (factors : list Qc) (acc : params) : params :=
  match attrs, factors with
  | a :: ar, f :: fr =>
      mul_kwargs self ar fr (setattr acc a (option_map (fun e => ext_mul e f) (getattr self a)))
  | _, _ => acc
  end.
Definition pmul (self : params) (factors : list Qc) : result params :=
  if negb (Nat.eqb (length factors) (length num_attrs)) then AssertionError     (* base.py:589 *)
  else construct (mul_kwargs self num_attrs factors (mkP None None None None None (strict self))).

Fixpoint mapM {A B} (f : A -> result B) (l : list A) : result (list B) :=
  match l with
  | [] => Ok []
  | x :: r => bind (f x) (fun y => bind (mapM f r) (fun ys => Ok (y :: ys)))
  end.

(* are_satisfied (base.py:599-620): the translated loop body over the translated attribute list *)
Definition are_satisfied (self other : params) : result (list bool) :=
  mapM (fun a => sat_one (getattr self a) (getattr other a)) num_attrs.

Definition all (l : list bool) : bool := forallb (fun b => b) l.

(* meets_criteria (base.py:622-664): interpreter of the translated guarded-return program *)
Definition eval_test (t : test) (self other : params) : result bool :=
  match t with
  | TStrict => Ok (strict self)
  | TAllSat None => bind (are_satisfied self other) (fun l => Ok (all l))
  | TAllSat (Some f) =>
      bind (pmul self f) (fun s => bind (are_satisfied s other) (fun l => Ok (all l)))
  end.
Fixpoint run_prog (p : list stmt) (self other : params) : result bool :=
  match p with
  | [] => Ok false                       (* falling off the end returns None (falsy); never generated *)
  | SRet b :: _ => Ok b
  | SIf t b :: r => bind (eval_test t self other) (fun c => if c then Ok b else run_prog r self other)
  end.
Definition meets_criteria (self other : params) : result bool := run_prog meets_prog self other.

(* class invariant established by the constructor: set finite thresholds are not negative *)
Definition wf (p : params) : Prop := forall a t, getattr p a = Some (Fin t) -> (0 <= t)%Qc.

(* "v is within k times the threshold c" — says nothing when the criterion is unset *)
Definition within (k : Qc) (c v : option ext) : Prop :=
  forall t, c = Some (Fin t) -> exists x, v = Some (Fin x) /\ (x <= k * t)%Qc.

(* ---- decidable sufficient conditions on the TRANSLATED program (evaluated by vm_compute on meets_prog) ---- *)
Definition factors_ok (bnd : attr -> Qc) (f : list Qc) : bool :=
  Nat.eqb (length f) (length num_attrs) &&
  forallb (fun af => Qcleb (snd af) (bnd (fst af))) (combine num_attrs f).
(* stop_at_strict = true: the program is analysed for strict criteria, where `if self.strict: return False`
   ends the execution *)
Fixpoint prog_ok (stop_at_strict : bool) (bnd : attr -> Qc) (p : list stmt) : bool :=
  match p with
  | [] => true
  | SRet b :: _ => negb b
  | SIf TStrict false :: r => if stop_at_strict then true else prog_ok stop_at_strict bnd r
  | SIf TStrict true :: _ => false
  | SIf (TAllSat None) true :: r => prog_ok stop_at_strict bnd r
  | SIf (TAllSat (Some f)) true :: r => factors_ok bnd f && prog_ok stop_at_strict bnd r
  | SIf (TAllSat _) false :: r => prog_ok stop_at_strict bnd r
  end.
(* what the property allows: gradient measures are never relaxed, the others by at most 3x *)
Definition bound_of (a : attr) : Qc :=
  match a with A_rms_g | A_max_g => Q2Qc 1 | _ => qc 3 1 end.
Definition bound_strict (a : attr) : Qc := Q2Qc 1.

(* ------------------------------------------------------------------ OptimiserHistory.conv_params *)
(* base.py:1210-1245, from the last two points.  sqrtf is an oracle for np.sqrt. *)
Section ConvParams.
Variable sqrtf : Qc -> Qc.

Definition sumsq (l : list Qc) : Qc := fold_right (fun x s => x * x + s)%Qc (Q2Qc 0) l.
Definition qlen (l : list Qc) : Qc := Q2Qc (inject_Z (Z.of_nat (length l))).
Definition rms (l : list Qc) : Qc := sqrtf (sumsq l / qlen l)%Qc.            (* np.sqrt(np.mean(np.square(.))) *)
Definition maxabs (l : list Qc) : Qc := fold_right (fun x m => Qcmaxq (Qcabs x) m) (Q2Qc 0) l.  (* np.max(np.abs(.)), non-empty l *)
Fixpoint lsub (a b : list Qc) : list Qc :=
  match a, b with x :: a', y :: b' => (x - y)%Qc :: lsub a' b' | _, _ => [] end.

(* what conv_params reads from one history entry: energy, Cartesian coordinates, cart_proj_g *)
Record point := mkPoint { p_e : option Qc; p_x : list Qc; p_g : option (list Qc) }.

Definition conv_params_of (l : point) (k : option point) : result params :=
  let rg := match p_g l with Some g => Fin (rms g) | None => PInf end in          (* :1226-1231 *)
  let mg := match p_g l with Some g => Fin (maxabs g) | None => PInf end in
  match k with
  | Some k =>                                                                       (* len(self) > 1, :1233-1240 *)
      match p_e l, p_e k with
      | Some el, Some ek =>
          let dx := lsub (p_x l) (p_x k) in
          construct (mkP (Some (Fin (Qcabs (el - ek)%Qc))) (Some rg) (Some mg)
                         (Some (Fin (rms dx))) (Some (Fin (maxabs dx))) false)
      | _, _ => AssertionError                                                      (* :1236 *)
      end
  | None => construct (mkP (Some PInf) (Some rg) (Some mg) (Some PInf) (Some PInf) false)   (* :1242 *)
  end.

(* DICWithConstraints.cart_proj_g (opt/coordinates/dic.py:430-441): the gradient in the n internal
   coordinates with the inactive (= satisfied-constraint) components set to zero, mapped back by B^T.
   B is given as its list of rows (one per internal coordinate, each of Cartesian length). *)
Fixpoint mask (inactive : list nat) (k : nat) (g : list Qc) : list Qc :=
  match g with
  | [] => []
  | x :: r => (if existsb (Nat.eqb k) inactive then Q2Qc 0 else x) :: mask inactive (S k) r
  end.
Fixpoint ladd (a b : list Qc) : list Qc :=
  match a, b with x :: a', y :: b' => (x + y)%Qc :: ladd a' b' | _, _ => [] end.
Definition lscal (c : Qc) (a : list Qc) : list Qc := map (fun x => (c * x)%Qc) a.
Fixpoint bt_apply (ncart : nat) (B : list (list Qc)) (gs : list Qc) : list Qc :=     (* B^T g_s *)
  match B, gs with
  | row :: Br, g :: gr => ladd (lscal g row) (bt_apply ncart Br gr)
  | _, _ => repeat (Q2Qc 0) ncart
  end.
Definition cart_proj_g (ncart : nat) (B : list (list Qc)) (inactive : list nat) (g_s : list Qc) : list Qc :=
  bt_apply ncart B (mask inactive 0 (firstn (length B) g_s)).
End ConvParams.

(* InternalCoordinates.n_constraints / n_satisfied_constraints (opt/coordinates/internals.py:67-81, pinned):
   one entry per constrained primitive, delta = observed - required value (primitives.py:185-190);
   is_satisfied is translated (constraint_satisfied, constraint_tol). *)
Definition n_constraints_of (deltas : list Qc) : nat := length deltas.
Definition n_satisfied_of (deltas : list Qc) : nat :=
  length (filter (fun d => constraint_satisfied d constraint_tol) deltas).

(* ------------------------------------------------------------------ the optimiser loop *)
(* Optimiser.run (base.py:122-177) after _initialise_run.  The history is kept newest-first:
   head = OptimiserHistory.final, length = len(history).  _step, the gradient evaluation, the callback,
   the constraint counters and conv_params are ARBITRARY functions (section variables). *)
Section Loop.
Variable entry : Type.
Variable step : list entry -> option entry.     (* _step: the coordinates assigned to self._coords (appended
                                                   by the setter, base.py:339-361); None = null step which
                                                   assigns nothing (rfo.py:124-125) *)
Variable evalg : entry -> entry.                (* _update_gradient_and_energy: sets e and g of history.final *)
Variable cb : entry -> entry.                   (* user callback, receives (and may modify) history.final *)
Variable conv_params : list entry -> result params.
Variable n_constraints n_satisfied : entry -> nat.
Variable single_atom : bool.                    (* self._species.n_atoms == 1 *)
Variable tol : params.                          (* self.conv_tol *)
Variable maxiter : nat.                         (* self._maxiter *)

Definition hist := list entry.
Definition iteration (h : hist) : nat := iteration_of (length h).

(* NDOptimiser.converged (base.py:786-805) *)
Definition converged (h : hist) : result bool :=
  match h with
  | [] => if single_atom then Ok true else AssertionError        (* self._coords is None, :799 *)
  | c :: _ => converged_rule single_atom (n_constraints c) (n_satisfied c) (conv_params h)
                             (meets_criteria tol)
  end.

Definition on_final (f : entry -> entry) (h : hist) : hist :=
  match h with c :: r => f c :: r | [] => [] end.
Definition op_callback (h : hist) : hist := on_final cb h.
Definition op_step (h : hist) : hist := match step h with Some c => c :: h | None => h end.
Definition op_update (h : hist) : hist := on_final evalg h.
Definition op_log (h : hist) : hist := h.
Definition exceeded_now (h : hist) : bool := exceeded (iteration h) maxiter.

Inductive outcome :=
| Done (h : hist)        (* the while loop was left (converged, or break at the limit) *)
| Raised (h : hist)      (* `converged` raised an exception *)
| OutOfFuel (h : hist).  (* model artefact: more than `fuel` passes *)

Fixpoint loop (fuel : nat) (h : hist) : outcome :=
  match converged h with
  | Ok true => Done h
  | Ok false =>
      match fuel with
      | O => OutOfFuel h
      | S f =>
          let hb := loop_body op_callback op_step op_update op_log exceeded_now h in
          if snd hb then Done (fst hb) else loop f (fst hb)
      end
  | _ => Raised h
  end.

Definition final_hist (o : outcome) : hist :=
  match o with Done h | Raised h | OutOfFuel h => h end.
(* what the user reads after run(): optimiser.converged on the final history *)
Definition reported (o : outcome) : result bool := converged (final_hist o).

(* run: after _initialise_run the history holds the start point with its gradient, on top of whatever the
   constructor put there: Optimiser.__init__ (base.py:88-90) appends the documented `coords=` argument, so
   pre = [] (default) or [user coordinates, not evaluated].  fuel = maxiter *)
Definition run_with (pre : hist) (c0 : entry) : outcome := loop maxiter (evalg c0 :: pre).
Definition run (c0 : entry) : outcome := run_with [] c0.

(* The species object next to the history: only _update_gradient_and_energy (base.py:225-263) writes it — the
   coordinates, energy and gradient of the entry it evaluates (snap); callback, _step, logging and the limit
   test leave it alone.  Same translated loop body, on pairs. *)
Variable Sp : Type.
Variable snap : entry -> Sp.
Definition st := (hist * Sp)%type.
Definition op_callback2 (x : st) : st := (op_callback (fst x), snd x).
Definition op_step2 (x : st) : st := (op_step (fst x), snd x).
Definition op_update2 (x : st) : st :=
  let h' := op_update (fst x) in (h', match h' with c :: _ => snap c | [] => snd x end).
Definition op_log2 (x : st) : st := x.
Definition exceeded_now2 (x : st) : bool := exceeded_now (fst x).
Fixpoint loop2 (fuel : nat) (x : st) : st :=
  match converged (fst x) with
  | Ok false =>
      match fuel with
      | O => x
      | S f =>
          let xb := loop_body op_callback2 op_step2 op_update2 op_log2 exceeded_now2 x in
          if snd xb then fst xb else loop2 f (fst xb)
      end
  | _ => x
  end.
End Loop.

(* ------------------------------------------------------------------ the loop on concrete points *)
(* history entries carrying what conv_params and the constraint counters read: the point (energy, Cartesian
   coordinates, projected gradient) and one deviation per constrained primitive *)
Record cpoint := mkCP { cp_pt : point; cp_deltas : list Qc }.
Section Concrete.
Variable sqrtf : Qc -> Qc.
Definition concrete_conv (h : list cpoint) : result params :=
  match h with
  | l :: k :: _ => conv_params_of sqrtf (cp_pt l) (Some (cp_pt k))
  | [l] => conv_params_of sqrtf (cp_pt l) None
  | [] => AssertionError
  end.
Definition concrete_converged (tol : params) (h : list cpoint) : result bool :=
  converged cpoint concrete_conv (fun c => n_constraints_of (cp_deltas c))
            (fun c => n_satisfied_of (cp_deltas c)) false tol h.
End Concrete.
