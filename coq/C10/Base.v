(* C10/Base.v — the types the generated model (gen/C10_Gen.v) is written in.
   Source: autode/opt/optimisers/base.py (ConvergenceParams :463-664, Optimiser.run :122-177,
   NDOptimiser.converged :786-805, _exceeded_maximum_iteration :420-438). *)
From Coq Require Import ZArith QArith Qcanon List Bool.
From AV.lib Require Import QcInst.
Import ListNotations.

(* A Python float as it can occur in a ConvergenceParams field: a finite number, +inf
   (OptimiserHistory.conv_params uses np.inf for "no previous point"/"no gradient", base.py:1231,1242)
   or nan.  -inf can only arise transiently (inf * negative factor in __mul__) and is then rejected by
   __post_init__ (-inf < 0).  *)
Inductive ext := Fin (q : Qc) | PInf | NInf | NaN.

(* the dataclass (base.py:481-486): five optional numbers and the strict flag *)
Record params := mkP {
  abs_d_e : option ext; rms_g : option ext; max_g : option ext;
  rms_s : option ext; max_s : option ext; strict : bool }.

Inductive attr := A_abs_d_e | A_rms_g | A_max_g | A_rms_s | A_max_s.

Definition getattr (p : params) (a : attr) : option ext :=
  match a with
  | A_abs_d_e => abs_d_e p | A_rms_g => rms_g p | A_max_g => max_g p
  | A_rms_s => rms_s p | A_max_s => max_s p
  end.

(* outcome of a Python call: a value or the exception class that is raised *)
Inductive result (A : Type) :=
| Ok (a : A) | ValueError | TypeError | AssertionError.
Arguments Ok {A} a. Arguments ValueError {A}. Arguments TypeError {A}. Arguments AssertionError {A}.

Definition bind {A B} (r : result A) (f : A -> result B) : result B :=
  match r with Ok a => f a | ValueError => ValueError | TypeError => TypeError
             | AssertionError => AssertionError end.

(* float(x): float(None) raises TypeError *)
Definition pyfloat (x : option ext) : result ext :=
  match x with Some e => Ok e | None => TypeError end.

(* IEEE comparisons on ext (every comparison with nan is False) *)
Definition ext_leb (a b : ext) : bool :=
  match a, b with
  | NaN, _ | _, NaN => false
  | NInf, _ => true
  | _, PInf => true
  | Fin x, Fin y => Qcleb x y
  | _, _ => false
  end.
Definition ext_ltb (a b : ext) : bool :=
  match a, b with
  | NaN, _ | _, NaN => false
  | PInf, _ => false
  | _, NInf => false
  | Fin x, Fin y => Qcltb x y
  | _, _ => true
  end.
Definition le_r (a b : result ext) : result bool := bind a (fun x => bind b (fun y => Ok (ext_leb x y))).
Definition lt_r (a b : result ext) : result bool := bind a (fun x => bind b (fun y => Ok (ext_ltb x y))).
Definition ge_r (a b : result ext) : result bool := bind a (fun x => bind b (fun y => Ok (ext_leb y x))).
Definition gt_r (a b : result ext) : result bool := bind a (fun x => bind b (fun y => Ok (ext_ltb y x))).
Definition is_none {A} (x : option A) : bool := match x with None => true | Some _ => false end.

(* meets_criteria as a straight-line program of guarded returns (translated statement by statement):
     SIf (TAllSat None)     b   ~  if all(self.are_satisfied(other)): return b
     SIf (TAllSat (Some f)) b   ~  if all((self * f).are_satisfied(other)): return b
     SIf TStrict b              ~  if self.strict: return b
     SRet b                     ~  return b                                              *)
Inductive test := TAllSat (f : option (list Qc)) | TStrict.
Inductive stmt := SIf (t : test) (ret : bool) | SRet (ret : bool).
