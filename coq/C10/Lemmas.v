(* C10/Lemmas.v — lemmas about the model (coq/C10/Model.v) over the REGENERATED definitions
   of gen/C10_Gen.v.  No axioms. *)
From Coq Require Import ZArith QArith Qcanon List Bool Arith Lia.
From AV.lib Require Import QcInst.
From AV.C10 Require Import Base Model.
From AV.gen Require Import C10_Gen.
Import ListNotations.
Open Scope Qc_scope.

(* ------------------------------------------------------------------ order facts on Qc *)
Lemma Qcleb_le a b : Qcleb a b = true <-> a <= b.
Proof. unfold Qcleb, Qcle. apply Qle_bool_iff. Qed.

Lemma Qcltb_lt a b : Qcltb a b = true <-> a < b.
Proof.
  unfold Qcltb, Qclt. rewrite negb_true_iff. split.
  - intros H. apply Qnot_le_lt. intros Hle. apply Qle_bool_iff in Hle. congruence.
  - intros H. destruct (Qle_bool b a) eqn:E; [|reflexivity].
    apply Qle_bool_iff in E. exfalso. apply (Qlt_not_le _ _ H). exact E.
Qed.

Lemma Qcltb_false_le a b : Qcltb a b = false -> b <= a.
Proof.
  intros H. destruct (Qclt_le_dec a b) as [L|L]; [|exact L].
  apply Qcltb_lt in L. congruence.
Qed.

Lemma Qcleb_false_lt a b : Qcleb a b = false -> b < a.
Proof.
  intros H. destruct (Qclt_le_dec b a) as [L|L]; [exact L|].
  apply Qcleb_le in L. congruence.
Qed.

Lemma Qcle_refl' a : a <= a. Proof. apply Qcle_refl. Qed.

Lemma zero_le_one : (0 : Qc) <= Q2Qc 1.
Proof. apply Qcleb_le. reflexivity. Qed.

Lemma scaled_bound x t f b : x <= t * f -> f <= b -> 0 <= t -> x <= b * t.
Proof.
  intros Hx Hf Ht. apply (Qcle_trans _ (t * f)); [exact Hx|].
  rewrite (Qcmult_comm t f). apply Qcmult_le_compat_r; assumption.
Qed.

Lemma unscaled_bound x t b : x <= t -> Q2Qc 1 <= b -> 0 <= t -> x <= b * t.
Proof.
  intros Hx Hb Ht. apply (scaled_bound x t (Q2Qc 1) b); [|exact Hb|exact Ht].
  replace (t * Q2Qc 1) with t by ring. exact Hx.
Qed.

Lemma Qcopp_nonneg x : x <= 0 -> 0 <= - x.
Proof. intros H. apply Qcopp_le_compat in H. replace (- 0) with (0 : Qc) in H by ring. exact H. Qed.

Lemma Qcnonneg_iff x : Qcnonneg x = true <-> 0 <= x.
Proof. unfold Qcnonneg, Qcle. apply Qle_bool_iff. Qed.

Lemma Qcabs_nonneg x : 0 <= Qcabs x.
Proof.
  unfold Qcabs. destruct (Qcnonneg x) eqn:E.
  - apply Qcnonneg_iff. exact E.
  - apply Qcopp_nonneg. destruct (Qclt_le_dec x 0) as [L|L]; [apply Qclt_le_weak; exact L|].
    apply Qcnonneg_iff in L. congruence.
Qed.

Lemma Qcabs_bounds x t : Qcabs x <= t -> - t <= x /\ x <= t.
Proof.
  unfold Qcabs. destruct (Qcnonneg x) eqn:E; intros H.
  - apply Qcnonneg_iff in E. split; [|exact H].
    apply (Qcle_trans _ 0); [|exact E].
    assert (T : 0 <= t) by (apply (Qcle_trans _ x); assumption).
    apply Qcopp_le_compat in T. replace (- 0) with (0 : Qc) in T by ring. exact T.
  - assert (L : x <= 0).
    { destruct (Qclt_le_dec x 0) as [L|L]; [apply Qclt_le_weak; exact L|].
      apply Qcnonneg_iff in L. congruence. }
    split.
    + apply Qcopp_le_compat in H. replace (- - x) with x in H by ring. exact H.
    + apply (Qcle_trans _ 0); [exact L|]. apply (Qcle_trans _ (- x)); [apply Qcopp_nonneg; exact L|exact H].
Qed.

Lemma Qcmaxq_l a b : a <= Qcmaxq a b.
Proof.
  unfold Qcmaxq. destruct (Qcleb a b) eqn:E; [apply Qcleb_le; exact E|apply Qcle_refl].
Qed.
Lemma Qcmaxq_r a b : b <= Qcmaxq a b.
Proof.
  unfold Qcmaxq. destruct (Qcleb a b) eqn:E; [apply Qcle_refl|].
  apply Qclt_le_weak. apply Qcleb_false_lt. exact E.
Qed.

(* ------------------------------------------------------------------ the generated tables *)
(* the attribute list the index-based factor lists refer to *)
Lemma num_attrs_std : num_attrs = [A_abs_d_e; A_rms_g; A_max_g; A_rms_s; A_max_s].
Proof. reflexivity. Qed.

Lemma in_num_attrs a : In a num_attrs.
Proof. rewrite num_attrs_std. destruct a; cbn; tauto. Qed.

(* ------------------------------------------------------------------ constructor *)
Definition valid (p : params) : Prop := construct p = Ok p.

Lemma construct_inv p p' : construct p = Ok p' ->
  p' = p /\ rms_g p <> None /\ forall a e, getattr p a = Some e -> post_init_rejects e = false.
Proof.
  unfold construct. destruct (rms_g p) as [r|] eqn:R; cbn [is_none]; [|discriminate].
  destruct (forallb _ num_attrs) eqn:F; [|discriminate].
  intros H. injection H as <-. split; [reflexivity|]. split; [discriminate|].
  intros a e Ha. rewrite forallb_forall in F. specialize (F a (in_num_attrs a)).
  unfold check_attr in F. rewrite Ha in F. apply negb_true_iff in F. exact F.
Qed.

(* what the (translated) sanity test guarantees about an accepted number *)
Lemma accepted_fin t : post_init_rejects (Fin t) = false -> 0 <= t.
Proof.
  unfold post_init_rejects. cbn [ext_ltb negb].
  first [ intros H; apply Qcltb_false_le; exact H
        | intros H; apply negb_false_iff in H; apply Qclt_le_weak, Qcltb_lt; exact H ].
Qed.
Lemma accepted_not_ninf : post_init_rejects NInf = true.
Proof. reflexivity. Qed.

Lemma valid_wf p : valid p -> wf p.
Proof.
  intros V a t Ha. destruct (construct_inv _ _ V) as [_ [_ H]]. apply accepted_fin. exact (H a _ Ha).
Qed.
Lemma valid_no_ninf p a : valid p -> getattr p a <> Some NInf.
Proof.
  intros V Ha. destruct (construct_inv _ _ V) as [_ [_ H]]. specialize (H a _ Ha).
  rewrite accepted_not_ninf in H. discriminate.
Qed.

(* zero and +inf are legitimate values of a measure: every record of non-negative numbers (with rms_g
   set) is accepted by the constructor *)
Definition legit (e : ext) : Prop := e = PInf \/ exists x, e = Fin x /\ 0 <= x.
Lemma legit_accepted e : legit e -> post_init_rejects e = false.
Proof.
  intros [->|[x [-> Hx]]]; [reflexivity|].
  unfold post_init_rejects. cbn [ext_ltb].
  destruct (Qcltb x (Q2Qc 0)) eqn:E; [|reflexivity].
  apply Qcltb_lt in E. exfalso. apply (Qcle_not_lt _ _ Hx). exact E.
Qed.
Lemma construct_legit p :
  rms_g p <> None -> (forall a e, getattr p a = Some e -> legit e) -> construct p = Ok p.
Proof.
  intros R L. unfold construct. destruct (rms_g p) eqn:E; [|congruence]. cbn [is_none].
  assert (F : forallb (fun a => check_attr (getattr p a)) num_attrs = true).
  { apply forallb_forall. intros a _. unfold check_attr. destruct (getattr p a) as [e'|] eqn:G; [|reflexivity].
    rewrite (legit_accepted e' (L a e' G)). reflexivity. }
  rewrite F. reflexivity.
Qed.

(* ------------------------------------------------------------------ are_satisfied *)
Lemma mapM_all {A} (g : A -> result bool) l bs :
  mapM g l = Ok bs -> all bs = true -> forall a, In a l -> g a = Ok true.
Proof.
  revert bs. induction l as [|x r IH]; intros bs H Hall a Ha; [destruct Ha|].
  cbn [mapM] in H. destruct (g x) as [y| | |] eqn:Gx; cbn [bind] in H; try discriminate.
  destruct (mapM g r) as [ys| | |] eqn:Gr; cbn [bind] in H; try discriminate.
  injection H as <-. unfold all in Hall. cbn [forallb] in Hall. apply andb_true_iff in Hall.
  destruct Hall as [Hy Hys]. destruct Ha as [<-|Ha]; [rewrite Gx, Hy; reflexivity|].
  exact (IH ys eq_refl Hys a Ha).
Qed.

Lemma mapM_length {A B} (g : A -> result B) l bs : mapM g l = Ok bs -> length bs = length l.
Proof.
  revert bs. induction l as [|x r IH]; intros bs H; cbn [mapM] in H.
  - injection H as <-. reflexivity.
  - destruct (g x); cbn [bind] in H; try discriminate.
    destruct (mapM g r) eqn:Gr; cbn [bind] in H; try discriminate.
    injection H as <-. cbn [length]. f_equal. apply IH. reflexivity.
Qed.

(* one attribute judged satisfied: the measured number is finite and not above the (finite) threshold.
   Written so that it goes through for `<=` and for `<` in the translated comparison. *)
Lemma sat_one_sound c v : sat_one c v = Ok true -> v <> Some NInf ->
  forall t, c = Some (Fin t) -> exists x, v = Some (Fin x) /\ x <= t.
Proof.
  intros H Hn t ->. unfold sat_one in H. cbn [is_none pyfloat] in H.
  destruct v as [[x| | |]|]; cbn in H; try discriminate; try congruence.
  exists x. split; [reflexivity|]. injection H as H.
  first [ apply Qcleb_le; exact H | apply Qclt_le_weak, Qcltb_lt; exact H ].
Qed.

(* an unset criterion is judged satisfied whatever was measured (even nothing) *)
Lemma sat_one_unset v : sat_one None v = Ok true.
Proof. reflexivity. Qed.

Lemma are_satisfied_all self other bs :
  are_satisfied self other = Ok bs -> all bs = true ->
  forall a, sat_one (getattr self a) (getattr other a) = Ok true.
Proof.
  intros H Hall a. exact (mapM_all _ _ _ H Hall a (in_num_attrs a)).
Qed.

(* ------------------------------------------------------------------ __mul__ *)
Lemma pmul_inv self f s : pmul self f = Ok s ->
  exists f0 f1 f2 f3 f4, f = [f0; f1; f2; f3; f4] /\
    abs_d_e s = option_map (fun e => ext_mul e f0) (abs_d_e self) /\
    rms_g s = option_map (fun e => ext_mul e f1) (rms_g self) /\
    max_g s = option_map (fun e => ext_mul e f2) (max_g self) /\
    rms_s s = option_map (fun e => ext_mul e f3) (rms_s self) /\
    max_s s = option_map (fun e => ext_mul e f4) (max_s self) /\
    strict s = strict self.
Proof.
  unfold pmul. rewrite num_attrs_std.
  destruct f as [|f0 [|f1 [|f2 [|f3 [|f4 [|f5 r]]]]]]; cbn [length Nat.eqb negb]; try discriminate.
  intros H. apply construct_inv in H. destruct H as [-> _].
  exists f0, f1, f2, f3, f4. cbn. repeat split; reflexivity.
Qed.

(* ------------------------------------------------------------------ meets_criteria *)
Definition within_all (bnd : attr -> Qc) (self other : params) : Prop :=
  forall a, within (bnd a) (getattr self a) (getattr other a).

Lemma factors_ok_inv bnd f0 f1 f2 f3 f4 : factors_ok bnd [f0; f1; f2; f3; f4] = true ->
  f0 <= bnd A_abs_d_e /\ f1 <= bnd A_rms_g /\ f2 <= bnd A_max_g /\ f3 <= bnd A_rms_s /\ f4 <= bnd A_max_s.
Proof.
  unfold factors_ok. rewrite num_attrs_std. cbn [length Nat.eqb combine forallb fst snd andb].
  intros H. repeat (apply andb_true_iff in H; destruct H as [?H H]).
  repeat split; apply Qcleb_le; assumption.
Qed.

Lemma allsat_plain bnd self other :
  (forall a, Q2Qc 1 <= bnd a) -> wf self -> (forall a, getattr other a <> Some NInf) ->
  eval_test (TAllSat None) self other = Ok true -> within_all bnd self other.
Proof.
  intros Hb Hw Hn H. cbn [eval_test] in H.
  destruct (are_satisfied self other) as [bs| | |] eqn:Hs; cbn [bind] in H; try discriminate.
  injection H as Hall. intros a t Ht.
  destruct (sat_one_sound _ _ (are_satisfied_all _ _ _ Hs Hall a) (Hn a) t Ht) as [x [Hx Hle]].
  exists x. split; [exact Hx|]. apply unscaled_bound; [exact Hle|apply Hb|exact (Hw a t Ht)].
Qed.

Lemma allsat_scaled bnd f self other :
  factors_ok bnd f = true -> wf self -> (forall a, getattr other a <> Some NInf) ->
  eval_test (TAllSat (Some f)) self other = Ok true -> within_all bnd self other.
Proof.
  intros Hf Hw Hn H. cbn [eval_test] in H.
  destruct (pmul self f) as [s| | |] eqn:Hp; cbn [bind] in H; try discriminate.
  destruct (are_satisfied s other) as [bs| | |] eqn:Hs; cbn [bind] in H; try discriminate.
  injection H as Hall.
  destruct (pmul_inv _ _ _ Hp) as [f0 [f1 [f2 [f3 [f4 [-> [E0 [E1 [E2 [E3 [E4 _]]]]]]]]]]].
  destruct (factors_ok_inv _ _ _ _ _ _ Hf) as [B0 [B1 [B2 [B3 B4]]]].
  pose proof (are_satisfied_all _ _ _ Hs Hall) as S.
  intros a t Ht.
  assert (T : 0 <= t) by exact (Hw a t Ht).
  clear S. destruct a; cbn [getattr] in Ht |- *.
  - pose proof (are_satisfied_all _ _ _ Hs Hall A_abs_d_e) as Sa. cbn [getattr] in Sa.
    rewrite E0, Ht in Sa. cbn [option_map ext_mul] in Sa.
    destruct (sat_one_sound _ _ Sa (Hn A_abs_d_e) _ eq_refl) as [x [Hx Hle]].
    exists x. split; [exact Hx|]. exact (scaled_bound _ _ _ _ Hle B0 T).
  - pose proof (are_satisfied_all _ _ _ Hs Hall A_rms_g) as Sa. cbn [getattr] in Sa.
    rewrite E1, Ht in Sa. cbn [option_map ext_mul] in Sa.
    destruct (sat_one_sound _ _ Sa (Hn A_rms_g) _ eq_refl) as [x [Hx Hle]].
    exists x. split; [exact Hx|]. exact (scaled_bound _ _ _ _ Hle B1 T).
  - pose proof (are_satisfied_all _ _ _ Hs Hall A_max_g) as Sa. cbn [getattr] in Sa.
    rewrite E2, Ht in Sa. cbn [option_map ext_mul] in Sa.
    destruct (sat_one_sound _ _ Sa (Hn A_max_g) _ eq_refl) as [x [Hx Hle]].
    exists x. split; [exact Hx|]. exact (scaled_bound _ _ _ _ Hle B2 T).
  - pose proof (are_satisfied_all _ _ _ Hs Hall A_rms_s) as Sa. cbn [getattr] in Sa.
    rewrite E3, Ht in Sa. cbn [option_map ext_mul] in Sa.
    destruct (sat_one_sound _ _ Sa (Hn A_rms_s) _ eq_refl) as [x [Hx Hle]].
    exists x. split; [exact Hx|]. exact (scaled_bound _ _ _ _ Hle B3 T).
  - pose proof (are_satisfied_all _ _ _ Hs Hall A_max_s) as Sa. cbn [getattr] in Sa.
    rewrite E4, Ht in Sa. cbn [option_map ext_mul] in Sa.
    destruct (sat_one_sound _ _ Sa (Hn A_max_s) _ eq_refl) as [x [Hx Hle]].
    exists x. split; [exact Hx|]. exact (scaled_bound _ _ _ _ Hle B4 T).
Qed.

(* soundness of the decidable program check: whenever the translated program answers True, every set
   criterion is met within its bound *)
Lemma run_prog_sound sm bnd self other :
  (forall a, Q2Qc 1 <= bnd a) -> wf self -> (forall a, getattr other a <> Some NInf) ->
  (sm = true -> strict self = true) ->
  forall p, prog_ok sm bnd p = true -> run_prog p self other = Ok true -> within_all bnd self other.
Proof.
  intros Hb Hw Hn Hsm p. induction p as [|st r IH]; intros Hok H; [discriminate|].
  destruct st as [t b|b].
  - cbn [run_prog] in H. destruct (eval_test t self other) as [c| | |] eqn:Et; cbn [bind] in H; try discriminate.
    destruct t as [[f|]|]; destruct b; cbn [prog_ok] in Hok.
    + apply andb_true_iff in Hok. destruct Hok as [Hf Hr]. destruct c.
      * exact (allsat_scaled _ _ _ _ Hf Hw Hn Et).
      * exact (IH Hr H).
    + destruct c; [discriminate|exact (IH Hok H)].
    + destruct c; [exact (allsat_plain _ _ _ Hb Hw Hn Et)|exact (IH Hok H)].
    + destruct c; [discriminate|exact (IH Hok H)].
    + discriminate.
    + destruct c; [discriminate|]. cbn [eval_test] in Et. injection Et as Es.
      destruct sm; [rewrite (Hsm eq_refl) in Es; discriminate|exact (IH Hok H)].
  - cbn [run_prog] in H. cbn [prog_ok] in Hok. destruct b; [discriminate|discriminate].
Qed.

(* the two sweeps over the translated program (finite generated table) *)
Lemma meets_prog_ok : prog_ok false bound_of meets_prog = true.
Proof. vm_compute. reflexivity. Qed.
Lemma meets_prog_ok_strict : prog_ok true bound_strict meets_prog = true.
Proof. vm_compute. reflexivity. Qed.

Lemma bound_of_ge1 a : Q2Qc 1 <= bound_of a.
Proof. destruct a; apply Qcleb_le; reflexivity. Qed.
Lemma bound_strict_ge1 a : Q2Qc 1 <= bound_strict a.
Proof. apply Qcleb_le. reflexivity. Qed.

(* changing the measured value of an attribute whose criterion is unset never changes the answer *)
Lemma sat_list_indep self other other' :
  (forall a, getattr self a = None \/ getattr other a = getattr other' a) ->
  are_satisfied self other = are_satisfied self other'.
Proof.
  intros H. unfold are_satisfied. induction num_attrs as [|a r IH]; [reflexivity|].
  cbn [mapM]. rewrite IH. destruct (H a) as [E|E]; [rewrite E; reflexivity|rewrite E; reflexivity].
Qed.

Lemma mul_kwargs_none self : forall attrs factors acc a,
  getattr self a = None -> getattr acc a = None ->
  getattr (mul_kwargs self attrs factors acc) a = None.
Proof.
  induction attrs as [|b r IH]; intros factors acc a Hs Ha; [exact Ha|].
  destruct factors as [|f fr]; [exact Ha|]. cbn [mul_kwargs]. apply IH; [exact Hs|].
  destruct a, b; cbn [setattr getattr] in *; try assumption; rewrite Hs; reflexivity.
Qed.

Lemma pmul_unset self f s a : pmul self f = Ok s -> getattr self a = None -> getattr s a = None.
Proof.
  unfold pmul. destruct (negb _); [discriminate|]. intros H Ha.
  apply construct_inv in H. destruct H as [-> _]. apply mul_kwargs_none; [exact Ha|].
  destruct a; reflexivity.
Qed.

Lemma eval_test_indep t self other other' :
  (forall a, getattr self a = None \/ getattr other a = getattr other' a) ->
  eval_test t self other = eval_test t self other'.
Proof.
  intros H. destruct t as [[f|]|]; cbn [eval_test]; [| |reflexivity].
  - destruct (pmul self f) as [s| | |] eqn:Hp; cbn [bind]; try reflexivity.
    rewrite (sat_list_indep s other other'); [reflexivity|].
    intros a. destruct (H a) as [E|E]; [left; exact (pmul_unset _ _ _ _ Hp E)|right; exact E].
  - rewrite (sat_list_indep self other other' H). reflexivity.
Qed.

Lemma run_prog_indep p self other other' :
  (forall a, getattr self a = None \/ getattr other a = getattr other' a) ->
  run_prog p self other = run_prog p self other'.
Proof.
  intros H. induction p as [|[t b|b] r IH]; [reflexivity| |reflexivity].
  cbn [run_prog]. rewrite (eval_test_indep t _ _ _ H). rewrite IH. reflexivity.
Qed.

(* ------------------------------------------------------------------ conv_params *)
Section ConvParamsLemmas.
Variable sqrtf : Qc -> Qc.
Hypothesis sqrtf_nonneg : forall y, 0 <= sqrtf y.

Lemma maxabs_nonneg l : 0 <= maxabs l.
Proof.
  induction l as [|x r IH]; [apply Qcle_refl|]. cbn [maxabs fold_right].
  apply (Qcle_trans _ (Qcabs x)); [apply Qcabs_nonneg|apply Qcmaxq_l].
Qed.

Lemma maxabs_ge l x : In x l -> Qcabs x <= maxabs l.
Proof.
  induction l as [|y r IH]; intros H; [destruct H|]. cbn [maxabs fold_right].
  destruct H as [->|H]; [apply Qcmaxq_l|].
  apply (Qcle_trans _ (maxabs r)); [exact (IH H)|apply Qcmaxq_r].
Qed.

Lemma rms_nonneg l : 0 <= rms sqrtf l.
Proof. unfold rms. apply sqrtf_nonneg. Qed.

(* conv_params never raises ValueError: RMS, max|.| and |dE| are non-negative (possibly ZERO) numbers or
   +inf, which the constructor accepts *)
Lemma conv_params_of_ok l k :
  p_e l <> None -> (forall k', k = Some k' -> p_e k' <> None) ->
  exists p, conv_params_of sqrtf l k = Ok p /\ valid p /\ strict p = false /\
    (forall a, exists e, getattr p a = Some e /\ legit e).
Proof.
  intros El Ek. unfold conv_params_of.
  set (rg := match p_g l with Some g => Fin (rms sqrtf g) | None => PInf end).
  set (mg := match p_g l with Some g => Fin (maxabs g) | None => PInf end).
  assert (Lrg : legit rg).
  { unfold rg. destruct (p_g l); [right; eexists; split; [reflexivity|apply rms_nonneg]|left; reflexivity]. }
  assert (Lmg : legit mg).
  { unfold mg. destruct (p_g l); [right; eexists; split; [reflexivity|apply maxabs_nonneg]|left; reflexivity]. }
  destruct k as [k|].
  - destruct (p_e l) as [el|]; [|congruence]. specialize (Ek k eq_refl).
    destruct (p_e k) as [ek|]; [|congruence].
    eexists. split; [apply construct_legit|split; [apply construct_legit|split; [reflexivity|]]].
    1,3: discriminate.
    1,2: intros a e; destruct a; cbn [getattr abs_d_e rms_g max_g rms_s max_s]; intros G; injection G as <-;
         first [assumption | right; eexists; split; [reflexivity|first [apply Qcabs_nonneg|apply rms_nonneg|apply maxabs_nonneg]]].
    intros a. destruct a; cbn [getattr abs_d_e rms_g max_g rms_s max_s]; eexists; (split; [reflexivity|]);
      first [assumption | right; eexists; split; [reflexivity|first [apply Qcabs_nonneg|apply rms_nonneg|apply maxabs_nonneg]]].
  - eexists. split; [apply construct_legit|split; [apply construct_legit|split; [reflexivity|]]].
    1,3: discriminate.
    1,2: intros a e; destruct a; cbn [getattr abs_d_e rms_g max_g rms_s max_s]; intros G; injection G as <-;
         first [assumption | left; reflexivity].
    intros a. destruct a; cbn [getattr abs_d_e rms_g max_g rms_s max_s]; eexists; (split; [reflexivity|]);
      first [assumption | left; reflexivity].
Qed.
(* what an accepted result of conv_params holds *)
Lemma conv_params_of_inv l k v : conv_params_of sqrtf l k = Ok v ->
  construct v = Ok v /\
  rms_g v = Some (match p_g l with Some g => Fin (rms sqrtf g) | None => PInf end) /\
  max_g v = Some (match p_g l with Some g => Fin (maxabs g) | None => PInf end) /\
  match k with
  | Some k' => exists el ek, p_e l = Some el /\ p_e k' = Some ek /\
                 abs_d_e v = Some (Fin (Qcabs (el - ek))) /\
                 rms_s v = Some (Fin (rms sqrtf (lsub (p_x l) (p_x k')))) /\
                 max_s v = Some (Fin (maxabs (lsub (p_x l) (p_x k'))))
  | None => abs_d_e v = Some PInf /\ rms_s v = Some PInf /\ max_s v = Some PInf
  end.
Proof.
  unfold conv_params_of. destruct k as [k'|].
  - destruct (p_e l) as [el|]; [|discriminate]. destruct (p_e k') as [ek|]; [|discriminate].
    intros H. pose proof H as H'. apply construct_inv in H. destruct H as [-> _].
    split; [exact H'|]. cbn [rms_g max_g abs_d_e rms_s max_s]. split; [reflexivity|]. split; [reflexivity|].
    exists el, ek. repeat split; reflexivity.
  - intros H. pose proof H as H'. apply construct_inv in H. destruct H as [-> _].
    split; [exact H'|]. cbn [rms_g max_g abs_d_e rms_s max_s]. repeat split; reflexivity.
Qed.
End ConvParamsLemmas.

(* masking: components of the internal gradient at inactive indexes do not reach cart_proj_g *)
Lemma mask_ext inactive : forall g g' k,
  length g = length g' ->
  (forall i, ~ In (k + i)%nat inactive -> nth i g (Q2Qc 0) = nth i g' (Q2Qc 0)) ->
  mask inactive k g = mask inactive k g'.
Proof.
  induction g as [|x r IH]; intros g' k Hl H; destruct g' as [|y r']; try discriminate; [reflexivity|].
  cbn [mask]. f_equal.
  - destruct (existsb (Nat.eqb k) inactive) eqn:E; [reflexivity|].
    specialize (H 0%nat). rewrite Nat.add_0_r in H. cbn [nth] in H. apply H.
    intros Hin. assert (existsb (Nat.eqb k) inactive = true); [|congruence].
    apply existsb_exists. exists k. split; [exact Hin|apply Nat.eqb_refl].
  - apply IH; [cbn [length] in Hl; lia|].
    intros i Hi. specialize (H (S i)). cbn [nth] in H. apply H.
    replace (k + S i)%nat with (S k + i)%nat by lia. exact Hi.
Qed.

Lemma nth_firstn {A} (l : list A) d : forall m i, (i < m)%nat -> nth i (firstn m l) d = nth i l d.
Proof.
  induction l as [|x r IH]; intros m i Hi; [rewrite firstn_nil; reflexivity|].
  destruct m; [lia|]. cbn [firstn]. destruct i; [reflexivity|]. cbn [nth]. apply IH. lia.
Qed.

Lemma cart_proj_g_masks ncart B inactive g g' :
  length g = length g' ->
  (forall i, ~ In i inactive -> nth i g (Q2Qc 0) = nth i g' (Q2Qc 0)) ->
  cart_proj_g ncart B inactive g = cart_proj_g ncart B inactive g'.
Proof.
  intros Hl H. unfold cart_proj_g. f_equal. apply mask_ext.
  - rewrite !firstn_length. lia.
  - intros i Hi. cbn [Nat.add] in Hi.
    destruct (Nat.lt_ge_cases i (length B)) as [L|L].
    + rewrite !nth_firstn by exact L. apply H. exact Hi.
    + rewrite !nth_overflow; [reflexivity| |]; rewrite firstn_length; lia.
Qed.

(* ------------------------------------------------------------------ constraint counters *)
Lemma filter_len_le {A} (f : A -> bool) l : (length (filter f l) <= length l)%nat.
Proof. induction l as [|a r IH]; [apply le_n|]. cbn [filter]. destruct (f a); cbn [length]; lia. Qed.

Lemma filter_all {A} (f : A -> bool) l :
  length (filter f l) = length l -> forall x, In x l -> f x = true.
Proof.
  induction l as [|a r IH]; intros H x Hx; [destruct Hx|]. cbn [filter] in H. destruct (f a) eqn:E.
  - cbn [length] in H. injection H as H. destruct Hx as [<-|Hx]; [exact E|exact (IH H x Hx)].
  - pose proof (filter_len_le f r). cbn [length] in H. lia.
Qed.

Lemma all_satisfied_within_tol deltas :
  n_satisfied_of deltas = n_constraints_of deltas ->
  forall d, In d deltas -> - constraint_tol <= d /\ d <= constraint_tol.
Proof.
  unfold n_satisfied_of, n_constraints_of. intros H d Hd.
  pose proof (filter_all _ _ H d Hd) as S. unfold constraint_satisfied in S.
  apply Qcabs_bounds.
  first [ apply Qclt_le_weak, Qcltb_lt; exact S | apply Qcleb_le; exact S ].
Qed.

(* ------------------------------------------------------------------ the loop *)
Section LoopLemmas.
Variable entry : Type.
Variable step : list entry -> option entry.
Variable evalg cb : entry -> entry.
Variable conv_params : list entry -> result params.
Variable n_constraints n_satisfied : entry -> nat.
Variable single_atom : bool.
Variable tol : params.
Variable maxiter : nat.

Notation loop' := (loop entry step evalg cb conv_params n_constraints n_satisfied single_atom tol maxiter).
Notation converged' := (converged entry conv_params n_constraints n_satisfied single_atom tol).
Notation body' := (loop_body (op_callback entry cb) (op_step entry step) (op_update entry evalg)
                             (op_log entry) (exceeded_now entry maxiter)).

Lemma on_final_length (f : entry -> entry) h : length (on_final entry f h) = length h.
Proof. destruct h; reflexivity. Qed.

Lemma op_step_length h :
  length (op_step entry step h) = length h \/ length (op_step entry step h) = S (length h).
Proof. unfold op_step. destruct (step h); [right; reflexivity|left; reflexivity]. Qed.

(* one pass of the translated loop body: the history grows by at most one entry; when the pass does not
   break, the limit has not been reached; when it breaks, the limit test fired on the new history *)
Lemma body_facts h :
  let hb := body' h in
  (length (fst hb) = length h \/ length (fst hb) = S (length h)) /\
  (snd hb = exceeded_now entry maxiter (fst hb)).
Proof.
  cbv beta zeta delta [loop_body].
  match goal with |- context [if ?c then _ else _] => destruct c eqn:E end; cbn [fst snd];
    (split; [|first [rewrite E; reflexivity | reflexivity]]);
    unfold op_log, op_update, op_callback; rewrite on_final_length;
    destruct (op_step_length (on_final entry cb h)) as [L|L]; rewrite L, on_final_length; tauto.
Qed.

Lemma body_facts_grow h : (forall h0, step h0 <> None) ->
  length (fst (body' h)) = S (length h).
Proof.
  intros Hs. cbv beta zeta delta [loop_body].
  match goal with |- context [if ?c then _ else _] => destruct c end; cbn [fst];
    unfold op_log, op_update, op_callback; rewrite on_final_length; unfold op_step;
    (destruct (step (on_final entry cb h)) eqn:S; [|exfalso; exact (Hs _ S)]);
    cbn [length]; rewrite on_final_length; reflexivity.
Qed.

Lemma not_exceeded_lt h : exceeded_now entry maxiter h = false -> (iteration entry h < maxiter)%nat.
Proof. unfold exceeded_now, exceeded. intros H. apply Nat.leb_gt in H. exact H. Qed.

Lemma iteration_step h h' :
  (1 <= length h)%nat -> (length h' = length h \/ length h' = S (length h)) ->
  (iteration entry h' <= S (iteration entry h))%nat /\ (1 <= length h')%nat.
Proof. unfold iteration, iteration_of. lia. Qed.

Lemma loop_iteration_bound : forall fuel h,
  (1 <= length h)%nat -> (iteration entry h < maxiter)%nat ->
  (iteration entry (final_hist entry (loop' fuel h)) <= maxiter)%nat.
Proof.
  induction fuel as [|f IH]; intros h Hl Hi; cbn [loop].
  - destruct (converged' h) as [[|]| | |]; cbn [final_hist]; lia.
  - destruct (converged' h) as [[|]| | |]; cbn [final_hist]; try lia.
    destruct (body_facts h) as [Hlen Hbrk].
    destruct (iteration_step h _ Hl Hlen) as [Hit Hl'].
    destruct (snd (body' h)) eqn:Eb.
    + cbn [final_hist]. lia.
    + apply IH; [exact Hl'|]. apply not_exceeded_lt. rewrite <- Hbrk. reflexivity.
Qed.

(* total correctness of the fuel: when every step appends a point, maxiter - iteration passes suffice *)
Lemma loop_fuel_suffices : (forall h0, step h0 <> None) -> forall fuel h,
  (1 <= length h)%nat -> (iteration entry h < maxiter)%nat -> (maxiter - iteration entry h <= fuel)%nat ->
  forall h', loop' fuel h <> OutOfFuel entry h'.
Proof.
  intros Hs. induction fuel as [|f IH]; intros h Hl Hi Hf h'; [lia|].
  cbn [loop]. destruct (converged' h) as [[|]| | |]; try discriminate.
  destruct (body_facts h) as [_ Hbrk]. pose proof (body_facts_grow h Hs) as Hg.
  destruct (snd (body' h)) eqn:Eb; [discriminate|].
  assert (Hlt : (iteration entry (fst (body' h)) < maxiter)%nat)
    by (apply not_exceeded_lt; rewrite <- Hbrk; reflexivity).
  apply IH; [lia|exact Hlt|].
  unfold iteration, iteration_of in *. lia.
Qed.

(* leaving the while loop: either `converged` was True at the top, or the limit test fired *)
Lemma loop_done_inv : forall fuel h h', loop' fuel h = Done entry h' ->
  converged' h' = Ok true \/ exceeded_now entry maxiter h' = true.
Proof.
  induction fuel as [|f IH]; intros h h' H; cbn [loop] in H.
  - destruct (converged' h) as [[|]| | |] eqn:C; try discriminate. injection H as <-. left. exact C.
  - destruct (converged' h) as [[|]| | |] eqn:C; try discriminate.
    + injection H as <-. left. exact C.
    + destruct (body_facts h) as [_ Hbrk]. destruct (snd (body' h)) eqn:Eb.
      * injection H as <-. right. rewrite <- Hbrk. reflexivity.
      * exact (IH _ _ H).
Qed.

(* the while loop is never left at a non-converged point below the limit *)
Lemma loop_done_early_converged fuel h h' : loop' fuel h = Done entry h' ->
  (iteration entry h' < maxiter)%nat -> converged' h' = Ok true.
Proof.
  intros H Hlt. destruct (loop_done_inv _ _ _ H) as [C|E]; [exact C|].
  unfold exceeded_now, exceeded in E. apply Nat.leb_le in E. lia.
Qed.

(* the final history entry has had its energy and gradient evaluated after it was created: every pass of
   the translated body ends with the gradient update of history.final (nothing modifies it afterwards) *)
Definition evaluated (h : list entry) : Prop := exists c r, h = evalg c :: r.

Lemma body_evaluated h : h <> [] -> evaluated (fst (body' h)).
Proof.
  intros Hne. cbv beta zeta delta [loop_body].
  match goal with |- context [if ?c then _ else _] => destruct c end; cbn [fst];
    unfold op_log, op_update, op_callback, op_step;
    (destruct h as [|c0 r0]; [congruence|]); cbn [on_final];
    (destruct (step (cb c0 :: r0)) as [c1|]; cbn [on_final]; eexists; eexists; reflexivity).
Qed.

Lemma loop_evaluated : forall fuel h, evaluated h -> evaluated (final_hist entry (loop' fuel h)).
Proof.
  induction fuel as [|f IH]; intros h Hev; cbn [loop].
  - destruct (converged' h) as [[|]| | |]; exact Hev.
  - destruct (converged' h) as [[|]| | |]; cbn [final_hist]; try exact Hev.
    assert (Hne : h <> []) by (destruct Hev as [c [r ->]]; discriminate).
    pose proof (body_evaluated h Hne) as Hb.
    destruct (snd (body' h)); [exact Hb|exact (IH _ Hb)].
Qed.

(* the species: after every pass, and at the end, it holds the snapshot of the evaluated final entry *)
Variable Sp : Type.
Variable snap : entry -> Sp.
Notation loop2' := (loop2 entry step evalg cb conv_params n_constraints n_satisfied single_atom tol maxiter Sp snap).
Notation body2' := (loop_body (op_callback2 entry cb Sp) (op_step2 entry step Sp) (op_update2 entry evalg Sp snap)
                              (op_log2 entry Sp) (exceeded_now2 entry maxiter Sp)).
Definition synced (x : list entry * Sp) : Prop := exists c r, fst x = evalg c :: r /\ snd x = snap (evalg c).

Lemma body2_facts x : fst x <> [] ->
  fst (fst (body2' x)) = fst (body' (fst x)) /\ snd (body2' x) = snd (body' (fst x)) /\ synced (fst (body2' x)).
Proof.
  intros Hne. destruct x as [h s]. cbn [fst] in Hne.
  set (hh := op_log entry (op_update entry evalg (op_step entry step (op_callback entry cb h)))).
  set (sp := match op_update entry evalg (op_step entry step (op_callback entry cb h)) with
             | c :: _ => snap c | [] => s end).
  assert (B1 : body' (fst (h, s)) = if exceeded_now entry maxiter hh then (hh, true) else (hh, false)) by reflexivity.
  assert (B2 : body2' (h, s) = if exceeded_now entry maxiter hh then ((hh, sp), true) else ((hh, sp), false)) by reflexivity.
  rewrite B1, B2.
  assert (Hsync : synced (hh, sp)).
  { unfold synced, hh, sp, op_log, op_update, op_callback, op_step. cbn [fst snd].
    destruct h as [|c0 r0]; [congruence|]. cbn [on_final].
    destruct (step (cb c0 :: r0)) as [c1|]; cbn [on_final]; eexists; eexists; split; reflexivity. }
  destruct (exceeded_now entry maxiter hh); cbn [fst snd]; (split; [reflexivity|]); (split; [reflexivity|exact Hsync]).
Qed.

Lemma loop2_spec : forall fuel x, synced x ->
  fst (loop2' fuel x) = final_hist entry (loop' fuel (fst x)) /\ synced (loop2' fuel x).
Proof.
  induction fuel as [|f IH]; intros x Hs.
  - cbn [loop loop2]. cbv beta delta [hist st] in *. destruct (converged' (fst x)) as [[|]| | |] eqn:C; cbn [final_hist]; (split; [reflexivity|exact Hs]).
  - assert (Hne : fst x <> []) by (destruct Hs as [c [r [E _]]]; rewrite E; discriminate).
    destruct (body2_facts x Hne) as [E1 [E2 Hb]].
    cbn [loop loop2]. cbv beta delta [hist st] in *. destruct (converged' (fst x)) as [[|]| | |] eqn:C; cbn [final_hist];
      try (split; [reflexivity|exact Hs]).
    rewrite E2.
    match goal with |- fst (if ?b1 then _ else _) = final_hist _ (if ?b2 then _ else _) /\ _ =>
      change b2 with b1; destruct b1 end; cbn [final_hist].
    + split; [exact E1|exact Hb].
    + destruct (IH _ Hb) as [A B]. split; [|exact B]. rewrite A. f_equal. f_equal. exact E1.
Qed.

(* what `converged` = True means (translated rule) *)
Lemma converged_true_inv h : converged' h = Ok true ->
  single_atom = true \/
  exists c r cp, h = c :: r /\ conv_params h = Ok cp /\ n_constraints c = n_satisfied c /\
                 meets_criteria tol cp = Ok true.
Proof.
  unfold converged. destruct h as [|c r].
  - destruct single_atom; [left; reflexivity|discriminate].
  - unfold converged_rule. destruct single_atom; [left; reflexivity|]. intros H. right.
    destruct (conv_params (c :: r)) as [cp| | |] eqn:Ecp; cbn [bind] in H; try discriminate.
    destruct (Nat.eqb (n_constraints c) (n_satisfied c)) eqn:En; cbn [bind] in H; [|discriminate].
    exists c, r, cp. repeat split; [apply Nat.eqb_eq; exact En|exact H].
Qed.
End LoopLemmas.

(* ------------------------------------------------------------------ the loop on concrete points *)
Lemma within_fin k c v t : within k c v -> c = Some (Fin t) -> forall e, v = Some e -> exists x, e = Fin x /\ x <= k * t.
Proof. intros W Hc e He. destruct (W t Hc) as [x [Hx Hle]]. rewrite He in Hx. injection Hx as ->. exists x. split; [reflexivity|exact Hle]. Qed.
