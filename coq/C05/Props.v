(* C05/Props.v — the property theorems (statements; each closed by lemmas of Lemmas.v).
   The parsing tables, delta_combine, the barrierless constants, balance_checks, ctor_steps, the
   classify rules (gen/C05_Gen.v) and the unit table / conv (gen/C06_Gen.v) are GENERATED from the
   repository on every run; the theorems are re-checked against them. *)
From Coq Require Import ZArith QArith Qcanon List String Ascii Bool Lia.
From AV.lib Require Import QcInst.
From AV.C06 Require Import Base Model.
From AV.gen Require Import C06_Gen C05_Gen.
From AV.C05 Require Import Base Model Lemmas.
Import ListNotations.
Open Scope string_scope.
Open Scope list_scope.
Open Scope Qc_scope.

(* A reaction object exists exactly when the (n_reactants, n_products) pair is one of the seven
   classifiable ones, solvents are consistent, and total atom count, total charge and total number
   of unpaired electrons agree between reactants and products.  On success its type is the
   classification of the two counts, its charge the total reactant charge, and every molecule
   carries the reaction's solvent when there is one. *)
Theorem balance_iff : forall sn rs ps,
  ((exists r, construct sn rs ps = COk r) <->
     supported (List.length rs) (List.length ps) /\ solvents_consistent sn (rs ++ ps) /\ balanced rs ps) /\
  (forall r, construct sn rs ps = COk r ->
     rtype r = type_of_cres (classify_table (List.length rs) (List.length ps)) /\
     rcharge r = charge_of rs /\ tss r = [] /\
     List.length (reacs r) = List.length rs /\ List.length (prods r) = List.length ps /\
     (forall s m, rsolvent r = Some s -> In m (reacs r ++ prods r) -> s_solvent m = Some s)).
Proof.
  intros sn rs ps. split; [apply construct_ok_iff|].
  intros r H. destruct (construct_ok_fields _ _ _ _ H) as [Ht [Hc [Hts [s [_ [Hs [Hr Hp]]]]]]].
  rewrite <- classify_is_table. split; [exact Ht|]. split; [exact Hc|]. split; [exact Hts|].
  rewrite Hr, Hp, !map_length. split; [reflexivity|]. split; [reflexivity|].
  intros s' m Es Hm. rewrite Hs in Es. subst s. rewrite <- map_app in Hm.
  apply in_map_iff in Hm as [m0 [<- _]]. rewrite Es. reflexivity.
Qed.

(* ... otherwise the documented error is raised, determined as follows (in this order): an
   unclassifiable pair of counts -> ReactionFormationFailed (no reactants or no products) or
   NotImplementedError; inconsistent solvents -> SolventsDontMatch; atoms or charge unbalanced ->
   UnbalancedReaction; change of spin state -> NotImplementedError. *)
Theorem constructor_errors : forall sn rs ps,
  let nr := List.length rs in let np := List.length ps in
  (~ supported nr np ->
     construct sn rs ps = CFail (if (Nat.eqb nr 0 || Nat.eqb np 0)%bool then "ReactionFormationFailed"
                                 else "NotImplementedError") "") /\
  (supported nr np -> ~ solvents_consistent sn (rs ++ ps) ->
     exists t, construct sn rs ps = CFail "SolventsDontMatch" t) /\
  (supported nr np -> solvents_consistent sn (rs ++ ps) ->
     (atoms_of rs <> atoms_of ps ->
        construct sn rs ps = CFail "UnbalancedReaction" "Number of atoms doesn't balance") /\
     (atoms_of rs = atoms_of ps -> charge_of rs <> charge_of ps ->
        construct sn rs ps = CFail "UnbalancedReaction" "Charge doesn't balance") /\
     (atoms_of rs = atoms_of ps -> charge_of rs = charge_of ps -> unpaired_of rs <> unpaired_of ps ->
        construct sn rs ps = CFail "NotImplementedError" "Found a change in spin state – not implemented yet!")).
Proof.
  intros sn rs ps nr np. destruct (construct_errors sn rs ps) as [E1 [E2 E3]].
  split; [exact E1|]. split.
  - intros S NC. destruct (E2 S NC) as [t [Ht _]]. exists t. exact Ht.
  - intros S C. specialize (E3 S C). unfold balance_spec in E3. split; [|split].
    + intros N. apply E3. apply Z.eqb_neq in N. rewrite N. reflexivity.
    + intros E N. apply E3. apply Z.eqb_eq in E. apply Z.eqb_neq in N. rewrite E, N. reflexivity.
    + intros E E' N. apply E3. apply Z.eqb_eq in E, E'. apply Z.eqb_neq in N. rewrite E, E', N. reflexivity.
Qed.

(* The type follows solely from the numbers of reactant and product molecules: classify IS the
   documented table, and two successfully constructed reactions with the same counts have the same
   type whatever their species, charges, solvents and energies. *)
Theorem classify_depends_only_on_counts :
  (forall nr np, classify nr np = classify_table nr np) /\
  (forall sn rs ps sn' rs' ps' r r',
     List.length rs = List.length rs' -> List.length ps = List.length ps' ->
     construct sn rs ps = COk r -> construct sn' rs' ps' = COk r' -> rtype r = rtype r').
Proof.
  split; [exact classify_is_table|].
  intros sn rs ps sn' rs' ps' r r' Hr Hp H H'.
  destruct (construct_ok_fields _ _ _ _ H) as [Ht _]. destruct (construct_ok_fields _ _ _ _ H') as [Ht' _].
  rewrite Ht, Ht', Hr, Hp. reflexivity.
Qed.

(* Reaction energies / enthalpies / free energies and barriers equal the sum over products (or the
   transition state delta uses) minus the sum over reactants, every contribution (E, H_cont, G_cont)
   converted to Hartree on its own.  The TS used is a member of tss whose key is minimal among the TSs
   that have an energy (is_lowest; the key is the raw number on the pinned tree, the energy in a common
   unit once lowest_unit is set: see delta_ts_choice_unit_dependent_refuted). *)
Theorem delta_is_sum_products_minus_sum_reactants : forall r s k,
  (forall m, In m (reacs r ++ prods r ++ tss r) -> units_ok m) ->
  (delta_kind s = Some (k, false) -> delta r s = diff_spec k (prods r) (reacs r)) /\
  (delta_kind s = Some (k, true) -> forall t, lowest_ts (tss r) = LOk (Some t) ->
     delta r s = diff_spec k [t] (reacs r) /\ is_lowest (tss r) t).
Proof.
  intros r s k U. split.
  - intros H. apply delta_kind_parse in H. rewrite (delta_nonts _ _ _ H). apply diff_is_spec.
    intros m Hm. apply U. apply in_app_or in Hm as [Hm|Hm]; apply in_or_app; [right; apply in_or_app; left|left]; exact Hm.
  - intros H t L. apply delta_kind_parse in H. pose proof (lowest_ts_spec _ _ L) as Hlow.
    split; [|exact Hlow]. rewrite (delta_ts_some _ _ _ _ H L). apply diff_is_spec.
    intros m Hm. apply U. apply in_app_or in Hm as [[<-|[]]|Hm]; apply in_or_app;
      [right; apply in_or_app; right; exact (proj1 Hlow)|left; exact Hm].
Qed.

(* When the lowest TS is chosen in a common unit (lowest_unit <> None: the repaired form of
   TransitionStates.lowest_energy) a non-empty list of transition states always yields one, so a
   barrier is a value or None, never an exception. *)
Theorem delta_ts_total_if_common_unit : lowest_unit <> None ->
  forall r s k, delta_kind s = Some (k, true) ->
  (tss r <> [] -> exists t, lowest_ts (tss r) = LOk (Some t)) /\
  (delta r s = DNone \/ exists x, delta r s = DVal x target_u).
Proof.
  intros HN r s k H. split; [apply lowest_ts_total; exact HN|].
  apply delta_kind_parse in H. destruct (tss r) as [|t0 l] eqn:E.
  - rewrite (delta_barrierless _ _ _ H E). apply estimate_none_or_val.
  - assert (Hne : tss r <> []) by (rewrite E; discriminate).
    destruct (lowest_ts_total (tss r) HN Hne) as [t L]. rewrite (delta_ts_some _ _ _ _ H L). apply diff_none_or_val.
Qed.

(* ... independent of the units in which individual energies were supplied: re-expressing any
   contributions in other implemented energy units (reaction_equiv) leaves every delta unchanged —
   for all reaction-type deltas, and for barriers when there is at most one TS (or when the TS is
   chosen in a common unit: lowest_unit <> None, not the case on the current tree). *)
Theorem delta_unit_independent : forall r r' s,
  reaction_equiv r r' ->
  (snd (parse s) = true -> (List.length (tss r) <= 1)%nat \/ lowest_unit <> None) ->
  delta r' s = delta r s.
Proof. exact delta_equiv. Qed.

(* ... change sign when reactants and products are swapped (non-barrier types); None stays None. *)
Theorem delta_antisymmetric : forall r s k,
  delta_kind s = Some (k, false) ->
  delta (switch r) s = dneg (delta r s) /\
  (delta r s = DNone \/ exists x, delta r s = DVal x target_u /\ delta (switch r) s = DVal (- x) target_u).
Proof.
  intros r s k H. apply delta_kind_parse in H. pose proof (delta_switch r s k H) as S. split; [exact S|].
  rewrite S, (delta_nonts _ _ _ H). destruct (diff_none_or_val k (prods r) (reacs r)) as [E|[x E]]; rewrite E;
    [left; reflexivity|right; exists x; split; reflexivity].
Qed.

(* ... and are undefined exactly when a required contribution is missing: delta is None iff some
   species it sums over lacks the potential energy or the H / G correction the kind needs; otherwise
   it is a value in Hartree (never an exception). *)
Theorem delta_none_iff_missing : forall r s k,
  (delta_kind s = Some (k, false) ->
     (delta r s = DNone <-> exists m, In m (reacs r ++ prods r) /\ ~ complete k m) /\
     (delta r s = DNone \/ exists x, delta r s = DVal x target_u)) /\
  (delta_kind s = Some (k, true) -> forall t, lowest_ts (tss r) = LOk (Some t) ->
     (delta r s = DNone <-> exists m, In m (reacs r ++ [t]) /\ ~ complete k m) /\
     (delta r s = DNone \/ exists x, delta r s = DVal x target_u)) /\
  (delta_kind s = Some (k, true) -> tss r = [] ->
     (delta r s = DNone <-> exists m, In m (reacs r ++ prods r) /\ ~ complete k m) /\
     (delta r s = DNone \/ exists x, delta r s = DVal x target_u)).
Proof.
  intros r s k.
  assert (R : forall a b, (diff k a b = DNone <-> exists m, In m (b ++ a) /\ ~ complete k m)).
  { intros a b. rewrite diff_none. split; intros [m [Hm Hc]]; exists m; (split; [exact Hm|]); apply sp_get_none_iff; exact Hc. }
  split; [|split].
  - intros H. apply delta_kind_parse in H. rewrite (delta_nonts _ _ _ H). split; [apply R|apply diff_none_or_val].
  - intros H t L. apply delta_kind_parse in H. rewrite (delta_ts_some _ _ _ _ H L). split; [apply R|apply diff_none_or_val].
  - intros H L. apply delta_kind_parse in H. rewrite (delta_barrierless _ _ _ H L).
    split; [rewrite estimate_none_iff; apply R|apply estimate_none_or_val].
Qed.

(* A missing transition state gives the documented diffusion-limit estimate: max(0, reaction delta),
   plus 0.00694 Ha (= 4.35 kcal mol-1) unless the reaction is a rearrangement; None when the
   reaction delta is None. *)
Theorem barrierless_estimate_spec : forall r s k,
  delta_kind s = Some (k, true) -> tss r = [] ->
  (diff_spec k (prods r) (reacs r) = DNone ->
     (forall m, In m (reacs r ++ prods r) -> units_ok m) -> delta r s = DNone) /\
  (forall d, diff k (prods r) (reacs r) = DVal d target_u ->
     exists v, delta r s = DVal (v + (if opt_string_eqb (rtype r) (Some "rearrangement") then 0 else barrierless_const)) target_u /\
               (0 < d -> v = d) /\ (d <= 0 -> v = 0)) /\
  close (qc 1 1000000000000) barrierless_const (qc 694 100000) = true /\
  close (qc 1 100) (conv barrierless_const target_u (unit_of_alias "kcal mol-1")) (qc 435 100) = true.
Proof.
  intros r s k H L. apply delta_kind_parse in H. rewrite (delta_barrierless _ _ _ H L).
  split; [|split; [|exact barrierless_const_value]].
  - intros E U. rewrite diff_is_spec, E; [reflexivity|].
    intros m Hm. apply U. apply in_app_or in Hm as [Hm|Hm]; apply in_or_app; [right|left]; exact Hm.
  - intros d E. rewrite E. destruct (estimate_spec r d target_u eq_refl) as [v [Ev Hv]].
    exists v. split; [exact Ev|exact Hv].
Qed.

(* All documented spellings map to the documented kind ("E‡" == "E ddagger" == "E double dagger" ...),
   and NO string that contains "free" (in any letter case) maps to the potential energy. *)
Theorem delta_kind_table :
  (delta_kind "E" = Some (KEnergy, false) /\ delta_kind "H" = Some (KEnthalpy, false) /\
   delta_kind "G" = Some (KFree, false) /\
   delta_kind "E‡" = Some (KEnergy, true) /\ delta_kind "H‡" = Some (KEnthalpy, true) /\
   delta_kind "G‡" = Some (KFree, true) /\
   delta_kind "E ddagger" = Some (KEnergy, true) /\ delta_kind "H ddagger" = Some (KEnthalpy, true) /\
   delta_kind "G ddagger" = Some (KFree, true) /\
   delta_kind "E double dagger" = Some (KEnergy, true) /\ delta_kind "H double dagger" = Some (KEnthalpy, true) /\
   delta_kind "G double dagger" = Some (KFree, true) /\
   delta_kind "energy" = Some (KEnergy, false) /\ delta_kind "enthalpy" = Some (KEnthalpy, false) /\
   delta_kind "free_energy" = Some (KFree, false) /\ delta_kind "free energy" = Some (KFree, false)) /\
  (forall s ts, containsb (B "free") (lower (B s)) = true -> delta_kind s <> Some (KEnergy, ts)).
Proof.
  split; [repeat split; vm_compute; reflexivity|].
  intros s ts Hc H. unfold delta_kind in H.
  destruct (etype_l (lower (B s))) as [k|] eqn:E; [|discriminate]. cbn [option_map] in H.
  injection H as -> _. exact (free_never_potential _ Hc E).
Qed.

(* Saving and reloading a checkpoint, and any history of switch / save+load / set-TS / append-TS
   operations, preserves all of these values: a reloaded reaction IS the saved one (pickle being an
   oracle); after any history the reaction is the original one or its switched image, carrying the
   list of transition states that the ts-setter / append operations of the history produce (switch and
   save/load never touch it); reaction-type deltas only follow the parity of switches; a checkpointed
   step that ran >= 1 s hands every later run exactly the state it saved. *)
Theorem checkpoint_history_preserves :
  (forall r r' s, load (save r) r' = r /\ delta (load (save r) r') s = delta r s /\
                  rtype (load (save r) r') = rtype r) /\
  (forall ops r, run_ops ops r = set_tss (if odd_switches ops then switch r else r) (tss_after ops (tss r))) /\
  (forall ops r, (forall o, In o ops -> o = OSwitch \/ o = OSaveLoad) ->
     run_ops ops r = (if odd_switches ops then switch r else r) /\ tss (run_ops ops r) = tss r) /\
  (forall ops r s k, delta_kind s = Some (k, false) ->
     delta (run_ops ops r) s = (if odd_switches ops then dneg (delta r s) else delta r s)) /\
  (forall f g r r2 e1 e2, ~ e1 < 1 ->
     exists c, ckpt_step None e1 f r = (f r, Some c) /\
               fst (ckpt_step (Some c) e2 g r2) = f r) /\
  (forall f r e1, e1 < 1 -> ckpt_step None e1 f r = (f r, None)).
Proof.
  split; [intros r r' s; rewrite load_save; repeat split; reflexivity|].
  split; [exact run_ops_spec|]. split.
  { intros ops r H. rewrite (run_ops_parity ops H). split; [reflexivity|]. destruct (odd_switches ops); reflexivity. }
  split.
  - intros ops r s k H. rewrite run_ops_spec. apply delta_kind_parse in H. rewrite (delta_nonts_set_tss _ _ _ _ H).
    destruct (odd_switches ops); [|reflexivity]. apply (delta_switch r s k H).
  - split.
    + intros f g r r2 e1 e2 N. exists (save (f r)). split.
      * apply ckpt_first_run. rewrite checkpoint_threshold_is_one_second.
        destruct (Qcltb e1 1) eqn:E; [|reflexivity]. exfalso. apply N. apply Lemmas.Qcltb_lt. exact E.
      * rewrite ckpt_rerun. cbn [fst]. apply load_save.
    + intros f r e1 L. apply ckpt_short_run. rewrite checkpoint_threshold_is_one_second.
      apply Lemmas.Qcltb_lt. exact L.
Qed.

(* The ts setter: `reaction.ts = None` removes every transition state held (the reaction is
   barrierless again and every barrier is the diffusion-limit estimate of barrierless_estimate_spec),
   `reaction.ts = t` makes t the only one (every barrier is t minus the reactants); both persist
   through any later switch / save / load. *)
Theorem ts_setter_spec : forall r,
  (tss (run_op (OSetTS None) r) = [] /\ is_barrierless (run_op (OSetTS None) r) = true /\
   forall s k, delta_kind s = Some (k, true) ->
     delta (run_op (OSetTS None) r) s = estimate r (diff k (prods r) (reacs r))) /\
  (forall t, tss (run_op (OSetTS (Some t)) r) = [t] /\ is_barrierless (run_op (OSetTS (Some t)) r) = false /\
   forall s k, delta_kind s = Some (k, true) -> delta (run_op (OSetTS (Some t)) r) s = diff k [t] (reacs r)) /\
  (forall x ops, (forall o, In o ops -> o = OSwitch \/ o = OSaveLoad) ->
     tss (run_ops ops (run_op (OSetTS x) r)) = match x with None => [] | Some t => [t] end).
Proof.
  intros r. split; [|split].
  - split; [reflexivity|]. split; [unfold is_barrierless; cbn [run_op set_tss tss]; rewrite lowest_ts_nil; reflexivity|].
    intros s k H. apply delta_kind_parse in H.
    rewrite (delta_barrierless (run_op (OSetTS None) r) s k H eq_refl). reflexivity.
  - intros t. split; [reflexivity|].
    split; [unfold is_barrierless; cbn [run_op set_tss tss]; rewrite lowest_ts_single; reflexivity|].
    intros s k H. apply delta_kind_parse in H.
    rewrite (delta_ts_some (run_op (OSetTS (Some t)) r) s k t H (lowest_ts_single t)). reflexivity.
  - intros x ops H. rewrite (run_ops_parity ops H).
    destruct (odd_switches ops); destruct x; reflexivity.
Qed.

(* ---------------------------------------------------------------------------------------------
   Statements of the property that are FALSE of the faithful model (findings; see harness/c05.py) *)

(* "independent of the units": with several transition states the "lowest" one is chosen by comparing
   the raw numbers (lowest_unit = None on the current tree): -100 kcal mol-1 beats -1 Ha.  Two
   reactions differing only in the unit one TS energy is written in have different barriers. *)
Theorem delta_ts_choice_unit_dependent_refuted :
  lowest_unit = None ->
  exists r r', reaction_equiv r r' /\ delta r "E‡" <> delta r' "E‡".
Proof.
  intros HN. exists (w_r w_ts2), (w_r w_ts2'). split; [exact w_equiv|exact (w_delta_differs HN)].
Qed.

(* "undefined exactly when a required contribution is missing": on the pinned tree (lowest_unit = None)
   two transition states of which one has no energy give an exception, not None (a single one: None). *)
Theorem delta_ts_without_energy_refuted :
  lowest_unit = None ->
  exists r r1, delta r "E‡" = DErr "TypeError" /\ List.length (tss r) = 2%nat /\
               delta r1 "E‡" = DNone /\ List.length (tss r1) = 1%nat.
Proof.
  intros HN. destruct (witness_ts_without_energy HN) as [H1 H2]. eexists. eexists.
  split; [exact H1|]. split; [reflexivity|]. split; [exact H2|reflexivity].
Qed.

(* "its type follows solely from the numbers of reactant and product molecules" over switch
   histories: switch_reactants_products swaps the lists but keeps the old type. *)
Theorem type_after_switch_refuted :
  exists sn rs ps r, construct sn rs ps = COk r /\
    rtype (switch r) <> type_of_cres (classify (List.length (reacs (switch r))) (List.length (prods (switch r)))).
Proof.
  destruct witness_type_after_switch as [r [H [Ht Hc]]].
  exists None, [w_sp 1 []; w_sp 1 []], [w_sp 2 []], r. split; [exact H|]. rewrite Ht, Hc. discriminate.
Qed.

(* ---------------------------------------------------------------------------------------------
   non-vacuity: hypotheses of the theorems above are satisfiable *)
Example nonvacuous :
  (exists r, construct None [w_sp 1 []; w_sp 1 []] [w_sp 2 []] = COk r) /\
  (exists sn rs ps, supported (List.length rs) (List.length ps) /\ solvents_consistent sn (rs ++ ps) /\
                    balanced rs ps /\ rs <> []) /\
  (exists s, containsb (B "free") (lower (B s)) = true /\ delta_kind s = Some (KFree, false)) /\
  reaction_equiv (w_r w_ts2) (w_r w_ts2') /\
  (exists x, delta (w_r w_ts2) "E" = DVal x target_u) /\
  (exists x, delta (mkR [w_end] [w_end] [] (Some "rearrangement") None 0%Z) "G‡" = x /\ x = DNone) /\
  (exists x, delta (mkR [w_end] [w_end] [] (Some "addition") None 0%Z) "E‡" = DVal x target_u /\ 0 < x).
Proof.
  split; [destruct witness_type_after_switch as [r [H _]]; exists r; exact H|].
  split.
  { exists None, [w_sp 1 []], [w_sp 1 []]. split; [unfold supported; cbn; tauto|].
    split; [right; left; intros m [<-|[<-|[]]]; reflexivity|].
    split; [repeat split; reflexivity|discriminate]. }
  split; [exists "Free Energy"; split; vm_compute; reflexivity|].
  split; [exact w_equiv|].
  split; [eexists; vm_compute; reflexivity|].
  split; [eexists; split; [reflexivity|vm_compute; reflexivity]|].
  eexists. split; [vm_compute; reflexivity|]. vm_compute. reflexivity.
Qed.
