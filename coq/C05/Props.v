(* C05/Props.v — the property theorems (statements; each closed by lemmas of Lemmas.v).
   The parsing tables, delta_combine, the barrierless constants, balance_checks, ctor_steps, the
   classify rules (gen/C05_Gen.v) and the unit table / conv (gen/C06_Gen.v) are GENERATED from the
   repository on every run; the theorems are re-checked against them. *)
From Coq Require Import ZArith QArith Qcanon List String Ascii Bool Lia.
From AV.lib Require Import QcInst.
From AV.C06 Require Import Base.
From AV.C05 Require Import Units.
From AV.gen Require Import C05_Units_Gen C05_Gen.
From AV.C05 Require Import Base Model Lemmas.
Import ListNotations.
Open Scope string_scope.
Open Scope list_scope.
Open Scope Qc_scope.

(* A reaction object exists exactly when the (n_reactants, n_products) pair is one of the seven
   classifiable ones, solvents are consistent, and total atom count, total charge and total number
   of unpaired electrons agree between reactants and products.  On success its type is the
   classification of the two counts, its charge the total reactant charge, and every molecule
   carries the reaction's solvent when there is one. *)
Theorem balance_iff : forall sn rs ps,
  ((exists r, construct sn rs ps = COk r) <->
     supported (List.length rs) (List.length ps) /\ solvents_consistent sn (rs ++ ps) /\ balanced rs ps) /\
  (forall r, construct sn rs ps = COk r ->
     rtype r = type_of_cres (classify_table (List.length rs) (List.length ps)) /\
     rcharge r = charge_of rs /\ tss r = [] /\
     List.length (reacs r) = List.length rs /\ List.length (prods r) = List.length ps /\
     (forall s m, rsolvent r = Some s -> In m (reacs r ++ prods r) -> s_solvent m = Some s)).
Proof.
  intros sn rs ps. split; [apply construct_ok_iff|].
  intros r H. destruct (construct_ok_fields _ _ _ _ H) as [Ht [Hc [Hts [s [_ [Hs [Hr Hp]]]]]]].
  rewrite <- classify_is_table. split; [exact Ht|]. split; [exact Hc|]. split; [exact Hts|].
  rewrite Hr, Hp, !map_length. split; [reflexivity|]. split; [reflexivity|].
  intros s' m Es Hm. rewrite Hs in Es. subst s. rewrite <- map_app in Hm.
  apply in_map_iff in Hm as [m0 [<- _]]. rewrite Es. reflexivity.
Qed.

(* ... otherwise the documented error is raised, determined as follows (in this order): an
   unclassifiable pair of counts -> ReactionFormationFailed (no reactants or no products) or
   NotImplementedError; inconsistent solvents -> SolventsDontMatch; atoms or charge unbalanced ->
   UnbalancedReaction; change of spin state -> NotImplementedError. *)
Theorem constructor_errors : forall sn rs ps,
  let nr := List.length rs in let np := List.length ps in
  (~ supported nr np ->
     construct sn rs ps = CFail (if (Nat.eqb nr 0 || Nat.eqb np 0)%bool then "ReactionFormationFailed"
                                 else "NotImplementedError") "") /\
  (supported nr np -> ~ solvents_consistent sn (rs ++ ps) ->
     exists t, construct sn rs ps = CFail "SolventsDontMatch" t) /\
  (supported nr np -> solvents_consistent sn (rs ++ ps) ->
     (atoms_of rs <> atoms_of ps ->
        construct sn rs ps = CFail "UnbalancedReaction" "Number of atoms doesn't balance") /\
     (atoms_of rs = atoms_of ps -> charge_of rs <> charge_of ps ->
        construct sn rs ps = CFail "UnbalancedReaction" "Charge doesn't balance") /\
     (atoms_of rs = atoms_of ps -> charge_of rs = charge_of ps -> unpaired_of rs <> unpaired_of ps ->
        construct sn rs ps = CFail "NotImplementedError" "Found a change in spin state – not implemented yet!")).
Proof.
  intros sn rs ps nr np. destruct (construct_errors sn rs ps) as [E1 [E2 E3]].
  split; [exact E1|]. split.
  - intros S NC. destruct (E2 S NC) as [t [Ht _]]. exists t. exact Ht.
  - intros S C. specialize (E3 S C). unfold balance_spec in E3. split; [|split].
    + intros N. apply E3. apply Z.eqb_neq in N. rewrite N. reflexivity.
    + intros E N. apply E3. apply Z.eqb_eq in E. apply Z.eqb_neq in N. rewrite E, N. reflexivity.
    + intros E E' N. apply E3. apply Z.eqb_eq in E, E'. apply Z.eqb_neq in N. rewrite E, E', N. reflexivity.
Qed.

(* The type follows solely from the numbers of reactant and product molecules: classify IS the
   documented table, and two successfully constructed reactions with the same counts have the same
   type whatever their species, charges, solvents and energies. *)
Theorem classify_depends_only_on_counts :
  (forall nr np, classify nr np = classify_table nr np) /\
  (forall sn rs ps sn' rs' ps' r r',
     List.length rs = List.length rs' -> List.length ps = List.length ps' ->
     construct sn rs ps = COk r -> construct sn' rs' ps' = COk r' -> rtype r = rtype r').
Proof.
  split; [exact classify_is_table|].
  intros sn rs ps sn' rs' ps' r r' Hr Hp H H'.
  destruct (construct_ok_fields _ _ _ _ H) as [Ht _]. destruct (construct_ok_fields _ _ _ _ H') as [Ht' _].
  rewrite Ht, Ht', Hr, Hp. reflexivity.
Qed.

(* Reaction energies / enthalpies / free energies and barriers equal the sum over products (or the
   transition state delta uses) minus the sum over reactants, every contribution (E, H_cont, G_cont)
   converted to Hartree on its own.  The TS used is the LOWEST one: a member of tss such that every TS
   that has an energy has, converted to Hartree, at least its energy (is_lowest_energy is stated with
   the conversion to Hartree, independently of the generated comparison key). *)
Theorem delta_is_sum_products_minus_sum_reactants : forall r s k,
  (forall m, In m (reacs r ++ prods r ++ tss r) -> units_ok m) ->
  (delta_kind s = Some (k, false) -> delta r s = diff_spec k (prods r) (reacs r)) /\
  (delta_kind s = Some (k, true) -> forall t, lowest_ts (tss r) = LOk (Some t) ->
     delta r s = diff_spec k [t] (reacs r) /\ is_lowest_energy (tss r) t).
Proof.
  intros r s k U. split.
  - intros H. apply delta_kind_parse in H. rewrite (delta_nonts _ _ _ H). apply diff_is_spec.
    intros m Hm. apply U. apply in_app_or in Hm as [Hm|Hm]; apply in_or_app; [right; apply in_or_app; left|left]; exact Hm.
  - intros H t L. apply delta_kind_parse in H. pose proof (lowest_ts_lowest_energy _ _ L) as Hlow.
    split; [|exact Hlow]. rewrite (delta_ts_some _ _ _ _ H L). apply diff_is_spec.
    intros m Hm. apply U. apply in_app_or in Hm as [[<-|[]]|Hm]; apply in_or_app;
      [right; apply in_or_app; right; exact (proj1 Hlow)|left; exact Hm].
Qed.

(* A non-empty list of transition states always yields one (TSs without an energy are skipped, the first
   is used when none has an energy), so a barrier is a value in Hartree or None, never an exception. *)
Theorem delta_barrier_never_raises : forall r s k, delta_kind s = Some (k, true) ->
  (tss r <> [] -> exists t, lowest_ts (tss r) = LOk (Some t)) /\
  (delta r s = DNone \/ exists x, delta r s = DVal x target_u).
Proof.
  intros r s k H. split; [apply lowest_ts_total; exact lowest_unit_some|].
  apply delta_kind_parse in H. destruct (tss r) as [|t0 l] eqn:E.
  - rewrite (delta_barrierless _ _ _ H E). apply estimate_none_or_val.
  - assert (Hne : tss r <> []) by (rewrite E; discriminate).
    destruct (lowest_ts_total (tss r) lowest_unit_some Hne) as [t L]. rewrite (delta_ts_some _ _ _ _ H L). apply diff_none_or_val.
Qed.

(* ... independent of the units in which individual energies were supplied: re-expressing any
   contributions (of reactants, products and any number of transition states) in other implemented energy
   units (reaction_equiv) leaves EVERY delta unchanged, barriers included. *)
Theorem delta_unit_independent : forall r r' s, reaction_equiv r r' -> delta r' s = delta r s.
Proof. intros r r' s H. apply delta_equiv; [exact H|]. intros _. right. exact lowest_unit_some. Qed.

(* ... also for the way energies are SUPPLIED, `species.energy = v` (v None, a number/str = Hartree by
   documentation, or an Energy of any class in any unit; Energies.append de-duplicates): afterwards the
   species' potential energy is the entry the setter appended, whatever the list held before; and that
   entry carries the physical quantity assigned (setter_mode is generated from the setter's branches;
   on a tree where a non-potential Energy is cast by PotentialEnergy(float(v)) the statement is refuted
   by 1 kcal mol-1 becoming 1 Ha). *)
Theorem energy_supply_spec :
  (forall v s, sp_energy (set_energy v s) =
               match supplied_entry_m setter_mode v with Some e => Some (ex e, eu e) | None => sp_energy s end) /\
  (forall other l, (forall item, In item l -> energy_eqb other item = false) -> energies_append other l = l ++ [other]) /\
  match setter_mode with
  | O => exists c x u, In u energy_units /\ forall e, supplied_entry_m 0 (SEnergy c x u) = Some e ->
           supplied_default (SEnergy c x u) <> Some (entry_default e)
  | S m => forall v e, supplied_units_ok v -> supplied_entry_m (S m) v = Some e ->
           supplied_default v = Some (entry_default e)
  end.
Proof.
  split; [intros v s; apply set_energy_m_energy|]. split; [exact energies_append_fresh|].
  destruct setter_mode as [|m]; [exact supplied_entry_drops|].
  intros v e Hu E. apply (supplied_entry_keeps (S m)); [discriminate|exact Hu|exact E].
Qed.

(* ... change sign when reactants and products are swapped (non-barrier types); None stays None. *)
Theorem delta_antisymmetric : forall r s k,
  delta_kind s = Some (k, false) ->
  delta (switch r) s = dneg (delta r s) /\
  (delta r s = DNone \/ exists x, delta r s = DVal x target_u /\ delta (switch r) s = DVal (- x) target_u).
Proof.
  intros r s k H. apply delta_kind_parse in H. pose proof (delta_switch r s k H) as S. split; [exact S|].
  rewrite S, (delta_nonts _ _ _ H). destruct (diff_none_or_val k (prods r) (reacs r)) as [E|[x E]]; rewrite E;
    [left; reflexivity|right; exists x; split; reflexivity].
Qed.

(* ... and are undefined exactly when a required contribution is missing: delta is None iff some
   species it sums over lacks the potential energy or the H / G correction the kind needs; otherwise
   it is a value in Hartree (never an exception). *)
Theorem delta_none_iff_missing : forall r s k,
  (delta_kind s = Some (k, false) ->
     (delta r s = DNone <-> exists m, In m (reacs r ++ prods r) /\ ~ complete k m) /\
     (delta r s = DNone \/ exists x, delta r s = DVal x target_u)) /\
  (delta_kind s = Some (k, true) -> forall t, lowest_ts (tss r) = LOk (Some t) ->
     (delta r s = DNone <-> exists m, In m (reacs r ++ [t]) /\ ~ complete k m) /\
     (delta r s = DNone \/ exists x, delta r s = DVal x target_u)) /\
  (delta_kind s = Some (k, true) -> tss r = [] ->
     (delta r s = DNone <-> exists m, In m (reacs r ++ prods r) /\ ~ complete k m) /\
     (delta r s = DNone \/ exists x, delta r s = DVal x target_u)).
Proof.
  intros r s k.
  assert (R : forall a b, (diff k a b = DNone <-> exists m, In m (b ++ a) /\ ~ complete k m)).
  { intros a b. rewrite diff_none. split; intros [m [Hm Hc]]; exists m; (split; [exact Hm|]); apply sp_get_none_iff; exact Hc. }
  split; [|split].
  - intros H. apply delta_kind_parse in H. rewrite (delta_nonts _ _ _ H). split; [apply R|apply diff_none_or_val].
  - intros H t L. apply delta_kind_parse in H. rewrite (delta_ts_some _ _ _ _ H L). split; [apply R|apply diff_none_or_val].
  - intros H L. apply delta_kind_parse in H. rewrite (delta_barrierless _ _ _ H L).
    split; [rewrite estimate_none_iff; apply R|apply estimate_none_or_val].
Qed.

(* A missing transition state gives the documented diffusion-limit estimate: max(0, reaction delta),
   plus 0.00694 Ha (= 4.35 kcal mol-1) unless the reaction is a rearrangement; None when the
   reaction delta is None. *)
Theorem barrierless_estimate_spec : forall r s k,
  delta_kind s = Some (k, true) -> tss r = [] ->
  (diff_spec k (prods r) (reacs r) = DNone ->
     (forall m, In m (reacs r ++ prods r) -> units_ok m) -> delta r s = DNone) /\
  (forall d, diff k (prods r) (reacs r) = DVal d target_u ->
     exists v, delta r s = DVal (v + (if opt_string_eqb (rtype r) (Some "rearrangement") then 0 else barrierless_const)) target_u /\
               (0 < d -> v = d) /\ (d <= 0 -> v = 0)) /\
  close (qc 1 1000000000000) barrierless_const (qc 694 100000) = true /\
  close (qc 1 100) (conv barrierless_const target_u (unit_of_alias "kcal mol-1")) (qc 435 100) = true.
Proof.
  intros r s k H L. apply delta_kind_parse in H. rewrite (delta_barrierless _ _ _ H L).
  split; [|split; [|exact barrierless_const_value]].
  - intros E U. rewrite diff_is_spec, E; [reflexivity|].
    intros m Hm. apply U. apply in_app_or in Hm as [Hm|Hm]; apply in_or_app; [right|left]; exact Hm.
  - intros d E. rewrite E. destruct (estimate_spec r d target_u eq_refl) as [v [Ev Hv]].
    exists v. split; [exact Ev|exact Hv].
Qed.

(* All documented spellings map to the documented kind ("E‡" == "E ddagger" == "E double dagger" ...),
   and NO string that contains "free" (in any letter case) maps to the potential energy. *)
Theorem delta_kind_table :
  (delta_kind "E" = Some (KEnergy, false) /\ delta_kind "H" = Some (KEnthalpy, false) /\
   delta_kind "G" = Some (KFree, false) /\
   delta_kind "E‡" = Some (KEnergy, true) /\ delta_kind "H‡" = Some (KEnthalpy, true) /\
   delta_kind "G‡" = Some (KFree, true) /\
   delta_kind "E ddagger" = Some (KEnergy, true) /\ delta_kind "H ddagger" = Some (KEnthalpy, true) /\
   delta_kind "G ddagger" = Some (KFree, true) /\
   delta_kind "E double dagger" = Some (KEnergy, true) /\ delta_kind "H double dagger" = Some (KEnthalpy, true) /\
   delta_kind "G double dagger" = Some (KFree, true) /\
   delta_kind "energy" = Some (KEnergy, false) /\ delta_kind "enthalpy" = Some (KEnthalpy, false) /\
   delta_kind "free_energy" = Some (KFree, false) /\ delta_kind "free energy" = Some (KFree, false)) /\
  (forall s ts, containsb (B "free") (lower (B s)) = true -> delta_kind s <> Some (KEnergy, ts)).
Proof.
  split; [repeat split; vm_compute; reflexivity|].
  intros s ts Hc H. unfold delta_kind in H.
  destruct (etype_l (lower (B s))) as [k|] eqn:E; [|discriminate]. cbn [option_map] in H.
  injection H as -> _. exact (free_never_potential _ Hc E).
Qed.

(* Letter case never matters, and delta depends on the string only through what the parser extracts:
   two strings with the same lower-casing give the same kind and the same delta on every reaction. *)
Theorem delta_kind_case_insensitive : forall s s',
  lower (B s) = lower (B s') ->
  delta_kind s = delta_kind s' /\ forall r, delta r s = delta r s'.
Proof.
  intros s s' H. split; [unfold delta_kind; rewrite H; reflexivity|].
  intros r. unfold delta, parse. rewrite H. reflexivity.
Qed.

(* Histories: after any sequence of switch / save+load / set-TS / append-TS operations the reaction is
   the original one or its switched image (parity of switches), carrying the list of transition states
   that the ts-setter / append operations produce (switch and save/load never touch it); reaction-type
   deltas only follow the parity of switches. *)
Theorem history_preserves :
  (forall ops r, forallb no_update ops = true ->
     run_ops ops r = set_tss (if odd_switches ops then switch r else r) (tss_after ops (tss r))) /\
  (forall ops r, (forall o, In o ops -> o = OSwitch \/ o = OSaveLoad) ->
     run_ops ops r = (if odd_switches ops then switch r else r) /\ tss (run_ops ops r) = tss r) /\
  (forall ops r s k, forallb no_update ops = true -> delta_kind s = Some (k, false) ->
     delta (run_ops ops r) s = (if odd_switches ops then dneg (delta r s) else delta r s)).
Proof.
  split; [intros ops r H; apply run_ops_spec; exact H|]. split.
  { intros ops r H. rewrite (run_ops_parity ops H). split; [reflexivity|]. destruct (odd_switches ops); reflexivity. }
  intros ops r s k Hu H. rewrite (run_ops_spec ops Hu). apply delta_kind_parse in H. rewrite (delta_nonts_set_tss _ _ _ _ H).
  destruct (odd_switches ops); [|reflexivity]. apply (delta_switch r s k H).
Qed.

(* PARTIAL (definitional): "saving and reloading a checkpoint preserves all of these values".  In the model
   save is the identity on the six modelled attributes and load copies them, so the first conjunct is a
   restatement of that definition: pickle is an ORACLE.  What ties the clause to the code is (a) the
   translator's statement-by-statement match of Reaction.save / load and of the decorator and (b) the
   pickle round-trip oracle run on every generated reaction.  What IS proved is the decorator's logic over
   that oracle: a step that ran >= 1 s without raising stores its state under its key and every later
   run with that key gets exactly that state without executing; a step < 1 s, or one that RAISED, stores
   nothing; a different key is unaffected. *)
Theorem checkpoint_roundtrip_partial :
  (forall r r' s, load (save r) r' = r /\ delta (load (save r) r') s = delta r s) /\
  (forall store key f r e1, lookup_ckpt key store = None -> ~ e1 < 1 ->
     ckpt_keyed store key e1 false f r = (f r, (key, save (f r)) :: store)) /\
  (forall store key c g r2 e2 b, lookup_ckpt key store = Some c ->
     ckpt_keyed store key e2 b g r2 = (load c r2, store) /\ load c r2 = c) /\
  (forall store key f r e1, lookup_ckpt key store = None -> e1 < 1 ->
     ckpt_keyed store key e1 false f r = (f r, store)) /\
  (forall store key f r e1, lookup_ckpt key store = None ->
     ckpt_keyed store key e1 true f r = (f r, store)) /\
  (forall store key k2 c, k2 <> key -> lookup_ckpt k2 ((key, c) :: store) = lookup_ckpt k2 store).
Proof.
  split; [intros r r' s; rewrite load_save; split; reflexivity|].
  split.
  { intros store key f r e1 L N. unfold ckpt_keyed. rewrite L, ckpt_first_run; [reflexivity|].
    rewrite checkpoint_threshold_is_one_second.
    destruct (Qcltb e1 1) eqn:E; [|reflexivity]. exfalso. apply N. apply Units.Qcltb_lt. exact E. }
  split.
  { intros store key c g r2 e2 b L. unfold ckpt_keyed. rewrite L, ckpt_rerun. cbn [fst snd].
    split; [reflexivity|]. destruct c; reflexivity. }
  split.
  { intros store key f r e1 L Hlt. unfold ckpt_keyed. rewrite L, ckpt_short_run; [reflexivity|].
    rewrite checkpoint_threshold_is_one_second. apply Units.Qcltb_lt. exact Hlt. }
  split.
  { intros store key f r e1 L. unfold ckpt_keyed. rewrite L, ckpt_raised. reflexivity. }
  intros store key k2 c N. cbn [lookup_ckpt]. destruct (String.eqb k2 key) eqn:E; [|reflexivity].
  apply String.eqb_eq in E. congruence.
Qed.

(* The ts setter (clauses 1, 2 restate run_op; the content is in the delta equations and persistence):
   `reaction.ts = None` removes every transition state held (the reaction is
   barrierless again and every barrier is the diffusion-limit estimate of barrierless_estimate_spec),
   `reaction.ts = t` makes t the only one (every barrier is t minus the reactants); both persist
   through any later switch / save / load. *)
Theorem ts_setter_spec : forall r,
  (tss (run_op (OSetTS None) r) = [] /\ is_barrierless (run_op (OSetTS None) r) = true /\
   forall s k, delta_kind s = Some (k, true) ->
     delta (run_op (OSetTS None) r) s = estimate r (diff k (prods r) (reacs r))) /\
  (forall t, tss (run_op (OSetTS (Some t)) r) = [t] /\ is_barrierless (run_op (OSetTS (Some t)) r) = false /\
   forall s k, delta_kind s = Some (k, true) -> delta (run_op (OSetTS (Some t)) r) s = diff k [t] (reacs r)) /\
  (forall x ops, (forall o, In o ops -> o = OSwitch \/ o = OSaveLoad) ->
     tss (run_ops ops (run_op (OSetTS x) r)) = match x with None => [] | Some t => [t] end) /\
  (* assigning something that is not a TransitionState raises ValueError AFTER the list was cleared *)
  run_op OSetTSInvalid r = run_op (OSetTS None) r.
Proof.
  intros r. split; [|split; [|split; [|reflexivity]]].
  - split; [reflexivity|]. split; [unfold is_barrierless; cbn [run_op set_tss tss]; rewrite lowest_ts_nil; reflexivity|].
    intros s k H. apply delta_kind_parse in H.
    rewrite (delta_barrierless (run_op (OSetTS None) r) s k H eq_refl). reflexivity.
  - intros t. split; [reflexivity|].
    split; [unfold is_barrierless; cbn [run_op set_tss tss]; rewrite lowest_ts_single; reflexivity|].
    intros s k H. apply delta_kind_parse in H.
    rewrite (delta_ts_some (run_op (OSetTS (Some t)) r) s k t H (lowest_ts_single t)). reflexivity.
  - intros x ops H. rewrite (run_ops_parity ops H).
    destruct (odd_switches ops); destruct x; reflexivity.
Qed.

(* ---------------------------------------------------------------------------------------------
   Statements of the property that are FALSE of the faithful model (findings; see harness/c05.py) *)

(* "its type follows solely from the numbers of reactant and product molecules" over switch
   histories: switch_reactants_products swaps the lists but keeps the old type. *)
Theorem type_after_switch_refuted :
  exists sn rs ps r, construct sn rs ps = COk r /\
    rtype (switch r) <> type_of_cres (classify (List.length (reacs (switch r))) (List.length (prods (switch r)))).
Proof.
  destruct witness_type_after_switch as [r [H [Ht Hc]]].
  exists None, [w_sp 1 []; w_sp 1 []], [w_sp 2 []], r. split; [exact H|]. rewrite Ht, Hc. discriminate.
Qed.

(* ---------------------------------------------------------------------------------------------
   non-vacuity: hypotheses of the theorems above are satisfiable *)
Example nonvacuous :
  (exists r, construct None [w_sp 1 []; w_sp 1 []] [w_sp 2 []] = COk r) /\
  (exists sn rs ps, supported (List.length rs) (List.length ps) /\ solvents_consistent sn (rs ++ ps) /\
                    balanced rs ps /\ rs <> []) /\
  (exists s, containsb (B "free") (lower (B s)) = true /\ delta_kind s = Some (KFree, false)) /\
  reaction_equiv (w_r w_ts2) (w_r w_ts2') /\
  (exists x, delta (w_r w_ts2) "E" = DVal x target_u) /\
  (exists x, delta (mkR [w_end] [w_end] [] (Some "rearrangement") None 0%Z) "G‡" = x /\ x = DNone) /\
  (exists x, delta (mkR [w_end] [w_end] [] (Some "addition") None 0%Z) "E‡" = DVal x target_u /\ 0 < x).
Proof.
  split; [destruct witness_type_after_switch as [r [H _]]; exists r; exact H|].
  split.
  { exists None, [w_sp 1 []], [w_sp 1 []]. split; [unfold supported; cbn; tauto|].
    split; [right; left; intros m [<-|[<-|[]]]; reflexivity|].
    split; [repeat split; reflexivity|discriminate]. }
  split; [exists "Free Energy"; split; vm_compute; reflexivity|].
  split; [exact w_equiv|].
  split; [eexists; vm_compute; reflexivity|].
  split; [eexists; split; [reflexivity|vm_compute; reflexivity]|].
  eexists. split; [vm_compute; reflexivity|]. vm_compute. reflexivity.
Qed.
