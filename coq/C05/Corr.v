(* C05/Corr.v — helpers used only by the correspondence check (model vs implementation). *)
From Coq Require Import ZArith QArith Qcanon List String Ascii Bool.
From AV.lib Require Import QcInst.
From AV.C06 Require Import Base.
From AV.C05 Require Import Units.
From AV.gen Require Import C05_Units_Gen C05_Gen.
From AV.C05 Require Import Base Model.
Import ListNotations.
Open Scope string_scope.
Open Scope list_scope.

(* a Python str given by its UTF-8 byte codes *)
Definition SB (codes : list nat) : string := string_of_list_ascii (map ascii_of_nat codes).

(* energy unit by its .name *)
Definition U (nm : string) : unit :=
  match find (fun u => String.eqb (uname u) nm) energy_units with Some u => u | None => no_unit end.
Definition En (c : ecls) (x : Qc) (nm : string) : entry := mkE c x (U nm).

(* what is assigned to Species.energy, unit by name *)
Definition SE (c : ecls) (x : Qc) (nm : string) : supplied := SEnergy c x (U nm).

Definition tol : Qc := qc 1 1000000000.   (* 1e-9 relative (absolute below 1) *)

(* short names for strings that recur in every generated case (keeps the case files small) *)
Definition nHa := "Ha".  Definition nKcal := "kcal mol-1".  Definition nKj := "kJ mol-1".
Definition nEv := "eV".  Definition nJ := "J".
Definition cPE := "PotentialEnergy".  Definition cH := "Enthalpy".  Definition cG := "FreeEnergy".
Definition nth_str (l : list string) (i : nat) : string := nth i l "".

(* ---------------------------------------------------------------- constructor *)
Inductive cexp :=
| XOk (type : option string) (solvent : option nat) (charge : Z) (solvents : list (option nat))
| XFail (exc tag : string).
Fixpoint list_eqb {A} (eqb : A -> A -> bool) (a b : list A) : bool :=
  match a, b with
  | [], [] => true
  | x :: a', y :: b' => eqb x y && list_eqb eqb a' b'
  | _, _ => false
  end.
Definition check_ctor (sn : option nat) (rs ps : list species) (e : cexp) : bool :=
  match construct sn rs ps, e with
  | COk r, XOk t s c sv =>
      opt_string_eqb (rtype r) t && opt_nat_eqb (rsolvent r) s && Z.eqb (rcharge r) c &&
      list_eqb opt_nat_eqb (map s_solvent (reacs r ++ prods r)) sv
  | CFail a b, XFail a' b' => String.eqb a a' && String.eqb b b'
  | _, _ => false
  end.

(* the reaction the implementation holds after a successful construction, with TSs appended *)
Definition built (sn : option nat) (rs ps ts : list species) : reaction :=
  match construct sn rs ps with
  | COk r => mkR (reacs r) (prods r) ts (rtype r) (rsolvent r) (rcharge r)
  | CFail _ _ => mkR [] [] [] None None 0%Z
  end.

(* ---------------------------------------------------------------- delta *)
Inductive dexp :=
| XVal (x : Qc) (unit_name : string) (class : string) (estimated : bool)   (* "" = not an Energy: skip *)
| XNone
| XErr (exc : string).
(* class / is_estimated of the object delta returns *)
Definition delta_meta (r : reaction) (s : string) : string * bool :=
  match delta_kind s with
  | Some (k, true) => match lowest_ts (tss r) with
                      | LOk None => (estimate_class k, true)
                      | _ => (value_class k, false)
                      end
  | Some (k, false) => (value_class k, false)
  | None => ("", false)
  end.
Definition check_dres (r : reaction) (s : string) (d : dres) (e : dexp) : bool :=
  match d, e with
  | DVal x u, XVal y un cl est =>
      close tol x y &&
      (* a bare number (no Energy object) is what sum([]) - sum(lhs) gives: only without products, non-barrier *)
      ((String.eqb cl "" && negb (snd (parse s)) && match prods r with [] => true | _ => false end) ||
       (String.eqb (uname u) un && String.eqb (fst (delta_meta r s)) cl && Bool.eqb (snd (delta_meta r s)) est))
  | DNone, XNone => true
  | DErr a, XErr b => String.eqb a b
  | _, _ => false
  end.
Definition check_delta (r : reaction) (s : string) (e : dexp) : bool := check_dres r s (delta r s) e.
Definition check_deltas_slow (r : reaction) (l : list (string * dexp)) : bool :=
  forallb (fun p => check_delta r (fst p) (snd p)) l.

(* the same, evaluating delta_parsed once per possible parse (8 of them) instead of once per string *)
Definition pidx (p : option ekind * bool) : nat :=
  (match fst p with None => 0 | Some KEnergy => 1 | Some KEnthalpy => 2 | Some KFree => 3 end
   + if snd p then 4 else 0)%nat.
Definition all_parses : list (option ekind * bool) :=
  [(None, false); (Some KEnergy, false); (Some KEnthalpy, false); (Some KFree, false);
   (None, true); (Some KEnergy, true); (Some KEnthalpy, true); (Some KFree, true)].
Definition check_deltas (r : reaction) (l : list (string * dexp)) : bool :=
  let tbl := map (delta_parsed r) all_parses in
  forallb (fun p => check_dres r (fst p) (nth (pidx (parse (fst p))) tbl DNone) (snd p)) l.
Lemma check_deltas_is_slow r l : check_deltas r l = check_deltas_slow r l.
Proof.
  unfold check_deltas, check_deltas_slow, check_delta, delta.
  induction l as [|[s e] l IH]; [reflexivity|]. cbn [forallb fst snd]. rewrite IH. f_equal.
  replace (nth (pidx (parse s)) (map (delta_parsed r) all_parses) DNone) with (delta_parsed r (parse s)); [reflexivity|].
  destruct (parse s) as [[[| |]|] [|]]; reflexivity.
Qed.

(* the observable state after a step of a history: len(tss), is_barrierless, and the energy of
   reaction.ts (TNone: ts is None; TErr: evaluating ts raised) *)
Inductive tsexp := TNone | TSome (e : option (Qc * string)) | TErr.
Definition check_state (h : reaction) (n : nat) (b : option bool) (e : tsexp) : bool :=
  Nat.eqb (List.length (tss h)) n &&
  match b with Some b' => Bool.eqb (is_barrierless h) b' | None => true end &&
  match lowest_ts (tss h), e with
  | LOk None, TNone => true
  | LOk (Some t), TSome None => is_none (sp_energy t)
  | LOk (Some t), TSome (Some (x, u)) =>
      match sp_energy t with Some (y, v) => Qceqb x y && String.eqb (uname v) u | None => false end
  | LErr, TErr => true
  | _, _ => false
  end.

(* reaction_types.classify called directly *)
Definition cres_eqb (a b : cres) : bool :=
  match a, b with
  | CRNone, CRNone => true
  | CRType x, CRType y => String.eqb x y
  | CRRaise x, CRRaise y => String.eqb x y
  | _, _ => false
  end.
Definition check_classify (nr np : nat) (e : cres) : bool := cres_eqb (classify nr np) e.

(* delta_type parsing alone: expected e_type name ("" = ValueError) and is_ts *)
Definition check_kind (s : string) (name : string) (ts : bool) : bool :=
  match delta_kind s with
  | Some (k, t) => String.eqb (etype_name k) name && Bool.eqb t ts
  | None => String.eqb name ""
  end.
