(* C05/Base.v — the record types the generated tables (gen/C05_Gen.v) are written in. *)
From Coq Require Import ZArith QArith Qcanon List String.
Import ListNotations.

(* result of one rule of reaction_types.classify *)
Inductive cres :=
| CRNone                      (* return None *)
| CRType (name : string)      (* return <ReactionType name> *)
| CRRaise (exc : string).     (* raise <exception class> *)

(* one `if` of classify: allowed n_reactants (None = unconstrained), allowed n_products, result *)
Definition crule := (option (list nat) * option (list nat) * cres)%type.

(* one check of Reaction._check_balance:
   if total(reacs, attr) [- len(reacs)] != total(prods, attr) [- len(prods)]: raise exc(msg) *)
Record bcheck := mkB { battr : string; bminus_len : bool; bexc : string; bmsg : string }.

(* one branch of the e_type chain of Reaction.delta:
   if delta_type_matches(pos...) [and not delta_type_matches(neg...)]: e_type = name *)
Record krule := mkK { kpos : list string; kneg : list string; kname : string }.
