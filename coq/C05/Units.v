(* C05/Units.v — unit look-up and the algebra of the GENERATED conversion arithmetic `conv`
   (gen/C05_Units_Gen.v: C05's own output of tr/translate_units.py; only the record type of
   C06/Base.v is shared with C06, none of C06's hand-written files). *)
From Coq Require Import ZArith QArith Qcanon List String Bool Field Lia.
From AV.lib Require Import QcInst.
From AV.C06 Require Import Base.
From AV.gen Require Import C05_Units_Gen.
Import ListNotations.
Open Scope string_scope.

(* next(u for u in implemented_units if name.lower() in u.aliases)   (values.py:52-56, 95-99) *)
Definition has_alias (a : string) (u : unit) : bool := existsb (String.eqb a) (ualiases u).
Definition find_unit (cls : list unit) (a : string) : option unit := find (has_alias a) cls.
Definition Qceqb (a b : Qc) : bool := Qeq_bool (this a) (this b).

Open Scope Qc_scope.
Lemma Qceqb_eq a b : Qceqb a b = true -> a = b.
Proof. unfold Qceqb. intros H. apply Qeq_bool_eq in H. apply Qc_is_canon. exact H. Qed.
Lemma Qcltb_lt a b : Qcltb a b = true <-> a < b.
Proof.
  unfold Qcltb, Qclt. rewrite negb_true_iff. split.
  - intros H. apply Qnot_le_lt. intros Hle. apply Qle_bool_iff in Hle. congruence.
  - intros H. destruct (Qle_bool b a) eqn:E; [|reflexivity].
    apply Qle_bool_iff in E. exfalso. apply (Qlt_not_le _ _ H). exact E.
Qed.
Lemma Qclt_irrefl a : ~ a < a.
Proof. intros H. apply (Qclt_not_eq _ _ H). reflexivity. Qed.
Lemma pos_nonzero x : 0 < x -> x <> 0.
Proof. intros H E. subst x. apply (Qclt_irrefl _ H). Qed.

Lemma conv_path_gen x u v w :
  utimes u <> 0 -> utimes v <> 0 -> utimes w <> 0 ->
  (uadd u = uadd v \/ utimes v = utimes w) ->
  conv (conv x u v) v w = conv x u w.
Proof.
  intros Hu Hv Hw [Ha|Ht]; unfold conv.
  - rewrite Ha. field. split; assumption.
  - rewrite Ht. field. split; assumption.
Qed.
Lemma conv_same x u : utimes u <> 0 -> conv x u u = x.
Proof. intros Hu. unfold conv. field. exact Hu. Qed.
Lemma conv_linear_add x y u v : utimes u <> 0 -> uadd u = 0 -> uadd v = 0 ->
  conv (x + y) u v = conv x u v + conv y u v.
Proof. intros Hu Hau Hav. unfold conv. rewrite Hau, Hav. field. exact Hu. Qed.
Lemma find_unit_some cls a u : find_unit cls a = Some u -> In u cls /\ has_alias a u = true.
Proof. unfold find_unit. apply find_some. Qed.
