(* C05/Lemmas.v — specification-side definitions and the proofs behind coq/C05/Props.v. *)
From Coq Require Import ZArith QArith Qcanon List String Ascii Bool Field Lia.
From AV.lib Require Import QcInst.
From AV.C06 Require Import Base.
From AV.C05 Require Import Units.
From AV.gen Require Import C05_Units_Gen C05_Gen.
From AV.C05 Require Import Base Model.
Import ListNotations.
Open Scope string_scope.
Open Scope list_scope.

(* ================================================================== 1. byte strings *)
Definition free : bytes := B "free".

Lemma prefixb_split p s : prefixb p s = true -> exists r, s = p ++ r.
Proof.
  revert s. induction p as [|a p IH]; intros s H; [exists s; reflexivity|].
  destruct s as [|b s]; [discriminate|]. cbn [prefixb] in H. apply andb_true_iff in H as [E H].
  apply Ascii.eqb_eq in E. subst b. destruct (IH _ H) as [r ->]. exists r. reflexivity.
Qed.

Lemma containsb_cons p c s : containsb p s = true -> containsb p (c :: s) = true.
Proof. intros H. cbn [containsb]. rewrite H. apply orb_true_r. Qed.

(* a replace() pattern that cannot touch an occurrence of "free": it has no 'f' and does not start
   with 'r' or 'e' (so no match can begin inside "free", nor reach it from the left) *)
Definition notf (c : ascii) : bool := negb (Ascii.eqb c "f").
Definition pat_ok (p : bytes) : bool :=
  forallb notf p &&
  match p with c :: _ => negb (Ascii.eqb c "r") && negb (Ascii.eqb c "e") | [] => false end.

Lemma prefixb_head_neq p c t : match p with a :: _ => Ascii.eqb a c = false | [] => False end ->
  prefixb p (c :: t) = false.
Proof. destruct p as [|a p]; [intros []|]. intros H. cbn [prefixb]. rewrite H. reflexivity. Qed.

Lemma firstn_prefix p t : prefixb p t = true -> firstn (List.length p) t = p.
Proof. intros H. destruct (prefixb_split _ _ H) as [r ->]. rewrite firstn_app, firstn_all, Nat.sub_diag. cbn. apply app_nil_r. Qed.

Lemma prefixb_free c t : prefixb free (c :: t) = Ascii.eqb "f" c && prefixb ["r"; "e"; "e"]%char t.
Proof. reflexivity. Qed.
Lemma prefixb_free_false c t : Ascii.eqb c "f" = false -> prefixb free (c :: t) = false.
Proof. intros H. rewrite prefixb_free, Ascii.eqb_sym, H. reflexivity. Qed.

Lemma remove_go_keeps_free p : pat_ok p = true ->
  forall s k, forallb notf (firstn k s) = true -> containsb free s = true ->
  containsb free (remove_go p k s) = true.
Proof.
  intros Hp. unfold pat_ok in Hp. apply andb_true_iff in Hp as [Hnf Hhd].
  destruct p as [|a p']; [discriminate|]. apply andb_true_iff in Hhd as [Hr He].
  apply negb_true_iff in Hr, He.
  cbn [forallb] in Hnf. apply andb_true_iff in Hnf as [Haf Hp'f].
  unfold notf in Haf. apply negb_true_iff in Haf.
  induction s as [|c t IH]; intros k Hk Hc; [discriminate|].
  cbn [containsb] in Hc. destruct k as [|k].
  - cbn [remove_go]. destruct (prefixb (a :: p') (c :: t)) eqn:Hm.
    + (* a match starts here: c = a is not 'f' *)
      cbn [prefixb] in Hm. apply andb_true_iff in Hm as [Eac Hm]. apply Ascii.eqb_eq in Eac. subst c.
      rewrite (prefixb_free_false _ _ Haf) in Hc. cbn [orb] in Hc.
      apply IH; [|exact Hc]. cbn [List.length]. rewrite Nat.sub_succ, Nat.sub_0_r.
      rewrite (firstn_prefix _ _ Hm). exact Hp'f.
    + destruct (prefixb free (c :: t)) eqn:Hf.
      * (* "free" starts here and survives verbatim *)
        rewrite prefixb_free in Hf. apply andb_true_iff in Hf as [E0 Hf].
        destruct t as [|c1 [|c2 [|c3 rest]]]; cbn [prefixb] in Hf; try (rewrite ?andb_false_r in Hf; discriminate).
        apply andb_true_iff in Hf as [E1 Hf].
        apply andb_true_iff in Hf as [E2 Hf]. apply andb_true_iff in Hf as [E3 _].
        apply Ascii.eqb_eq in E0, E1, E2, E3. subst c c1 c2 c3.
        cbn [remove_go].
        rewrite (prefixb_head_neq (a :: p') "r" _ Hr). cbn [remove_go].
        rewrite (prefixb_head_neq (a :: p') "e" _ He). cbn [remove_go].
        rewrite (prefixb_head_neq (a :: p') "e" _ He).
        cbn [containsb]. rewrite prefixb_free. cbn [prefixb]. repeat rewrite Ascii.eqb_refl. reflexivity.
      * cbn [orb] in Hc. apply containsb_cons. apply IH; [reflexivity|exact Hc].
  - cbn [remove_go]. cbn [firstn forallb] in Hk. apply andb_true_iff in Hk as [Hcf Hk].
    unfold notf in Hcf. apply negb_true_iff in Hcf.
    rewrite (prefixb_free_false _ _ Hcf) in Hc. cbn [orb] in Hc. apply IH; assumption.
Qed.

Lemma remove_all_keeps_free p s : pat_ok p = true -> containsb free s = true -> containsb free (remove_all p s) = true.
Proof.
  intros Hp Hc. unfold remove_all. destruct p as [|a p']; [exact Hc|].
  apply remove_go_keeps_free; [exact Hp|reflexivity|exact Hc].
Qed.

Lemma fold_remove_keeps_free pats : forallb (fun p => pat_ok (B p)) pats = true ->
  forall l, containsb free l = true ->
  containsb free (fold_left (fun acc p => remove_all (B p) acc) pats l) = true.
Proof.
  induction pats as [|p r IH]; intros H l Hc; [exact Hc|].
  cbn [forallb] in H. apply andb_true_iff in H as [Hp Hr]. cbn [fold_left].
  apply IH; [exact Hr|]. apply remove_all_keeps_free; assumption.
Qed.

(* finite facts about the GENERATED tables *)
Lemma removed_patterns_ok : forallb (fun p => pat_ok (B p)) removed_patterns = true.
Proof. vm_compute. reflexivity. Qed.

Lemma cleaned_keeps_free l : containsb free l = true -> containsb free (cleaned_of l) = true.
Proof. apply fold_remove_keeps_free. exact removed_patterns_ok. Qed.

(* every branch of the e_type chain that yields the potential energy is guarded by `not matches("free")` *)
Definition rule_guards_free (r : krule) : bool :=
  match ekind_of_name (kname r) with
  | Some KEnergy => existsb (String.eqb "free") (kneg r)
  | _ => true
  end.
Lemma kind_rules_guard_free : forallb rule_guards_free kind_rules = true.
Proof. vm_compute. reflexivity. Qed.

Lemma apply_rules_some rules cleaned n : apply_rules rules cleaned = Some n ->
  exists r, In r rules /\ kname r = n /\ matches cleaned (kneg r) = false.
Proof.
  induction rules as [|r t IH]; [discriminate|]. cbn [apply_rules].
  destruct (matches cleaned (kpos r) && negb (matches cleaned (kneg r))) eqn:E.
  - intros H. injection H as <-. apply andb_true_iff in E as [_ E]. apply negb_true_iff in E.
    exists r. split; [left; reflexivity|split; [reflexivity|exact E]].
  - intros H. destruct (IH H) as [r' [Hin Hr']]. exists r'. split; [right; exact Hin|exact Hr'].
Qed.

Lemma free_never_potential l : containsb free l = true -> etype_l l <> Some KEnergy.
Proof.
  intros Hc H. unfold etype_l in H.
  destruct (apply_rules kind_rules (cleaned_of l)) as [n|] eqn:E; [|discriminate].
  destruct (apply_rules_some _ _ _ E) as [r [Hin [Hn Hneg]]].
  pose proof kind_rules_guard_free as G. rewrite forallb_forall in G. specialize (G r Hin).
  unfold rule_guards_free in G. rewrite Hn, H in G.
  apply existsb_exists in G as [x [Hx Ex]]. apply String.eqb_eq in Ex. subst x.
  assert (M : matches (cleaned_of l) (kneg r) = true).
  { unfold matches. apply existsb_exists. exists "free". split; [exact Hx|].
    change (B "free") with free. apply cleaned_keeps_free. exact Hc. }
  congruence.
Qed.

(* ================================================================== 2. classification *)
(* the documented table of reaction_types.classify, written independently of the rule list *)
Definition classify_table (nr np : nat) : cres :=
  match nr, np with
  | 0, 0 => CRNone
  | 0, _ => CRRaise "ReactionFormationFailed"
  | _, 0 => CRRaise "ReactionFormationFailed"
  | 2, 1 => CRType "addition"
  | 1, 2 => CRType "dissociation"
  | 1, 3 => CRType "dissociation"
  | 2, 2 => CRType "substitution"
  | 2, 3 => CRType "elimination"
  | 1, 1 => CRType "rearrangement"
  | _, _ => CRRaise "NotImplementedError"
  end%nat.

Lemma classify_is_table nr np : classify nr np = classify_table nr np.
Proof.
  destruct nr as [|[|[|nr]]]; destruct np as [|[|[|[|np]]]]; reflexivity.
Qed.

Definition supported (nr np : nat) : Prop :=
  In (nr, np) [(0, 0); (2, 1); (1, 2); (1, 3); (2, 2); (2, 3); (1, 1)]%nat.
Definition type_of_cres (c : cres) : option string := match c with CRType n => Some n | _ => None end.

Lemma supported_dec nr np : {supported nr np} + {~ supported nr np}.
Proof.
  unfold supported. apply in_dec. intros [a b] [c d].
  destruct (Nat.eq_dec a c) as [->|N]; [destruct (Nat.eq_dec b d) as [->|N]|]; [left; reflexivity|right; congruence|right; congruence].
Qed.

Lemma classify_supported nr np :
  supported nr np <-> (forall e, classify nr np <> CRRaise e).
Proof.
  rewrite classify_is_table. unfold supported. split.
  - intros H e. cbn in H.
    repeat (destruct H as [H|H]; [injection H as <- <-; discriminate|]). destruct H.
  - intros H.
    destruct nr as [|[|[|nr]]]; destruct np as [|[|[|[|np]]]]; cbn in H |- *;
      try (exfalso; eapply H; reflexivity); tauto.
Qed.

Lemma classify_unsupported nr np : ~ supported nr np ->
  classify nr np = CRRaise (if (Nat.eqb nr 0 || Nat.eqb np 0)%bool then "ReactionFormationFailed" else "NotImplementedError").
Proof.
  intros H. rewrite classify_is_table.
  destruct nr as [|[|[|nr]]]; destruct np as [|[|[|[|np]]]]; try reflexivity;
    exfalso; apply H; unfold supported; cbn; tauto.
Qed.

(* ================================================================== 3. constructor *)
Definition sumZ (l : list Z) : Z := fold_right Z.add 0%Z l.
Definition atoms_of (mols : list species) : Z := sumZ (map s_natoms mols).
Definition charge_of (mols : list species) : Z := sumZ (map s_charge mols).
(* unpaired electrons: sum over molecules of (multiplicity - 1) *)
Definition unpaired_of (mols : list species) : Z := sumZ (map (fun m => s_mult m - 1)%Z mols).
Definition balanced (rs ps : list species) : Prop :=
  atoms_of rs = atoms_of ps /\ charge_of rs = charge_of ps /\ unpaired_of rs = unpaired_of ps.
(* solvents are consistent: a reaction-level solvent is given (it overrides), or every molecule is in
   the gas phase, or every molecule is in one and the same solvent *)
Definition solvents_consistent (sn : option nat) (mols : list species) : Prop :=
  sn <> None \/ (forall m, In m mols -> s_solvent m = None) \/
  (exists s, forall m, In m mols -> s_solvent m = Some s).

Lemma fold_left_add_acc l a : fold_left Z.add l a = (a + sumZ l)%Z.
Proof.
  revert a. induction l as [|x l IH]; intros a; cbn [fold_left sumZ fold_right]; [lia|].
  rewrite IH. unfold sumZ. lia.
Qed.
Lemma total_sum a mols : total a mols = sumZ (map (attr_get a) mols).
Proof. unfold total. rewrite fold_left_add_acc. lia. Qed.
Lemma total_atoms mols : total "n_atoms" mols = atoms_of mols.
Proof. apply total_sum. Qed.
Lemma total_charge mols : total "charge" mols = charge_of mols.
Proof. apply total_sum. Qed.
Lemma total_mult_unpaired mols : (total "mult" mols - Z.of_nat (List.length mols))%Z = unpaired_of mols.
Proof.
  rewrite total_sum. unfold unpaired_of. induction mols as [|m l IH]; [reflexivity|].
  cbn [map sumZ fold_right List.length]. fold (sumZ (map (attr_get "mult") l)).
  fold (sumZ (map (fun m => (s_mult m - 1)%Z) l)). rewrite <- IH.
  change (attr_get "mult" m) with (s_mult m). lia.
Qed.

Lemma attr_get_set_solvent a s m : attr_get a (set_solvent s m) = attr_get a m.
Proof. destruct s; reflexivity. Qed.
Lemma total_set_solvent a s mols : total a (map (set_solvent s) mols) = total a mols.
Proof.
  rewrite !total_sum, map_map. f_equal. apply map_ext. intros m. apply attr_get_set_solvent.
Qed.
Lemma bside_set_solvent c s mols : bside c (map (set_solvent s) mols) = bside c mols.
Proof. unfold bside. rewrite total_set_solvent, map_length. reflexivity. Qed.
Lemma balance_go_set_solvent checks s rs ps :
  balance_go checks (map (set_solvent s) rs) (map (set_solvent s) ps) = balance_go checks rs ps.
Proof.
  induction checks as [|c t IH]; [reflexivity|]. cbn [balance_go]. rewrite !bside_set_solvent, IH. reflexivity.
Qed.

(* the three balance checks, in source order, with the exception each raises *)
Definition balance_spec (rs ps : list species) : option (string * string) :=
  if negb (Z.eqb (atoms_of rs) (atoms_of ps)) then Some ("UnbalancedReaction", "Number of atoms doesn't balance")
  else if negb (Z.eqb (charge_of rs) (charge_of ps)) then Some ("UnbalancedReaction", "Charge doesn't balance")
  else if negb (Z.eqb (unpaired_of rs) (unpaired_of ps))
       then Some ("NotImplementedError", "Found a change in spin state – not implemented yet!")
  else None.
Lemma balance_go_spec rs ps : balance_go balance_checks rs ps = balance_spec rs ps.
Proof.
  unfold balance_checks, balance_spec. cbn [balance_go bexc bmsg]. unfold bside. cbn [battr bminus_len].
  rewrite !total_atoms, !total_charge, !total_mult_unpaired, !Z.sub_0_r.
  destruct (Z.eqb (atoms_of rs) (atoms_of ps)); [|reflexivity].
  destruct (Z.eqb (charge_of rs) (charge_of ps)); [|reflexivity].
  destruct (Z.eqb (unpaired_of rs) (unpaired_of ps)); reflexivity.
Qed.
Lemma balance_spec_none rs ps : balance_spec rs ps = None <-> balanced rs ps.
Proof.
  unfold balance_spec, balanced.
  destruct (Z.eqb_spec (atoms_of rs) (atoms_of ps)) as [E1|E1]; cbn [negb];
    [|split; [discriminate|intros [H _]; contradiction]].
  destruct (Z.eqb_spec (charge_of rs) (charge_of ps)) as [E2|E2]; cbn [negb];
    [|split; [discriminate|intros [_ [H _]]; contradiction]].
  destruct (Z.eqb_spec (unpaired_of rs) (unpaired_of ps)) as [E3|E3]; cbn [negb];
    [tauto|split; [discriminate|intros [_ [_ H]]; contradiction]].
Qed.

(* ---- _check_solvent *)
Lemma forallb_is_none mols : forallb (fun m => is_none (s_solvent m)) mols = true <->
  (forall m, In m mols -> s_solvent m = None).
Proof.
  rewrite forallb_forall. split; intros H m Hm; specialize (H m Hm).
  - destruct (s_solvent m); [discriminate|reflexivity].
  - rewrite H. reflexivity.
Qed.
Lemma opt_nat_eqb_eq a b : opt_nat_eqb a b = true <-> a = b.
Proof.
  destruct a as [x|], b as [y|]; cbn; try (split; congruence).
  rewrite Nat.eqb_eq. split; congruence.
Qed.

Lemma check_solvent_ok sn rs ps : (rs = [] -> ps = []) ->
  (exists s, check_solvent sn rs ps = SolOk s) <-> solvents_consistent sn (rs ++ ps).
Proof.
  intros Hnil. unfold check_solvent, solvents_consistent.
  destruct rs as [|r0 rs'].
  - rewrite (Hnil eq_refl). cbn. split; [intros _; right; left; intros m []|intros _; eexists; reflexivity].
  - cbn [app]. set (mols := r0 :: rs' ++ ps).
    destruct sn as [s|].
    + split; [intros _; left; discriminate|intros _; eexists; reflexivity].
    + destruct (forallb (fun m => is_none (s_solvent m)) mols) eqn:E1.
      * split; [intros _; right; left; apply forallb_is_none; exact E1|intros _; eexists; reflexivity].
      * destruct (forallb (fun m => negb (is_none (s_solvent m))) mols) eqn:E2.
        -- destruct (forallb (fun m => opt_nat_eqb (s_solvent m) (s_solvent r0)) mols) eqn:E3.
           ++ split; [|intros _; eexists; reflexivity]. intros _. right. right.
              rewrite forallb_forall in E2, E3.
              assert (H0 : In r0 mols) by (left; reflexivity).
              pose proof (E2 r0 H0) as N0. destruct (s_solvent r0) as [s0|] eqn:Es0; [|discriminate].
              exists s0. intros m Hm. apply opt_nat_eqb_eq. apply E3. exact Hm.
           ++ split; [intros [s H]; discriminate|]. intros [H|[H|[s H]]]; [congruence| |].
              ** apply forallb_is_none in H. congruence.
              ** exfalso. assert (forallb (fun m => opt_nat_eqb (s_solvent m) (s_solvent r0)) mols = true); [|congruence].
                 apply forallb_forall. intros m Hm. apply opt_nat_eqb_eq.
                 rewrite (H m Hm), (H r0 (or_introl eq_refl)). reflexivity.
        -- split; [intros [s H]; discriminate|]. intros [H|[H|[s H]]]; [congruence| |].
           ** apply forallb_is_none in H. congruence.
           ** exfalso. assert (forallb (fun m => negb (is_none (s_solvent m))) mols = true); [|congruence].
              apply forallb_forall. intros m Hm. rewrite (H m Hm). reflexivity.
Qed.

Lemma check_solvent_err sn rs ps e t : check_solvent sn rs ps = SolErr e t -> rs <> [] ->
  e = "SolventsDontMatch" /\ (t = "differ" \/ t = "mixed").
Proof.
  unfold check_solvent. destruct rs as [|r0 rs']; [congruence|]. cbn [app]. intros H _.
  destruct sn; [discriminate|].
  destruct (forallb _ _) in H; [discriminate|].
  destruct (forallb _ _) in H; [destruct (forallb _ _) in H; [discriminate|]|];
    injection H as <- <-; split; auto.
Qed.

(* ---- the constructor, step by step (ctor_steps is GENERATED: the order of the checks) *)
Definition after_solvent (t : option string) (s : option nat) (rs ps : list species) : cresu :=
  let rs' := map (set_solvent s) rs in
  let ps' := map (set_solvent s) ps in
  match balance_spec rs ps with
  | Some (e, m) => CFail e m
  | None => COk (mkR rs' ps' [] t s (charge_of rs))
  end.
Definition construct_spec (sn : option nat) (rs ps : list species) : cresu :=
  match classify (List.length rs) (List.length ps) with
  | CRRaise e => CFail e ""
  | c => match check_solvent sn rs ps with
         | SolErr e t => CFail e t
         | SolOk s => after_solvent (type_of_cres c) s rs ps
         end
  end.

Lemma construct_is_spec sn rs ps : construct sn rs ps = construct_spec sn rs ps.
Proof.
  unfold construct, construct_spec, ctor_steps. cbn [run_steps].
  change (ctor_step sn "classify" (mkR rs ps [] None None 0%Z)) with
    (match classify (List.length rs) (List.length ps) with
     | CRNone => COk (mkR rs ps [] None None 0%Z)
     | CRType n => COk (mkR rs ps [] (Some n) None 0%Z)
     | CRRaise e => CFail e ""
     end).
  assert (K : forall t, run_steps sn ["get_solvent"; "solvent"; "balance"; "names"] (mkR rs ps [] t None 0%Z) =
              match check_solvent sn rs ps with
              | SolErr e tg => CFail e tg
              | SolOk s => after_solvent t s rs ps
              end).
  { intros t. cbn [run_steps].
    change (ctor_step sn "get_solvent" (mkR rs ps [] t None 0%Z)) with (COk (mkR rs ps [] t sn 0%Z)).
    cbv beta iota.
    change (ctor_step sn "solvent" (mkR rs ps [] t sn 0%Z)) with
      (match check_solvent sn rs ps with
       | SolOk s => COk (mkR (map (set_solvent s) rs) (map (set_solvent s) ps) [] t s 0%Z)
       | SolErr e tg => CFail e tg
       end).
    destruct (check_solvent sn rs ps) as [s|e tg]; [|reflexivity]. cbv beta iota.
    set (rs' := map (set_solvent s) rs). set (ps' := map (set_solvent s) ps).
    change (ctor_step sn "balance" (mkR rs' ps' [] t s 0%Z)) with
      (match balance_go balance_checks rs' ps' with
       | None => COk (mkR rs' ps' [] t s (total "charge" rs'))
       | Some (e, m) => CFail e m
       end).
    unfold rs', ps'. rewrite balance_go_set_solvent, balance_go_spec, total_set_solvent, total_charge.
    unfold after_solvent. destruct (balance_spec rs ps) as [[e m]|]; reflexivity. }
  destruct (classify (List.length rs) (List.length ps)) as [|n|e]; cbv beta iota; [apply K|apply K|reflexivity].
Qed.

Lemma supported_nil (rs ps : list species) : supported (List.length rs) (List.length ps) -> rs = [] -> ps = [].
Proof.
  intros H ->. unfold supported in H. cbn [List.length] in H.
  destruct ps as [|p ps]; [reflexivity|exfalso]. cbn in H.
  repeat (destruct H as [H|H]; [discriminate|]). destruct H.
Qed.

Lemma construct_ok_iff sn rs ps :
  (exists r, construct sn rs ps = COk r) <->
  supported (List.length rs) (List.length ps) /\ solvents_consistent sn (rs ++ ps) /\ balanced rs ps.
Proof.
  rewrite construct_is_spec. unfold construct_spec. split.
  - intros [r H].
    assert (S : supported (List.length rs) (List.length ps)).
    { apply classify_supported. intros e E. rewrite E in H. discriminate. }
    split; [exact S|].
    assert (H' : match check_solvent sn rs ps with
                 | SolErr e t => CFail e t
                 | SolOk s => after_solvent (type_of_cres (classify (List.length rs) (List.length ps))) s rs ps
                 end = COk r).
    { destruct (classify (List.length rs) (List.length ps)); [exact H|exact H|discriminate]. }
    destruct (check_solvent sn rs ps) as [s|e t] eqn:Es; [|discriminate].
    split; [apply (check_solvent_ok sn rs ps (supported_nil rs ps S)); exists s; exact Es|].
    unfold after_solvent in H'. apply balance_spec_none.
    destruct (balance_spec rs ps) as [[e m]|]; [discriminate|reflexivity].
  - intros [S [C Bal]].
    pose proof (proj1 (classify_supported _ _) S) as NR.
    apply (check_solvent_ok sn rs ps (supported_nil rs ps S)) in C as [s Es].
    apply balance_spec_none in Bal.
    exists (mkR (map (set_solvent s) rs) (map (set_solvent s) ps) []
                (type_of_cres (classify (List.length rs) (List.length ps))) s (charge_of rs)).
    destruct (classify (List.length rs) (List.length ps)) as [|n|e] eqn:Ec;
      [| |exfalso; exact (NR e eq_refl)]; rewrite Es; unfold after_solvent; rewrite Bal; reflexivity.
Qed.

Lemma construct_ok_fields sn rs ps r : construct sn rs ps = COk r ->
  rtype r = type_of_cres (classify (List.length rs) (List.length ps)) /\
  rcharge r = charge_of rs /\ tss r = [] /\
  exists s, check_solvent sn rs ps = SolOk s /\ rsolvent r = s /\
            reacs r = map (set_solvent s) rs /\ prods r = map (set_solvent s) ps.
Proof.
  rewrite construct_is_spec. unfold construct_spec. intros H.
  assert (H' : match check_solvent sn rs ps with
               | SolErr e t => CFail e t
               | SolOk s => after_solvent (type_of_cres (classify (List.length rs) (List.length ps))) s rs ps
               end = COk r).
  { destruct (classify (List.length rs) (List.length ps)); [exact H|exact H|discriminate]. }
  destruct (check_solvent sn rs ps) as [s|e t]; [|discriminate].
  unfold after_solvent in H'. destruct (balance_spec rs ps) as [[e m]|]; [discriminate|].
  injection H' as <-. cbn. repeat split; try reflexivity. exists s. repeat split; reflexivity.
Qed.

Lemma construct_errors sn rs ps :
  (~ supported (List.length rs) (List.length ps) ->
     construct sn rs ps =
     CFail (if (Nat.eqb (List.length rs) 0 || Nat.eqb (List.length ps) 0)%bool
            then "ReactionFormationFailed" else "NotImplementedError") "") /\
  (supported (List.length rs) (List.length ps) -> ~ solvents_consistent sn (rs ++ ps) ->
     exists t, construct sn rs ps = CFail "SolventsDontMatch" t /\ (t = "differ" \/ t = "mixed")) /\
  (supported (List.length rs) (List.length ps) -> solvents_consistent sn (rs ++ ps) ->
     forall e m, balance_spec rs ps = Some (e, m) -> construct sn rs ps = CFail e m).
Proof.
  rewrite construct_is_spec. unfold construct_spec. split; [|split].
  - intros NS. rewrite (classify_unsupported _ _ NS). reflexivity.
  - intros S NC.
    pose proof (proj1 (classify_supported _ _) S) as NR.
    destruct (check_solvent sn rs ps) as [s|e t] eqn:Es.
    + exfalso. apply NC. apply (check_solvent_ok sn rs ps (supported_nil rs ps S)). exists s. exact Es.
    + assert (Hrs : rs <> []).
      { intros ->. rewrite (supported_nil [] ps S eq_refl) in Es. cbn in Es. discriminate. }
      destruct (check_solvent_err _ _ _ _ _ Es Hrs) as [-> Ht]. exists t.
      split; [|exact Ht].
      destruct (classify (List.length rs) (List.length ps)) as [|n|e] eqn:Ec;
        [reflexivity|reflexivity|exfalso; exact (NR e eq_refl)].
  - intros S C e m Hb.
    pose proof (proj1 (classify_supported _ _) S) as NR.
    apply (check_solvent_ok sn rs ps (supported_nil rs ps S)) in C as [s Es].
    destruct (classify (List.length rs) (List.length ps)) as [|n|e'] eqn:Ec;
      [| |exfalso; exact (NR e' eq_refl)]; rewrite Es; unfold after_solvent; rewrite Hb; reflexivity.
Qed.

(* ================================================================== 4. energies and delta *)
Open Scope Qc_scope.

(* finite facts about the GENERATED unit table: every energy unit is linear (no shift) with a
   positive factor, and the units the code names exist *)
Definition linear_pos (u : unit) : bool := Qceqb (uadd u) (Q2Qc 0) && Qcltb (Q2Qc 0) (utimes u).
Lemma energy_units_linear : forallb linear_pos energy_units = true.
Proof. vm_compute. reflexivity. Qed.
Lemma energy_unit_facts u : In u energy_units -> uadd u = 0 /\ utimes u <> 0.
Proof.
  intros H. pose proof energy_units_linear as A. rewrite forallb_forall in A. specialize (A u H).
  unfold linear_pos in A. apply andb_true_iff in A as [A1 A2]. split; [apply Qceqb_eq; exact A1|].
  apply pos_nonzero. apply Qcltb_lt. exact A2.
Qed.
Lemma target_in : In target_u energy_units.
Proof. vm_compute. tauto. Qed.
Lemma default_is_target : default_u = target_u.
Proof. vm_compute. reflexivity. Qed.
Lemma const_unit_is_target : unit_of_alias barrierless_const_unit = target_u.
Proof. vm_compute. reflexivity. Qed.
Lemma floor_is_zero : barrierless_floor = 0.
Proof. apply Qc_is_canon. vm_compute. reflexivity. Qed.

Lemma conv_path_energy x u v w : In u energy_units -> In v energy_units -> In w energy_units ->
  conv (conv x u v) v w = conv x u w.
Proof.
  intros Hu Hv Hw. destruct (energy_unit_facts _ Hu) as [Au Tu]. destruct (energy_unit_facts _ Hv) as [Av Tv].
  destruct (energy_unit_facts _ Hw) as [Aw Tw].
  apply conv_path_gen; try assumption. left. congruence.
Qed.
Lemma conv_add_energy x y u v : In u energy_units -> In v energy_units ->
  conv (x + y) u v = conv x u v + conv y u v.
Proof.
  intros Hu Hv. destruct (energy_unit_facts _ Hu) as [Au Tu]. destruct (energy_unit_facts _ Hv) as [Av Tv].
  apply conv_linear_add; assumption.
Qed.
Lemma conv_same_energy x u : In u energy_units -> conv x u u = x.
Proof. intros Hu. apply conv_same. apply (energy_unit_facts _ Hu). Qed.

(* ---- the specification side: every contribution converted to the target unit on its own *)
Definition entry_ha (e : entry) : Qc := conv (ex e) (eu e) target_u.
Definition hcls (k : ekind) : option ecls :=
  match k with KEnergy => None | KEnthalpy => Some EHcont | KFree => Some EGcont end.
Definition contrib_ha (k : ekind) (s : species) : option Qc :=
  match last_of EPot (s_energies s), hcls k with
  | Some e, None => Some (entry_ha e)
  | Some e, Some c => match last_of c (s_energies s) with
                      | Some h => Some (entry_ha e + entry_ha h)
                      | None => None
                      end
  | None, _ => None
  end.
Definition units_ok (s : species) : Prop := forall e, In e (s_energies s) -> In (eu e) energy_units.

Lemma last_of_in c l e : last_of c l = Some e -> In e l /\ ecl e = c.
Proof.
  unfold last_of. intros H. apply find_some in H as [H1 H2]. apply in_rev in H1. split; [exact H1|].
  destruct (ecl e), c; try discriminate; reflexivity.
Qed.
Lemma ecls_eqb_refl c : ecls_eqb c c = true.
Proof. destruct c; reflexivity. Qed.
Lemma last_of_none c l : last_of c l = None <-> (forall e, In e l -> ecl e <> c).
Proof.
  unfold last_of. split.
  - intros H e He Ec. apply in_rev in He. pose proof (find_none _ _ H e He) as F. cbv beta in F.
    rewrite Ec, ecls_eqb_refl in F. discriminate.
  - intros H. destruct (find _ (rev l)) as [e|] eqn:F; [|reflexivity].
    apply find_some in F as [F1 F2]. apply in_rev in F1. exfalso. apply (H e F1).
    destruct (ecl e), c; try discriminate; reflexivity.
Qed.

Lemma sp_plus_ha c s : units_ok s ->
  option_map to_target (sp_plus c s) =
  match last_of EPot (s_energies s), last_of c (s_energies s) with
  | Some e, Some h => Some (entry_ha e + entry_ha h)
  | _, _ => None
  end.
Proof.
  intros U. unfold sp_plus, sp_energy.
  destruct (last_of EPot (s_energies s)) as [e|] eqn:Ee; cbn [option_map]; [|reflexivity].
  destruct (last_of c (s_energies s)) as [h|] eqn:Eh; cbn [option_map]; [|reflexivity].
  f_equal. unfold to_target, entry_ha. cbn [fst snd].
  pose proof (U e (proj1 (last_of_in _ _ _ Ee))) as Ue. pose proof (U h (proj1 (last_of_in _ _ _ Eh))) as Uh.
  rewrite (conv_add_energy _ _ _ _ Ue target_in), (conv_path_energy _ _ _ _ Uh Ue target_in). reflexivity.
Qed.

Lemma sp_get_ha k s : units_ok s -> option_map to_target (sp_get k s) = contrib_ha k s.
Proof.
  intros U. unfold contrib_ha. destruct k; cbn [sp_get hcls].
  - unfold sp_energy. destruct (last_of EPot (s_energies s)); reflexivity.
  - rewrite (sp_plus_ha _ _ U). destruct (last_of EPot (s_energies s)); reflexivity.
  - rewrite (sp_plus_ha _ _ U). destruct (last_of EPot (s_energies s)); reflexivity.
Qed.

Lemma all_some_map_ha k l : (forall m, In m l -> units_ok m) ->
  option_map (map to_target) (all_some (map (sp_get k) l)) = all_some (map (contrib_ha k) l).
Proof.
  induction l as [|m l IH]; intros U; [reflexivity|]. cbn [map all_some].
  rewrite <- (sp_get_ha k m (U m (or_introl eq_refl))).
  destruct (sp_get k m) as [q|]; cbn [option_map]; [|reflexivity].
  rewrite <- IH by (intros m' Hm'; apply U; right; exact Hm').
  destruct (all_some (map (sp_get k) l)); reflexivity.
Qed.

(* sum over the right-hand side minus sum over the left-hand side, contributions converted one by one *)
Definition diff_spec (k : ekind) (rhs lhs : list species) : dres :=
  match all_some (map (contrib_ha k) rhs), all_some (map (contrib_ha k) lhs) with
  | Some b, Some a => DVal (qsum b - qsum a) target_u
  | _, _ => DNone
  end.

Lemma diff_is_spec k rhs lhs : (forall m, In m (rhs ++ lhs) -> units_ok m) -> diff k rhs lhs = diff_spec k rhs lhs.
Proof.
  intros U. unfold diff, diff_spec.
  rewrite <- (all_some_map_ha k rhs) by (intros m Hm; apply U; apply in_or_app; left; exact Hm).
  rewrite <- (all_some_map_ha k lhs) by (intros m Hm; apply U; apply in_or_app; right; exact Hm).
  destruct (all_some (map (sp_get k) rhs)); cbn [option_map]; [|reflexivity].
  destruct (all_some (map (sp_get k) lhs)); reflexivity.
Qed.

(* ---- delta through the parser *)
Lemma delta_kind_parse s k ts : delta_kind s = Some (k, ts) <-> parse s = (Some k, ts).
Proof.
  unfold delta_kind, parse. destruct (etype_l (lower (B s))) as [k'|]; cbn [option_map]; split; intros H;
    try discriminate; injection H as <- <-; reflexivity.
Qed.
Lemma delta_kind_none s : delta_kind s = None <-> fst (parse s) = None.
Proof. unfold delta_kind, parse. cbn [fst]. destruct (etype_l (lower (B s))); cbn; split; congruence. Qed.

(* the names _estimated_barrierless_delta passes back to delta parse to themselves, as reaction types *)
Lemma parse_etype_name k : parse (etype_name k) = (Some k, false).
Proof. destruct k; vm_compute; reflexivity. Qed.

Lemma delta0_etype_name r k : delta0 r (etype_name k) = diff k (prods r) (reacs r).
Proof. unfold delta0. rewrite parse_etype_name. reflexivity. Qed.

Lemma lowest_ts_nil : lowest_ts [] = LOk None.
Proof. unfold lowest_ts. destruct lowest_unit; reflexivity. Qed.

Lemma delta_nonts r s k : parse s = (Some k, false) -> delta r s = diff k (prods r) (reacs r).
Proof. intros H. unfold delta, delta_parsed. rewrite H. reflexivity. Qed.
Lemma delta_ts_some r s k t : parse s = (Some k, true) -> lowest_ts (tss r) = LOk (Some t) ->
  delta r s = diff k [t] (reacs r).
Proof. intros H L. unfold delta, delta_parsed, delta_with. rewrite H. cbn [fst snd]. rewrite L. reflexivity. Qed.
Lemma delta_barrierless r s k : parse s = (Some k, true) -> tss r = [] ->
  delta r s = estimate r (diff k (prods r) (reacs r)).
Proof.
  intros H L. unfold delta, delta_parsed, delta_with. rewrite H. cbn [fst snd]. rewrite L, lowest_ts_nil.
  rewrite delta0_etype_name. reflexivity.
Qed.
Lemma delta_value_error r s : fst (parse s) = None -> (snd (parse s) = true -> lowest_ts (tss r) <> LErr) ->
  delta r s = DErr "ValueError".
Proof.
  intros H L. unfold delta, delta_parsed, delta_with. rewrite H.
  destruct (snd (parse s)); [|reflexivity]. destruct (lowest_ts (tss r)); [exfalso; apply L; reflexivity|reflexivity].
Qed.

(* ---- the diffusion-limit estimate *)
Definition is_rearrangement (r : reaction) : bool := opt_string_eqb (rtype r) (Some "rearrangement").
Definition diffusion_term (r : reaction) : Qc := if is_rearrangement r then 0 else barrierless_const.

Lemma Qcltb_false_le a b : Qcltb a b = false -> b <= a.
Proof.
  intros H. destruct (Qclt_le_dec a b) as [L|L]; [|exact L]. apply Qcltb_lt in L. congruence.
Qed.

Lemma estimate_spec r d u : u = target_u ->
  exists v, estimate r (DVal d u) = DVal (v + diffusion_term r) target_u /\
            ((0 < d -> v = d) /\ (d <= 0 -> v = 0)).
Proof.
  intros ->. unfold estimate, diffusion_term, is_rearrangement.
  change barrierless_exempt with "rearrangement".
  rewrite default_is_target, const_unit_is_target, floor_is_zero.
  rewrite (conv_same_energy _ _ target_in).
  destruct (Qcltb 0 d) eqn:E.
  - apply Qcltb_lt in E. exists d. cbn [fst snd]. split.
    + destruct (opt_string_eqb (rtype r) (Some "rearrangement")); cbn [fst snd];
        [f_equal; ring|rewrite (conv_same_energy _ _ target_in); reflexivity].
    + split; [reflexivity|]. intros L. exfalso. apply (Qcle_not_lt _ _ L). exact E.
  - apply Qcltb_false_le in E. exists 0. cbn [fst snd]. split.
    + destruct (opt_string_eqb (rtype r) (Some "rearrangement")); cbn [fst snd];
        [f_equal; ring|rewrite (conv_same_energy _ _ target_in); reflexivity].
    + split; [|reflexivity]. intros L. exfalso. apply (Qcle_not_lt _ _ E). exact L.
Qed.
Lemma estimate_none r : estimate r DNone = DNone.
Proof. reflexivity. Qed.

(* the constant is the double nearest 0.00694 Ha, i.e. the documented 4.35 kcal mol-1 *)
Lemma barrierless_const_value :
  close (qc 1 1000000000000) barrierless_const (qc 694 100000) = true /\
  close (qc 1 100) (conv barrierless_const target_u (unit_of_alias "kcal mol-1")) (qc 435 100) = true.
Proof. split; vm_compute; reflexivity. Qed.

(* ---- unit independence: the same reaction with contributions re-expressed in other energy units *)
Definition entry_equiv (e e' : entry) : Prop :=
  ecl e = ecl e' /\ In (eu e) energy_units /\ In (eu e') energy_units /\
  ex e' = conv (ex e) (eu e) (eu e').
Definition species_equiv (s s' : species) : Prop :=
  s_natoms s = s_natoms s' /\ s_charge s = s_charge s' /\ s_mult s = s_mult s' /\
  s_solvent s = s_solvent s' /\ Forall2 entry_equiv (s_energies s) (s_energies s').
Definition reaction_equiv (r r' : reaction) : Prop :=
  Forall2 species_equiv (reacs r) (reacs r') /\ Forall2 species_equiv (prods r) (prods r') /\
  Forall2 species_equiv (tss r) (tss r') /\ rtype r = rtype r' /\ rsolvent r = rsolvent r' /\
  rcharge r = rcharge r'.

Lemma Forall2_rev' {A B} (R : A -> B -> Prop) l l' : Forall2 R l l' -> Forall2 R (rev l) (rev l').
Proof.
  induction 1 as [|x y l l' Hxy H IH]; [constructor|]. cbn [rev]. apply Forall2_app; [exact IH|].
  constructor; [exact Hxy|constructor].
Qed.

Definition opt_rel {A} (R : A -> A -> Prop) (a b : option A) : Prop :=
  match a, b with Some x, Some y => R x y | None, None => True | _, _ => False end.

Lemma find_equiv c l l' : Forall2 entry_equiv l l' ->
  opt_rel entry_equiv (find (fun e => ecls_eqb (ecl e) c) l) (find (fun e => ecls_eqb (ecl e) c) l').
Proof.
  induction 1 as [|x y l l' Hxy H IH]; [exact I|]. cbn [find].
  destruct Hxy as [Ec Hrest]. rewrite <- Ec.
  destruct (ecls_eqb (ecl x) c); [|exact IH]. cbn. split; [exact Ec|exact Hrest].
Qed.
Lemma last_of_equiv c l l' : Forall2 entry_equiv l l' -> opt_rel entry_equiv (last_of c l) (last_of c l').
Proof. intros H. unfold last_of. apply find_equiv. apply Forall2_rev'. exact H. Qed.

Lemma entry_ha_equiv e e' : entry_equiv e e' -> entry_ha e' = entry_ha e.
Proof.
  intros [_ [Hu [Hu' Hx]]]. unfold entry_ha. rewrite Hx. apply conv_path_energy; [exact Hu|exact Hu'|exact target_in].
Qed.

Lemma contrib_ha_equiv k s s' : species_equiv s s' -> contrib_ha k s' = contrib_ha k s.
Proof.
  intros [_ [_ [_ [_ HE]]]]. unfold contrib_ha.
  pose proof (last_of_equiv EPot _ _ HE) as P.
  destruct (last_of EPot (s_energies s)) as [e|], (last_of EPot (s_energies s')) as [e'|]; cbn in P; try contradiction;
    [|reflexivity].
  rewrite (entry_ha_equiv _ _ P). destruct (hcls k) as [c|]; [|reflexivity].
  pose proof (last_of_equiv c _ _ HE) as Q.
  destruct (last_of c (s_energies s)) as [h|], (last_of c (s_energies s')) as [h'|]; cbn in Q; try contradiction;
    [|reflexivity].
  rewrite (entry_ha_equiv _ _ Q). reflexivity.
Qed.

Lemma species_equiv_units s s' : species_equiv s s' -> units_ok s /\ units_ok s'.
Proof.
  intros [_ [_ [_ [_ HE]]]]. unfold units_ok. induction HE as [|x y l l' Hxy H IH]; [split; intros e []|].
  destruct IH as [I1 I2]. destruct Hxy as [_ [Hx [Hy _]]].
  split; intros e [<-|He]; auto.
Qed.

Lemma contribs_equiv k l l' : Forall2 species_equiv l l' ->
  all_some (map (contrib_ha k) l') = all_some (map (contrib_ha k) l).
Proof.
  induction 1 as [|x y l l' Hxy H IH]; [reflexivity|]. cbn [map all_some].
  rewrite (contrib_ha_equiv k _ _ Hxy), IH. reflexivity.
Qed.
Lemma Forall2_units l l' : Forall2 species_equiv l l' ->
  (forall m, In m l -> units_ok m) /\ (forall m, In m l' -> units_ok m).
Proof.
  induction 1 as [|x y l l' Hxy H IH]; [split; intros m []|].
  destruct IH as [I1 I2]. destruct (species_equiv_units _ _ Hxy) as [Ux Uy].
  split; intros m [<-|Hm]; auto.
Qed.

Lemma diff_equiv k rhs rhs' lhs lhs' : Forall2 species_equiv rhs rhs' -> Forall2 species_equiv lhs lhs' ->
  diff k rhs' lhs' = diff k rhs lhs.
Proof.
  intros Hr Hl. destruct (Forall2_units _ _ Hr) as [U1 U1']. destruct (Forall2_units _ _ Hl) as [U2 U2'].
  rewrite !diff_is_spec by (intros m Hm; apply in_app_or in Hm as [Hm|Hm]; auto).
  unfold diff_spec. rewrite (contribs_equiv k _ _ Hr), (contribs_equiv k _ _ Hl). reflexivity.
Qed.

(* the choice of the lowest transition state *)
Definition lowres_equiv (a b : lowres) : Prop :=
  match a, b with
  | LErr, LErr => True
  | LOk x, LOk y => opt_rel species_equiv x y
  | _, _ => False
  end.

Lemma sp_energy_equiv s s' : species_equiv s s' ->
  opt_rel (fun q q' => In (snd q) energy_units /\ In (snd q') energy_units /\ fst q' = conv (fst q) (snd q) (snd q'))
          (sp_energy s) (sp_energy s').
Proof.
  intros [_ [_ [_ [_ HE]]]]. unfold sp_energy. pose proof (last_of_equiv EPot _ _ HE) as P.
  destruct (last_of EPot (s_energies s)) as [e|], (last_of EPot (s_energies s')) as [e'|]; cbn in P |- *; try contradiction;
    [|exact I].
  destruct P as [_ P]. exact P.
Qed.

Lemma lowest_unit_valid :
  match lowest_unit with
  | None => true
  | Some a => match find_unit energy_units a with Some _ => true | None => false end
  end = true.
Proof. vm_compute. reflexivity. Qed.

Lemma lowest_key_equiv q q' : lowest_unit <> None ->
  In (snd q) energy_units -> In (snd q') energy_units -> fst q' = conv (fst q) (snd q) (snd q') ->
  lowest_key q' = lowest_key q.
Proof.
  intros HN Hu Hu' Hx. unfold lowest_key. pose proof lowest_unit_valid as V.
  destruct lowest_unit as [a|]; [|congruence].
  unfold unit_of_alias. destruct (find_unit energy_units a) as [w|] eqn:F; [|discriminate].
  apply find_unit_some in F as [Hw _]. rewrite Hx. apply conv_path_energy; assumption.
Qed.

Lemma energies_equiv l l' : Forall2 species_equiv l l' -> lowest_unit <> None ->
  match all_some (map sp_energy l), all_some (map sp_energy l') with
  | Some es, Some es' => map lowest_key es' = map lowest_key es
  | None, None => True
  | _, _ => False
  end.
Proof.
  intros H HN. induction H as [|x y l l' Hxy H IH]; [reflexivity|]. cbn [map all_some].
  pose proof (sp_energy_equiv _ _ Hxy) as P.
  destruct (sp_energy x) as [q|], (sp_energy y) as [q'|]; unfold opt_rel in P; try (exfalso; exact P); [|exact I].
  destruct P as [Hu [Hu' Hx]].
  destruct (all_some (map sp_energy l)) as [es|], (all_some (map sp_energy l')) as [es'|]; try (exfalso; exact IH); [|exact I].
  cbn [map]. rewrite IH, (lowest_key_equiv _ _ HN Hu Hu' Hx). reflexivity.
Qed.

Lemma nth_error_equiv {A} (R : A -> A -> Prop) l l' i : Forall2 R l l' -> opt_rel R (nth_error l i) (nth_error l' i).
Proof.
  intros H. revert i. induction H as [|x y l l' Hxy H IH]; intros [|i]; cbn; auto.
Qed.

Lemma lowest_raw_equiv l l' : Forall2 species_equiv l l' ->
  (List.length l <= 1)%nat \/ lowest_unit <> None ->
  lowres_equiv (lowest_raw l) (lowest_raw l').
Proof.
  intros H Hc.
  destruct H as [|x y l l' Hxy H]; [exact I|].
  destruct H as [|x2 y2 l l' Hxy2 H]; [exact Hxy|].
  destruct Hc as [Hc|HN]; [cbn in Hc; lia|].
  assert (HF : Forall2 species_equiv (x :: x2 :: l) (y :: y2 :: l')) by (constructor; [exact Hxy|constructor; [exact Hxy2|exact H]]).
  unfold lowest_raw. pose proof (energies_equiv _ _ HF HN) as E.
  destruct (all_some (map sp_energy (x :: x2 :: l))) as [es|],
           (all_some (map sp_energy (y :: y2 :: l'))) as [es'|]; try (exfalso; exact E); [|exact I].
  rewrite E. cbn [lowres_equiv]. apply nth_error_equiv. exact HF.
Qed.

Lemma has_energy_equiv s s' : species_equiv s s' -> has_energy s' = has_energy s.
Proof.
  intros H. pose proof (sp_energy_equiv _ _ H) as P. unfold has_energy.
  destruct (sp_energy s), (sp_energy s'); unfold opt_rel in P; try (exfalso; exact P); reflexivity.
Qed.
Lemma Forall2_filter_equiv l l' : Forall2 species_equiv l l' ->
  Forall2 species_equiv (filter has_energy l) (filter has_energy l').
Proof.
  induction 1 as [|x y l l' Hxy H IH]; [constructor|]. cbn [filter]. rewrite (has_energy_equiv _ _ Hxy).
  destruct (has_energy x); [constructor; assumption|exact IH].
Qed.

Lemma lowest_common_equiv l l' : Forall2 species_equiv l l' -> lowest_unit <> None ->
  lowres_equiv (lowest_common l) (lowest_common l').
Proof.
  intros H HN. pose proof (Forall2_filter_equiv _ _ H) as HF.
  destruct H as [|x y l l' Hxy H]; [exact I|]. unfold lowest_common.
  set (w := filter has_energy (x :: l)) in *. set (w' := filter has_energy (y :: l')) in *.
  pose proof (energies_equiv _ _ HF HN) as E.
  destruct HF as [|a b w w' Hab HF]; [exact Hxy|].
  destruct (all_some (map sp_energy (a :: w))) as [es|],
           (all_some (map sp_energy (b :: w'))) as [es'|]; try (exfalso; exact E); [|exact Hxy].
  rewrite E. cbn [lowres_equiv]. apply nth_error_equiv. constructor; assumption.
Qed.

Lemma lowest_ts_equiv l l' : Forall2 species_equiv l l' ->
  (List.length l <= 1)%nat \/ lowest_unit <> None ->
  lowres_equiv (lowest_ts l) (lowest_ts l').
Proof.
  intros H Hc. unfold lowest_ts. destruct lowest_unit as [a|] eqn:E.
  - apply lowest_common_equiv; [exact H|rewrite E; discriminate].
  - apply lowest_raw_equiv; [exact H|]. destruct Hc as [Hc|Hc]; [left; exact Hc|congruence].
Qed.

Lemma delta_equiv r r' s : reaction_equiv r r' ->
  (snd (parse s) = true -> (List.length (tss r) <= 1)%nat \/ lowest_unit <> None) ->
  delta r' s = delta r s.
Proof.
  intros [Hr [Hp [Ht [Hty _]]]] Hc. unfold delta, delta_parsed, delta_with.
  destruct (parse s) as [ok ts]. cbn [fst snd] in *.
  destruct ts.
  - pose proof (lowest_ts_equiv _ _ Ht (Hc eq_refl)) as L.
    destruct (lowest_ts (tss r)) as [|t], (lowest_ts (tss r')) as [|t']; cbn in L; try contradiction; [reflexivity|].
    destruct ok as [k|]; [|reflexivity].
    destruct t as [t|], t' as [t'|]; cbn in L; try contradiction.
    + apply diff_equiv; [constructor; [exact L|constructor]|exact Hr].
    + rewrite !delta0_etype_name. rewrite (diff_equiv k _ _ _ _ Hp Hr).
      unfold estimate. rewrite Hty. reflexivity.
  - destruct ok as [k|]; [|reflexivity]. apply diff_equiv; assumption.
Qed.

(* ---- switching reactants and products *)
Definition dneg (d : dres) : dres := match d with DVal x u => DVal (- x) u | o => o end.

Lemma diff_swap k a b : diff k a b = dneg (diff k b a).
Proof.
  unfold diff. destruct (all_some (map (sp_get k) a)) as [xa|], (all_some (map (sp_get k) b)) as [xb|]; try reflexivity.
  cbn [dneg]. f_equal. unfold delta_combine. ring.
Qed.
Lemma delta_switch r s k : parse s = (Some k, false) -> delta (switch r) s = dneg (delta r s).
Proof. intros H. rewrite !(delta_nonts _ _ _ H). unfold switch. cbn [prods reacs]. apply diff_swap. Qed.

(* ---- None exactly when a required contribution is missing *)
Lemma all_some_none {A} (l : list (option A)) : all_some l = None <-> In None l.
Proof.
  induction l as [|[x|] l IH]; cbn [all_some].
  - split; [discriminate|intros []].
  - destruct (all_some l) as [r|].
    + split; [discriminate|]. intros [H|H]; [discriminate|]. apply IH in H. discriminate.
    + split; [intros _; right; apply IH; reflexivity|reflexivity].
  - split; [intros _; left; reflexivity|reflexivity].
Qed.

Lemma diff_none k rhs lhs : diff k rhs lhs = DNone <-> exists m, In m (lhs ++ rhs) /\ sp_get k m = None.
Proof.
  unfold diff. split.
  - intros H. destruct (all_some (map (sp_get k) rhs)) as [b|] eqn:Eb.
    + destruct (all_some (map (sp_get k) lhs)) as [a|] eqn:Ea; [discriminate|].
      apply all_some_none in Ea. apply in_map_iff in Ea as [m [Hm Hin]]. exists m. split; [apply in_or_app; left; exact Hin|exact Hm].
    + apply all_some_none in Eb. apply in_map_iff in Eb as [m [Hm Hin]]. exists m. split; [apply in_or_app; right; exact Hin|exact Hm].
  - intros [m [Hin Hm]]. apply in_app_or in Hin as [Hin|Hin].
    + assert (E : all_some (map (sp_get k) lhs) = None) by (apply all_some_none; rewrite <- Hm; apply in_map; exact Hin).
      rewrite E. destruct (all_some (map (sp_get k) rhs)); reflexivity.
    + assert (E : all_some (map (sp_get k) rhs) = None) by (apply all_some_none; rewrite <- Hm; apply in_map; exact Hin).
      rewrite E. reflexivity.
Qed.
Lemma diff_none_or_val k rhs lhs : diff k rhs lhs = DNone \/ exists x, diff k rhs lhs = DVal x target_u.
Proof.
  unfold diff. destruct (all_some (map (sp_get k) rhs)); [|left; reflexivity].
  destruct (all_some (map (sp_get k) lhs)); [right; eexists; reflexivity|left; reflexivity].
Qed.

(* a species lacks the contribution needed for kind k: no potential energy, or no H / G correction *)
Definition has_entry (c : ecls) (m : species) : Prop := exists e, In e (s_energies m) /\ ecl e = c.
Definition complete (k : ekind) (m : species) : Prop :=
  has_entry EPot m /\ match hcls k with Some c => has_entry c m | None => True end.

Lemma last_of_some_iff c l : (exists e, last_of c l = Some e) <-> exists e, In e l /\ ecl e = c.
Proof.
  split.
  - intros [e H]. exists e. apply last_of_in. exact H.
  - intros [e [He Ec]]. destruct (last_of c l) as [x|] eqn:E; [exists x; reflexivity|].
    exfalso. apply (proj1 (last_of_none c l) E e He Ec).
Qed.

Lemma sp_get_some_iff k m : (exists q, sp_get k m = Some q) <-> complete k m.
Proof.
  unfold complete, has_entry. rewrite <- !last_of_some_iff.
  destruct k; cbn [sp_get hcls]; unfold sp_plus, sp_energy.
  - destruct (last_of EPot (s_energies m)) as [e|]; cbn [option_map]; split.
    + intros _. split; [eexists; reflexivity|exact I].
    + intros _. eexists; reflexivity.
    + intros [q H]; discriminate.
    + intros [[e H] _]; discriminate.
  - rewrite <- last_of_some_iff.
    destruct (last_of EPot (s_energies m)) as [e|]; cbn [option_map];
      [destruct (last_of EHcont (s_energies m)) as [h|]|]; split.
    + intros _. split; eexists; reflexivity.
    + intros _. eexists; reflexivity.
    + intros [q H]; discriminate.
    + intros [_ [h H]]; discriminate.
    + intros [q H]; discriminate.
    + intros [[e H] _]; discriminate.
  - rewrite <- last_of_some_iff.
    destruct (last_of EPot (s_energies m)) as [e|]; cbn [option_map];
      [destruct (last_of EGcont (s_energies m)) as [h|]|]; split.
    + intros _. split; eexists; reflexivity.
    + intros _. eexists; reflexivity.
    + intros [q H]; discriminate.
    + intros [_ [h H]]; discriminate.
    + intros [q H]; discriminate.
    + intros [[e H] _]; discriminate.
Qed.
Lemma sp_get_none_iff k m : sp_get k m = None <-> ~ complete k m.
Proof.
  rewrite <- sp_get_some_iff. destruct (sp_get k m) as [q|]; split.
  - discriminate.
  - intros H. exfalso. apply H. exists q. reflexivity.
  - intros _ [q H]. discriminate.
  - reflexivity.
Qed.

(* ================================================================== 5. histories *)
Lemma load_save r r' : load (save r) r' = r.
Proof. destruct r; reflexivity. Qed.
Lemma switch_involutive r : switch (switch r) = r.
Proof. destruct r; reflexivity. Qed.
(* has the history switched an odd number of times? *)
Definition odd_switches (ops : list op) : bool :=
  fold_right (fun o b => match o with OSwitch => negb b | _ => b end) false ops.
(* histories that do not replace energies in place *)
Definition no_update (o : op) : bool := match o with OUpd _ _ _ => false | _ => true end.
(* the list of transition states after a history: only the ts setter and appends touch it *)
Definition tss_step (l : list species) (o : op) : list species :=
  match o with
  | OSetTS None => []
  | OSetTS (Some t) => [t]
  | OSetTSInvalid => []
  | OAppendTS t => l ++ [t]
  | _ => l
  end.
Definition tss_after (ops : list op) (l : list species) : list species := fold_left tss_step ops l.

Lemma run_ops_spec ops : forallb no_update ops = true -> forall r,
  run_ops ops r = set_tss (if odd_switches ops then switch r else r) (tss_after ops (tss r)).
Proof.
  unfold run_ops, tss_after. induction ops as [|o t IH]; intros H r; [destruct r; reflexivity|].
  cbn [forallb] in H. apply andb_true_iff in H as [Ho Ht].
  cbn [fold_left odd_switches fold_right]. fold (odd_switches t). rewrite (IH Ht).
  destruct o as [| |[x|]| |x|w i es]; cbn [run_op tss_step]; try discriminate Ho.
  - destruct (odd_switches t); cbn [negb]; [rewrite switch_involutive|]; destruct r; reflexivity.
  - rewrite load_save. reflexivity.
  - destruct (odd_switches t); destruct r; reflexivity.
  - destruct (odd_switches t); destruct r; reflexivity.
  - destruct (odd_switches t); destruct r; reflexivity.
  - destruct (odd_switches t); destruct r; reflexivity.
Qed.
Lemma run_ops_parity ops : (forall o, In o ops -> o = OSwitch \/ o = OSaveLoad) ->
  forall r, run_ops ops r = if odd_switches ops then switch r else r.
Proof.
  intros H r. rewrite run_ops_spec.
  - assert (E : forall l, tss_after ops l = l).
    { unfold tss_after. induction ops as [|o t IH]; intros l; [reflexivity|]. cbn [fold_left].
      destruct (H o (or_introl eq_refl)) as [->| ->]; cbn [tss_step]; apply IH; intros o' Ho'; apply H; right; exact Ho'. }
    rewrite E. destruct (odd_switches ops); destruct r; reflexivity.
  - apply forallb_forall. intros o Ho. destruct (H o Ho) as [->| ->]; reflexivity.
Qed.
Lemma delta_nonts_set_tss r l s k : parse s = (Some k, false) -> delta (set_tss r l) s = delta r s.
Proof. intros H. rewrite !(delta_nonts _ _ _ H). reflexivity. Qed.

Lemma lowest_ts_single t : lowest_ts [t] = LOk (Some t).
Proof.
  unfold lowest_ts. destruct lowest_unit; [|reflexivity]. unfold lowest_common. cbn [filter].
  destruct (has_energy t) eqn:E; [|reflexivity]. cbn [map all_some].
  destruct (sp_energy t); reflexivity.
Qed.

Lemma ckpt_first_run f r elapsed : Qcltb elapsed checkpoint_min_seconds = false ->
  ckpt_step None elapsed false f r = (f r, Some (save (f r))).
Proof. intros H. unfold ckpt_step. rewrite H. reflexivity. Qed.
Lemma ckpt_short_run f r elapsed : Qcltb elapsed checkpoint_min_seconds = true ->
  ckpt_step None elapsed false f r = (f r, None).
Proof. intros H. unfold ckpt_step. rewrite H. reflexivity. Qed.
Lemma ckpt_raised f r elapsed : ckpt_step None elapsed true f r = (f r, None).
Proof. reflexivity. Qed.
Lemma ckpt_rerun c elapsed b g r2 : ckpt_step (Some c) elapsed b g r2 = (load c r2, Some c).
Proof. reflexivity. Qed.
Lemma checkpoint_threshold_is_one_second : checkpoint_min_seconds = 1.
Proof. apply Qc_is_canon. vm_compute. reflexivity. Qed.

(* ================================================================== 6. witnesses for statements FALSE of the faithful model *)
Definition w_sp (n : Z) (es : list entry) : species := mkS n 0%Z 1%Z None es.
Definition w_ha : unit := unit_of_alias "ha".
Definition w_kcal : unit := unit_of_alias "kcal mol-1".

(* (a) addition 2 -> 1, switched: 1 -> 2 but still typed "addition" *)
Lemma witness_type_after_switch :
  exists r, construct None [w_sp 1 []; w_sp 1 []] [w_sp 2 []] = COk r /\
            rtype (switch r) = Some "addition" /\
            classify (List.length (reacs (switch r))) (List.length (prods (switch r))) = CRType "dissociation".
Proof. eexists. split; [vm_compute; reflexivity|split; reflexivity]. Qed.

(* (b) two transition states, -1 Ha and -100 kcal mol-1 (= -0.159 Ha): the second is "lowest" *)
Definition w_ts1 : species := w_sp 1 [mkE EPot (qc (-1) 1) w_ha].
Definition w_ts2 : species := w_sp 1 [mkE EPot (qc (-100) 1) w_kcal].
Definition w_ts2' : species := w_sp 1 [mkE EPot (conv (qc (-100) 1) w_kcal w_ha) w_ha].
Definition w_end : species := w_sp 1 [mkE EPot (qc 0 1) w_ha].
Definition w_r (t2 : species) : reaction := mkR [w_end] [w_end] [w_ts1; t2] (Some "rearrangement") None 0%Z.

Lemma w_units : In w_ha energy_units /\ In w_kcal energy_units.
Proof. split; vm_compute; tauto. Qed.
Lemma w_equiv : reaction_equiv (w_r w_ts2) (w_r w_ts2').
Proof.
  destruct w_units as [Hha Hk].
  assert (Eid : forall x, entry_equiv (mkE EPot x w_ha) (mkE EPot x w_ha)).
  { intros x. repeat split; try exact Hha. cbn [ex eu]. symmetry. apply conv_same_energy. exact Hha. }
  assert (Send : species_equiv w_end w_end).
  { unfold w_end, w_sp. repeat split. cbn [s_energies]. constructor; [apply Eid|constructor]. }
  unfold reaction_equiv, w_r. cbn [reacs prods tss rtype rsolvent rcharge].
  split; [constructor; [exact Send|constructor]|]. split; [constructor; [exact Send|constructor]|].
  split; [|repeat split].
  constructor.
  - unfold w_ts1, w_sp. repeat split. cbn [s_energies]. constructor; [apply Eid|constructor].
  - constructor; [|constructor]. unfold w_ts2, w_ts2', w_sp. repeat split; cbn [s_energies].
    constructor; [|constructor]. repeat split; [exact Hk|exact Hha].
Qed.
Lemma w_delta_differs : lowest_unit = None -> delta (w_r w_ts2) "E‡" <> delta (w_r w_ts2') "E‡".
Proof.
  intros HN. first [ (vm_compute in HN; discriminate HN) | (vm_compute; intros H; discriminate H) ].
Qed.

(* (c) two transition states, one without any energy: an exception instead of None *)
Lemma witness_ts_without_energy : lowest_unit = None ->
  delta (mkR [w_end] [w_end] [w_ts1; w_sp 1 []] (Some "rearrangement") None 0%Z) "E‡" = DErr "TypeError" /\
  delta (mkR [w_end] [w_end] [w_sp 1 []] (Some "rearrangement") None 0%Z) "E‡" = DNone.
Proof.
  intros HN. first [ (vm_compute in HN; discriminate HN) | (split; vm_compute; reflexivity) ].
Qed.

(* ================================================================== 7. argmin picks a minimum *)
Lemma Qcltb_true_le a b : Qcltb a b = true -> a <= b.
Proof. intros H. apply Qclt_le_weak. apply Qcltb_lt. exact H. Qed.

Lemma argmin_go_spec l : forall best bi i d,
  (bi < i)%nat ->
  let j := argmin_go best bi i l in
  (j = bi \/ (i <= j < i + List.length l)%nat) /\
  (j = bi -> forall x, In x l -> best <= x) /\
  (j <> bi -> nth (j - i) l d <= best /\ forall x, In x l -> nth (j - i) l d <= x).
Proof.
  induction l as [|x r IH]; intros best bi i d Hlt; cbn [argmin_go].
  - split; [left; reflexivity|]. split; [intros _ y []|intros H; congruence].
  - destruct (Qcltb x best) eqn:E.
    + (* x becomes the best *)
      specialize (IH x i (S i) d (Nat.lt_succ_diag_r i)). cbv zeta in IH.
      set (j := argmin_go x i (S i) r) in *. destruct IH as [R [Heq Hne]].
      assert (Hji : j <> bi) by (destruct R as [R|R]; lia).
      split; [right; cbn [List.length]; destruct R as [R|R]; lia|].
      split; [intros H; contradiction|]. intros _.
      destruct (Nat.eq_dec j i) as [Ej|Nj].
      * rewrite Ej, Nat.sub_diag. cbn [nth]. split; [apply Qcltb_true_le; exact E|].
        intros y [<-|Hy]; [apply Qcle_refl|]. apply Heq; assumption.
      * destruct (Hne Nj) as [H1 H2].
        replace (j - i)%nat with (S (j - S i)) by (destruct R as [R|R]; lia). cbn [nth].
        split; [eapply Qcle_trans; [exact H1|apply Qcltb_true_le; exact E]|].
        intros y [<-|Hy]; [exact H1|apply H2; exact Hy].
    + apply Qcltb_false_le in E.
      assert (Hlt' : (bi < S i)%nat) by lia.
      specialize (IH best bi (S i) d Hlt'). cbv zeta in IH.
      set (j := argmin_go best bi (S i) r) in *. destruct IH as [R [Heq Hne]].
      split; [destruct R as [R|R]; [left; exact R|right; cbn [List.length]; lia]|].
      split.
      * intros Ej y [<-|Hy]; [exact E|apply Heq; assumption].
      * intros Nj. destruct (Hne Nj) as [H1 H2].
        replace (j - i)%nat with (S (j - S i)) by (destruct R as [R|R]; [contradiction|lia]). cbn [nth].
        split; [exact H1|]. intros y [<-|Hy]; [eapply Qcle_trans; [exact H1|exact E]|apply H2; exact Hy].
Qed.

Lemma argmin_spec l d : l <> [] ->
  (argmin l < List.length l)%nat /\ forall x, In x l -> nth (argmin l) l d <= x.
Proof.
  destruct l as [|x r]; [congruence|]. intros _. unfold argmin.
  pose proof (argmin_go_spec r x 0%nat 1%nat d Nat.lt_0_1) as S. cbv zeta in S.
  set (j := argmin_go x 0 1 r) in *. destruct S as [R [Heq Hne]]. cbn [List.length].
  split; [destruct R as [R|R]; lia|].
  destruct (Nat.eq_dec j 0) as [Ej|Nj].
  - rewrite Ej. cbn [nth]. intros y [<-|Hy]; [apply Qcle_refl|apply Heq; assumption].
  - destruct (Hne Nj) as [H1 H2].
    replace j with (S (j - 1)) by lia. cbn [nth].
    intros y [<-|Hy]; [exact H1|apply H2; exact Hy].
Qed.

Lemma all_some_length {A} (l : list (option A)) r : all_some l = Some r -> List.length r = List.length l.
Proof.
  revert r. induction l as [|[x|] l IH]; intros r H; cbn [all_some] in H; [injection H as <-; reflexivity| |discriminate].
  destruct (all_some l) as [r'|]; [|discriminate]. injection H as <-. cbn [List.length]. rewrite (IH r' eq_refl). reflexivity.
Qed.
Lemma all_some_nth_error {A} (l : list (option A)) r i x : all_some l = Some r ->
  nth_error l i = Some x -> exists y, x = Some y /\ nth_error r i = Some y.
Proof.
  revert r i. induction l as [|[a|] l IH]; intros r i H Hi; cbn [all_some] in H; [destruct i; discriminate| |discriminate].
  destruct (all_some l) as [r'|] eqn:E; [|discriminate]. injection H as <-.
  destruct i as [|i]; cbn [nth_error] in *; [injection Hi as <-; exists a; split; reflexivity|].
  apply (IH r' i eq_refl Hi).
Qed.

(* picking position argmin from a list of species that all have an energy *)
Lemma argmin_pick w es t : all_some (map sp_energy w) = Some es ->
  nth_error w (argmin (map lowest_key es)) = Some t ->
  exists q, sp_energy t = Some q /\
            forall t', In t' w -> exists q', sp_energy t' = Some q' /\ lowest_key q <= lowest_key q'.
Proof.
  intros E H.
  assert (Hes : map lowest_key es <> []).
  { destruct es; [|discriminate]. apply all_some_length in E. rewrite map_length in E.
    destruct w; [cbn in H; discriminate|discriminate E]. }
  destruct (argmin_spec (map lowest_key es) 0 Hes) as [_ Hmin].
  set (i := argmin (map lowest_key es)) in *.
  assert (G : forall j u, nth_error w j = Some u -> exists q, sp_energy u = Some q /\ nth_error es j = Some q).
  { intros j u Hj. assert (Hm : nth_error (map sp_energy w) j = Some (sp_energy u)) by (apply map_nth_error; exact Hj).
    destruct (all_some_nth_error _ _ _ _ E Hm) as [q [Hq Hn]]. exists q. split; assumption. }
  destruct (G i t H) as [q [Hq Hqi]]. exists q. split; [exact Hq|].
  intros t' Ht'. apply In_nth_error in Ht' as [j Hj]. destruct (G j t' Hj) as [q' [Hq' Hqj]].
  exists q'. split; [exact Hq'|].
  assert (Ei : nth i (map lowest_key es) 0 = lowest_key q).
  { apply nth_error_nth. apply map_nth_error. exact Hqi. }
  rewrite <- Ei. apply Hmin. apply in_map. eapply nth_error_In. exact Hqj.
Qed.

(* the transition state delta uses: a member of tss whose key (raw value, or value in the common unit
   when lowest_unit is set) is minimal among the transition states that have an energy *)
Definition is_lowest (l : list species) (t : species) : Prop :=
  In t l /\
  forall t' q', In t' l -> sp_energy t' = Some q' ->
    exists q, sp_energy t = Some q /\ lowest_key q <= lowest_key q'.

Lemma lowest_raw_spec l t : lowest_raw l = LOk (Some t) -> is_lowest l t.
Proof.
  destruct l as [|a [|b l]]; [discriminate| |].
  - intros H. injection H as <-. split; [left; reflexivity|].
    intros t' q' [<-|[]] Hq. exists q'. split; [exact Hq|apply Qcle_refl].
  - unfold lowest_raw. set (L := a :: b :: l).
    destruct (all_some (map sp_energy L)) as [es|] eqn:E; [|discriminate].
    intros H. injection H as H. split; [eapply nth_error_In; exact H|].
    destruct (argmin_pick _ _ _ E H) as [q [Hq Hmin]].
    intros t' q' Ht' Hq'. exists q. split; [exact Hq|].
    destruct (Hmin t' Ht') as [q'' [Hq'' Hle]]. rewrite Hq' in Hq''. injection Hq'' as <-. exact Hle.
Qed.

Lemma has_energy_true t : has_energy t = true <-> exists q, sp_energy t = Some q.
Proof.
  unfold has_energy. destruct (sp_energy t) as [q|]; cbn; split; try discriminate.
  - intros _. exists q. reflexivity.
  - reflexivity.
  - intros [q H]. discriminate.
Qed.

Lemma lowest_common_spec l t : lowest_common l = LOk (Some t) -> is_lowest l t.
Proof.
  destruct l as [|t0 l]; [discriminate|]. unfold lowest_common. set (L := t0 :: l).
  destruct (filter has_energy L) as [|a w] eqn:F.
  - intros H. injection H as <-. split; [left; reflexivity|].
    intros t' q' Ht' Hq'. exfalso.
    assert (Hin : In t' (filter has_energy L)) by (apply filter_In; split; [exact Ht'|apply has_energy_true; exists q'; exact Hq']).
    rewrite F in Hin. destruct Hin.
  - destruct (all_some (map sp_energy (a :: w))) as [es|] eqn:E.
    + intros H. injection H as H.
      assert (Hin : In t (a :: w)) by (eapply nth_error_In; exact H).
      rewrite <- F in Hin. apply filter_In in Hin as [Hin _]. split; [exact Hin|].
      destruct (argmin_pick _ _ _ E H) as [q [Hq Hmin]].
      intros t' q' Ht' Hq'. exists q. split; [exact Hq|].
      assert (Hw : In t' (a :: w)).
      { rewrite <- F. apply filter_In. split; [exact Ht'|apply has_energy_true; exists q'; exact Hq']. }
      destruct (Hmin t' Hw) as [q'' [Hq'' Hle]]. rewrite Hq' in Hq''. injection Hq'' as <-. exact Hle.
    + (* impossible: every member of the filtered list has an energy *)
      exfalso. apply all_some_none in E. apply in_map_iff in E as [m [Hm Hin]].
      rewrite <- F in Hin. apply filter_In in Hin as [_ Hin]. apply has_energy_true in Hin as [q Hq]. congruence.
Qed.

Lemma lowest_ts_spec l t : lowest_ts l = LOk (Some t) -> is_lowest l t.
Proof. unfold lowest_ts. destruct lowest_unit; [apply lowest_common_spec|apply lowest_raw_spec]. Qed.

(* in the repaired form the choice never fails: a non-empty list always yields a transition state *)
Lemma lowest_common_total l : l <> [] -> exists t, lowest_common l = LOk (Some t).
Proof.
  destruct l as [|t0 l]; [congruence|]. intros _. unfold lowest_common. set (L := t0 :: l).
  destruct (filter has_energy L) as [|a w] eqn:F; [exists t0; reflexivity|].
  destruct (all_some (map sp_energy (a :: w))) as [es|] eqn:E; [|exists t0; reflexivity].
  assert (Hes : map lowest_key es <> []).
  { destruct es; [|discriminate]. apply all_some_length in E. discriminate E. }
  destruct (argmin_spec (map lowest_key es) 0 Hes) as [Hi _]. rewrite map_length in Hi.
  apply all_some_length in E. rewrite map_length in E. rewrite E in Hi.
  destruct (nth_error (a :: w) (argmin (map lowest_key es))) as [t|] eqn:N; [exists t; reflexivity|].
  apply nth_error_None in N. lia.
Qed.
Lemma lowest_ts_total l : lowest_unit <> None -> l <> [] -> exists t, lowest_ts l = LOk (Some t).
Proof. intros HN Hl. unfold lowest_ts. destruct lowest_unit; [apply lowest_common_total; exact Hl|congruence]. Qed.

Lemma estimate_none_iff r k a b : estimate r (diff k a b) = DNone <-> diff k a b = DNone.
Proof.
  destruct (diff_none_or_val k a b) as [H|[x H]]; rewrite H; [tauto|].
  cbn [estimate]. split; discriminate.
Qed.
Lemma estimate_none_or_val r k a b :
  estimate r (diff k a b) = DNone \/ exists x, estimate r (diff k a b) = DVal x target_u.
Proof.
  destruct (diff_none_or_val k a b) as [H|[x H]]; rewrite H; [left; reflexivity|right].
  destruct (estimate_spec r x target_u eq_refl) as [v [E _]]. rewrite E. eexists; reflexivity.
Qed.

(* ================================================================== 8. the lowest TS in Hartree; supplying energies *)
(* finite facts about the GENERATED form of TransitionStates.lowest_energy: it compares in a common unit,
   and that unit is the one delta converts to *)
Lemma lowest_unit_some : lowest_unit <> None.
Proof. unfold lowest_unit. discriminate. Qed.
Lemma lowest_key_is_target q : lowest_key q = to_target q.
Proof. reflexivity. Qed.

(* independent of the generated key: t is a member of l, and every TS of l that has an energy has, in
   Hartree, at least the energy of t *)
Definition is_lowest_energy (l : list species) (t : species) : Prop :=
  In t l /\
  forall t' q', In t' l -> sp_energy t' = Some q' ->
    exists q, sp_energy t = Some q /\ to_target q <= to_target q'.
Lemma lowest_ts_lowest_energy l t : lowest_ts l = LOk (Some t) -> is_lowest_energy l t.
Proof.
  intros H. destruct (lowest_ts_spec _ _ H) as [Hin Hmin]. split; [exact Hin|].
  intros t' q' Ht' Hq'. destruct (Hmin t' q' Ht' Hq') as [q [Hq Hle]]. exists q. split; [exact Hq|].
  rewrite <- !lowest_key_is_target. exact Hle.
Qed.

(* ---- Energies.append / the Species.energy setter *)
Lemma last_of_app_same c l e : ecl e = c -> last_of c (l ++ [e]) = Some e.
Proof. intros H. unfold last_of. rewrite rev_app_distr. cbn [rev app find]. rewrite H, ecls_eqb_refl. reflexivity. Qed.
Lemma energies_append_shape other l : exists l', energies_append other l = l' ++ [other].
Proof.
  unfold energies_append. destruct (find (energy_eqb other) l) as [item|]; [|exists l; reflexivity].
  destruct (find_index _ l) as [i|]; eexists; reflexivity.
Qed.
Lemma energies_append_fresh other l : (forall item, In item l -> energy_eqb other item = false) ->
  energies_append other l = l ++ [other].
Proof.
  intros H. unfold energies_append. destruct (find (energy_eqb other) l) as [item|] eqn:F; [|reflexivity].
  apply find_some in F as [F1 F2]. rewrite (H item F1) in F2. discriminate.
Qed.
(* whatever was there, the potential energy of the species after the assignment is the entry appended *)
Lemma set_energy_m_energy m v s :
  sp_energy (set_energy_m m v s) =
  match supplied_entry_m m v with Some e => Some (ex e, eu e) | None => sp_energy s end.
Proof.
  unfold set_energy_m. destruct (supplied_entry_m m v) as [e|] eqn:E; [|reflexivity].
  assert (Hc : ecl e = EPot).
  { destruct v as [|x|c x u]; cbn in E; [discriminate|injection E as <-; reflexivity|].
    destruct c; try (injection E as <-; reflexivity); destruct m as [|[|m]]; injection E as <-; reflexivity. }
  unfold sp_energy. cbn [s_energies]. destruct (energies_append_shape e (s_energies s)) as [l' ->].
  rewrite (last_of_app_same _ _ _ Hc). reflexivity.
Qed.
(* the physical quantity assigned, in the default unit (Hartree): a bare number is Hartree by documentation *)
Definition supplied_default (v : supplied) : option Qc :=
  match v with SNone => None | SNumber x => Some x | SEnergy _ x u => Some (conv x u default_u) end.
Definition supplied_units_ok (v : supplied) : Prop :=
  match v with SEnergy _ _ u => In u energy_units | _ => True end.
Lemma default_in : In default_u energy_units.
Proof. rewrite default_is_target. exact target_in. Qed.
Lemma supplied_entry_keeps m v e : m <> 0%nat -> supplied_units_ok v ->
  supplied_entry_m m v = Some e -> supplied_default v = Some (entry_default e).
Proof.
  intros Hm Hu E. destruct v as [|x|c x u]; cbn in E |- *; [discriminate| |].
  - injection E as <-. unfold entry_default. cbn [ex eu]. rewrite (conv_same_energy _ _ default_in). reflexivity.
  - assert (K : e = mkE EPot x u \/ e = mkE EPot (conv x u default_u) default_u).
    { destruct c; try (left; injection E as <-; reflexivity);
        destruct m as [|[|m]]; try congruence; injection E as <-; auto. }
    destruct K as [-> | ->]; unfold entry_default; cbn [ex eu]; [reflexivity|].
    rewrite (conv_same_energy _ _ default_in). reflexivity.
Qed.
Lemma supplied_entry_drops :
  exists c x u, In u energy_units /\ forall e, supplied_entry_m 0 (SEnergy c x u) = Some e ->
    supplied_default (SEnergy c x u) <> Some (entry_default e).
Proof.
  exists EBase, (qc 1 1), w_kcal. split; [exact (proj2 w_units)|].
  intros e E. cbn in E. injection E as <-. vm_compute. intros H. discriminate H.
Qed.
