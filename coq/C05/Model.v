(* C05/Model.v — executable model of autode.reactions.reaction.Reaction bookkeeping.
   Definitions only; proofs are in Lemmas.v.

   GENERATED (gen/C05_Gen.v, from /repo on every run): removed_patterns, ts_synonyms, kind_rules,
   target_unit, delta_combine, barrierless_{floor,const,const_unit,exempt}, balance_checks, ctor_steps,
   classify_rules/classify_default, lowest_unit, checkpoint_min_seconds.
   GENERATED (gen/C06_Gen.v): the unit table `classes` and the conversion arithmetic `conv`.
   HAND-WRITTEN here (tied by the correspondence check of harness/c05.py): the interpreters of those
   tables, _check_solvent, the Species energy look-ups, np.argmin, switch/save/load. *)
From Coq Require Import ZArith QArith Qcanon List String Ascii Bool.
From AV.lib Require Import QcInst.
From AV.C06 Require Import Base.
From AV.C05 Require Import Units.
From AV.gen Require Import C05_Units_Gen C05_Gen.
From AV.C05 Require Import Base.
Import ListNotations.
Open Scope string_scope.
Open Scope list_scope.

(* ================================================================== byte strings *)
(* Python str is modelled by its UTF-8 bytes; substring tests on valid UTF-8 agree with code-point
   substring tests (UTF-8 is self-synchronising).  str.lower() is modelled on ASCII letters only:
   the only non-ASCII character the code looks for is U+2021 (double dagger, bytes E2 80 A1), which
   is caseless. *)
Definition bytes := list ascii.
Definition B (s : string) : bytes := list_ascii_of_string s.

Definition lower_ascii (c : ascii) : ascii :=
  let n := nat_of_ascii c in
  if (Nat.leb 65 n && Nat.leb n 90)%bool then ascii_of_nat (n + 32) else c.
Definition lower (s : bytes) : bytes := map lower_ascii s.

Fixpoint prefixb (p s : bytes) : bool :=
  match p, s with
  | [], _ => true
  | a :: p', b :: s' => Ascii.eqb a b && prefixb p' s'
  | _ :: _, [] => false
  end.
(* `p in s` *)
Fixpoint containsb (p s : bytes) : bool :=
  prefixb p s || match s with [] => false | _ :: t => containsb p t end.

(* s.replace(p, ''): left-to-right, non-overlapping, single pass.  `skip` counts the bytes of the
   current match still to be dropped. *)
Fixpoint remove_go (p : bytes) (skip : nat) (s : bytes) : bytes :=
  match s with
  | [] => []
  | c :: t =>
    match skip with
    | S k => remove_go p k t
    | O => if prefixb p s then remove_go p (List.length p - 1) t else c :: remove_go p 0 t
    end
  end.
Definition remove_all (p s : bytes) : bytes := match p with [] => s | _ => remove_go p 0 s end.

(* ================================================================== delta_type parsing  (reaction.py:433-464) *)
Inductive ekind := KEnergy | KEnthalpy | KFree.
Definition etype_name (k : ekind) : string :=
  match k with KEnergy => "energy" | KEnthalpy => "enthalpy" | KFree => "free_energy" end.
Definition ekind_of_name (s : string) : option ekind :=
  if String.eqb s "energy" then Some KEnergy
  else if String.eqb s "enthalpy" then Some KEnthalpy
  else if String.eqb s "free_energy" then Some KFree else None.

(* delta_type.lower().replace(p1,'').replace(p2,'')...      (reaction.py:433-440) *)
Definition cleaned_of (l : bytes) : bytes :=
  fold_left (fun acc p => remove_all (B p) acc) removed_patterns l.
(* delta_type_matches(args...) = any(s in cleaned for s in args) *)
Definition matches (cleaned : bytes) (args : list string) : bool :=
  existsb (fun a => containsb (B a) cleaned) args.
(* the if/elif chain of reaction.py:452-464; None = the final `raise ValueError` *)
Fixpoint apply_rules (rules : list krule) (cleaned : bytes) : option string :=
  match rules with
  | [] => None
  | r :: t => if matches cleaned (kpos r) && negb (matches cleaned (kneg r)) then Some (kname r)
              else apply_rules t cleaned
  end.
Definition etype_l (l : bytes) : option ekind :=
  match apply_rules kind_rules (cleaned_of l) with Some n => ekind_of_name n | None => None end.
(* is_ts_delta(): any(s in delta_type.lower() for s in ts_synonyms)   (reaction.py:442-444) *)
Definition is_ts_l (l : bytes) : bool := existsb (fun p => containsb (B p) l) ts_synonyms.

(* what a delta_type string asks for: (energy kind, is it a barrier);  None = ValueError *)
Definition delta_kind (s : string) : option (ekind * bool) :=
  let l := lower (B s) in option_map (fun k => (k, is_ts_l l)) (etype_l l).

(* ================================================================== species *)
(* classes of the entries of Species.energies that matter here *)
Inductive ecls := EPot | EHcont | EGcont | EBase | EEnth | EFreeE.   (* EBase: the bare class Energy *)
Definition ecls_eqb (a b : ecls) : bool :=
  match a, b with
  | EPot, EPot | EHcont, EHcont | EGcont, EGcont | EBase, EBase | EEnth, EEnth | EFreeE, EFreeE => true
  | _, _ => false
  end.
Record entry := mkE { ecl : ecls; ex : Qc; eu : unit }.
(* solvents are identified by an index into a pool of pairwise different solvents *)
Record species := mkS { s_natoms : Z; s_charge : Z; s_mult : Z; s_solvent : option nat;
                        s_energies : list entry }.

(* Energies.last(type): next(e for e in reversed(self) if isinstance(e, type))   (values.py:461-473) *)
Definition last_of (c : ecls) (l : list entry) : option entry :=
  find (fun e => ecls_eqb (ecl e) c) (rev l).
Definition quantity := (Qc * unit)%type.
(* Species.energy (species.py:615-655) *)
Definition sp_energy (s : species) : option quantity :=
  option_map (fun e => (ex e, eu e)) (last_of EPot (s_energies s)).
(* Species.enthalpy / free_energy:  Enthalpy(self.energy + self.h_cont): Value.__add__ converts the
   right operand into the left one's unit (species.py:701-751, values.py:214-221) *)
Definition sp_plus (c : ecls) (s : species) : option quantity :=
  match sp_energy s, last_of c (s_energies s) with
  | Some (x, u), Some h => Some ((x + conv (ex h) (eu h) u)%Qc, u)
  | _, _ => None
  end.
(* getattr(mol, e_type) *)
Definition sp_get (k : ekind) (s : species) : option quantity :=
  match k with KEnergy => sp_energy s | KEnthalpy => sp_plus EHcont s | KFree => sp_plus EGcont s end.

(* ================================================================== units *)
Fixpoint class_units (k : string) (l : list (string * list unit)) : list unit :=
  match l with [] => [] | (k', v) :: r => if String.eqb k k' then v else class_units k r end.
Definition energy_units : list unit := class_units "Energy" classes.
Definition no_unit : unit := mkUnit "" [] (Q2Qc 0) (Q2Qc 0).
(* Energy(x, units=a) / x.to(a): the implemented unit having alias a *)
Definition unit_of_alias (a : string) : unit :=
  match find_unit energy_units a with Some u => u | None => no_unit end.
Definition target_u : unit := unit_of_alias target_unit.
Definition default_u : unit := unit_of_alias "ha".     (* Energy.__init__(units=ha) *)
(* getattr(mol, e_type).to('Ha') *)
Definition to_target (v : quantity) : Qc := conv (fst v) (snd v) target_u.

(* ================================================================== supplying energies *)
(* Energy.__eq__ (values.py:342-359): a == b is False unless isinstance(b, a.__class__) (every energy
   class derives directly from Energy), else |b.to('Ha') - a.to('Ha')| < tol_ha *)
Definition cls_accepts (a b : ecls) : bool := match a with EBase => true | _ => ecls_eqb a b end.
Definition entry_default (e : entry) : Qc := conv (ex e) (eu e) default_u.
Definition energy_eqb (a b : entry) : bool :=
  cls_accepts (ecl a) (ecl b) && Qcltb (Qcabs (entry_default b - entry_default a)%Qc) energy_eq_tol.
Fixpoint find_index {A} (f : A -> bool) (l : list A) : option nat :=
  match l with
  | [] => None
  | x :: r => if f x then Some 0%nat else option_map S (find_index f r)
  end.
Fixpoint remove_nth {A} (i : nat) (l : list A) : list A :=
  match l, i with
  | [], _ => []
  | _ :: r, O => r
  | x :: r, S j => x :: remove_nth j r
  end.
(* Energies.append (values.py:428-446): the first item equal to the new energy is looked up again by
   self.index(item) (first x with x == item), popped, and the new energy goes to the end *)
Definition energies_append (other : entry) (l : list entry) : list entry :=
  match find (energy_eqb other) l with
  | None => l ++ [other]
  | Some item => match find_index (fun x => energy_eqb x item) l with
                 | Some i => remove_nth i l ++ [other]
                 | None => l ++ [other]
                 end
  end.
(* what is assigned to Species.energy (species.py:666-684) *)
Inductive supplied := SNone | SNumber (x : Qc) | SEnergy (c : ecls) (x : Qc) (u : unit).
(* the entry the setter appends.  setter_mode is GENERATED from the setter's branches:
   0 = any Energy that is not a PotentialEnergy is cast by PotentialEnergy(float(value)): its unit is DROPPED;
   1 = such an Energy keeps its unit; 2 = it is converted to the default unit first *)
Definition supplied_entry_m (mode : nat) (v : supplied) : option entry :=
  match v with
  | SNone => None
  | SNumber x => Some (mkE EPot x default_u)               (* float / str: assumed Hartree *)
  | SEnergy EPot x u => Some (mkE EPot x u)
  | SEnergy _ x u => Some (match mode with
                           | O => mkE EPot x default_u
                           | S O => mkE EPot x u
                           | _ => mkE EPot (conv x u default_u) default_u
                           end)
  end.
Definition set_energy_m (mode : nat) (v : supplied) (s : species) : species :=
  match supplied_entry_m mode v with
  | None => s
  | Some e => mkS (s_natoms s) (s_charge s) (s_mult s) (s_solvent s) (energies_append e (s_energies s))
  end.
Definition supply_m (mode : nat) (s : species) (vs : list supplied) : species :=
  fold_left (fun acc v => set_energy_m mode v acc) vs s.
Definition set_energy := set_energy_m setter_mode.
Definition supply := supply_m setter_mode.

(* ================================================================== delta  (reaction.py:396-483) *)
Inductive dres :=
| DVal (x : Qc) (u : unit)     (* an Energy of value x in unit u *)
| DNone                        (* None *)
| DErr (exc : string).         (* an exception *)

Fixpoint all_some {A} (l : list (option A)) : option (list A) :=
  match l with
  | [] => Some []
  | None :: _ => None
  | Some x :: r => match all_some r with Some r' => Some (x :: r') | None => None end
  end.
(* sum(...) starts from 0 and adds left to right *)
Definition qsum (l : list Qc) : Qc := fold_left Qcplus l (Q2Qc 0).

(* reaction.py:475-483 — None if any e_type value is None, else sum(rhs) op sum(lhs) in the target unit *)
Definition diff (k : ekind) (rhs lhs : list species) : dres :=
  match all_some (map (sp_get k) rhs), all_some (map (sp_get k) lhs) with
  | Some b, Some a => DVal (delta_combine (qsum (map to_target b)) (qsum (map to_target a))) target_u
  | _, _ => DNone
  end.

(* TransitionStates.lowest_energy (transition_states.py:10-27): np.argmin([ts.energy for ts in self]) *)
Fixpoint argmin_go (best : Qc) (bi i : nat) (l : list Qc) : nat :=
  match l with
  | [] => bi
  | x :: r => if Qcltb x best then argmin_go x i (S i) r else argmin_go best bi (S i) r
  end.
Definition argmin (l : list Qc) : nat := match l with [] => 0%nat | x :: r => argmin_go x 0 1 r end.
(* what the choice of the lowest TS compares: the raw float (lowest_unit = None) or the value after .to(u) *)
Definition lowest_key (e : quantity) : Qc :=
  match lowest_unit with None => fst e | Some a => conv (fst e) (snd e) (unit_of_alias a) end.
Inductive lowres := LErr | LOk (t : option species).
(* pinned form: np.argmin([ts.energy for ts in self]) over the raw floats *)
Definition lowest_raw (tss : list species) : lowres :=
  match tss with
  | [] => LOk None
  | [t] => LOk (Some t)                      (* argmin of one element never compares *)
  | _ => match all_some (map sp_energy tss) with
         | None => LErr                      (* TypeError: '<' between float and NoneType *)
         | Some es => LOk (nth_error tss (argmin (map lowest_key es)))
         end
  end.
(* repaired form: tss_with_energy = [ts for ts in self if ts.energy is not None];
   self[0] if there is none, else min(tss_with_energy, key=lambda ts: float(ts.energy.to(u)))
   (Python's min keeps the first minimal element, like argmin) *)
Definition has_energy (t : species) : bool := negb (match sp_energy t with None => true | Some _ => false end).
Definition lowest_common (tss : list species) : lowres :=
  match tss with
  | [] => LOk None
  | t0 :: _ =>
    let w := filter has_energy tss in
    match w, all_some (map sp_energy w) with
    | _ :: _, Some es => LOk (nth_error w (argmin (map lowest_key es)))
    | _, _ => LOk (Some t0)
    end
  end.
Definition lowest_ts (tss : list species) : lowres :=
  match lowest_unit with None => lowest_raw tss | Some _ => lowest_common tss end.

Record reaction := mkR { reacs : list species; prods : list species; tss : list species;
                         rtype : option string; rsolvent : option nat; rcharge : Z }.

Definition opt_string_eqb (a b : option string) : bool :=
  match a, b with Some x, Some y => String.eqb x y | None, None => true | _, _ => false end.

(* _estimated_barrierless_delta (reaction.py:356-394) applied to the value of self.delta(e_type) *)
Definition estimate (r : reaction) (d : dres) : dres :=
  match d with
  | DVal x u =>
    (* max(Energy(floor), delta): delta if delta > Energy(floor) (Value.__gt__ converts the floor) *)
    let v := if Qcltb (conv barrierless_floor default_u u) x then (x, u) else (barrierless_floor, default_u) in
    (* if self.type != Rearrangement: value += Energy(const, units) *)
    let v' := if opt_string_eqb (rtype r) (Some barrierless_exempt) then v
              else ((fst v + conv barrierless_const (unit_of_alias barrierless_const_unit) (snd v))%Qc, snd v) in
    DVal (fst v') (snd v')
  | other => other
  end.

(* what Reaction.delta extracts from the delta_type string: (e_type or ValueError, is_ts_delta()) *)
Definition parse (s : string) : option ekind * bool :=
  let l := lower (B s) in (etype_l l, is_ts_l l).

(* Reaction.delta after parsing, with the barrierless branch abstracted *)
Definition delta_with (est : ekind -> dres) (r : reaction) (p : option ekind * bool) : dres :=
  let ts := snd p in
  (* rhs += [self.ts] if is_ts_delta() else self.prods   — evaluated before the e_type chain *)
  match (if ts then lowest_ts (tss r) else LOk None) with
  | LErr => DErr "TypeError"
  | LOk t =>
    match fst p with
    | None => DErr "ValueError"
    | Some k =>
      if ts then match t with
                 | None => est k                      (* is_barrierless *)
                 | Some t => diff k [t] (reacs r)
                 end
      else diff k (prods r) (reacs r)
    end
  end.
(* the nested call self.delta(e_type) of the estimate: fuel 1, explicit error if it recursed again *)
Definition delta0 (r : reaction) (s : string) : dres :=
  delta_with (fun _ => DErr "RecursionError") r (parse s).
Definition delta_parsed (r : reaction) (p : option ekind * bool) : dres :=
  delta_with (fun k => estimate r (delta0 r (etype_name k))) r p.
Definition delta (r : reaction) (s : string) : dres := delta_parsed r (parse s).

(* class of the returned object: PotentialEnergy / Enthalpy / FreeEnergy *)
Definition value_class (k : ekind) : string :=
  match k with KEnergy => "PotentialEnergy" | KEnthalpy => "Enthalpy" | KFree => "FreeEnergy" end.
Fixpoint assoc_str (k : string) (l : list (string * string)) (d : string) : string :=
  match l with [] => d | (k', v) :: r => if String.eqb k k' then v else assoc_str k r d end.
Definition estimate_class (k : ekind) : string := assoc_str (etype_name k) estimate_classes estimate_default_class.

(* ================================================================== constructor  (reaction.py:38-101, 185-257) *)
(* reaction_types.classify (reaction_types.py:34-92): first matching rule *)
Definition allowed (o : option (list nat)) (n : nat) : bool :=
  match o with None => true | Some l => existsb (Nat.eqb n) l end.
Fixpoint classify_go (rules : list crule) (nr np : nat) : cres :=
  match rules with
  | [] => classify_default
  | (a, b, r) :: t => if allowed a nr && allowed b np then r else classify_go t nr np
  end.
Definition classify (nr np : nat) : cres := classify_go classify_rules nr np.

(* _check_balance (reaction.py:185-209) *)
Definition attr_get (a : string) (s : species) : Z :=
  if String.eqb a "n_atoms" then s_natoms s
  else if String.eqb a "charge" then s_charge s
  else if String.eqb a "mult" then s_mult s else 0%Z.
Definition total (a : string) (mols : list species) : Z := fold_left Z.add (map (attr_get a) mols) 0%Z.
Definition bside (c : bcheck) (mols : list species) : Z :=
  (total (battr c) mols - (if bminus_len c then Z.of_nat (List.length mols) else 0))%Z.
Fixpoint balance_go (checks : list bcheck) (rs ps : list species) : option (string * string) :=
  match checks with
  | [] => None
  | c :: t => if Z.eqb (bside c rs) (bside c ps) then balance_go t rs ps else Some (bexc c, bmsg c)
  end.

(* _check_solvent (reaction.py:211-257) *)
Definition is_none {A} (o : option A) : bool := match o with None => true | Some _ => false end.
Definition opt_nat_eqb (a b : option nat) : bool :=
  match a, b with Some x, Some y => Nat.eqb x y | None, None => true | _, _ => false end.
Inductive solres := SolOk (s : option nat) | SolErr (exc tag : string).
Definition check_solvent (rs : option nat) (reacs prods : list species) : solres :=
  let mols := reacs ++ prods in
  match mols with
  | [] => SolOk rs                                       (* no molecules: nothing checked *)
  | _ =>
    match reacs with
    | [] => SolErr "IndexError" ""                       (* first_solvent = self.reacs[0].solvent *)
    | r0 :: _ =>
      match rs with
      | Some s => SolOk (Some s)                         (* reaction solvent overrides *)
      | None =>
        if forallb (fun m => is_none (s_solvent m)) mols then SolOk None
        else if forallb (fun m => negb (is_none (s_solvent m))) mols then
          if forallb (fun m => opt_nat_eqb (s_solvent m) (s_solvent r0)) mols then SolOk (s_solvent r0)
          else SolErr "SolventsDontMatch" "differ"
        else SolErr "SolventsDontMatch" "mixed"
      end
    end
  end.
Definition set_solvent (s : option nat) (m : species) : species :=
  match s with
  | Some _ => mkS (s_natoms m) (s_charge m) (s_mult m) s (s_energies m)
  | None => m
  end.

Inductive cresu := COk (r : reaction) | CFail (exc tag : string).
(* one step of Reaction.__init__; solvent_name is the constructor's keyword argument *)
Definition ctor_step (solvent_name : option nat) (name : string) (st : reaction) : cresu :=
  if String.eqb name "classify" then
    match classify (List.length (reacs st)) (List.length (prods st)) with
    | CRNone => COk (mkR (reacs st) (prods st) (tss st) None (rsolvent st) (rcharge st))
    | CRType n => COk (mkR (reacs st) (prods st) (tss st) (Some n) (rsolvent st) (rcharge st))
    | CRRaise e => CFail e ""
    end
  else if String.eqb name "get_solvent" then
    COk (mkR (reacs st) (prods st) (tss st) (rtype st) solvent_name (rcharge st))
  else if String.eqb name "solvent" then
    match check_solvent (rsolvent st) (reacs st) (prods st) with
    | SolOk s => COk (mkR (map (set_solvent s) (reacs st)) (map (set_solvent s) (prods st)) (tss st)
                          (rtype st) s (rcharge st))
    | SolErr e t => CFail e t
    end
  else if String.eqb name "balance" then
    match balance_go balance_checks (reacs st) (prods st) with
    | None => COk (mkR (reacs st) (prods st) (tss st) (rtype st) (rsolvent st) (total "charge" (reacs st)))
    | Some (e, m) => CFail e m
    end
  else if String.eqb name "names" then COk st            (* renames only *)
  else CFail "UnknownStep" name.
Fixpoint run_steps (solvent_name : option nat) (steps : list string) (st : reaction) : cresu :=
  match steps with
  | [] => COk st
  | n :: t => match ctor_step solvent_name n st with
              | COk st' => run_steps solvent_name t st'
              | CFail e m => CFail e m
              end
  end.
(* Reaction(reacs..., prods..., solvent_name=...) *)
Definition construct (solvent_name : option nat) (rs ps : list species) : cresu :=
  run_steps solvent_name ctor_steps (mkR rs ps [] None None 0%Z).

(* ================================================================== histories *)
(* switch_reactants_products (reaction.py:599-617): the lists are swapped, nothing else *)
Definition switch (r : reaction) : reaction :=
  mkR (prods r) (reacs r) (tss r) (rtype r) (rsolvent r) (rcharge r).
(* save = pickle.dump(self.__dict__), load = setattr of every pickled attribute (reaction.py:885-896).
   pickle itself is an oracle: it is assumed to reproduce each attribute value. *)
Definition checkpoint := reaction.
Definition save (r : reaction) : checkpoint := r.
Definition load (c : checkpoint) (r : reaction) : reaction :=
  mkR (reacs c) (prods c) (tss c) (rtype c) (rsolvent c) (rcharge c).
(* utils.checkpoint_rxn_profile_step (utils.py:662-696): `file` = the checkpoint on disk, if any;
   `raises`: the wrapped step raised (the exception propagates out of `result = func(reaction)`,
   nothing is written, the reaction keeps whatever the step did to it before failing) *)
Definition ckpt_step (file : option checkpoint) (elapsed : Qc) (raises : bool) (f : reaction -> reaction)
  (r : reaction) : reaction * option checkpoint :=
  match file with
  | Some c => (load c r, file)
  | None => let r' := f r in
            if raises then (r', None)
            else if Qcltb elapsed checkpoint_min_seconds then (r', None) else (r', Some (save r'))
  end.
(* the file is looked up by name: checkpoints/<str(reaction)>_<step name>.chk *)
Fixpoint lookup_ckpt (k : string) (store : list (string * checkpoint)) : option checkpoint :=
  match store with [] => None | (k', c) :: t => if String.eqb k k' then Some c else lookup_ckpt k t end.
Definition ckpt_keyed (store : list (string * checkpoint)) (key : string) (elapsed : Qc) (raises : bool)
  (f : reaction -> reaction) (r : reaction) : reaction * list (string * checkpoint) :=
  let res := ckpt_step (lookup_ckpt key store) elapsed raises f r in
  (fst res, match lookup_ckpt key store, snd res with None, Some c => (key, c) :: store | _, _ => store end).

(* Reaction.ts setter (reaction.py:579-597): self.tss.clear() FIRST, then None -> nothing more,
   a TransitionState -> appended (so it is the only one), anything else -> ValueError (the list is
   already empty by then).  rxn.tss.append(t) adds one more.  OUpd: the energies of a species the
   reaction holds are replaced IN PLACE (e.g. a single point on a TS); nothing is cached anywhere. *)
Definition set_tss (r : reaction) (l : list species) : reaction :=
  mkR (reacs r) (prods r) l (rtype r) (rsolvent r) (rcharge r).
Definition with_energies (es : list entry) (m : species) : species :=
  mkS (s_natoms m) (s_charge m) (s_mult m) (s_solvent m) es.
Fixpoint upd_nth (i : nat) (es : list entry) (l : list species) : list species :=
  match l, i with
  | [], _ => []
  | m :: r, O => with_energies es m :: r
  | m :: r, S j => m :: upd_nth j es r
  end.
Inductive op :=
| OSwitch | OSaveLoad | OSetTS (t : option species) | OSetTSInvalid | OAppendTS (t : species)
| OUpd (which i : nat) (es : list entry).        (* which: 0 reactants, 1 products, otherwise tss *)
Definition run_op (o : op) (r : reaction) : reaction :=
  match o with
  | OSwitch => switch r
  | OSaveLoad => load (save r) (mkR [] [] [] None None 0%Z)
  | OSetTS None => set_tss r []
  | OSetTS (Some t) => set_tss r [t]
  | OSetTSInvalid => set_tss r []
  | OAppendTS t => set_tss r (tss r ++ [t])
  | OUpd 0 i es => mkR (upd_nth i es (reacs r)) (prods r) (tss r) (rtype r) (rsolvent r) (rcharge r)
  | OUpd 1 i es => mkR (reacs r) (upd_nth i es (prods r)) (tss r) (rtype r) (rsolvent r) (rcharge r)
  | OUpd _ i es => set_tss r (upd_nth i es (tss r))
  end.
Definition run_ops (ops : list op) (r : reaction) : reaction := fold_left (fun acc o => run_op o acc) ops r.
(* is_barrierless: self.ts is None *)
Definition is_barrierless (r : reaction) : bool :=
  match lowest_ts (tss r) with LOk None => true | _ => false end.
