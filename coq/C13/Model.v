(* C13/Model.v — executable model of autodE's nudged elastic band (definitions only).

   GENERATED (gen/C13_Gen.v, from /repo on every run): tau_sel / tau_xl_x_xr (tangent selection
   and normalisation), get_force, ci_get_force, adaptive_k / adaptive_skip / increment_ks.
   HAND-WRITTEN here, line by line from autode/neb/original.py:
     derivative                          original.py:128-149
     NEB._interpolated_species           original.py:620-650
     NEB._max_atom_distance_between_images   original.py:754-775
     NEB.partition (outer for, inner while)  original.py:557-615
   plus the instance of the operation record at canonical rationals Qc. *)
From Coq Require Import ZArith QArith Qcanon List Bool Arith.
From AV.lib Require Import Sums QcInst.
From AV.C13 Require Import Base.
From AV.gen Require Import C13_Gen.
Import ListNotations.

(* ============================================================================================ *)
(* derivative(): any carrier                                                                      *)
Section Band.
Variable F : Type.
Variable O : ops F.

(* an image as far as the force code reads it: energy, spring constant k, flat coordinates,
   flat gradient, and whether it is a climbing image (class CImage, neb/ci.py:14) *)
Record image := mkImage { im_E : F; im_k : F; im_x : nat -> F; im_g : nat -> F; im_ci : bool }.

(* images[i].get_force(im_l=images[i-1], im_r=images[i+1]): method dispatch on the class of image i *)
Definition image_force (n : nat) (l i r : image) : option (nat -> F) :=
  if im_ci i
  then ci_get_force F O n (im_E l) (im_E i) (im_E r) (im_k l) (im_k r) (im_x l) (im_x i) (im_x r) (im_g i)
  else get_force F O n (im_E l) (im_E i) (im_E r) (im_k l) (im_k r) (im_x l) (im_x i) (im_x r) (im_g i).

(* original.py:140-142   for i in range(1, len(images) - 1): force = images[i].get_force(...) *)
Fixpoint interior_forces (n : nat) (band : list image) : option (list (nat -> F)) :=
  match band with
  | l :: rest =>
      match rest with
      | i :: r :: _ =>
          match image_force n l i r, interior_forces n rest with
          | Some f, Some fs => Some (f :: fs)
          | _, _ => None
          end
      | _ => Some []
      end
  | [] => Some []
  end.

Definition vzero : nat -> F := fun _ => o0 O.

(* original.py:137 zeros for the first image; :145 zeros for the last; :149 return -forces.
   One block per image (the flat array is the concatenation of the blocks).  A band of ONE image
   yields two zero blocks (quirk of :137/:145); an empty band raises IndexError (None). *)
Definition derivative (n : nat) (band : list image) : option (list (nat -> F)) :=
  match band with
  | [] => None
  | _ => match interior_forces n band with
         | Some fs => Some (map (vneg F (oopp O)) ([vzero] ++ fs ++ [vzero]))
         | None => None
         end
  end.
(* the force constants over a whole optimisation: Images.increment is called once per energy evaluation
   (total_energy, original.py:116) with the image energies of that step *)
Fixpoint increments (adaptive : bool) (min_k max_k : F) (ess : list (list F)) (ks : list F) : option (list F) :=
  match ess with
  | [] => Some ks
  | es :: rest =>
      match increment_ks F O adaptive min_k max_k es ks with
      | Some ks' => increments adaptive min_k max_k rest ks'
      | None => None
      end
  end.
End Band.
Arguments mkImage {F}. Arguments im_E {F}. Arguments im_k {F}. Arguments im_x {F}.
Arguments im_g {F}. Arguments im_ci {F}.

(* ============================================================================================ *)
(* the operations at Qc                                                                           *)
Definition Qceqb (a b : Qc) : bool := Qeq_bool (this a) (this b).
Definition Qcminq (a b : Qc) : Qc := if Qcleb a b then a else b.
(* values.py Energy.__eq__:  abs(other - float(self.to("Ha"))) < tol_ha,  tol_ha = 0.0000159 *)
Definition tol_ha : Qc := qc 159 10000000.
Definition energy_eqb (a b : Qc) : bool := Qcltb (Qcabs (b - a)%Qc) tol_ha.

Definition Oq (nrm : nat -> (nat -> Qc) -> Qc) : ops Qc :=
  mkOps Qc (Q2Qc 0) (Q2Qc 1) Qcplus Qcmult Qcminus Qcopp Qcdiv Qcltb Qceqb energy_eqb nrm.

(* ============================================================================================ *)
(* NEB._interpolated_species (original.py:620-650), over Qc                                      *)
(* a species as far as interpolation reads it: atom labels in order, flat coordinates *)
Record species := mkSpecies { sp_labels : list nat; sp_x : nat -> Qc }.

Definition qnat (i : nat) : Qc := Q2Qc (inject_Z (Z.of_nat i)).

(* :638-646  species = initial.copy(); every atom j translated by (final_j - atom_j) * (i / (n - 1)) *)
Definition interp_point (a b : species) (n i : nat) : species :=
  mkSpecies (sp_labels a)
            (fun c => (sp_x a c + (sp_x b c - sp_x a c) * (qnat i / qnat (n - 1)))%Qc).

(* :627 n < 2 -> RuntimeError (None);  :630 n == 2 -> the two end points;
   :636 for i in range(1, n - 1);  :650 [initial] + intermediate + [final] *)
Definition interpolated_species (a b : species) (n : nat) : option (list species) :=
  if (n <? 2)%nat then None
  else if (n =? 2)%nat then Some [a; b]
  else Some ([a] ++ map (interp_point a b n) (seq 1 (n - 2)) ++ [b]).

(* ============================================================================================ *)
(* _max_atom_distance_between_images and partition, over an abstract image type                   *)
(* result of the max-distance function: -inf | a value | an empty atom selection raises
   (numpy: IndexError when indexing with the empty float array, ValueError for np.max of nothing) *)
Inductive mdres := MDNegInf | MDVal (d : Qc) | MDErr.

Section Partition.
Variable I : Type.
(* dist a b j = np.linalg.norm(x_a - x_b, axis=1)[j]: distance moved by atom j between two images
   (the square root is an oracle; its values are the implementation's) *)
Variable dist : I -> I -> nat -> Qc.

Definition qmax (a b : Qc) : Qc := if Qcltb a b then b else a.
(* np.max over the selected atoms *)
Definition lmax (l : list Qc) : option Qc :=
  match l with [] => None | x :: r => Some (fold_left qmax r x) end.

(* :767-773  for k in range(len(images) - 1): max_distance = max over idxs of |x_k - x_k+1|;
             if max_distance > overall_max_distance: overall_max_distance = max_distance *)
Fixpoint max_dist_from (idxs : list nat) (overall : mdres) (band : list I) : mdres :=
  match band with
  | a :: rest =>
      match rest with
      | b :: _ =>
          match lmax (map (dist a b) idxs) with
          | None => MDErr
          | Some m =>
              let overall' := match overall with
                              | MDNegInf => MDVal m
                              | MDVal o => if Qcltb o m then MDVal m else MDVal o
                              | MDErr => MDErr
                              end in
              max_dist_from idxs overall' rest
          end
      | [] => overall
      end
  | [] => overall
  end.
(* :765 overall_max_distance = -np.inf *)
Definition max_atom_distance (idxs : list nat) (band : list I) : mdres := max_dist_from idxs MDNegInf band.

(* from_end_points(left, right, num=n).images : interpolation + IDPP relaxation (scipy L-BFGS): an
   oracle.  None = it raised RuntimeError. *)
Variable build : I -> I -> nat -> option (list I).

Inductive pres := POk (band : list I) | PAssertion | PRuntimeError | PValueError | POutOfFuel.

(* `sub_neb._max_atom_distance_between_images(distance_idxs) > max_delta` *)
Definition exceeds (r : mdres) (max_delta : Qc) : option bool :=
  match r with
  | MDNegInf => Some false
  | MDVal d => Some (Qcltb max_delta d)
  | MDErr => None
  end.

(* :590-601  while max_dist(sub_neb) > max_delta:
                 try: sub_neb = from_end_points(left, right, num=n)   (first pass: n = 2 AGAIN)
                 except RuntimeError: keep the previous sub_neb
                 n += 1
   Python's loop is unbounded; the model has fuel and an explicit out-of-fuel result. *)
Fixpoint inner (fuel : nat) (idxs : list nat) (max_delta : Qc) (l r : I) (n : nat) (sub : list I) : pres :=
  match exceeds (max_atom_distance idxs sub) max_delta with
  | None => PValueError
  | Some false => POk sub
  | Some true =>
      match fuel with
      | O => POutOfFuel
      | S f =>
          let sub' := match build l r n with Some s => s | None => sub end in
          inner f idxs max_delta l r (S n) sub'
      end
  end.

(* :584-606  for i, left in enumerate(images[:-1]): right = images[i+1]; n = 2;
             sub_neb = from_end_points(left, right, 2)  (outside the try: RuntimeError propagates)
             ... _list += sub_neb.images[:-1];   finally _list.append(images[-1]) *)
Fixpoint outer (fuel : nat) (idxs : list nat) (max_delta : Qc) (band : list I) : pres :=
  match band with
  | l :: rest =>
      match rest with
      | r :: _ =>
          match build l r 2 with
          | None => PRuntimeError
          | Some sub0 =>
              match inner fuel idxs max_delta l r 2 sub0 with
              | POk sub =>
                  match outer fuel idxs max_delta rest with
                  | POk tl => POk (removelast sub ++ tl)
                  | e => e
                  end
              | e => e
              end
          end
      | [] => POk [l]
      end
  | [] => POk []
  end.

(* :581 assert len(self.images) > 1 *)
Definition partition (fuel : nat) (idxs : list nat) (max_delta : Qc) (band : list I) : pres :=
  if (length band <? 2)%nat then PAssertion else outer fuel idxs max_delta band.

End Partition.
Arguments POk {I}. Arguments PAssertion {I}. Arguments PRuntimeError {I}.
Arguments PValueError {I}. Arguments POutOfFuel {I}.
