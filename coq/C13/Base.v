(* C13/Base.v — the operation record the generated NEB definitions (gen/C13_Gen.v) are written
   over.  Field operations plus the Python operations that are not field algebra:
     oltb   Python `a < b` on floats / autode Values (exact comparison of the doubles)
     ofeqb  exact `==` of two np.float64
     oeqe   autode Energy.__eq__ (|a - b| < 1.59e-5 Ha: a tolerance test)
     onrm   np.linalg.norm of a flat vector of the given length (an oracle: sqrt is not a field
            operation; theorems state what they need of it as explicit premises). *)
Record ops (F : Type) := mkOps {
  o0 : F; o1 : F;
  oadd : F -> F -> F; omul : F -> F -> F; osub : F -> F -> F; oopp : F -> F; odiv : F -> F -> F;
  oltb : F -> F -> bool; ofeqb : F -> F -> bool; oeqe : F -> F -> bool;
  onrm : nat -> (nat -> F) -> F
}.
Arguments o0 {F}. Arguments o1 {F}. Arguments oadd {F}. Arguments omul {F}. Arguments osub {F}.
Arguments oopp {F}. Arguments odiv {F}. Arguments oltb {F}. Arguments ofeqb {F}. Arguments oeqe {F}.
Arguments onrm {F}.
