(* C13/Props.v — the property theorems for "Nudged-elastic-band forces and band construction obey
   the NEB definition".  tau_sel, tau_xl_x_xr, get_force, ci_get_force, adaptive_k, adaptive_skip,
   increment_ks are GENERATED from /repo (gen/C13_Gen.v) on every run; derivative,
   interpolated_species, max_atom_distance, partition are the hand model of C13/Model.v.
   Theorems about forces hold over EVERY field F and every dimension n; the square root enters only
   as the value `nrm n tau` with the premise  nrm n tau * nrm n tau = tau . tau,  nrm n tau <> 0
   (what np.linalg.norm returns for a non-zero tangent, up to rounding).  Order-dependent theorems
   are over the rationals Qc (every double is one). *)
From Coq Require Import ZArith QArith Qcanon List Bool Arith Lia Field.
From AV.lib Require Import Sums QcInst.
From AV.C13 Require Import Base Model Lemmas.
From AV.gen Require Import C13_Gen.
Import ListNotations.

(* The tangent selection returns a tangent for every energy triple (ties included) and every
   geometry: it never reaches a `raise`.  Any carrier, any comparison functions. *)
Theorem tangent_choice_total :
  forall (F : Type) (O : ops F) (El E Er : F) (xl x xr : nat -> F),
  exists t, tau_sel F O El E Er xl x xr = Some t.
Proof.
  intros F [z o a m s op d lt fe ee nr] El E Er xl x xr.
  exact (tau_sel_total F z o a m s op d lt fe ee nr El E Er xl x xr).
Qed.

(* _tau_xl_x_xr returns the selected tangent divided by its norm, and that is a unit vector. *)
Theorem tangent_normalised_unit :
  forall (F : Type) (F0 F1 : F) Fadd Fmul Fsub Fopp Fdiv Finv,
  field_theory F0 F1 Fadd Fmul Fsub Fopp Fdiv Finv (@eq F) ->
  forall ltb feqb eqe nrm,
  let O := mkOps F F0 F1 Fadd Fmul Fsub Fopp Fdiv ltb feqb eqe nrm in
  forall n El E Er xl x xr tau,
  tau_sel F O El E Er xl x xr = Some tau ->
  tau_xl_x_xr F O n El E Er xl x xr = Some (vdivs F Fdiv tau (nrm n tau)) /\
  (Fmul (nrm n tau) (nrm n tau) = dot F F0 Fadd Fmul n tau tau -> nrm n tau <> F0 ->
   dot F F0 Fadd Fmul n (vdivs F Fdiv tau (nrm n tau)) (vdivs F Fdiv tau (nrm n tau)) = F1).
Proof.
  intros F F0 F1 Fadd Fmul Fsub Fopp Fdiv Finv Fth ltb feqb eqe nrm O n El E Er xl x xr tau Ht.
  split.
  - unfold O. rewrite tau_hat_is_normalised_sel. unfold O in Ht. rewrite Ht. reflexivity.
  - intros Hsq Hne. exact (unit_of_norm F F0 F1 Fadd Fmul Fsub Fopp Fdiv Finv Fth n tau _ Hsq Hne).
Qed.

(* The tangent follows the energy ordering of the neighbours (Henkelman-Jonsson):
   rising profile -> forward difference, falling -> backward difference, at an extremum the
   energy-weighted mix with the larger weight on the side of the higher neighbour; equal neighbour
   energies take the last branch (both weights equal, see tangent_tie_is_bisector); three equal
   energies give the plain bisector. *)
Theorem tangent_choice_spec :
  forall nrm (El E Er : Qc) (xl x xr t : nat -> Qc),
  tau_sel Qc (Oq nrm) El E Er xl x xr = Some t ->
  let dM := Qcmaxq (Qcabs (E - Er)) (Qcabs (E - El)) in
  let dm := Qcminq (Qcabs (E - Er)) (Qcabs (E - El)) in
  let tp := fun i => (xr i - x i)%Qc in
  let tm := fun i => (x i - xl i)%Qc in
  (dM = Q2Qc 0 -> forall i, t i = tp i + tm i)%Qc /\
  (dM <> Q2Qc 0 ->
     (El < E -> E < Er -> forall i, t i = tp i) /\
     (Er < E -> E < El -> forall i, t i = tm i) /\
     (~ (El < E /\ E < Er) -> ~ (Er < E /\ E < El) -> El < Er ->
        forall i, t i = dM * tp i + dm * tm i) /\
     (~ (El < E /\ E < Er) -> ~ (Er < E /\ E < El) -> Er <= El ->
        forall i, t i = dm * tp i + dM * tm i))%Qc.
Proof. intros nrm El E Er xl x xr t Ht. exact (tangent_spec_lemma nrm El E Er xl x xr t Ht). Qed.

(* Energy tie of the two neighbours: the tangent is the bisector (x_r - x_l) scaled by the common
   weight; with all three energies equal it is the bisector itself. *)
Theorem tangent_tie_is_bisector :
  forall nrm (El E Er : Qc) (xl x xr t : nat -> Qc),
  tau_sel Qc (Oq nrm) El E Er xl x xr = Some t -> El = Er ->
  let dM := Qcmaxq (Qcabs (E - Er)) (Qcabs (E - El)) in
  forall i, (t i = (if Qceqb dM (Q2Qc 0) then Q2Qc 1 else dM) * ((xr i - x i) + (x i - xl i)))%Qc.
Proof.
  intros nrm El E Er xl x xr t Ht Htie dM i.
  destruct (tangent_spec_lemma nrm El E Er xl x xr t Ht) as [H0 H1].
  fold (dvmax El E Er) in dM. destruct (Qceqb dM (Q2Qc 0)) eqn:Eq.
  - apply Qceqb_eq in Eq. rewrite (H0 Eq i). ring.
  - assert (Hne : dvmax El E Er <> Q2Qc 0) by (intros Hc; unfold dM in Eq; rewrite Hc in Eq; discriminate).
    destruct (H1 Hne) as [_ [_ [_ H4]]].
    assert (N1 : ~ (El < E /\ E < Er)%Qc).
    { intros [A B]. rewrite Htie in A. exact (Qclt_asym _ _ A B). }
    assert (N2 : ~ (Er < E /\ E < El)%Qc).
    { intros [A B]. rewrite Htie in B. exact (Qclt_asym _ _ A B). }
    rewrite (H4 N1 N2 ltac:(rewrite Htie; apply Qcle_refl) i). rewrite (dv_tie El E Er Htie).
    unfold dM. ring.
Qed.

(* Force on an interior image = spring force along the unit tangent minus the perpendicular part
   of the true gradient:  F = s th - (g - (g.th) th),  s = k_r |x_r - x| - k_l |x - x_l|,
   hence  F.th = s  and  F - (F.th) th = -(g - (g.th) th).  Every field, every dimension. *)
Theorem force_decomposition :
  forall (F : Type) (F0 F1 : F) Fadd Fmul Fsub Fopp Fdiv Finv,
  field_theory F0 F1 Fadd Fmul Fsub Fopp Fdiv Finv (@eq F) ->
  forall ltb feqb eqe nrm,
  let O := mkOps F F0 F1 Fadd Fmul Fsub Fopp Fdiv ltb feqb eqe nrm in
  let dot := dot F F0 Fadd Fmul in
  forall n El E Er kl kr xl x xr g tau,
  tau_sel F O El E Er xl x xr = Some tau ->
  Fmul (nrm n tau) (nrm n tau) = dot n tau tau -> nrm n tau <> F0 ->
  let th := vdivs F Fdiv tau (nrm n tau) in
  let spring := Fsub (Fmul (nrm n (vsub F Fsub xr x)) kr) (Fmul (nrm n (vsub F Fsub x xl)) kl) in
  exists f, get_force F O n El E Er kl kr xl x xr g = Some f /\
    dot n th th = F1 /\
    (forall i, f i = Fsub (Fmul spring (th i)) (Fsub (g i) (Fmul (dot n g th) (th i)))) /\
    dot n f th = spring /\
    (forall i, Fsub (f i) (Fmul (dot n f th) (th i)) = Fopp (Fsub (g i) (Fmul (dot n g th) (th i)))).
Proof.
  intros F F0 F1 Fadd Fmul Fsub Fopp Fdiv Finv Fth ltb feqb eqe nrm O dot n El E Er kl kr xl x xr g tau Ht Hsq Hne.
  exact (force_decomposition_lemma F F0 F1 Fadd Fmul Fsub Fopp Fdiv Finv Fth ltb feqb eqe nrm
           n El E Er kl kr xl x xr g tau Ht Hsq Hne).
Qed.

(* Climbing image: F = -g + 2 (g.th) th; against the true force -g its component along the tangent
   is inverted and its perpendicular component is unchanged. *)
Theorem ci_force :
  forall (F : Type) (F0 F1 : F) Fadd Fmul Fsub Fopp Fdiv Finv,
  field_theory F0 F1 Fadd Fmul Fsub Fopp Fdiv Finv (@eq F) ->
  forall ltb feqb eqe nrm,
  let O := mkOps F F0 F1 Fadd Fmul Fsub Fopp Fdiv ltb feqb eqe nrm in
  let dot := dot F F0 Fadd Fmul in
  forall n El E Er kl kr xl x xr g tau,
  tau_sel F O El E Er xl x xr = Some tau ->
  Fmul (nrm n tau) (nrm n tau) = dot n tau tau -> nrm n tau <> F0 ->
  let th := vdivs F Fdiv tau (nrm n tau) in
  let true_force := vneg F Fopp g in
  exists f, ci_get_force F O n El E Er kl kr xl x xr g = Some f /\
    (forall i, f i = Fadd (Fopp (g i)) (Fmul (Fmul (Fadd F1 F1) (dot n g th)) (th i))) /\
    dot n f th = Fopp (dot n true_force th) /\
    (forall i, Fsub (f i) (Fmul (dot n f th) (th i)) =
               Fsub (true_force i) (Fmul (dot n true_force th) (th i))).
Proof.
  intros F F0 F1 Fadd Fmul Fsub Fopp Fdiv Finv Fth ltb feqb eqe nrm O dot n El E Er kl kr xl x xr g tau Ht Hsq Hne.
  exact (ci_force_lemma F F0 F1 Fadd Fmul Fsub Fopp Fdiv Finv Fth ltb feqb eqe nrm
           n El E Er kl kr xl x xr g tau Ht Hsq Hne).
Qed.

(* derivative(): for EVERY band of at least two images (normal or climbing, any energies) it
   returns one block per image, the blocks of the two end images are identically zero, and the block
   of interior image k+1 is minus that image's force.
   PARTIAL with respect to the clause "the two end images never move during optimisation": this is a
   statement about the gradient handed to the optimiser (the hand model of derivative(), whose source
   text is pinned); that scipy's L-BFGS-B leaves coordinates with identically zero gradient where they
   are, and that total_energy()/set_coords() write them back unchanged, is not proved — it is measured
   on the implementation (IDPP path and the optimiser path with a stand-in potential). *)
Theorem end_forces_zero_partial :
  forall (F : Type) (F0 F1 : F) Fadd Fmul Fsub Fopp Fdiv Finv,
  field_theory F0 F1 Fadd Fmul Fsub Fopp Fdiv Finv (@eq F) ->
  forall ltb feqb eqe nrm,
  let O := mkOps F F0 F1 Fadd Fmul Fsub Fopp Fdiv ltb feqb eqe nrm in
  forall n (band : list (image F)), (2 <= length band)%nat ->
  exists blocks, derivative F O n band = Some blocks /\ length blocks = length band /\
    (forall b, nth_error blocks 0 = Some b -> forall c, b c = F0) /\
    (forall b, nth_error blocks (length band - 1) = Some b -> forall c, b c = F0) /\
    (forall k l i r, nth_error band k = Some l -> nth_error band (S k) = Some i ->
                     nth_error band (S (S k)) = Some r ->
       exists f b, image_force F O n l i r = Some f /\ nth_error blocks (S k) = Some b /\
                   forall c, b c = Fopp (f c)).
Proof.
  intros F F0 F1 Fadd Fmul Fsub Fopp Fdiv Finv Fth ltb feqb eqe nrm O n band Hlen.
  exact (derivative_spec F F0 F1 Fadd Fmul Fsub Fopp Fdiv Finv Fth ltb feqb eqe nrm n band Hlen).
Qed.

(* Adaptive force constants (Images.increment), complete description.  With e_ref the higher end point
   and e_max the highest image energy (a maximum of the band, attained):
   - the update is skipped EXACTLY when Energy.__eq__ says e_ref == e_max (|e_max - e_ref| < 1.59e-5 Ha);
     the constants are then unchanged, hence constants that were inside the bounds stay inside;
   - otherwise e_ref < e_max and every image gets a constant in [min_k, max_k], non-decreasing in the
     image energy, STRICTLY increasing between images at or above e_ref (when min_k < max_k), equal to
     min_k below e_ref and equal to max_k for the highest image.
   That the constants an image STARTS with lie inside the bounds is what Images.__init__ asserts
   (min_k <= init_k <= max_k, /repo 77b67f4): see adaptive_k_stay_within_bounds. *)
Theorem adaptive_k_bounds_monotone :
  forall nrm (min_k max_k : Qc) (es ks ks' : list Qc),
  (min_k <= max_k)%Qc ->
  increment_ks Qc (Oq nrm) true min_k max_k es ks = Some ks' ->
  exists e_first, hd_error es = Some e_first /\
  let e_ref := Qcmaxq e_first (last es e_first) in
  let e_max := pmaxl Qc (Oq nrm) es in
  In e_max es /\ (forall e, In e es -> (e <= e_max)%Qc) /\
  ((forall k, In k ks -> (min_k <= k /\ k <= max_k)%Qc) -> forall k, In k ks' -> (min_k <= k /\ k <= max_k)%Qc) /\
  ((energy_eqb e_ref e_max = true /\ ks' = ks) \/
   (energy_eqb e_ref e_max = false /\ (e_ref < e_max)%Qc /\ length ks' = length es /\
    forall i j Ei Ej ki kj,
      nth_error es i = Some Ei -> nth_error ks' i = Some ki ->
      nth_error es j = Some Ej -> nth_error ks' j = Some kj ->
      (min_k <= ki /\ ki <= max_k)%Qc /\ ((Ei <= Ej)%Qc -> (ki <= kj)%Qc) /\
      ((min_k < max_k)%Qc -> (e_ref <= Ei)%Qc -> (Ei < Ej)%Qc -> (ki < kj)%Qc) /\
      ((Ei < e_ref)%Qc -> ki = min_k) /\ (Ei = e_max -> ki = max_k))).
Proof.
  intros nrm min_k max_k es ks ks' Hk H. unfold increment_ks in H.
  destruct es as [|e_first es'] eqn:Ees; [discriminate|]. rewrite <- Ees in *.
  assert (Hhd : hd_error es = Some e_first) by (rewrite Ees; reflexivity).
  exists e_first. split; [exact Hhd|]. cbv zeta.
  destruct (adaptive_k_props_strong nrm min_k max_k es e_first Hk Hhd) as [Hs [Hin [Hmax Hupd]]].
  split; [exact Hin|]. split; [exact Hmax|].
  rewrite Hs in H.
  destruct (energy_eqb (Qcmaxq e_first (last es e_first)) (pmaxl Qc (Oq nrm) es)) eqn:Es.
  - injection H as <-. split; [intros Hb k Hkin; apply Hb; exact Hkin|]. left. split; reflexivity.
  - injection H as <-. destruct (Hupd eq_refl) as [Hd Hall]. split.
    + intros _ k Hkin. apply in_map_iff in Hkin. destruct Hkin as [E [<- HE]].
      exact (proj1 (Hall E E HE HE)).
    + right. split; [reflexivity|]. split; [exact Hd|]. split; [apply map_length|].
      intros i j Ei Ej ki kj Hi Hki Hj Hkj.
      rewrite (map_nth_error _ _ _ Hi) in Hki. rewrite (map_nth_error _ _ _ Hj) in Hkj.
      injection Hki as <-. injection Hkj as <-.
      exact (Hall Ei Ej (nth_error_In _ _ Hi) (nth_error_In _ _ Hj)).
Qed.

(* with adaptive constants switched off (or an energy missing) nothing changes *)
Theorem increment_not_adaptive_identity :
  forall (F : Type) (O : ops F) min_k max_k es ks, increment_ks F O false min_k max_k es ks = Some ks.
Proof. reflexivity. Qed.

(* "Adaptive spring constants stay within the configured bounds": a band whose images all start with
   init_k in [min_k, max_k] (Images.__init__ asserts it, append_species hands init_k to every image) has
   every constant in [min_k, max_k] after ANY sequence of increment() calls, adaptive or not, whatever
   the energies of each step are. *)
Theorem adaptive_k_stay_within_bounds :
  forall nrm adaptive (min_k init_k max_k : Qc) (m : nat) (ess : list (list Qc)) (ks' : list Qc),
  (min_k <= init_k)%Qc -> (init_k <= max_k)%Qc ->
  increments Qc (Oq nrm) adaptive min_k max_k ess (repeat init_k m) = Some ks' ->
  forall k, In k ks' -> (min_k <= k /\ k <= max_k)%Qc.
Proof.
  intros nrm adaptive min_k init_k max_k m ess ks' H1 H2.
  assert (Hk : (min_k <= max_k)%Qc) by (eapply Qcle_trans; eassumption).
  assert (Hinit : forall k, In k (repeat init_k m) -> (min_k <= k /\ k <= max_k)%Qc)
    by (intros k Hin; apply repeat_spec in Hin; subst k; split; assumption).
  revert Hinit. generalize (repeat init_k m) as ks. induction ess as [|es rest IH]; intros ks Hb H.
  - cbn in H. injection H as <-. exact Hb.
  - cbn [increments] in H. destruct (increment_ks Qc (Oq nrm) adaptive min_k max_k es ks) as [ks1|] eqn:E; [|discriminate].
    apply (IH ks1); [|exact H]. destruct adaptive.
    + destruct (adaptive_k_bounds_monotone nrm min_k max_k es ks ks1 Hk E) as [e0 [_ Hrest]].
      cbv zeta in Hrest. destruct Hrest as [_ [_ [Hinv _]]]. exact (Hinv Hb).
    + rewrite increment_not_adaptive_identity in E. injection E as <-. exact Hb.
Qed.


(* Interpolation keeps both end points, yields exactly n images, and fails exactly for n < 2. *)
Theorem interp_endpoints_kept :
  forall (a b : species) (n : nat),
  (interpolated_species a b n = None <-> (n < 2)%nat) /\
  forall l, interpolated_species a b n = Some l ->
    length l = n /\ nth_error l 0 = Some a /\ nth_error l (n - 1) = Some b.
Proof.
  intros a b n. split; [apply interp_none|].
  intros l H. destruct (interp_shape a b n l H) as [_ [H1 [H2 [H3 _]]]]. repeat split; assumption.
Qed.

(* Even spacing: image i sits at x_0 + i/(n-1) (x_{n-1} - x_0), every coordinate, every i < n. *)
Theorem interp_even_spacing :
  forall (a b : species) (n : nat) l, interpolated_species a b n = Some l ->
  forall i, (i < n)%nat -> exists s, nth_error l i = Some s /\
    forall c, (sp_x s c = sp_x a c + qnat i / qnat (n - 1) * (sp_x b c - sp_x a c))%Qc.
Proof. exact interp_spacing_lemma. Qed.

(* Atom order and composition: every image but the last carries the initial species' atom list,
   the last IS the final species; so with end points of identical atom order all images agree. *)
Theorem interp_composition_kept :
  forall (a b : species) (n : nat) l, interpolated_species a b n = Some l ->
  (forall i s, nth_error l i = Some s ->
     ((i < n - 1)%nat -> sp_labels s = sp_labels a) /\ (i = (n - 1)%nat -> s = b)) /\
  (sp_labels a = sp_labels b -> forall s, In s l -> sp_labels s = sp_labels a).
Proof.
  intros a b n l H. split; [exact (interp_labels_lemma a b n l H)|].
  intros Hab s Hs. apply In_nth_error in Hs. destruct Hs as [i Hi].
  destruct (interp_shape a b n l H) as [Hn [Hlen _]].
  assert (Hil : (i < n)%nat) by (rewrite <- Hlen; apply nth_error_Some; rewrite Hi; discriminate).
  destruct (interp_labels_lemma a b n l H i s Hi) as [H1 H2].
  destruct (Nat.eq_dec i (n - 1)) as [E|E]; [rewrite (H2 E); symmetry; exact Hab|apply H1; lia].
Qed.

(* _max_atom_distance_between_images is the maximum over ALL consecutive image pairs and all
   selected atoms: an upper bound of every such distance, attained by one of them.  Fewer than two
   images give -inf; an empty atom selection raises. *)
Theorem max_distance_is_max_over_all_consecutive_pairs :
  forall (I : Type) (dist : I -> I -> nat -> Qc) (idxs : list nat) (band : list I),
  ((length band < 2)%nat -> max_atom_distance I dist idxs band = MDNegInf) /\
  ((2 <= length band)%nat -> idxs = [] -> max_atom_distance I dist idxs band = MDErr) /\
  ((2 <= length band)%nat -> idxs <> [] ->
     exists D, max_atom_distance I dist idxs band = MDVal D /\
       (forall k a b j, nth_error band k = Some a -> nth_error band (S k) = Some b -> In j idxs ->
                        (dist a b j <= D)%Qc) /\
       (exists k a b j, nth_error band k = Some a /\ nth_error band (S k) = Some b /\ In j idxs /\
                        D = dist a b j)).
Proof.
  intros I dist idxs band. split; [apply max_dist_short|]. split.
  - intros Hlen He. apply max_dist_empty_idxs; assumption.
  - intros Hlen Hne.
    pose proof (max_dist_from_spec I dist idxs Hne band MDNegInf ltac:(discriminate)) as S.
    unfold max_atom_distance.
    destruct (max_dist_from I dist idxs MDNegInf band) as [|D|].
    + destruct S as [_ Hl]. lia.
    + destruct S as [_ [Hc Hatt]]. exists D. split; [reflexivity|]. split.
      * intros k a b j Ha Hb Hj.
        exact (proj1 (consecutive_nth (pair_le I dist idxs D) band) Hc k a b Ha Hb j Hj).
      * destruct Hatt as [Hx|Hx]; [discriminate|exact Hx].
    + contradiction.
Qed.

(* partition(max_delta, distance_idxs): whenever it returns, no two consecutive images of the new
   band differ by more than max_delta for any selected atom, the first and last image are the
   original ones and every image of the original band is still present — given only that
   from_end_points keeps its two end points (the IDPP oracle; equality of images, in the correspondence:
   coordinates equal to 1e-8).  Conditional on partition RETURNING (POk): termination of Python's
   unbounded while loop is not claimed.  Atom order/composition of the inserted images is a property of
   the oracle and is measured on the implementation only.  Induction over the outer loop; any fuel. *)
Theorem partition_bound :
  forall (I : Type) (dist : I -> I -> nat -> Qc) (build : I -> I -> nat -> option (list I)),
  (forall l r n s, build l r n = Some s -> exists mid, s = l :: mid ++ [r]) ->
  forall fuel idxs max_delta band out,
  partition I dist build fuel idxs max_delta band = POk out ->
  (forall k a b j, nth_error out k = Some a -> nth_error out (S k) = Some b -> In j idxs ->
                   (dist a b j <= max_delta)%Qc) /\
  hd_error out = hd_error band /\ (forall d, last out d = last band d) /\
  (2 <= length band <= length out)%nat /\ (forall x, In x band -> In x out).
Proof.
  intros I dist build Hb fuel idxs md band out H. unfold partition in H.
  destruct (length band <? 2)%nat eqn:E; [discriminate|]. apply Nat.ltb_ge in E.
  destruct (outer_spec I dist idxs build Hb md fuel band out H) as [Hc [Hh [Hl [Hlen Hin]]]].
  split; [|split; [exact Hh|split; [exact Hl|split; [lia|exact Hin]]]].
  intros k a b j Ha Hbk Hj.
  exact (proj1 (consecutive_nth (pair_le I dist idxs md) out) Hc k a b Ha Hbk j Hj).
Qed.

(* ---------------------------------------------------------------------------------------------
   Non-vacuity: the premises above are satisfiable (ex_nrm5, ex_x0..2 are defined in Lemmas.v). *)

(* a rising profile E = 0 < 1 < 2 with tangent x2 - x1 = (3,4), norm 5: premises of
   force_decomposition / ci_force hold *)
Example force_premises_satisfiable :
  exists tau, tau_sel Qc (Oq ex_nrm5) (qc 0 1) (qc 1 1) (qc 2 1) ex_x0 ex_x1 ex_x2 = Some tau /\
    (ex_nrm5 2 tau * ex_nrm5 2 tau = dot Qc (Q2Qc 0) Qcplus Qcmult 2 tau tau)%Qc /\
    ex_nrm5 2 tau <> Q2Qc 0.
Proof.
  eexists. split; [reflexivity|]. split.
  - apply Qc_is_canon. vm_compute. reflexivity.
  - intros H. apply (f_equal this) in H. vm_compute in H. discriminate.
Qed.

(* a peaked band: the adaptive update is NOT skipped *)
Example adaptive_update_happens :
  adaptive_skip Qc (Oq ex_nrm5) (qc 1 100) (qc 1 5) (qc 0 1) (qc 1 4) [qc 0 1; qc 1 1; qc 1 4] = false.
Proof. vm_compute. reflexivity. Qed.

(* an oracle satisfying partition_bound's premise *)
Example build_premise_satisfiable :
  let build := fun (l r : nat) (n : nat) => Some (l :: seq 0 (n - 2) ++ [r]) in
  forall l r n s, build l r n = Some s -> exists mid, s = l :: mid ++ [r].
Proof. intros build l r n s H. injection H as <-. eexists. reflexivity. Qed.
