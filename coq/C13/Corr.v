(* C13/Corr.v — helpers used only by the correspondence check (model vs implementation).
   Nothing here is used by a property theorem. *)
From Coq Require Import ZArith NArith QArith Qcanon List Bool Arith.
From AV.lib Require Import Sums QcInst.
From AV.C13 Require Import Base Model.
From AV.gen Require Import C13_Gen.
Import ListNotations.

Definition tol : Qc := qc 1 1000000000.            (* 1e-9: results *)
Definition tol_sq : Qc := qc 1 1000000000000.       (* 1e-12: validation of a norm oracle value *)

(* np.linalg.norm as an oracle: the implementation's own return values are candidates; a candidate c
   is accepted for a vector v only if c >= 0 and c*c = v.v to 1e-12 relative (checked in exact
   arithmetic).  No acceptable candidate -> 0, which makes the comparison fail (closed). *)
Definition rel_close (t a b : Qc) : bool := Qcleb (Qcabs (a - b)%Qc) (t * Qcabs b)%Qc.
Definition nrm_cands (cands : list Qc) (n : nat) (v : nat -> Qc) : Qc :=
  let s := dot Qc (Q2Qc 0) Qcplus Qcmult n v v in
  match find (fun c => Qcnonneg c && rel_close tol_sq (c * c)%Qc s) cands with
  | Some c => c
  | None => Q2Qc 0
  end.

Definition ovec_close (n : nat) (a : option (nat -> Qc)) (b : option (list Qc)) : bool :=
  match a, b with
  | Some f, Some l => closeL tol (list_of_vec n f) l
  | None, None => true
  | _, _ => false
  end.

(* Image.get_force / CImage.get_force (ci = true) of the middle image of a triple *)
Definition check_force (ci : bool) (n : nat) (El E Er kl kr : Qc) (xl x xr g cands : list Qc)
           (expect : option (list Qc)) : bool :=
  let O := Oq (nrm_cands cands) in
  let vl := vec_of_list xl in let v := vec_of_list x in let vr := vec_of_list xr in
  let vg := vec_of_list g in
  ovec_close n (if ci then ci_get_force Qc O n El E Er kl kr vl v vr vg
                else get_force Qc O n El E Er kl kr vl v vr vg) expect.

(* the unit tangent returned by _tau_xl_x_xr *)
Definition check_tau (n : nat) (El E Er : Qc) (xl x xr cands : list Qc) (expect : option (list Qc)) : bool :=
  ovec_close n (tau_xl_x_xr Qc (Oq (nrm_cands cands)) n El E Er (vec_of_list xl) (vec_of_list x) (vec_of_list xr)) expect.

(* derivative(): images given as (E, k, coords, gradient, is_climbing) *)
Definition mk_image (t : Qc * Qc * list Qc * list Qc * bool) : image Qc :=
  let '(e, k, x, g, ci) := t in mkImage e k (vec_of_list x) (vec_of_list g) ci.
Definition check_derivative (n : nat) (band : list (Qc * Qc * list Qc * list Qc * bool)) (cands : list Qc)
           (expect : option (list (list Qc))) : bool :=
  match derivative Qc (Oq (nrm_cands cands)) n (map mk_image band), expect with
  | Some blocks, Some e => closeM tol (map (list_of_vec n) blocks) e
  | None, None => true
  | _, _ => false
  end.

(* Images.increment: the force constants afterwards *)
Definition check_increment (adaptive : bool) (min_k max_k : Qc) (es ks : list Qc) (expect : option (list Qc)) : bool :=
  match increment_ks Qc (Oq (fun _ _ => Q2Qc 0)) adaptive min_k max_k es ks, expect with
  | Some l, Some e => closeL tol l e
  | None, None => true
  | _, _ => false
  end.

(* _interpolated_species: species as (atom labels, flat coordinates) *)
Fixpoint nat_list_eqb (a b : list nat) : bool :=
  match a, b with
  | [], [] => true
  | x :: a', y :: b' => Nat.eqb x y && nat_list_eqb a' b'
  | _, _ => false
  end.
Fixpoint species_close (dim : nat) (a : list species) (b : list (list nat * list Qc)) : bool :=
  match a, b with
  | [], [] => true
  | s :: a', (lab, xs) :: b' =>
      nat_list_eqb (sp_labels s) lab && closeL tol (list_of_vec dim (sp_x s)) xs && species_close dim a' b'
  | _, _ => false
  end.
Definition check_interp (dim : nat) (a b : list nat * list Qc) (n : nat)
           (expect : option (list (list nat * list Qc))) : bool :=
  let sa := mkSpecies (fst a) (vec_of_list (snd a)) in
  let sb := mkSpecies (fst b) (vec_of_list (snd b)) in
  match interpolated_species sa sb n, expect with
  | Some l, Some e => species_close dim l e
  | None, None => true
  | _, _ => false
  end.

(* images as ids (binary naturals N: cheap to compare); per-atom distances between two images from a
   two-level table  a -> [(b, distances)];  a pair missing from the table gets a huge distance so
   that a diverging model is noticed *)
Definition far : Qc := qc 1000000000 1.
Fixpoint assocN {A} (t : list (N * A)) (k : N) : option A :=
  match t with
  | [] => None
  | (k', v) :: r => if N.eqb k k' then Some v else assocN r k
  end.
Definition dtable := list (N * list (N * list Qc)).
Definition dist_tab (t : dtable) (a b : N) (j : nat) : Qc :=
  match assocN t a with
  | Some row => match assocN row b with Some l => nth j l far | None => far end
  | None => far
  end.

Definition mdres_close (a b : mdres) : bool :=
  match a, b with
  | MDNegInf, MDNegInf => true
  | MDVal x, MDVal y => close tol x y
  | MDErr, MDErr => true
  | _, _ => false
  end.
Definition check_maxdist (t : dtable) (idxs : list nat) (band : list N) (expect : mdres) : bool :=
  mdres_close (max_atom_distance N (dist_tab t) idxs band) expect.

(* from_end_points calls recorded from the implementation: left id -> [((right id, num), result ids)] *)
Definition btable := list (N * list (N * nat * option (list N))).
Fixpoint blookup_row (row : list (N * nat * option (list N))) (r : N) (n : nat) : option (list N) :=
  match row with
  | [] => None
  | (r', n', res) :: rest => if N.eqb r r' && Nat.eqb n n' then res else blookup_row rest r n
  end.
Definition blookup (t : btable) (l r : N) (n : nat) : option (list N) :=
  match assocN t l with Some row => blookup_row row r n | None => None end.
Fixpoint N_list_eqb (a b : list N) : bool :=
  match a, b with
  | [], [] => true
  | x :: a', y :: b' => N.eqb x y && N_list_eqb a' b'
  | _, _ => false
  end.
Definition pres_eqb (a b : pres N) : bool :=
  match a, b with
  | POk x, POk y => N_list_eqb x y
  | PAssertion, PAssertion => true
  | PRuntimeError, PRuntimeError => true
  | PValueError, PValueError => true
  | POutOfFuel, POutOfFuel => true
  | _, _ => false
  end.
Definition check_partition (dt : dtable) (bt : btable)
           (idxs : list nat) (max_delta : Qc) (band : list N) (expect : pres N) : bool :=
  pres_eqb (partition N (dist_tab dt) (blookup bt) 400 idxs max_delta band) expect.
