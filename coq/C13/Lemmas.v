(* C13/Lemmas.v — lemmas and proofs for the NEB model (gen/C13_Gen.v + C13/Model.v). *)
From Coq Require Import ZArith QArith Qcanon List Bool Arith Lia Field Ring.
From AV.lib Require Import Sums QcInst.
From AV.C13 Require Import Base Model.
From AV.gen Require Import C13_Gen.
Import ListNotations.

(* ============================================================================================ *)
(* Part A — any field, any dimension: tangent normalisation, force decomposition, climbing image,
   derivative()                                                                                   *)
Section Algebra.
Variable F : Type.
Variables (F0 F1 : F) (Fadd Fmul Fsub : F -> F -> F) (Fopp : F -> F)
          (Fdiv : F -> F -> F) (Finv : F -> F).
Hypothesis Fth : field_theory F0 F1 Fadd Fmul Fsub Fopp Fdiv Finv (@eq F).
Add Field FfC13 : Fth.
Variables (ltb feqb eqe : F -> F -> bool) (nrm : nat -> (nat -> F) -> F).

Local Notation OF := (mkOps F F0 F1 Fadd Fmul Fsub Fopp Fdiv ltb feqb eqe nrm).
Local Notation "0" := F0.
Local Notation "1" := F1.
Local Infix "+" := Fadd.
Local Infix "*" := Fmul.
Local Infix "-" := Fsub.
Local Infix "/" := Fdiv.
Local Notation "- x" := (Fopp x).
Local Notation vadd := (vadd F Fadd).
Local Notation vsub := (vsub F Fsub).
Local Notation vneg := (vneg F Fopp).
Local Notation vscal := (vscal F Fmul).
Local Notation vdivs := (vdivs F Fdiv).
Local Notation dot := (dot F F0 Fadd Fmul).
Local Notation sum := (sum F F0 Fadd).

Lemma sq_nonzero c : c <> 0 -> c * c <> 0.
Proof.
  intros Hc H. apply (F_1_neq_0 Fth).
  transitivity ((c * c) * (Finv c * Finv c)); [field; exact Hc|]. rewrite H. ring.
Qed.

Lemma dot_vdivs n a b c : c <> 0 -> dot n (vdivs a c) (vdivs b c) = dot n a b / (c * c).
Proof.
  intros Hc. unfold Sums.dot, Sums.vdivs.
  rewrite <- (sum_div_r F F0 F1 Fadd Fmul Fsub Fopp Fdiv Finv Fth n (c * c)) by (apply sq_nonzero; exact Hc).
  apply (sum_ext F F0 Fadd). intros i _. field. exact Hc.
Qed.

(* the normalised tangent is a unit vector, given what a norm is at this one vector *)
Lemma unit_of_norm n tau c : c * c = dot n tau tau -> c <> 0 -> dot n (vdivs tau c) (vdivs tau c) = 1.
Proof.
  intros Hsq Hc. rewrite dot_vdivs by exact Hc. rewrite <- Hsq. field. exact Hc.
Qed.

(* F = s u - (g - (g.u) u)  with u.u = 1 *)
Definition neb_force_of (n : nat) (s : F) (u g : nat -> F) : nat -> F :=
  vsub (vscal s u) (vsub g (vscal (dot n g u) u)).
Definition ci_force_of (n : nat) (u g : nat -> F) : nat -> F :=
  vadd (vneg g) (vscal ((1 + 1) * dot n g u) u).

Lemma neb_force_parallel n s u g : dot n u u = 1 -> dot n (neb_force_of n s u g) u = s.
Proof.
  intros Hu. unfold neb_force_of.
  rewrite (dot_vsub_l F F0 F1 Fadd Fmul Fsub Fopp Fdiv Finv Fth).
  rewrite (dot_vsub_l F F0 F1 Fadd Fmul Fsub Fopp Fdiv Finv Fth).
  rewrite !(dot_vscal_l F F0 F1 Fadd Fmul Fsub Fopp Fdiv Finv Fth).
  rewrite Hu. ring.
Qed.

Lemma neb_force_perp n s u g i : dot n u u = 1 ->
  neb_force_of n s u g i - dot n (neb_force_of n s u g) u * u i = - (g i - dot n g u * u i).
Proof.
  intros Hu. rewrite (neb_force_parallel n s u g Hu).
  unfold neb_force_of, Sums.vsub, Sums.vscal. ring.
Qed.

Lemma ci_force_parallel n u g : dot n u u = 1 -> dot n (ci_force_of n u g) u = dot n g u.
Proof.
  intros Hu. unfold ci_force_of.
  rewrite (dot_vadd_l F F0 F1 Fadd Fmul Fsub Fopp Fdiv Finv Fth).
  rewrite (dot_vneg_l F F0 F1 Fadd Fmul Fsub Fopp Fdiv Finv Fth).
  rewrite (dot_vscal_l F F0 F1 Fadd Fmul Fsub Fopp Fdiv Finv Fth).
  rewrite Hu. ring.
Qed.

Lemma ci_force_perp n u g i : dot n u u = 1 ->
  ci_force_of n u g i - dot n (ci_force_of n u g) u * u i = - (g i - dot n g u * u i).
Proof.
  intros Hu. rewrite (ci_force_parallel n u g Hu).
  unfold ci_force_of, Sums.vadd, Sums.vneg, Sums.vscal. ring.
Qed.

(* ---- the generated code ---- *)
Ltac split_ifs :=
  repeat match goal with
         | |- context [if ?b then _ else _] => destruct b
         end.

(* the tangent selection never raises *)
Lemma tau_sel_total El E Er xl x xr : exists t, tau_sel F OF El E Er xl x xr = Some t.
Proof. unfold tau_sel. cbn [oltb ofeqb]. split_ifs; eexists; reflexivity. Qed.

(* _tau_xl_x_xr = the selection followed by the normalisation of its return statement *)
Lemma tau_hat_is_normalised_sel n El E Er xl x xr :
  tau_xl_x_xr F OF n El E Er xl x xr = option_map (tau_normalise F OF n) (tau_sel F OF El E Er xl x xr).
Proof. unfold tau_xl_x_xr, tau_sel, tau_normalise. cbn [oltb ofeqb]. split_ifs; reflexivity. Qed.

Lemma tau_normalise_is_division n tau : tau_normalise F OF n tau = vdivs tau (nrm n tau).
Proof. reflexivity. Qed.

Lemma get_force_closed n El E Er kl kr xl x xr g tau :
  tau_sel F OF El E Er xl x xr = Some tau ->
  get_force F OF n El E Er kl kr xl x xr g =
  Some (neb_force_of n (nrm n (vsub xr x) * kr - nrm n (vsub x xl) * kl) (vdivs tau (nrm n tau)) g).
Proof.
  intros Ht. unfold get_force. rewrite tau_hat_is_normalised_sel, Ht. reflexivity.
Qed.

Lemma ci_get_force_closed n El E Er kl kr xl x xr g tau :
  tau_sel F OF El E Er xl x xr = Some tau ->
  ci_get_force F OF n El E Er kl kr xl x xr g = Some (ci_force_of n (vdivs tau (nrm n tau)) g).
Proof.
  intros Ht. unfold ci_get_force. rewrite tau_hat_is_normalised_sel, Ht. reflexivity.
Qed.

Lemma force_decomposition_lemma n El E Er kl kr xl x xr g tau :
  tau_sel F OF El E Er xl x xr = Some tau ->
  nrm n tau * nrm n tau = dot n tau tau -> nrm n tau <> 0 ->
  let th := vdivs tau (nrm n tau) in
  let spring := nrm n (vsub xr x) * kr - nrm n (vsub x xl) * kl in
  exists f, get_force F OF n El E Er kl kr xl x xr g = Some f /\
    dot n th th = 1 /\
    (forall i, f i = spring * th i - (g i - dot n g th * th i)) /\
    dot n f th = spring /\
    (forall i, f i - dot n f th * th i = - (g i - dot n g th * th i)).
Proof.
  intros Ht Hsq Hne th spring.
  pose proof (unit_of_norm n tau (nrm n tau) Hsq Hne) as Hu.
  eexists. split; [apply get_force_closed; exact Ht|]. fold th. fold spring.
  split; [exact Hu|]. split; [intros i; reflexivity|].
  split; [apply neb_force_parallel; exact Hu|intros i; apply neb_force_perp; exact Hu].
Qed.

Lemma ci_force_lemma n El E Er kl kr xl x xr g tau :
  tau_sel F OF El E Er xl x xr = Some tau ->
  nrm n tau * nrm n tau = dot n tau tau -> nrm n tau <> 0 ->
  let th := vdivs tau (nrm n tau) in
  let true_force := vneg g in
  exists f, ci_get_force F OF n El E Er kl kr xl x xr g = Some f /\
    (forall i, f i = - g i + (1 + 1) * dot n g th * th i) /\
    dot n f th = - dot n true_force th /\
    (forall i, f i - dot n f th * th i = true_force i - dot n true_force th * th i).
Proof.
  intros Ht Hsq Hne th tf.
  pose proof (unit_of_norm n tau (nrm n tau) Hsq Hne) as Hu.
  eexists. split; [apply ci_get_force_closed; exact Ht|]. fold th.
  split; [intros i; reflexivity|].
  assert (Htf : dot n tf th = - dot n g th)
    by (unfold tf; apply (dot_vneg_l F F0 F1 Fadd Fmul Fsub Fopp Fdiv Finv Fth)).
  split.
  - rewrite ci_force_parallel by exact Hu. rewrite Htf. ring.
  - intros i. rewrite ci_force_perp by exact Hu. rewrite Htf. unfold tf, Sums.vneg. ring.
Qed.

(* ---- derivative() ---- *)
Lemma image_force_total n l i r : exists f, image_force F OF n l i r = Some f.
Proof.
  unfold image_force.
  destruct (tau_sel_total (im_E l) (im_E i) (im_E r) (im_x l) (im_x i) (im_x r)) as [t Ht].
  destruct (im_ci i).
  - rewrite (ci_get_force_closed _ _ _ _ _ _ _ _ _ _ t Ht). eexists; reflexivity.
  - rewrite (get_force_closed _ _ _ _ _ _ _ _ _ _ t Ht). eexists; reflexivity.
Qed.

Lemma interior_forces_spec n : forall band,
  exists fs, interior_forces F OF n band = Some fs /\ length fs = (length band - 2)%nat /\
    forall k l i r, nth_error band k = Some l -> nth_error band (S k) = Some i ->
                    nth_error band (S (S k)) = Some r ->
                    exists f, image_force F OF n l i r = Some f /\ nth_error fs k = Some f.
Proof.
  induction band as [|l rest IH].
  - exists []. split; [reflexivity|]. split; [reflexivity|]. intros k l i r H. destruct k; discriminate.
  - destruct rest as [|i rest2].
    + exists []. split; [reflexivity|]. split; [reflexivity|]. intros k l0 i r _ H. destruct k; discriminate.
    + destruct rest2 as [|r rest3].
      * exists []. split; [reflexivity|]. split; [reflexivity|].
        intros k l0 i0 r _ _ H. destruct k as [|[|k]]; discriminate.
      * destruct IH as [fs [Hfs [Hlen Hnth]]].
        destruct (image_force_total n l i r) as [f Hf].
        exists (f :: fs). split.
        { cbn [interior_forces]. cbn [interior_forces] in Hfs. rewrite Hf, Hfs. reflexivity. }
        split.
        { cbn [length] in *. lia. }
        intros k l0 i0 r0 H0 H1 H2. destruct k as [|k].
        { cbn in H0, H1, H2. injection H0 as <-. injection H1 as <-. injection H2 as <-.
          exists f. split; [exact Hf|reflexivity]. }
        { cbn [nth_error] in H0, H1, H2. destruct (Hnth k l0 i0 r0 H0 H1 H2) as [f' [Hf' Hk]].
          exists f'. split; [exact Hf'|exact Hk]. }
Qed.

Lemma vneg_vzero c : vneg (vzero F OF) c = 0.
Proof. unfold Sums.vneg, vzero. cbn [o0]. ring. Qed.

Lemma derivative_spec n band : (2 <= length band)%nat ->
  exists blocks, derivative F OF n band = Some blocks /\ length blocks = length band /\
    (forall b, nth_error blocks 0 = Some b -> forall c, b c = 0) /\
    (forall b, nth_error blocks (length band - 1) = Some b -> forall c, b c = 0) /\
    (forall k l i r, nth_error band k = Some l -> nth_error band (S k) = Some i ->
                     nth_error band (S (S k)) = Some r ->
       exists f b, image_force F OF n l i r = Some f /\ nth_error blocks (S k) = Some b /\
                   forall c, b c = - f c).
Proof.
  intros Hlen. destruct (interior_forces_spec n band) as [fs [Hfs [Hl Hnth]]].
  exists (map vneg ([vzero F OF] ++ fs ++ [vzero F OF])). split.
  { unfold derivative. destruct band; [cbn in Hlen; lia|]. rewrite Hfs. reflexivity. }
  split. { rewrite map_length, !app_length. cbn [length]. lia. }
  split. { intros b Hb. cbn in Hb. injection Hb as <-. apply vneg_vzero. }
  split.
  { intros b Hb. rewrite map_app in Hb. cbn [map app] in Hb.
    replace (length band - 1)%nat with (S (length fs)) in Hb by lia.
    cbn [nth_error] in Hb. rewrite map_app in Hb.
    rewrite nth_error_app2 in Hb by (rewrite map_length; lia).
    rewrite map_length, Nat.sub_diag in Hb. cbn in Hb. injection Hb as <-. apply vneg_vzero. }
  intros k l i r H0 H1 H2. destruct (Hnth k l i r H0 H1 H2) as [f [Hf Hk]].
  exists f, (vneg f). split; [exact Hf|]. split; [|intros c; reflexivity].
  cbn [app map nth_error]. rewrite map_app.
  rewrite nth_error_app1 by (rewrite map_length; apply nth_error_Some; rewrite Hk; discriminate).
  apply map_nth_error. exact Hk.
Qed.

End Algebra.

(* ============================================================================================ *)
(* Part B — canonical rationals: order facts                                                      *)
Open Scope Qc_scope.

Lemma Qcltb_lt a b : Qcltb a b = true <-> a < b.
Proof.
  unfold Qcltb, Qclt. rewrite negb_true_iff. split.
  - intros H. apply Qnot_le_lt. intros Hle. apply Qle_bool_iff in Hle. congruence.
  - intros H. destruct (Qle_bool b a) eqn:E; [|reflexivity].
    apply Qle_bool_iff in E. exfalso. apply (Qlt_not_le _ _ H). exact E.
Qed.

Lemma Qcltb_ge a b : Qcltb a b = false <-> b <= a.
Proof.
  unfold Qcltb, Qcle. rewrite negb_false_iff. apply Qle_bool_iff.
Qed.

Lemma Qcleb_le a b : Qcleb a b = true <-> a <= b.
Proof. unfold Qcleb, Qcle. apply Qle_bool_iff. Qed.

Lemma Qcleb_gt a b : Qcleb a b = false <-> b < a.
Proof.
  split; intros H.
  - apply Qcnot_le_lt. intros Hle. apply Qcleb_le in Hle. congruence.
  - destruct (Qcleb a b) eqn:E; [|reflexivity]. apply Qcleb_le in E.
    exfalso. exact (Qcle_not_lt _ _ E H).
Qed.

Lemma Qceqb_eq a b : Qceqb a b = true <-> a = b.
Proof.
  unfold Qceqb. split.
  - intros H. apply Qeq_bool_eq in H. apply Qc_is_canon. exact H.
  - intros ->. apply Qeq_eq_bool. reflexivity.
Qed.

Lemma Qclt_irrefl a : ~ a < a.
Proof. intros H. apply (Qclt_not_eq _ _ H). reflexivity. Qed.

Lemma Qclt_asym a b : a < b -> ~ b < a.
Proof. intros H1 H2. exact (Qclt_irrefl _ (Qclt_trans _ _ _ H1 H2)). Qed.

Lemma Qc_sub_nonneg_intro a b : a <= b -> 0 <= b - a.
Proof. unfold Qcminus. apply Qcle_minus_iff. Qed.
Lemma Qc_sub_nonneg_elim a b : 0 <= b - a -> a <= b.
Proof. unfold Qcminus. apply Qcle_minus_iff. Qed.

Lemma Qc_mul_nonneg a b : 0 <= a -> 0 <= b -> 0 <= a * b.
Proof.
  intros Ha Hb. rewrite <- (Qcmult_0_l b). apply Qcmult_le_compat_r; assumption.
Qed.

Lemma Qcinv_pos x : 0 < x -> 0 < / x.
Proof.
  intros Hx. destruct (Qclt_le_dec 0 (/ x)) as [H|H]; [exact H|exfalso].
  assert (Hne : x <> 0) by (intros E; subst x; apply (Qclt_irrefl _ Hx)).
  assert (H1 : / x * x <= 0 * x) by (apply Qcmult_le_compat_r; [exact H|apply Qclt_le_weak; exact Hx]).
  rewrite Qcmult_inv_l in H1 by exact Hne. rewrite Qcmult_0_l in H1.
  apply (Qcle_not_lt _ _ H1). reflexivity.
Qed.

Lemma Qc_div_nonneg a d : 0 <= a -> 0 < d -> 0 <= a / d.
Proof.
  intros Ha Hd. unfold Qcdiv. apply Qc_mul_nonneg; [exact Ha|].
  apply Qclt_le_weak. apply Qcinv_pos. exact Hd.
Qed.

Lemma pos_nonzero x : 0 < x -> x <> 0.
Proof. intros H E. subst x. apply (Qclt_irrefl _ H). Qed.

(* ---- Python helpers of the generated file at Qc ---- *)
Section QcHelpers.
Variable nrm : nat -> (nat -> Qc) -> Qc.
Local Notation OQ := (Oq nrm).

Lemma pabs_q x : pabs Qc OQ x = Qcabs x.
Proof.
  unfold pabs, Qcabs, Qcnonneg. cbn [oltb oopp o0 Oq]. unfold Qcltb.
  change (this (Q2Qc 0)) with 0%Q. destruct (Qle_bool 0 (this x)); reflexivity.
Qed.

Lemma pmax_q a b : pmax Qc OQ a b = Qcmaxq a b.
Proof.
  unfold pmax, Qcmaxq. cbn [oltb Oq].
  destruct (Qcltb a b) eqn:E1; destruct (Qcleb a b) eqn:E2; try reflexivity.
  - apply Qcltb_lt in E1. apply Qcleb_gt in E2. exfalso. exact (Qclt_asym _ _ E1 E2).
  - apply Qcltb_ge in E1. apply Qcleb_le in E2. apply Qcle_antisym; assumption.
Qed.

Lemma pmin_q a b : pmin Qc OQ a b = Qcminq a b.
Proof.
  unfold pmin, Qcminq. cbn [oltb Oq].
  destruct (Qcltb b a) eqn:E1; destruct (Qcleb a b) eqn:E2; try reflexivity.
  - apply Qcltb_lt in E1. apply Qcleb_le in E2. exfalso. exact (Qcle_not_lt _ _ E2 E1).
  - apply Qcltb_ge in E1. apply Qcleb_gt in E2. exfalso. exact (Qcle_not_lt _ _ E1 E2).
Qed.

Lemma pmax_ge_l a b : a <= pmax Qc OQ a b.
Proof.
  unfold pmax. cbn [oltb Oq]. destruct (Qcltb a b) eqn:E.
  - apply Qclt_le_weak. apply Qcltb_lt. exact E.
  - apply Qcle_refl.
Qed.

Lemma pmax_ge_r a b : b <= pmax Qc OQ a b.
Proof.
  unfold pmax. cbn [oltb Oq]. destruct (Qcltb a b) eqn:E.
  - apply Qcle_refl.
  - apply Qcltb_ge. exact E.
Qed.

Lemma pmax_cases a b : pmax Qc OQ a b = a \/ pmax Qc OQ a b = b.
Proof. unfold pmax. destruct (oltb OQ a b); [right|left]; reflexivity. Qed.

Lemma pmaxl_from_spec : forall l m,
  m <= pmaxl_from Qc OQ m l /\ (forall e, In e l -> e <= pmaxl_from Qc OQ m l).
Proof.
  induction l as [|x l IH]; intros m; cbn [pmaxl_from].
  - split; [apply Qcle_refl|intros e []].
  - destruct (IH (pmax Qc OQ m x)) as [H1 H2]. split.
    + eapply Qcle_trans; [apply pmax_ge_l|exact H1].
    + intros e [<-|He]; [eapply Qcle_trans; [apply pmax_ge_r|exact H1]|apply H2; exact He].
Qed.

Lemma pmaxl_ge l e : In e l -> e <= pmaxl Qc OQ l.
Proof.
  destruct l as [|x l]; [intros []|]. cbn [pmaxl]. destruct (pmaxl_from_spec l x) as [H1 H2].
  intros [<-|He]; [exact H1|apply H2; exact He].
Qed.

Lemma energy_eqb_refl a : energy_eqb a a = true.
Proof.
  unfold energy_eqb. replace (a - a) with (Q2Qc 0) by ring. reflexivity.
Qed.

(* ---- tangent selection, closed form ---- *)
(* original.py: dv_r = |E - E_r|, dv_l = |E - E_l| (both in the unit of this image's energy) *)
Definition dvmax (El E Er : Qc) : Qc := Qcmaxq (Qcabs (E - Er)) (Qcabs (E - El)).
Definition dvmin (El E Er : Qc) : Qc := Qcminq (Qcabs (E - Er)) (Qcabs (E - El)).

Ltac split_ifs :=
  repeat match goal with
         | |- context [if ?b then _ else _] => destruct b
         end.

Lemma tau_sel_closed El E Er xl x xr :
  let tp := vsub Qc Qcminus xr x in
  let tm := vsub Qc Qcminus x xl in
  let dM := dvmax El E Er in
  let dm := dvmin El E Er in
  tau_sel Qc OQ El E Er xl x xr =
  Some (if Qceqb dM 0 then vadd Qc Qcplus tp tm
        else if Qcltb El E && Qcltb E Er then tp
        else if Qcltb Er E && Qcltb E El then tm
        else if Qcltb El Er then vadd Qc Qcplus (vscal Qc Qcmult dM tp) (vscal Qc Qcmult dm tm)
        else vadd Qc Qcplus (vscal Qc Qcmult dm tp) (vscal Qc Qcmult dM tm)).
Proof.
  intros tp tm dM dm. unfold tau_sel. cbv zeta. rewrite !pabs_q, !pmax_q, !pmin_q.
  cbn [oltb ofeqb oadd omul osub o0 Oq]. fold tp tm. unfold dvmax in dM. unfold dvmin in dm. fold dM dm.
  change (Q2Qc 0) with 0.
  split_ifs; reflexivity.
Qed.

(* ---- adaptive force constants ---- *)
Lemma adaptive_k_closed min_k max_k e_first e_last es Ei :
  adaptive_k Qc OQ min_k max_k e_first e_last es Ei =
  let e_ref := pmax Qc OQ e_first e_last in
  let e_max := pmaxl Qc OQ es in
  if Qcltb Ei e_ref then min_k
  else max_k - (max_k - min_k) * ((e_max - Ei) / (e_max - e_ref)).
Proof. reflexivity. Qed.

Lemma adaptive_skip_closed min_k max_k e_first e_last es :
  adaptive_skip Qc OQ min_k max_k e_first e_last es =
  energy_eqb (pmax Qc OQ e_first e_last) (pmaxl Qc OQ es).
Proof. reflexivity. Qed.

Lemma adaptive_formula_bounds min_k max_k e_ref e_max Ei :
  min_k <= max_k -> e_ref < e_max -> e_ref <= Ei -> Ei <= e_max ->
  let k := max_k - (max_k - min_k) * ((e_max - Ei) / (e_max - e_ref)) in
  min_k <= k /\ k <= max_k.
Proof.
  intros Hk Hd H1 H2 k.
  assert (Hdpos : 0 < e_max - e_ref).
  { unfold Qcminus. apply -> Qclt_minus_iff. exact Hd. }
  pose proof (pos_nonzero _ Hdpos) as Hdne.
  split.
  - apply Qc_sub_nonneg_elim.
    replace (k - min_k) with ((max_k - min_k) * ((Ei - e_ref) / (e_max - e_ref)))
      by (unfold k; field; exact Hdne).
    apply Qc_mul_nonneg; [apply Qc_sub_nonneg_intro; exact Hk|].
    apply Qc_div_nonneg; [apply Qc_sub_nonneg_intro; exact H1|exact Hdpos].
  - apply Qc_sub_nonneg_elim.
    replace (max_k - k) with ((max_k - min_k) * ((e_max - Ei) / (e_max - e_ref)))
      by (unfold k; ring).
    apply Qc_mul_nonneg; [apply Qc_sub_nonneg_intro; exact Hk|].
    apply Qc_div_nonneg; [apply Qc_sub_nonneg_intro; exact H2|exact Hdpos].
Qed.

Lemma adaptive_formula_monotone min_k max_k e_ref e_max Ei Ej :
  min_k <= max_k -> e_ref < e_max -> Ei <= Ej ->
  max_k - (max_k - min_k) * ((e_max - Ei) / (e_max - e_ref)) <=
  max_k - (max_k - min_k) * ((e_max - Ej) / (e_max - e_ref)).
Proof.
  intros Hk Hd Hij.
  assert (Hdpos : 0 < e_max - e_ref).
  { unfold Qcminus. apply -> Qclt_minus_iff. exact Hd. }
  pose proof (pos_nonzero _ Hdpos) as Hdne.
  apply Qc_sub_nonneg_elim.
  match goal with |- 0 <= ?a - ?b =>
    replace (a - b) with ((max_k - min_k) * ((Ej - Ei) / (e_max - e_ref))) by (field; exact Hdne) end.
  apply Qc_mul_nonneg; [apply Qc_sub_nonneg_intro; exact Hk|].
  apply Qc_div_nonneg; [apply Qc_sub_nonneg_intro; exact Hij|exact Hdpos].
Qed.

(* one image's new constant: bounds, and monotone against any other image *)
Lemma adaptive_k_props min_k max_k es e_first :
  min_k <= max_k ->
  hd_error es = Some e_first ->
  let e_last := last es e_first in
  adaptive_skip Qc OQ min_k max_k e_first e_last es = false ->
  forall Ei Ej, In Ei es -> In Ej es ->
    let ki := adaptive_k Qc OQ min_k max_k e_first e_last es Ei in
    let kj := adaptive_k Qc OQ min_k max_k e_first e_last es Ej in
    (min_k <= ki /\ ki <= max_k) /\ (Ei <= Ej -> ki <= kj).
Proof.
  intros Hk Hhd e_last Hskip Ei Ej HiIn HjIn.
  rewrite adaptive_skip_closed in Hskip.
  cbv zeta. rewrite !adaptive_k_closed. cbv zeta.
  set (e_ref := pmax Qc OQ e_first e_last) in *.
  set (e_max := pmaxl Qc OQ es) in *.
  assert (Hfirst : In e_first es) by (destruct es; [discriminate|injection Hhd as ->; left; reflexivity]).
  assert (Hlast : In e_last es).
  { unfold e_last. destruct es as [|a es']; [discriminate|].
    destruct (exists_last (l := a :: es')) as [l' [z Hz]]; [discriminate|].
    rewrite Hz. rewrite last_last. apply in_or_app. right. left. reflexivity. }
  assert (Hrefmax : e_ref <= e_max).
  { unfold e_ref. destruct (pmax_cases e_first e_last) as [-> | ->]; apply pmaxl_ge; assumption. }
  assert (Hd : e_ref < e_max).
  { destruct (Qcle_lt_or_eq _ _ Hrefmax) as [H|H]; [exact H|].
    rewrite H, energy_eqb_refl in Hskip. discriminate. }
  pose proof (pmaxl_ge es Ei HiIn) as HiM. pose proof (pmaxl_ge es Ej HjIn) as HjM.
  fold e_max in HiM, HjM.
  assert (Bi : forall Ex, In Ex es ->
     let k := if Qcltb Ex e_ref then min_k else max_k - (max_k - min_k) * ((e_max - Ex) / (e_max - e_ref)) in
     min_k <= k /\ k <= max_k).
  { intros Ex HxIn. pose proof (pmaxl_ge es Ex HxIn) as HxM. fold e_max in HxM.
    destruct (Qcltb Ex e_ref) eqn:Ex1; cbv zeta.
    - split; [apply Qcle_refl|exact Hk].
    - apply Qcltb_ge in Ex1. apply adaptive_formula_bounds; assumption. }
  split; [exact (Bi Ei HiIn)|].
  intros Hij. pose proof (Bi Ej HjIn) as Bj. cbv zeta in Bj.
  destruct (Qcltb Ei e_ref) eqn:E1.
  - exact (proj1 Bj).
  - destruct (Qcltb Ej e_ref) eqn:E2.
    + apply Qcltb_ge in E1. apply Qcltb_lt in E2. exfalso.
      exact (Qcle_not_lt _ _ (Qcle_trans _ _ _ E1 Hij) E2).
    + apply adaptive_formula_monotone; assumption.
Qed.

(* ---- round 3: what the update does exactly ---- *)
Lemma Qc_mul_pos a b : 0 < a -> 0 < b -> 0 < a * b.
Proof. intros Ha Hb. rewrite <- (Qcmult_0_l b). apply Qcmult_lt_compat_r; assumption. Qed.

Lemma Qc_sub_pos_intro a b : a < b -> 0 < b - a.
Proof. unfold Qcminus. apply Qclt_minus_iff. Qed.
Lemma Qc_sub_pos_elim a b : 0 < b - a -> a < b.
Proof. unfold Qcminus. apply Qclt_minus_iff. Qed.

Lemma adaptive_formula_strict min_k max_k e_ref e_max Ei Ej :
  min_k < max_k -> e_ref < e_max -> Ei < Ej ->
  max_k - (max_k - min_k) * ((e_max - Ei) / (e_max - e_ref)) <
  max_k - (max_k - min_k) * ((e_max - Ej) / (e_max - e_ref)).
Proof.
  intros Hk Hd Hij.
  pose proof (Qc_sub_pos_intro _ _ Hd) as Hdpos. pose proof (pos_nonzero _ Hdpos) as Hdne.
  apply Qc_sub_pos_elim.
  match goal with |- 0 < ?a - ?b =>
    replace (a - b) with ((max_k - min_k) * ((Ej - Ei) * / (e_max - e_ref))) by (field; exact Hdne) end.
  apply Qc_mul_pos; [apply Qc_sub_pos_intro; exact Hk|].
  apply Qc_mul_pos; [apply Qc_sub_pos_intro; exact Hij|apply Qcinv_pos; exact Hdpos].
Qed.

Lemma pmaxl_from_in : forall l m, pmaxl_from Qc OQ m l = m \/ In (pmaxl_from Qc OQ m l) l.
Proof.
  induction l as [|x l IH]; intros m; cbn [pmaxl_from]; [left; reflexivity|].
  destruct (IH (pmax Qc OQ m x)) as [H|H].
  - rewrite H. destruct (pmax_cases m x) as [E|E]; rewrite E; [left; reflexivity|right; left; reflexivity].
  - right. right. exact H.
Qed.

Lemma pmaxl_in l : l <> [] -> In (pmaxl Qc OQ l) l.
Proof.
  destruct l as [|x l]; [congruence|]. intros _. cbn [pmaxl].
  destruct (pmaxl_from_in l x) as [H|H]; [left; symmetry; exact H|right; exact H].
Qed.

(* the complete description of one adaptive update that is not skipped *)
Lemma adaptive_k_props_strong min_k max_k es e_first :
  min_k <= max_k ->
  hd_error es = Some e_first ->
  let e_last := last es e_first in
  let e_ref := Qcmaxq e_first e_last in
  let e_max := pmaxl Qc OQ es in
  adaptive_skip Qc OQ min_k max_k e_first e_last es = energy_eqb e_ref e_max /\
  In e_max es /\ (forall e, In e es -> e <= e_max) /\
  (energy_eqb e_ref e_max = false ->
   e_ref < e_max /\
   forall Ei Ej, In Ei es -> In Ej es ->
    let ki := adaptive_k Qc OQ min_k max_k e_first e_last es Ei in
    let kj := adaptive_k Qc OQ min_k max_k e_first e_last es Ej in
    (min_k <= ki /\ ki <= max_k) /\ (Ei <= Ej -> ki <= kj) /\
    (min_k < max_k -> e_ref <= Ei -> Ei < Ej -> ki < kj) /\
    (Ei < e_ref -> ki = min_k) /\ (Ei = e_max -> ki = max_k)).
Proof.
  intros Hk Hhd e_last e_ref e_max.
  assert (Hne : es <> []) by (destruct es; [discriminate|discriminate]).
  assert (Eref : pmax Qc OQ e_first e_last = e_ref) by apply pmax_q.
  split; [rewrite adaptive_skip_closed, Eref; reflexivity|].
  split; [apply pmaxl_in; exact Hne|]. split; [intros e He; apply pmaxl_ge; exact He|].
  intros Hskip.
  assert (Hskip' : adaptive_skip Qc OQ min_k max_k e_first e_last es = false)
    by (rewrite adaptive_skip_closed, Eref; exact Hskip).
  assert (Hfirst : In e_first es) by (destruct es; [discriminate|injection Hhd as ->; left; reflexivity]).
  assert (Hlast : In e_last es).
  { unfold e_last. destruct es as [|a es']; [discriminate|].
    destruct (exists_last (l := a :: es')) as [l' [z Hz]]; [discriminate|].
    rewrite Hz. rewrite last_last. apply in_or_app. right. left. reflexivity. }
  assert (Hrefmax : e_ref <= e_max).
  { rewrite <- Eref. destruct (pmax_cases e_first e_last) as [-> | ->]; apply pmaxl_ge; assumption. }
  assert (Hd : e_ref < e_max).
  { destruct (Qcle_lt_or_eq _ _ Hrefmax) as [H|H]; [exact H|].
    rewrite H, energy_eqb_refl in Hskip. discriminate. }
  split; [exact Hd|].
  intros Ei Ej HiIn HjIn.
  destruct (adaptive_k_props min_k max_k es e_first Hk Hhd Hskip' Ei Ej HiIn HjIn) as [B M].
  cbv zeta in B, M. cbv zeta. split; [exact B|]. split; [exact M|].
  rewrite !adaptive_k_closed. cbv zeta. rewrite Eref. fold e_max.
  split; [|split].
  - intros Hlt Hi Hij.
    assert (E1 : Qcltb Ei e_ref = false) by (apply Qcltb_ge; exact Hi).
    assert (E2 : Qcltb Ej e_ref = false)
      by (apply Qcltb_ge; apply Qclt_le_weak; eapply Qcle_lt_trans; [exact Hi|exact Hij]).
    rewrite E1, E2. apply adaptive_formula_strict; assumption.
  - intros Hi. apply Qcltb_lt in Hi. rewrite Hi. reflexivity.
  - intros ->. assert (E1 : Qcltb e_max e_ref = false) by (apply Qcltb_ge; apply Qclt_le_weak; exact Hd).
    rewrite E1. field. apply pos_nonzero. apply Qc_sub_pos_intro. exact Hd.
Qed.

End QcHelpers.

(* ============================================================================================ *)
(* Part C — tangent choice follows the energy ordering                                           *)
Lemma tangent_spec_lemma nrm El E Er xl x xr t :
  tau_sel Qc (Oq nrm) El E Er xl x xr = Some t ->
  let dM := dvmax El E Er in
  let dm := dvmin El E Er in
  let tp := fun i => xr i - x i in
  let tm := fun i => x i - xl i in
  (dM = 0 -> forall i, t i = tp i + tm i) /\
  (dM <> 0 ->
     (El < E -> E < Er -> forall i, t i = tp i) /\
     (Er < E -> E < El -> forall i, t i = tm i) /\
     (~ (El < E /\ E < Er) -> ~ (Er < E /\ E < El) -> El < Er ->
        forall i, t i = dM * tp i + dm * tm i) /\
     (~ (El < E /\ E < Er) -> ~ (Er < E /\ E < El) -> Er <= El ->
        forall i, t i = dm * tp i + dM * tm i)).
Proof.
  intros Ht dM dm tp tm. rewrite tau_sel_closed in Ht. cbv zeta in Ht. fold dM dm in Ht.
  injection Ht as Ht. split.
  - intros HM. assert (HMb : Qceqb dM 0 = true) by (apply Qceqb_eq; exact HM).
    rewrite HMb in Ht. subst t. intros i. reflexivity.
  - intros HM. assert (HMb : Qceqb dM 0 = false).
    { destruct (Qceqb dM 0) eqn:Eq; [apply Qceqb_eq in Eq; contradiction|reflexivity]. }
    rewrite HMb in Ht. clear HMb.
    split; [|split; [|split]].
    + intros H1 H2. apply Qcltb_lt in H1, H2. rewrite H1, H2 in Ht. cbn [andb] in Ht.
      subst t. intros i. reflexivity.
    + intros H1 H2.
      assert (N1 : Qcltb El E = false) by (apply Qcltb_ge; apply Qclt_le_weak; exact H2).
      apply Qcltb_lt in H1, H2. rewrite N1, H1, H2 in Ht. cbn [andb] in Ht.
      subst t. intros i. reflexivity.
    + intros N1 N2 H3.
      assert (B1 : Qcltb El E && Qcltb E Er = false).
      { destruct (Qcltb El E) eqn:A; destruct (Qcltb E Er) eqn:B; try reflexivity.
        exfalso. apply N1. split; apply Qcltb_lt; assumption. }
      assert (B2 : Qcltb Er E && Qcltb E El = false).
      { destruct (Qcltb Er E) eqn:A; destruct (Qcltb E El) eqn:B; try reflexivity.
        exfalso. apply N2. split; apply Qcltb_lt; assumption. }
      apply Qcltb_lt in H3. rewrite B1, B2, H3 in Ht. subst t. intros i. reflexivity.
    + intros N1 N2 H3.
      assert (B1 : Qcltb El E && Qcltb E Er = false).
      { destruct (Qcltb El E) eqn:A; destruct (Qcltb E Er) eqn:B; try reflexivity.
        exfalso. apply N1. split; apply Qcltb_lt; assumption. }
      assert (B2 : Qcltb Er E && Qcltb E El = false).
      { destruct (Qcltb Er E) eqn:A; destruct (Qcltb E El) eqn:B; try reflexivity.
        exfalso. apply N2. split; apply Qcltb_lt; assumption. }
      apply Qcltb_ge in H3. rewrite B1, B2, H3 in Ht. subst t. intros i. reflexivity.
Qed.

(* with equal neighbour energies the two weights coincide: the tangent is the (scaled) bisector *)
Lemma dv_tie El E Er : El = Er -> dvmin El E Er = dvmax El E Er.
Proof.
  intros ->. unfold dvmin, dvmax, Qcminq, Qcmaxq.
  destruct (Qcleb (Qcabs (E - Er)) (Qcabs (E - Er))); reflexivity.
Qed.

(* ============================================================================================ *)
(* Part D — interpolation                                                                        *)
Lemma qnat_nonzero i : (0 < i)%nat -> qnat i <> 0.
Proof.
  intros Hi H. unfold qnat in H.
  assert (E : inject_Z (Z.of_nat i) == 0%Q).
  { apply Q2Qc_eq_iff. exact H. }
  unfold Qeq, inject_Z in E. cbn in E. lia.
Qed.

Lemma qnat_0 : qnat 0 = 0.
Proof. reflexivity. Qed.

Lemma nth_error_seq start len k : (k < len)%nat -> nth_error (seq start len) k = Some (start + k)%nat.
Proof.
  intros Hk. rewrite (nth_error_nth' _ 0%nat) by (rewrite seq_length; exact Hk).
  rewrite seq_nth by exact Hk. reflexivity.
Qed.

Lemma interp_shape a b n l :
  interpolated_species a b n = Some l ->
  (2 <= n)%nat /\ length l = n /\ nth_error l 0 = Some a /\ nth_error l (n - 1) = Some b /\
  forall i, (0 < i)%nat -> (i < n - 1)%nat -> nth_error l i = Some (interp_point a b n i).
Proof.
  unfold interpolated_species. destruct (n <? 2)%nat eqn:E1; [discriminate|].
  apply Nat.ltb_ge in E1. destruct (n =? 2)%nat eqn:E2.
  - apply Nat.eqb_eq in E2. subst n. intros H. injection H as <-.
    repeat split; try reflexivity; try lia.
  - apply Nat.eqb_neq in E2. intros H. injection H as <-.
    split; [exact E1|]. split.
    { cbn [app length]. rewrite app_length, map_length, seq_length. cbn [length]. lia. }
    split; [reflexivity|]. split.
    { replace (n - 1)%nat with (S (n - 2)) by lia. cbn [app nth_error].
      rewrite nth_error_app2 by (rewrite map_length, seq_length; lia).
      rewrite map_length, seq_length, Nat.sub_diag. reflexivity. }
    intros i H0 H1. destruct i as [|i]; [lia|]. cbn [app nth_error].
    rewrite nth_error_app1 by (rewrite map_length, seq_length; lia).
    erewrite map_nth_error; [reflexivity|]. rewrite nth_error_seq by lia. reflexivity.
Qed.

Lemma interp_none a b n : interpolated_species a b n = None <-> (n < 2)%nat.
Proof.
  unfold interpolated_species. destruct (n <? 2)%nat eqn:E1.
  - apply Nat.ltb_lt in E1. split; [intros _; exact E1|reflexivity].
  - apply Nat.ltb_ge in E1. destruct (n =? 2)%nat; split; try discriminate; lia.
Qed.

Lemma interp_spacing_lemma a b n l :
  interpolated_species a b n = Some l ->
  forall i, (i < n)%nat -> exists s, nth_error l i = Some s /\
    forall c, sp_x s c = sp_x a c + qnat i / qnat (n - 1) * (sp_x b c - sp_x a c).
Proof.
  intros H. destruct (interp_shape a b n l H) as [Hn [Hlen [H0 [Hl Hmid]]]].
  assert (Hne : qnat (n - 1) <> 0) by (apply qnat_nonzero; lia).
  intros i Hi. destruct (Nat.eq_dec i 0) as [->|Hi0].
  - exists a. split; [exact H0|]. intros c. rewrite qnat_0. field. exact Hne.
  - destruct (Nat.eq_dec i (n - 1)) as [->|Hil].
    + exists b. split; [exact Hl|]. intros c. field. exact Hne.
    + exists (interp_point a b n i). split; [apply Hmid; lia|].
      intros c. cbn [interp_point sp_x]. field. exact Hne.
Qed.

Lemma interp_labels_lemma a b n l :
  interpolated_species a b n = Some l ->
  forall i s, nth_error l i = Some s ->
    (i < n - 1 -> sp_labels s = sp_labels a)%nat /\ (i = n - 1 -> s = b)%nat.
Proof.
  intros H. destruct (interp_shape a b n l H) as [Hn [Hlen [H0 [Hl Hmid]]]].
  intros i s Hs. split.
  - intros Hi. destruct (Nat.eq_dec i 0) as [->|Hi0].
    + rewrite H0 in Hs. injection Hs as <-. reflexivity.
    + rewrite Hmid in Hs by lia. injection Hs as <-. reflexivity.
  - intros ->. rewrite Hl in Hs. injection Hs as <-. reflexivity.
Qed.

(* ============================================================================================ *)
(* Part E — maximum distance between consecutive images, and partition                           *)
Fixpoint consecutive {A} (P : A -> A -> Prop) (l : list A) : Prop :=
  match l with
  | a :: rest => match rest with b :: _ => P a b /\ consecutive P rest | [] => True end
  | [] => True
  end.

Lemma consecutive_nth {A} (P : A -> A -> Prop) : forall l,
  consecutive P l <->
  (forall k a b, nth_error l k = Some a -> nth_error l (S k) = Some b -> P a b).
Proof.
  induction l as [|a rest IH].
  - split; [intros _ k a b H; destruct k; discriminate|intros _; exact I].
  - destruct rest as [|b rest'].
    + split; [intros _ k x y _ H; destruct k; discriminate|intros _; exact I].
    + split.
      * intros [Hab Hrest] k x y Hx Hy. destruct k as [|k].
        { cbn in Hx, Hy. injection Hx as <-. injection Hy as <-. exact Hab. }
        { cbn [nth_error] in Hx, Hy. apply (proj1 IH Hrest k); assumption. }
      * intros H. split; [apply (H 0%nat); reflexivity|].
        apply IH. intros k x y Hx Hy. apply (H (S k)); assumption.
Qed.

Lemma consecutive_weaken {A} (P Q : A -> A -> Prop) : (forall a b, P a b -> Q a b) ->
  forall l, consecutive P l -> consecutive Q l.
Proof.
  intros HPQ. induction l as [|a rest IH]; [intros _; exact I|].
  destruct rest as [|b rest']; [intros _; exact I|].
  intros [H1 H2]. split; [apply HPQ; exact H1|apply IH; exact H2].
Qed.

Lemma consecutive_trivial {A} (P : A -> A -> Prop) : (forall a b, P a b) -> forall l, consecutive P l.
Proof.
  intros HP. induction l as [|a rest IH]; [exact I|].
  destruct rest as [|b rest']; [exact I|]. split; [apply HP|exact IH].
Qed.

(* gluing two bands that share an end point *)
Lemma consecutive_glue {A} (P : A -> A -> Prop) (r : A) (tl : list A) : forall xs,
  consecutive P (xs ++ [r]) -> consecutive P (r :: tl) -> consecutive P (xs ++ r :: tl).
Proof.
  induction xs as [|a xs IH]; intros H1 H2; [exact H2|].
  destruct xs as [|b xs'].
  - cbn [app] in *. destruct H1 as [Har _]. split; [exact Har|exact H2].
  - cbn [app] in *. destruct H1 as [Hab Hrest]. split; [exact Hab|]. apply IH; assumption.
Qed.

Lemma qmax_ge_l a b : a <= qmax a b.
Proof.
  unfold qmax. destruct (Qcltb a b) eqn:E; [apply Qclt_le_weak; apply Qcltb_lt; exact E|apply Qcle_refl].
Qed.
Lemma qmax_ge_r a b : b <= qmax a b.
Proof.
  unfold qmax. destruct (Qcltb a b) eqn:E; [apply Qcle_refl|apply Qcltb_ge; exact E].
Qed.

Lemma fold_qmax_spec : forall r x,
  x <= fold_left qmax r x /\ (forall y, In y r -> y <= fold_left qmax r x) /\
  (fold_left qmax r x = x \/ In (fold_left qmax r x) r).
Proof.
  induction r as [|y r IH]; intros x; cbn [fold_left].
  - split; [apply Qcle_refl|]. split; [intros y []|left; reflexivity].
  - destruct (IH (qmax x y)) as [H1 [H2 H3]]. split; [|split].
    + eapply Qcle_trans; [apply qmax_ge_l|exact H1].
    + intros z [<-|Hz]; [eapply Qcle_trans; [apply qmax_ge_r|exact H1]|apply H2; exact Hz].
    + destruct H3 as [H3|H3].
      * rewrite H3. unfold qmax. destruct (Qcltb x y); [right; left; reflexivity|left; reflexivity].
      * right. right. exact H3.
Qed.

Lemma lmax_spec l m : lmax l = Some m -> (forall y, In y l -> y <= m) /\ In m l.
Proof.
  destruct l as [|x r]; [discriminate|]. cbn [lmax]. intros H. injection H as <-.
  destruct (fold_qmax_spec r x) as [H1 [H2 H3]]. split.
  - intros y [<-|Hy]; [exact H1|apply H2; exact Hy].
  - destruct H3 as [->|H3]; [left; reflexivity|right; exact H3].
Qed.

Lemma lmax_none l : lmax l = None <-> l = [].
Proof. destruct l; cbn; split; congruence. Qed.

Section MaxDist.
Variable I : Type.
Variable dist : I -> I -> nat -> Qc.
Variable idxs : list nat.

Definition pair_le (D : Qc) (a b : I) : Prop := forall j, In j idxs -> dist a b j <= D.
Definition attained (band : list I) (D : Qc) : Prop :=
  exists k a b j, nth_error band k = Some a /\ nth_error band (S k) = Some b /\ In j idxs /\ D = dist a b j.

Lemma attained_cons x band D : attained band D -> attained (x :: band) D.
Proof. intros [k [a [b [j [H1 [H2 [H3 H4]]]]]]]. exists (S k), a, b, j. repeat split; assumption. Qed.

Lemma pair_le_weaken D D' a b : D <= D' -> pair_le D a b -> pair_le D' a b.
Proof. intros HD H j Hj. eapply Qcle_trans; [apply H; exact Hj|exact HD]. Qed.

Lemma max_dist_from_cons2 a b rest overall :
  max_dist_from I dist idxs overall (a :: b :: rest) =
  match lmax (map (dist a b) idxs) with
  | None => MDErr
  | Some m => max_dist_from I dist idxs
                (match overall with
                 | MDNegInf => MDVal m
                 | MDVal o => if Qcltb o m then MDVal m else MDVal o
                 | MDErr => MDErr end) (b :: rest)
  end.
Proof. reflexivity. Qed.

Lemma max_dist_from_spec (Hne : idxs <> []) : forall band overall, overall <> MDErr ->
  match max_dist_from I dist idxs overall band with
  | MDErr => False
  | MDNegInf => overall = MDNegInf /\ (length band < 2)%nat
  | MDVal D => (forall o, overall = MDVal o -> o <= D) /\ consecutive (pair_le D) band /\
               (overall = MDVal D \/ attained band D)
  end.
Proof.
  induction band as [|a rest IH]; intros overall Hov.
  - cbn [max_dist_from]. destruct overall as [|o|]; [split; [reflexivity|cbn; lia]| |contradiction].
    split; [intros o' H; injection H as <-; apply Qcle_refl|]. split; [exact Logic.I|left; reflexivity].
  - destruct rest as [|b rest'].
    + cbn [max_dist_from]. destruct overall as [|o|]; [split; [reflexivity|cbn; lia]| |contradiction].
      split; [intros o' H; injection H as <-; apply Qcle_refl|]. split; [exact Logic.I|left; reflexivity].
    + rewrite max_dist_from_cons2.
      destruct (lmax (map (dist a b) idxs)) as [m|] eqn:Em.
      2:{ apply lmax_none in Em. destruct idxs; [contradiction|discriminate]. }
      destruct (lmax_spec _ _ Em) as [Hall Hin].
      apply in_map_iff in Hin. destruct Hin as [j0 [Hj0 Hj0in]].
      set (overall' := match overall with
                       | MDNegInf => MDVal m
                       | MDVal o => if Qcltb o m then MDVal m else MDVal o
                       | MDErr => MDErr end).
      assert (Hov' : overall' <> MDErr).
      { unfold overall'. destruct overall as [|o|]; [discriminate| |contradiction].
        destruct (Qcltb o m); discriminate. }
      assert (Hov'val : exists v, overall' = MDVal v /\ m <= v /\ (forall o, overall = MDVal o -> o <= v) /\
                                  (v = m \/ overall = MDVal v)).
      { unfold overall'. destruct overall as [|o|]; [| |contradiction].
        - exists m. split; [reflexivity|]. split; [apply Qcle_refl|]. split; [intros o H; discriminate|left; reflexivity].
        - destruct (Qcltb o m) eqn:E.
          + exists m. split; [reflexivity|]. split; [apply Qcle_refl|]. split; [|left; reflexivity].
            intros o' H. injection H as <-. apply Qclt_le_weak. apply Qcltb_lt. exact E.
          + exists o. split; [reflexivity|]. split; [apply Qcltb_ge; exact E|].
            split; [intros o' H; injection H as <-; apply Qcle_refl|right; reflexivity]. }
      destruct Hov'val as [v [Hv [Hmv [Hov_le Hv_src]]]].
      specialize (IH overall' Hov'). fold overall'.
      destruct (max_dist_from I dist idxs overall' (b :: rest')) as [|D|] eqn:ER.
      * destruct IH as [IH1 _]. rewrite Hv in IH1. discriminate.
      * destruct IH as [IH1 [IH2 IH3]]. pose proof (IH1 v Hv) as HvD. split; [|split].
        { intros o Ho. eapply Qcle_trans; [apply Hov_le; exact Ho|exact HvD]. }
        { cbn [consecutive]. split; [|exact IH2]. intros j Hj.
          eapply Qcle_trans; [apply Hall; apply in_map; exact Hj|].
          eapply Qcle_trans; [exact Hmv|exact HvD]. }
        { destruct IH3 as [IH3|IH3].
          - rewrite Hv in IH3. injection IH3 as <-. destruct Hv_src as [->|Hs].
            + right. exists 0%nat, a, b, j0. repeat split; try reflexivity; [exact Hj0in|symmetry; exact Hj0].
            + left. exact Hs.
          - right. apply attained_cons. exact IH3. }
      * exact IH.
Qed.

Lemma max_dist_empty_idxs : idxs = [] -> forall band overall, (2 <= length band)%nat ->
  max_dist_from I dist idxs overall band = MDErr.
Proof.
  intros -> band overall H. destruct band as [|a [|b rest]]; cbn in H; try lia. reflexivity.
Qed.

Lemma max_dist_short band : (length band < 2)%nat -> max_atom_distance I dist idxs band = MDNegInf.
Proof. destruct band as [|a [|b rest]]; cbn; intros H; try reflexivity; lia. Qed.

(* `not (max_dist > max_delta)` bounds every consecutive pair *)
Lemma exceeds_false_bound band md :
  exceeds (max_atom_distance I dist idxs band) md = Some false -> consecutive (pair_le md) band.
Proof.
  intros H.
  assert (Hcase : idxs = [] \/ idxs <> []) by (clear; destruct idxs; [left; reflexivity|right; discriminate]).
  destruct Hcase as [Hemp|Hne].
  - apply consecutive_trivial. intros a b j Hj. rewrite Hemp in Hj. destruct Hj.
  - pose proof (max_dist_from_spec Hne band MDNegInf ltac:(discriminate)) as S.
    unfold max_atom_distance in H.
    destruct (max_dist_from I dist idxs MDNegInf band) as [|D|].
    + destruct S as [_ Hlen]. destruct band as [|a [|b rest]]; cbn in Hlen; try exact Logic.I; lia.
    + destruct S as [_ [Hc _]]. cbn [exceeds] in H. injection H as H. apply Qcltb_ge in H.
      eapply consecutive_weaken; [|exact Hc]. intros a b Hab. eapply pair_le_weaken; [exact H|exact Hab].
    + contradiction.
Qed.

Variable build : I -> I -> nat -> option (list I).
(* what the theorems need of from_end_points: the band it returns starts and ends with the two
   species it was given (the IDPP relaxation keeps the end images fixed) *)
Hypothesis build_keeps_ends : forall l r n s, build l r n = Some s -> exists mid, s = l :: mid ++ [r].

Lemma inner_spec md l r : forall fuel n sub out,
  (exists mid, sub = l :: mid ++ [r]) ->
  inner I dist build fuel idxs md l r n sub = POk out ->
  (exists mid, out = l :: mid ++ [r]) /\ consecutive (pair_le md) out.
Proof.
  induction fuel as [|f IH]; intros n sub out Hsub H; cbn [inner] in H.
  - destruct (exceeds (max_atom_distance I dist idxs sub) md) as [[|]|] eqn:E; try discriminate.
    injection H as <-. split; [exact Hsub|apply exceeds_false_bound; exact E].
  - destruct (exceeds (max_atom_distance I dist idxs sub) md) as [[|]|] eqn:E; try discriminate.
    + refine (IH (S n) _ out _ H).
      destruct (build l r n) as [s|] eqn:Eb; [exact (build_keeps_ends _ _ _ _ Eb)|exact Hsub].
    + injection H as <-. split; [exact Hsub|apply exceeds_false_bound; exact E].
Qed.

Lemma last_app_cons {A} (xs : list A) (r : A) tl d : last (xs ++ r :: tl) d = last (r :: tl) d.
Proof.
  induction xs as [|a xs IH]; [reflexivity|]. cbn [app].
  transitivity (last (xs ++ r :: tl) d); [|exact IH].
  destruct (xs ++ r :: tl) eqn:E; [destruct xs; discriminate|reflexivity].
Qed.

Lemma outer_cons2 md fuel l r rest :
  outer I dist build fuel idxs md (l :: r :: rest) =
  match build l r 2 with
  | None => PRuntimeError
  | Some sub0 =>
      match inner I dist build fuel idxs md l r 2 sub0 with
      | POk sub => match outer I dist build fuel idxs md (r :: rest) with
                   | POk tl => POk (removelast sub ++ tl)
                   | e => e
                   end
      | e => e
      end
  end.
Proof. reflexivity. Qed.

Lemma outer_spec md fuel : forall band out,
  outer I dist build fuel idxs md band = POk out ->
  consecutive (pair_le md) out /\ hd_error out = hd_error band /\
  (forall d, last out d = last band d) /\ (length band <= length out)%nat /\
  (forall x, In x band -> In x out).
Proof.
  induction band as [|l rest IH]; intros out H.
  - cbn in H. injection H as <-. repeat split; try reflexivity; try (cbn; lia); try (intros x Hx; exact Hx).
  - destruct rest as [|r rest'].
    + cbn in H. injection H as <-. repeat split; try reflexivity; try (cbn; lia); try (intros x Hx; exact Hx).
    + rewrite outer_cons2 in H.
      destruct (build l r 2) as [sub0|] eqn:Eb; [|discriminate].
      destruct (inner I dist build fuel idxs md l r 2 sub0) as [sub| | | |] eqn:Ein; try discriminate.
      destruct (outer I dist build fuel idxs md (r :: rest')) as [tl| | | |] eqn:Eo; try discriminate.
      injection H as <-.
      destruct (inner_spec md l r fuel 2 sub0 sub (build_keeps_ends _ _ _ _ Eb) Ein) as [[mid ->] Hc].
      destruct (IH tl eq_refl) as [Hctl [Hhd [Hlast [Hlen Hin]]]].
      cbn [hd_error] in Hhd. destruct tl as [|r0 tl']; [discriminate|]. injection Hhd as ->.
      replace (l :: mid ++ [r]) with ((l :: mid) ++ [r]) in * by reflexivity.
      rewrite removelast_last. split; [|split; [|split; [|split]]].
      * apply consecutive_glue; assumption.
      * reflexivity.
      * intros d. rewrite last_app_cons. rewrite Hlast.
        change (l :: r :: rest') with ([l] ++ r :: rest'). rewrite last_app_cons. reflexivity.
      * rewrite app_length. cbn [length] in *. lia.
      * intros x [<-|Hx]; [left; reflexivity|]. apply in_or_app. right. apply Hin. exact Hx.
Qed.

End MaxDist.

(* ============================================================================================ *)
(* data for the non-vacuity examples of Props.v: a norm oracle returning 5 and three collinear-free
   2-d geometries with x2 - x1 = (3, 4) *)
Definition ex_nrm5 : nat -> (nat -> Qc) -> Qc := fun _ _ => qc 5 1.
Definition ex_x0 : nat -> Qc := vec_of_list [qc 0 1; qc 0 1].
Definition ex_x1 : nat -> Qc := vec_of_list [qc 1 1; qc 1 1].
Definition ex_x2 : nat -> Qc := vec_of_list [qc 4 1; qc 5 1].
