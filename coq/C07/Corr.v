(* C07/Corr.v — helpers used only by the correspondence check (harness/c07.py): the GENERATED
   operations instantiated at the canonical rationals Qc, an evaluator for operation trees, and
   boolean checkers comparing model results with the implementation's floats (passed as the exact
   rationals of the doubles).  Nothing here is used by a property theorem. *)
From Coq Require Import ZArith QArith Qcanon List Bool.
From AV.lib Require Import Sums QcInst.
From AV.C07 Require Import Model.
From AV.gen Require Import C07_Gen.
Import ListNotations.

Definition QO : ops := mkOps Qc (Q2Qc 0) (Q2Qc 1) Qcplus Qcmult Qcminus Qcopp Qcdiv Qcinv.

Definition tol9 : Qc := qc 1 1000000000.

(* tabulate the derivative arrays so that shared sub-terms are evaluated once *)
Definition htab (n : nat) (a : hd QO) : hd QO := mkHd (v a) (vtab n (d1 a)) (mtab n (d2 a)).

(* operation trees: each constructor is ONE dunder call of VectorHyperDual *)
Inductive tree : Type :=
| TVar (k : nat)
| TAdd (a b : tree) | TSub (a b : tree) | TMul (a b : tree) | TDiv (a b : tree)
| TNeg (a : tree)
| TAddS (a : tree) (c : Qc)      (* a + c  and  c + a (__radd__) *)
| TSubS (a : tree) (c : Qc)      (* a - c *)
| TRsub (c : Qc) (a : tree)      (* c - a *)
| TMulS (a : tree) (c : Qc)      (* a * c  and  c * a (__rmul__) *)
| TDivS (a : tree) (c : Qc)      (* a / c *)
| TRdiv (c : Qc) (a : tree)      (* c / a *)
| TPow (a : tree) (k : Z).       (* a ** k, k a Python int *)

Fixpoint teval (n : nat) (xs : list Qc) (t : tree) : hd QO :=
  htab n
  match t with
  | TVar k => hd_from_variable QO k (nth k xs (Q2Qc 0))
  | TAdd a b => hd_add QO (teval n xs a) (teval n xs b)
  | TSub a b => hd_sub QO (teval n xs a) (teval n xs b)
  | TMul a b => hd_mul QO (teval n xs a) (teval n xs b)
  | TDiv a b => hd_div QO (teval n xs a) (teval n xs b)
  | TNeg a => hd_neg QO (teval n xs a)
  | TAddS a c => hd_add_scalar QO (teval n xs a) c
  | TSubS a c => hd_sub_scalar QO (teval n xs a) c
  | TRsub c a => hd_rsub QO c (teval n xs a)
  | TMulS a c => hd_mul_scalar QO (teval n xs a) c
  | TDivS a c => hd_div_scalar QO (teval n xs a) c
  | TRdiv c a => hd_rdiv QO c (teval n xs a)
  | TPow a k => hd_pow QO (teval n xs a) k
  end.

Definition check_tree (n : nat) (xs : list Qc) (t : tree)
           (val : Qc) (g : list Qc) (h : list (list Qc)) : bool :=
  let r := teval n xs t in
  close tol9 (v r) val && closeL tol9 (list_of_vec n (d1 r)) g && closeM tol9 (list_of_mat n (d2 r)) h.

(* ---- Primitive.derivative / second_derivative placement (exact) ---- *)
Definition eqL (a b : list Qc) : bool :=
  Nat.eqb (length a) (length b) && forallb (fun p => Qc_eq_bool (fst p) (snd p)) (combine a b).
Fixpoint eqM (a b : list (list Qc)) : bool :=
  match a, b with
  | [], [] => true
  | x :: a', y :: b' => eqL x y && eqM a' b'
  | _, _ => false
  end.

Definition check_assemble (atoms : list nat) (n3 : nat) (g : list Qc) (h : list (list Qc))
           (outg : list Qc) (outh : list (list Qc)) : bool :=
  let r := mkHd (K := QO) (Q2Qc 0) (vec_of_list g) (mat_of_list h) in
  let syms := cart_idxs atoms in
  eqL (list_of_vec n3 (assemble1 QO syms r)) outg && eqM (list_of_mat n3 (assemble2 QO syms r)) outh.

(* ---- pair potentials: distances are supplied (sqrt is an oracle), formulas are the model's ---- *)
Definition qsum := Sums.sum Qc (Q2Qc 0) Qcplus.
Definition M (l : list (list Qc)) : nat -> nat -> Qc := mat_of_list l.

Definition pair_energy (n : nat) (term : nat -> nat -> Qc -> Qc) (Rm : nat -> nat -> Qc) : Qc :=
  qsum n (fun i => qsum i (fun j => term i j (Rm i j))).
Definition pair_grad (n : nat) (coef : nat -> nat -> Qc -> Qc) (X Rm : nat -> nat -> Qc) : list (list Qc) :=
  let cf := mtab n (fun a j => if Nat.eqb j a then Q2Qc 0 else coef a j (Rm a j)) in
  map (fun a => map (fun k => qsum n (fun j => (cf a j * (X a k - X j k))%Qc)) (seq 0 3)) (seq 0 n).

Definition check_idpp (n : nat) (X C Rm : list (list Qc)) (E : Qc) (G : list (list Qc)) : bool :=
  close tol9 (pair_energy n (fun i j r => idpp_term QO (M C i j) r) (M Rm)) E &&
  closeM tol9 (pair_grad n (fun i j r => idpp_coef QO (M C i j) r) (M X) (M Rm)) G.

Definition check_ff (n e : nat) (X Cm Km D0 Rm : list (list Qc)) (E : Qc) (G : list (list Qc)) : bool :=
  close tol9 (pair_energy n (fun i j r => ff_term QO e (M Cm i j) (M Km i j) (M D0 i j) r) (M Rm)) E &&
  closeM tol9 (pair_grad n (fun i j r => ff_coef QO e (M Cm i j) (M Km i j) (M D0 i j) r) (M X) (M Rm)) G.
