(* C07/Lemmas.v — jet algebra of the GENERATED hyper-dual operations (gen/C07_Gen.v) over an
   arbitrary field, for every number of variables and every pair of indices; index bookkeeping
   of Primitive.derivative / second_derivative.  No axioms. *)
From Coq Require Import Arith ZArith Lia List Bool Field Ring.
From AV.lib Require Import Sums.
From AV.C07 Require Import Model.
From AV.gen Require Import C07_Gen.
Import ListNotations.

Section Jets.
Variable K : ops.
Hypothesis Kth : field_theory (f0 K) (f1 K) (fadd K) (fmul K) (fsub K) (fopp K) (fdiv K) (finv K)
                              (@eq (car K)).
Add Field KfC07 : Kth.

Declare Scope J_scope.
Delimit Scope J_scope with J.
Local Open Scope J_scope.
Notation "0" := (f0 K) : J_scope.
Notation "1" := (f1 K) : J_scope.
Infix "+" := (fadd K) : J_scope.
Infix "*" := (fmul K) : J_scope.
Infix "-" := (fsub K) : J_scope.
Infix "/" := (fdiv K) : J_scope.
Notation "- x" := (fopp K x) : J_scope.

Ltac unf := cbv beta iota zeta delta [proj hd_add hd_add_scalar hd_neg hd_mul hd_mul_scalar hd_apply hd_sub
  hd_sub_scalar hd_rsub hd_from_variable hd_const hd_coord hd_div hd_div_scalar hd_rdiv hd_pow
  hd2_add hd2_neg hd2_sub hd2_mul hd2_const hd2_nil hd2_taylor hd2_taylor' hd2_inv hd2_div
  hd2_e1 hd2_e2 hd_symmetric
  Sums.vadd Sums.vsub Sums.vneg Sums.vscal Sums.madd Sums.msub Sums.mneg Sums.mscal Sums.outer
  vmulr mmulr]; cbn [v d1 d2 s0 s1 s2 s12].

Lemma hd2_ext (a0 a1 a2 a3 b0 b1 b2 b3 : car K) :
  a0 = b0 -> a1 = b1 -> a2 = b2 -> a3 = b3 -> mkHd2 a0 a1 a2 a3 = mkHd2 b0 b1 b2 b3.
Proof. intros; subst; reflexivity. Qed.

Ltac hd2r := unf; apply hd2_ext; try ring.
(* full evaluation of everything except the field operations (K is a variable) *)
Ltac evc := cbv -[fadd fmul fsub fopp fdiv finv f0 f1 car].

(* ---------- hd2 is the commutative ring F[e1,e2]/(e1^2,e2^2) ---------- *)
Lemma hd2_add_comm a b : hd2_add K a b = hd2_add K b a.
Proof. hd2r. Qed.
Lemma hd2_add_assoc a b c : hd2_add K a (hd2_add K b c) = hd2_add K (hd2_add K a b) c.
Proof. hd2r. Qed.
Lemma hd2_add_0 a : hd2_add K (hd2_const K 0) a = a.
Proof. destruct a. hd2r. Qed.
Lemma hd2_add_neg a : hd2_add K a (hd2_neg K a) = hd2_const K 0.
Proof. hd2r. Qed.
Lemma hd2_mul_comm a b : hd2_mul K a b = hd2_mul K b a.
Proof. hd2r. Qed.
Lemma hd2_mul_assoc a b c : hd2_mul K a (hd2_mul K b c) = hd2_mul K (hd2_mul K a b) c.
Proof. hd2r. Qed.
Lemma hd2_mul_1 a : hd2_mul K (hd2_const K 1) a = a.
Proof. destruct a. hd2r. Qed.
Lemma hd2_distr a b c : hd2_mul K a (hd2_add K b c) = hd2_add K (hd2_mul K a b) (hd2_mul K a c).
Proof. hd2r. Qed.
Lemma hd2_e1_nilpotent : hd2_mul K (hd2_e1 K) (hd2_e1 K) = hd2_const K 0.
Proof. hd2r. Qed.
Lemma hd2_e2_nilpotent : hd2_mul K (hd2_e2 K) (hd2_e2 K) = hd2_const K 0.
Proof. hd2r. Qed.
Lemma hd2_basis a :
  a = hd2_add K (hd2_add K (hd2_add K (hd2_const K (s0 a)) (hd2_mul K (hd2_const K (s1 a)) (hd2_e1 K)))
                          (hd2_mul K (hd2_const K (s2 a)) (hd2_e2 K)))
                (hd2_mul K (hd2_const K (s12 a)) (hd2_mul K (hd2_e1 K) (hd2_e2 K))).
Proof. destruct a. hd2r. Qed.
Lemma hd2_const_add x y : hd2_const K (x + y) = hd2_add K (hd2_const K x) (hd2_const K y).
Proof. hd2r. Qed.
Lemma hd2_const_mul x y : hd2_const K (x * y) = hd2_mul K (hd2_const K x) (hd2_const K y).
Proof. hd2r. Qed.
Lemma hd2_nil_cube a : hd2_mul K (hd2_nil K a) (hd2_mul K (hd2_nil K a) (hd2_nil K a)) = hd2_const K 0.
Proof. hd2r. Qed.

Lemma hd2_inv_correct a : s0 a <> 0 -> hd2_mul K a (hd2_inv K a) = hd2_const K 1.
Proof. intros H. hd2r; field; exact H. Qed.

Lemma hd2_taylor_closed f0' f1' f2' a :
  1 + 1 <> 0 -> hd2_taylor K f0' f1' f2' a = hd2_taylor' K f0' f1' f2' a.
Proof. intros H. hd2r; field; exact H. Qed.

(* ---------- the projection is a homomorphism for the generated operations ---------- *)
Lemma proj_add i j a b : proj K i j (hd_add K a b) = hd2_add K (proj K i j a) (proj K i j b).
Proof. hd2r. Qed.
Lemma proj_add_scalar i j a c :
  proj K i j (hd_add_scalar K a c) = hd2_add K (proj K i j a) (hd2_const K c).
Proof. hd2r. Qed.
Lemma proj_neg i j a : proj K i j (hd_neg K a) = hd2_neg K (proj K i j a).
Proof. hd2r. Qed.
Lemma proj_sub i j a b : proj K i j (hd_sub K a b) = hd2_sub K (proj K i j a) (proj K i j b).
Proof. hd2r. Qed.
Lemma proj_sub_scalar i j a c :
  proj K i j (hd_sub_scalar K a c) = hd2_sub K (proj K i j a) (hd2_const K c).
Proof. hd2r. Qed.
Lemma proj_rsub i j a c :
  proj K i j (hd_rsub K c a) = hd2_sub K (hd2_const K c) (proj K i j a).
Proof. hd2r. Qed.
Lemma proj_mul i j a b : proj K i j (hd_mul K a b) = hd2_mul K (proj K i j a) (proj K i j b).
Proof. hd2r. Qed.
(* the statement the defect repaired by 1ef101b violated: a Python number c acts as the constant c *)
Lemma proj_mul_scalar i j a c :
  proj K i j (hd_mul_scalar K a c) = hd2_mul K (hd2_const K c) (proj K i j a).
Proof. hd2r. Qed.
Lemma proj_apply i j f f' f'' a :
  proj K i j (hd_apply K f f' f'' a) = hd2_taylor' K (f (v a)) (f' (v a)) (f'' (v a)) (proj K i j a).
Proof. hd2r. Qed.
Lemma proj_const i j c : proj K i j (hd_const K c) = hd2_const K c.
Proof. hd2r. Qed.

(* ---------- seeding ---------- *)
Lemma from_variable_is_coord k x : hd_from_variable K k x = hd_coord K k x.
Proof.
  unfold hd_from_variable, hd_coord. f_equal.
  assert (E : of_Z K 1%Z = 1). { cbv [of_Z of_nat Pos.to_nat Pos.iter_op Nat.add]. ring. } rewrite E. reflexivity.
Qed.
Lemma proj_coord i j k x :
  proj K i j (hd_coord K k x) =
  mkHd2 x (if Nat.eqb i k then 1 else 0) (if Nat.eqb j k then 1 else 0) 0.
Proof. reflexivity. Qed.

(* ---------- integer powers and division ---------- *)
Lemma pow_m1 x : x <> 0 ->
  evF K (-1) pow_f x = 1 / x /\
  evF K (-1) pow_f' x = - (1 / (x * x)) /\
  evF K (-1) pow_f'' x = (1 + 1) / (x * x * x).
Proof. intros H. evc. repeat split; field; exact H. Qed.

Lemma proj_pow_m1 i j a : v a <> 0 -> proj K i j (hd_pow K a (-1)) = hd2_inv K (proj K i j a).
Proof.
  intros H. unfold hd_pow. rewrite proj_apply.
  destruct (pow_m1 (v a) H) as [E0 [E1 E2]]. rewrite E0, E1, E2.
  hd2r; field; exact H.
Qed.

Lemma proj_div i j a b : v b <> 0 ->
  proj K i j (hd_div K a b) = hd2_div K (proj K i j a) (proj K i j b).
Proof. intros H. unfold hd_div. rewrite proj_mul, proj_pow_m1 by exact H. reflexivity. Qed.

Lemma proj_rdiv i j c a : v a <> 0 ->
  proj K i j (hd_rdiv K c a) = hd2_div K (hd2_const K c) (proj K i j a).
Proof.
  intros H. unfold hd_rdiv. rewrite proj_mul_scalar, proj_pow_m1 by exact H. reflexivity.
Qed.

Lemma proj_div_scalar i j a c : c <> 0 ->
  proj K i j (hd_div_scalar K a c) = hd2_div K (proj K i j a) (hd2_const K c).
Proof.
  intros H. unfold hd_div_scalar. rewrite proj_mul_scalar.
  assert (E : fpowz K c (-1) = 1 / c) by (evc; field; exact H). rewrite E.
  hd2r; field; exact H.
Qed.

(* a ** 2 is a * a *)
Lemma proj_pow_2 i j a : proj K i j (hd_pow K a 2) = hd2_mul K (proj K i j a) (proj K i j a).
Proof. unfold hd_pow. rewrite proj_apply. evc. apply hd2_ext; ring. Qed.

(* ---------- symmetry of the second-derivative matrix is preserved ---------- *)
Lemma sym_add n a b : hd_symmetric K n a -> hd_symmetric K n b -> hd_symmetric K n (hd_add K a b).
Proof. intros Ha Hb i j Hi Hj. unf. rewrite (Ha i j), (Hb i j) by assumption. reflexivity. Qed.
Lemma sym_add_scalar n a c : hd_symmetric K n a -> hd_symmetric K n (hd_add_scalar K a c).
Proof. intros Ha i j Hi Hj. unf. apply Ha; assumption. Qed.
Lemma sym_neg n a : hd_symmetric K n a -> hd_symmetric K n (hd_neg K a).
Proof. intros Ha i j Hi Hj. unf. rewrite (Ha i j) by assumption. reflexivity. Qed.
Lemma sym_mul n a b : hd_symmetric K n a -> hd_symmetric K n b -> hd_symmetric K n (hd_mul K a b).
Proof. intros Ha Hb i j Hi Hj. unf. rewrite (Ha i j), (Hb i j) by assumption. ring. Qed.
Lemma sym_mul_scalar n a c : hd_symmetric K n a -> hd_symmetric K n (hd_mul_scalar K a c).
Proof. intros Ha i j Hi Hj. unf. rewrite (Ha i j) by assumption. reflexivity. Qed.
Lemma sym_apply n f f' f'' a : hd_symmetric K n a -> hd_symmetric K n (hd_apply K f f' f'' a).
Proof. intros Ha i j Hi Hj. unf. rewrite (Ha i j) by assumption. ring. Qed.
Lemma sym_coord n k x : hd_symmetric K n (hd_from_variable K k x).
Proof. intros i j _ _. reflexivity. Qed.
Lemma sym_const n c : hd_symmetric K n (hd_const K c).
Proof. intros i j _ _. reflexivity. Qed.
Lemma sym_sub n a b : hd_symmetric K n a -> hd_symmetric K n b -> hd_symmetric K n (hd_sub K a b).
Proof. intros Ha Hb. apply sym_add; [exact Ha|apply sym_neg; exact Hb]. Qed.
Lemma sym_pow n a k : hd_symmetric K n a -> hd_symmetric K n (hd_pow K a k).
Proof. intros Ha. apply sym_apply; exact Ha. Qed.
Lemma sym_div n a b : hd_symmetric K n a -> hd_symmetric K n b -> hd_symmetric K n (hd_div K a b).
Proof. intros Ha Hb. apply sym_mul; [exact Ha|apply sym_pow; exact Hb]. Qed.
Lemma sym_rdiv n c a : hd_symmetric K n a -> hd_symmetric K n (hd_rdiv K c a).
Proof. intros Ha. apply sym_mul_scalar, sym_pow; exact Ha. Qed.

(* ---------- index bookkeeping of Primitive.derivative / second_derivative ---------- *)
Lemma index_of_none i l : ~ In i l -> index_of i l = None.
Proof.
  induction l as [|x r IH]; intros H; cbn [index_of]; [reflexivity|].
  destruct (Nat.eqb x i) eqn:E.
  - apply Nat.eqb_eq in E. exfalso. apply H. left. exact E.
  - rewrite IH; [reflexivity|]. intros Hin. apply H. right. exact Hin.
Qed.

Lemma index_of_some i l p : index_of i l = Some p -> nth_error l p = Some i.
Proof.
  revert p. induction l as [|x r IH]; intros p H; cbn [index_of] in H; [discriminate|].
  destruct (Nat.eqb x i) eqn:E.
  - injection H as <-. apply Nat.eqb_eq in E. subst. reflexivity.
  - destruct (index_of i r) as [q|] eqn:Eq; [|discriminate]. injection H as <-. cbn. apply IH. reflexivity.
Qed.

Lemma index_of_nth l p i : NoDup l -> nth_error l p = Some i -> index_of i l = Some p.
Proof.
  revert p. induction l as [|x r IH]; intros p Hnd H; [destruct p; discriminate|].
  inversion Hnd as [|? ? Hx Hr]; subst. destruct p as [|p]; cbn in H.
  - injection H as ->. cbn [index_of]. rewrite Nat.eqb_refl. reflexivity.
  - cbn [index_of]. destruct (Nat.eqb x i) eqn:E.
    + apply Nat.eqb_eq in E. subst. exfalso. apply Hx. eapply nth_error_In. exact H.
    + rewrite (IH p Hr H). reflexivity.
Qed.

Lemma in_cart_idxs i atoms : In i (cart_idxs atoms) -> In (i / 3)%nat atoms.
Proof.
  unfold cart_idxs. rewrite in_flat_map. intros [a [Ha Hi]].
  assert (E : (i / 3 = a)%nat).
  { destruct Hi as [Hi|[Hi|[Hi|[]]]]; subst i; symmetry.
    - apply (Nat.div_unique _ 3 a 0); lia.
    - apply (Nat.div_unique _ 3 a 1); lia.
    - apply (Nat.div_unique _ 3 a 2); lia. }
  rewrite E. exact Ha.
Qed.

Lemma assemble1_untouched atoms r i :
  ~ In (i / 3)%nat atoms -> assemble1 K (cart_idxs atoms) r i = 0.
Proof.
  intros H. unfold assemble1. rewrite index_of_none; [reflexivity|].
  intros Hin. apply H. apply in_cart_idxs. exact Hin.
Qed.

Lemma assemble2_untouched atoms r i j :
  ~ In (i / 3)%nat atoms \/ ~ In (j / 3)%nat atoms -> assemble2 K (cart_idxs atoms) r i j = 0.
Proof.
  intros H. unfold assemble2. destruct H as [H|H].
  - rewrite (index_of_none i); [reflexivity|]. intros Hin. apply H, in_cart_idxs, Hin.
  - rewrite (index_of_none j); [destruct (index_of i _); reflexivity|].
    intros Hin. apply H, in_cart_idxs, Hin.
Qed.

Lemma index_of_lt i l p : index_of i l = Some p -> (p < length l)%nat.
Proof. intros H. apply index_of_some in H. apply nth_error_Some. rewrite H. discriminate. Qed.

Lemma assemble2_symmetric syms r :
  hd_symmetric K (length syms) r -> forall i j, assemble2 K syms r i j = assemble2 K syms r j i.
Proof.
  intros Hs i j. unfold assemble2.
  destruct (index_of i syms) as [p|] eqn:Ep, (index_of j syms) as [q|] eqn:Eq; try reflexivity.
  apply Hs; eapply index_of_lt; eassumption.
Qed.

(* the entry for the k-th component of the atom listed at position p is the hyper-dual's entry 3p+k *)
Lemma cart_idxs_nth atoms p a k :
  nth_error atoms p = Some a -> (k < 3)%nat -> nth_error (cart_idxs atoms) (3 * p + k) = Some (3 * a + k)%nat.
Proof.
  revert p. induction atoms as [|x r IH]; intros p H Hk; [destruct p; discriminate|].
  destruct p as [|p]; cbn in H.
  - injection H as ->. destruct k as [|[|[|k]]]; try lia; cbn [cart_idxs flat_map app Nat.mul Nat.add nth_error]; f_equal; lia.
  - replace (3 * S p + k)%nat with (S (S (S (3 * p + k)))) by lia.
    cbn [cart_idxs flat_map app nth_error]. apply IH; assumption.
Qed.

Lemma cart_idxs_nodup atoms : NoDup atoms -> NoDup (cart_idxs atoms).
Proof.
  induction atoms as [|x r IH]; intros H; [constructor|].
  inversion H as [|? ? Hx Hr]; subst. cbn [cart_idxs flat_map app].
  assert (N : forall y, In y (cart_idxs r) -> (y / 3)%nat <> x).
  { intros y Hy E. apply Hx. rewrite <- E. apply in_cart_idxs. exact Hy. }
  assert (D0 : (3 * x / 3 = x)%nat) by (symmetry; apply (Nat.div_unique _ 3 x 0); lia).
  assert (D1 : ((3 * x + 1) / 3 = x)%nat) by (symmetry; apply (Nat.div_unique _ 3 x 1); lia).
  assert (D2 : ((3 * x + 2) / 3 = x)%nat) by (symmetry; apply (Nat.div_unique _ 3 x 2); lia).
  constructor; [|constructor; [|constructor; [|apply IH; exact Hr]]].
  - intros [E|[E|Hin]]; try lia. exact (N _ Hin D0).
  - intros [E|Hin]; try lia. exact (N _ Hin D1).
  - intros Hin. exact (N _ Hin D2).
Qed.

Lemma assemble1_hits atoms r p a k :
  NoDup atoms -> nth_error atoms p = Some a -> (k < 3)%nat ->
  assemble1 K (cart_idxs atoms) r (3 * a + k) = d1 r (3 * p + k).
Proof.
  intros Hnd Hp Hk. unfold assemble1.
  rewrite (index_of_nth _ (3 * p + k)); [reflexivity|apply cart_idxs_nodup; exact Hnd|].
  apply cart_idxs_nth; assumption.
Qed.

Lemma assemble2_hits atoms r p a k q b l :
  NoDup atoms -> nth_error atoms p = Some a -> (k < 3)%nat -> nth_error atoms q = Some b -> (l < 3)%nat ->
  assemble2 K (cart_idxs atoms) r (3 * a + k) (3 * b + l) = d2 r (3 * p + k) (3 * q + l).
Proof.
  intros Hnd Hp Hk Hq Hl. unfold assemble2.
  rewrite (index_of_nth _ (3 * p + k)), (index_of_nth _ (3 * q + l));
    try reflexivity; try (apply cart_idxs_nodup; exact Hnd); apply cart_idxs_nth; assumption.
Qed.

End Jets.
