(* C07/Model.v — definitions only.
   (1) the data type of vector hyper-dual numbers  hd = (value, gradient, Hessian)  that the
       GENERATED operations of gen/C07_Gen.v (translated from autode/opt/coordinates/_autodiff.py)
       compute with;
   (2) an INDEPENDENT reference: the scalar hyper-dual algebra  F[e1,e2]/(e1^2,e2^2)  (hd2) with its
       ring operations, inverse and second-order Taylor polynomial, and the projection
       proj i j : hd -> hd2;
   (3) the expression language of the (f, f', f'') lambda triples of DifferentiableMath and its
       evaluation over a field (integer powers only; transcendental nodes are evaluated over R in
       Calculus.v);
   (4) index bookkeeping of Primitive.derivative / second_derivative (primitives.py:18-53, 89-155);
   (5) the pair terms and gradient coefficients of the IDPP (neb/idpp.py:39-115) and of the
       bonded + repulsive force field (conformers/cconf_gen.pyx:9-81, ext/src/potentials.cpp
       RBPotential) as functions of the pair distance r. *)
From Coq Require Import Arith ZArith Lia List Bool.
From AV.lib Require Import Sums.
Import ListNotations.

(* ---------- expression language of the lambda triples (no field needed) ---------- *)
Inductive uexpr : Type :=
| UX                      (* the lambda argument x0 (atan2 helpers: x) *)
| UY                      (* second argument of the atan2 helper functions: y *)
| UPower                  (* the free variable `power` of DifferentiableMath.pow *)
| UCst (z : Z)            (* integer-valued literal (1, 2, 1.0, 4 ...) *)
| UAdd (a b : uexpr) | USub (a b : uexpr) | UMul (a b : uexpr) | UDiv (a b : uexpr)
| UNeg (a : uexpr)
| UPow (b e : uexpr)      (* math.pow(b, e) and b ** e *)
| USqrt (a : uexpr) | UExp (a : uexpr) | ULog (a : uexpr) | UAcos (a : uexpr) | UAtan (a : uexpr).

(* guards asserted by the code before apply_operation is called (_autodiff.py:434-437, 506-509,
   524-527) *)
Inductive dom : Type := DomAll | DomPos | DomOpenUnit.

(* value of an exponent expression when it is an integer expression (k = value of `power` when
   it is a Python int, None when it is a float) *)
Fixpoint zexp (k : option Z) (e : uexpr) : option Z :=
  match e with
  | UCst z => Some z
  | UPower => k
  | UAdd a b => match zexp k a, zexp k b with Some x, Some y => Some (x + y)%Z | _, _ => None end
  | USub a b => match zexp k a, zexp k b with Some x, Some y => Some (x - y)%Z | _, _ => None end
  | UNeg a => match zexp k a with Some x => Some (- x)%Z | None => None end
  | _ => None
  end.

(* _get_3d_vecs_from_atom_idxs (primitives.py:39-47): symbols are the flat Cartesian indices
   3*atom+k of the atoms in argument order *)
Definition cart_idxs (atoms : list nat) : list nat :=
  flat_map (fun a => [3 * a; 3 * a + 1; 3 * a + 2]) atoms.

(* tuple.index *)
Fixpoint index_of (i : nat) (l : list nat) : option nat :=
  match l with
  | [] => None
  | x :: r => if Nat.eqb x i then Some 0 else option_map S (index_of i r)
  end.

(* the operations of a field, bundled so that every definition below takes ONE argument K *)
Record ops : Type := mkOps {
  car : Type; f0 : car; f1 : car;
  fadd : car -> car -> car; fmul : car -> car -> car; fsub : car -> car -> car;
  fopp : car -> car; fdiv : car -> car -> car; finv : car -> car }.

Section Model.
Variable K : ops.
Notation F := (car K).

Declare Scope M_scope.
Delimit Scope M_scope with M.
Local Open Scope M_scope.
Notation "0" := (f0 K) : M_scope.
Notation "1" := (f1 K) : M_scope.
Infix "+" := (fadd K) : M_scope.
Infix "*" := (fmul K) : M_scope.
Infix "-" := (fsub K) : M_scope.
Infix "/" := (fdiv K) : M_scope.
Notation "- x" := (fopp K x) : M_scope.

(* ---------- (1) vector hyper-dual numbers ---------- *)
Record hd : Type := mkHd { v : F; d1 : nat -> F; d2 : nat -> nat -> F }.

(* array * scalar (numpy broadcasting with the scalar on the right) *)
Definition vmulr (a : nat -> F) (c : F) : nat -> F := fun i => a i * c.
Definition mmulr (A : nat -> nat -> F) (c : F) : nat -> nat -> F := fun i j => A i j * c.

(* a Python number is a constant function of the variables *)
Definition hd_const (c : F) : hd := mkHd c (fun _ => 0) (fun _ _ => 0).
(* the k-th coordinate function *)
Definition hd_coord (k : nat) (x : F) : hd :=
  mkHd x (fun i => if Nat.eqb i k then 1 else 0) (fun _ _ => 0).

Definition hd_symmetric (n : nat) (a : hd) : Prop :=
  forall i j, (i < n)%nat -> (j < n)%nat -> d2 a i j = d2 a j i.

(* ---------- (2) the scalar hyper-dual algebra F[e1,e2]/(e1^2, e2^2), independently ---------- *)
(* s0 + s1 e1 + s2 e2 + s12 e1 e2 *)
Record hd2 : Type := mkHd2 { s0 : F; s1 : F; s2 : F; s12 : F }.

Definition hd2_const (c : F) : hd2 := mkHd2 c 0 0 0.
Definition hd2_e1 : hd2 := mkHd2 0 1 0 0.
Definition hd2_e2 : hd2 := mkHd2 0 0 1 0.
Definition hd2_add (a b : hd2) : hd2 :=
  mkHd2 (s0 a + s0 b) (s1 a + s1 b) (s2 a + s2 b) (s12 a + s12 b).
Definition hd2_neg (a : hd2) : hd2 := mkHd2 (- s0 a) (- s1 a) (- s2 a) (- s12 a).
Definition hd2_sub (a b : hd2) : hd2 := hd2_add a (hd2_neg b).
(* (a0 + a1 e1 + a2 e2 + a12 e1e2)(b0 + ...) with e1^2 = e2^2 = 0 *)
Definition hd2_mul (a b : hd2) : hd2 :=
  mkHd2 (s0 a * s0 b)
        (s0 a * s1 b + s1 a * s0 b)
        (s0 a * s2 b + s2 a * s0 b)
        (s0 a * s12 b + s1 a * s2 b + s2 a * s1 b + s12 a * s0 b).
(* nilpotent part *)
Definition hd2_nil (a : hd2) : hd2 := mkHd2 0 (s1 a) (s2 a) (s12 a).
(* multiplicative inverse: 1/a0 - n/a0^2 + n^2/a0^3 *)
Definition hd2_inv (a : hd2) : hd2 :=
  let i0 := 1 / s0 a in
  mkHd2 i0 (- (s1 a * i0 * i0)) (- (s2 a * i0 * i0))
        (- (s12 a * i0 * i0) + (1 + 1) * s1 a * s2 a * i0 * i0 * i0).
Definition hd2_div (a b : hd2) : hd2 := hd2_mul a (hd2_inv b).
(* second-order Taylor polynomial  f0 + f1 n + (f2/2) n^2  of a scalar function with value f0,
   first derivative f1 and second derivative f2 at s0 a, evaluated in the algebra *)
Definition hd2_taylor (f0 f1 f2 : F) (a : hd2) : hd2 :=
  let n := hd2_nil a in
  hd2_add (hd2_add (hd2_const f0) (hd2_mul (hd2_const f1) n))
          (hd2_mul (hd2_const (f2 / (1 + 1))) (hd2_mul n n)).
(* the same polynomial with the division by two carried out (valid in every characteristic) *)
Definition hd2_taylor' (f0 f1 f2 : F) (a : hd2) : hd2 :=
  mkHd2 f0 (f1 * s1 a) (f1 * s2 a) (f1 * s12 a + f2 * (s1 a * s2 a)).

Definition proj (i j : nat) (a : hd) : hd2 := mkHd2 (v a) (d1 a i) (d1 a j) (d2 a i j).

(* ---------- (3) evaluation of lambda expressions over a field (integer powers) ---------- *)
Fixpoint of_nat (n : nat) : F := match n with O => 0 | S k => of_nat k + 1 end.
Definition of_Z (z : Z) : F :=
  match z with Z0 => 0 | Zpos p => of_nat (Pos.to_nat p) | Zneg p => - of_nat (Pos.to_nat p) end.
Fixpoint fpow (x : F) (n : nat) : F := match n with O => 1 | S k => x * fpow x k end.
(* math.pow(x, k) for an integer k *)
Definition fpowz (x : F) (k : Z) : F :=
  match k with Z0 => 1 | Zpos p => fpow x (Pos.to_nat p) | Zneg p => 1 / fpow x (Pos.to_nat p) end.

(* k : the integer value of `power`.  Nodes that have no meaning over a bare field (sqrt, exp, log,
   acos, atan, non-integer exponents, the second variable) evaluate to 0: they are never used over a
   field (hd_pow only uses the pow triple); their real semantics is Calculus.evR. *)
Fixpoint evF (k : Z) (e : uexpr) (x : F) : F :=
  match e with
  | UX => x
  | UPower => of_Z k
  | UCst z => of_Z z
  | UAdd a b => evF k a x + evF k b x
  | USub a b => evF k a x - evF k b x
  | UMul a b => evF k a x * evF k b x
  | UDiv a b => evF k a x / evF k b x
  | UNeg a => - evF k a x
  | UPow b e' => match zexp (Some k) e' with Some m => fpowz (evF k b x) m | None => 0 end
  | _ => 0
  end.

(* ---------- (4) Primitive.derivative / second_derivative (primitives.py:112-155) ---------- *)
(* res.differentiate_wrt(str(i)) is None when str(i) is not a symbol (_autodiff.py:234-235);
   the output array is initialised with zeros (primitives.py:114, 148) *)
Definition assemble1 (syms : list nat) (r : hd) : nat -> F :=
  fun i => match index_of i syms with Some p => d1 r p | None => 0 end.
Definition assemble2 (syms : list nat) (r : hd) : nat -> nat -> F :=
  fun i j => match index_of i syms, index_of j syms with
             | Some p, Some q => d2 r p q
             | _, _ => 0
             end.

(* ---------- (5) pair potentials as functions of the pair distance ---------- *)
(* idpp.py:60  w (r_k - r)^2 with w = r^-4 (idpp.py:169); one unordered pair contributes once
   (0.5 * sum over ordered pairs) *)
Definition idpp_term (c r : F) : F := (c - r) * (c - r) / fpow r 4.
(* idpp.py:92  a = -2 (2 (r_k - r)^2 r^-6 + w (r_k - r) r^-1);  grad_i += a_ij (x_i - x_j) *)
Definition idpp_coef (c r : F) : F :=
  - ((1 + 1) * ((1 + 1) * ((c - r) * (c - r)) / fpow r 6 + (1 / fpow r 4) * (c - r) / r)).

(* cconf_gen.pyx:32-38 / potentials.cpp:251-276 (RBPotential::set_energy): c / d^e + k (d - d0)^2 (k = 0: not bonded) *)
Definition ff_term (e : nat) (c k d0 d : F) : F := c / fpow d e + k * ((d - d0) * (d - d0)).
(* cconf_gen.pyx:64-79 (and the final sign flip, line 81):
     dV/dx_i = [ -e c / d^(e+2) + 2 k (1 - d0/d) ] (x_i - x_j)
   potentials.cpp:299-330 (RBPotential::set_energy_and_grad) has the same two factors; it is tied to this
   definition only by the harness stream cpp-rb (mirror + trajectory), not by a translator. *)
Definition ff_coef (e : nat) (c k d0 d : F) : F :=
  - (of_nat e * c / fpow d (e + 2)) + (1 + 1) * k * (1 - d0 / d).

End Model.

Arguments mkHd {K}.
Arguments v {K}.
Arguments d1 {K}.
Arguments d2 {K}.
Arguments mkHd2 {K}.
Arguments s0 {K}.
Arguments s1 {K}.
Arguments s2 {K}.
Arguments s12 {K}.
