(* C07/Props.v — the property theorems.  hd_add, hd_neg, hd_mul, hd_mul_scalar, hd_apply, hd_pow,
   hd_div, hd_from_variable, the lambda triples *_f / *_f' / *_f'' with their guards *_dom and the two
   atan2 branch formulas are GENERATED from autode/opt/coordinates/_autodiff.py on every run
   (gen/C07_Gen.v); hd2 / proj / hd2_taylor / assemble / idpp_* / ff_* are the hand-written reference
   definitions of Model.v. *)
From Coq Require Import Reals ZArith List Lia Lra Field RealField.
From Coquelicot Require Import Coquelicot.
From AV.lib Require Import Sums.
From AV.C07 Require Import Model Lemmas Calculus.
From AV.gen Require Import C07_Gen.
Import ListNotations.

Section JetAlgebra.
Variable K : ops.
Hypothesis Kth : field_theory (f0 K) (f1 K) (fadd K) (fmul K) (fsub K) (fopp K) (fdiv K) (finv K)
                              (@eq (car K)).

(* The reference algebra really is F[e1,e2]/(e1^2,e2^2): a commutative ring with unit, spanned by
   1, e1, e2, e1e2 over the constants, with e1^2 = e2^2 = 0 (so it is the algebra in which
   f(a + e1 + e2) = f(a) + f'(a)(e1+e2) + f''(a) e1e2 reads off first and second derivatives). *)
Theorem reference_algebra_is_truncated_polynomial_ring :
  (forall a b, hd2_add K a b = hd2_add K b a) /\
  (forall a b c, hd2_add K a (hd2_add K b c) = hd2_add K (hd2_add K a b) c) /\
  (forall a, hd2_add K (hd2_const K (f0 K)) a = a) /\
  (forall a, hd2_add K a (hd2_neg K a) = hd2_const K (f0 K)) /\
  (forall a b, hd2_mul K a b = hd2_mul K b a) /\
  (forall a b c, hd2_mul K a (hd2_mul K b c) = hd2_mul K (hd2_mul K a b) c) /\
  (forall a, hd2_mul K (hd2_const K (f1 K)) a = a) /\
  (forall a b c, hd2_mul K a (hd2_add K b c) = hd2_add K (hd2_mul K a b) (hd2_mul K a c)) /\
  hd2_mul K (hd2_e1 K) (hd2_e1 K) = hd2_const K (f0 K) /\
  hd2_mul K (hd2_e2 K) (hd2_e2 K) = hd2_const K (f0 K) /\
  (forall a, a = hd2_add K (hd2_add K (hd2_add K (hd2_const K (s0 a))
                 (hd2_mul K (hd2_const K (s1 a)) (hd2_e1 K)))
                 (hd2_mul K (hd2_const K (s2 a)) (hd2_e2 K)))
                 (hd2_mul K (hd2_const K (s12 a)) (hd2_mul K (hd2_e1 K) (hd2_e2 K)))) /\
  (forall a, s0 a <> f0 K -> hd2_mul K a (hd2_inv K a) = hd2_const K (f1 K)).
Proof.
  split; [apply hd2_add_comm; exact Kth|]. split; [apply hd2_add_assoc; exact Kth|]. 
  split; [apply hd2_add_0; exact Kth|]. split; [apply hd2_add_neg; exact Kth|]. 
  split; [apply hd2_mul_comm; exact Kth|]. split; [apply hd2_mul_assoc; exact Kth|]. 
  split; [apply hd2_mul_1; exact Kth|]. split; [apply hd2_distr; exact Kth|]. 
  split; [apply hd2_e1_nilpotent; exact Kth|]. split; [apply hd2_e2_nilpotent; exact Kth|]. 
  split; [apply hd2_basis; exact Kth|]. apply hd2_inv_correct; exact Kth.
Qed.

(* Jet algebra.  For EVERY number of variables and EVERY pair of variable indices i j, reading off
   (value, d/dx_i, d/dx_j, d2/dx_i dx_j) commutes with the translated +, unary -, -, x (product
   rule) and with Python-number operands acting as constants.  The `hd_mul_scalar` line is the
   statement the defect repaired by /repo commit 1ef101b violated. *)
Theorem jet_homomorphism :
  forall (i j : nat) (a b : hd K) (c : car K),
    proj K i j (hd_add K a b) = hd2_add K (proj K i j a) (proj K i j b) /\
    proj K i j (hd_neg K a) = hd2_neg K (proj K i j a) /\
    proj K i j (hd_sub K a b) = hd2_sub K (proj K i j a) (proj K i j b) /\
    proj K i j (hd_mul K a b) = hd2_mul K (proj K i j a) (proj K i j b) /\
    proj K i j (hd_mul_scalar K a c) = hd2_mul K (hd2_const K c) (proj K i j a) /\
    proj K i j (hd_add_scalar K a c) = hd2_add K (proj K i j a) (hd2_const K c) /\
    proj K i j (hd_sub_scalar K a c) = hd2_sub K (proj K i j a) (hd2_const K c) /\
    proj K i j (hd_rsub K c a) = hd2_sub K (hd2_const K c) (proj K i j a).
Proof.
  intros i j a b c.
  split; [apply proj_add; exact Kth|]. split; [apply proj_neg; exact Kth|]. 
  split; [apply proj_sub; exact Kth|]. split; [apply proj_mul; exact Kth|]. 
  split; [apply proj_mul_scalar; exact Kth|]. split; [apply proj_add_scalar; exact Kth|]. 
  split; [apply proj_sub_scalar; exact Kth|]. apply proj_rsub; exact Kth.
Qed.

(* Division (every spelling: hd/hd, hd/number, number/hd) is multiplication by the inverse in the
   algebra, away from a zero denominator; a ** -1 is the inverse and a ** 2 is a x a. *)
Theorem jet_division_and_powers :
  forall (i j : nat) (a b : hd K) (c : car K),
    (v b <> f0 K -> proj K i j (hd_div K a b) = hd2_div K (proj K i j a) (proj K i j b)) /\
    (v a <> f0 K -> proj K i j (hd_rdiv K c a) = hd2_div K (hd2_const K c) (proj K i j a)) /\
    (c <> f0 K -> proj K i j (hd_div_scalar K a c) = hd2_div K (proj K i j a) (hd2_const K c)) /\
    (v a <> f0 K -> proj K i j (hd_pow K a (-1)) = hd2_inv K (proj K i j a)) /\
    proj K i j (hd_pow K a 2) = hd2_mul K (proj K i j a) (proj K i j a).
Proof.
  intros i j a b c.
  split; [apply proj_div; exact Kth|]. split; [apply proj_rdiv; exact Kth|]. 
  split; [apply proj_div_scalar; exact Kth|]. split; [apply proj_pow_m1; exact Kth|]. 
  apply proj_pow_2; exact Kth.
Qed.

(* apply_operation(num, f, f', f'') is the second-order Taylor polynomial
   f(v) + f'(v) n + (f''(v)/2) n^2 of the nilpotent part n, evaluated in the algebra. *)
Theorem apply_is_taylor :
  forall (i j : nat) (f f' f'' : car K -> car K) (a : hd K),
    proj K i j (hd_apply K f f' f'' a) =
      hd2_taylor' K (f (v a)) (f' (v a)) (f'' (v a)) (proj K i j a) /\
    (fadd K (f1 K) (f1 K) <> f0 K ->
     proj K i j (hd_apply K f f' f'' a) =
       hd2_taylor K (f (v a)) (f' (v a)) (f'' (v a)) (proj K i j a)).
Proof.
  intros i j f f' f'' a. split.
  - apply proj_apply; exact Kth.
  - intros H. rewrite (hd2_taylor_closed K Kth) by exact H. apply proj_apply; exact Kth.
Qed.

(* Symmetry of the second-derivative matrix is preserved by every operation, for every n. *)
Theorem d2_symmetry_preserved :
  forall (n : nat) (a b : hd K) (c : car K) (k : Z) (f f' f'' : car K -> car K) (idx : nat) (x : car K),
    hd_symmetric K n (hd_from_variable K idx x) /\
    hd_symmetric K n (hd_const K c) /\
    (hd_symmetric K n a -> hd_symmetric K n b ->
       hd_symmetric K n (hd_add K a b) /\ hd_symmetric K n (hd_sub K a b) /\
       hd_symmetric K n (hd_mul K a b) /\ hd_symmetric K n (hd_div K a b)) /\
    (hd_symmetric K n a ->
       hd_symmetric K n (hd_neg K a) /\ hd_symmetric K n (hd_mul_scalar K a c) /\
       hd_symmetric K n (hd_add_scalar K a c) /\ hd_symmetric K n (hd_rdiv K c a) /\
       hd_symmetric K n (hd_pow K a k) /\ hd_symmetric K n (hd_apply K f f' f'' a)).
Proof.
  intros n a b c k f f' f'' idx x. split; [apply sym_coord|]. split; [apply sym_const|]. split.
  - intros Ha Hb. split; [apply sym_add; assumption|]. split; [apply sym_sub; assumption|].
    split; [apply sym_mul; assumption|apply sym_div; assumption].
  - intros Ha. split; [apply sym_neg; assumption|]. split; [apply sym_mul_scalar; assumption|].
    split; [apply sym_add_scalar; assumption|]. split; [apply sym_rdiv; assumption|].
    split; [apply sym_pow; assumption|apply sym_apply; assumption].
Qed.

(* Variables are seeded as coordinate functions: value x, gradient the k-th unit vector, zero
   Hessian. *)
Theorem variables_seed :
  forall (i j k : nat) (x : car K),
    proj K i j (hd_from_variable K k x) =
    mkHd2 x (if Nat.eqb i k then f1 K else f0 K) (if Nat.eqb j k then f1 K else f0 K) (f0 K).
Proof.
  intros i j k x. rewrite (from_variable_is_coord K Kth). apply proj_coord.
Qed.

(* Primitive.derivative / second_derivative (any number of atoms in the molecule, any atom list of
   the primitive without repeats): entries of Cartesian components whose atom is not among the
   primitive's atoms are exactly zero; the entry of component k of the atom listed at position p is
   the hyper-dual's entry 3p+k; a symmetric hyper-dual Hessian gives a symmetric matrix. *)
Theorem untouched_atoms_zero :
  forall (atoms : list nat) (r : hd K),
    (forall i, ~ In (i / 3)%nat atoms -> assemble1 K (cart_idxs atoms) r i = f0 K) /\
    (forall i j, ~ In (i / 3)%nat atoms \/ ~ In (j / 3)%nat atoms ->
                 assemble2 K (cart_idxs atoms) r i j = f0 K) /\
    (NoDup atoms ->
       forall p a k q b l, nth_error atoms p = Some a -> (k < 3)%nat ->
                           nth_error atoms q = Some b -> (l < 3)%nat ->
         assemble1 K (cart_idxs atoms) r (3 * a + k) = d1 r (3 * p + k) /\
         assemble2 K (cart_idxs atoms) r (3 * a + k) (3 * b + l) = d2 r (3 * p + k) (3 * q + l)) /\
    (hd_symmetric K (length (cart_idxs atoms)) r ->
       forall i j, assemble2 K (cart_idxs atoms) r i j = assemble2 K (cart_idxs atoms) r j i).
Proof.
  intros atoms r. split; [|split; [|split]].
  - intros i H. apply assemble1_untouched; assumption.
  - intros i j H. apply assemble2_untouched; assumption.
  - intros Hnd p a k q b l Hp Hk Hq Hl. split.
    + apply assemble1_hits; assumption.
    + apply assemble2_hits; assumption.
  - intros Hs. apply assemble2_symmetric. exact Hs.
Qed.

End JetAlgebra.

(* ------------------------------------------------------------------------------------------- *)
Open Scope R_scope.

(* Calculus: for each translated triple (f, f', f'') - sqrt, exp, log, acos, atan - on the domain the
   code asserts before calling apply_operation, f' is the derivative of f and f'' the derivative
   of f'. *)
Definition triple_ok (d : dom) (f f' f'' : uexpr) : Prop :=
  forall x, dom_holds d x ->
    is_derive (fun t => evR None 0 f t 0) x (evR None 0 f' x 0) /\
    is_derive (fun t => evR None 0 f' t 0) x (evR None 0 f'' x 0).

Theorem elementary_triples_correct :
  triple_ok sqrt_dom sqrt_f sqrt_f' sqrt_f'' /\
  triple_ok exp_dom exp_f exp_f' exp_f'' /\
  triple_ok log_dom log_f log_f' log_f'' /\
  triple_ok acos_dom acos_f acos_f' acos_f'' /\
  triple_ok atan_dom atan_f atan_f' atan_f''.
Proof.
  split; [exact sqrt_triple|]. split; [exact exp_triple|]. split; [exact log_triple|].
  split; [exact acos_triple|exact atan_triple].
Qed.

(* pow: a real (Python float) exponent p on x > 0; an integer exponent k on x <> 0; and an integer
   exponent k >= 2 (the squares inside norm() and dot()) on every x, zero included. *)
Theorem pow_triple_correct :
  (forall p x, 0 < x ->
     is_derive (fun t => evR None p pow_f t 0) x (evR None p pow_f' x 0) /\
     is_derive (fun t => evR None p pow_f' t 0) x (evR None p pow_f'' x 0)) /\
  (forall k x, x <> 0 ->
     is_derive (fun t => evR (Some k) (IZR k) pow_f t 0) x (evR (Some k) (IZR k) pow_f' x 0) /\
     is_derive (fun t => evR (Some k) (IZR k) pow_f' t 0) x (evR (Some k) (IZR k) pow_f'' x 0)) /\
  (forall (k : nat) x, (2 <= k)%nat ->
     is_derive (fun t => evR (Some (Z.of_nat k)) (IZR (Z.of_nat k)) pow_f t 0) x
               (evR (Some (Z.of_nat k)) (IZR (Z.of_nat k)) pow_f' x 0) /\
     is_derive (fun t => evR (Some (Z.of_nat k)) (IZR (Z.of_nat k)) pow_f' t 0) x
               (evR (Some (Z.of_nat k)) (IZR (Z.of_nat k)) pow_f'' x 0)).
Proof.
  split; [exact pow_triple_real|]. split; [exact pow_triple_int|].
  intros k x Hk. exact (pow_triple_nat k x Hk).
Qed.

(* hyper-dual ** integer over the reals: the field evaluation of the translated pow triple that hd_pow
   uses is the real semantics the previous theorem is about, so a ** k is the Taylor polynomial
   with coefficients x^k, k x^(k-1), k (k-1) x^(k-2) (integer powers as powerRZ). *)
Theorem pow_jet_over_reals :
  forall (i j : nat) (a : hd RO) (k : Z),
    proj RO i j (hd_pow RO a k) =
    hd2_taylor' RO (powerRZ (v a) k) (IZR k * powerRZ (v a) (k - 1))
                   (IZR k * (IZR k - 1) * powerRZ (v a) (k - 2)) (proj RO i j a) /\
    powerRZ (v a) k = evR (Some k) (IZR k) pow_f (v a) 0 /\
    IZR k * powerRZ (v a) (k - 1) = evR (Some k) (IZR k) pow_f' (v a) 0 /\
    IZR k * (IZR k - 1) * powerRZ (v a) (k - 2) = evR (Some k) (IZR k) pow_f'' (v a) 0.
Proof.
  intros i j a k. destruct (evF_evR_pow k (v a)) as [E0 [E1 E2]].
  split; [|split; [reflexivity|split; reflexivity]].
  unfold hd_pow. rewrite (proj_apply RO Rfield). rewrite E0, E1, E2. reflexivity.
Qed.

(* SOUNDNESS STEP (what links the jet algebra to derivatives).  Let A(s,t), B(s,t) be families of hyper-dual numbers
   over R - e.g. the hyper-dual evaluation of two sub-expressions at the point x + s e_i + t e_j.  `computes D i j A`
   says: on D, A's entry d1 i is the s-derivative of A's value, d1 j its t-derivative, and d2 i j the t-derivative of
   d1 i (i.e. the entries ARE the first and second partial derivatives of the value function along e_i, e_j).  Then
   seeded variables and constants compute, and every TRANSLATED operation maps families that compute to a family that
   computes (whose value function is the operation applied to the value functions): +, -, unary -, x, number x, number +,
   ** integer and both divisions away from a zero denominator, apply_operation with any triple that is correct on the
   range, hence every DifferentiableMath function with its translated triple on its asserted domain.  By induction over
   any expression built from these operations its derivative and second_derivative entries are the partial derivatives
   of its value; the induction over a concrete expression is the repeated application of this theorem (no expression
   datatype is mechanised, and no primitive's _evaluate tree is modelled). *)
Theorem hyperdual_operations_compute_derivatives :
  forall (D : R -> R -> Prop) (i j : nat),
    (forall k x, computes D i j (fun s t => hd_from_variable RO k
        (x + s * (if Nat.eqb i k then 1 else 0) + t * (if Nat.eqb j k then 1 else 0)))) /\
    (forall c, computes D i j (fun _ _ => hd_const RO c)) /\
    (forall A B : R -> R -> hd RO, computes D i j A -> computes D i j B ->
       computes D i j (fun s t => hd_add RO (A s t) (B s t)) /\
       computes D i j (fun s t => hd_sub RO (A s t) (B s t)) /\
       computes D i j (fun s t => hd_mul RO (A s t) (B s t)) /\
       ((forall s t, D s t -> v (B s t) <> 0) -> computes D i j (fun s t => hd_div RO (A s t) (B s t)))) /\
    (forall (A : R -> R -> hd RO) (c : R), computes D i j A ->
       computes D i j (fun s t => hd_neg RO (A s t)) /\
       computes D i j (fun s t => hd_mul_scalar RO (A s t) c) /\
       computes D i j (fun s t => hd_add_scalar RO (A s t) c) /\
       ((forall s t, D s t -> v (A s t) <> 0) ->
          (forall k, computes D i j (fun s t => hd_pow RO (A s t) k)) /\
          computes D i j (fun s t => hd_rdiv RO c (A s t)))) /\
    (forall (A : R -> R -> hd RO) (P : R -> Prop) (f f1 f2 : R -> R),
       (forall y, P y -> is_derive f y (f1 y)) -> (forall y, P y -> is_derive f1 y (f2 y)) ->
       (forall s t, D s t -> P (v (A s t))) -> computes D i j A ->
       computes D i j (fun s t => hd_apply RO f f1 f2 (A s t))) /\
    (forall (A : R -> R -> hd RO) d f f1 f2, triple_ok d f f1 f2 ->
       (forall s t, D s t -> dom_holds d (v (A s t))) -> computes D i j A ->
       computes D i j (fun s t => hd_apply RO (fun y => evR None 0 f y 0) (fun y => evR None 0 f1 y 0)
                                             (fun y => evR None 0 f2 y 0) (A s t))).
Proof.
  intros D i j.
  split; [intros k x; apply cmp_var|]. split; [intros c; apply cmp_const|].
  split.
  { intros A B Ha Hb. split; [apply cmp_add; assumption|]. split; [apply cmp_sub; assumption|].
    split; [apply cmp_mul; assumption|]. intros Hn. apply cmp_div; assumption. }
  split.
  { intros A c Ha. split; [apply cmp_neg; assumption|]. split; [apply cmp_mul_scalar; assumption|].
    split; [apply cmp_add_scalar; assumption|]. intros Hn.
    split; [intros k; apply cmp_pow; assumption|apply cmp_rdiv; assumption]. }
  split.
  { intros A P f f1 f2 H1 H2 HP Ha. apply (cmp_apply D i j P); assumption. }
  intros A d f f1 f2 T Hd Ha. apply (cmp_math D i j d); assumption.
Qed.

(* atan2.  (1) Both formulas the code differentiates (atan(y/x); -atan(x/y) when |atan2| is within 0.1 of pi/2) have the
   first partials x/(x^2+y^2), -y/(x^2+y^2) of the polar angle on their half-planes; (2) the four second partials of
   those closed forms (so both branches have the same Hessian of the polar angle); (3) applied to hyper-dual arguments
   Y, X that compute, each branch - atan(Y/X) resp. -atan(X/Y), as the code builds them from /, atan and unary minus -
   computes first and second partial derivatives, away from X = 0 resp. Y = 0.
   PARTIAL: atan2 is not defined in the Coq standard library; that the value the code stores (math.atan2(y, x)) differs
   from the differentiated branch formula by a locally constant multiple of pi/2, and that the branch the code selects is
   defined (|atan2| near pi/2 implies y <> 0, otherwise x <> 0), is NOT mechanised (finite-difference streams
   atan2-band / trees-fd / dihedral primitives cover it). *)
Theorem atan2_branch_derivatives_partial : forall x y,
  (x <> 0 ->
     is_derive (fun t => evR None 0 atan2_branch_x_not_0 x t) y (x / (x ^ 2 + y ^ 2)) /\
     is_derive (fun t => evR None 0 atan2_branch_x_not_0 t y) x (- y / (x ^ 2 + y ^ 2))) /\
  (y <> 0 ->
     is_derive (fun t => evR None 0 atan2_branch_x_close_0 x t) y (x / (x ^ 2 + y ^ 2)) /\
     is_derive (fun t => evR None 0 atan2_branch_x_close_0 t y) x (- y / (x ^ 2 + y ^ 2))) /\
  (x ^ 2 + y ^ 2 <> 0 ->
     is_derive (fun t => x / (x ^ 2 + t ^ 2)) y (- (2 * x * y) / (x ^ 2 + y ^ 2) ^ 2) /\
     is_derive (fun t => t / (t ^ 2 + y ^ 2)) x ((y ^ 2 - x ^ 2) / (x ^ 2 + y ^ 2) ^ 2) /\
     is_derive (fun t => - t / (x ^ 2 + t ^ 2)) y ((y ^ 2 - x ^ 2) / (x ^ 2 + y ^ 2) ^ 2) /\
     is_derive (fun t => - y / (t ^ 2 + y ^ 2)) x ((2 * x * y) / (x ^ 2 + y ^ 2) ^ 2)) /\
  (forall (D : R -> R -> Prop) (i j : nat) (Y X : R -> R -> hd RO), computes D i j Y -> computes D i j X ->
     let at3 := fun A => hd_apply RO (fun u => evR None 0 atan_f u 0) (fun u => evR None 0 atan_f' u 0)
                                      (fun u => evR None 0 atan_f'' u 0) A in
     ((forall s t, D s t -> v (X s t) <> 0) -> computes D i j (fun s t => at3 (hd_div RO (Y s t) (X s t)))) /\
     ((forall s t, D s t -> v (Y s t) <> 0) -> computes D i j (fun s t => hd_neg RO (at3 (hd_div RO (X s t) (Y s t)))))).
Proof.
  intros x y. destruct (atan2_branches x y) as [B1 B2].
  split; [exact B1|]. split; [exact B2|]. split; [exact (polar_second_partials x y)|].
  intros D i j Y X Hy Hx at3. split; intros Hn.
  - apply (cmp_math D i j atan_dom atan_f atan_f' atan_f''); [exact atan_triple|intros; exact I|].
    apply cmp_div; assumption.
  - apply cmp_neg. apply (cmp_math D i j atan_dom atan_f atan_f' atan_f''); [exact atan_triple|intros; exact I|].
    apply cmp_div; assumption.
Qed.

(* IDPP.  One pair: the factor multiplying (x_i - x_j) in IDPP.grad is term'(r)/r for the term
   w(r)(c - r)^2.  Any number N of atoms: the array IDPP.grad assembles is the derivative of the
   objective IDPP.__call__ returns with respect to Cartesian component k of atom a (all atoms at
   non-zero distance from a; symmetric target-distance matrix). *)
Theorem idpp_grad_is_derivative_of_energy :
  (forall c r, r <> 0 -> is_derive (fun t => idpp_term RO c t) r (idpp_coef RO c r * r)) /\
  (forall (N : nat) (C : nat -> nat -> R), (forall i j, C i j = C j i) ->
   forall (X : nat -> nat -> R) (a k : nat), (a < N)%nat -> (k < 3)%nat ->
   (forall j, (j < N)%nat -> j <> a -> 0 < dist X a j) ->
   is_derive (fun x => idpp_energy N C (upd X a k x)) (X a k) (idpp_grad N C X a k)).
Proof.
  split; [exact idpp_radial|]. intros N C HC X a k. apply idpp_grad_is_derivative. exact HC.
Qed.

(* Bonded + repulsive force field (cconf_gen v/dvdr; RBPotential energy/gradient): the same two
   statements for c/r^e + k (r - d0)^2, any N, any repulsion exponent e, symmetric parameter
   matrices. *)
Theorem ff_grad_is_derivative_of_energy :
  (forall e c k d0 d, d <> 0 -> is_derive (fun t => ff_term RO e c k d0 t) d (ff_coef RO e c k d0 d * d)) /\
  (forall (N e : nat) (Cm Km D0 : nat -> nat -> R),
   (forall i j, Cm i j = Cm j i) -> (forall i j, Km i j = Km j i) -> (forall i j, D0 i j = D0 j i) ->
   forall (X : nat -> nat -> R) (a k : nat), (a < N)%nat -> (k < 3)%nat ->
   (forall j, (j < N)%nat -> j <> a -> 0 < dist X a j) ->
   is_derive (fun x => ff_energy N e Cm Km D0 (upd X a k x)) (X a k) (ff_grad N e Cm Km D0 X a k)).
Proof.
  split; [exact ff_radial|]. intros N e Cm Km D0 H1 H2 H3 X a k. apply ff_grad_is_derivative; assumption.
Qed.

(* Pair energies are invariant under rigid motion X -> Q X + t with Q^T Q = 1 (proper or not). *)
Theorem pair_energy_rigid_invariant :
  forall N term Q t X, orthogonal3 Q -> energy N term (rigid Q t X) = energy N term X.
Proof. exact energy_rigid_invariant. Qed.

(* ---- non-vacuity ---- *)
Example domains_inhabited :
  dom_holds sqrt_dom 2 /\ dom_holds log_dom 2 /\ dom_holds acos_dom (1 / 2) /\
  dom_holds exp_dom 0 /\ dom_holds atan_dom 0.
Proof.
  unfold sqrt_dom, log_dom, acos_dom, exp_dom, atan_dom. cbn [dom_holds].
  repeat split; try exact I; lra.
Qed.

Example orthogonal3_inhabited : orthogonal3 (fun i j => if Nat.eqb i j then 1 else 0).
Proof.
  intros m n Hm Hn. destruct m as [|[|[|m]]]; destruct n as [|[|[|n]]]; try lia; cbn [Nat.eqb]; ring.
Qed.

Example distances_positive_inhabited :
  let X := fun (i c : nat) => if Nat.eqb c 0 then INR i else 0 in
  forall j, (j < 3)%nat -> j <> 0%nat -> 0 < dist X 0 j.
Proof.
  intros X j Hj Hn. unfold dist, sqd, X. cbn [Nat.eqb]. apply sqrt_lt_R0.
  assert (1 <= INR j) by (replace 1 with (INR 1) by reflexivity; apply le_INR; lia).
  cbn [INR]. nra.
Qed.
