(* C07/Calculus.v — real analysis (Coquelicot) for C07.
   (1) real semantics evR of the GENERATED lambda expression trees (gen/C07_Gen.v) and, for every
       (f, f', f'') triple of DifferentiableMath, the proof that f' is the derivative of f and f''
       the derivative of f' on the domain the code asserts;  both branch formulas of atan2;
   (2) the IDPP and bonded+repulsive pair terms (Model.idpp_term/ff_term at R): the coefficient the
       code multiplies (x_i - x_j) with is term'(r)/r, and — by linearity of finite sums and the chain
       rule through the Euclidean distance — the assembled gradient is the derivative of the sum over
       all pairs with respect to any Cartesian component of any atom, for every number of atoms;
       invariance of the pair energies under rigid motion.
   Uses the standard library's real-number axioms (reported by Print Assumptions). *)
From Coq Require Import Reals Lra Lia ZArith Bool RealField.
From Coquelicot Require Import Coquelicot.
From AV.lib Require Import Sums.
From AV.C07 Require Import Model.
From AV.gen Require Import C07_Gen.
From AV.C07 Require Import Lemmas.
Open Scope R_scope.

Definition RO : ops := mkOps R 0 1 Rplus Rmult Rminus Ropp Rdiv Rinv.

(* equalities produced by auto_derive live in R_AbsRing / R_NormedModule: present them at R *)
Ltac eqR := match goal with |- @eq _ ?a ?b => change (@eq R a b) end.

(* ================= (1) the derivative triples ================= *)
Fixpoint evR (kz : option Z) (p : R) (e : uexpr) (x y : R) : R :=
  match e with
  | UX => x | UY => y | UPower => p | UCst z => IZR z
  | UAdd a b => evR kz p a x y + evR kz p b x y
  | USub a b => evR kz p a x y - evR kz p b x y
  | UMul a b => evR kz p a x y * evR kz p b x y
  | UDiv a b => evR kz p a x y / evR kz p b x y
  | UNeg a => - evR kz p a x y
  | UPow b e' => match zexp kz e' with
                 | Some m => powerRZ (evR kz p b x y) m
                 | None => Rpower (evR kz p b x y) (evR kz p e' x y)
                 end
  | USqrt a => sqrt (evR kz p a x y)
  | UExp a => exp (evR kz p a x y)
  | ULog a => ln (evR kz p a x y)
  | UAcos a => acos (evR kz p a x y)
  | UAtan a => atan (evR kz p a x y)
  end.

Definition dom_holds (d : dom) (x : R) : Prop :=
  match d with DomAll => True | DomPos => 0 < x | DomOpenUnit => -1 < x < 1 end.

Lemma Rpower_3_2 x : 0 < x -> Rpower x (3 / 2) = x * sqrt x.
Proof.
  intros H. replace (3 / 2) with (1 + / 2) by field.
  rewrite Rpower_plus, Rpower_1, Rpower_sqrt by exact H. reflexivity.
Qed.

Lemma sqrt_triple x : dom_holds sqrt_dom x ->
  is_derive (fun t => evR None 0 sqrt_f t 0) x (evR None 0 sqrt_f' x 0) /\
  is_derive (fun t => evR None 0 sqrt_f' t 0) x (evR None 0 sqrt_f'' x 0).
Proof.
  unfold sqrt_dom, sqrt_f, sqrt_f', sqrt_f''. cbn [dom_holds evR zexp]. intros H.
  assert (Hs : 0 < sqrt x) by (apply sqrt_lt_R0; exact H).
  split.
  - auto_derive; [exact H|]. eqR. field. lra.
  - auto_derive; [split; [exact H|split; [lra|exact I]]|].
    rewrite Rpower_3_2 by exact H.
    replace (x * sqrt x) with (sqrt x * sqrt x * sqrt x) by (rewrite sqrt_sqrt; lra).
    eqR. field. lra.
Qed.

Lemma exp_triple x : dom_holds exp_dom x ->
  is_derive (fun t => evR None 0 exp_f t 0) x (evR None 0 exp_f' x 0) /\
  is_derive (fun t => evR None 0 exp_f' t 0) x (evR None 0 exp_f'' x 0).
Proof.
  unfold exp_f, exp_f', exp_f''. cbn [evR zexp]. intros _.
  split; auto_derive; try exact I; eqR; ring.
Qed.

Lemma log_triple x : dom_holds log_dom x ->
  is_derive (fun t => evR None 0 log_f t 0) x (evR None 0 log_f' x 0) /\
  is_derive (fun t => evR None 0 log_f' t 0) x (evR None 0 log_f'' x 0).
Proof.
  unfold log_dom, log_f, log_f', log_f''. cbn [dom_holds evR zexp]. intros H.
  split.
  - auto_derive; [exact H|]. eqR. field. lra.
  - cbv beta iota delta [powerRZ Pos.to_nat Pos.iter_op Nat.add]. auto_derive; [lra|]. eqR. field. lra.
Qed.

Lemma acos_deriv x : -1 < x < 1 -> is_derive acos x (-1 / sqrt (1 - x * x)).
Proof.
  intros H. apply is_derive_Reals.
  pose proof (derive_pt_acos x H) as E. unfold derive_pt in E.
  destruct (derivable_pt_acos x H) as [l Hl]. cbn in E. subst l.
  replace (x * x) with (x²) by reflexivity. exact Hl.
Qed.

Lemma acos_triple x : dom_holds acos_dom x ->
  is_derive (fun t => evR None 0 acos_f t 0) x (evR None 0 acos_f' x 0) /\
  is_derive (fun t => evR None 0 acos_f' t 0) x (evR None 0 acos_f'' x 0).
Proof.
  unfold acos_dom, acos_f, acos_f', acos_f''. cbn [dom_holds evR zexp]. intros H.
  cbv beta iota delta [powerRZ Pos.to_nat Pos.iter_op Nat.add].
  assert (Hp : 0 < 1 - x ^ 2) by nra.
  assert (Hs : 0 < sqrt (1 - x ^ 2)) by (apply sqrt_lt_R0; exact Hp).
  split.
  - replace (x ^ 2) with (x * x) by ring. apply (is_derive_ext acos); [reflexivity|].
    apply acos_deriv. exact H.
  - auto_derive; replace (1 + - (x * (x * 1))) with (1 - x ^ 2) by ring; [split; [exact Hp|split; [lra|exact I]]|].
    rewrite Rpower_3_2 by exact Hp. set (u := 1 - x ^ 2) in *.
    replace (u * sqrt u) with (sqrt u * sqrt u * sqrt u) by (rewrite sqrt_sqrt; lra).
    eqR. field. lra.
Qed.

Lemma atan_triple x : dom_holds atan_dom x ->
  is_derive (fun t => evR None 0 atan_f t 0) x (evR None 0 atan_f' x 0) /\
  is_derive (fun t => evR None 0 atan_f' t 0) x (evR None 0 atan_f'' x 0).
Proof.
  unfold atan_f, atan_f', atan_f''. cbn [evR zexp]. intros _.
  cbv beta iota delta [powerRZ Pos.to_nat Pos.iter_op Nat.add].
  split.
  - auto_derive; [exact I|]. eqR. field. nra.
  - auto_derive; [nra|]. eqR. field. nra.
Qed.

(* ---- powers ---- *)
Lemma Rpower_m1 x p : 0 < x -> Rpower x (p - 1) = Rpower x p / x.
Proof.
  intros H. unfold Rminus. rewrite Rpower_plus, Rpower_Ropp, Rpower_1 by exact H. reflexivity.
Qed.

Lemma is_derive_Rpower x p : 0 < x -> is_derive (fun t => Rpower t p) x (p * Rpower x (p - 1)).
Proof.
  intros H. rewrite Rpower_m1 by exact H. unfold Rpower. auto_derive; [exact H|]. eqR. field. lra.
Qed.

Lemma pow_triple_real p x : 0 < x ->
  is_derive (fun t => evR None p pow_f t 0) x (evR None p pow_f' x 0) /\
  is_derive (fun t => evR None p pow_f' t 0) x (evR None p pow_f'' x 0).
Proof.
  unfold pow_f, pow_f', pow_f''. cbn [evR zexp]. intros H. split.
  - apply is_derive_Rpower. exact H.
  - replace (p * (p - 1) * Rpower x (p - 2)) with (p * ((p - 1) * Rpower x (p - 1 - 1)))
      by (replace (p - 1 - 1) with (p - 2) by ring; ring).
    apply is_derive_scal. apply is_derive_Rpower. exact H.
Qed.

Lemma is_derive_powerRZ_nat k x : (1 <= k)%nat ->
  is_derive (fun t => powerRZ t (Z.of_nat k)) x (IZR (Z.of_nat k) * powerRZ x (Z.of_nat k - 1)).
Proof.
  intros Hk. apply (is_derive_ext (fun t => t ^ k)); [intros t; apply pow_powerRZ|].
  replace (Z.of_nat k - 1)%Z with (Z.of_nat (pred k)) by lia.
  rewrite <- pow_powerRZ, <- INR_IZR_INZ.
  auto_derive; [exact I|]. eqR. ring.
Qed.

Lemma is_derive_powerRZ k x : x <> 0 ->
  is_derive (fun t => powerRZ t k) x (IZR k * powerRZ x (k - 1)).
Proof.
  intros Hx. destruct k as [|p|p].
  - cbn [powerRZ]. replace (0 * _) with 0 by ring. apply @is_derive_const.
  - rewrite <- (positive_nat_Z p). apply is_derive_powerRZ_nat. lia.
  - cbn [powerRZ]. destruct (Pos2Nat.is_succ p) as [m Em].
    replace (Z.neg p - 1)%Z with (Z.neg (p + 1)) by lia. cbn [powerRZ].
    replace (Pos.to_nat (p + 1)) with (S (S m)) by lia. rewrite Em.
    replace (IZR (Z.neg p)) with (- INR (S m)) by (rewrite INR_IZR_INZ, <- Em, positive_nat_Z; rewrite <- opp_IZR; reflexivity).
    assert (Hm : x ^ m <> 0) by (apply pow_nonzero; exact Hx).
    auto_derive; [first [apply pow_nonzero; exact Hx | apply Rmult_integral_contrapositive_currified; assumption]|].
    cbn [pred pow]. change (match m with 0%nat => 1 | S _ => INR m + 1 end) with (INR (S m)).
    rewrite S_INR. eqR. field. split; assumption.
Qed.

Lemma pow_triple_int k x : x <> 0 ->
  is_derive (fun t => evR (Some k) (IZR k) pow_f t 0) x (evR (Some k) (IZR k) pow_f' x 0) /\
  is_derive (fun t => evR (Some k) (IZR k) pow_f' t 0) x (evR (Some k) (IZR k) pow_f'' x 0).
Proof.
  unfold pow_f, pow_f', pow_f''. cbn [evR zexp]. intros H. split.
  - apply is_derive_powerRZ. exact H.
  - replace (IZR k * (IZR k - 1) * powerRZ x (k - 2))
      with (IZR k * (IZR (k - 1) * powerRZ x (k - 1 - 1)))
      by (rewrite minus_IZR; replace (k - 1 - 1)%Z with (k - 2)%Z by lia; ring).
    apply is_derive_scal. apply is_derive_powerRZ. exact H.
Qed.

(* exponents k >= 2 (the squares of norm() and dot()): no restriction on x, zero included *)
Lemma pow_triple_nat (k : nat) x : (2 <= k)%nat ->
  let kz := Z.of_nat k in
  is_derive (fun t => evR (Some kz) (IZR kz) pow_f t 0) x (evR (Some kz) (IZR kz) pow_f' x 0) /\
  is_derive (fun t => evR (Some kz) (IZR kz) pow_f' t 0) x (evR (Some kz) (IZR kz) pow_f'' x 0).
Proof.
  intros Hk kz. unfold pow_f, pow_f', pow_f''. cbn [evR zexp]. subst kz. split.
  - apply is_derive_powerRZ_nat. lia.
  - replace (IZR (Z.of_nat k) * (IZR (Z.of_nat k) - 1) * powerRZ x (Z.of_nat k - 2))
      with (IZR (Z.of_nat k) * (IZR (Z.of_nat (pred k)) * powerRZ x (Z.of_nat (pred k) - 1))).
    + replace (Z.of_nat k - 1)%Z with (Z.of_nat (pred k)) by lia.
      apply is_derive_scal. apply is_derive_powerRZ_nat. lia.
    + replace (Z.of_nat (pred k)) with (Z.of_nat k - 1)%Z by lia. rewrite minus_IZR.
      replace (Z.of_nat k - 1 - 1)%Z with (Z.of_nat k - 2)%Z by lia. ring.
Qed.

(* ---- atan2 ---- *)
Lemma atan2_branches x y :
  (x <> 0 ->
     is_derive (fun t => evR None 0 atan2_branch_x_not_0 x t) y (x / (x ^ 2 + y ^ 2)) /\
     is_derive (fun t => evR None 0 atan2_branch_x_not_0 t y) x (- y / (x ^ 2 + y ^ 2))) /\
  (y <> 0 ->
     is_derive (fun t => evR None 0 atan2_branch_x_close_0 x t) y (x / (x ^ 2 + y ^ 2)) /\
     is_derive (fun t => evR None 0 atan2_branch_x_close_0 t y) x (- y / (x ^ 2 + y ^ 2))).
Proof.
  unfold atan2_branch_x_not_0, atan2_branch_x_close_0. cbn [evR].
  assert (P : forall u w : R, u <> 0 -> 0 < u ^ 2 + w ^ 2).
  { intros u w Hu. assert (0 < u ^ 2) by (apply pow2_gt_0; exact Hu). nra. }
  split; intros H.
  - pose proof (P x y H) as Hq. split.
    + auto_derive; [repeat split; try exact I; try exact H|]. eqR. field. split; [lra|exact H].
    + auto_derive; [repeat split; try exact I; try exact H|]. eqR. field. split; [lra|exact H].
  - pose proof (P y x H) as Hq. split.
    + auto_derive; [repeat split; try exact I; try exact H|]. eqR. field. split; [lra|exact H].
    + auto_derive; [repeat split; try exact I; try exact H|]. eqR. field. split; [lra|exact H].
Qed.

(* ================= (2) pair potentials ================= *)
Lemma fpow_RO x n : fpow RO x n = x ^ n.
Proof. induction n as [|n IH]; cbn [fpow pow]; [reflexivity|]. rewrite IH. reflexivity. Qed.
Lemma of_nat_RO n : of_nat RO n = INR n.
Proof.
  induction n as [|n IH]; [reflexivity|]. cbn [of_nat]. rewrite IH, S_INR. reflexivity.
Qed.

Lemma idpp_radial c r : r <> 0 -> is_derive (fun t => idpp_term RO c t) r (idpp_coef RO c r * r).
Proof.
  intros H. unfold idpp_term, idpp_coef. cbn [fpow fmul fsub fdiv fadd fopp f0 f1 RO car].
  auto_derive; [repeat split; try exact I; repeat apply Rmult_integral_contrapositive_currified; try exact H; lra|].
  eqR. field. exact H.
Qed.

Lemma ff_radial e c k d0 d : d <> 0 ->
  is_derive (fun t => ff_term RO e c k d0 t) d (ff_coef RO e c k d0 d * d).
Proof.
  intros H. unfold ff_coef. change (fpow RO d (e + 2)) with (d ^ (e + 2)). rewrite of_nat_RO.
  apply (is_derive_ext (fun t => c / t ^ e + k * ((t - d0) * (t - d0)))).
  { intros t. reflexivity. }
  cbn [fmul fsub fdiv fadd fopp f0 f1 RO car].
  assert (He : d ^ e <> 0) by (apply pow_nonzero; exact H).
  auto_derive; [repeat split; try exact I; exact He|].
  replace (e + 2)%nat with (S (S e)) by lia. destruct e as [|m].
  - cbn [pred pow INR]. eqR. field. exact H.
  - cbn [pred pow]. rewrite S_INR.
    change (match m with 0%nat => 1 | S _ => INR m + 1 end) with (INR (S m)). rewrite ?S_INR.
    assert (Hm : d ^ m <> 0) by (apply pow_nonzero; exact H).
    eqR. field. split; assumption.
Qed.

(* ---------- lifting to sums over all pairs ---------- *)
Definition Rsum := Sums.sum R 0 Rplus.

Lemma Rsum_S n f : Rsum (S n) f = Rsum n f + f n.
Proof. reflexivity. Qed.

Lemma Rsum_ext n f g : (forall i, (i < n)%nat -> f i = g i) -> Rsum n f = Rsum n g.
Proof.
  induction n as [|n IH]; intros H; [reflexivity|]. rewrite !Rsum_S, IH, (H n) by (intros; try apply H; lia).
  reflexivity.
Qed.

Lemma Rsum_zero n : Rsum n (fun _ => 0) = 0.
Proof. induction n as [|n IH]; [reflexivity|]. rewrite Rsum_S, IH. ring. Qed.

Lemma Rsum_single n a (g : nat -> R) :
  (a < n)%nat -> Rsum n (fun j => if Nat.eqb j a then g j else 0) = g a.
Proof.
  induction n as [|n IH]; intros H; [lia|]. rewrite Rsum_S.
  destruct (Nat.eqb n a) eqn:E.
  - apply Nat.eqb_eq in E. subst a.
    rewrite (Rsum_ext n _ (fun _ => 0)), Rsum_zero; [ring|].
    intros i Hi. destruct (Nat.eqb i n) eqn:E2; [apply Nat.eqb_eq in E2; lia|reflexivity].
  - apply Nat.eqb_neq in E. rewrite IH by lia. ring.
Qed.

Lemma Rsum_none n a (g : nat -> R) :
  (n <= a)%nat -> Rsum n (fun j => if Nat.eqb j a then g j else 0) = 0.
Proof.
  intros H. rewrite (Rsum_ext n _ (fun _ => 0)), Rsum_zero; [reflexivity|].
  intros i Hi. destruct (Nat.eqb i a) eqn:E; [apply Nat.eqb_eq in E; lia|reflexivity].
Qed.

Lemma is_derive_Rsum n (f : nat -> R -> R) (d : nat -> R) x :
  (forall k, (k < n)%nat -> is_derive (f k) x (d k)) ->
  is_derive (fun y => Rsum n (fun k => f k y)) x (Rsum n d).
Proof.
  induction n as [|n IH]; intros H.
  - apply (is_derive_ext (fun _ : R => 0)); [intros; reflexivity|]. change (Rsum 0 d) with 0.
    auto_derive; [exact I|eqR; ring].
  - apply (is_derive_ext (fun y => Rsum n (fun k => f k y) + f n y)); [intros; reflexivity|].
    rewrite Rsum_S. apply @is_derive_plus; [apply IH; intros; apply H; lia|apply H; lia].
Qed.

Section Lift.
Variable N : nat.
Variables term coef : nat -> nat -> R -> R.
Hypothesis coef_sym : forall i j r, coef i j r = coef j i r.
Hypothesis radial : forall i j r, 0 < r -> is_derive (term i j) r (coef i j r * r).

Definition sqd (X : nat -> nat -> R) (i j : nat) : R :=
  (X i 0%nat - X j 0%nat) ^ 2 + (X i 1%nat - X j 1%nat) ^ 2 + (X i 2%nat - X j 2%nat) ^ 2.
Definition dist (X : nat -> nat -> R) (i j : nat) : R := sqrt (sqd X i j).
(* replace Cartesian component k of atom a by x *)
Definition upd (X : nat -> nat -> R) (a k : nat) (x : R) : nat -> nat -> R :=
  fun i c => if (Nat.eqb i a && Nat.eqb c k)%bool then x else X i c.
(* every unordered pair once (cconf_gen.pyx:24-26 i > j; potentials.cpp:256-257 j > i;
   idpp.py:60 half the sum over ordered pairs) *)
Definition energy (X : nat -> nat -> R) : R :=
  Rsum N (fun i => Rsum i (fun j => term i j (dist X i j))).
(* idpp.py:106-113 / cconf_gen.pyx:55-79 / potentials.cpp:278-336: for atom a, sum over all j <> a *)
Definition gradient (X : nat -> nat -> R) (a k : nat) : R :=
  Rsum N (fun j => if Nat.eqb j a then 0 else coef a j (dist X a j) * (X a k - X j k)).

Lemma upd_other X a k x i c : i <> a -> upd X a k x i c = X i c.
Proof. intros H. unfold upd. apply Nat.eqb_neq in H. rewrite H. reflexivity. Qed.
Lemma upd_id X a k i c : upd X a k (X a k) i c = X i c.
Proof.
  unfold upd. destruct (Nat.eqb i a) eqn:E1, (Nat.eqb c k) eqn:E2; cbn [andb]; try reflexivity.
  apply Nat.eqb_eq in E1, E2. subst. reflexivity.
Qed.
Lemma dist_upd_id X a k i j : dist (upd X a k (X a k)) i j = dist X i j.
Proof. unfold dist, sqd. rewrite !upd_id. reflexivity. Qed.
Lemma dist_upd_other X a k x i j : i <> a -> j <> a -> dist (upd X a k x) i j = dist X i j.
Proof. intros Hi Hj. unfold dist, sqd. rewrite !upd_other by assumption. reflexivity. Qed.
Lemma dist_sym X i j : dist X i j = dist X j i.
Proof. unfold dist, sqd. f_equal. ring. Qed.

Lemma sqrt_pos_arg u : 0 < sqrt u -> 0 < u.
Proof.
  intros H. destruct (Rlt_le_dec 0 u) as [L|L]; [exact L|].
  rewrite (sqrt_neg_0 u L) in H. lra.
Qed.

Lemma sqrt_quad c B x : 0 < (x - c) ^ 2 + B ->
  is_derive (fun t => sqrt ((t - c) ^ 2 + B)) x ((x - c) / sqrt ((x - c) ^ 2 + B)).
Proof.
  intros H. assert (Hs : 0 < sqrt ((x - c) ^ 2 + B)) by (apply sqrt_lt_R0; exact H).
  replace ((x - c) / sqrt ((x - c) ^ 2 + B)) with ((2 * (x - c)) / (2 * sqrt ((x - c) ^ 2 + B))) by (field; lra).
  apply (is_derive_sqrt (fun t => (t - c) ^ 2 + B)); [|exact H].
  auto_derive; [exact I|]. eqR. ring.
Qed.

(* derivative of the distance between the moved atom a and another atom j *)
Lemma dist_moved X a k j : (k < 3)%nat -> j <> a -> 0 < dist X a j ->
  is_derive (fun x => dist (upd X a k x) a j) (X a k) ((X a k - X j k) / dist X a j).
Proof.
  intros Hk Hj Hd. pose proof (sqrt_pos_arg _ Hd) as Hs. unfold dist in *. unfold sqd in *.
  assert (Ea : forall x c, upd X a k x a c = if Nat.eqb c k then x else X a c).
  { intros x c. unfold upd. rewrite Nat.eqb_refl. reflexivity. }
  destruct k as [|[|[|k]]]; try lia.
  - pose (B := (X a 1%nat - X j 1%nat) ^ 2 + (X a 2%nat - X j 2%nat) ^ 2).
    replace ((X a 0%nat - X j 0%nat) ^ 2 + (X a 1%nat - X j 1%nat) ^ 2 + (X a 2%nat - X j 2%nat) ^ 2)
      with ((X a 0%nat - X j 0%nat) ^ 2 + B) in * by (unfold B; ring).
    apply (is_derive_ext (fun t => sqrt ((t - X j 0%nat) ^ 2 + B))); [|apply sqrt_quad; exact Hs].
    intros x. rewrite !Ea, !upd_other by exact Hj. cbn [Nat.eqb]. f_equal. unfold B. ring.
  - pose (B := (X a 0%nat - X j 0%nat) ^ 2 + (X a 2%nat - X j 2%nat) ^ 2).
    replace ((X a 0%nat - X j 0%nat) ^ 2 + (X a 1%nat - X j 1%nat) ^ 2 + (X a 2%nat - X j 2%nat) ^ 2)
      with ((X a 1%nat - X j 1%nat) ^ 2 + B) in * by (unfold B; ring).
    apply (is_derive_ext (fun t => sqrt ((t - X j 1%nat) ^ 2 + B))); [|apply sqrt_quad; exact Hs].
    intros x. rewrite !Ea, !upd_other by exact Hj. cbn [Nat.eqb]. f_equal. unfold B. ring.
  - pose (B := (X a 0%nat - X j 0%nat) ^ 2 + (X a 1%nat - X j 1%nat) ^ 2).
    replace ((X a 0%nat - X j 0%nat) ^ 2 + (X a 1%nat - X j 1%nat) ^ 2 + (X a 2%nat - X j 2%nat) ^ 2)
      with ((X a 2%nat - X j 2%nat) ^ 2 + B) in * by (unfold B; ring).
    apply (is_derive_ext (fun t => sqrt ((t - X j 2%nat) ^ 2 + B))); [|apply sqrt_quad; exact Hs].
    intros x. rewrite !Ea, !upd_other by exact Hj. cbn [Nat.eqb]. f_equal. unfold B. ring.
Qed.

Lemma pair_moved X a k j : (k < 3)%nat -> j <> a -> 0 < dist X a j ->
  is_derive (fun x => term a j (dist (upd X a k x) a j)) (X a k)
            (coef a j (dist X a j) * (X a k - X j k)).
Proof.
  intros Hk Hj Hd.
  replace (coef a j (dist X a j) * (X a k - X j k))
    with ((X a k - X j k) / dist X a j * (coef a j (dist X a j) * dist X a j)) by (field; lra).
  apply (is_derive_comp (term a j) (fun x => dist (upd X a k x) a j)).
  - rewrite dist_upd_id. apply radial. exact Hd.
  - apply dist_moved; assumption.
Qed.

Lemma pair_moved' X a k i : (k < 3)%nat -> i <> a -> 0 < dist X a i ->
  is_derive (fun x => term i a (dist (upd X a k x) i a)) (X a k)
            (coef i a (dist X i a) * (X a k - X i k)).
Proof.
  intros Hk Hi Hd.
  replace (coef i a (dist X i a) * (X a k - X i k))
    with ((X a k - X i k) / dist X a i * (coef i a (dist X a i) * dist X a i))
    by (rewrite (dist_sym X i a); field; lra).
  apply (is_derive_ext (fun x => term i a (dist (upd X a k x) a i))).
  { intros x. rewrite (dist_sym _ a i). reflexivity. }
  apply (is_derive_comp (term i a) (fun x => dist (upd X a k x) a i)).
  - rewrite dist_upd_id. apply radial. exact Hd.
  - apply dist_moved; assumption.
Qed.

(* derivative of one pair term w.r.t. component k of atom a *)
Definition dpair (X : nat -> nat -> R) (a k i j : nat) : R :=
  if Nat.eqb i a then coef a j (dist X a j) * (X a k - X j k)
  else if Nat.eqb j a then coef i a (dist X i a) * (X a k - X i k) else 0.

Lemma pair_derive X a k i j : (k < 3)%nat -> (j < i)%nat ->
  (forall m, m <> a -> (m = i \/ m = j) -> 0 < dist X a m) ->
  is_derive (fun x => term i j (dist (upd X a k x) i j)) (X a k) (dpair X a k i j).
Proof.
  intros Hk Hji Hpos. unfold dpair.
  destruct (Nat.eqb i a) eqn:Ei.
  - apply Nat.eqb_eq in Ei. subst i. apply pair_moved; [exact Hk|lia|apply Hpos; [lia|right; reflexivity]].
  - apply Nat.eqb_neq in Ei. destruct (Nat.eqb j a) eqn:Ej.
    + apply Nat.eqb_eq in Ej. subst j. apply pair_moved'; [exact Hk|exact Ei|apply Hpos; [exact Ei|left; reflexivity]].
    + apply Nat.eqb_neq in Ej.
      apply (is_derive_ext (fun _ => term i j (dist X i j))).
      { intros x. rewrite dist_upd_other by assumption. reflexivity. }
      auto_derive; [exact I|eqR; ring].
Qed.

Lemma dpair_sum X a k n :
  Rsum n (fun i => Rsum i (fun j => dpair X a k i j)) =
  if Nat.ltb a n then Rsum n (fun j => if Nat.eqb j a then 0 else coef a j (dist X a j) * (X a k - X j k)) else 0.
Proof.
  induction n as [|n IH]; [reflexivity|]. rewrite Rsum_S, IH.
  destruct (lt_eq_lt_dec n a) as [[L|E]|G].
  - (* n < a *)
    replace (Nat.ltb a n) with false by (symmetry; apply Nat.ltb_ge; lia).
    replace (Nat.ltb a (S n)) with false by (symmetry; apply Nat.ltb_ge; lia).
    rewrite (Rsum_ext n _ (fun _ => 0)), Rsum_zero; [ring|].
    intros j Hj. unfold dpair.
    replace (Nat.eqb n a) with false by (symmetry; apply Nat.eqb_neq; lia).
    replace (Nat.eqb j a) with false by (symmetry; apply Nat.eqb_neq; lia). reflexivity.
  - (* n = a *)
    subst n. replace (Nat.ltb a a) with false by (symmetry; apply Nat.ltb_ge; lia).
    replace (Nat.ltb a (S a)) with true by (symmetry; apply Nat.ltb_lt; lia).
    rewrite Rsum_S, Nat.eqb_refl. rewrite Rplus_0_l, Rplus_0_r.
    apply Rsum_ext. intros j Hj. unfold dpair. rewrite Nat.eqb_refl.
    replace (Nat.eqb j a) with false by (symmetry; apply Nat.eqb_neq; lia). reflexivity.
  - (* a < n *)
    replace (Nat.ltb a n) with true by (symmetry; apply Nat.ltb_lt; lia).
    replace (Nat.ltb a (S n)) with true by (symmetry; apply Nat.ltb_lt; lia).
    rewrite Rsum_S. f_equal.
    replace (Nat.eqb n a) with false by (symmetry; apply Nat.eqb_neq; lia).
    rewrite (Rsum_ext n _ (fun j => if Nat.eqb j a then coef n a (dist X n a) * (X a k - X n k) else 0)).
    + rewrite (Rsum_single n a (fun _ => coef n a (dist X n a) * (X a k - X n k))) by lia.
      rewrite coef_sym, (dist_sym X n a). reflexivity.
    + intros j Hj. unfold dpair.
      replace (Nat.eqb n a) with false by (symmetry; apply Nat.eqb_neq; lia). reflexivity.
Qed.

Theorem pair_sum_gradient X a k : (a < N)%nat -> (k < 3)%nat ->
  (forall j, (j < N)%nat -> j <> a -> 0 < dist X a j) ->
  is_derive (fun x => energy (upd X a k x)) (X a k) (gradient X a k).
Proof.
  intros Ha Hk Hpos. unfold gradient.
  pose proof (dpair_sum X a k N) as E. replace (Nat.ltb a N) with true in E by (symmetry; apply Nat.ltb_lt; lia).
  rewrite <- E. unfold energy.
  apply (is_derive_Rsum N (fun i x => Rsum i (fun j => term i j (dist (upd X a k x) i j)))).
  intros i Hi. apply (is_derive_Rsum i (fun j x => term i j (dist (upd X a k x) i j))).
  intros j Hj. apply pair_derive; [exact Hk|exact Hj|].
  intros m Hm [-> | ->]; apply Hpos; try lia; exact Hm.
Qed.

End Lift.

(* ---------- half the sum over ordered pairs = sum over unordered pairs ---------- *)
Lemma Rsum_add n f g : Rsum n (fun i => f i + g i) = Rsum n f + Rsum n g.
Proof. induction n as [|n IH]; [cbn; ring|]. rewrite !Rsum_S, IH. ring. Qed.

Lemma half_double_sum n (f : nat -> nat -> R) :
  (forall i j, f i j = f j i) -> (forall i, f i i = 0) ->
  Rsum n (fun i => Rsum n (fun j => f i j)) = 2 * Rsum n (fun i => Rsum i (fun j => f i j)).
Proof.
  intros Hs Hd. induction n as [|n IH]; [cbn; ring|].
  rewrite (Rsum_S n (fun i => Rsum i (fun j => f i j))).
  rewrite Rsum_S. rewrite (Rsum_ext n _ (fun i => Rsum n (fun j => f i j) + f n i)).
  - rewrite Rsum_add, IH, Rsum_S, Hd. change (Rsum n (f n)) with (Rsum n (fun j => f n j)). ring.
  - intros i Hi. rewrite Rsum_S, (Hs i n). reflexivity.
Qed.

(* ---------- IDPP (neb/idpp.py) ---------- *)
Section IDPP.
Variable N : nat.
Variable C : nat -> nat -> R.          (* r_ij^(k): the target distances of this image *)
Hypothesis C_sym : forall i j, C i j = C j i.

(* idpp.py:57-60  S = 0.5 * sum_ij w_ij (r^k_ij - r_ij)^2 with w_ii = 0 (idpp.py:170) *)
Definition idpp_energy (X : nat -> nat -> R) : R :=
  / 2 * Rsum N (fun i => Rsum N (fun j => if Nat.eqb i j then 0 else idpp_term RO (C i j) (dist X i j))).
(* idpp.py:92-113  grad[a,k] = sum_j a_aj (x_ak - x_jk), a_aa = 0 *)
Definition idpp_grad (X : nat -> nat -> R) (a k : nat) : R :=
  Rsum N (fun j => if Nat.eqb j a then 0 else idpp_coef RO (C a j) (dist X a j) * (X a k - X j k)).

Lemma idpp_energy_pairs X :
  idpp_energy X = energy N (fun i j r => idpp_term RO (C i j) r) X.
Proof.
  unfold idpp_energy, energy.
  rewrite (half_double_sum N (fun i j => if Nat.eqb i j then 0 else idpp_term RO (C i j) (dist X i j))).
  - rewrite <- Rmult_assoc, Rinv_l, Rmult_1_l by lra.
    apply Rsum_ext. intros i Hi. apply Rsum_ext. intros j Hj.
    replace (Nat.eqb i j) with false by (symmetry; apply Nat.eqb_neq; lia). reflexivity.
  - intros i j. rewrite (Nat.eqb_sym j i), (C_sym j i), (dist_sym X j i). reflexivity.
  - intros i. rewrite Nat.eqb_refl. reflexivity.
Qed.

Lemma idpp_grad_is_derivative X a k : (a < N)%nat -> (k < 3)%nat ->
  (forall j, (j < N)%nat -> j <> a -> 0 < dist X a j) ->
  is_derive (fun x => idpp_energy (upd X a k x)) (X a k) (idpp_grad X a k).
Proof.
  intros Ha Hk Hpos.
  apply (is_derive_ext (fun x => energy N (fun i j r => idpp_term RO (C i j) r) (upd X a k x))).
  { intros x. symmetry. apply idpp_energy_pairs. }
  apply (pair_sum_gradient N (fun i j r => idpp_term RO (C i j) r) (fun i j r => idpp_coef RO (C i j) r)).
  - intros i j r. rewrite C_sym. reflexivity.
  - intros i j r Hr. apply idpp_radial. lra.
  - exact Ha.
  - exact Hk.
  - exact Hpos.
Qed.
End IDPP.

(* ---------- bonded + repulsive force field (cconf_gen.pyx, potentials.cpp RBPotential) ---------- *)
Section FF.
Variable N : nat.
Variable e : nat.                       (* repulsion exponent *)
Variables Cm Km D0 : nat -> nat -> R.   (* c_ij, k_ij (0 where not bonded), d0_ij *)
Hypothesis Cm_sym : forall i j, Cm i j = Cm j i.
Hypothesis Km_sym : forall i j, Km i j = Km j i.
Hypothesis D0_sym : forall i j, D0 i j = D0 j i.

Definition ff_energy (X : nat -> nat -> R) : R :=
  energy N (fun i j r => ff_term RO e (Cm i j) (Km i j) (D0 i j) r) X.
Definition ff_grad (X : nat -> nat -> R) (a k : nat) : R :=
  Rsum N (fun j => if Nat.eqb j a then 0
                   else ff_coef RO e (Cm a j) (Km a j) (D0 a j) (dist X a j) * (X a k - X j k)).

Lemma ff_grad_is_derivative X a k : (a < N)%nat -> (k < 3)%nat ->
  (forall j, (j < N)%nat -> j <> a -> 0 < dist X a j) ->
  is_derive (fun x => ff_energy (upd X a k x)) (X a k) (ff_grad X a k).
Proof.
  intros Ha Hk Hpos.
  apply (pair_sum_gradient N (fun i j r => ff_term RO e (Cm i j) (Km i j) (D0 i j) r)
                             (fun i j r => ff_coef RO e (Cm i j) (Km i j) (D0 i j) r)).
  - intros i j r. rewrite Cm_sym, Km_sym, D0_sym. reflexivity.
  - intros i j r Hr. apply ff_radial. lra.
  - exact Ha.
  - exact Hk.
  - exact Hpos.
Qed.
End FF.

(* ---------- rigid motion: every pair energy depends on the geometry through distances only ------ *)
Definition rigid (Q : nat -> nat -> R) (t : nat -> R) (X : nat -> nat -> R) : nat -> nat -> R :=
  fun i c => Q c 0%nat * X i 0%nat + Q c 1%nat * X i 1%nat + Q c 2%nat * X i 2%nat + t c.
Definition orthogonal3 (Q : nat -> nat -> R) : Prop :=
  forall m n, (m < 3)%nat -> (n < 3)%nat ->
    Q 0%nat m * Q 0%nat n + Q 1%nat m * Q 1%nat n + Q 2%nat m * Q 2%nat n = if Nat.eqb m n then 1 else 0.

Lemma sqd_rigid Q t X i j : orthogonal3 Q -> sqd (rigid Q t X) i j = sqd X i j.
Proof.
  intros H. unfold sqd, rigid.
  pose proof (H 0%nat 0%nat ltac:(lia) ltac:(lia)) as H00. pose proof (H 1%nat 1%nat ltac:(lia) ltac:(lia)) as H11.
  pose proof (H 2%nat 2%nat ltac:(lia) ltac:(lia)) as H22. pose proof (H 0%nat 1%nat ltac:(lia) ltac:(lia)) as H01.
  pose proof (H 0%nat 2%nat ltac:(lia) ltac:(lia)) as H02. pose proof (H 1%nat 2%nat ltac:(lia) ltac:(lia)) as H12.
  cbn [Nat.eqb] in *.
  set (u0 := X i 0%nat - X j 0%nat). set (u1 := X i 1%nat - X j 1%nat). set (u2 := X i 2%nat - X j 2%nat).
  transitivity
    ((Q 0%nat 0%nat * Q 0%nat 0%nat + Q 1%nat 0%nat * Q 1%nat 0%nat + Q 2%nat 0%nat * Q 2%nat 0%nat) * u0 ^ 2 +
     (Q 0%nat 1%nat * Q 0%nat 1%nat + Q 1%nat 1%nat * Q 1%nat 1%nat + Q 2%nat 1%nat * Q 2%nat 1%nat) * u1 ^ 2 +
     (Q 0%nat 2%nat * Q 0%nat 2%nat + Q 1%nat 2%nat * Q 1%nat 2%nat + Q 2%nat 2%nat * Q 2%nat 2%nat) * u2 ^ 2 +
     2 * (Q 0%nat 0%nat * Q 0%nat 1%nat + Q 1%nat 0%nat * Q 1%nat 1%nat + Q 2%nat 0%nat * Q 2%nat 1%nat) * u0 * u1 +
     2 * (Q 0%nat 0%nat * Q 0%nat 2%nat + Q 1%nat 0%nat * Q 1%nat 2%nat + Q 2%nat 0%nat * Q 2%nat 2%nat) * u0 * u2 +
     2 * (Q 0%nat 1%nat * Q 0%nat 2%nat + Q 1%nat 1%nat * Q 1%nat 2%nat + Q 2%nat 1%nat * Q 2%nat 2%nat) * u1 * u2).
  - unfold u0, u1, u2. ring.
  - rewrite H00, H11, H22, H01, H02, H12. ring.
Qed.

Lemma energy_rigid_invariant N term Q t X :
  orthogonal3 Q -> energy N term (rigid Q t X) = energy N term X.
Proof.
  intros H. unfold energy. apply Rsum_ext. intros i Hi. apply Rsum_ext. intros j Hj.
  unfold dist. rewrite sqd_rigid by exact H. reflexivity.
Qed.

(* ---------- the field evaluation evF (used by hd_pow) agrees with the real semantics evR ---------- *)
Lemma of_Z_RO k : of_Z RO k = IZR k.
Proof.
  destruct k as [|p|p]; cbn [of_Z]; [reflexivity| |].
  - rewrite of_nat_RO, INR_IZR_INZ, positive_nat_Z. reflexivity.
  - rewrite of_nat_RO, INR_IZR_INZ, positive_nat_Z. cbn [fopp RO]. rewrite <- opp_IZR. reflexivity.
Qed.

Lemma fpowz_RO x k : fpowz RO x k = powerRZ x k.
Proof.
  destruct k as [|p|p]; cbn [fpowz powerRZ]; [reflexivity|apply fpow_RO|].
  rewrite fpow_RO. cbn [fdiv f1 RO]. unfold Rdiv. apply Rmult_1_l.
Qed.

Lemma evF_evR_pow k x :
  evF RO k pow_f x = evR (Some k) (IZR k) pow_f x 0 /\
  evF RO k pow_f' x = evR (Some k) (IZR k) pow_f' x 0 /\
  evF RO k pow_f'' x = evR (Some k) (IZR k) pow_f'' x 0.
Proof.
  unfold pow_f, pow_f', pow_f''. cbn [evF evR zexp]. rewrite !fpowz_RO, !of_Z_RO.
  cbn [fmul fsub RO]. repeat split; reflexivity.
Qed.

(* ================= (3) soundness step: the jet operations compute partial derivatives ================= *)
(* A two-parameter family G(s,t) (think G(s,t) = g(x + s e_i + t e_j)) with its s-partial Gs, its t-partial Gt and the
   mixed partial Gst = d/dt Gs, at every point of a set D (no topology needed: is_derive is local). *)
Definition jetfield (D : R -> R -> Prop) (G Gs Gt Gst : R -> R -> R) : Prop :=
  forall s t, D s t ->
    is_derive (fun u => G u t) s (Gs s t) /\
    is_derive (fun u => G s u) t (Gt s t) /\
    is_derive (fun u => Gs s u) t (Gst s t).

Definition J (G Gs Gt Gst : R -> R -> R) (s t : R) : hd2 RO := mkHd2 (K := RO) (G s t) (Gs s t) (Gt s t) (Gst s t).
Definition c0 (f : hd2 RO -> R) (a : R -> R -> hd2 RO) : R -> R -> R := fun s t => f (a s t).
(* the four component functions of a family of algebra elements form a jet field *)
Definition jetfield_of (D : R -> R -> Prop) (a : R -> R -> hd2 RO) : Prop :=
  jetfield D (c0 s0 a) (c0 s1 a) (c0 s2 a) (c0 s12 a).

Lemma is_derive_eq (f : R -> R) x l l' : is_derive f x l -> l = l' -> is_derive f x l'.
Proof. intros H <-. exact H. Qed.
Lemma id_mult (f g : R -> R) x df dg :
  is_derive f x df -> is_derive g x dg -> is_derive (fun u => f u * g u) x (df * g x + f x * dg).
Proof. intros Hf Hg. apply (is_derive_mult f g x df dg Hf Hg). intros n m. apply Rmult_comm. Qed.
Lemma id_plus (f g : R -> R) x df dg :
  is_derive f x df -> is_derive g x dg -> is_derive (fun u => f u + g u) x (df + dg).
Proof. intros Hf Hg. exact (is_derive_plus f g x df dg Hf Hg). Qed.
Lemma id_opp (f : R -> R) x df : is_derive f x df -> is_derive (fun u => - f u) x (- df).
Proof. intros Hf. exact (is_derive_opp f x df Hf). Qed.
Lemma id_comp (f g : R -> R) x df dg :
  is_derive f (g x) df -> is_derive g x dg -> is_derive (fun u => f (g u)) x (dg * df).
Proof. intros Hf Hg. exact (is_derive_comp f g x df dg Hf Hg). Qed.
Lemma id_const (c x : R) : is_derive (fun _ : R => c) x 0.
Proof. auto_derive; [exact I|eqR; ring]. Qed.

Section JetFields.
Variable D : R -> R -> Prop.

Lemma jf_const c : jetfield_of D (fun _ _ => hd2_const RO c).
Proof. intros s t _. unfold c0. cbn. split; [|split]; apply id_const. Qed.

(* the coordinate x + s a + t b (a, b in {0,1}: Kronecker deltas of the seeded variable) *)
Lemma jf_coord x a b : jetfield_of D (fun s t => mkHd2 (K := RO) (x + s * a + t * b) a b 0).
Proof.
  intros s t _. unfold c0. cbn [s0 s1 s2 s12]. split; [|split].
  - auto_derive; [exact I|eqR; ring].
  - auto_derive; [exact I|eqR; ring].
  - apply id_const.
Qed.

Lemma jf_add a b : jetfield_of D a -> jetfield_of D b -> jetfield_of D (fun s t => hd2_add RO (a s t) (b s t)).
Proof.
  intros Ha Hb s t Hd. destruct (Ha s t Hd) as [A1 [A2 A3]]. destruct (Hb s t Hd) as [B1 [B2 B3]].
  unfold c0 in *. cbn [hd2_add s0 s1 s2 s12 fadd RO]. split; [|split]; apply id_plus; assumption.
Qed.

Lemma jf_neg a : jetfield_of D a -> jetfield_of D (fun s t => hd2_neg RO (a s t)).
Proof.
  intros Ha s t Hd. destruct (Ha s t Hd) as [A1 [A2 A3]].
  unfold c0 in *. cbn [hd2_neg s0 s1 s2 s12 fopp RO]. split; [|split]; apply id_opp; assumption.
Qed.

Lemma jf_mul a b : jetfield_of D a -> jetfield_of D b -> jetfield_of D (fun s t => hd2_mul RO (a s t) (b s t)).
Proof.
  intros Ha Hb s t Hd. destruct (Ha s t Hd) as [A1 [A2 A3]]. destruct (Hb s t Hd) as [B1 [B2 B3]].
  unfold c0 in *. cbn [hd2_mul s0 s1 s2 s12 fadd fmul RO]. split; [|split].
  - apply (is_derive_eq _ _ _ _ (id_mult _ _ _ _ _ A1 B1)). eqR. ring.
  - apply (is_derive_eq _ _ _ _ (id_mult _ _ _ _ _ A2 B2)). eqR. ring.
  - apply (is_derive_eq _ _ _ _ (id_plus _ _ _ _ _ (id_mult _ _ _ _ _ A2 B3) (id_mult _ _ _ _ _ A3 B2))). eqR. ring.
Qed.

(* chain rule: (f, f1, f2) with f1 = f' and f2 = f1' on a set P that contains the range of the family *)
Lemma jf_apply (P : R -> Prop) (f f1 f2 : R -> R) (a : R -> R -> hd2 RO) :
  (forall y, P y -> is_derive f y (f1 y)) -> (forall y, P y -> is_derive f1 y (f2 y)) ->
  (forall s t, D s t -> P (s0 (a s t))) ->
  jetfield_of D a ->
  jetfield_of D (fun s t => hd2_taylor' RO (f (s0 (a s t))) (f1 (s0 (a s t))) (f2 (s0 (a s t))) (a s t)).
Proof.
  intros Hf Hf1 HP Ha s t Hd. destruct (Ha s t Hd) as [A1 [A2 A3]]. pose proof (HP s t Hd) as Hp.
  unfold c0 in *. cbn [hd2_taylor' s0 s1 s2 s12 fadd fmul RO]. split; [|split].
  - apply (is_derive_eq _ _ _ _ (id_comp f (fun u => s0 (a u t)) s _ _ (Hf _ Hp) A1)). eqR. ring.
  - apply (is_derive_eq _ _ _ _ (id_comp f (fun u => s0 (a s u)) t _ _ (Hf _ Hp) A2)). eqR. ring.
  - apply (is_derive_eq _ _ _ _ (id_mult (fun u => f1 (s0 (a s u))) (fun u => s1 (a s u)) t _ _
                       (id_comp f1 (fun u => s0 (a s u)) t _ _ (Hf1 _ Hp) A2) A3)).
    cbn beta. eqR. ring.
Qed.

End JetFields.

(* hd_pow over R uses a correct triple away from zero (field evaluation = real semantics) *)
Lemma powF_triple k y : y <> 0 ->
  is_derive (evF RO k pow_f) y (evF RO k pow_f' y) /\ is_derive (evF RO k pow_f') y (evF RO k pow_f'' y).
Proof.
  intros Hy. destruct (pow_triple_int k y Hy) as [T1 T2]. destruct (evF_evR_pow k y) as [_ [E1 E2]].
  rewrite E1, E2. split.
  - apply (is_derive_ext (fun t => evR (Some k) (IZR k) pow_f t 0)); [|exact T1].
    intros t. destruct (evF_evR_pow k t) as [E _]. symmetry. exact E.
  - apply (is_derive_ext (fun t => evR (Some k) (IZR k) pow_f' t 0)); [|exact T2].
    intros t. destruct (evF_evR_pow k t) as [_ [E _]]. symmetry. exact E.
Qed.

(* ---- second partial derivatives of both atan2 branch formulas ---- *)
Lemma polar_second_partials x y : x ^ 2 + y ^ 2 <> 0 ->
  is_derive (fun t => x / (x ^ 2 + t ^ 2)) y (- (2 * x * y) / (x ^ 2 + y ^ 2) ^ 2) /\
  is_derive (fun t => t / (t ^ 2 + y ^ 2)) x ((y ^ 2 - x ^ 2) / (x ^ 2 + y ^ 2) ^ 2) /\
  is_derive (fun t => - t / (x ^ 2 + t ^ 2)) y ((y ^ 2 - x ^ 2) / (x ^ 2 + y ^ 2) ^ 2) /\
  is_derive (fun t => - y / (t ^ 2 + y ^ 2)) x ((2 * x * y) / (x ^ 2 + y ^ 2) ^ 2).
Proof.
  intros H. assert (H' : x * (x * 1) + y * (y * 1) <> 0) by (intros E; apply H; rewrite <- E; ring).
  split; [|split; [|split]]; (auto_derive; [repeat split; try exact I; exact H'|eqR; field; exact H]).
Qed.

(* ---------- the hyper-dual operations compute partial derivatives ---------- *)
(* A(s,t): a family of hyper-dual numbers (think: the hyper-dual evaluation of an expression at x + s e_i + t e_j).
   "computes D i j A": on D, the entry d1 i of A is the s-partial of its value, d1 j the t-partial, and d2 i j the
   t-partial of d1 i. *)
Definition computes (D : R -> R -> Prop) (i j : nat) (A : R -> R -> hd RO) : Prop :=
  jetfield_of D (fun s t => proj RO i j (A s t)).

Lemma jetfield_of_ext D (a b : R -> R -> hd2 RO) :
  (forall s t, a s t = b s t) -> jetfield_of D a -> jetfield_of D b.
Proof.
  intros E Ha s t Hd. destruct (Ha s t Hd) as [A1 [A2 A3]]. unfold c0 in *. rewrite <- !E. split; [|split].
  - apply (is_derive_ext (fun u => s0 (a u t))); [intros u; rewrite E; reflexivity|exact A1].
  - apply (is_derive_ext (fun u => s0 (a s u))); [intros u; rewrite E; reflexivity|exact A2].
  - apply (is_derive_ext (fun u => s1 (a s u))); [intros u; rewrite E; reflexivity|exact A3].
Qed.

Section Computes.
Variables (D : R -> R -> Prop) (i j : nat).
Notation cmp := (computes D i j).

Lemma cmp_var k x :
  cmp (fun s t => hd_from_variable RO k (x + s * (if Nat.eqb i k then 1 else 0) + t * (if Nat.eqb j k then 1 else 0))).
Proof.
  unfold computes. eapply jetfield_of_ext; [|apply (jf_coord D x (if Nat.eqb i k then 1 else 0) (if Nat.eqb j k then 1 else 0))].
  intros s t. rewrite (from_variable_is_coord RO Rfield). rewrite proj_coord. reflexivity.
Qed.
Lemma cmp_const c : cmp (fun _ _ => hd_const RO c).
Proof. unfold computes. eapply jetfield_of_ext; [|apply (jf_const D c)]. intros s t. reflexivity. Qed.
Lemma cmp_add A B : cmp A -> cmp B -> cmp (fun s t => hd_add RO (A s t) (B s t)).
Proof.
  intros Ha Hb. unfold computes. eapply jetfield_of_ext; [|apply (jf_add D _ _ Ha Hb)].
  intros s t. symmetry. apply (proj_add RO Rfield).
Qed.
Lemma cmp_neg A : cmp A -> cmp (fun s t => hd_neg RO (A s t)).
Proof.
  intros Ha. unfold computes. eapply jetfield_of_ext; [|apply (jf_neg D _ Ha)].
  intros s t. symmetry. apply (proj_neg RO Rfield).
Qed.
Lemma cmp_sub A B : cmp A -> cmp B -> cmp (fun s t => hd_sub RO (A s t) (B s t)).
Proof. intros Ha Hb. unfold hd_sub. apply cmp_add; [exact Ha|apply cmp_neg; exact Hb]. Qed.
Lemma cmp_mul A B : cmp A -> cmp B -> cmp (fun s t => hd_mul RO (A s t) (B s t)).
Proof.
  intros Ha Hb. unfold computes. eapply jetfield_of_ext; [|apply (jf_mul D _ _ Ha Hb)].
  intros s t. symmetry. apply (proj_mul RO Rfield).
Qed.
Lemma cmp_mul_scalar A c : cmp A -> cmp (fun s t => hd_mul_scalar RO (A s t) c).
Proof.
  intros Ha. unfold computes. eapply jetfield_of_ext; [|apply (jf_mul D _ _ (jf_const D c) Ha)].
  intros s t. symmetry. apply (proj_mul_scalar RO Rfield).
Qed.
Lemma cmp_add_scalar A c : cmp A -> cmp (fun s t => hd_add_scalar RO (A s t) c).
Proof.
  intros Ha. unfold computes. eapply jetfield_of_ext; [|apply (jf_add D _ _ Ha (jf_const D c))].
  intros s t. symmetry. apply (proj_add_scalar RO Rfield).
Qed.
Lemma cmp_apply (P : R -> Prop) (f f1 f2 : R -> R) (A : R -> R -> hd RO) :
  (forall y, P y -> is_derive f y (f1 y)) -> (forall y, P y -> is_derive f1 y (f2 y)) ->
  (forall s t, D s t -> P (v (A s t))) -> cmp A -> cmp (fun s t => hd_apply RO f f1 f2 (A s t)).
Proof.
  intros H1 H2 HP Ha. unfold computes.
  eapply jetfield_of_ext; [|apply (jf_apply D P f f1 f2 (fun s t => proj RO i j (A s t)) H1 H2 HP Ha)].
  intros s t. symmetry. apply (proj_apply RO Rfield).
Qed.
Lemma cmp_pow (A : R -> R -> hd RO) k : (forall s t, D s t -> v (A s t) <> 0) -> cmp A -> cmp (fun s t => hd_pow RO (A s t) k).
Proof.
  intros Hn Ha. unfold hd_pow. apply (cmp_apply (fun y => y <> 0)); try assumption.
  - intros y Hy. apply (powF_triple k y Hy).
  - intros y Hy. apply (powF_triple k y Hy).
Qed.
Lemma cmp_div (A B : R -> R -> hd RO) : (forall s t, D s t -> v (B s t) <> 0) -> cmp A -> cmp B -> cmp (fun s t => hd_div RO (A s t) (B s t)).
Proof. intros Hn Ha Hb. unfold hd_div. apply cmp_mul; [exact Ha|apply cmp_pow; assumption]. Qed.
Lemma cmp_rdiv c (A : R -> R -> hd RO) : (forall s t, D s t -> v (A s t) <> 0) -> cmp A -> cmp (fun s t => hd_rdiv RO c (A s t)).
Proof. intros Hn Ha. unfold hd_rdiv. apply cmp_mul_scalar. apply cmp_pow; assumption. Qed.

(* a translated DifferentiableMath function: apply_operation with its (f, f', f'') triple *)
Lemma cmp_math (d : dom) (f f1 f2 : uexpr) (A : R -> R -> hd RO) :
  (forall x, dom_holds d x -> is_derive (fun t => evR None 0 f t 0) x (evR None 0 f1 x 0) /\
                              is_derive (fun t => evR None 0 f1 t 0) x (evR None 0 f2 x 0)) ->
  (forall s t, D s t -> dom_holds d (v (A s t))) -> cmp A ->
  cmp (fun s t => hd_apply RO (fun y => evR None 0 f y 0) (fun y => evR None 0 f1 y 0) (fun y => evR None 0 f2 y 0) (A s t)).
Proof.
  intros T Hd Ha. apply (cmp_apply (dom_holds d)); try assumption.
  - intros y Hy. apply (T y Hy).
  - intros y Hy. apply (T y Hy).
Qed.
End Computes.
