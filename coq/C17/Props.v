(* C17/Props.v — the property theorems.  `lines`, `spec_table`, `max_label_len` and
   `xtb_cart_offset` are GENERATED from the wrappers' print statements on every run
   (gen/C17_Gen.v); the readers and the documented layouts / index bases are in Model.v.
   What is NOT here (correspondence only, see harness/c17.py): keyword lines, solvent, core-count
   and memory blocks, the xyz title line, the xTB `atoms:` range list, MOPAC's spin keywords, and
   that generating a file leaves the species unchanged. *)
From Coq Require Import ZArith QArith Qabs List Ascii String Bool Lia.
From AV.C17 Require Import Base Decimal Model Lemmas.
From AV.gen Require Import C17_Gen.
Import ListNotations.
Open Scope list_scope.

(* Fixed-point text of ANY rational, read back by the independent parser, is the value rounded
   half-even to d decimals, and that is within half a unit of the last decimal of the exact value.
   No magnitude bound: Python widens the field, the model prints every integer digit. *)
Theorem decimal_roundtrip_accurate :
  forall (d : nat) (q : Q),
    parse_dec (fmt_fixed (S d) q) = Some (roundq (S d) q) /\
    (Qabs (roundq (S d) q - q) <= 1 # (2 * Z.to_pos (pow10 (S d))))%Q /\
    forall z : Z, read_Z (show_Z z) = Some z.
Proof.
  intros d q. split; [apply parse_fmt_fixed|]. split; [apply roundq_close|apply read_show_Z].
Qed.

(* Every coordinate spec in the generated table is fixed point with at least 5 decimals, hence the
   printed coordinate of EVERY rational x is within 1/2*10^-d <= 1e-5 of x.  Lowering any
   coordinate precision below 5 decimals in a wrapper makes this sweep (and the build) fail. *)
Theorem coord_precision_sufficient :
  forall p f sp, In (p, f, sp) spec_table -> (f = FX \/ f = FY \/ f = FZ) ->
  exists d, s_kind sp = KFixed d /\ (5 <= d)%nat /\
            forall x : Q, (Qabs (roundq d x - x) <= 1 # (2 * Z.to_pos (pow10 d)))%Q /\
                          (Qabs (roundq d x - x) <= 1 # 100000)%Q.
Proof.
  intros p f sp Hin Hf. pose proof all_coord_specs_ok as A. rewrite forallb_forall in A.
  specialize (A _ Hin). cbn [coord_spec_ok] in A.
  assert (Hc : is_coord_field f = true) by (destruct Hf as [->|[->| ->]]; reflexivity).
  rewrite Hc in A. cbn [implb] in A. destruct (s_kind sp) as [d| | |]; try discriminate.
  apply Nat.leb_le in A. exists d. split; [reflexivity|]. split; [exact A|].
  intros x. split; [apply roundq_close|apply fixed_accurate; exact A].
Qed.

(* Fields never merge: in every generated template each pair of adjacent items is separated by a
   literal blank (or the left one is the element symbol left-aligned in a field wider than the
   longest symbol), so splitting the printed line yields exactly one token per field plus the
   literal tokens of the documented layout — for all values, i.e. however wide Python makes a field. *)
Theorem fields_never_merge :
  forall p k tpl, In (p, k, tpl) lines -> covered k = true ->
  exists sc ex, expected_layout p k = Some (sc, ex) /\ wsep (sepf sc) tpl = true /\
    forall e, env_ok (sepf sc) e ->
      tokens (sepf sc) (render e tpl) = map (tok_text e) (layout (sepf sc) tpl) /\
      List.length (tokens (sepf sc) (render e tpl)) = List.length ex /\
      shape_ok (tokens (sepf sc) (render e tpl)) ex = true.
Proof.
  intros p k tpl Hin Hc. pose proof (line_in_ok _ _ _ Hin Hc) as Hok.
  destruct (line_ok_layout _ _ _ Hok) as [sc [ex Hex]]. exists sc, ex. split; [exact Hex|].
  unfold line_ok in Hok. rewrite Hex in Hok. apply andb_true_iff in Hok. destruct Hok as [Hw Hm].
  split; [exact Hw|]. intros e He. rewrite (tokens_render sc e He tpl Hw).
  split; [reflexivity|]. pose proof (lmatch_shape p k e _ _ Hm) as Hs. split; [|exact Hs].
  clear - Hs. revert Hs. generalize (map (tok_text e) (layout (sepf sc) tpl)) as ts.
  induction ex as [|x ex IH]; intros [|t ts] H; cbn in H; try discriminate; [reflexivity|].
  cbn [List.length]. f_equal. apply IH. destruct x; [exact H|].
  apply andb_true_iff in H. apply H.
Qed.

(* Coordinates: the documented reader of each program recovers the element symbol and every
   coordinate within 1e-5 of the exact value, for every atom (any rational coordinates). *)
Theorem coordinates_accurate :
  forall p k tpl, In (p, k, tpl) lines -> (k = LCoord \/ k = LCoordFixed) ->
  forall a, label_ok sep_blank_only (a_label a) ->
  exists x y z,
    read_atom p k (render (env_of_atom a) tpl) = Some (mkAtom (a_label a) x y z) /\
    (Qabs (x - a_x a) <= 1 # 100000)%Q /\ (Qabs (y - a_y a) <= 1 # 100000)%Q /\
    (Qabs (z - a_z a) <= 1 # 100000)%Q.
Proof.
  intros p k tpl Hin Hk a Ha.
  assert (Hc : covered k = true) by (destruct Hk as [->| ->]; reflexivity).
  pose proof (line_in_ok _ _ _ Hin Hc) as Hok.
  destruct (line_ok_layout _ _ _ Hok) as [sc [ex Hex]].
  destruct (coord_layout_fields _ _ _ _ Hk Hex) as [-> [Hl [Hx [Hy Hz]]]].
  pose proof (env_of_atom_ok SBlank a Ha) as Henv.
  exists (roundq (decimals_of FX tpl) (a_x a)), (roundq (decimals_of FY tpl) (a_y a)),
         (roundq (decimals_of FZ tpl) (a_z a)).
  split; [exact (read_atom_render p k tpl SBlank ex a Hok Hex Hl Hx Hy Hz Ha)|].
  destruct (read_q_fixed p k tpl SBlank ex _ FX Hok Hex Henv Hx ltac:(auto)) as [_ Dx].
  destruct (read_q_fixed p k tpl SBlank ex _ FY Hok Hex Henv Hy ltac:(auto)) as [_ Dy].
  destruct (read_q_fixed p k tpl SBlank ex _ FZ Hok Hex Henv Hz ltac:(auto)) as [_ Dz].
  repeat split; apply fixed_accurate; assumption.
Qed.

(* Atoms are written in order and none is lost or duplicated.  Tied to the code through two GENERATED facts: the
   line template (lines) and the shape of the loop around it (coord_loops: `for atom in <atoms>`, binding
   `x, y, z = atom.coord`, no continue/break/return — a slice, reversed(...), a swapped binding or a unit
   conversion of atom.coord changes the generated row and this theorem no longer builds).  For such a loop the
   written block, read by the program's documented reader, is the same list with every coordinate rounded to the
   printed decimals — for any atom list (induction).  NOT covered here (correspondence only): that the list the
   loop runs over IS the species' atom list (MOPAC passes an interpolated copy; xTB adds explicit solvent). *)
Theorem atoms_in_order :
  (forall p l, In (p, l) coord_loops -> loop_ok l = true) /\
  forallb (fun p => Nat.eqb (List.length (filter (fun r => program_eqb p (fst r)) coord_loops)) 1)
          [ORCA; G09; G16; NWChem; QChem; MOPAC; XYZ] = true /\
  forall p l k tpl, In (p, l) coord_loops -> In (p, k, tpl) lines -> (k = LCoord \/ k = LCoordFixed) ->
  forall atoms, Forall (fun a => label_ok sep_blank_only (a_label a)) atoms ->
  exists ls, write_atoms_by l tpl atoms = Some ls /\
             read_atoms p k ls = Some (map (round_atom tpl) atoms) /\
             List.length ls = List.length atoms.
Proof.
  assert (HL : forall p l, In (p, l) coord_loops -> loop_ok l = true).
  { intros p l Hin. pose proof all_loops_ok as A. rewrite forallb_forall in A. exact (A _ Hin). }
  split; [exact HL|]. split; [exact loops_cover|].
  intros p l k tpl Hl Hin Hk atoms Hall.
  assert (Hc : covered k = true) by (destruct Hk as [->| ->]; reflexivity).
  pose proof (line_in_ok _ _ _ Hin Hc) as Hok.
  destruct (line_ok_layout _ _ _ Hok) as [sc [ex Hex]].
  destruct (coord_layout_fields _ _ _ _ Hk Hex) as [-> [Hlb [Hx [Hy Hz]]]].
  exists (write_atoms tpl atoms). unfold write_atoms_by. rewrite (HL _ _ Hl).
  split; [reflexivity|].
  split; [exact (read_atoms_write p k tpl SBlank ex Hok Hex Hlb Hx Hy Hz atoms Hall)|].
  unfold write_atoms. apply map_length.
Qed.

(* Index base: every constraint / added-internal printer adds exactly the offset of the first atom
   in the target program's syntax (ORCA 0; Gaussian, Q-Chem, xTB 1), so the documented reader of
   that program — which subtracts its own base — gets the package's 0-based indices back, for all
   indices.  The xTB `atoms:` list uses the same base. *)
Theorem index_base_table :
  (forall p k tpl, In (p, k, tpl) lines ->
     (k = LDist \/ k = LDistFreeze \/ k = LCart \/ k = LInternal) ->
     exists sc ex, expected_layout p k = Some (sc, ex) /\ In (EF FI) ex /\
       (exists sp off, spec_of_field FI tpl = Some sp /\ s_kind sp = KInt off /\ index_base p = Some off) /\
       forall e, env_ok (sepf sc) e ->
         read_int p k FI (render e tpl) = Some (e_i e) /\
         (In (EF FJ) ex -> read_int p k FJ (render e tpl) = Some (e_j e) /\
            exists sp off, spec_of_field FJ tpl = Some sp /\ s_kind sp = KInt off /\ index_base p = Some off)) /\
  index_base XTB = Some xtb_cart_offset.
Proof.
  split; [|reflexivity].
  intros p k tpl Hin Hk.
  assert (Hc : covered k = true) by (destruct Hk as [->|[->|[->| ->]]]; reflexivity).
  pose proof (line_in_ok _ _ _ Hin Hc) as Hok.
  destruct (line_ok_layout _ _ _ Hok) as [sc [ex Hex]]. exists sc, ex. split; [exact Hex|].
  assert (HI : In (EF FI) ex).
  { destruct Hk as [->|[->|[->| ->]]]; destruct p; cbn in Hex; try discriminate;
      injection Hex as <- <-; cbn; tauto. }
  split; [exact HI|].
  assert (Hbase : forall f, f = FI \/ f = FJ -> int_offset_expected p k f = index_base p)
    by (intros f [->| ->]; reflexivity).
  split.
  - assert (He : env_ok (sepf sc) (env_of_atom (mkAtom dummy_text 0 0 0))).
    { apply env_of_atom_ok. cbn [a_label]. split; [apply dummy_nosep|]. split; [discriminate|].
      cbn. pose proof all_lines_ok. unfold max_label_len. lia. }
    destruct (read_int_render p k tpl sc ex _ FI Hok Hex He HI ltac:(auto)) as [_ [sp [off [H1 [H2 H3]]]]].
    exists sp, off. rewrite <- (Hbase FI ltac:(auto)). auto.
  - intros e He. split.
    + exact (proj1 (read_int_render p k tpl sc ex e FI Hok Hex He HI ltac:(auto))).
    + intros HJ.
      destruct (read_int_render p k tpl sc ex e FJ Hok Hex He HJ ltac:(auto)) as [R [sp [off [H1 [H2 H3]]]]].
      split; [exact R|]. exists sp, off. rewrite <- (Hbase FJ ltac:(auto)). auto.
Qed.

(* PARTIAL ("charge and multiplicity present").  Proved: on every generated charge / multiplicity line the
   documented reader returns exactly the species' charge and multiplicity (NWChem's `nopen` carries mult-1 and is
   read back as mult), for all integers.  The last two conjuncts only say that each listed program's SOURCE
   contains a print statement for the field.  That the line is emitted for EVERY keyword set is proved for NWChem
   (the only wrapper where it depends on the keywords) in nwchem_multiplicity_always_written below; for ORCA,
   Gaussian and Q-Chem the charge/multiplicity line is printed unconditionally next to the coordinates (pinned,
   checked by correspondence); MOPAC's spin keywords and xTB's command-line flags are correspondence only. *)
Theorem charge_mult_lines_read_back_partial :
  (forall p k tpl, In (p, k, tpl) lines ->
     (k = LChargeMult \/ k = LCharge \/ k = LMult \/ k = LNopen) ->
     exists sc ex, expected_layout p k = Some (sc, ex) /\
       forall e, env_ok (sepf sc) e ->
         (In (EF FChg) ex -> read_int p k FChg (render e tpl) = Some (e_chg e)) /\
         (In (EF FMult) ex -> read_int p k FMult (render e tpl) = Some (e_mult e))) /\
  forallb (prints FChg) [ORCA; G09; G16; NWChem; QChem; MOPAC] = true /\
  forallb (prints FMult) [ORCA; G09; G16; NWChem; QChem] = true.
Proof.
  split; [|split; [exact charge_printed|exact mult_printed]].
  intros p k tpl Hin Hk.
  assert (Hc : covered k = true) by (destruct Hk as [->|[->|[->| ->]]]; reflexivity).
  pose proof (line_in_ok _ _ _ Hin Hc) as Hok.
  destruct (line_ok_layout _ _ _ Hok) as [sc [ex Hex]]. exists sc, ex. split; [exact Hex|].
  intros e He. split; intros Hf.
  - exact (proj1 (read_int_render p k tpl sc ex e FChg Hok Hex He Hf ltac:(auto))).
  - exact (proj1 (read_int_render p k tpl sc ex e FMult Hok Hex He Hf ltac:(auto 6))).
Qed.

(* NWChem writes a multiplicity line for every keyword set (the clause that was false before /repo 42fe139).
   The guard of the trailing `scf / nopen` insertion is GENERATED (nwchem_tail_guard); the branch order of the
   keyword loop is checked by the translator and modelled in Model.nw_loop.  For every list of translated keywords
   in which no dft block is caught by the single-atom `opt` rewrite, the input carries a `mult` (dft) or a `nopen`
   (scf) line written by the wrapper, or the user's own keywords already contain `nopen`. *)
Theorem nwchem_multiplicity_always_written :
  forall (task_scf : bool) (ks : list nwkw), dft_hit_by_opt1 ks = false ->
  nw_spin_lines nwchem_tail_guard task_scf ks <> [] \/ user_nopen ks = true.
Proof.
  intros task_scf ks H. unfold nw_spin_lines. change nwchem_tail_guard with GuardNoDftNoNopen.
  assert (Hk : forallb (fun k => negb (k_opt1 k && k_dft k)) ks = true).
  { unfold dft_hit_by_opt1 in H. clear - H. induction ks as [|k r IH]; [reflexivity|].
    cbn [existsb forallb] in *. apply orb_false_iff in H. destruct H as [H1 H2]. rewrite H1, (IH H2). reflexivity. }
  pose proof (nw_loop_inv ks [] false false Hk) as I.
  destruct (nw_loop ks [] false false) as [[a d] n]. destruct I as [_ [I2 I3]].
  destruct d.
  - left. cbn [negb andb]. apply I2; [discriminate|discriminate|reflexivity].
  - destruct n.
    + cbn [negb andb]. destruct (I3 eq_refl) as [E|[E|E]]; [left; exact E|right; exact E|discriminate].
    + left. cbn [negb andb]. intros E. apply app_eq_nil in E. destruct E. discriminate.
Qed.

(* ... and the premise is needed: for a single atom, a dft block whose text contains "opt" (a functional called
   optx, optc ...) is rewritten by the `opt` -> `energy` rule BEFORE the dft branch, so no `mult` is inserted and the
   trailing guard sees a keyword starting with "dft": no multiplicity line at all.  Replays on the implementation
   as finding nwchem.generate_input|single-atom-opt-rewrite-hits-dft-block (harness/c17.py). *)
Theorem nwchem_multiplicity_single_atom_opt_refuted :
  exists ks, dft_hit_by_opt1 ks = true /\ nw_spin_lines nwchem_tail_guard false ks = [] /\ user_nopen ks = false.
Proof. exists [mkNw true false false true]. vm_compute. repeat split. Qed.

(* Point charges: position within 1e-5 Angstrom and charge within 1e-5 e of the exact values (every generated
   point-charge spec is fixed point with at least 5 decimals: swept by line_ok / spec_ok). *)
Theorem point_charges_readable :
  forall p tpl, In (p, LPointCharge, tpl) lines ->
  exists sc ex, expected_layout p LPointCharge = Some (sc, ex) /\
  forall e, env_ok (sepf sc) e ->
    forall f, f = FX \/ f = FY \/ f = FZ \/ f = FQ ->
       exists v, read_q p LPointCharge f (render e tpl) = Some v /\
                 (Qabs (v - qval e f) <= 1 # 100000)%Q.
Proof.
  intros p tpl Hin. pose proof (line_in_ok _ _ _ Hin eq_refl) as Hok.
  destruct (line_ok_layout _ _ _ Hok) as [sc [ex Hex]]. exists sc, ex. split; [exact Hex|].
  destruct (pc_layout_fields _ _ _ Hex) as [Hq [Hx [Hy Hz]]].
  intros e He f Hf. destruct Hf as [Hf|[Hf|[Hf|Hf]]].
  1-3: assert (Hfin : In (EF f) ex) by (subst f; assumption);
       destruct (read_q_fixed p _ tpl sc ex e f Hok Hex He Hfin ltac:(subst f; auto)) as [R D];
       eexists; (split; [exact R|]); apply fixed_accurate; exact D.
  subst f.
  destruct (read_tok_render p _ tpl sc ex e FQ Hok Hex He Hq) as [sp [H1 [H2 _]]].
  cbn [spec_ok] in H2. destruct (s_kind sp) as [d| | |] eqn:K; try discriminate.
  apply Nat.leb_le in H2. destruct d as [|d]; [lia|].
  exists (roundq (S d) (qval e FQ)). split.
  - exact (read_q_kfixed p _ tpl sc ex e FQ sp d Hok Hex He Hq H1 K).
  - apply fixed_accurate. exact H2.
Qed.

(* PARTIAL: constrained distance VALUES.  Where a wrapper prints the distance with a fixed-point
   spec (Q-Chem .5f, xTB .4f) the reader gets it back within half a unit of the last decimal — that
   is 5e-6 for Q-Chem but 5e-5 Angstrom for xTB (the property fixes 1e-5 only for coordinates).
   ORCA and Gaussian print str(float) (shortest round-trip repr); that text is an oracle here and
   its accuracy is checked by correspondence only. *)
Theorem constraint_distance_partial :
  forall p tpl sp d, In (p, LDist, tpl) lines ->
  spec_of_field FDist tpl = Some sp -> s_kind sp = KFixed (S d) ->
  exists sc ex, expected_layout p LDist = Some (sc, ex) /\
  forall e, env_ok (sepf sc) e ->
    exists v, read_q p LDist FDist (render e tpl) = Some v /\
              (Qabs (v - e_dist e) <= 1 # (2 * Z.to_pos (pow10 (S d))))%Q.
Proof.
  intros p tpl sp d Hin Hsp Hk. pose proof (line_in_ok _ _ _ Hin eq_refl) as Hok.
  destruct (line_ok_layout _ _ _ Hok) as [sc [ex Hex]]. exists sc, ex. split; [exact Hex|].
  assert (HD : In (EF FDist) ex).
  { destruct p; cbn in Hex; try discriminate; injection Hex as <- <-; cbn; tauto. }
  intros e He. exists (roundq (S d) (qval e FDist)). split.
  - exact (read_q_kfixed p _ tpl sc ex e FDist sp d Hok Hex He HD Hsp Hk).
  - apply roundq_close.
Qed.

(* non-vacuity: the generated table has coordinate lines for all eight writers, the hypotheses on
   labels are satisfiable, and a concrete atom is read back *)
Example nonvacuous :
  (forall p, In p [ORCA; G09; G16; NWChem; QChem; MOPAC; XYZ] -> templates_of p LCoord <> []) /\
  label_ok sep_blank_only (s2l "Cl") /\
  (exists tpl, In (XYZ, LCoord, tpl) lines /\
     read_atom XYZ LCoord (render (env_of_atom (mkAtom (s2l "Cl") (-1 # 1000000) (1000123456789 # 1000000000) (7 # 2))) tpl)
     = Some (mkAtom (s2l "Cl") (0 # 100000) (100012346 # 100000) (350000 # 100000))) /\
  (40 <= List.length lines)%nat.
Proof.
  split; [|split; [|split]].
  - intros p Hp. cbn in Hp.
    destruct Hp as [<-|[<-|[<-|[<-|[<-|[<-|[<-|[]]]]]]]]; vm_compute; discriminate.
  - split; [|split].
    + repeat constructor.
    + discriminate.
    + vm_compute. lia.
  - eexists. split.
    + unfold lines. repeat (first [left; reflexivity | right]).
    + vm_compute. reflexivity.
  - vm_compute. lia.
Qed.
