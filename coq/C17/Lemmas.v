(* C17/Lemmas.v — proofs about the line models of Model.v:
   tokens of a rendered template are exactly the tokens of its items when adjacent items are
   separated (tokens_render); a template that passes the decidable check line_ok is read back by the
   documented reader (read_tok_render) with the decimal / integer round trips of Decimal.v. *)
From Coq Require Import ZArith QArith Qabs List Ascii String Bool Lia.
From AV.C17 Require Import Base Decimal Model.
From AV.gen Require Import C17_Gen.
Import ListNotations.
Open Scope list_scope.

(* ------------------------------------------------------------------ small facts *)
Lemma field_eqb_eq f g : field_eqb f g = true -> f = g.
Proof. destruct f, g; cbn; intros H; try discriminate; reflexivity. Qed.
Lemma field_eqb_refl f : field_eqb f f = true.
Proof. destruct f; reflexivity. Qed.

Lemma str_eqb_eq a : forall b, str_eqb a b = true -> a = b.
Proof.
  induction a as [|x a IH]; intros [|y b] H; cbn in H; try discriminate; [reflexivity|].
  apply andb_true_iff in H. destruct H as [H1 H2]. apply Ascii.eqb_eq in H1. subst.
  f_equal. apply IH. exact H2.
Qed.
Lemma str_eqb_refl a : str_eqb a a = true.
Proof. induction a as [|x a IH]; [reflexivity|]. cbn. rewrite Ascii.eqb_refl, IH. reflexivity. Qed.

Lemma sepf_blank sc : sepf sc blank_c = true.
Proof. destruct sc; reflexivity. Qed.

Lemma numchar_not_sep_eq c : numchar c -> sep_eq c = false.
Proof.
  intros [[z [H ->]]|[->| ->]]; [|reflexivity|reflexivity].
  destruct (digit_cases z H) as [E|[E|[E|[E|[E|[E|[E|[E|[E|E]]]]]]]]]; subst; reflexivity.
Qed.
Lemma sepf_num sc c : numchar c -> sepf sc c = false.
Proof.
  destruct sc; cbn [sepf]; [apply numchar_not_sep_blank|apply numchar_not_sep_xtb|apply numchar_not_sep_eq].
Qed.

Lemma dummy_nosep sc : nosep (sepf sc) dummy_text.
Proof.
  constructor; [|constructor]. apply sepf_num. left. exists 0%Z. split; [lia|reflexivity].
Qed.

(* ------------------------------------------------------------------ rendering and tokens *)
Section Render.
  Variable sc : sepclass.
  Let sep := sepf sc.
  Variable e : env.
  Hypothesis Henv : env_ok sep e.

  Lemma numchars_nosep w : Forall numchar w -> nosep sep w.
  Proof. intros H. eapply Forall_impl; [|exact H]. intros c Hc. apply sepf_num. exact Hc. Qed.

  Lemma field_text_ok f sp : nosep sep (field_text e f sp) /\ field_text e f sp <> [].
  Proof.
    destruct Henv as [[Hl1 [Hl2 _]] [Hd1 [Hd2 [Ho1 Ho2]]]].
    unfold field_text. destruct (s_kind sp).
    - split; [apply numchars_nosep, fmt_fixed_numchars|apply fmt_fixed_nonempty].
    - split; assumption.
    - split; [apply numchars_nosep, show_Z_numchars|apply show_Z_nonempty].
    - destruct f; split; assumption.
  Qed.

  Lemma pad_tokens sp w : tokens sep (pad sp w) = tokens sep w.
  Proof.
    unfold pad. pose proof (sepf_blank sc) as Hb.
    generalize (s_width sp - List.length w)%nat as tot. intros tot. cbv zeta. destruct (s_align sp).
    - exact (tokens_pad sep Hb 0 tot w).
    - pose proof (tokens_pad sep Hb tot 0 w) as H. cbn [repeat] in H. rewrite app_nil_r in H. exact H.
    - apply (tokens_pad sep Hb).
  Qed.

  Lemma tokens_render_item it :
    tokens sep (render_item e it) = map (tok_text e) (item_toks sep it).
  Proof.
    destruct it as [s|f sp]; cbn [render_item item_toks].
    - rewrite map_map. cbn [tok_text]. rewrite map_id. reflexivity.
    - rewrite pad_tokens. destruct (field_text_ok f sp) as [H1 H2].
      cbn [map tok_text]. apply tokens_word; assumption.
  Qed.

  Lemma last_is_sep_ends s : last_is_sep sep s = true -> ends_sep sep s.
  Proof.
    unfold last_is_sep. destruct (rev s) as [|c t] eqn:E; [discriminate|]. intros Hc.
    exists (rev t), c. split; [|exact Hc].
    rewrite <- (rev_involutive s), E. reflexivity.
  Qed.

  Lemma item_ends it : item_ends_sep sep it = true -> ends_sep sep (render_item e it).
  Proof.
    destruct it as [s|f sp]; cbn [item_ends_sep render_item].
    - apply last_is_sep_ends.
    - destruct (s_kind sp) eqn:K; try discriminate. destruct (s_align sp) eqn:A; try discriminate.
      intros H. apply Nat.ltb_lt in H.
      destruct Henv as [[_ [_ Hlen]] _].
      unfold pad, field_text. rewrite K, A.
      remember (s_width sp - List.length (e_label e))%nat as tot eqn:Et.
      destruct tot as [|m]; [lia|].
      exists (e_label e ++ repeat blank_c m), blank_c. split; [|apply sepf_blank].
      rewrite <- app_assoc. f_equal. cbn [repeat]. apply repeat_cons.
  Qed.

  Lemma item_starts it rest : item_starts_sep sep it = true ->
    starts_sep sep (render_item e it ++ rest).
  Proof.
    destruct it as [s|f sp]; cbn [item_starts_sep render_item]; [|discriminate].
    unfold first_is_sep. destruct (s2l s) as [|c t]; [discriminate|]. intros Hc.
    exists c, (t ++ rest). split; [reflexivity|exact Hc].
  Qed.

  (* fields never merge: the tokens of a rendered line are the tokens of its items, one per field,
     whatever the magnitudes (hence widths) of the printed numbers *)
  Lemma tokens_render tpl : wsep sep tpl = true ->
    tokens sep (render e tpl) = map (tok_text e) (layout sep tpl).
  Proof.
    induction tpl as [|a r IH]; intros Hw; [reflexivity|].
    unfold render, layout. cbn [flat_map]. fold (render e r). fold (layout sep r).
    rewrite map_app, <- tokens_render_item.
    destruct r as [|b r'].
    - unfold render, layout. cbn [flat_map map]. rewrite !app_nil_r. reflexivity.
    - cbn [wsep] in Hw. apply andb_true_iff in Hw. destruct Hw as [H1 H2].
      rewrite <- (IH H2). apply orb_true_iff in H1. destruct H1 as [H1|H1].
      + apply tokens_app_l. apply item_ends. exact H1.
      + apply tokens_app_r. unfold render. cbn [flat_map]. apply item_starts. exact H1.
  Qed.
End Render.

(* ------------------------------------------------------------------ documented reader on a matching layout *)
Lemma lmatch_shape p k e : forall L ex, lmatch p k L ex = true ->
  shape_ok (map (tok_text e) L) ex = true.
Proof.
  induction L as [|t L IH]; intros [|x ex] H; cbn in H; try discriminate; [reflexivity| |].
  - destruct t; discriminate.
  - destruct t as [f sp|s], x as [g|s']; try discriminate; cbn [map tok_text shape_ok].
    + apply andb_true_iff in H. destruct H as [_ H]. apply IH. exact H.
    + apply andb_true_iff in H. destruct H as [H1 H2]. rewrite H1. apply IH. exact H2.
Qed.

Lemma lmatch_pick p k e f : forall L ex, lmatch p k L ex = true -> In (EF f) ex ->
  exists sp, first_tf f L = Some sp /\
             pick f (map (tok_text e) L) ex = Some (field_text e f sp) /\
             spec_ok p k f sp = true.
Proof.
  induction L as [|t L IH]; intros [|x ex] H Hin; cbn in H; try discriminate.
  - destruct Hin.
  - destruct t; discriminate.
  - destruct t as [g sp|s], x as [g'|s']; try discriminate.
    + apply andb_true_iff in H. destruct H as [H H3]. apply andb_true_iff in H. destruct H as [H1 H2].
      apply field_eqb_eq in H1. subst g'.
      cbn [map tok_text pick first_tf]. destruct (field_eqb f g) eqn:E.
      * apply field_eqb_eq in E. subst g. exists sp. auto.
      * destruct Hin as [Hin|Hin].
        { injection Hin as ->. rewrite field_eqb_refl in E. discriminate. }
        apply IH; assumption.
    + apply andb_true_iff in H. destruct H as [_ H2]. cbn [map tok_text pick first_tf].
      destruct Hin as [Hin|Hin]; [discriminate|]. apply IH; assumption.
Qed.

Lemma first_tf_app_TL f ws L : first_tf f (map TL ws ++ L) = first_tf f L.
Proof. induction ws as [|w ws IH]; [reflexivity|]. cbn [map app first_tf]. exact IH. Qed.

Lemma first_tf_layout sep f tpl : first_tf f (layout sep tpl) = spec_of_field f tpl.
Proof.
  induction tpl as [|it r IH]; [reflexivity|].
  unfold layout. cbn [flat_map]. fold (layout sep r). destruct it as [s|g sp]; cbn [item_toks spec_of_field].
  - rewrite first_tf_app_TL. exact IH.
  - cbn [app first_tf]. rewrite IH. reflexivity.
Qed.

(* the central lemma: a generated template that passes line_ok is read back field by field *)
Lemma read_tok_render p k tpl sc ex e f :
  line_ok p k tpl = true -> expected_layout p k = Some (sc, ex) -> env_ok (sepf sc) e ->
  In (EF f) ex ->
  exists sp, spec_of_field f tpl = Some sp /\ spec_ok p k f sp = true /\
             read_tok p k f (render e tpl) = Some (field_text e f sp).
Proof.
  intros Hok Hex Henv Hin. unfold line_ok in Hok. rewrite Hex in Hok.
  apply andb_true_iff in Hok. destruct Hok as [Hw Hm].
  destruct (lmatch_pick p k e f _ _ Hm Hin) as [sp [H1 [H2 H3]]].
  exists sp. split; [rewrite <- (first_tf_layout (sepf sc)); exact H1|]. split; [exact H3|].
  unfold read_tok. rewrite Hex. cbv zeta.
  rewrite (tokens_render sc e Henv tpl Hw), (lmatch_shape p k e _ _ Hm). exact H2.
Qed.

(* typed consequences *)
Lemma spec_ok_coord p k f sp : (f = FX \/ f = FY \/ f = FZ) -> spec_ok p k f sp = true ->
  exists d, s_kind sp = KFixed (S d) /\ (5 <= S d)%nat.
Proof.
  intros Hf H. assert (Hk : match s_kind sp with KFixed d => (5 <=? d)%nat | _ => false end = true).
  { destruct Hf as [->|[->| ->]]; exact H. }
  destruct (s_kind sp) as [d| | |]; try discriminate. apply Nat.leb_le in Hk.
  destruct d as [|d]; [lia|]. exists d. split; [reflexivity|exact Hk].
Qed.

Lemma read_q_fixed p k tpl sc ex e f :
  line_ok p k tpl = true -> expected_layout p k = Some (sc, ex) -> env_ok (sepf sc) e ->
  In (EF f) ex -> (f = FX \/ f = FY \/ f = FZ) ->
  read_q p k f (render e tpl) = Some (roundq (decimals_of f tpl) (qval e f)) /\
  (5 <= decimals_of f tpl)%nat.
Proof.
  intros Hok Hex Henv Hin Hf.
  destruct (read_tok_render p k tpl sc ex e f Hok Hex Henv Hin) as [sp [H1 [H2 H3]]].
  destruct (spec_ok_coord p k f sp Hf H2) as [d [Hk Hd]].
  unfold read_q, decimals_of. rewrite H3, H1, Hk. unfold field_text. rewrite Hk.
  split; [apply parse_fmt_fixed|exact Hd].
Qed.

Lemma read_int_render p k tpl sc ex e f :
  line_ok p k tpl = true -> expected_layout p k = Some (sc, ex) -> env_ok (sepf sc) e ->
  In (EF f) ex -> (f = FChg \/ f = FMult \/ f = FI \/ f = FJ \/ f = FN) ->
  read_int p k f (render e tpl) = Some (zval e f) /\
  exists sp off, spec_of_field f tpl = Some sp /\ s_kind sp = KInt off /\
                 int_offset_expected p k f = Some off.
Proof.
  intros Hok Hex Henv Hin Hf.
  destruct (read_tok_render p k tpl sc ex e f Hok Hex Henv Hin) as [sp [H1 [H2 H3]]].
  assert (Hk : exists off, s_kind sp = KInt off /\ int_offset_expected p k f = Some off).
  { assert (Hs : match s_kind sp, int_offset_expected p k f with
                 | KInt off, Some o => Z.eqb off o | _, _ => false end = true).
    { destruct Hf as [->|[->|[->|[->| ->]]]]; exact H2. }
    destruct (s_kind sp) as [d| |off|]; try discriminate.
    destruct (int_offset_expected p k f) as [o|]; try discriminate.
    apply Z.eqb_eq in Hs. subst o. exists off. split; reflexivity. }
  destruct Hk as [off [Hk Ho]]. split.
  - unfold read_int. rewrite H3, Ho. unfold field_text. rewrite Hk, read_show_Z.
    cbn [option_map]. f_equal. lia.
  - exists sp, off. auto.
Qed.

Lemma read_label_render p k tpl sc ex e :
  line_ok p k tpl = true -> expected_layout p k = Some (sc, ex) -> env_ok (sepf sc) e ->
  In (EF FLabel) ex ->
  read_tok p k FLabel (render e tpl) = Some (e_label e).
Proof.
  intros Hok Hex Henv Hin.
  destruct (read_tok_render p k tpl sc ex e FLabel Hok Hex Henv Hin) as [sp [H1 [H2 H3]]].
  rewrite H3. cbn [spec_ok] in H2. unfold field_text. destruct (s_kind sp); try discriminate. reflexivity.
Qed.

(* ------------------------------------------------------------------ atoms *)
Lemma env_of_atom_ok sc a : label_ok (sepf sc) (a_label a) -> env_ok (sepf sc) (env_of_atom a).
Proof.
  intros H. unfold env_ok, env_of_atom. cbn [e_label e_dtext e_other].
  repeat split; try exact (dummy_nosep sc); try discriminate; apply H.
Qed.

Lemma read_atom_render p k tpl sc ex a :
  line_ok p k tpl = true -> expected_layout p k = Some (sc, ex) ->
  In (EF FLabel) ex -> In (EF FX) ex -> In (EF FY) ex -> In (EF FZ) ex ->
  label_ok (sepf sc) (a_label a) ->
  read_atom p k (render (env_of_atom a) tpl) = Some (round_atom tpl a).
Proof.
  intros Hok Hex Hl Hx Hy Hz Ha. pose proof (env_of_atom_ok sc a Ha) as Henv.
  unfold read_atom.
  rewrite (read_label_render p k tpl sc ex _ Hok Hex Henv Hl).
  destruct (read_q_fixed p k tpl sc ex _ FX Hok Hex Henv Hx ltac:(auto)) as [-> _].
  destruct (read_q_fixed p k tpl sc ex _ FY Hok Hex Henv Hy ltac:(auto)) as [-> _].
  destruct (read_q_fixed p k tpl sc ex _ FZ Hok Hex Henv Hz ltac:(auto)) as [-> _].
  reflexivity.
Qed.

Lemma read_atoms_write p k tpl sc ex :
  line_ok p k tpl = true -> expected_layout p k = Some (sc, ex) ->
  In (EF FLabel) ex -> In (EF FX) ex -> In (EF FY) ex -> In (EF FZ) ex ->
  forall atoms, Forall (fun a => label_ok (sepf sc) (a_label a)) atoms ->
  read_atoms p k (write_atoms tpl atoms) = Some (map (round_atom tpl) atoms).
Proof.
  intros Hok Hex Hl Hx Hy Hz atoms Hall. induction Hall as [|a atoms Ha Hall IH]; [reflexivity|].
  cbn [write_atoms map read_atoms]. fold (write_atoms tpl atoms).
  rewrite (read_atom_render p k tpl sc ex a Hok Hex Hl Hx Hy Hz Ha), IH. reflexivity.
Qed.

Lemma read_q_kfixed p k tpl sc ex e f sp d :
  line_ok p k tpl = true -> expected_layout p k = Some (sc, ex) -> env_ok (sepf sc) e ->
  In (EF f) ex -> spec_of_field f tpl = Some sp -> s_kind sp = KFixed (S d) ->
  read_q p k f (render e tpl) = Some (roundq (S d) (qval e f)).
Proof.
  intros Hok Hex Henv Hin Hsp Hk.
  destruct (read_tok_render p k tpl sc ex e f Hok Hex Henv Hin) as [sp' [H1 [_ H3]]].
  rewrite Hsp in H1. injection H1 as <-.
  unfold read_q. rewrite H3. unfold field_text. rewrite Hk. apply parse_fmt_fixed.
Qed.

(* ------------------------------------------------------------------ the finite sweeps over the generated table *)
Definition row_ok (r : program * lkind * list item) : bool :=
  let '(p, k, tpl) := r in implb (covered k) (line_ok p k tpl).
Lemma all_lines_ok : forallb row_ok lines = true.
Proof. vm_compute. reflexivity. Qed.

Lemma line_in_ok p k tpl : In (p, k, tpl) lines -> covered k = true -> line_ok p k tpl = true.
Proof.
  intros Hin Hc. pose proof all_lines_ok as A. rewrite forallb_forall in A.
  specialize (A _ Hin). cbn [row_ok] in A. rewrite Hc in A. exact A.
Qed.

Lemma line_ok_layout p k tpl : line_ok p k tpl = true ->
  exists sc ex, expected_layout p k = Some (sc, ex).
Proof.
  unfold line_ok. destruct (expected_layout p k) as [[sc ex]|]; [eauto|discriminate].
Qed.

(* coordinate lines: blank-separated, all four fields present *)
Lemma coord_layout_fields p k sc ex : (k = LCoord \/ k = LCoordFixed) ->
  expected_layout p k = Some (sc, ex) ->
  sc = SBlank /\ In (EF FLabel) ex /\ In (EF FX) ex /\ In (EF FY) ex /\ In (EF FZ) ex.
Proof.
  intros [->| ->] H; destruct p; cbn in H; try discriminate; injection H as <- <-; cbn; tauto.
Qed.
Lemma pc_layout_fields p sc ex :
  expected_layout p LPointCharge = Some (sc, ex) ->
  In (EF FQ) ex /\ In (EF FX) ex /\ In (EF FY) ex /\ In (EF FZ) ex.
Proof. intros H; destruct p; cbn in H; try discriminate; injection H as <- <-; cbn; tauto. Qed.

Definition is_coord_field (f : field) : bool := match f with FX | FY | FZ => true | _ => false end.
Definition coord_spec_ok (r : program * field * spec) : bool :=
  let '(_, f, sp) := r in
  implb (is_coord_field f) (match s_kind sp with KFixed d => (5 <=? d)%nat | _ => false end).
Lemma all_coord_specs_ok : forallb coord_spec_ok spec_table = true.
Proof. vm_compute. reflexivity. Qed.

(* every program that has a place for it prints the charge / the multiplicity *)
Definition prints (f : field) (p : program) : bool :=
  existsb (fun r => let '(p', k, tpl) := r in
             match expected_layout p' k with
             | Some (_, ex) => andb (match spec_of_field f tpl with Some _ => true | None => false end)
                                 (andb (existsb (fun t => match t with EF g => field_eqb f g | EL _ => false end) ex)
                                       (match p, p' with
                                        | ORCA, ORCA | G09, G09 | G16, G16 | NWChem, NWChem | QChem, QChem
                                        | XTB, XTB | MOPAC, MOPAC | XYZ, XYZ => true | _, _ => false end))
             | None => false
             end) lines.
Lemma charge_printed : forallb (prints FChg) [ORCA; G09; G16; NWChem; QChem; MOPAC] = true.
Proof. vm_compute. reflexivity. Qed.
Lemma mult_printed : forallb (prints FMult) [ORCA; G09; G16; NWChem; QChem] = true.
Proof. vm_compute. reflexivity. Qed.

(* every generated coordinate loop iterates over all atoms in order with x, y, z = atom.coord *)
Definition loop_row_ok (r : program * loop) : bool := loop_ok (snd r).
Lemma all_loops_ok : forallb loop_row_ok coord_loops = true.
Proof. vm_compute. reflexivity. Qed.
Definition program_eqb (p q : program) : bool :=
  match p, q with
  | ORCA, ORCA | G09, G09 | G16, G16 | NWChem, NWChem | QChem, QChem | XTB, XTB | MOPAC, MOPAC | XYZ, XYZ => true
  | _, _ => false
  end.
(* each writer with a coordinate template has exactly one loop row (xTB's input is written by the xyz writer) *)
Lemma loops_cover : forallb (fun p => Nat.eqb (List.length (filter (fun r => program_eqb p (fst r)) coord_loops)) 1)
                            [ORCA; G09; G16; NWChem; QChem; MOPAC; XYZ] = true.
Proof. vm_compute. reflexivity. Qed.

(* ------------------------------------------------------------------ NWChem multiplicity control flow *)
Lemma nw_loop_inv ks : forall acc dft nopen,
  forallb (fun k => negb (k_opt1 k && k_dft k)) ks = true ->
  let '(acc', dft', nopen') := nw_loop ks acc dft nopen in
  (acc <> [] -> acc' <> []) /\
  ((dft = true -> acc <> []) -> (nopen = true -> acc <> [] \/ existsb k_nopen ks = true \/ nopen = true) ->
   (dft' = true -> acc' <> [])) /\
  (nopen' = true -> acc' <> [] \/ existsb k_nopen ks = true \/ nopen = true).
Proof.
  induction ks as [|k r IH]; intros acc dft nopen Hk; cbn [nw_loop].
  - repeat split; auto.
  - cbn [forallb] in Hk. apply andb_true_iff in Hk. destruct Hk as [Hk Hr].
    cbn [existsb].
    destruct (k_opt1 k) eqn:O.
    + cbn [andb] in Hk. apply negb_true_iff in Hk. rewrite Hk, orb_false_r.
      specialize (IH acc dft (nopen || k_nopen k) Hr).
      destruct (nw_loop r acc dft (nopen || k_nopen k)) as [[a d] n]. destruct IH as [I1 [I2 I3]].
      split; [exact I1|]. split.
      * intros Hd Hn. apply I2; [exact Hd|]. intros E. right. right. exact E.
      * intros E. destruct (I3 E) as [H|[H|H]]; [left; exact H|right; left; rewrite H; apply orb_true_r|].
        apply orb_true_iff in H. destruct H as [H|H]; [right; right; exact H|right; left; rewrite H; reflexivity].
    + destruct (k_dft k) eqn:D.
      * specialize (IH (acc ++ [LMult]) true (nopen || k_nopen k) Hr).
        destruct (nw_loop r (acc ++ [LMult]) true (nopen || k_nopen k)) as [[a d] n]. destruct IH as [I1 [I2 I3]].
        assert (Hne : acc ++ [LMult] <> []) by (intros E; apply app_eq_nil in E; destruct E; discriminate).
        split; [intros _; exact (I1 Hne)|]. split; [intros _ _ _; exact (I1 Hne)|]. intros _. left. exact (I1 Hne).
      * destruct (k_scf k) eqn:S.
        { destruct nopen eqn:N.
          - specialize (IH acc dft true Hr). destruct (nw_loop r acc dft true) as [[a d] n]. destruct IH as [I1 [I2 I3]].
            split; [exact I1|]. split; [intros Hd Hn; apply I2; [exact Hd|intros _; right; right; reflexivity]|].
            intros _. right. right. reflexivity.
          - specialize (IH (acc ++ [LNopen]) dft true Hr).
            destruct (nw_loop r (acc ++ [LNopen]) dft true) as [[a d] n]. destruct IH as [I1 [I2 I3]].
            assert (Hne : acc ++ [LNopen] <> []) by (intros E; apply app_eq_nil in E; destruct E; discriminate).
            split; [intros _; exact (I1 Hne)|]. split; [intros _ _ _; exact (I1 Hne)|]. intros _. left. exact (I1 Hne). }
        { specialize (IH acc dft (nopen || k_nopen k) Hr).
          destruct (nw_loop r acc dft (nopen || k_nopen k)) as [[a d] n]. destruct IH as [I1 [I2 I3]].
          split; [exact I1|]. split.
          - intros Hd Hn. apply I2; [exact Hd|]. intros E. right. right. exact E.
          - intros E. destruct (I3 E) as [H|[H|H]]; [left; exact H|right; left; rewrite H; apply orb_true_r|].
            apply orb_true_iff in H. destruct H as [H|H]; [right; right; exact H|right; left; rewrite H; reflexivity]. }
Qed.
