(* C17/Decimal.v — decimal text of integers and of exact rationals, an independent parser for it,
   and a tokenizer (split on separator characters, drop empty pieces).

   fmt_fixed d q  is what Python's  format(x, '.df')  prints for a float whose EXACT value is the
   rational q: the correctly rounded (round-half-even on  q*10^d, which is what the dtoa code behind
   float.__format__ does for the exactly known binary value), sign first (a negative value that
   rounds to zero keeps its '-', like '-0.00000'), at least one integer digit, '.', d digits.
   Float caveat: the model takes the exact rational value of the double; IEEE negative zero, nan and
   inf have no rational value and are outside the model (the harness never generates them).

   parse_dec  is written independently of fmt_fixed (sign, digits, optional '.', digits).
   Main results:  parse_fmt_fixed  (Leibniz equality with the rounded rational  roundq d q),
   roundq_close  |roundq d q - q| <= 1/(2*10^d)  for EVERY rational q (no magnitude bound),
   read_show_Z,  and the tokenizer lemmas  tokens_app_sep / tokens_word / tokens_pad. *)
From Coq Require Import ZArith QArith Qabs List Ascii String Bool Lia.
Import ListNotations.
Open Scope Z_scope.

Definition str := list ascii.

(* ------------------------------------------------------------------ powers *)
Fixpoint pow10 (k : nat) : Z := match k with O => 1 | S k' => 10 * pow10 k' end.
Fixpoint pow2 (k : nat) : Z := match k with O => 1 | S k' => 2 * pow2 k' end.

Lemma pow10_pos k : 0 < pow10 k.
Proof. induction k; cbn [pow10]; lia. Qed.
Lemma pow2_pos k : 0 < pow2 k.
Proof. induction k; cbn [pow2]; lia. Qed.
Lemma pow2_spec k : pow2 k = 2 ^ Z.of_nat k.
Proof.
  induction k as [|k IH]; [reflexivity|].
  rewrite Nat2Z.inj_succ, Z.pow_succ_r by lia. cbn [pow2]. lia.
Qed.
Lemma pow10_mono a b : (a <= b)%nat -> pow10 a <= pow10 b.
Proof.
  induction 1 as [|b H IH]; [lia|]. cbn [pow10]. pose proof (pow10_pos b). lia.
Qed.

(* ------------------------------------------------------------------ digits *)
Definition char_of_digit (z : Z) : ascii := ascii_of_nat (Z.to_nat (z + 48)).
Definition digit_of (c : ascii) : option Z :=
  let n := Z.of_nat (nat_of_ascii c) in
  if (48 <=? n) && (n <=? 57) then Some (n - 48) else None.

Lemma digit_cases z : 0 <= z < 10 ->
  z = 0 \/ z = 1 \/ z = 2 \/ z = 3 \/ z = 4 \/ z = 5 \/ z = 6 \/ z = 7 \/ z = 8 \/ z = 9.
Proof. lia. Qed.

Lemma digit_char z : 0 <= z < 10 -> digit_of (char_of_digit z) = Some z.
Proof.
  intros H. destruct (digit_cases z H) as [E|[E|[E|[E|[E|[E|[E|[E|[E|E]]]]]]]]]; subst; reflexivity.
Qed.

(* exactly k digits, most significant first *)
Fixpoint digs (k : nat) (n : Z) : str :=
  match k with O => [] | S k' => digs k' (n / 10) ++ [char_of_digit (n mod 10)] end.

(* number of decimal digits of n >= 0 (at least one), by fuel *)
Fixpoint ndig (fuel : nat) (n : Z) : nat :=
  match fuel with
  | O => 1%nat
  | S f => if n <? 10 then 1%nat else S (ndig f (n / 10))
  end.
Definition fuel_of (n : Z) : nat := S (Z.to_nat (Z.log2 n)).
(* the integer part as Python prints it: no leading zeros, "0" for zero *)
Definition idigits (n : Z) : str := digs (ndig (fuel_of n) n) n.

(* reader: digits -> number *)
Fixpoint read_digs_acc (acc : Z) (s : str) : option Z :=
  match s with
  | [] => Some acc
  | c :: r => match digit_of c with Some d => read_digs_acc (acc * 10 + d) r | None => None end
  end.
Definition read_nat (s : str) : option Z :=
  match s with [] => None | _ => read_digs_acc 0 s end.

Lemma read_digs_app a : forall acc b,
  read_digs_acc acc (a ++ b) =
  match read_digs_acc acc a with Some v => read_digs_acc v b | None => None end.
Proof.
  induction a as [|c a IH]; intros acc b; [reflexivity|].
  cbn [app read_digs_acc]. destruct (digit_of c); [apply IH|reflexivity].
Qed.

Lemma read_digs_digs k : forall n acc, 0 <= n < pow10 k ->
  read_digs_acc acc (digs k n) = Some (acc * pow10 k + n).
Proof.
  induction k as [|k IH]; intros n acc Hn.
  - cbn [pow10] in Hn. cbn [digs read_digs_acc pow10]. f_equal. lia.
  - cbn [digs]. rewrite read_digs_app.
    assert (Hq : 0 <= n / 10 < pow10 k).
    { cbn [pow10] in Hn. split; [apply Z.div_pos; lia|apply Z.div_lt_upper_bound; lia]. }
    rewrite (IH _ _ Hq). cbn [read_digs_acc].
    pose proof (Z.mod_pos_bound n 10 ltac:(lia)) as Hm.
    rewrite (digit_char _ Hm). f_equal. cbn [pow10].
    pose proof (Z.div_mod n 10 ltac:(lia)). lia.
Qed.

Lemma digs_length k : forall n, List.length (digs k n) = k.
Proof. induction k as [|k IH]; intros n; [reflexivity|]. cbn [digs]. rewrite app_length, IH. cbn. lia. Qed.

Lemma ndig_ge1 fuel : forall n, (1 <= ndig fuel n)%nat.
Proof. induction fuel; intros n; cbn [ndig]; [lia|]. destruct (n <? 10); lia. Qed.

Lemma ndig_bound fuel : forall n, 0 <= n < pow2 fuel -> n < pow10 (ndig fuel n).
Proof.
  induction fuel as [|f IH]; intros n Hn; cbn [ndig].
  - cbn [pow2] in Hn. cbn [pow10]. lia.
  - destruct (n <? 10) eqn:E.
    + apply Z.ltb_lt in E. cbn [pow10]. lia.
    + apply Z.ltb_ge in E. cbn [pow2] in Hn.
      assert (Hq : 0 <= n / 10 < pow2 f).
      { split; [apply Z.div_pos; lia|]. apply Z.div_lt_upper_bound; lia. }
      specialize (IH _ Hq). cbn [pow10].
      pose proof (Z.div_mod n 10 ltac:(lia)). pose proof (Z.mod_pos_bound n 10 ltac:(lia)). lia.
Qed.

Lemma fuel_enough n : 0 <= n -> n < pow2 (fuel_of n).
Proof.
  intros Hn. unfold fuel_of. rewrite pow2_spec, Nat2Z.inj_succ, Z2Nat.id by apply Z.log2_nonneg.
  destruct (Z.eq_dec n 0) as [->|Hz]; [reflexivity|].
  apply Z.log2_spec. lia.
Qed.

Lemma idigits_bound n : 0 <= n -> n < pow10 (ndig (fuel_of n) n).
Proof. intros Hn. apply ndig_bound. split; [exact Hn|apply fuel_enough; exact Hn]. Qed.

Lemma idigits_nonempty n : idigits n <> [].
Proof.
  unfold idigits. intros E. apply (f_equal (@List.length ascii)) in E.
  rewrite digs_length in E. pose proof (ndig_ge1 (fuel_of n) n). cbn [List.length] in E. lia.
Qed.

Lemma read_nat_idigits n : 0 <= n -> read_nat (idigits n) = Some n.
Proof.
  intros Hn. unfold read_nat. pose proof (idigits_nonempty n) as Hne.
  destruct (idigits n) eqn:E; [congruence|]. rewrite <- E. unfold idigits.
  rewrite read_digs_digs by (split; [exact Hn|apply idigits_bound; exact Hn]). f_equal.
Qed.

(* ------------------------------------------------------------------ integers *)
Definition minus_c : ascii := "-"%char.
Definition dot_c : ascii := "."%char.
Definition blank_c : ascii := " "%char.

Definition show_Z (z : Z) : str := (if z <? 0 then [minus_c] else []) ++ idigits (Z.abs z).
(* independent reader: digits, or '-' followed by digits *)
Definition read_Z (s : str) : option Z :=
  match read_nat s with
  | Some v => Some v
  | None => match s with
            | c :: r => if Ascii.eqb c minus_c then option_map Z.opp (read_nat r) else None
            | [] => None
            end
  end.

Lemma read_show_Z z : read_Z (show_Z z) = Some z.
Proof.
  unfold show_Z, read_Z. destruct (z <? 0) eqn:E.
  - apply Z.ltb_lt in E. cbn [app].
    assert (Hn : read_nat (minus_c :: idigits (Z.abs z)) = None) by reflexivity.
    rewrite Hn. change (Ascii.eqb minus_c minus_c) with true. cbn iota.
    rewrite read_nat_idigits by lia. cbn [option_map]. f_equal. lia.
  - apply Z.ltb_ge in E. cbn [app]. rewrite read_nat_idigits by lia. f_equal. lia.
Qed.

(* ------------------------------------------------------------------ fixed point *)
(* round-half-even of a/b *)
Definition rhe (a : Z) (b : positive) : Z :=
  let f := a / Zpos b in
  let r := a mod Zpos b in
  match (2 * r ?= Zpos b) with
  | Lt => f
  | Gt => f + 1
  | Eq => if Z.even f then f else f + 1
  end.

Lemma rhe_spec a b : 2 * Z.abs (rhe a b * Zpos b - a) <= Zpos b.
Proof.
  unfold rhe. cbv zeta. pose proof (Z.div_mod a (Zpos b) ltac:(lia)) as D.
  pose proof (Z.mod_pos_bound a (Zpos b) ltac:(lia)) as M.
  set (f := a / Zpos b) in *. set (r := a mod Zpos b) in *. set (B := Zpos b) in *.
  assert (E0 : f * B - a = - r) by (rewrite D; ring).
  assert (E1 : (f + 1) * B - a = B - r) by (rewrite D; ring).
  clearbody f r B.
  destruct (Z.compare_spec (2 * r) B) as [C|C|C].
  - destruct (Z.even f); [rewrite E0|rewrite E1]; lia.
  - rewrite E0. lia.
  - rewrite E1. lia.
Qed.

Lemma rhe_sign_neg a b : a < 0 -> rhe a b <= 0.
Proof.
  intros Ha. unfold rhe.
  assert (Hf : a / Zpos b < 0) by (apply Z.div_lt_upper_bound; lia).
  destruct (2 * (a mod Zpos b) ?= Zpos b); [destruct (Z.even (a / Zpos b))| |]; lia.
Qed.
Lemma rhe_sign_nonneg a b : 0 <= a -> 0 <= rhe a b.
Proof.
  intros Ha. unfold rhe.
  assert (Hf : 0 <= a / Zpos b) by (apply Z.div_pos; lia).
  destruct (2 * (a mod Zpos b) ?= Zpos b); [destruct (Z.even (a / Zpos b))| |]; lia.
Qed.

(* the integer  round(q * 10^d) *)
Definition scaled (d : nat) (q : Q) : Z := rhe (Qnum q * pow10 d) (Qden q).
(* the rational the printed text denotes *)
Definition roundq (d : nat) (q : Q) : Q := scaled d q # Z.to_pos (pow10 d).

Definition fmt_fixed (d : nat) (q : Q) : str :=
  let a := Z.abs (scaled d q) in
  (if Qnum q <? 0 then [minus_c] else []) ++ idigits (a / pow10 d) ++
  match d with O => [] | S _ => dot_c :: digs d (a mod pow10 d) end.

(* independent parser *)
Fixpoint split_dot (s : str) : str * option str :=
  match s with
  | [] => ([], None)
  | c :: r => if Ascii.eqb c dot_c then ([], Some r)
              else let '(a, b) := split_dot r in (c :: a, b)
  end.
Definition parse_unsigned (s : str) : option Q :=
  let '(ip, fp) := split_dot s in
  match read_nat ip with
  | None => None
  | Some i =>
    match fp with
    | None => Some (i # 1)
    | Some f =>
      match read_nat f with
      | None => None
      | Some fz => let k := List.length f in Some ((i * pow10 k + fz) # Z.to_pos (pow10 k))
      end
    end
  end.
Definition parse_dec (s : str) : option Q :=
  match parse_unsigned s with
  | Some v => Some v
  | None => match s with
            | c :: r => if Ascii.eqb c minus_c then option_map Qopp (parse_unsigned r) else None
            | [] => None
            end
  end.

(* characters produced by the writers *)
Definition is_digit_char (c : ascii) : Prop := exists z, 0 <= z < 10 /\ c = char_of_digit z.

Lemma digs_all_digits k : forall n, Forall is_digit_char (digs k n).
Proof.
  induction k as [|k IH]; intros n; cbn [digs]; [constructor|].
  apply Forall_app. split; [apply IH|]. constructor; [|constructor].
  exists (n mod 10). split; [apply Z.mod_pos_bound; lia|reflexivity].
Qed.
Lemma idigits_all_digits n : Forall is_digit_char (idigits n).
Proof. apply digs_all_digits. Qed.

Lemma digit_not_dot c : is_digit_char c -> Ascii.eqb c dot_c = false.
Proof.
  intros [z [H ->]]. destruct (digit_cases z H) as [E|[E|[E|[E|[E|[E|[E|[E|[E|E]]]]]]]]]; subst; reflexivity.
Qed.

Lemma split_dot_app a : forall b, Forall is_digit_char a ->
  split_dot (a ++ dot_c :: b) = (a, Some b).
Proof.
  induction a as [|c a IH]; intros b Ha.
  - reflexivity.
  - inversion Ha as [|? ? Hc Ha']; subst. cbn [app split_dot].
    rewrite (digit_not_dot _ Hc), (IH _ Ha'). reflexivity.
Qed.

Lemma parse_unsigned_fixed d ip fp :
  0 <= ip -> 0 <= fp < pow10 (S d) ->
  parse_unsigned (idigits ip ++ dot_c :: digs (S d) fp) =
  Some ((ip * pow10 (S d) + fp) # Z.to_pos (pow10 (S d))).
Proof.
  intros Hi Hf. unfold parse_unsigned.
  rewrite split_dot_app by apply idigits_all_digits.
  rewrite read_nat_idigits by exact Hi.
  assert (Hr : read_nat (digs (S d) fp) = Some fp).
  { unfold read_nat. destruct (digs (S d) fp) eqn:E.
    - apply (f_equal (@List.length ascii)) in E. rewrite digs_length in E. discriminate.
    - rewrite <- E, read_digs_digs by exact Hf. f_equal. }
  rewrite Hr, digs_length. reflexivity.
Qed.

Lemma parse_unsigned_minus r : parse_unsigned (minus_c :: r) = None.
Proof.
  unfold parse_unsigned. cbn [split_dot]. change (Ascii.eqb minus_c dot_c) with false. cbn iota.
  destruct (split_dot r) as [a b]. reflexivity.
Qed.

Theorem parse_fmt_fixed d q : parse_dec (fmt_fixed (S d) q) = Some (roundq (S d) q).
Proof.
  unfold fmt_fixed, roundq. set (n := scaled (S d) q). set (N := pow10 (S d)).
  pose proof (pow10_pos (S d)) as HN. fold N in HN.
  assert (Hip : 0 <= Z.abs n / N) by (apply Z.div_pos; lia).
  pose proof (Z.mod_pos_bound (Z.abs n) N HN) as Hfp.
  pose proof (Z.div_mod (Z.abs n) N ltac:(lia)) as D.
  pose proof (parse_unsigned_fixed d _ _ Hip Hfp) as P. fold N in P.
  replace (Z.abs n / N * N + Z.abs n mod N) with (Z.abs n) in P by lia.
  unfold parse_dec. destruct (Qnum q <? 0) eqn:E.
  - apply Z.ltb_lt in E. cbn [app]. rewrite parse_unsigned_minus.
    change (Ascii.eqb minus_c minus_c) with true. cbn iota. rewrite P. cbn [option_map].
    assert (Hn : n <= 0).
    { unfold n, scaled. apply rhe_sign_neg. pose proof (pow10_pos (S d)). nia. }
    unfold Qopp. cbn [Qnum Qden]. do 2 f_equal. lia.
  - apply Z.ltb_ge in E. cbn [app]. rewrite P.
    assert (Hn : 0 <= n).
    { unfold n, scaled. apply rhe_sign_nonneg. pose proof (pow10_pos (S d)). nia. }
    do 2 f_equal. lia.
Qed.

Open Scope Q_scope.
(* the printed value is within half a unit of the last decimal of the exact value — for every
   rational, whatever its magnitude *)
Theorem roundq_close d q : Qabs (roundq d q - q) <= 1 # (2 * Z.to_pos (pow10 d)).
Proof.
  unfold roundq, scaled. destruct q as [a b]. cbn [Qnum Qden].
  pose proof (rhe_spec (a * pow10 d) b) as S. set (n := rhe (a * pow10 d) b) in *.
  pose proof (pow10_pos d) as HN.
  unfold Qabs, Qminus, Qplus, Qopp, Qle. cbn [Qnum Qden].
  rewrite !Pos2Z.inj_mul, Z2Pos.id by exact HN.
  change (Z.pos 2) with 2%Z.
  set (N := pow10 d) in *. set (B := Z.pos b) in *.
  assert (HB : (0 < B)%Z) by (unfold B; lia).
  replace (n * B + - a * N)%Z with (n * B - a * N)%Z by ring.
  nia.
Qed.

(* half a unit in the 5th decimal is below 1e-5: what "accurate to 1e-5 Angstrom" needs *)
Lemma half_unit_le d : (5 <= d)%nat -> 1 # (2 * Z.to_pos (pow10 d)) <= 1 # 100000.
Proof.
  intros H. unfold Qle. cbn [Qnum Qden]. rewrite Pos2Z.inj_mul, Z2Pos.id by apply pow10_pos.
  pose proof (pow10_mono 5 d H) as M. change (pow10 5) with 100000%Z in M. lia.
Qed.

Corollary fixed_accurate d q : (5 <= d)%nat -> Qabs (roundq d q - q) <= 1 # 100000.
Proof. intros H. eapply Qle_trans; [apply roundq_close|apply half_unit_le; exact H]. Qed.
Close Scope Q_scope.

(* ------------------------------------------------------------------ tokenizer *)
Section Tokens.
  Variable sep : ascii -> bool.

  (* split on separators keeping empty pieces (never returns []) *)
  Fixpoint split (s : str) : list str :=
    match s with
    | [] => [[]]
    | c :: r => if sep c then [] :: split r
                else match split r with w :: ws => (c :: w) :: ws | [] => [[c]] end
    end.
  Definition nonnil (w : str) : bool := match w with [] => false | _ => true end.
  Definition tokens (s : str) : list str := filter nonnil (split s).

  Lemma split_nonempty s : exists w ws, split s = w :: ws.
  Proof.
    induction s as [|c r [w [ws E]]]; cbn [split]; [eauto|].
    destruct (sep c); [eauto|]. rewrite E. eauto.
  Qed.

  Lemma split_app_sep a : forall c b, sep c = true -> split (a ++ c :: b) = split a ++ split b.
  Proof.
    induction a as [|x a IH]; intros c b Hc.
    - cbn [app split]. rewrite Hc. reflexivity.
    - cbn [app split]. destruct (sep x).
      + rewrite (IH _ _ Hc). reflexivity.
      + rewrite (IH _ _ Hc). destruct (split_nonempty a) as [w [ws E]]. rewrite E. reflexivity.
  Qed.

  Lemma tokens_app_sep a c b : sep c = true -> tokens (a ++ c :: b) = tokens a ++ tokens b.
  Proof. intros Hc. unfold tokens. rewrite (split_app_sep _ _ _ Hc), filter_app. reflexivity. Qed.

  Lemma tokens_nil : tokens [] = [].
  Proof. reflexivity. Qed.

  Lemma tokens_cons_sep c b : sep c = true -> tokens (c :: b) = tokens b.
  Proof. intros Hc. exact (tokens_app_sep [] c b Hc). Qed.

  Lemma tokens_snoc_sep a c : sep c = true -> tokens (a ++ [c]) = tokens a.
  Proof. intros Hc. rewrite (tokens_app_sep a c [] Hc), tokens_nil, app_nil_r. reflexivity. Qed.

  Definition nosep (w : str) : Prop := Forall (fun c => sep c = false) w.

  Lemma split_word w : nosep w -> split w = [w].
  Proof.
    induction 1 as [|c w Hc Hw IH]; [reflexivity|]. cbn [split]. rewrite Hc, IH. reflexivity.
  Qed.
  Lemma tokens_word w : nosep w -> w <> [] -> tokens w = [w].
  Proof.
    intros Hw Hne. unfold tokens. rewrite (split_word _ Hw). cbn [filter].
    destruct w; [congruence|reflexivity].
  Qed.

  (* text that ends with a separator, or the text after it starts with one: tokens do not merge *)
  Definition ends_sep (s : str) : Prop := exists s' c, s = s' ++ [c] /\ sep c = true.
  Definition starts_sep (s : str) : Prop := exists c s', s = c :: s' /\ sep c = true.

  Lemma tokens_app_l a b : ends_sep a -> tokens (a ++ b) = tokens a ++ tokens b.
  Proof.
    intros [a' [c [-> Hc]]]. rewrite <- app_assoc. cbn [app].
    rewrite (tokens_app_sep _ _ _ Hc), (tokens_snoc_sep _ _ Hc). reflexivity.
  Qed.
  Lemma tokens_app_r a b : starts_sep b -> tokens (a ++ b) = tokens a ++ tokens b.
  Proof.
    intros [c [b' [-> Hc]]]. rewrite (tokens_app_sep _ _ _ Hc), (tokens_cons_sep _ _ Hc). reflexivity.
  Qed.

  Hypothesis sep_blank : sep blank_c = true.

  Lemma tokens_blanks n : tokens (repeat blank_c n) = [].
  Proof. induction n as [|n IH]; [reflexivity|]. cbn [repeat]. rewrite tokens_cons_sep; assumption. Qed.

  (* Python pads a field with blanks on either side up to the requested width *)
  Lemma tokens_pad l r w : tokens (repeat blank_c l ++ w ++ repeat blank_c r) = tokens w.
  Proof.
    induction l as [|l IH].
    - cbn [repeat app]. destruct r as [|r]; [rewrite app_nil_r; reflexivity|].
      cbn [repeat]. rewrite (tokens_app_sep _ _ _ sep_blank), tokens_blanks, app_nil_r. reflexivity.
    - cbn [repeat app]. rewrite tokens_cons_sep; assumption.
  Qed.
End Tokens.

(* the two separator classes used by the readers *)
Definition sep_blank_only (c : ascii) : bool := Ascii.eqb c blank_c.
Definition sep_xtb (c : ascii) : bool :=
  Ascii.eqb c blank_c || Ascii.eqb c ","%char || Ascii.eqb c ":"%char.

(* facts about the characters the numeric writers emit *)
Definition numchar (c : ascii) : Prop := is_digit_char c \/ c = minus_c \/ c = dot_c.

Lemma show_Z_numchars z : Forall numchar (show_Z z).
Proof.
  unfold show_Z. apply Forall_app. split.
  - destruct (z <? 0); constructor; [right; left; reflexivity|constructor].
  - eapply Forall_impl; [|apply idigits_all_digits]. intros c H. left. exact H.
Qed.
Lemma fmt_fixed_numchars d q : Forall numchar (fmt_fixed d q).
Proof.
  unfold fmt_fixed. apply Forall_app. split; [|apply Forall_app; split].
  - destruct (Qnum q <? 0); constructor; [right; left; reflexivity|constructor].
  - eapply Forall_impl; [|apply idigits_all_digits]. intros c H. left. exact H.
  - destruct d; [constructor|]. constructor; [right; right; reflexivity|].
    eapply Forall_impl; [|apply digs_all_digits]. intros c H. left. exact H.
Qed.
Lemma show_Z_nonempty z : show_Z z <> [].
Proof.
  unfold show_Z. destruct (z <? 0); cbn [app]; [discriminate|apply idigits_nonempty].
Qed.
Lemma fmt_fixed_nonempty d q : fmt_fixed d q <> [].
Proof.
  unfold fmt_fixed. destruct (Qnum q <? 0); cbn [app]; [discriminate|].
  intros E. apply app_eq_nil in E. destruct E as [E _]. exact (idigits_nonempty _ E).
Qed.

Lemma numchar_not_sep_blank c : numchar c -> sep_blank_only c = false.
Proof.
  intros [[z [H ->]]|[->| ->]]; [|reflexivity|reflexivity].
  destruct (digit_cases z H) as [E|[E|[E|[E|[E|[E|[E|[E|[E|E]]]]]]]]]; subst; reflexivity.
Qed.
Lemma numchar_not_sep_xtb c : numchar c -> sep_xtb c = false.
Proof.
  intros [[z [H ->]]|[->| ->]]; [|reflexivity|reflexivity].
  destruct (digit_cases z H) as [E|[E|[E|[E|[E|[E|[E|[E|[E|E]]]]]]]]]; subst; reflexivity.
Qed.
