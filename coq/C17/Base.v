(* C17/Base.v — the types the generated format table (gen/C17_Gen.v) is written in.
   A print site of a wrapper is a TEMPLATE: a list of items, each a literal text or a field with the
   format spec of the Python f-string replacement field ( {x:^12.8f}  {atom.label:<3}  {i + 1} ) or
   of a positional argument of print(...) (joined by the literal blank that print inserts). *)
From Coq Require Import ZArith List String.
Import ListNotations.

Inductive program := ORCA | G09 | G16 | NWChem | QChem | XTB | MOPAC | XYZ.

(* what a replacement field carries *)
Inductive field :=
| FLabel            (* atom.label *)
| FX | FY | FZ      (* Cartesian components, Angstrom *)
| FQ                (* a point charge's charge *)
| FChg | FMult      (* total charge, spin multiplicity *)
| FI | FJ           (* atom indices of a constraint / added internal coordinate *)
| FDist             (* constrained distance *)
| FN                (* number of atoms / point charges *)
| FOther.           (* anything else that is printed on the same line (date, force constant...) *)

Inductive align := ALeft | ARight | ACenter.

Inductive fkind :=
| KFixed (d : nat)     (* ':w.df'   fixed point with d decimals *)
| KStr                 (* a string ( str.__format__ ) *)
| KInt (off : Z)       (* an integer expression  e + off   printed with str()/format() *)
| KRepr.               (* str()/repr() of a float or of something not modelled: oracle text *)

Record spec := mkSpec { s_align : align; s_width : nat; s_kind : fkind }.

Inductive item := Lit (s : string) | Fld (f : field) (sp : spec).

(* which line of which file a template prints *)
Inductive lkind :=
| LCoord            (* one atom: label x y z *)
| LCoordFixed       (* MOPAC: the variant for an atom whose position is frozen *)
| LChargeMult       (* charge and multiplicity on one line *)
| LCharge           (* charge alone (NWChem `charge`, MOPAC CHARGE=) *)
| LMult             (* NWChem dft block: mult m *)
| LNopen            (* NWChem scf block: nopen m-1 *)
| LPointCharge      (* one point charge *)
| LDist             (* distance constraint *)
| LDistFreeze       (* Gaussian: the second line  B i j F *)
| LCart             (* Cartesian (frozen atom) constraint *)
| LInternal         (* added internal coordinate (bond) *)
| LTitle            (* xyz title line *)
| LNAtoms.          (* xyz / point-charge-file count line *)
