(* C17/Model.v — line-level models of what the wrappers print, parameterised by the GENERATED
   templates (gen/C17_Gen.lines), and an INDEPENDENT reader per program / line kind written from
   the programs' documented input formats (split the line into tokens, check the literal tokens,
   pick the token at the documented position, parse decimals / integers, subtract the program's
   index base).  Definitions only; proofs are in Lemmas.v.

   Writer side (mirrors Python, quoted from /repo):
     f"{atom.label:<3} {x:^12.8f} {y:^12.8f} {z:^12.8f}"      ORCA.py:154-156, G09.py:435-438,
                                                               NWChem.py:168-171, QChem.py:489
     f"{atom.label:<3} {x:10.5f} {y:10.5f} {z:10.5f}"          input_output.py:95-97 (xyz, xTB input)
     f"{atom.label:<3}{x:^10.5f} 1 {y:^10.5f} 1 {z:^10.5f} 1"  MOPAC.py:120-122 (0 = frozen)
     print("*xyz", molecule.charge, molecule.mult)             ORCA.py:151
     print("{ B", i, j, dist, "C }")                           ORCA.py:72   (0-based)
     print("B", i + 1, j + 1, dist, "B")                       G09.py:197   (1-based)
     f'stre {i+1} {j+1} {dist.to("Å"):.5f}'                    QChem.py:447 (1-based)
     f"distance:{i+1}, {j+1}, {dist:.4f}"                      XTB.py:50    (1-based)
   str.__format__ / float.__format__ padding: the text is never truncated; if it is shorter than the
   width it is padded with blanks: '<' on the right, '>' on the left, '^' floor(pad/2) on the left
   and the rest on the right.  A field wider than its width is printed in full (Python widens). *)
From Coq Require Import ZArith QArith Qabs List Ascii String Bool.
From AV.C17 Require Import Base Decimal.
From AV.gen Require Import C17_Gen.
Import ListNotations.
Open Scope string_scope.
Open Scope list_scope.
Open Scope Z_scope.

Definition s2l (s : string) : str := list_ascii_of_string s.

(* ------------------------------------------------------------------ what is printed *)
Record env := mkEnv {
  e_label : str;
  e_x : Q; e_y : Q; e_z : Q; e_q : Q; e_dist : Q;
  e_chg : Z; e_mult : Z; e_i : Z; e_j : Z; e_n : Z;
  e_dtext : str;      (* oracle: str(float) of the constrained distance where a wrapper prints it unformatted *)
  e_other : str       (* oracle: text of untracked fields (date, force constant ...) *)
}.

Definition qval (e : env) (f : field) : Q :=
  match f with FX => e_x e | FY => e_y e | FZ => e_z e | FQ => e_q e | FDist => e_dist e | _ => 0%Q end.
Definition zval (e : env) (f : field) : Z :=
  match f with FChg => e_chg e | FMult => e_mult e | FI => e_i e | FJ => e_j e | FN => e_n e | _ => 0 end.

Definition field_text (e : env) (f : field) (sp : spec) : str :=
  match s_kind sp with
  | KFixed d => fmt_fixed d (qval e f)
  | KStr => e_label e
  | KInt off => show_Z (zval e f + off)
  | KRepr => match f with FDist => e_dtext e | _ => e_other e end
  end.

Definition pad (sp : spec) (w : str) : str :=
  let tot := (s_width sp - List.length w)%nat in
  match s_align sp with
  | ALeft => w ++ repeat blank_c tot
  | ARight => repeat blank_c tot ++ w
  | ACenter => repeat blank_c (tot / 2) ++ w ++ repeat blank_c (tot - tot / 2)
  end.

Definition render_item (e : env) (it : item) : str :=
  match it with Lit s => s2l s | Fld f sp => pad sp (field_text e f sp) end.
Definition render (e : env) (tpl : list item) : str := flat_map (render_item e) tpl.

(* ------------------------------------------------------------------ static template analysis *)
Inductive sepclass := SBlank | SXtb | SEq.
Definition sep_eq (c : ascii) : bool := Ascii.eqb c blank_c || Ascii.eqb c "="%char.
Definition sepf (sc : sepclass) : ascii -> bool :=
  match sc with SBlank => sep_blank_only | SXtb => sep_xtb | SEq => sep_eq end.

Definition last_is_sep (sep : ascii -> bool) (s : str) : bool :=
  match rev s with c :: _ => sep c | [] => false end.
Definition first_is_sep (sep : ascii -> bool) (s : str) : bool :=
  match s with c :: _ => sep c | [] => false end.
(* a left-aligned string field wider than the longest element symbol always ends in a blank *)
Definition item_ends_sep (sep : ascii -> bool) (it : item) : bool :=
  match it with
  | Lit s => last_is_sep sep (s2l s)
  | Fld _ sp => match s_kind sp, s_align sp with
                | KStr, ALeft => (max_label_len <? s_width sp)%nat
                | _, _ => false
                end
  end.
Definition item_starts_sep (sep : ascii -> bool) (it : item) : bool :=
  match it with Lit s => first_is_sep sep (s2l s) | Fld _ _ => false end.
(* every pair of adjacent items is separated *)
Fixpoint wsep (sep : ascii -> bool) (tpl : list item) : bool :=
  match tpl with
  | [] => true
  | a :: r => match r with
              | [] => true
              | b :: _ => (item_ends_sep sep a || item_starts_sep sep b) && wsep sep r
              end
  end.

Inductive tok := TF (f : field) (sp : spec) | TL (s : str).
Definition item_toks (sep : ascii -> bool) (it : item) : list tok :=
  match it with Lit s => map TL (tokens sep (s2l s)) | Fld f sp => [TF f sp] end.
Definition layout (sep : ascii -> bool) (tpl : list item) : list tok := flat_map (item_toks sep) tpl.
Definition tok_text (e : env) (t : tok) : str :=
  match t with TF f sp => field_text e f sp | TL s => s end.

(* ------------------------------------------------------------------ documented formats *)
Inductive etok := EF (f : field) | EL (s : string).

(* Token layout of each line in the program's own input syntax (program manuals):
   ORCA   "* xyz charge mult", atoms "El x y z", "%geom Constraints { B i j value C } { C i C }",
          "modify_internal { B i j A } end", point-charge file "q x y z"; atoms counted from 0.
   Gaussian  "charge mult", "El x y z", ModRedundant "B i j value B" / "B i j F" / "X i F" / "B i j";
          background charges "x y z q"; atoms counted from 1.
   NWChem "El x y z" in geometry, "charge c", "mult m" (dft), "nopen m-1" (scf), bq "x y z q".
   Q-Chem "$molecule charge mult / El x y z", $opt "stre i j value", FIXED "i XYZ", CONNECT "i 1 j";
          atoms counted from 1.
   xTB    xyz input; $constrain "distance: i, j, value" and "atoms: list"; atoms counted from 1;
          point-charge file "q x y z".
   MOPAC  "El x f y f z f" with optimisation flag f = 1 (free) / 0 (frozen); "CHARGE=c".
   xyz    "El x y z"; first line the number of atoms. *)
Definition expected_layout (p : program) (k : lkind) : option (sepclass * list etok) :=
  match k, p with
  | LCoord, (ORCA | G09 | G16 | NWChem | QChem | XYZ) => Some (SBlank, [EF FLabel; EF FX; EF FY; EF FZ])
  | LCoord, MOPAC => Some (SBlank, [EF FLabel; EF FX; EL "1"; EF FY; EL "1"; EF FZ; EL "1"])
  | LCoordFixed, MOPAC => Some (SBlank, [EF FLabel; EF FX; EL "0"; EF FY; EL "0"; EF FZ; EL "0"])
  | LChargeMult, ORCA => Some (SBlank, [EL "*xyz"; EF FChg; EF FMult])
  | LChargeMult, (G09 | G16 | QChem) => Some (SBlank, [EF FChg; EF FMult])
  | LCharge, NWChem => Some (SBlank, [EL "charge"; EF FChg])
  | LCharge, MOPAC => Some (SEq, [EL "CHARGE"; EF FChg])
  | LMult, NWChem => Some (SBlank, [EL "mult"; EF FMult])
  | LNopen, NWChem => Some (SBlank, [EL "nopen"; EF FMult])
  | LPointCharge, (ORCA | XTB) => Some (SBlank, [EF FQ; EF FX; EF FY; EF FZ])
  | LPointCharge, (G09 | G16 | NWChem) => Some (SBlank, [EF FX; EF FY; EF FZ; EF FQ])
  | LDist, ORCA => Some (SBlank, [EL "{"; EL "B"; EF FI; EF FJ; EF FDist; EL "C"; EL "}"])
  | LCart, ORCA => Some (SBlank, [EL "{"; EL "C"; EF FI; EL "C"; EL "}"])
  | LInternal, ORCA => Some (SBlank, [EL "{"; EL "B"; EF FI; EF FJ; EL "A"; EL "}"; EL "end"])
  | LDist, (G09 | G16) => Some (SBlank, [EL "B"; EF FI; EF FJ; EF FDist; EL "B"])
  | LDistFreeze, (G09 | G16) => Some (SBlank, [EL "B"; EF FI; EF FJ; EL "F"])
  | LCart, (G09 | G16) => Some (SBlank, [EL "X"; EF FI; EL "F"])
  | LInternal, (G09 | G16) => Some (SBlank, [EL "B"; EF FI; EF FJ])
  | LDist, QChem => Some (SBlank, [EL "stre"; EF FI; EF FJ; EF FDist])
  | LCart, QChem => Some (SBlank, [EF FI; EL "XYZ"])
  | LInternal, QChem => Some (SBlank, [EF FI; EL "1"; EF FJ])
  | LDist, XTB => Some (SXtb, [EL "distance"; EF FI; EF FJ; EF FDist])
  | LNAtoms, (ORCA | XTB | XYZ) => Some (SBlank, [EF FN])
  | _, _ => None
  end.

(* the index of the first atom in each program's constraint syntax *)
Definition index_base (p : program) : option Z :=
  match p with
  | ORCA => Some 0
  | G09 | G16 | QChem | XTB => Some 1
  | NWChem | MOPAC | XYZ => None     (* no index is ever printed: MOPAC freezes by per-line flags *)
  end.
(* the integer a reader must subtract from what it reads to get the package's own (0-based) value *)
Definition int_offset_expected (p : program) (k : lkind) (f : field) : option Z :=
  match f with
  | FI | FJ => index_base p
  | FChg | FN => Some 0
  | FMult => match k with LNopen => Some (-1) | _ => Some 0 end   (* nopen = mult - 1 *)
  | _ => None
  end.

Definition field_eqb (f g : field) : bool :=
  match f, g with
  | FLabel, FLabel | FX, FX | FY, FY | FZ, FZ | FQ, FQ | FChg, FChg | FMult, FMult
  | FI, FI | FJ, FJ | FDist, FDist | FN, FN | FOther, FOther => true
  | _, _ => false
  end.
Fixpoint str_eqb (a b : str) : bool :=
  match a, b with
  | [], [] => true
  | x :: a', y :: b' => Ascii.eqb x y && str_eqb a' b'
  | _, _ => false
  end.

(* what the spec of a field must be for the documented reader to recover the value:
   coordinates need a fixed-point spec with at least 5 decimals (half a unit of the 5th decimal is
   5e-6 <= 1e-5 Angstrom); integers must carry exactly the program's offset. *)
Definition spec_ok (p : program) (k : lkind) (f : field) (sp : spec) : bool :=
  match f with
  | FX | FY | FZ => match s_kind sp with KFixed d => (5 <=? d)%nat | _ => false end
  | FQ => match s_kind sp with KFixed d => (5 <=? d)%nat | _ => false end      (* charges within 1e-5 e *)
  | FDist => match s_kind sp with KFixed d => (1 <=? d)%nat | KRepr => true | _ => false end
  | FLabel => match s_kind sp with KStr => true | _ => false end
  | FChg | FMult | FI | FJ | FN =>
      match s_kind sp, int_offset_expected p k f with
      | KInt off, Some o => Z.eqb off o
      | _, _ => false
      end
  | FOther => false
  end.

Fixpoint lmatch (p : program) (k : lkind) (L : list tok) (ex : list etok) : bool :=
  match L, ex with
  | [], [] => true
  | TF f sp :: L', EF g :: ex' => field_eqb f g && spec_ok p k f sp && lmatch p k L' ex'
  | TL s :: L', EL s' :: ex' => str_eqb s (s2l s') && lmatch p k L' ex'
  | _, _ => false
  end.

(* the decidable condition a generated template must satisfy: adjacent fields are separated and the
   token layout is the documented one with adequate specs *)
Definition line_ok (p : program) (k : lkind) (tpl : list item) : bool :=
  match expected_layout p k with
  | None => false
  | Some (sc, ex) => wsep (sepf sc) tpl && lmatch p k (layout (sepf sc) tpl) ex
  end.

(* line kinds that carry a documented layout (the xyz title line is read by key, see read_title) *)
Definition covered (k : lkind) : bool := match k with LTitle => false | _ => true end.

(* ------------------------------------------------------------------ independent readers *)
Fixpoint shape_ok (ts : list str) (ex : list etok) : bool :=
  match ts, ex with
  | [], [] => true
  | t :: ts', EL s :: ex' => str_eqb t (s2l s) && shape_ok ts' ex'
  | _ :: ts', EF _ :: ex' => shape_ok ts' ex'
  | _, _ => false
  end.
Fixpoint pick (f : field) (ts : list str) (ex : list etok) : option str :=
  match ts, ex with
  | t :: ts', EF g :: ex' => if field_eqb f g then Some t else pick f ts' ex'
  | _ :: ts', EL _ :: ex' => pick f ts' ex'
  | _, _ => None
  end.
Definition read_tok (p : program) (k : lkind) (f : field) (line : str) : option str :=
  match expected_layout p k with
  | None => None
  | Some (sc, ex) => let ts := tokens (sepf sc) line in
                     if shape_ok ts ex then pick f ts ex else None
  end.
Definition read_q (p : program) (k : lkind) (f : field) (line : str) : option Q :=
  match read_tok p k f line with Some t => parse_dec t | None => None end.
Definition read_int (p : program) (k : lkind) (f : field) (line : str) : option Z :=
  match read_tok p k f line, int_offset_expected p k f with
  | Some t, Some off => option_map (fun v => v - off) (read_Z t)
  | _, _ => None
  end.

Record atom := mkAtom { a_label : str; a_x : Q; a_y : Q; a_z : Q }.
Definition read_atom (p : program) (k : lkind) (line : str) : option atom :=
  match read_tok p k FLabel line, read_q p k FX line, read_q p k FY line, read_q p k FZ line with
  | Some l, Some x, Some y, Some z => Some (mkAtom l x y z)
  | _, _, _, _ => None
  end.
Fixpoint read_atoms (p : program) (k : lkind) (ls : list str) : option (list atom) :=
  match ls with
  | [] => Some []
  | l :: r => match read_atom p k l, read_atoms p k r with
              | Some a, Some r' => Some (a :: r')
              | _, _ => None
              end
  end.

(* placeholder for the oracle texts of fields a line does not contain *)
Definition dummy_text : str := ["0"%char].
Definition env_of_atom (a : atom) : env :=
  mkEnv (a_label a) (a_x a) (a_y a) (a_z a) 0 0 0 0 0 0 0 dummy_text dummy_text.
Definition write_atoms (tpl : list item) (atoms : list atom) : list str :=
  map (fun a => render (env_of_atom a) tpl) atoms.

(* The block of atom lines as the wrapper's loop produces it.  The loop shape is GENERATED
   (C17_Gen.coord_loops): only `for atom in <the atoms>` (Python: in list order, every element once) with the
   binding `x, y, z = atom.coord` and no continue/break/return prints exactly one line per atom in order;
   for any other shape the model makes no statement (None). *)
Definition loop_ok (l : loop) : bool :=
  match l_iter l, l_bind l with IterInOrder, BindXYZ => l_total l | _, _ => false end.
Definition write_atoms_by (l : loop) (tpl : list item) (atoms : list atom) : option (list str) :=
  if loop_ok l then Some (write_atoms tpl atoms) else None.

(* ------------------------------------------------------------------ NWChem: WHETHER a multiplicity line is written
   NWChem.get_keywords (NWChem.py:56-127).  A translated keyword is abstracted to four facts about its text:
   starts with "dft" / starts with "scf" / contains "nopen" / (contains "opt" while the molecule is a single atom).
   Loop over the keywords (branch order checked by the translator):
     opt1            -> every word containing "opt" is replaced by "energy", the keyword is appended, NOTHING inserted
     starts "dft"    -> `mult m` inserted (LMult), appended
     starts "scf"    -> if no keyword appended so far contains "nopen": `nopen m-1` inserted (LNopen), appended;
                        otherwise the keyword is dropped
     otherwise       -> appended unchanged
   then the trailing guard (GENERATED: nwchem_tail_guard) decides whether an `scf / nopen m-1` block is added. *)
Record nwkw := mkNw { k_dft : bool; k_scf : bool; k_nopen : bool; k_opt1 : bool }.
(* state: (multiplicity lines written so far, some appended keyword starts with dft, some contains nopen, contains "task scf") *)
Fixpoint nw_loop (ks : list nwkw) (acc : list lkind) (dft nopen : bool) : list lkind * bool * bool :=
  match ks with
  | [] => (acc, dft, nopen)
  | k :: r =>
    if k_opt1 k then nw_loop r acc (dft || k_dft k) (nopen || k_nopen k)
    else if k_dft k then nw_loop r (acc ++ [LMult]) true (nopen || k_nopen k)
    else if k_scf k then (if nopen then nw_loop r acc dft nopen else nw_loop r (acc ++ [LNopen]) dft true)
    else nw_loop r acc dft (nopen || k_nopen k)
  end.
Definition nw_spin_lines (g : nw_guard) (task_scf : bool) (ks : list nwkw) : list lkind :=
  let '(acc, dft, nopen) := nw_loop ks [] false false in
  match g with
  | GuardNoDftNoNopen => if negb dft && negb nopen then acc ++ [LNopen] else acc
  | GuardTaskScfNoNopen => if task_scf && negb nopen then acc ++ [LNopen] else acc
  | GuardOther _ => acc
  end.
(* the user's own keywords already carry a nopen line *)
Definition user_nopen (ks : list nwkw) : bool := existsb k_nopen ks.
(* a dft block caught by the single-atom `opt` rewrite (a functional whose NWChem name contains "opt", e.g. optx) *)
Definition dft_hit_by_opt1 (ks : list nwkw) : bool := existsb (fun k => k_opt1 k && k_dft k) ks.

(* first spec of field f in a template / token layout *)
Fixpoint spec_of_field (f : field) (tpl : list item) : option spec :=
  match tpl with
  | [] => None
  | Fld g sp :: r => if field_eqb f g then Some sp else spec_of_field f r
  | Lit _ :: r => spec_of_field f r
  end.
Fixpoint first_tf (f : field) (L : list tok) : option spec :=
  match L with
  | [] => None
  | TF g sp :: r => if field_eqb f g then Some sp else first_tf f r
  | TL _ :: r => first_tf f r
  end.
Definition decimals_of (f : field) (tpl : list item) : nat :=
  match spec_of_field f tpl with
  | Some sp => match s_kind sp with KFixed d => d | _ => 0%nat end
  | None => 0%nat
  end.
(* the atom a correct reader gets back: every coordinate rounded to the printed decimals *)
Definition round_atom (tpl : list item) (a : atom) : atom :=
  mkAtom (a_label a) (roundq (decimals_of FX tpl) (a_x a)) (roundq (decimals_of FY tpl) (a_y a))
         (roundq (decimals_of FZ tpl) (a_z a)).

(* an element symbol: non-empty, no separator characters, no longer than the longest symbol *)
Definition label_ok (sep : ascii -> bool) (l : str) : Prop :=
  nosep sep l /\ l <> [] /\ (List.length l <= max_label_len)%nat.
Definition env_ok (sep : ascii -> bool) (e : env) : Prop :=
  label_ok sep (e_label e) /\
  nosep sep (e_dtext e) /\ e_dtext e <> [] /\ nosep sep (e_other e) /\ e_other e <> [].

(* the generated rows of one kind *)
Definition templates_of (p : program) (k : lkind) : list (list item) :=
  flat_map (fun r => match r with
                     | (p', k', tpl) =>
                       if andb (match p, p' with
                                | ORCA, ORCA | G09, G09 | G16, G16 | NWChem, NWChem | QChem, QChem
                                | XTB, XTB | MOPAC, MOPAC | XYZ, XYZ => true | _, _ => false end)
                               (match k, k' with
                                | LCoord, LCoord | LCoordFixed, LCoordFixed | LChargeMult, LChargeMult
                                | LCharge, LCharge | LPointCharge, LPointCharge | LDist, LDist
                                | LDistFreeze, LDistFreeze | LCart, LCart | LInternal, LInternal
                                | LTitle, LTitle | LNAtoms, LNAtoms | LMult, LMult | LNopen, LNopen => true
                                | _, _ => false end)
                       then [tpl] else []
                     end) lines.

(* ------------------------------------------------------------------ readers used by correspondence only *)
(* xyz title line: "... charge = c mult = m ..." read by key *)
Fixpoint after_key (key : str) (ts : list str) : option str :=
  match ts with
  | a :: ((b :: c :: _) as r) => if str_eqb a key && str_eqb b (s2l "=") then Some c else after_key key r
  | _ => None
  end.
Definition read_title_int (key : string) (line : str) : option Z :=
  match after_key (s2l key) (tokens sep_blank_only line) with Some t => read_Z t | None => None end.

(* xTB "atoms: 1-3,6": expand the ranges, subtract the base *)
Definition sep_dash (c : ascii) : bool := Ascii.eqb c "-"%char.
Fixpoint zrange (fuel : nat) (a : Z) : list Z :=
  match fuel with O => [] | S f => a :: zrange f (a + 1) end.
Definition expand_range (t : str) : option (list Z) :=
  match tokens sep_dash t with
  | [a] => option_map (fun v => [v]) (read_nat a)
  | [a; b] => match read_nat a, read_nat b with
              | Some x, Some y => if x <=? y then Some (zrange (Z.to_nat (y - x + 1)) x) else None
              | _, _ => None
              end
  | _ => None
  end.
Fixpoint concat_opt (l : list (option (list Z))) : option (list Z) :=
  match l with
  | [] => Some []
  | None :: _ => None
  | Some a :: r => option_map (app a) (concat_opt r)
  end.
Definition read_xtb_atoms (line : str) : option (list Z) :=
  match tokens sep_xtb line with
  | key :: rs => if str_eqb key (s2l "atoms")
                 then option_map (map (fun v => v - 1)) (concat_opt (map expand_range rs))
                 else None
  | [] => None
  end.
