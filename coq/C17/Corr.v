(* C17/Corr.v — helpers used only by the correspondence check: the Coq readers are run on the
   exact text lines of the files the implementation wrote, and the Coq writer model is run on the
   exact rational values of the species' floats and compared with those lines character by
   character. *)
From Coq Require Import ZArith QArith Qabs List Ascii String Bool.
From AV.C17 Require Import Base Decimal Model.
From AV.gen Require Import C17_Gen.
Import ListNotations.
Open Scope list_scope.

Definition all (l : list bool) : bool := forallb (fun b => b) l.
Definition closeq (tol a b : Q) : bool := Qle_bool (Qabs (a - b)) tol.
Definition tol5 : Q := 1 # 100000.

Definition mk_env (lab : string) (x y z q dist : Q) (chg mult i j n : Z) (dtext other : string) : env :=
  mkEnv (s2l lab) x y z q dist chg mult i j n (s2l dtext) (s2l other).

(* the writer model prints exactly this line (one of the generated templates of that kind) *)
Definition check_render (p : program) (k : lkind) (e : env) (line : string) : bool :=
  existsb (fun tpl => str_eqb (render e tpl) (s2l line)) (templates_of p k).

(* one atom line read by the documented reader: symbol equal, coordinates within 1e-5 *)
Definition check_atom (p : program) (fixed : bool) (line lab : string) (x y z : Q) : bool :=
  match read_atom p (if fixed then LCoordFixed else LCoord) (s2l line) with
  | Some a => str_eqb (a_label a) (s2l lab) && closeq tol5 (a_x a) x && closeq tol5 (a_y a) y &&
              closeq tol5 (a_z a) z
  | None => false
  end.

Definition check_int (p : program) (k : lkind) (f : field) (line : string) (v : Z) : bool :=
  match read_int p k f (s2l line) with Some w => Z.eqb w v | None => false end.
Definition check_q (p : program) (k : lkind) (f : field) (line : string) (tol v : Q) : bool :=
  match read_q p k f (s2l line) with Some w => closeq tol w v | None => false end.

Definition check_title (line : string) (chg mult : Z) : bool :=
  match read_title_int "charge" (s2l line), read_title_int "mult" (s2l line) with
  | Some c, Some m => Z.eqb c chg && Z.eqb m mult
  | _, _ => false
  end.

Fixpoint zlist_eqb (a b : list Z) : bool :=
  match a, b with
  | [], [] => true
  | x :: a', y :: b' => Z.eqb x y && zlist_eqb a' b'
  | _, _ => false
  end.
Definition check_xtb_atoms (line : string) (idxs : list Z) : bool :=
  match read_xtb_atoms (s2l line) with Some l => zlist_eqb l idxs | None => false end.

(* the fixed-point writer alone (used for trajectory / energy fields and as a translator self-check) *)
Definition check_fmt (d : nat) (q : Q) (text : string) : bool := str_eqb (fmt_fixed d q) (s2l text).

(* NWChem: the multiplicity lines the control-flow model predicts = the `mult` / `nopen` lines found in the file
   (compared as counts: the trailing block is inserted near the top of the keyword list) *)
Definition count_kind (mult : bool) (l : list lkind) : nat :=
  List.length (filter (fun k => match k, mult with LMult, true => true | LNopen, false => true | _, _ => false end) l).
Definition check_nw_spin (task_scf : bool) (ks : list nwkw) (n_mult n_nopen : nat) : bool :=
  let l := nw_spin_lines nwchem_tail_guard task_scf ks in
  Nat.eqb (count_kind true l) n_mult && Nat.eqb (count_kind false l) n_nopen.
