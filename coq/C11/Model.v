(* C11/Model.v — executable model of autode/hessians.py (definitions only; proofs in Lemmas.v).

   The FORMULAS and INDEX EXPRESSIONS are not written here: they are the [gen_*] definitions of
   gen/C11_Gen.v, regenerated from the Python source on every run by tr/translate_c11.py.
   This file is the hand model of the CONTROL FLOW and STATE around them (tied to the
   implementation by the correspondence check of harness/c11.py):

   (a) NumericalHessianCalculator / HybridHessianCalculator as a state machine over an arbitrary
       field: _calculated_rows (a row is marked right AFTER it is stored), the generator _idxs_to_calculate, placement of
       rows (serial loop and process-pool branch), forward / central difference rows from a
       gradient oracle [grad : method -> geometry -> vector], the two passes of the hybrid
       calculator, the symmetrising `hessian` property.
   (b) the translation / rotation vectors of Hessian._tr_vecs, the mass weighting of _proj_matrix and
       _mass_weighted, the back-transformation of normal_modes_proj (D and S_bar are oracles: qr, eigh).
   (c) the eigenvalue -> wavenumber map at Qc with sqrt and pi as parameters, n_tr / frequencies_proj.

   Line numbers refer to autode/hessians.py of the tree the check runs against (the generated file
   carries the exact spans). *)
From Coq Require Import Arith Lia List Bool ZArith QArith Qcanon String.
From AV.lib Require Import Sums QcInst.
From AV.C11 Require Import Base.
From AV.gen Require Import C11_Gen.
Import ListNotations.
Local Open Scope nat_scope.

Section Model.
Variable E : fenv.
Notation F := (fF E).
Notation vec := (nat -> F).
Notation mat := (nat -> nat -> F).

(* ===================================================================================== (a) *)
Variable Meth : Type.
(* self._gradient(species) with the CURRENT self._method (hessians.py `_gradient`): the flat
   gradient (3 n_atoms,) of the species at its flat coordinates.  An oracle. *)
Variable grad : Meth -> vec -> vec.

Definition mem (r : nat) (l : list nat) : bool := existsb (Nat.eqb r) l.

(* position of (atom i, component k) in coordinates.flatten() / gradient.flatten(): numpy's
   row-major layout of an (n_atoms, 3) array.  (Not an expression of hessians.py.) *)
Definition flat (i k : nat) : nat := 3 * i + k.

(* _new_species(atom_idx, component, direction): a copy of the species in which component k of
   atom i is translated by +-shift (Atom.translate adds the vector). *)
Definition displaced (x : vec) (i k : nat) (plus : bool) (h : F) : vec :=
  fun j => if Nat.eqb j (flat i k) then fadd E (x j) (gen_displacement E plus h) else x j.

Record st : Type := mkSt { calc_rows : list nat;     (* self._calculated_rows *)
                           hess : mat }.             (* self._hessian         *)

(* _idxs_to_calculate: a generator WITHOUT side effect: (atom_idx, component) of every row index that is not in
   _calculated_rows at the moment it is reached. *)
Definition idxs_of (rows : list nat) (calc : list nat) : list (nat * nat) :=
  map (fun r => (gen_atom_idx r, gen_component r)) (filter (fun r => negb (mem r calc)) rows).
Definition idxs_to_calculate (n_atoms : nat) (calc : list nat) : list (nat * nat) :=
  idxs_of (seq 0 (gen_n_rows n_atoms)) calc.

(* self._hessian[r, :] = v *)
Definition set_row (H : mat) (r : nat) (v : vec) : mat :=
  fun i j => if Nat.eqb i r then v j else H i j.
(* storing a list of (row index, row) results, in list order *)
Definition place (H : mat) (res : list (nat * vec)) : mat :=
  fold_left (fun H rv => set_row H (fst rv) (snd rv)) res H.

(* _diff_row / _cdiff_row *)
Definition diff_row (m : Meth) (x g0 : vec) (h : F) (i k : nat) : vec :=
  gen_diff_row E (grad m (displaced x i k true h)) g0 h.
Definition cdiff_row (m : Meth) (x : vec) (h : F) (i k : nat) : vec :=
  gen_cdiff_row E (grad m (displaced x i k true h)) (grad m (displaced x i k false h)) h.
Definition row_fn (cdiff : bool) (m : Meth) (x g0 : vec) (h : F) (i k : nat) : vec :=
  if cdiff then cdiff_row m x h i k else diff_row m x g0 h i k.

(* one (row index, row) result; g0 = self._init_gradient = self._gradient(self._species), evaluated by calculate()
   BEFORE any row and read only when not cdiff *)
Definition job_of (row_of : nat -> nat -> nat) (cdiff : bool) (m : Meth) (x : vec) (h : F) (ik : nat * nat) : nat * vec :=
  let g0 := grad m x in (row_of (fst ik) (snd ik), row_fn cdiff m x g0 h (fst ik) (snd ik)).
Definition jobs_of (row_of : nat -> nat -> nat) (cdiff : bool) (m : Meth) (x : vec) (h : F)
                   (idxs : list (nat * nat)) : list (nat * vec) := map (job_of row_of cdiff m x h) idxs.

(* process-pool branch of calculate(): the job list is built first (the generator is consumed against the
   _calculated_rows of that moment); every job is evaluated by some worker (a pure function of (i,k): which worker,
   and when, cannot influence the value); then each result is stored at its row index and that index is appended to
   _calculated_rows.  [collect] = the order in which results are handed over (identity in the code; any order /
   any split over workers in the theorems). *)
Definition calculate_gen (row_of : nat -> nat -> nat) (collect : list (nat * vec) -> list (nat * vec))
                         (cdiff : bool) (m : Meth) (x : vec) (h : F) (n_atoms : nat) (s : st) : st :=
  let res := collect (jobs_of row_of cdiff m x h (idxs_to_calculate n_atoms (calc_rows s))) in
  mkSt (calc_rows s ++ map fst res) (place (hess s) res).
Definition calculate_parallel := calculate_gen gen_row_parallel (fun l => l).

(* _calculate_in_serial (taken when calculate() runs inside a worker process): the generator is consumed lazily, each
   row is evaluated, stored at gen_row_serial and then marked (gen_mark_serial) before the next index is tested *)
Fixpoint serial_loop (job : nat * nat -> nat * vec) (rows : list nat) (s : st) : st :=
  match rows with
  | [] => s
  | r :: rs =>
      if mem r (calc_rows s) then serial_loop job rs s
      else let ik := (gen_atom_idx r, gen_component r) in
           serial_loop job rs (mkSt (calc_rows s ++ [gen_mark_serial (fst ik) (snd ik)])
                                    (set_row (hess s) (fst (job ik)) (snd (job ik))))
  end.
Definition calculate_serial (cdiff : bool) (m : Meth) (x : vec) (h : F) (n_atoms : nat) (s : st) : st :=
  serial_loop (job_of gen_row_serial cdiff m x h) (seq 0 (gen_n_rows n_atoms)) s.

(* the `hessian` property: symmetrises self._hessian IN PLACE and returns it *)
Definition hessian_prop (s : st) : st := mkSt (calc_rows s) (gen_symmetrise E (hess s)).

(* ---- HybridHessianCalculator ---- *)
(* list.remove(r): first occurrence; ValueError (None) when absent *)
Fixpoint remove_first (r : nat) (l : list nat) : option (list nat) :=
  match l with
  | [] => None
  | y :: t => if Nat.eqb y r then Some t else option_map (cons y) (remove_first r t)
  end.
Fixpoint remove_all (rs : list nat) (calc : list nat) : option (list nat) :=
  match rs with
  | [] => Some calc
  | r :: t => match remove_first r calc with None => None | Some c => remove_all t c end
  end.
Definition hrows_of (atom : nat) : list nat := map (gen_hrow atom) (seq 0 gen_hrow_components).
(* _remove_h_method_rows; [hidxs] is the iteration order of the set self._hmethod_atom_idxs
   (its elements are distinct; every theorem holds for every order) *)
Definition remove_h_method_rows (hidxs : list nat) (calc : list nat) : option (list nat) :=
  remove_all (flat_map hrows_of hidxs) calc.

Inductive result : Type := Ok (s : st) | ValueError.

(* __init__: set(idxs).issubset(set(range(species.n_atoms))) else ValueError; the matrix starts as zeros *)
Definition hybrid_valid (n_atoms : nat) (hidxs : list nat) : bool := forallb (fun a => a <? n_atoms) hidxs.
Definition zeros : mat := fun _ _ => f0 E.

(* HybridHessianCalculator.calculate: pass 1 with the low-level method (do_c_diff = False, every row),
   _remove_h_method_rows, switch to the high-level method, pass 2 *)
Definition hybrid_calculate (calc1 : bool -> Meth -> vec -> F -> nat -> st -> st)
                            (lm hm : Meth) (x : vec) (h : F) (n_atoms : nat) (hidxs : list nat) : result :=
  if negb (hybrid_valid n_atoms hidxs) then ValueError else
  let s1 := calc1 false lm x h n_atoms (mkSt [] zeros) in
  match remove_h_method_rows hidxs (calc_rows s1) with
  | None => ValueError
  | Some c => Ok (calc1 false hm x h n_atoms (mkSt c (hess s1)))
  end.

(* ===================================================================================== (b) *)
Definition total_mass (n : nat) (m : nat -> F) : F := Sum E n m.
(* Atoms.com: sum_i m_i r_i / sum_i m_i ;  X is the flat coordinate vector *)
Definition com (n : nat) (m : nat -> F) (X : vec) (k : nat) : F :=
  fdiv E (Sum E n (fun i => fmul E (m i) (X (flat i k)))) (total_mass n m).
(* np.cross on 3-vectors *)
Definition cross (a b : vec) : vec :=
  fun k => match k with
           | 0 => fsub E (fmul E (a 1) (b 2)) (fmul E (a 2) (b 1))
           | 1 => fsub E (fmul E (a 2) (b 0)) (fmul E (a 0) (b 2))
           | 2 => fsub E (fmul E (a 0) (b 1)) (fmul E (a 1) (b 0))
           | _ => f0 E
           end.
Definition dot3 (a b : vec) : F :=
  fadd E (fadd E (fmul E (a 0) (b 0)) (fmul E (a 1) (b 1))) (fmul E (a 2) (b 2)).
(* _tr_vecs: t1..t3 = np.tile(e, reps=n_atoms);  t4..t6 = concatenation of np.cross(e, atom.coord - com) *)
Definition tile (e : vec) : vec := fun j => e (j mod 3).
Definition rot_vec (n : nat) (m : nat -> F) (X : vec) (e : vec) : vec :=
  fun j => cross e (fun k => fsub E (X (flat (j / 3) k)) (com n m X k)) (j mod 3).
Definition tr_vecs (n : nat) (m : nat -> F) (X : vec) (ex ey ez : vec) : list vec :=
  [tile ex; tile ey; tile ez; rot_vec n m X ex; rot_vec n m X ey; rot_vec n m X ez].
(* _proj_matrix: masses = np.repeat(masses, 3);  t_i <- M^1/2 t_i ; t_i /= norm(t_i) *)
Definition mass_rep (m : nat -> F) : vec := fun j => m (j / 3).
Definition mw_vec (m : nat -> F) (t : vec) : vec := fun j => fmul E (fsqrt E (mass_rep m j)) (t j).
Definition norm (d : nat) (v : vec) : F := fsqrt E (Dot E d v v).
Definition normalised (d : nat) (v : vec) : vec := Vdivs E v (norm d v).
(* the inner product of two vectors after mass weighting, written without square roots *)
Definition mdot (n : nat) (m : nat -> F) (a b : vec) : F :=
  Sum E (3 * n) (fun j => fmul E (fmul E (mass_rep m j) (a j)) (b j)).

(* _mass_weighted: H.to(<unit>) / sqrt(outer(masses.to(<unit>) repeated)) ; the two unit
   conversions are parameters here (instantiated with the C06 conversion in Lemmas.v) *)
Definition mass_weighted (conv_h conv_m : F -> F) (H : mat) (m : nat -> F) : mat :=
  fun i j => gen_mw_entry E (conv_h (H i j)) (conv_m (m (i / gen_mw_repeats))) (conv_m (m (j / gen_mw_repeats))).

(* normal_modes_proj: S' = [[0, 0], [0, S_bar]] ; mode_i = D S'[:, i], normalised for i >= n_tr.
   D = _proj_matrix (np.linalg.qr) and S_bar (np.linalg.eigh of the [n_tr:, n_tr:] block) are oracles. *)
Definition s_prime (ntr : nat) (Sbar : mat) : mat :=
  fun i j => if (i <? ntr) || (j <? ntr) then f0 E else Sbar (i - ntr) (j - ntr).
Definition mode_raw (d ntr : nat) (D Sbar : mat) (i : nat) : vec :=
  Matvec E d D (fun r => s_prime ntr Sbar r i).
Definition mode (d ntr : nat) (D Sbar : mat) (i : nat) : vec :=
  if i <? ntr then mode_raw d ntr D Sbar i else normalised d (mode_raw d ntr D Sbar i).
Definition col (A : mat) (a : nat) : vec := fun r => A r a.

(* ===================================================================================== specification vocabulary *)
(* Used only to STATE the theorems of Props.v: the finite differences the property speaks about,
   written out.  x + h e_(3i+k) is the geometry with component k of atom i displaced by h. *)
Definition TWO : F := cst E 2 1.     (* the literal 2 / 2.0 of the source *)
Definition plus_h (x : vec) (i k : nat) (h : F) : vec :=
  fun j => if Nat.eqb j (3 * i + k) then fadd E (x j) h else x j.
Definition minus_h (x : vec) (i k : nat) (h : F) : vec :=
  fun j => if Nat.eqb j (3 * i + k) then fadd E (x j) (fopp E h) else x j.
Definition forward_fd (m : Meth) (x : vec) (h : F) (i k j : nat) : F :=
  fdiv E (fsub E (grad m (plus_h x i k h) j) (grad m x j)) h.
Definition central_fd (m : Meth) (x : vec) (h : F) (i k j : nat) : F :=
  fdiv E (fsub E (grad m (plus_h x i k h) j) (grad m (minus_h x i k h) j)) (fmul E TWO h).
Definition fd (cdiff : bool) : Meth -> vec -> F -> nat -> nat -> nat -> F :=
  if cdiff then central_fd else forward_fd.
(* what np.linalg.qr / np.linalg.eigh return: a matrix whose columns are orthonormal *)
Definition orthonormal (d : nat) (A : mat) : Prop :=
  forall a b, a < d -> b < d ->
    Dot E d (fun r => A r a) (fun r => A r b) = if Nat.eqb a b then f1 E else f0 E.

End Model.

(* ===================================================================================== (c) *)
(* Atoms.are_linear (autode/atoms.py): fewer than 2 atoms -> False, exactly 2 -> True, otherwise the
   cosine test over atoms 2.. (an oracle: [collinear]) *)
Definition are_linear (n_atoms : nat) (collinear : bool) : bool :=
  if n_atoms <? 2 then false else if n_atoms =? 2 then true else collinear.
Definition n_tr (n_atoms : nat) (collinear : bool) : nat := gen_n_tr (are_linear n_atoms collinear).
Definition n_v (n_atoms : nat) (collinear : bool) : Z := gen_n_v n_atoms (n_tr n_atoms collinear).

(* the arithmetic environment at canonical rationals; sqrt and pi are parameters *)
Definition Qc_eqb (a b : Qc) : bool := Qeq_bool (this a) (this b).
Definition envQ (sq : Qc -> Qc) (pi : Qc) : fenv :=
  mkFenv Qc (Q2Qc 0) (Q2Qc 1) Qcplus Qcmult Qcminus Qcopp Qcdiv Qcinv Qcltb Qc_eqb sq Qcabs pi.

(* Hessian.frequencies_proj is a functools.cached_property (gen_cached_properties): the FIRST access stores the list on
   the object, later accesses return the stored list whatever Config.freq_scale_factor has become.
   [cache] = the stored value (None before the first access); returns (value seen by the caller, new cache). *)
Definition is_cached (name : string) : bool := existsb (String.eqb name) gen_cached_properties.
Definition access (name : string) (cache : option (list Qc)) (compute : list Qc) : list Qc * option (list Qc) :=
  if is_cached name then match cache with Some v => (v, cache) | None => (compute, Some compute) end
  else (compute, cache).
(* two successive accesses of frequencies_proj on one object, the configured scale being s1 then s2 *)
Definition freqs_twice (sq : Qc -> Qc) (pi s1 s2 : Qc) (n_atoms : nat) (collinear : bool) (lambdas : list Qc)
  : list Qc * list Qc :=
  let f := fun s => gen_frequencies_proj (envQ sq pi) (gen_freq (envQ sq pi) s)
                      (gen_n_tr (are_linear n_atoms collinear)) lambdas in
  let '(r1, c1) := access "frequencies_proj" None (f s1) in
  let '(r2, _) := access "frequencies_proj" c1 (f s2) in (r1, r2).

(* witness gradient of Props.hybrid_columns_high_level_refuted: the high-level method couples coordinates
   0 and 3 (d g_3 / d x_0 = d g_0 / d x_3 = 1), the low-level gradient vanishes *)
Definition witness_grad (high : bool) (x : nat -> Qc) : nat -> Qc :=
  fun j => if high then match j with 0%nat => x 3%nat | 3%nat => x 0%nat | _ => Q2Qc 0 end else Q2Qc 0.

(* Hessian._eigenvalues_to_freqs for one eigenvalue, scale = Hessian._freq_scale_factor *)
Definition freq (sq : Qc -> Qc) (pi : Qc) (scale lambda : Qc) : Qc := gen_freq (envQ sq pi) scale lambda.
(* Hessian.frequencies_proj given the eigenvalues of the projected block (oracle) *)
Definition frequencies_proj (sq : Qc -> Qc) (pi : Qc) (scale : Qc) (n_atoms : nat) (collinear : bool)
                            (lambdas : list Qc) : list Qc :=
  gen_frequencies_proj (envQ sq pi) (freq sq pi scale) (n_tr n_atoms collinear) lambdas.
